import MV.Proof.EdgeOpOrbit
import MV.Proof.EdgeOpLocal
/-!
`CollapseEdge` (edge_op.cpp:799-913), the straight-line case: when the link condition holds the
"Orbit startVert" loop never calls `FormLoop`, and the collapse keeps the mesh manifold
(`collapseEdge_straight`; `collapseEdge_straight_core` is the same up to the final `RemoveIfFolded`).

Plan of the proof: `orbitEnd_eval`, `findEdge_none`, `collapseLoop_straight` evaluate the two orbit
loops; `collapse_prefix` composes `CollapseTri(tri1)`, the loops and `UpdateVert` and describes the
state reached pointwise; `good_other` / `good_nonspecial` show that a halfedge away from the two
triangles and the four outer partners stays `Good` under the relabelling (the heart: relabelling is
consistent across the pairing, `Cfg.rel_pn2/rel_pn'/rel_nx/rel_nx'`); the four cases
`collapse_case_pp/zp/pz/zz` (valence of `startVert` / `endVert` equal to 2 or not) finish with
`CollapseTri(tri0)`.
-/
namespace MV.EdgeOp
open MV.Halfedge (HErr rd wr nextHalfedge rd_ok wr_ok)

/-! ## live halfedges under `PairInv` -/

/-- everything `CheckHalfedges` says about a live halfedge of a manifold state -/
structure LiveF (s : HE) (e : Nat) : Prop where
  lt : e < s.start.size
  pl : s.P e ≠ -1
  nlt : nx e < s.start.size
  npl : s.P (nx e) ≠ -1
  s0 : s.S e ≠ -1
  s1 : s.S (nx e) ≠ -1
  s2 : s.S (nx (nx e)) ≠ -1
  p0 : 0 ≤ s.P e
  plt : s.Pn e < s.start.size
  pp : s.P (s.Pn e) = (e : Int)
  ppl : s.P (s.Pn e) ≠ -1
  pn : s.Pn (s.Pn e) = e
  nd : s.S e ≠ s.S (nx e)
  se : s.S e = s.S (nx (s.Pn e))
  es : s.S (nx e) = s.S (s.Pn e)

theorem liveF {s : HE} (h : PairInv s) {e : Nat} (he : e < s.start.size) (hl : s.P e ≠ -1) :
    LiveF s e := by
  obtain ⟨a, b, c, d, f, g, i, j⟩ := Good.live (h.good he) hl
  have hn : nx e < s.start.size := nx_lt h.1.2.2 he
  have hnl : s.P (nx e) ≠ -1 := by
    intro hc
    rcases (good_iff s (nx e)).1 (h.good hn) with ⟨x, _, _⟩ | ⟨_, _, x, _⟩
    · exact a x
    · omega
  have hpl : s.P (s.Pn e) ≠ -1 := by omega
  obtain ⟨a', _, _, _, _, _, _, _⟩ := Good.live (h.good d) hpl
  have hpn : s.Pn (s.Pn e) = e := by
    have : s.Pn (s.Pn e) = (s.P (s.Pn e)).toNat := rfl
    rw [this, f]; rfl
  exact ⟨he, hl, hn, hnl, by rw [i]; exact a', a, b, c, d, f, hpl, hpn, g, i, j⟩

theorem notin_tri {x a : Nat} (h0 : x ≠ a) (h1 : x ≠ nx a) (h2 : x ≠ nx (nx a)) : x / 3 ≠ a / 3 := by
  intro h
  rcases nx_cases h.symm with h | h | h
  · exact h0 h
  · exact h1 h
  · exact h2 h

/-- a minimal walk does not return to its origin before reaching its target -/
theorem walk_no_period {s : HE} {c0 k e : Nat} (hk : s.walk c0 k = e)
    (hkmin : ∀ i, i < k → s.walk c0 i ≠ e) (i : Nat) (hi : i < k) (hper : s.walk c0 (i + 1) = c0) :
    False := by
  have h1 := walk_add s c0 (i + 1) (k - (i + 1))
  rw [hper] at h1
  have e1 : (i + 1) + (k - (i + 1)) = k := by omega
  rw [e1, hk] at h1
  exact hkmin (k - (i + 1)) (by omega) h1.symm

/-! ## states that differ in `prop` only -/

/-- same `start`, `paired`, counters and `prop` size -/
def Sim (t s : HE) : Prop :=
  t.start = s.start ∧ t.paired = s.paired ∧ t.prop.size = s.prop.size ∧ t.nVert = s.nVert ∧
    t.nPropVert = s.nPropVert

theorem Sim.refl (s : HE) : Sim s s := ⟨rfl, rfl, rfl, rfl, rfl⟩
theorem Sim.trans {a b c : HE} (h1 : Sim a b) (h2 : Sim b c) : Sim a c :=
  ⟨h1.1.trans h2.1, h1.2.1.trans h2.2.1, h1.2.2.1.trans h2.2.2.1, h1.2.2.2.1.trans h2.2.2.2.1,
    h1.2.2.2.2.trans h2.2.2.2.2⟩
theorem Sim.S {t s : HE} (h : Sim t s) (e : Nat) : t.S e = s.S e := by unfold HE.S; rw [h.1]
theorem Sim.P {t s : HE} (h : Sim t s) (e : Nat) : t.P e = s.P e := by unfold HE.P; rw [h.2.1]
theorem Sim.Pn {t s : HE} (h : Sim t s) (e : Nat) : t.Pn e = s.Pn e := by unfold HE.Pn; rw [h.2.1]
theorem Sim.walk {t s : HE} (h : Sim t s) (c i : Nat) : t.walk c i = s.walk c i :=
  walk_congr h.2.1 c i
theorem Sim.size {t s : HE} (h : Sim t s) : t.start.size = s.start.size := by rw [h.1]
theorem Sim.WF {t s : HE} (h : Sim t s) (hw : WF s) : WF t := by
  unfold MV.EdgeOp.WF at *; rw [h.1, h.2.1, h.2.2.1]; exact hw
theorem Sim.setR (s : HE) (i : Nat) (v : Int) : Sim (s.setR i v) s :=
  ⟨rfl, rfl, by simp, rfl, rfl⟩

/-! ## the `for (i < edges.size())` search finds nothing -/

theorem findEdge_none (s : HE) (vert : Int) (edges : Array Int) :
    ∀ n i, (∀ idx, i ≤ idx → idx < i + n → ∃ e : Nat, edges[idx]? = some (e : Int) ∧
        nx e < s.start.size ∧ vert ≠ s.S (nx e)) →
      findEdge s vert edges n i = .ok none := by
  intro n
  induction n with
  | zero => intro i _; rfl
  | succ n ih =>
    intro i hyp
    obtain ⟨e, h1, h2, h3⟩ := hyp i (Nat.le_refl _) (by omega)
    unfold findEdge
    rw [rd_ok h1]
    simp only [bind, Except.bind]
    rw [getEnd_ok s e h2]
    simp only [if_neg h3]
    exact ih (i + 1) (fun idx a b => hyp idx (by omega) (by omega))

/-! ## "Orbit endVert" -/

/-- the list pushed by the "Orbit endVert" loop: `nx d_0, …, nx d_{m-1}` -/
def orbL (s : HE) : Nat → Nat → List Int
  | _, 0 => []
  | d, m + 1 => ((nx d : Nat) : Int) :: orbL s (s.Pn (nx d)) m

theorem mem_orbL (s : HE) : ∀ m d x, x ∈ orbL s d m → ∃ j, j < m ∧ x = ((nx (s.walk d j) : Nat) : Int) := by
  intro m
  induction m with
  | zero => intro d x h; simp [orbL] at h
  | succ m ih =>
    intro d x h
    simp only [orbL, List.mem_cons] at h
    rcases h with h | h
    · exact ⟨0, by omega, h⟩
    · obtain ⟨j, hj, hx⟩ := ih _ _ h
      exact ⟨j + 1, by omega, by rw [walk_succ']; exact hx⟩

theorem orbitEnd_eval (s : HE) (stop : Int) :
    ∀ m f d acc, m < f →
      (∀ j, j < m → nx (s.walk d j) < s.paired.size ∧ 0 ≤ s.P (nx (s.walk d j))) →
      ((s.walk d m : Nat) : Int) = stop → (∀ j, j < m → ((s.walk d j : Nat) : Int) ≠ stop) →
      orbitEnd s stop f (d : Int) acc = .ok (acc ++ (orbL s d m).toArray) := by
  intro m
  induction m with
  | zero =>
    intro f d acc hf _ hs _
    obtain ⟨f, rfl⟩ : ∃ f', f = f' + 1 := ⟨f - 1, by omega⟩
    unfold orbitEnd
    simp only [walk_zero] at hs
    rw [if_pos hs]
    simp [orbL, pure, Except.pure]
  | succ m ih =>
    intro f d acc hf hr hs hmin
    obtain ⟨f, rfl⟩ : ∃ f', f = f' + 1 := ⟨f - 1, by omega⟩
    have h0 := hmin 0 (by omega)
    simp only [walk_zero] at h0
    obtain ⟨r1, r2⟩ := hr 0 (by omega)
    simp only [walk_zero] at r1 r2
    unfold orbitEnd
    simp only [if_neg h0, nextI_cast]
    rw [getPair_ok s (nx d) r1]
    simp only [bind, Except.bind]
    rw [← Pn_cast s (nx d) r2]
    rw [ih f (s.Pn (nx d)) (acc.push ((nx d : Nat) : Int)) (by omega)
      (fun j hj => by rw [← walk_succ']; exact hr (j + 1) (by omega))
      (by rw [← walk_succ']; exact hs)
      (fun j hj => by rw [← walk_succ']; exact hmin (j + 1) (by omega))]
    congr 1
    apply Array.toList_inj.1
    simp [orbL]

/-! ## "Orbit startVert" when no `FormLoop` happens -/

theorem propStep_ok (hasProp : Bool) (sp0 ep0 sp1 ep1 : Int) (t : HE) (n : Nat)
    (hn : n < t.prop.size) :
    ∃ t1, (if hasProp then (do
                let p ← t.getProp (n : Int)
                if p = sp0 then t.setProp (n : Int) ep0
                else if p = sp1 then t.setProp (n : Int) ep1
                else pure t)
              else pure t : M HE) = .ok t1 ∧ Sim t1 t := by
  cases hasProp
  · exact ⟨t, rfl, Sim.refl t⟩
  · simp only [if_true]
    rw [getProp_ok t n hn]
    simp only [bind, Except.bind]
    by_cases h0 : t.R n = sp0
    · rw [if_pos h0, setProp_ok t n ep0 hn]; exact ⟨_, rfl, Sim.setR _ _ _⟩
    · rw [if_neg h0]
      by_cases h1 : t.R n = sp1
      · rw [if_pos h1, setProp_ok t n ep1 hn]; exact ⟨_, rfl, Sim.setR _ _ _⟩
      · rw [if_neg h1]; exact ⟨t, rfl, Sim.refl t⟩

theorem ite_bind_same {α β : Type} (c : Prop) [Decidable c] (a b : M α) (k : α → M β) :
    (if c then a >>= k else b >>= k) = (if c then a else b) >>= k := by
  split <;> rfl

theorem collapseLoop_straight (hasProp : Bool) (sp0 ep0 sp1 ep1 stop st : Int) (edges : Array Int) :
    ∀ k f c t, k < f → WF t →
      (∀ i, i ≤ k → t.walk c i < t.start.size) →
      (∀ i, i < k → 0 ≤ t.P (nx (t.walk c i))) →
      ((t.walk c k : Nat) : Int) = stop → (∀ i, i < k → ((t.walk c i : Nat) : Int) ≠ stop) →
      (∀ i, i < k → ∀ idx, idx < edges.size → ∃ e : Nat, edges[idx]? = some (e : Int) ∧
        nx e < t.start.size ∧ t.S (nx (nx (t.walk c i))) ≠ t.S (nx e)) →
      ∃ t', collapseLoop hasProp sp0 ep0 sp1 ep1 stop f (c : Int) st edges t = .ok (t', st, edges) ∧
        Sim t' t := by
  intro k
  induction k with
  | zero =>
    intro f c t hf _ _ _ hs _ _
    obtain ⟨f, rfl⟩ : ∃ f', f = f' + 1 := ⟨f - 1, by omega⟩
    simp only [walk_zero] at hs
    unfold collapseLoop
    rw [if_pos hs]
    exact ⟨t, rfl, Sim.refl t⟩
  | succ k ih =>
    intro f c t hf hw hr hp hs hmin hed
    obtain ⟨f, rfl⟩ : ∃ f', f = f' + 1 := ⟨f - 1, by omega⟩
    have h0 := hmin 0 (by omega)
    have r0 := hr 0 (by omega)
    have p0 := hp 0 (by omega)
    simp only [walk_zero] at h0 r0 p0
    have hn : nx c < t.start.size := nx_lt hw.2.2 r0
    have hnn : nx (nx c) < t.start.size := nx_lt hw.2.2 hn
    obtain ⟨t1, e1, hs1⟩ := propStep_ok hasProp sp0 ep0 sp1 ep1 t (nx c) (by rw [hw.2.1, ← hw.1]; exact hn)
    unfold collapseLoop
    simp only [if_neg h0, nextI_cast]
    rw [ite_bind_same, e1]
    simp only [bind, Except.bind]
    rw [getEnd_ok t1 (nx c) (by rw [hs1.size]; exact hnn)]
    simp only []
    rw [getPair_ok t1 (nx c) (by rw [hs1.2.1, ← hw.1]; exact hn)]
    simp only []
    rw [findEdge_none t1 _ edges edges.size 0 (fun idx _ hi => by
      obtain ⟨e, a, b, c'⟩ := hed 0 (by omega) idx (by omega)
      refine ⟨e, a, by rw [hs1.size]; exact b, ?_⟩
      rw [hs1.S, hs1.S]; simpa using c')]
    simp only []
    rw [hs1.P, ← Pn_cast t (nx c) p0]
    have hw1 : WF t1 := hs1.WF hw
    obtain ⟨t', e2, hs2⟩ := ih f (t.Pn (nx c)) t1 (by omega) hw1
      (fun i hi => by rw [hs1.walk, hs1.size, ← walk_succ']; exact hr (i + 1) (by omega))
      (fun i hi => by rw [hs1.walk, hs1.P, ← walk_succ']; exact hp (i + 1) (by omega))
      (by rw [hs1.walk, ← walk_succ']; exact hs)
      (fun i hi => by rw [hs1.walk, ← walk_succ']; exact hmin (i + 1) (by omega))
      (fun i hi idx hidx => by
        obtain ⟨e, a, b, c'⟩ := hed (i + 1) (by omega) idx hidx
        refine ⟨e, a, by rw [hs1.size]; exact b, ?_⟩
        rw [hs1.walk, hs1.S, hs1.S, ← walk_succ']; exact c')
    exact ⟨t', e2, hs2.trans hs1⟩

/-! ## the configuration of a straight-line collapse -/

/-- hypotheses of the straight-line collapse.  `pair = Pn edge`, tri0 = `edge, nx edge, nx (nx edge)`,
tri1 = `pair, nx pair, nx (nx pair)`; the fan of `startVert` is walked from `c0 = Pn (nx pair)`, the
fan of `endVert` from `d0 = Pn (nx edge)`. -/
structure Cfg (s : HE) (edge k m : Nat) : Prop where
  h : PairInv s
  he : edge < s.start.size
  hl : s.P edge ≠ -1
  hk : s.walk (s.Pn (nx (s.Pn edge))) k = nx (nx edge)
  hkmin : ∀ i, i < k → s.walk (s.Pn (nx (s.Pn edge))) i ≠ nx (nx edge)
  hm : s.walk (s.Pn (nx edge)) m = nx (nx (s.Pn edge))
  hmmin : ∀ j, j < m → s.walk (s.Pn (nx edge)) j ≠ nx (nx (s.Pn edge))
  hlink : ∀ i, i < k → ∀ j, j < m →
    s.S (nx (nx (s.walk (s.Pn (nx (s.Pn edge))) i))) ≠ s.S (nx (nx (s.walk (s.Pn (nx edge)) j)))
  hdup : ∀ i, i < k → s.S (nx (nx (s.walk (s.Pn (nx (s.Pn edge))) i))) ≠ s.S (nx edge)

/-- the ten live halfedges around the collapsing edge -/
structure Geo (s : HE) (edge : Nat) : Prop where
  ledge : LiveF s edge
  le1 : LiveF s (nx edge)
  le2 : LiveF s (nx (nx edge))
  lpr : LiveF s (s.Pn edge)
  lq1 : LiveF s (nx (s.Pn edge))
  lq2 : LiveF s (nx (nx (s.Pn edge)))
  lc0 : LiveF s (s.Pn (nx (s.Pn edge)))
  lr : LiveF s (s.Pn (nx (nx (s.Pn edge))))
  lu : LiveF s (s.Pn (nx edge))
  lv : LiveF s (s.Pn (nx (nx edge)))

theorem geo_of {s : HE} {edge : Nat} (h : PairInv s) (he : edge < s.start.size) (hl : s.P edge ≠ -1) :
    Geo s edge := by
  have ledge := liveF h he hl
  have le1 := liveF h ledge.nlt ledge.npl
  have le2 := liveF h le1.nlt le1.npl
  have lpr := liveF h ledge.plt ledge.ppl
  have lq1 := liveF h lpr.nlt lpr.npl
  have lq2 := liveF h lq1.nlt lq1.npl
  exact ⟨ledge, le1, le2, lpr, lq1, lq2, liveF h lq1.plt lq1.ppl, liveF h lq2.plt lq2.ppl,
    liveF h le1.plt le1.ppl, liveF h le2.plt le2.ppl⟩

/-- the vertex labels around the collapsing edge: `A = startVert`, `B = endVert`, `w0`, `w1` the
two apexes -/
structure Lab (s : HE) (edge : Nat) : Prop where
  ab : s.S edge ≠ s.S (nx edge)
  bw0 : s.S (nx edge) ≠ s.S (nx (nx edge))
  w0a : s.S (nx (nx edge)) ≠ s.S edge
  aw1 : s.S edge ≠ s.S (nx (nx (s.Pn edge)))
  w1b : s.S (nx (nx (s.Pn edge))) ≠ s.S (nx edge)
  a1 : s.S edge ≠ -1
  b1 : s.S (nx edge) ≠ -1
  w01 : s.S (nx (nx edge)) ≠ -1
  w11 : s.S (nx (nx (s.Pn edge))) ≠ -1
  spr : s.S (s.Pn edge) = s.S (nx edge)
  sq1 : s.S (nx (s.Pn edge)) = s.S edge
  sc0 : s.S (s.Pn (nx (s.Pn edge))) = s.S (nx (nx (s.Pn edge)))
  snc0 : s.S (nx (s.Pn (nx (s.Pn edge)))) = s.S edge
  sr : s.S (s.Pn (nx (nx (s.Pn edge)))) = s.S (nx edge)
  snr : s.S (nx (s.Pn (nx (nx (s.Pn edge))))) = s.S (nx (nx (s.Pn edge)))
  su : s.S (s.Pn (nx edge)) = s.S (nx (nx edge))
  snu : s.S (nx (s.Pn (nx edge))) = s.S (nx edge)
  sv : s.S (s.Pn (nx (nx edge))) = s.S edge
  snv : s.S (nx (s.Pn (nx (nx edge)))) = s.S (nx (nx edge))

theorem lab_of {s : HE} {edge : Nat} (G : Geo s edge) : Lab s edge := by
  have h1 := G.ledge.nd; have h2 := G.ledge.es; have h3 := G.ledge.se
  have h4 := G.le1.nd; have h5 := G.le1.es; have h6 := G.le1.se
  have h7 := G.le2.nd; have h8 := G.le2.es; have h9 := G.le2.se
  have h10 := G.lq1.nd; have h11 := G.lq1.es; have h12 := G.lq1.se
  have h13 := G.lq2.nd; have h14 := G.lq2.es; have h15 := G.lq2.se
  have h16 := G.ledge.s0; have h17 := G.le1.s0; have h18 := G.le2.s0; have h19 := G.lq2.s0
  simp only [nx_nx_nx] at *
  constructor <;> grind

/-- position facts: tri0 ≠ tri1, the four partner halfedges `c0 = Pn (nx pair)`, `r = Pn (nx (nx pair))`,
`u = Pn (nx edge)`, `v = Pn (nx (nx edge))` lie outside both triangles and are distinct -/
structure Dist (s : HE) (edge k m : Nat) : Prop where
  t01 : s.Pn edge / 3 ≠ edge / 3
  c0t0 : 0 < k → s.Pn (nx (s.Pn edge)) / 3 ≠ edge / 3
  c0t1 : s.Pn (nx (s.Pn edge)) / 3 ≠ s.Pn edge / 3
  rt0 : 0 < m → s.Pn (nx (nx (s.Pn edge))) / 3 ≠ edge / 3
  rt1 : s.Pn (nx (nx (s.Pn edge))) / 3 ≠ s.Pn edge / 3
  ut0 : s.Pn (nx edge) / 3 ≠ edge / 3
  ut1 : 0 < m → s.Pn (nx edge) / 3 ≠ s.Pn edge / 3
  vt0 : s.Pn (nx (nx edge)) / 3 ≠ edge / 3
  vt1 : 0 < k → s.Pn (nx (nx edge)) / 3 ≠ s.Pn edge / 3
  c0r : s.Pn (nx (s.Pn edge)) ≠ s.Pn (nx (nx (s.Pn edge)))
  c0u : s.Pn (nx (s.Pn edge)) ≠ s.Pn (nx edge)
  c0v : s.Pn (nx (s.Pn edge)) ≠ s.Pn (nx (nx edge))
  ru : s.Pn (nx (nx (s.Pn edge))) ≠ s.Pn (nx edge)
  rv : s.Pn (nx (nx (s.Pn edge))) ≠ s.Pn (nx (nx edge))
  uv : s.Pn (nx edge) ≠ s.Pn (nx (nx edge))

theorem dist_of {s : HE} {edge k m : Nat} (C : Cfg s edge k m) : Dist s edge k m := by
  have G := geo_of C.h C.he C.hl
  obtain ⟨ab, bw0, w0a, aw1, w1b, a1, b1, w01, w11, spr, sq1, sc0, snc0, sr, snr, su, snu, sv, snv⟩ :=
    lab_of G
  have k0 : 0 < k → s.Pn (nx (s.Pn edge)) ≠ nx (nx edge) := fun kpos => C.hkmin 0 kpos
  have m0 : 0 < m → s.Pn (nx edge) ≠ nx (nx (s.Pn edge)) := fun mpos => C.hmmin 0 mpos
  have p1 := G.le1.pn; have p2 := G.le2.pn; have p3 := G.lq1.pn; have p4 := G.lq2.pn
  have n1 := nx_nx_nx edge; have n2 := nx_nx_nx (s.Pn edge)
  constructor
  all_goals first | grind | (apply notin_tri <;> grind) | (intro hpos; apply notin_tri <;> grind)

section fans
variable {s : HE} {edge k m : Nat}

/-- the fan of `startVert`: every walk point is live and ends at `startVert` -/
theorem Cfg.cw (C : Cfg s edge k m) (i : Nat) :
    s.walk (s.Pn (nx (s.Pn edge))) i < s.start.size ∧ s.P (s.walk (s.Pn (nx (s.Pn edge))) i) ≠ -1 ∧
      0 ≤ s.P (nx (s.walk (s.Pn (nx (s.Pn edge))) i)) ∧
      s.S (nx (s.walk (s.Pn (nx (s.Pn edge))) i)) = s.S edge := by
  have G := geo_of C.h C.he C.hl
  have := walk_live s _ C.h G.lc0.lt G.lc0.pl i
  rw [(lab_of G).snc0] at this; exact this

/-- the fan of `endVert` -/
theorem Cfg.dw (C : Cfg s edge k m) (j : Nat) :
    s.walk (s.Pn (nx edge)) j < s.start.size ∧ s.P (s.walk (s.Pn (nx edge)) j) ≠ -1 ∧
      0 ≤ s.P (nx (s.walk (s.Pn (nx edge)) j)) ∧
      s.S (nx (s.walk (s.Pn (nx edge)) j)) = s.S (nx edge) := by
  have G := geo_of C.h C.he C.hl
  have := walk_live s _ C.h G.lu.lt G.lu.pl j
  rw [(lab_of G).snu] at this; exact this

theorem Cfg.c_ne_pair (C : Cfg s edge k m) (i : Nat) (hi : i < k) :
    s.walk (s.Pn (nx (s.Pn edge))) i ≠ s.Pn edge := by
  intro hc
  exact walk_no_period C.hk C.hkmin i hi (by rw [walk_succ, hc])

theorem Cfg.d_ne_edge (C : Cfg s edge k m) (j : Nat) (hj : j < m) :
    s.walk (s.Pn (nx edge)) j ≠ edge := by
  intro hc
  exact walk_no_period C.hm C.hmmin j hj (by rw [walk_succ, hc])

/-- the relabelled halfedges `nx c_i`, `i < k`: live, outgoing from `startVert`, outside both
collapsing triangles, not pointing to `endVert` -/
theorem Cfg.relF (C : Cfg s edge k m) (i : Nat) (hi : i < k) :
    LiveF s (nx (s.walk (s.Pn (nx (s.Pn edge))) i)) ∧
      s.S (nx (s.walk (s.Pn (nx (s.Pn edge))) i)) = s.S edge ∧
      nx (s.walk (s.Pn (nx (s.Pn edge))) i) / 3 ≠ edge / 3 ∧
      nx (s.walk (s.Pn (nx (s.Pn edge))) i) / 3 ≠ s.Pn edge / 3 ∧
      s.S (nx (nx (s.walk (s.Pn (nx (s.Pn edge))) i))) ≠ s.S (nx edge) := by
  obtain ⟨a, b, c, d⟩ := C.cw i
  have hn := nx_lt C.h.1.2.2 a
  have Ln := liveF C.h hn (by omega)
  have G := geo_of C.h C.he C.hl
  obtain ⟨ab, bw0, w0a, aw1, w1b, a1, b1, w01, w11, spr, sq1, sc0, snc0, sr, snr, su, snu, sv, snv⟩ :=
    lab_of G
  have k1 := C.hkmin i hi
  have k2 := C.c_ne_pair i hi
  have n1 := nx_nx_nx edge; have n2 := nx_nx_nx (s.Pn edge)
  have n3 := nx_nx_nx (s.walk (s.Pn (nx (s.Pn edge))) i)
  refine ⟨Ln, d, ?_, ?_, C.hdup i hi⟩
  · apply notin_tri <;> grind
  · apply notin_tri <;> grind

/-- the halfedges `nx d_j`, `j < m`, pushed by "Orbit endVert" -/
theorem Cfg.relD (C : Cfg s edge k m) (j : Nat) (hj : j < m) :
    nx (s.walk (s.Pn (nx edge)) j) < s.start.size ∧
      0 ≤ s.P (nx (s.walk (s.Pn (nx edge)) j)) ∧
      nx (nx (s.walk (s.Pn (nx edge)) j)) < s.start.size ∧
      nx (s.walk (s.Pn (nx edge)) j) / 3 ≠ s.Pn edge / 3 := by
  obtain ⟨a, b, c, d⟩ := C.dw j
  have hn := nx_lt C.h.1.2.2 a
  have hnn := nx_lt C.h.1.2.2 hn
  have G := geo_of C.h C.he C.hl
  obtain ⟨ab, bw0, w0a, aw1, w1b, a1, b1, w01, w11, spr, sq1, sc0, snc0, sr, snr, su, snu, sv, snv⟩ :=
    lab_of G
  have k1 := C.hmmin j hj
  have n2 := nx_nx_nx (s.Pn edge)
  have n3 := nx_nx_nx (s.walk (s.Pn (nx edge)) j)
  refine ⟨hn, c, hnn, ?_⟩
  apply notin_tri <;> grind

/-- `j` is one of the halfedges relabelled by `UpdateVert` -/
def Rel (s : HE) (edge k : Nat) (j : Nat) : Prop :=
  ∃ i, i < k ∧ j = nx (s.walk (s.Pn (nx (s.Pn edge))) i)

theorem Cfg.rel_S (C : Cfg s edge k m) {j : Nat} (hR : Rel s edge k j) : s.S j = s.S edge := by
  obtain ⟨i, hi, rfl⟩ := hR; exact (C.relF i hi).2.1

theorem Cfg.rel_pn (C : Cfg s edge k m) {j : Nat} (L : LiveF s j) (hj : j ≠ s.Pn (nx (nx edge)))
    (hR : Rel s edge k j) : Rel s edge k (nx (s.Pn j)) := by
  obtain ⟨i, hi, rfl⟩ := hR
  by_cases hik : i + 1 < k
  · exact ⟨i + 1, hik, rfl⟩
  · exfalso
    have : i + 1 = k := by omega
    have h1 : s.Pn (nx (s.walk (s.Pn (nx (s.Pn edge))) i)) = nx (nx edge) := by
      rw [← walk_succ, this]; exact C.hk
    apply hj
    rw [← L.pn, h1]

theorem Cfg.rel_pn2 (C : Cfg s edge k m) {j : Nat} (hj : s.Pn j ≠ nx (nx edge))
    (hR : Rel s edge k j) : Rel s edge k (nx (s.Pn j)) := by
  obtain ⟨i, hi, rfl⟩ := hR
  by_cases hik : i + 1 < k
  · exact ⟨i + 1, hik, rfl⟩
  · exfalso
    have : i + 1 = k := by omega
    apply hj
    rw [← walk_succ, this]; exact C.hk

theorem Cfg.rel_pn' (C : Cfg s edge k m) {j : Nat} (L : LiveF s j) (hj : j ≠ nx (s.Pn edge))
    (hR : Rel s edge k (nx (s.Pn j))) : Rel s edge k j := by
  obtain ⟨i, hi, h1⟩ := hR
  have h2 := nx_inj h1
  cases i with
  | zero =>
    exfalso; apply hj
    simp only [walk_zero] at h2
    rw [← L.pn, h2]; exact (geo_of C.h C.he C.hl).lq1.pn
  | succ i =>
    refine ⟨i, by omega, ?_⟩
    rw [walk_succ] at h2
    rw [← L.pn, h2]; exact (C.relF i (by omega)).1.pn

theorem Cfg.rel_nx (C : Cfg s edge k m) {j : Nat} (hj : 0 < k → j ≠ s.Pn (nx (s.Pn edge)))
    (hR : Rel s edge k (nx j)) : Rel s edge k (s.Pn j) ∧ s.S j ≠ s.S (nx edge) := by
  obtain ⟨i, hi, h1⟩ := hR
  have h2 := nx_inj h1
  cases i with
  | zero => exfalso; apply hj hi; simpa using h2
  | succ i =>
    rw [walk_succ] at h2
    have F := C.relF i (by omega)
    refine ⟨⟨i, by omega, ?_⟩, ?_⟩
    · rw [h2]; exact F.1.pn
    · rw [h2, ← F.1.es]; exact F.2.2.2.2

theorem Cfg.rel_nx' (C : Cfg s edge k m) {j : Nat} (L : LiveF s j) (hj : j ≠ nx (nx edge))
    (hR : Rel s edge k (s.Pn j)) : Rel s edge k (nx j) := by
  obtain ⟨i, hi, h1⟩ := hR
  have h2 : j = s.walk (s.Pn (nx (s.Pn edge))) (i + 1) := by rw [walk_succ, ← h1]; exact L.pn.symm
  by_cases hik : i + 1 < k
  · exact ⟨i + 1, hik, by rw [h2]⟩
  · exfalso; apply hj
    have : i + 1 = k := by omega
    rw [h2, this]; exact C.hk

/-- `v = Pn (nx (nx edge))` is the last relabelled halfedge -/
theorem Cfg.rel_v (C : Cfg s edge k m) (kpos : 0 < k) : Rel s edge k (s.Pn (nx (nx edge))) := by
  have hk := C.hk
  obtain ⟨k', rfl⟩ : ∃ k', k = k' + 1 := ⟨k - 1, by omega⟩
  refine ⟨k', by omega, ?_⟩
  rw [walk_succ] at hk
  rw [← hk]; exact (C.relF k' (by omega)).1.pn

end fans

/-! ## the final state is manifold -/

theorem good_mk {s' : HE} {j p : Nat} (hp : s'.P j = (p : Int)) (hlt : p < s'.start.size)
    (hpp : s'.P p = (j : Int)) (h1 : s'.S (nx j) ≠ -1) (h2 : s'.S (nx (nx j)) ≠ -1)
    (h6 : s'.S j ≠ s'.S (nx j)) (h7 : s'.S j = s'.S (nx p)) (h8 : s'.S (nx j) = s'.S p) :
    Good s' j := by
  have hpn : s'.Pn j = p := by
    have : s'.Pn j = (s'.P j).toNat := rfl
    rw [this, hp]; rfl
  rw [good_iff]; right
  rw [hpn]
  exact ⟨h1, h2, by omega, hlt, hpp, h6, h7, h8⟩

/-- The state after `CollapseTri(tri1)`, the relabelling of the fan of `startVert`, and
`CollapseTri(tri0)`, described pointwise, is manifold. -/
theorem final_pairInv {s : HE} {edge k m : Nat} (C : Cfg s edge k m) (kpos : 0 < k) (mpos : 0 < m)
    (s4 : HE)
    (hw : WF s4) (hsz : s4.start.size = s.start.size)
    (htomb : ∀ j, j < s.start.size → (j / 3 = edge / 3 ∨ j / 3 = s.Pn edge / 3) →
      s4.S j = -1 ∧ s4.P j = -1)
    (hrel : ∀ j, Rel s edge k j → s4.S j = s.S (nx edge))
    (hS : ∀ j, j / 3 ≠ edge / 3 → j / 3 ≠ s.Pn edge / 3 → ¬ Rel s edge k j → s4.S j = s.S j)
    (hPc0 : s4.P (s.Pn (nx (s.Pn edge))) = (s.Pn (nx (nx (s.Pn edge))) : Nat))
    (hPr : s4.P (s.Pn (nx (nx (s.Pn edge)))) = (s.Pn (nx (s.Pn edge)) : Nat))
    (hPu : s4.P (s.Pn (nx edge)) = (s.Pn (nx (nx edge)) : Nat))
    (hPv : s4.P (s.Pn (nx (nx edge))) = (s.Pn (nx edge) : Nat))
    (hP : ∀ j, j / 3 ≠ edge / 3 → j / 3 ≠ s.Pn edge / 3 → j ≠ s.Pn (nx (s.Pn edge)) →
      j ≠ s.Pn (nx (nx (s.Pn edge))) → j ≠ s.Pn (nx edge) → j ≠ s.Pn (nx (nx edge)) →
      s4.P j = s.P j) : PairInv s4 := by
  have G := geo_of C.h C.he C.hl
  have Lb := lab_of G
  have D := dist_of C
  have h3 := C.h.1.2.2
  -- `start` of the final state outside the two triangles
  have key : ∀ x, x / 3 ≠ edge / 3 → x / 3 ≠ s.Pn edge / 3 →
      (Rel s edge k x ∧ s4.S x = s.S (nx edge) ∧ s.S x = s.S edge) ∨
      (¬ Rel s edge k x ∧ s4.S x = s.S x) := by
    intro x h0 h1
    by_cases hR : Rel s edge k x
    · exact Or.inl ⟨hR, hrel x hR, C.rel_S hR⟩
    · exact Or.inr ⟨hR, hS x h0 h1 hR⟩
  have key1 : ∀ x, x / 3 ≠ edge / 3 → x / 3 ≠ s.Pn edge / 3 → s.S x ≠ -1 → s4.S x ≠ -1 := by
    intro x h0 h1 h2
    rcases key x h0 h1 with ⟨_, a, _⟩ | ⟨_, a⟩
    · rw [a]; exact Lb.b1
    · rw [a]; exact h2
  rw [pairInv_iff]
  refine ⟨hw, fun j hj _ => ?_⟩
  rw [hsz] at hj
  by_cases ht : j / 3 = edge / 3 ∨ j / 3 = s.Pn edge / 3
  · -- tombstones
    have hn : nx j < s.start.size := nx_lt h3 hj
    obtain ⟨a, b⟩ := htomb j hj ht
    obtain ⟨c, _⟩ := htomb (nx j) hn (by rw [nx_div]; exact ht)
    exact good_of_tomb a c b
  have ht0 : j / 3 ≠ edge / 3 := fun hc => ht (Or.inl hc)
  have ht1 : j / 3 ≠ s.Pn edge / 3 := fun hc => ht (Or.inr hc)
  have hn0 : nx j / 3 ≠ edge / 3 := by rw [nx_div]; exact ht0
  have hn1 : nx j / 3 ≠ s.Pn edge / 3 := by rw [nx_div]; exact ht1
  have hnn0 : nx (nx j) / 3 ≠ edge / 3 := by rw [nx_div]; exact hn0
  have hnn1 : nx (nx j) / 3 ≠ s.Pn edge / 3 := by rw [nx_div]; exact hn1
  have nrel : ∀ x, s.S x ≠ s.S edge → ¬ Rel s edge k x := fun x hx hR => hx (C.rel_S hR)
  by_cases hc0 : j = s.Pn (nx (s.Pn edge))
  · -- c0 : w1 → endVert, partner r
    subst hc0
    have r1 : Rel s edge k (nx (s.Pn (nx (s.Pn edge)))) := ⟨0, kpos, rfl⟩
    have a0 := hS _ ht0 ht1 (nrel _ (by rw [Lb.sc0]; exact Lb.aw1.symm))
    have a1 := hrel _ r1
    have b0 := hS _ (D.rt0 mpos) D.rt1 (nrel _ (by rw [Lb.sr]; exact Lb.ab.symm))
    have b1 := hS (nx (s.Pn (nx (nx (s.Pn edge))))) (by rw [nx_div]; exact (D.rt0 mpos))
      (by rw [nx_div]; exact D.rt1) (nrel _ (by rw [Lb.snr]; exact Lb.aw1.symm))
    refine good_mk hPc0 (by rw [hsz]; exact G.lr.lt) hPr (by rw [a1]; exact Lb.b1)
      (key1 _ hnn0 hnn1 G.lc0.s2) ?_ ?_ ?_
    · rw [a0, a1, Lb.sc0]; exact Lb.w1b
    · rw [a0, b1, Lb.sc0, Lb.snr]
    · rw [a1, b0, Lb.sr]
  by_cases hr : j = s.Pn (nx (nx (s.Pn edge)))
  · -- r : endVert → w1, partner c0
    subst hr
    have r1 : Rel s edge k (nx (s.Pn (nx (s.Pn edge)))) := ⟨0, kpos, rfl⟩
    have a0 := hS _ (D.c0t0 kpos) D.c0t1 (nrel _ (by rw [Lb.sc0]; exact Lb.aw1.symm))
    have a1 := hrel _ r1
    have b0 := hS _ (D.rt0 mpos) D.rt1 (nrel _ (by rw [Lb.sr]; exact Lb.ab.symm))
    have b1 := hS (nx (s.Pn (nx (nx (s.Pn edge))))) (by rw [nx_div]; exact (D.rt0 mpos))
      (by rw [nx_div]; exact D.rt1) (nrel _ (by rw [Lb.snr]; exact Lb.aw1.symm))
    refine good_mk hPr (by rw [hsz]; exact G.lc0.lt) hPc0 (by rw [b1, Lb.snr]; exact Lb.w11)
      (key1 _ hnn0 hnn1 G.lr.s2) ?_ ?_ ?_
    · rw [b0, b1, Lb.sr, Lb.snr]; exact Lb.w1b.symm
    · rw [b0, a1, Lb.sr]
    · rw [b1, a0, Lb.snr, Lb.sc0]
  by_cases hu : j = s.Pn (nx edge)
  · -- u : w0 → endVert, partner v
    subst hu
    have a0 := hS _ D.ut0 (D.ut1 mpos) (nrel _ (by rw [Lb.su]; exact Lb.w0a))
    have a1 := hS (nx (s.Pn (nx edge))) (by rw [nx_div]; exact D.ut0) (by rw [nx_div]; exact (D.ut1 mpos))
      (nrel _ (by rw [Lb.snu]; exact Lb.ab.symm))
    have b0 := hrel _ (C.rel_v kpos)
    have b1 := hS (nx (s.Pn (nx (nx edge)))) (by rw [nx_div]; exact D.vt0) (by rw [nx_div]; exact (D.vt1 kpos))
      (nrel _ (by rw [Lb.snv]; exact Lb.w0a))
    refine good_mk hPu (by rw [hsz]; exact G.lv.lt) hPv (by rw [a1, Lb.snu]; exact Lb.b1)
      (key1 _ hnn0 hnn1 G.lu.s2) ?_ ?_ ?_
    · rw [a0, a1, Lb.su, Lb.snu]; exact Lb.bw0.symm
    · rw [a0, b1, Lb.su, Lb.snv]
    · rw [a1, b0, Lb.snu]
  by_cases hv : j = s.Pn (nx (nx edge))
  · -- v : endVert → w0, partner u
    subst hv
    have a0 := hS _ D.ut0 (D.ut1 mpos) (nrel _ (by rw [Lb.su]; exact Lb.w0a))
    have a1 := hS (nx (s.Pn (nx edge))) (by rw [nx_div]; exact D.ut0) (by rw [nx_div]; exact (D.ut1 mpos))
      (nrel _ (by rw [Lb.snu]; exact Lb.ab.symm))
    have b0 := hrel _ (C.rel_v kpos)
    have b1 := hS (nx (s.Pn (nx (nx edge)))) (by rw [nx_div]; exact D.vt0) (by rw [nx_div]; exact (D.vt1 kpos))
      (nrel _ (by rw [Lb.snv]; exact Lb.w0a))
    refine good_mk hPv (by rw [hsz]; exact G.lu.lt) hPu (by rw [b1, Lb.snv]; exact Lb.w01)
      (key1 _ hnn0 hnn1 G.lv.s2) ?_ ?_ ?_
    · rw [b0, b1, Lb.snv]; exact Lb.bw0
    · rw [b0, a1, Lb.snu]
    · rw [b1, a0, Lb.snv, Lb.su]
  -- every other halfedge
  have hPj := hP j ht0 ht1 hc0 hr hu hv
  by_cases hl : s.P j = -1
  · -- a tombstone of `s`
    rcases (good_iff s j).1 (C.h.good hj) with ⟨a, b, c⟩ | ⟨_, _, c, _⟩
    · have a' := hS j ht0 ht1 (nrel _ (by rw [a]; exact Lb.a1.symm))
      have b' := hS (nx j) hn0 hn1 (nrel _ (by rw [b]; exact Lb.a1.symm))
      exact good_of_tomb (by rw [a', a]) (by rw [b', b]) (by rw [hPj, c])
    · omega
  have L := liveF C.h hj hl
  have Lp := liveF C.h L.plt L.ppl
  -- the partner is not special either
  have n1 := nx_nx_nx edge; have n2 := nx_nx_nx (s.Pn edge)
  have q0 := G.ledge.pn; have q1 := G.le1.pn; have q2 := G.le2.pn
  have q3 := G.lpr.pn; have q4 := G.lq1.pn; have q5 := G.lq2.pn
  have q6 := L.pn
  have pt0 : s.Pn j / 3 ≠ edge / 3 := by
    intro hc
    rcases nx_cases hc.symm with e | e | e
    · rw [e] at q6; exact ht1 (by rw [← q6])
    · rw [e] at q6; exact hu q6.symm
    · rw [e] at q6; exact hv q6.symm
  have pt1 : s.Pn j / 3 ≠ s.Pn edge / 3 := by
    intro hc
    rcases nx_cases hc.symm with e | e | e
    · rw [e, q0] at q6; exact ht0 (by rw [← q6])
    · rw [e] at q6; exact hc0 q6.symm
    · rw [e] at q6; exact hr q6.symm
  have pc0 : s.Pn j ≠ s.Pn (nx (s.Pn edge)) := by
    intro e; rw [e, q4] at q6; exact ht1 (by rw [← q6, nx_div])
  have pr : s.Pn j ≠ s.Pn (nx (nx (s.Pn edge))) := by
    intro e; rw [e, q5] at q6; exact ht1 (by rw [← q6, nx_div, nx_div])
  have pu : s.Pn j ≠ s.Pn (nx edge) := by
    intro e; rw [e, q1] at q6; exact ht0 (by rw [← q6, nx_div])
  have pv : s.Pn j ≠ s.Pn (nx (nx edge)) := by
    intro e; rw [e, q2] at q6; exact ht0 (by rw [← q6, nx_div, nx_div])
  have hPp := hP (s.Pn j) pt0 pt1 pc0 pr pu pv
  have pnt0 : nx (s.Pn j) / 3 ≠ edge / 3 := by rw [nx_div]; exact pt0
  have pnt1 : nx (s.Pn j) / 3 ≠ s.Pn edge / 3 := by rw [nx_div]; exact pt1
  have jq1 : j ≠ nx (s.Pn edge) := fun e => ht1 (by rw [e, nx_div])
  have je2 : j ≠ nx (nx edge) := fun e => ht0 (by rw [e, nx_div, nx_div])
  -- relabelling is consistent across the pairing
  have e7a := C.rel_pn L hv
  have e7b := C.rel_pn' L jq1
  have e8a := C.rel_nx (j := j) (fun _ => hc0)
  have e8b := C.rel_nx' L je2
  have k0 := key j ht0 ht1
  have k1 := key (nx j) hn0 hn1
  have kp0 := key (s.Pn j) pt0 pt1
  have kp1 := key (nx (s.Pn j)) pnt0 pnt1
  have hd : Rel s edge k j → s.S (nx j) ≠ s.S (nx edge) := by
    rintro ⟨i, hi, rfl⟩; exact (C.relF i hi).2.2.2.2
  have Lnd := L.nd; have Lse := L.se; have Les := L.es
  refine good_mk (p := s.Pn j) (by rw [hPj, Pn_cast s j L.p0]) (by rw [hsz]; exact L.plt)
    (by rw [hPp, L.pp]) (key1 _ hn0 hn1 L.s1) (key1 _ hnn0 hnn1 L.s2) ?_ ?_ ?_
  · grind
  · grind
  · grind

/-- A halfedge outside the two collapsing triangles whose pairing (and its partner's) is untouched
stays `Good` after the relabelling of the fan of `startVert`. -/
theorem good_other {s : HE} {edge k m : Nat} (C : Cfg s edge k m) (s4 : HE)
    (hsz : s4.start.size = s.start.size)
    (hrel : ∀ j, Rel s edge k j → s4.S j = s.S (nx edge))
    (hS : ∀ j, j / 3 ≠ edge / 3 → j / 3 ≠ s.Pn edge / 3 → ¬ Rel s edge k j → s4.S j = s.S j)
    (j : Nat) (hj : j < s.start.size) (ht0 : j / 3 ≠ edge / 3) (ht1 : j / 3 ≠ s.Pn edge / 3)
    (hc0 : 0 < k → j ≠ s.Pn (nx (s.Pn edge)))
    (hPj : s4.P j = s.P j)
    (hp : s.P j ≠ -1 → s.Pn j / 3 ≠ edge / 3 ∧ s.Pn j / 3 ≠ s.Pn edge / 3 ∧
      s4.P (s.Pn j) = s.P (s.Pn j)) : Good s4 j := by
  have G := geo_of C.h C.he C.hl
  have Lb := lab_of G
  have key : ∀ x, x / 3 ≠ edge / 3 → x / 3 ≠ s.Pn edge / 3 →
      (Rel s edge k x ∧ s4.S x = s.S (nx edge) ∧ s.S x = s.S edge) ∨
      (¬ Rel s edge k x ∧ s4.S x = s.S x) := by
    intro x h0 h1
    by_cases hR : Rel s edge k x
    · exact Or.inl ⟨hR, hrel x hR, C.rel_S hR⟩
    · exact Or.inr ⟨hR, hS x h0 h1 hR⟩
  have key1 : ∀ x, x / 3 ≠ edge / 3 → x / 3 ≠ s.Pn edge / 3 → s.S x ≠ -1 → s4.S x ≠ -1 := by
    intro x h0 h1 h2
    rcases key x h0 h1 with ⟨_, a, _⟩ | ⟨_, a⟩
    · rw [a]; exact Lb.b1
    · rw [a]; exact h2
  have hn0 : nx j / 3 ≠ edge / 3 := by rw [nx_div]; exact ht0
  have hn1 : nx j / 3 ≠ s.Pn edge / 3 := by rw [nx_div]; exact ht1
  have hnn0 : nx (nx j) / 3 ≠ edge / 3 := by rw [nx_div]; exact hn0
  have hnn1 : nx (nx j) / 3 ≠ s.Pn edge / 3 := by rw [nx_div]; exact hn1
  have nrel : ∀ x, s.S x ≠ s.S edge → ¬ Rel s edge k x := fun x hx hR => hx (C.rel_S hR)
  by_cases hl : s.P j = -1
  · rcases (good_iff s j).1 (C.h.good hj) with ⟨a, b, c⟩ | ⟨_, _, c, _⟩
    · have a' := hS j ht0 ht1 (nrel _ (by rw [a]; exact Lb.a1.symm))
      have b' := hS (nx j) hn0 hn1 (nrel _ (by rw [b]; exact Lb.a1.symm))
      exact good_of_tomb (by rw [a', a]) (by rw [b', b]) (by rw [hPj, c])
    · omega
  have L := liveF C.h hj hl
  obtain ⟨pt0, pt1, hPp⟩ := hp hl
  have pnt0 : nx (s.Pn j) / 3 ≠ edge / 3 := by rw [nx_div]; exact pt0
  have pnt1 : nx (s.Pn j) / 3 ≠ s.Pn edge / 3 := by rw [nx_div]; exact pt1
  have jq1 : j ≠ nx (s.Pn edge) := fun e => ht1 (by rw [e, nx_div])
  have je2 : j ≠ nx (nx edge) := fun e => ht0 (by rw [e, nx_div, nx_div])
  have pe2 : s.Pn j ≠ nx (nx edge) := fun e => pt0 (by rw [e, nx_div, nx_div])
  have e7a := C.rel_pn2 (j := j) pe2
  have e7b := C.rel_pn' L jq1
  have e8a := C.rel_nx (j := j) hc0
  have e8b := C.rel_nx' L je2
  have k0 := key j ht0 ht1
  have k1 := key (nx j) hn0 hn1
  have kp0 := key (s.Pn j) pt0 pt1
  have kp1 := key (nx (s.Pn j)) pnt0 pnt1
  have hd : Rel s edge k j → s.S (nx j) ≠ s.S (nx edge) := by
    rintro ⟨i, hi, rfl⟩; exact (C.relF i hi).2.2.2.2
  have Lnd := L.nd; have Lse := L.se; have Les := L.es
  refine good_mk (p := s.Pn j) (by rw [hPj, Pn_cast s j L.p0]) (by rw [hsz]; exact L.plt)
    (by rw [hPp, L.pp]) (key1 _ hn0 hn1 L.s1) (key1 _ hnn0 hnn1 L.s2) ?_ ?_ ?_
  · grind
  · grind
  · grind

/-! ## the composition -/

theorem Pn_congr {s s' : HE} {x : Nat} (h : s'.P x = s.P x) : s'.Pn x = s.Pn x := by
  unfold HE.Pn; unfold HE.P at h; rw [h]

theorem Pn_of_cast {s : HE} {x p : Nat} (h : s.P x = (p : Int)) : s.Pn x = p := by
  have : s.Pn x = (s.P x).toNat := rfl
  rw [this, h]; rfl

theorem ne_of_div {a b c : Nat} (h1 : a / 3 = c / 3) (h2 : b / 3 ≠ c / 3) : a ≠ b := by
  intro e; rw [e] at h1; exact h2 h1

/-- `CollapseEdge` up to (excluding) `CollapseTri(tri0edge)`: `CollapseTri(tri1edge)`, the two orbit
loops (no `FormLoop`) and `UpdateVert`, with the pointwise description of the state reached. -/
theorem collapse_prefix {s : HE} {edge k m : Nat} (hasProp : Bool) (C : Cfg s edge k m) :
    ∃ s3, WF s3 ∧ s3.start.size = s.start.size ∧ s3.nVert = s.nVert ∧
      (∀ j, Rel s edge k j → s3.S j = s.S (nx edge)) ∧
      (∀ j, ¬ Rel s edge k j → j / 3 ≠ s.Pn edge / 3 → s3.S j = s.S j) ∧
      (∀ j, j < s.start.size → j / 3 = s.Pn edge / 3 → s3.S j = -1 ∧ s3.P j = -1) ∧
      (∀ j, j / 3 ≠ s.Pn edge / 3 → j ≠ s.Pn (nx (s.Pn edge)) → j ≠ s.Pn (nx (nx (s.Pn edge))) →
        s3.P j = s.P j) ∧
      s3.P (s.Pn (nx (s.Pn edge))) = (s.Pn (nx (nx (s.Pn edge))) : Nat) ∧
      s3.P (s.Pn (nx (nx (s.Pn edge)))) = (s.Pn (nx (s.Pn edge)) : Nat) ∧
      collapseEdge s (edge : Int) #[] true hasProp =
        (do let s4 ← collapseTri s3 (triOf (edge : Int))
            let s5 ← removeIfFolded s4 ((s.Pn (nx (s.Pn edge)) : Nat) : Int)
            pure (s5, true)) := by
  obtain ⟨h, he, hl, hk, hkmin, hm, hmmin, hlink, hdup⟩ := id C
  have G := geo_of h he hl
  have Lb := lab_of G
  have D := dist_of C
  have hw := h.1
  have hps : s.prop.size = s.start.size := hw.2.1.trans hw.1.symm
  have hpa : s.paired.size = s.start.size := hw.1.symm
  have hkb := (walk_simple s _ k _ h G.lc0.lt G.lc0.pl hk hkmin).2
  have hmb := (walk_simple s _ m _ h G.lu.lt G.lu.pl hm hmmin).2
  -- `CollapseTri(tri1)`
  obtain ⟨s1, hs1, pr1, nv1, np1, sz1, S1, T1, P1, ⟨Pa1, Pb1⟩, I1⟩ :=
    collapseTri_frame s [] (s.Pn edge) ((pairInv_iff s).1 h) G.lpr.lt
      ⟨G.lq1.p0, G.lq1.plt, G.lq1.pp⟩ ⟨G.lq2.p0, G.lq2.plt, G.lq2.pp⟩
  have hw1 := I1.1
  rw [triOf_cast] at hs1
  have P1c : ∀ i, i < k → s1.P (nx (s.walk (s.Pn (nx (s.Pn edge))) i)) =
      s.P (nx (s.walk (s.Pn (nx (s.Pn edge))) i)) := by
    intro i hi
    obtain ⟨Ln, sA, t0, t1, _⟩ := C.relF i hi
    apply P1 _ t1
    · intro e; have := Lb.sc0; rw [← e, sA] at this; exact Lb.aw1 this
    · intro e; have := Lb.sr; rw [← e, sA] at this; exact Lb.ab this
  have W1 : ∀ i, i ≤ k → s1.walk (s.Pn (nx (s.Pn edge))) i = s.walk (s.Pn (nx (s.Pn edge))) i := by
    intro i
    induction i with
    | zero => intro _; rfl
    | succ i ih =>
      intro hi
      rw [walk_succ, walk_succ, ih (by omega)]
      exact Pn_congr (P1c i (by omega))
  -- "Orbit endVert"
  have hedges := orbitEnd_eval s ((nx (nx (s.Pn edge)) : Nat) : Int) m (s.start.size + 1)
    (s.Pn (nx edge)) #[] (by omega)
    (fun j hj => ⟨by rw [hpa]; exact (C.relD j hj).1, (C.relD j hj).2.1⟩) (by rw [hm])
    (fun j hj e => hmmin j hj (by exact_mod_cast e))
  have hE : (#[] ++ (orbL s (s.Pn (nx edge)) m).toArray : Array Int) =
      (orbL s (s.Pn (nx edge)) m).toArray := by simp
  rw [hE] at hedges
  have hed : ∀ i, i < k → ∀ idx, idx < (orbL s (s.Pn (nx edge)) m).toArray.size →
      ∃ e : Nat, (orbL s (s.Pn (nx edge)) m).toArray[idx]? = some (e : Int) ∧
        nx e < s1.start.size ∧
        s1.S (nx (nx (s1.walk (s.Pn (nx (s.Pn edge))) i))) ≠ s1.S (nx e) := by
    intro i hi idx hidx
    have hidx' : idx < (orbL s (s.Pn (nx edge)) m).length := by simpa using hidx
    obtain ⟨j, hj, hx⟩ := mem_orbL s m _ _ (List.getElem_mem hidx')
    obtain ⟨_, _, d3, d4⟩ := C.relD j hj
    obtain ⟨_, _, _, c4, _⟩ := C.relF i hi
    refine ⟨nx (s.walk (s.Pn (nx edge)) j), ?_, by rw [sz1]; exact d3, ?_⟩
    · rw [List.getElem?_toArray, List.getElem?_eq_getElem hidx', hx]
    · rw [W1 i (by omega), S1 _ (by rw [nx_div]; exact c4), S1 _ (by rw [nx_div]; exact d4)]
      exact hlink i hi j hj
  -- "Orbit startVert"
  obtain ⟨s2, hs2, sim2⟩ := collapseLoop_straight hasProp (s1.R edge) (s1.R (nx edge))
    (s1.R (nx (s.Pn edge))) (s1.R (s.Pn edge)) ((nx (nx edge) : Nat) : Int)
    ((s.Pn (nx (s.Pn edge)) : Nat) : Int) (orbL s (s.Pn (nx edge)) m).toArray k
    (s1.start.size + 1) (s.Pn (nx (s.Pn edge))) s1 (by omega) hw1
    (fun i hi => by rw [W1 i hi, sz1]; exact (C.cw i).1)
    (fun i hi => by rw [W1 i (by omega), P1c i hi]; exact (C.cw i).2.2.1)
    (by rw [W1 k (Nat.le_refl _), hk])
    (fun i hi e => by rw [W1 i (by omega)] at e; exact hkmin i hi (by exact_mod_cast e))
    hed
  have hw2 : WF s2 := sim2.WF hw1
  have W2 : ∀ i, i ≤ k → s2.walk (s.Pn (nx (s.Pn edge))) i = s.walk (s.Pn (nx (s.Pn edge))) i :=
    fun i hi => by rw [sim2.walk, W1 i hi]
  -- `UpdateVert`
  obtain ⟨s3, hs3, pa3, pr3, nv3, np3, sz3, R3, N3⟩ := updateVert_spec s2 (s.S (nx edge))
    (s.Pn (nx (s.Pn edge))) k ((nx (nx edge) : Nat) : Int) hw2 (by rw [sim2.size, sz1]; omega)
    (fun i hi => by rw [W2 i hi, sim2.size, sz1]; exact (C.cw i).1)
    (fun i hi => by rw [W2 i (by omega), sim2.P, P1c i hi]; exact (C.cw i).2.2.1)
    (by rw [W2 k (Nat.le_refl _), hk])
    (fun i hi e => by rw [W2 i (by omega)] at e; exact hkmin i hi (by exact_mod_cast e))
  have hw3 : WF s3 := by
    unfold WF at hw2 ⊢; rw [pa3, pr3, sz3]; exact hw2
  have size3 : s3.start.size = s.start.size := by rw [sz3, sim2.size, sz1]
  have S3rel : ∀ j, Rel s edge k j → s3.S j = s.S (nx edge) := by
    rintro j ⟨i, hi, rfl⟩; rw [← W2 i (by omega)]; exact R3 i hi
  have S3else : ∀ j, ¬ Rel s edge k j → s3.S j = s1.S j := by
    intro j hR
    rw [N3 j (fun i hi e => hR ⟨i, hi, by rw [e, W2 i (by omega)]⟩), sim2.S]
  have P3 : ∀ j, s3.P j = s1.P j := by
    intro j; unfold HE.P; rw [pa3, sim2.2.1]
  have relt1 : ∀ j, Rel s edge k j → j / 3 ≠ s.Pn edge / 3 := by
    rintro j ⟨i, hi, rfl⟩; exact (C.relF i hi).2.2.2.1
  refine ⟨s3, hw3, size3, by rw [nv3, sim2.2.2.2.1, nv1], S3rel,
    fun j hR ht => by rw [S3else j hR]; exact S1 j ht,
    fun j hj ht => ?_, fun j ht a b => by rw [P3]; exact P1 j ht a b,
    by rw [P3]; exact Pa1 D.c0t1, by rw [P3]; exact Pb1 D.rt1, ?_⟩
  · have a := T1 j ht hj
    exact ⟨by rw [S3else j (fun hR => relt1 j hR ht)]; exact a.1, by rw [P3]; exact a.2⟩
  -- evaluation of the model
  have hps1 : s1.prop.size = s.start.size := by rw [pr1]; exact hps
  unfold collapseEdge
  simp only [HE.size]
  rw [getPair_ok s edge (by rw [hpa]; exact he)]
  simp only [bind, Except.bind]
  rw [← Pn_cast s edge G.ledge.p0]
  rw [if_neg (by omega)]
  simp only [triOf_cast]
  rw [getStart_ok s edge he]
  simp only []
  rw [getStart_ok s (nx edge) G.le1.lt]
  simp only []
  rw [getPair_ok s (nx (s.Pn edge)) (by rw [hpa]; exact G.lq1.lt)]
  simp only [Bool.not_true, Bool.false_eq_true, if_false]
  rw [getPair_ok s (nx edge) (by rw [hpa]; exact G.le1.lt)]
  simp only []
  rw [← Pn_cast s (nx edge) G.le1.p0, ← Pn_cast s (nx (s.Pn edge)) G.lq1.p0]
  rw [hedges]
  simp only []
  rw [hs1]
  simp only []
  rw [getProp_ok s1 edge (by rw [hps1]; exact he)]
  simp only []
  rw [getProp_ok s1 (nx edge) (by rw [hps1]; exact G.le1.lt)]
  simp only []
  rw [getProp_ok s1 (nx (s.Pn edge)) (by rw [hps1]; exact G.lq1.lt)]
  simp only []
  rw [getProp_ok s1 (s.Pn edge) (by rw [hps1]; exact G.lpr.lt)]
  simp only []
  rw [hs2]
  simp only []
  rw [hs3]

/-- `start` of a relabelled state stays a vertex where it was one -/
theorem s4_ne_neg {s : HE} {edge k m : Nat} (C : Cfg s edge k m) (s4 : HE)
    (hrel : ∀ j, Rel s edge k j → s4.S j = s.S (nx edge))
    (hS : ∀ j, j / 3 ≠ edge / 3 → j / 3 ≠ s.Pn edge / 3 → ¬ Rel s edge k j → s4.S j = s.S j)
    (x : Nat) (h0 : x / 3 ≠ edge / 3) (h1 : x / 3 ≠ s.Pn edge / 3) (h2 : s.S x ≠ -1) :
    s4.S x ≠ -1 := by
  by_cases hR : Rel s edge k x
  · rw [hrel x hR]; exact (lab_of (geo_of C.h C.he C.hl)).b1
  · rw [hS x h0 h1 hR]; exact h2

/-- every halfedge outside the two triangles other than the four outer partners stays `Good` -/
theorem good_nonspecial {s : HE} {edge k m : Nat} (C : Cfg s edge k m) (s4 : HE)
    (hsz : s4.start.size = s.start.size)
    (hrel : ∀ j, Rel s edge k j → s4.S j = s.S (nx edge))
    (hS : ∀ j, j / 3 ≠ edge / 3 → j / 3 ≠ s.Pn edge / 3 → ¬ Rel s edge k j → s4.S j = s.S j)
    (hP : ∀ j, j / 3 ≠ edge / 3 → j / 3 ≠ s.Pn edge / 3 → j ≠ s.Pn (nx (s.Pn edge)) →
      j ≠ s.Pn (nx (nx (s.Pn edge))) → j ≠ s.Pn (nx edge) → j ≠ s.Pn (nx (nx edge)) →
      s4.P j = s.P j)
    (j : Nat) (hj : j < s.start.size) (ht0 : j / 3 ≠ edge / 3) (ht1 : j / 3 ≠ s.Pn edge / 3)
    (hc0 : j ≠ s.Pn (nx (s.Pn edge))) (hr : j ≠ s.Pn (nx (nx (s.Pn edge))))
    (hu : j ≠ s.Pn (nx edge)) (hv : j ≠ s.Pn (nx (nx edge))) : Good s4 j := by
  have G := geo_of C.h C.he C.hl
  refine good_other C s4 hsz hrel hS j hj ht0 ht1 (fun _ => hc0) (hP j ht0 ht1 hc0 hr hu hv)
    (fun hl => ?_)
  have L := liveF C.h hj hl
  have q0 := G.ledge.pn; have q1 := G.le1.pn; have q2 := G.le2.pn
  have q3 := G.lpr.pn; have q4 := G.lq1.pn; have q5 := G.lq2.pn
  have q6 := L.pn
  have pt0 : s.Pn j / 3 ≠ edge / 3 := by
    intro hc
    rcases nx_cases hc.symm with e | e | e
    · rw [e] at q6; exact ht1 (by rw [← q6])
    · rw [e] at q6; exact hu q6.symm
    · rw [e] at q6; exact hv q6.symm
  have pt1 : s.Pn j / 3 ≠ s.Pn edge / 3 := by
    intro hc
    rcases nx_cases hc.symm with e | e | e
    · rw [e, q0] at q6; exact ht0 (by rw [← q6])
    · rw [e] at q6; exact hc0 q6.symm
    · rw [e] at q6; exact hr q6.symm
  have pc0 : s.Pn j ≠ s.Pn (nx (s.Pn edge)) := by
    intro e; rw [e, q4] at q6; exact ht1 (by rw [← q6, nx_div])
  have pr : s.Pn j ≠ s.Pn (nx (nx (s.Pn edge))) := by
    intro e; rw [e, q5] at q6; exact ht1 (by rw [← q6, nx_div, nx_div])
  have pu : s.Pn j ≠ s.Pn (nx edge) := by
    intro e; rw [e, q1] at q6; exact ht0 (by rw [← q6, nx_div])
  have pv : s.Pn j ≠ s.Pn (nx (nx edge)) := by
    intro e; rw [e, q2] at q6; exact ht0 (by rw [← q6, nx_div, nx_div])
  exact ⟨pt0, pt1, hP (s.Pn j) pt0 pt1 pc0 pr pu pv⟩

/-- the generic case: both fans have inner steps -/
theorem collapse_case_pp {s : HE} {edge k m : Nat} (hasProp : Bool) (C : Cfg s edge k m)
    (kpos : 0 < k) (mpos : 0 < m) :
    ∃ s4, PairInv s4 ∧ s4.nVert = s.nVert ∧ s4.start.size = s.start.size ∧
      collapseEdge s (edge : Int) #[] true hasProp =
        (do let s5 ← removeIfFolded s4 ((s.Pn (nx (s.Pn edge)) : Nat) : Int); pure (s5, true)) := by
  obtain ⟨s3, hw3, size3, nv3, S3rel, S3n, T3, P3, P3c0, P3r, hev⟩ := collapse_prefix hasProp C
  have G := geo_of C.h C.he C.hl
  have Lb := lab_of G
  have D := dist_of C
  have t10 : ∀ j, j / 3 = s.Pn edge / 3 → j / 3 ≠ edge / 3 := fun j e => by rw [e]; exact D.t01
  have relt0 : ∀ j, Rel s edge k j → j / 3 ≠ edge / 3 := by
    rintro j ⟨i, hi, rfl⟩; exact (C.relF i hi).2.2.1
  have e1t : nx edge / 3 ≠ s.Pn edge / 3 := by rw [nx_div]; exact D.t01.symm
  have e2t : nx (nx edge) / 3 ≠ s.Pn edge / 3 := by rw [nx_div]; exact e1t
  have P3e1 : s3.P (nx edge) = s.P (nx edge) :=
    P3 _ e1t (ne_of_div (nx_div edge) (D.c0t0 kpos)) (ne_of_div (nx_div edge) (D.rt0 mpos))
  have P3e2 : s3.P (nx (nx edge)) = s.P (nx (nx edge)) :=
    P3 _ e2t (ne_of_div (by rw [nx_div, nx_div]) (D.c0t0 kpos))
      (ne_of_div (by rw [nx_div, nx_div]) (D.rt0 mpos))
  have P3u : s3.P (s.Pn (nx edge)) = s.P (s.Pn (nx edge)) := P3 _ (D.ut1 mpos) D.c0u.symm D.ru.symm
  have P3v : s3.P (s.Pn (nx (nx edge))) = s.P (s.Pn (nx (nx edge))) :=
    P3 _ (D.vt1 kpos) D.c0v.symm D.rv.symm
  have Pn3e1 := Pn_congr P3e1
  have Pn3e2 := Pn_congr P3e2
  obtain ⟨s4, hs4, pr4, nv4, np4, sz4, S4, T4, P4, ⟨Pa4, Pb4⟩, I4⟩ :=
    collapseTri_frame s3 (List.range s3.start.size) edge
      ⟨hw3, fun e he hx => absurd (List.mem_range.2 he) hx⟩ (by rw [size3]; exact C.he)
      ⟨by rw [P3e1]; exact G.le1.p0, by rw [Pn3e1, size3]; exact G.le1.plt,
        by rw [Pn3e1, P3u]; exact G.le1.pp⟩
      ⟨by rw [P3e2]; exact G.le2.p0, by rw [Pn3e2, size3]; exact G.le2.plt,
        by rw [Pn3e2, P3v]; exact G.le2.pp⟩
  rw [Pn3e1, Pn3e2] at P4 Pa4 Pb4
  have size4 : s4.start.size = s.start.size := by rw [sz4, size3]
  refine ⟨s4, ?_, by rw [nv4, nv3], size4, by rw [hev, hs4]; rfl⟩
  refine final_pairInv C kpos mpos s4 I4.1 size4 ?_ ?_ ?_ ?_ ?_ (Pa4 D.ut0) (Pb4 D.vt0) ?_
  · intro j hj ht
    rcases ht with ht | ht
    · exact T4 j ht (by rw [size3]; exact hj)
    · have a := T3 j hj ht
      refine ⟨by rw [S4 j (t10 j ht)]; exact a.1, ?_⟩
      rw [P4 j (t10 j ht) (ne_of_div ht (D.ut1 mpos)) (ne_of_div ht (D.vt1 kpos))]; exact a.2
  · intro j hR; rw [S4 j (relt0 j hR)]; exact S3rel j hR
  · intro j h0 h1 hR; rw [S4 j h0]; exact S3n j hR h1
  · rw [P4 _ (D.c0t0 kpos) D.c0u D.c0v]; exact P3c0
  · rw [P4 _ (D.rt0 mpos) D.ru D.rv]; exact P3r
  · intro j h0 h1 a b c d; rw [P4 j h0 c d]; exact P3 j h1 a b

theorem rel_zero (s : HE) (edge x : Nat) : ¬ Rel s edge 0 x := by
  rintro ⟨i, hi, _⟩; omega

/-- `startVert` has valence 2 (`k = 0`: `Pair(tri1edge[1]) = tri0edge[2]`), `endVert` has not -/
theorem collapse_case_zp {s : HE} {edge m : Nat} (hasProp : Bool) (C : Cfg s edge 0 m)
    (mpos : 0 < m) :
    ∃ s4, PairInv s4 ∧ s4.nVert = s.nVert ∧ s4.start.size = s.start.size ∧
      collapseEdge s (edge : Int) #[] true hasProp =
        (do let s5 ← removeIfFolded s4 ((s.Pn (nx (s.Pn edge)) : Nat) : Int); pure (s5, true)) := by
  obtain ⟨s3, hw3, size3, nv3, S3rel, S3n, T3, P3, P3c0, P3r, hev⟩ := collapse_prefix hasProp C
  have G := geo_of C.h C.he C.hl
  have Lb := lab_of G
  have D := dist_of C
  have hc : s.Pn (nx (s.Pn edge)) = nx (nx edge) := C.hk
  have hv : s.Pn (nx (nx edge)) = nx (s.Pn edge) := by rw [← hc]; exact G.lq1.pn
  have hw01 : s.S (nx (nx edge)) = s.S (nx (nx (s.Pn edge))) := by
    have := Lb.sc0; rw [hc] at this; exact this
  have t10 : ∀ j, j / 3 = s.Pn edge / 3 → j / 3 ≠ edge / 3 := fun j e => by rw [e]; exact D.t01
  have e1t : nx edge / 3 ≠ s.Pn edge / 3 := by rw [nx_div]; exact D.t01.symm
  have e1c0 : nx edge ≠ s.Pn (nx (s.Pn edge)) := by
    rw [hc]; exact fun e => nx_ne _ e.symm
  have P3e1 : s3.P (nx edge) = s.P (nx edge) :=
    P3 _ e1t e1c0 (ne_of_div (nx_div edge) (D.rt0 mpos))
  have P3e2 : s3.P (nx (nx edge)) = (s.Pn (nx (nx (s.Pn edge))) : Nat) := by
    rw [← hc]; exact P3c0
  have P3u : s3.P (s.Pn (nx edge)) = s.P (s.Pn (nx edge)) := P3 _ (D.ut1 mpos) D.c0u.symm D.ru.symm
  have Pn3e1 := Pn_congr P3e1
  have Pn3e2 := Pn_of_cast P3e2
  obtain ⟨s4, hs4, pr4, nv4, np4, sz4, S4, T4, P4, ⟨Pa4, Pb4⟩, I4⟩ :=
    collapseTri_frame s3 (List.range s3.start.size) edge
      ⟨hw3, fun e he hx => absurd (List.mem_range.2 he) hx⟩ (by rw [size3]; exact C.he)
      ⟨by rw [P3e1]; exact G.le1.p0, by rw [Pn3e1, size3]; exact G.le1.plt,
        by rw [Pn3e1, P3u]; exact G.le1.pp⟩
      ⟨by rw [P3e2]; omega, by rw [Pn3e2, size3]; exact G.lr.lt,
        by rw [Pn3e2, P3r, hc]⟩
  rw [Pn3e1, Pn3e2] at P4 Pa4 Pb4
  have size4 : s4.start.size = s.start.size := by rw [sz4, size3]
  refine ⟨s4, ?_, by rw [nv4, nv3], size4, by rw [hev, hs4]; rfl⟩
  have hrel : ∀ j, Rel s edge 0 j → s4.S j = s.S (nx edge) := fun j hR => absurd hR (rel_zero s edge j)
  have hS : ∀ j, j / 3 ≠ edge / 3 → j / 3 ≠ s.Pn edge / 3 → ¬ Rel s edge 0 j → s4.S j = s.S j :=
    fun j h0 h1 hR => by rw [S4 j h0]; exact S3n j hR h1
  have hS' : ∀ j, j / 3 ≠ edge / 3 → j / 3 ≠ s.Pn edge / 3 → s4.S j = s.S j :=
    fun j h0 h1 => hS j h0 h1 (rel_zero s edge j)
  have hP : ∀ j, j / 3 ≠ edge / 3 → j / 3 ≠ s.Pn edge / 3 → j ≠ s.Pn (nx (s.Pn edge)) →
      j ≠ s.Pn (nx (nx (s.Pn edge))) → j ≠ s.Pn (nx edge) → j ≠ s.Pn (nx (nx edge)) →
      s4.P j = s.P j := by
    intro j h0 h1 a b c d; rw [P4 j h0 c b]; exact P3 j h1 a b
  have h3 := C.h.1.2.2
  rw [pairInv_iff]
  refine ⟨I4.1, fun j hj _ => ?_⟩
  rw [size4] at hj
  by_cases ht0 : j / 3 = edge / 3
  · have hn : nx j < s.start.size := nx_lt h3 hj
    obtain ⟨a, b⟩ := T4 j ht0 (by rw [size3]; exact hj)
    obtain ⟨c, _⟩ := T4 (nx j) (by rw [nx_div]; exact ht0) (by rw [size3]; exact hn)
    exact good_of_tomb a c b
  by_cases ht1 : j / 3 = s.Pn edge / 3
  · have hn : nx j < s.start.size := nx_lt h3 hj
    have a := T3 j hj ht1
    have c := T3 (nx j) hn (by rw [nx_div]; exact ht1)
    refine good_of_tomb (by rw [S4 j ht0]; exact a.1)
      (by rw [S4 (nx j) (by rw [nx_div]; exact ht0)]; exact c.1) ?_
    rw [P4 j ht0 (ne_of_div ht1 (D.ut1 mpos)) (ne_of_div ht1 D.rt1)]; exact a.2
  have hn0 : nx j / 3 ≠ edge / 3 := by rw [nx_div]; exact ht0
  have hn1 : nx j / 3 ≠ s.Pn edge / 3 := by rw [nx_div]; exact ht1
  have hnn0 : nx (nx j) / 3 ≠ edge / 3 := by rw [nx_div]; exact hn0
  have hnn1 : nx (nx j) / 3 ≠ s.Pn edge / 3 := by rw [nx_div]; exact hn1
  have nu0 : nx (s.Pn (nx edge)) / 3 ≠ edge / 3 := by rw [nx_div]; exact D.ut0
  have nu1 : nx (s.Pn (nx edge)) / 3 ≠ s.Pn edge / 3 := by rw [nx_div]; exact D.ut1 mpos
  have nr0 : nx (s.Pn (nx (nx (s.Pn edge)))) / 3 ≠ edge / 3 := by rw [nx_div]; exact D.rt0 mpos
  have nr1 : nx (s.Pn (nx (nx (s.Pn edge)))) / 3 ≠ s.Pn edge / 3 := by rw [nx_div]; exact D.rt1
  by_cases hu : j = s.Pn (nx edge)
  · -- u : w0 → endVert, new partner r : endVert → w1 = w0
    subst hu
    refine good_mk (Pa4 D.ut0) (by rw [size4]; exact G.lr.lt) (Pb4 (D.rt0 mpos))
      (by rw [hS' _ hn0 hn1]; exact G.lu.s1) (by rw [hS' _ hnn0 hnn1]; exact G.lu.s2) ?_ ?_ ?_
    · rw [hS' _ ht0 ht1, hS' _ hn0 hn1]; exact G.lu.nd
    · rw [hS' _ ht0 ht1, hS' _ nr0 nr1, Lb.su, Lb.snr]; exact hw01
    · rw [hS' _ hn0 hn1, hS' _ (D.rt0 mpos) D.rt1, Lb.snu, Lb.sr]
  by_cases hr : j = s.Pn (nx (nx (s.Pn edge)))
  · subst hr
    refine good_mk (Pb4 (D.rt0 mpos)) (by rw [size4]; exact G.lu.lt) (Pa4 D.ut0)
      (by rw [hS' _ hn0 hn1]; exact G.lr.s1) (by rw [hS' _ hnn0 hnn1]; exact G.lr.s2) ?_ ?_ ?_
    · rw [hS' _ ht0 ht1, hS' _ hn0 hn1]; exact G.lr.nd
    · rw [hS' _ ht0 ht1, hS' _ nu0 nu1, Lb.sr, Lb.snu]
    · rw [hS' _ hn0 hn1, hS' _ D.ut0 (D.ut1 mpos), Lb.snr, Lb.su]; exact hw01.symm
  exact good_nonspecial C s4 size4 hrel hS hP j hj ht0 ht1
    (by rw [hc]; exact fun e => ht0 (by rw [e, nx_div, nx_div])) hr hu
    (by rw [hv]; exact fun e => ht1 (by rw [e, nx_div]))

/-- `endVert` has valence 2 (`m = 0`: `Pair(tri0edge[1]) = tri1edge[2]`), `startVert` has not -/
theorem collapse_case_pz {s : HE} {edge k : Nat} (hasProp : Bool) (C : Cfg s edge k 0)
    (kpos : 0 < k) :
    ∃ s4, PairInv s4 ∧ s4.nVert = s.nVert ∧ s4.start.size = s.start.size ∧
      collapseEdge s (edge : Int) #[] true hasProp =
        (do let s5 ← removeIfFolded s4 ((s.Pn (nx (s.Pn edge)) : Nat) : Int); pure (s5, true)) := by
  obtain ⟨s3, hw3, size3, nv3, S3rel, S3n, T3, P3, P3c0, P3r, hev⟩ := collapse_prefix hasProp C
  have G := geo_of C.h C.he C.hl
  have Lb := lab_of G
  have D := dist_of C
  have hu : s.Pn (nx edge) = nx (nx (s.Pn edge)) := C.hm
  have hr : s.Pn (nx (nx (s.Pn edge))) = nx edge := by rw [← hu]; exact G.le1.pn
  have hw01 : s.S (nx (nx edge)) = s.S (nx (nx (s.Pn edge))) := by
    have := Lb.su; rw [hu] at this; exact this.symm
  have relt0 : ∀ j, Rel s edge k j → j / 3 ≠ edge / 3 := by
    rintro j ⟨i, hi, rfl⟩; exact (C.relF i hi).2.2.1
  have e1t : nx edge / 3 ≠ s.Pn edge / 3 := by rw [nx_div]; exact D.t01.symm
  have e2t : nx (nx edge) / 3 ≠ s.Pn edge / 3 := by rw [nx_div]; exact e1t
  have e2r : nx (nx edge) ≠ s.Pn (nx (nx (s.Pn edge))) := by rw [hr]; exact nx_ne _
  have P3e1 : s3.P (nx edge) = (s.Pn (nx (s.Pn edge)) : Nat) := by
    have := P3r; rw [hr] at this; exact this
  have P3e2 : s3.P (nx (nx edge)) = s.P (nx (nx edge)) :=
    P3 _ e2t (ne_of_div (by rw [nx_div, nx_div]) (D.c0t0 kpos)) e2r
  have P3v : s3.P (s.Pn (nx (nx edge))) = s.P (s.Pn (nx (nx edge))) :=
    P3 _ (D.vt1 kpos) D.c0v.symm D.rv.symm
  have Pn3e1 := Pn_of_cast P3e1
  have Pn3e2 := Pn_congr P3e2
  obtain ⟨s4, hs4, pr4, nv4, np4, sz4, S4, T4, P4, ⟨Pa4, Pb4⟩, I4⟩ :=
    collapseTri_frame s3 (List.range s3.start.size) edge
      ⟨hw3, fun e he hx => absurd (List.mem_range.2 he) hx⟩ (by rw [size3]; exact C.he)
      ⟨by rw [P3e1]; omega, by rw [Pn3e1, size3]; exact G.lc0.lt, by rw [Pn3e1, P3c0, hr]⟩
      ⟨by rw [P3e2]; exact G.le2.p0, by rw [Pn3e2, size3]; exact G.le2.plt,
        by rw [Pn3e2, P3v]; exact G.le2.pp⟩
  rw [Pn3e1, Pn3e2] at P4 Pa4 Pb4
  have size4 : s4.start.size = s.start.size := by rw [sz4, size3]
  refine ⟨s4, ?_, by rw [nv4, nv3], size4, by rw [hev, hs4]; rfl⟩
  have hrel : ∀ j, Rel s edge k j → s4.S j = s.S (nx edge) :=
    fun j hR => by rw [S4 j (relt0 j hR)]; exact S3rel j hR
  have hS : ∀ j, j / 3 ≠ edge / 3 → j / 3 ≠ s.Pn edge / 3 → ¬ Rel s edge k j → s4.S j = s.S j :=
    fun j h0 h1 hR => by rw [S4 j h0]; exact S3n j hR h1
  have hP : ∀ j, j / 3 ≠ edge / 3 → j / 3 ≠ s.Pn edge / 3 → j ≠ s.Pn (nx (s.Pn edge)) →
      j ≠ s.Pn (nx (nx (s.Pn edge))) → j ≠ s.Pn (nx edge) → j ≠ s.Pn (nx (nx edge)) →
      s4.P j = s.P j := by
    intro j h0 h1 a b c d; rw [P4 j h0 a d]; exact P3 j h1 a b
  have nrel : ∀ x, s.S x ≠ s.S edge → ¬ Rel s edge k x := fun x hx hR => hx (C.rel_S hR)
  have h3 := C.h.1.2.2
  rw [pairInv_iff]
  refine ⟨I4.1, fun j hj _ => ?_⟩
  rw [size4] at hj
  by_cases ht0 : j / 3 = edge / 3
  · have hn : nx j < s.start.size := nx_lt h3 hj
    obtain ⟨a, b⟩ := T4 j ht0 (by rw [size3]; exact hj)
    obtain ⟨c, _⟩ := T4 (nx j) (by rw [nx_div]; exact ht0) (by rw [size3]; exact hn)
    exact good_of_tomb a c b
  by_cases ht1 : j / 3 = s.Pn edge / 3
  · have hn : nx j < s.start.size := nx_lt h3 hj
    have a := T3 j hj ht1
    have c := T3 (nx j) hn (by rw [nx_div]; exact ht1)
    refine good_of_tomb (by rw [S4 j ht0]; exact a.1)
      (by rw [S4 (nx j) (by rw [nx_div]; exact ht0)]; exact c.1) ?_
    rw [P4 j ht0 (ne_of_div ht1 D.c0t1) (ne_of_div ht1 (D.vt1 kpos))]; exact a.2
  have hn0 : nx j / 3 ≠ edge / 3 := by rw [nx_div]; exact ht0
  have hn1 : nx j / 3 ≠ s.Pn edge / 3 := by rw [nx_div]; exact ht1
  have hnn0 : nx (nx j) / 3 ≠ edge / 3 := by rw [nx_div]; exact hn0
  have hnn1 : nx (nx j) / 3 ≠ s.Pn edge / 3 := by rw [nx_div]; exact hn1
  have a0 := hS _ (D.c0t0 kpos) D.c0t1 (nrel _ (by rw [Lb.sc0]; exact Lb.aw1.symm))
  have a1 : s4.S (nx (s.Pn (nx (s.Pn edge)))) = s.S (nx edge) := hrel _ ⟨0, kpos, rfl⟩
  have b0 := hrel _ (C.rel_v kpos)
  have b1 := hS (nx (s.Pn (nx (nx edge)))) (by rw [nx_div]; exact D.vt0)
    (by rw [nx_div]; exact D.vt1 kpos) (nrel _ (by rw [Lb.snv]; exact Lb.w0a))
  by_cases hc0 : j = s.Pn (nx (s.Pn edge))
  · -- c0 : w1 → endVert, new partner v : endVert → w0 = w1
    subst hc0
    refine good_mk (Pa4 (D.c0t0 kpos)) (by rw [size4]; exact G.lv.lt) (Pb4 D.vt0)
      (by rw [a1]; exact Lb.b1) (s4_ne_neg C s4 hrel hS _ hnn0 hnn1 G.lc0.s2) ?_ ?_ ?_
    · rw [a0, a1, Lb.sc0]; exact Lb.w1b
    · rw [a0, b1, Lb.sc0, Lb.snv]; exact hw01.symm
    · rw [a1, b0]
  by_cases hv : j = s.Pn (nx (nx edge))
  · subst hv
    refine good_mk (Pb4 D.vt0) (by rw [size4]; exact G.lc0.lt) (Pa4 (D.c0t0 kpos))
      (by rw [b1, Lb.snv]; exact Lb.w01) (s4_ne_neg C s4 hrel hS _ hnn0 hnn1 G.lv.s2) ?_ ?_ ?_
    · rw [b0, b1, Lb.snv]; exact Lb.bw0
    · rw [b0, a1]
    · rw [b1, a0, Lb.snv, Lb.sc0]; exact hw01
  exact good_nonspecial C s4 size4 hrel hS hP j hj ht0 ht1 hc0
    (by rw [hr]; exact fun e => ht0 (by rw [e, nx_div]))
    (by rw [hu]; exact fun e => ht1 (by rw [e, nx_div, nx_div])) hv

/-- both ends have valence 2: the two triangles form a closed pillow and simply die -/
theorem collapse_case_zz {s : HE} {edge : Nat} (hasProp : Bool) (C : Cfg s edge 0 0) :
    ∃ s4, PairInv s4 ∧ s4.nVert = s.nVert ∧ s4.start.size = s.start.size ∧
      collapseEdge s (edge : Int) #[] true hasProp =
        (do let s5 ← removeIfFolded s4 ((s.Pn (nx (s.Pn edge)) : Nat) : Int); pure (s5, true)) := by
  obtain ⟨s3, hw3, size3, nv3, S3rel, S3n, T3, P3, P3c0, P3r, hev⟩ := collapse_prefix hasProp C
  have G := geo_of C.h C.he C.hl
  have Lb := lab_of G
  have D := dist_of C
  have hc : s.Pn (nx (s.Pn edge)) = nx (nx edge) := C.hk
  have hv : s.Pn (nx (nx edge)) = nx (s.Pn edge) := by rw [← hc]; exact G.lq1.pn
  have hu : s.Pn (nx edge) = nx (nx (s.Pn edge)) := C.hm
  have hr : s.Pn (nx (nx (s.Pn edge))) = nx edge := by rw [← hu]; exact G.le1.pn
  have P3e1 : s3.P (nx edge) = (s.Pn (nx (s.Pn edge)) : Nat) := by
    have := P3r; rw [hr] at this; exact this
  have P3e2 : s3.P (nx (nx edge)) = (s.Pn (nx (nx (s.Pn edge))) : Nat) := by
    rw [← hc]; exact P3c0
  have Pn3e1 := Pn_of_cast P3e1
  have Pn3e2 := Pn_of_cast P3e2
  obtain ⟨s4, hs4, pr4, nv4, np4, sz4, S4, T4, P4, ⟨Pa4, Pb4⟩, I4⟩ :=
    collapseTri_frame s3 (List.range s3.start.size) edge
      ⟨hw3, fun e he hx => absurd (List.mem_range.2 he) hx⟩ (by rw [size3]; exact C.he)
      ⟨by rw [P3e1]; omega, by rw [Pn3e1, size3]; exact G.lc0.lt, by rw [Pn3e1, P3c0, hr]⟩
      ⟨by rw [P3e2]; omega, by rw [Pn3e2, size3]; exact G.lr.lt, by rw [Pn3e2, P3r, hc]⟩
  rw [Pn3e1, Pn3e2] at P4
  have size4 : s4.start.size = s.start.size := by rw [sz4, size3]
  refine ⟨s4, ?_, by rw [nv4, nv3], size4, by rw [hev, hs4]; rfl⟩
  have hrel : ∀ j, Rel s edge 0 j → s4.S j = s.S (nx edge) := fun j hR => absurd hR (rel_zero s edge j)
  have hS : ∀ j, j / 3 ≠ edge / 3 → j / 3 ≠ s.Pn edge / 3 → ¬ Rel s edge 0 j → s4.S j = s.S j :=
    fun j h0 h1 hR => by rw [S4 j h0]; exact S3n j hR h1
  have hP : ∀ j, j / 3 ≠ edge / 3 → j / 3 ≠ s.Pn edge / 3 → j ≠ s.Pn (nx (s.Pn edge)) →
      j ≠ s.Pn (nx (nx (s.Pn edge))) → j ≠ s.Pn (nx edge) → j ≠ s.Pn (nx (nx edge)) →
      s4.P j = s.P j := by
    intro j h0 h1 a b c d; rw [P4 j h0 a b]; exact P3 j h1 a b
  have h3 := C.h.1.2.2
  rw [pairInv_iff]
  refine ⟨I4.1, fun j hj _ => ?_⟩
  rw [size4] at hj
  by_cases ht0 : j / 3 = edge / 3
  · have hn : nx j < s.start.size := nx_lt h3 hj
    obtain ⟨a, b⟩ := T4 j ht0 (by rw [size3]; exact hj)
    obtain ⟨c, _⟩ := T4 (nx j) (by rw [nx_div]; exact ht0) (by rw [size3]; exact hn)
    exact good_of_tomb a c b
  have jc0 : j ≠ s.Pn (nx (s.Pn edge)) := by
    rw [hc]; exact fun e => ht0 (by rw [e, nx_div, nx_div])
  have jr : j ≠ s.Pn (nx (nx (s.Pn edge))) := by
    rw [hr]; exact fun e => ht0 (by rw [e, nx_div])
  by_cases ht1 : j / 3 = s.Pn edge / 3
  · have hn : nx j < s.start.size := nx_lt h3 hj
    have a := T3 j hj ht1
    have c := T3 (nx j) hn (by rw [nx_div]; exact ht1)
    refine good_of_tomb (by rw [S4 j ht0]; exact a.1)
      (by rw [S4 (nx j) (by rw [nx_div]; exact ht0)]; exact c.1) ?_
    rw [P4 j ht0 jc0 jr]; exact a.2
  exact good_nonspecial C s4 size4 hrel hS hP j hj ht0 ht1 jc0 jr
    (by rw [hu]; exact fun e => ht1 (by rw [e, nx_div, nx_div]))
    (by rw [hv]; exact fun e => ht1 (by rw [e, nx_div]))

/-- `CollapseEdge` (edge_op.cpp:799-913) when the link condition holds, up to the final
`RemoveIfFolded(start)`: `FormLoop` is never called and the state handed to `RemoveIfFolded` is
manifold. -/
theorem collapseEdge_straight_core (s : HE) (edge k m : Nat) (hasProp : Bool)
    (h : PairInv s) (he : edge < s.start.size) (hl : s.P edge ≠ -1)
    (hk : s.walk (s.Pn (nx (s.Pn edge))) k = nx (nx edge))
    (hkmin : ∀ i, i < k → s.walk (s.Pn (nx (s.Pn edge))) i ≠ nx (nx edge))
    (hm : s.walk (s.Pn (nx edge)) m = nx (nx (s.Pn edge)))
    (hmmin : ∀ j, j < m → s.walk (s.Pn (nx edge)) j ≠ nx (nx (s.Pn edge)))
    (hlink : ∀ i, i < k → ∀ j, j < m →
      s.S (nx (nx (s.walk (s.Pn (nx (s.Pn edge))) i))) ≠ s.S (nx (nx (s.walk (s.Pn (nx edge)) j))))
    (hdup : ∀ i, i < k → s.S (nx (nx (s.walk (s.Pn (nx (s.Pn edge))) i))) ≠ s.S (nx edge)) :
    ∃ s4, PairInv s4 ∧ s4.nVert = s.nVert ∧ s4.start.size = s.start.size ∧
      collapseEdge s (edge : Int) #[] true hasProp =
        (do let s5 ← removeIfFolded s4 ((s.Pn (nx (s.Pn edge)) : Nat) : Int); pure (s5, true)) := by
  have C : Cfg s edge k m := ⟨h, he, hl, hk, hkmin, hm, hmmin, hlink, hdup⟩
  rcases Nat.eq_zero_or_pos k with rfl | kpos <;> rcases Nat.eq_zero_or_pos m with rfl | mpos
  · exact collapse_case_zz hasProp C
  · exact collapse_case_zp hasProp C mpos
  · exact collapse_case_pz hasProp C kpos
  · exact collapse_case_pp hasProp C kpos mpos

/-- `CollapseEdge` (edge_op.cpp:799-913) when the link condition holds: `FormLoop` is never called,
the call returns `true` and the result is manifold (`IsManifold()`), with no vertex added.
Notation: `pair = Pn edge`; tri0 = `edge, nx edge, nx (nx edge)`; tri1 = `pair, nx pair, nx (nx pair)`;
`c0 = Pn (nx pair)` is the C++ `start`, `d0 = Pn (nx edge)`.  `k`, `m` are the numbers of steps the
fans of `startVert` / `endVert` take from `c0` to `tri0edge[2]` / from `d0` to `tri1edge[2]`. -/
theorem collapseEdge_straight (s : HE) (edge k m : Nat) (hasProp : Bool)
    (h : PairInv s) (he : edge < s.start.size) (hl : s.P edge ≠ -1)
    (hk : s.walk (s.Pn (nx (s.Pn edge))) k = nx (nx edge))
    (hkmin : ∀ i, i < k → s.walk (s.Pn (nx (s.Pn edge))) i ≠ nx (nx edge))
    (hm : s.walk (s.Pn (nx edge)) m = nx (nx (s.Pn edge)))
    (hmmin : ∀ j, j < m → s.walk (s.Pn (nx edge)) j ≠ nx (nx (s.Pn edge)))
    (hlink : ∀ i, i < k → ∀ j, j < m →
      s.S (nx (nx (s.walk (s.Pn (nx (s.Pn edge))) i))) ≠ s.S (nx (nx (s.walk (s.Pn (nx edge)) j))))
    (hdup : ∀ i, i < k → s.S (nx (nx (s.walk (s.Pn (nx (s.Pn edge))) i))) ≠ s.S (nx edge)) :
    ∃ s', collapseEdge s (edge : Int) #[] true hasProp = .ok (s', true) ∧ PairInv s' ∧
      s'.nVert = s.nVert := by
  obtain ⟨s4, I4, nv4, sz4, hev⟩ :=
    collapseEdge_straight_core s edge k m hasProp h he hl hk hkmin hm hmmin hlink hdup
  have hc0 : s.Pn (nx (s.Pn edge)) < s.start.size := (geo_of h he hl).lc0.lt
  obtain ⟨s5, hs5, I5, nv5, _⟩ := removeIfFolded_preserves s4 (s.Pn (nx (s.Pn edge))) I4
    (by rw [sz4]; exact hc0)
  refine ⟨s5, ?_, I5, by rw [nv5, nv4]⟩
  rw [hev, hs5]
  rfl

/-- an octahedron: equator 0,1,2,3, apexes 4 (top) and 5 (bottom) -/
def octaCE : HE :=
  { start := #[0,1,4, 1,2,4, 2,3,4, 3,0,4, 1,0,5, 2,1,5, 3,2,5, 0,3,5],
    paired := #[12,5,10, 15,8,1, 18,11,4, 21,2,7, 0,23,16, 3,14,19, 6,17,22, 9,20,13],
    prop := #[0,1,4, 1,2,4, 2,3,4, 3,0,4, 1,0,5, 2,1,5, 3,2,5, 0,3,5],
    nVert := 6, nPropVert := 6 }

/-- non-vacuity of `collapseEdge_straight_core`: the equator edge 0→1 of the octahedron (both fans
have `k = m = 2` inner steps; the common neighbours of 0 and 1 are exactly the two apexes) -/
example : ∃ s4, PairInv s4 ∧ s4.nVert = octaCE.nVert ∧ s4.start.size = octaCE.start.size ∧
    collapseEdge octaCE ((0 : Nat) : Int) #[] true false =
      (do let s5 ← removeIfFolded s4 ((octaCE.Pn (nx (octaCE.Pn 0)) : Nat) : Int); pure (s5, true)) :=
  collapseEdge_straight_core octaCE 0 2 2 false (by decide +kernel) (by decide +kernel)
    (by decide +kernel) (by decide +kernel) (by decide +kernel)
    (by decide +kernel) (by decide +kernel) (by decide +kernel) (by decide +kernel)

/-- non-vacuity of `collapseEdge_straight` on the same instance -/
example : ∃ s', collapseEdge octaCE ((0 : Nat) : Int) #[] true true = .ok (s', true) ∧ PairInv s' ∧
    s'.nVert = octaCE.nVert :=
  collapseEdge_straight octaCE 0 2 2 true (by decide +kernel) (by decide +kernel) (by decide +kernel)
    (by decide +kernel) (by decide +kernel) (by decide +kernel)
    (by decide +kernel) (by decide +kernel) (by decide +kernel)

/-- vertex 0 has valence 2: triangles (0,1,2), (1,0,2), (2,1,3), (1,2,3) -/
def val2CE : HE :=
  { start := #[0,1,2, 1,0,2, 2,1,3, 1,2,3], paired := #[3,6,4, 0,2,9, 1,11,10, 5,8,7],
    prop := #[0,1,2, 1,0,2, 2,1,3, 1,2,3], nVert := 4, nPropVert := 4 }

/-- non-vacuity, `k = 0`: collapsing 0→1, `startVert` 0 has valence 2 -/
example : ∃ s', collapseEdge val2CE ((0 : Nat) : Int) #[] true true = .ok (s', true) ∧ PairInv s' ∧
    s'.nVert = val2CE.nVert :=
  collapseEdge_straight val2CE 0 0 2 true (by decide +kernel) (by decide +kernel) (by decide +kernel)
    (by decide +kernel) (by decide +kernel) (by decide +kernel)
    (by decide +kernel) (by decide +kernel) (by decide +kernel)

/-- non-vacuity, `m = 0`: collapsing 1→0, `endVert` 0 has valence 2 -/
example : ∃ s', collapseEdge val2CE ((3 : Nat) : Int) #[] true true = .ok (s', true) ∧ PairInv s' ∧
    s'.nVert = val2CE.nVert :=
  collapseEdge_straight val2CE 3 2 0 true (by decide +kernel) (by decide +kernel) (by decide +kernel)
    (by decide +kernel) (by decide +kernel) (by decide +kernel)
    (by decide +kernel) (by decide +kernel) (by decide +kernel)

/-- non-vacuity, `k = m = 0`: the pillow (0,1,2), (0,2,1) -/
example : ∃ s', collapseEdge
      { start := #[0,1,2, 0,2,1], paired := #[5,4,3, 2,1,0], prop := #[0,1,2, 0,2,1],
        nVert := 3, nPropVert := 3 } ((0 : Nat) : Int) #[] true false = .ok (s', true) ∧
      PairInv s' ∧ s'.nVert = 3 :=
  collapseEdge_straight _ 0 0 0 false (by decide +kernel) (by decide +kernel) (by decide +kernel)
    (by decide +kernel) (by decide +kernel) (by decide +kernel)
    (by decide +kernel) (by decide +kernel) (by decide +kernel)

end MV.EdgeOp
