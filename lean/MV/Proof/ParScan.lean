/-
Helper lemmas for property C13a: every TBB protocol modelled in `MV/Model/Par.lean`
(parallel_reduce, parallel_scan with ScanBody / CopyIfScanBody, parallel_for) computes its
sequential specification for every valid schedule.  Core Lean only.
-/
import MV.Model.Par

namespace MV.Par

variable {α : Type}

/-! ## schedules -/

theorem Sched.valid_iff' {t : Sched} {n : Nat} : t.valid n = true ↔ t.Valid n := by
  induction t generalizing n with
  | leaf => simp [Sched.valid, Sched.Valid]
  | node k s l r ihl ihr => simp [Sched.valid, Sched.Valid, ihl, ihr, and_assoc]

instance (t : Sched) (n : Nat) : Decidable (t.Valid n) :=
  decidable_of_iff _ Sched.valid_iff'

/-- a valid schedule only exists over a non-empty range -/
theorem Sched.Valid.pos {t : Sched} {n : Nat} (h : t.Valid n) : 0 < n := by
  induction t generalizing n with
  | leaf => exact h
  | node k s l r ihl _ =>
    obtain ⟨hk, hl, _⟩ := h
    exact Nat.lt_of_lt_of_le (ihl hl) hk

theorem Sched.Valid.ne_nil {t : Sched} {xs : List α} (h : t.Valid xs.length) : xs ≠ [] := by
  intro e; subst e; exact Nat.lt_irrefl 0 h.pos

/-- the two halves of a valid node are valid for `take`/`drop` -/
theorem Sched.Valid.split {k : Nat} {s : Bool} {l r : Sched} {xs : List α}
    (h : (Sched.node k s l r).Valid xs.length) :
    l.Valid (xs.take k).length ∧ r.Valid (xs.drop k).length := by
  obtain ⟨hk, hl, hr⟩ := h
  have h1 : (xs.take k).length = k := by simp [List.length_take]; omega
  have h2 : (xs.drop k).length = xs.length - k := by simp
  rw [h1, h2]; exact ⟨hl, hr⟩

/-! ## sequential scans -/

theorem exScan_append (f : α → α → α) (s : α) (xs ys : List α) :
    exScan f s (xs ++ ys) =
      ((exScan f s xs).1 ++ (exScan f (exScan f s xs).2 ys).1,
        (exScan f (exScan f s xs).2 ys).2) := by
  induction xs generalizing s with
  | nil => simp [exScan]
  | cons x xs ih => simp [exScan, ih]

theorem exScan_snd (f : α → α → α) (s : α) (xs : List α) :
    (exScan f s xs).2 = xs.foldl f s := by
  induction xs generalizing s with
  | nil => rfl
  | cons x xs ih => simp [exScan, ih]

theorem exScan_fst_length (f : α → α → α) (s : α) (xs : List α) :
    (exScan f s xs).1.length = xs.length := by
  induction xs generalizing s with
  | nil => rfl
  | cons x xs ih => simp [exScan, ih]

theorem inScan_append (f : α → α → α) (s : α) (xs ys : List α) :
    inScan f s (xs ++ ys) = inScan f s xs ++ inScan f (xs.foldl f s) ys := by
  induction xs generalizing s with
  | nil => simp [inScan]
  | cons x xs ih => simp [inScan, ih]

theorem inScan_length (f : α → α → α) (s : α) (xs : List α) :
    (inScan f s xs).length = xs.length := by
  induction xs generalizing s with
  | nil => rfl
  | cons x xs ih => simp [inScan, ih]

/-! ## parallel_reduce -/

section assoc
variable (f : α → α → α) (idn : α)
variable (hassoc : ∀ a b c, f (f a b) c = f a (f b c))
variable (hid : ∀ a b, f a (f idn b) = f a b)

include hassoc in
theorem fold_assoc (c s : α) (xs : List α) : f c (xs.foldl f s) = xs.foldl f (f c s) := by
  induction xs generalizing s with
  | nil => rfl
  | cons x xs ih => simp [List.foldl_cons, ih, hassoc]

include hassoc hid in
/-- joining a non-empty chunk reduced from the identity = continuing the fold -/
theorem fold_carry (c : α) (xs : List α) (h : xs ≠ []) :
    f c (xs.foldl f idn) = xs.foldl f c := by
  cases xs with
  | nil => exact absurd rfl h
  | cons x xs => simp [List.foldl_cons, fold_assoc f hassoc, hid]

include hassoc hid in
theorem reduceGo_eq_foldl' (t : Sched) (v : α) (xs : List α) (hv : t.Valid xs.length) :
    reduceGo f idn t v xs = xs.foldl f v := by
  induction t generalizing v xs with
  | leaf => rfl
  | node k s l r ihl ihr =>
    obtain ⟨hl, hr⟩ := hv.split
    cases s with
    | false =>
      show reduceGo f idn r (reduceGo f idn l v (xs.take k)) (xs.drop k) = _
      rw [ihl _ _ hl, ihr _ _ hr, ← List.foldl_append, List.take_append_drop]
    | true =>
      show f (reduceGo f idn l v (xs.take k)) (reduceGo f idn r idn (xs.drop k)) = _
      rw [ihl _ _ hl, ihr _ _ hr, fold_carry f idn hassoc hid _ _ hr.ne_nil,
        ← List.foldl_append, List.take_append_drop]

include hassoc hid in
theorem summary_carry (t : Sched) (c : α) (xs : List α) (hv : t.Valid xs.length) :
    f c (summary f idn t xs) = xs.foldl f c := by
  unfold summary
  rw [reduceGo_eq_foldl' f idn hassoc hid t idn xs hv, fold_carry f idn hassoc hid c xs hv.ne_nil]

/-! ## parallel_scan -/

include hassoc hid in
theorem finalScan_eq_exScan' (t : Sched) (c : α) (xs : List α) (hv : t.Valid xs.length) :
    finalScan f idn t c xs = exScan f c xs := by
  induction t generalizing c xs with
  | leaf => rfl
  | node k s l r ihl ihr =>
    obtain ⟨hl, hr⟩ := hv.split
    have hc : (if s = true then f c (summary f idn l (xs.take k))
        else (exScan f c (xs.take k)).2) = (xs.take k).foldl f c := by
      cases s with
      | false => simp [exScan_snd]
      | true => simp [summary_carry f idn hassoc hid l c _ hl]
    simp only [finalScan]
    rw [ihl c _ hl, hc, ihr _ _ hr]
    conv => rhs; rw [← List.take_append_drop k xs, exScan_append]
    simp [exScan_snd]

include hassoc hid in
theorem finalScanIncl_eq (t : Sched) (c : α) (xs : List α) (hv : t.Valid xs.length) :
    finalScanIncl f idn t c xs = (inScan f c xs, xs.foldl f c) := by
  induction t generalizing c xs with
  | leaf => rfl
  | node k s l r ihl ihr =>
    obtain ⟨hl, hr⟩ := hv.split
    have hc : (if s = true then f c (summary f idn l (xs.take k))
        else (xs.take k).foldl f c) = (xs.take k).foldl f c := by
      cases s with
      | false => simp
      | true => simp [summary_carry f idn hassoc hid l c _ hl]
    simp only [finalScanIncl]
    rw [ihl c _ hl]
    simp only [hc]
    rw [ihr _ _ hr]
    conv => rhs; rw [← List.take_append_drop k xs, inScan_append, List.foldl_append]

end assoc

/-! ## all_of -/

theorem allOfGo_eq (p : α → Bool) (t : Sched) (v : Bool) (xs : List α) :
    reduceGoG (fun (v : Bool) (c : List α) => if !v then false else c.all p)
      (fun a b => a && b) true t v xs = (v && xs.all p) := by
  induction t generalizing v xs with
  | leaf => cases v <;> simp [reduceGoG]
  | node k s l r ihl ihr =>
    have h : xs.all p = ((xs.take k).all p && (xs.drop k).all p) := by
      rw [← List.all_append, List.take_append_drop]
    cases s <;> simp only [reduceGoG, ihl, ihr, h, Bool.true_and, Bool.and_assoc]

/-! ## CopyIfScanBody -/

theorem foldl_add_ind (p : α → Bool) (c : Nat) (xs : List α) :
    (xs.map (ind p)).foldl (· + ·) c = c + (xs.filter p).length := by
  induction xs generalizing c with
  | nil => rfl
  | cons x xs ih =>
    by_cases h : p x <;> simp [ind, h, ih] <;> omega

/-- ranks from the sequential exclusive scan of the indicator: the kept elements get the
consecutive slots `c, c+1, …` -/
theorem exScan_ranks_filter (p : α → Bool) (c : Nat) (xs : List α) :
    (((exScan (· + ·) c (xs.map (ind p))).1.zip xs).filter (fun rx => p rx.2))
      = (List.range' c (xs.filter p).length).zip (xs.filter p) := by
  induction xs generalizing c with
  | nil => rfl
  | cons x xs ih =>
    by_cases h : p x
    · simp [exScan, ind, h, ih, List.range'_succ]
    · simp [exScan, ind, h, ih]

theorem nat_add_assoc' : ∀ a b c : Nat, a + b + c = a + (b + c) := Nat.add_assoc
theorem nat_add_hid : ∀ a b : Nat, a + (0 + b) = a + b := by intro a b; omega

theorem copyIfWrites_eq' (p : α → Bool) (t : Sched) (c : Nat) (xs : List α)
    (hv : t.Valid xs.length) :
    copyIfWrites p t c xs = (List.range' c (xs.filter p).length).zip (xs.filter p) := by
  unfold copyIfWrites
  have hv' : t.Valid (xs.map (ind p)).length := by simpa using hv
  rw [finalScan_eq_exScan' (· + ·) 0 nat_add_assoc' nat_add_hid t c _ hv']
  exact exScan_ranks_filter p c xs

theorem copyIfCount_eq' (p : α → Bool) (t : Sched) (c : Nat) (xs : List α)
    (hv : t.Valid xs.length) :
    copyIfCount p t c xs = c + (xs.filter p).length := by
  unfold copyIfCount
  have hv' : t.Valid (xs.map (ind p)).length := by simpa using hv
  rw [finalScan_eq_exScan' (· + ·) 0 nat_add_assoc' nat_add_hid t c _ hv', exScan_snd,
    foldl_add_ind]

/-! ## applying writes -/

theorem applyWrites_nil (out : List α) : applyWrites out [] = out := rfl

theorem applyWrites_cons (out : List α) (w : Nat × α) (ws : List (Nat × α)) :
    applyWrites out (w :: ws) = applyWrites (out.set w.1 w.2) ws := rfl

theorem applyWrites_length (out : List α) (ws : List (Nat × α)) :
    (applyWrites out ws).length = out.length := by
  induction ws generalizing out with
  | nil => rfl
  | cons w ws ih => rw [applyWrites_cons, ih, List.length_set]

/-- consecutive writes starting at slot `c` overwrite exactly `[c, c + vs.length)` -/
theorem applyWrites_range' (out vs : List α) (c : Nat) (h : c + vs.length ≤ out.length) :
    applyWrites out ((List.range' c vs.length).zip vs)
      = out.take c ++ vs ++ out.drop (c + vs.length) := by
  induction vs generalizing out c with
  | nil => simp [applyWrites]
  | cons v vs ih =>
    simp only [List.length_cons] at h
    simp only [List.length_cons, List.range'_succ, List.zip_cons_cons, applyWrites_cons]
    rw [ih (out.set c v) (c + 1) (by rw [List.length_set]; omega)]
    have hc : c < out.length := by omega
    have hs : out.set c v = out.take c ++ v :: out.drop (c + 1) := by
      rw [List.set_eq_take_append_cons_drop, if_pos hc]
    have hl : (out.take c).length = c := by rw [List.length_take]; omega
    have h1 : (out.set c v).take (c + 1) = out.take c ++ [v] := by
      rw [hs, List.take_append, hl]
      simp [List.take_of_length_le, hl]
    have h2 : (out.set c v).drop (c + 1 + vs.length) = out.drop (c + (vs.length + 1)) := by
      rw [List.drop_set_of_lt (by omega)]
      congr 1; omega
    rw [h1, h2]; simp

theorem applyWrites_prefix' (out vs : List α) (h : vs.length ≤ out.length) :
    applyWrites out ((List.range' 0 vs.length).zip vs) = vs ++ out.drop vs.length := by
  have := applyWrites_range' out vs 0 (by omega)
  simpa using this

/-- `fst` is injective on a list of writes whose slots are pairwise distinct -/
theorem eq_of_fst_eq_of_nodup {ws : List (Nat × α)} (hd : (ws.map Prod.fst).Nodup)
    {x y : Nat × α} (hx : x ∈ ws) (hy : y ∈ ws) (h : x.1 = y.1) : x = y := by
  induction ws with
  | nil => cases hx
  | cons w ws ih =>
    rw [List.map_cons, List.nodup_cons] at hd
    obtain ⟨hnot, hd'⟩ := hd
    rcases List.mem_cons.1 hx with rfl | hx' <;> rcases List.mem_cons.1 hy with rfl | hy'
    · rfl
    · exact absurd (h ▸ List.mem_map_of_mem (f := Prod.fst) hy') hnot
    · exact absurd (h ▸ List.mem_map_of_mem (f := Prod.fst) hx') hnot
    · exact ih hd' hx' hy'

theorem applyWrites_perm' {ws ws' : List (Nat × α)} (out : List α)
    (hd : (ws.map Prod.fst).Nodup) (hp : ws'.Perm ws) :
    applyWrites out ws' = applyWrites out ws := by
  unfold applyWrites
  refine (List.Perm.foldl_eq' hp.symm ?_ out).symm
  intro x hx y hy z
  by_cases hxy : x.1 = y.1
  · rw [eq_of_fst_eq_of_nodup hd hx hy hxy]
  · exact List.set_comm _ _ hxy

/-! ## parallel_for -/

theorem tiles_iff' {cs : List (Nat × Nat)} {a b : Nat} : tiles cs a b = true ↔ Tiles cs a b := by
  induction cs generalizing a with
  | nil => simp [tiles, Tiles]
  | cons c cs ih => simp [tiles, Tiles, ih, and_assoc]

instance (cs : List (Nat × Nat)) (a b : Nat) : Decidable (Tiles cs a b) :=
  decidable_of_iff _ tiles_iff'

theorem Tiles.append {xs ys : List (Nat × Nat)} {a b c : Nat}
    (h1 : Tiles xs a b) (h2 : Tiles ys b c) : Tiles (xs ++ ys) a c := by
  induction xs generalizing a with
  | nil => cases h1; exact h2
  | cons x xs ih => exact ⟨h1.1, h1.2.1, ih h1.2.2⟩

theorem Sched.chunks_tiles' (t : Sched) (a n : Nat) (hv : t.Valid n) :
    Tiles (t.chunks a n) a (a + n) := by
  induction t generalizing a n with
  | leaf =>
    have : 0 < n := hv
    exact ⟨rfl, by show a < a + n; omega, rfl⟩
  | node k s l r ihl ihr =>
    obtain ⟨hk, hl, hr⟩ := hv
    have := (ihl a k hl).append (ihr (a + k) (n - k) hr)
    have e : a + k + (n - k) = a + n := by omega
    rw [e] at this
    exact this

/-- the indices visited by a chunk list, in execution order -/
def chunkIdx (cs : List (Nat × Nat)) : List Nat :=
  cs.flatMap fun c => List.range' c.1 (c.2 - c.1)

theorem parFor_eq_foldl {σ : Type} (body : Nat → σ → σ) (cs : List (Nat × Nat)) (s : σ) :
    parFor body cs s = (chunkIdx cs).foldl (fun s i => body i s) s := by
  unfold parFor chunkIdx
  induction cs generalizing s with
  | nil => rfl
  | cons c cs ih => simp [List.flatMap_cons, List.foldl_append, ih]

theorem Tiles.chunkIdx {cs : List (Nat × Nat)} {a b : Nat} (h : Tiles cs a b) :
    chunkIdx cs = List.range' a (b - a) := by
  induction cs generalizing a with
  | nil => cases h; simp [MV.Par.chunkIdx]
  | cons c cs ih =>
    obtain ⟨h1, h2, h3⟩ := h
    have hle : c.2 ≤ b := by
      clear ih h1 h2
      induction cs generalizing c with
      | nil => exact Nat.le_of_eq h3
      | cons d ds ihd =>
        obtain ⟨e1, e2, e3⟩ := h3
        exact Nat.le_trans (Nat.le_of_lt e2) (ihd d e3)
    have ih' := ih h3
    simp only [MV.Par.chunkIdx, List.flatMap_cons] at ih' ⊢
    rw [ih', h1]
    have e : b - a = (c.2 - a) + (b - c.2) := by omega
    rw [e, ← List.range'_append_1]
    congr 2; omega

theorem Tiles.le {cs : List (Nat × Nat)} {a b : Nat} (h : Tiles cs a b) : a ≤ b := by
  induction cs generalizing a with
  | nil => exact Nat.le_of_eq h
  | cons c cs ih => exact Nat.le_trans (Nat.le_of_lt h.2.1) (ih h.2.2)

theorem parFor_eq_seqFor' {σ : Type} (body : Nat → σ → σ)
    (hcomm : ∀ i j s, i ≠ j → body i (body j s) = body j (body i s))
    {cs ts : List (Nat × Nat)} {n : Nat} (hp : cs.Perm ts) (ht : Tiles ts 0 n) (s : σ) :
    parFor body cs s = seqFor body n s := by
  rw [parFor_eq_foldl]
  unfold seqFor
  have h1 : (chunkIdx cs).Perm (List.range n) := by
    have : (chunkIdx cs).Perm (chunkIdx ts) := List.Perm.flatMap_right _ hp
    rw [ht.chunkIdx] at this
    simpa [List.range_eq_range'] using this
  refine List.Perm.foldl_eq' h1 ?_ s
  intro x _ y _ z
  by_cases hxy : x = y
  · rw [hxy]
  · exact hcomm y x z (Ne.symm hxy)

theorem parForCancel_eq_parFor {σ : Type} (body : Nat → σ → σ)
    (cs : List ((Nat × Nat) × Bool)) (s : σ) :
    parForCancel body cs s = parFor body ((cs.filter fun c => !c.2).map Prod.fst) s := by
  unfold parForCancel parFor
  induction cs generalizing s with
  | nil => rfl
  | cons c cs ih =>
    cases hc : c.2 <;> simp [hc, ih]

/-! ## unique -/

/-- Specification of one window / the whole of `std::unique` with an explicit predecessor:
`last` is the element most recently kept. -/
def uniqFrom [BEq α] : Option α → List α → List α
  | _, [] => []
  | none, h :: rest => h :: uniqFrom (some h) rest
  | some l, h :: rest => if l == h then uniqFrom (some l) rest else h :: uniqFrom (some h) rest

/-- the `last` that `parUniqueGo` threads to the next window -/
def nextLast (last : Option α) (out : List α) : Option α :=
  match out.getLast? with
  | some x => some x
  | none => last

theorem nextLast_cons (last : Option α) (h : α) (out : List α) :
    nextLast last (h :: out) = nextLast (some h) out := by
  cases out with
  | nil => rfl
  | cons y ys =>
    cases hg : (y :: ys).getLast? with
    | none => simp at hg
    | some z => simp [nextLast, List.getLast?_cons_cons, hg]

section unique
variable [BEq α] [LawfulBEq α]

theorem seqUnique_eq_uniqFrom (xs : List α) : seqUnique xs = uniqFrom none xs := by
  cases xs with
  | nil => rfl
  | cons x xs =>
    show seqUnique (x :: xs) = x :: uniqFrom (some x) xs
    induction xs generalizing x with
    | nil => rfl
    | cons y ys ih =>
      simp only [seqUnique, uniqFrom]
      by_cases h : x == y
      · have : x = y := eq_of_beq h
        subst this
        simp [ih]
      · simp [h, ih]

theorem uniqFrom_append (last : Option α) (xs ys : List α) :
    uniqFrom last (xs ++ ys)
      = uniqFrom last xs ++ uniqFrom (nextLast last (uniqFrom last xs)) ys := by
  induction xs generalizing last with
  | nil => cases last <;> simp [uniqFrom, nextLast]
  | cons h rest ih =>
    cases last with
    | none =>
      simp only [List.cons_append, uniqFrom, ih, nextLast_cons]
    | some l =>
      simp only [List.cons_append, uniqFrom]
      by_cases hl : l == h
      · simp only [hl, if_true, ih]
      · have hl' : (l == h) = false := by simpa using hl
        simp only [hl', ih, Bool.false_eq_true, if_false]
        rw [nextLast_cons]
        simp

omit [LawfulBEq α] in
theorem uniqFrom_length_le (last : Option α) (xs : List α) :
    (uniqFrom last xs).length ≤ xs.length := by
  induction xs generalizing last with
  | nil => cases last <;> simp [uniqFrom]
  | cons h rest ih =>
    cases last with
    | none => simpa [uniqFrom] using ih (some h)
    | some l =>
      simp only [uniqFrom]
      split
      · exact Nat.le_trans (ih _) (Nat.le_succ _)
      · simpa using ih (some h)

/-- the kept elements of `zip (h :: rest) rest` under `a ≠ b` -/
theorem pairs_filter_eq (h : α) (rest : List α) :
    ((((h :: rest).zip rest).filter (fun ab => ab.1 != ab.2)).map Prod.snd)
      = uniqFrom (some h) rest := by
  induction rest generalizing h with
  | nil => rfl
  | cons r rs ih =>
    simp only [List.zip_cons_cons, List.filter_cons, uniqFrom]
    by_cases e : h == r
    · have : h = r := eq_of_beq e
      subst this
      simp [ih]
    · have hne : (h != r) = true := by simp [bne, e]
      simp only [hne, e, if_true, List.map_cons, ih]
      simp

theorem uniqueWindow_eq' (t : Sched) (last : Option α) (tmp : List α)
    (hv : 2 ≤ tmp.length → t.Valid (tmp.length - 1)) :
    uniqueWindow t last tmp = uniqFrom last tmp := by
  cases tmp with
  | nil => cases last <;> rfl
  | cons h rest =>
    have hk : (if rest.isEmpty then []
        else (((finalScan (· + ·) 0 t 0
          ((((h :: rest).zip rest)).map (ind fun ab => ab.1 != ab.2))).1.zip
            ((h :: rest).zip rest)).filter (fun r => r.2.1 != r.2.2)).map (fun r => r.2.2))
        = uniqFrom (some h) rest := by
      cases rest with
      | nil => rfl
      | cons r rs =>
        have hv' : t.Valid ((h :: r :: rs).zip (r :: rs)).length := by
          have := hv (by simp)
          simpa [List.length_zip] using this
        have hw := copyIfWrites_eq' (fun ab : α × α => ab.1 != ab.2) t 0
          ((h :: r :: rs).zip (r :: rs)) hv'
        unfold copyIfWrites at hw
        simp only [List.isEmpty_cons, Bool.false_eq_true, if_false]
        rw [hw, ← pairs_filter_eq]
        show List.map (Prod.snd ∘ Prod.snd) _ = _
        rw [← List.map_map, List.map_snd_zip]
        simp
    unfold uniqueWindow
    simp only [hk]
    cases last with
    | none => rfl
    | some l =>
      simp only [uniqFrom]
      by_cases e : l == h
      · have : l = h := eq_of_beq e
        subst this
        simp
      · simp [e]

end unique

/-- window schedules are valid: mirrors the recursion of `parUniqueGo`; the window of length
`L ≥ 2` is scanned over `[0, L-1)` with the head schedule. -/
def WindowsValidGo (W : Nat) : Nat → List Sched → List α → Prop
  | 0, _, _ => True
  | fuel + 1, ts, xs =>
    xs = [] ∨
      ((2 ≤ (xs.take W).length → (ts.headD .leaf).Valid ((xs.take W).length - 1)) ∧
        WindowsValidGo W fuel ts.tail (xs.drop W))

def WindowsValid (W : Nat) (ts : List Sched) (xs : List α) : Prop :=
  WindowsValidGo W (xs.length + 1) ts xs

section unique
variable [BEq α] [LawfulBEq α]

theorem parUniqueGo_eq (W : Nat) (hW : 0 < W) (fuel : Nat) (ts : List Sched)
    (last : Option α) (xs : List α) (hf : xs.length < fuel)
    (hv : WindowsValidGo W fuel ts xs) :
    parUniqueGo W fuel ts last xs = uniqFrom last xs := by
  induction fuel generalizing ts last xs with
  | zero => exact absurd hf (Nat.not_lt_zero _)
  | succ fuel ih =>
    cases xs with
    | nil => cases last <;> rfl
    | cons x xs' =>
      rcases hv with hnil | ⟨hv1, hv2⟩
      · cases hnil
      · have hlen : ((x :: xs').drop W).length < fuel := by
          simp only [List.length_drop, List.length_cons] at hf ⊢; omega
        have hw := uniqueWindow_eq' (ts.headD .leaf) last ((x :: xs').take W) hv1
        have hrec := ih ts.tail
          (nextLast last (uniqueWindow (ts.headD .leaf) last ((x :: xs').take W)))
          ((x :: xs').drop W) hlen hv2
        have key : parUniqueGo W (fuel + 1) ts last (x :: xs')
            = uniqueWindow (ts.headD .leaf) last ((x :: xs').take W)
              ++ parUniqueGo W fuel ts.tail
                (nextLast last (uniqueWindow (ts.headD .leaf) last ((x :: xs').take W)))
                ((x :: xs').drop W) := rfl
        rw [key, hrec, hw, ← uniqFrom_append, List.take_append_drop]

end unique

/-- index form of `WindowsValid`: window `i` covers `[i*W, i*W + L)` with
`L = min W (xs.length - i*W)` and is scanned with the `i`-th schedule (default `leaf`) -/
theorem windowsValidGo_of_forall (W fuel : Nat) (ts : List Sched) (xs : List α)
    (h : ∀ i, i * W < xs.length → 2 ≤ min W (xs.length - i * W) →
      (ts.getD i .leaf).Valid (min W (xs.length - i * W) - 1)) :
    WindowsValidGo W fuel ts xs := by
  induction fuel generalizing ts xs with
  | zero => trivial
  | succ fuel ih =>
    by_cases hx : xs = []
    · exact Or.inl hx
    · refine Or.inr ⟨?_, ih _ _ ?_⟩
      · have hpos : 0 < xs.length := List.length_pos_iff.2 hx
        have h0 := h 0 (by simpa using hpos)
        have e : ts.getD 0 .leaf = ts.headD .leaf := by cases ts <;> rfl
        rw [List.length_take, ← e]
        simpa using h0
      · intro i hi h2
        have e : ts.tail.getD i .leaf = ts.getD (i + 1) .leaf := by cases ts <;> simp
        rw [List.length_drop] at hi h2 ⊢
        have hm : (i + 1) * W = i * W + W := Nat.succ_mul i W
        have e2 : xs.length - W - i * W = xs.length - (i + 1) * W := by omega
        rw [e2] at h2
        rw [e, e2]
        exact h (i + 1) (by omega) h2

/-- emitted ≤ consumed, for any schedule (valid or not) -/
theorem uniqueWindow_length_le [BEq α] (t : Sched) (last : Option α) (tmp : List α) :
    (uniqueWindow t last tmp).length ≤ tmp.length := by
  cases tmp with
  | nil => simp [uniqueWindow]
  | cons h rest =>
    unfold uniqueWindow
    simp only [List.length_append, List.length_cons]
    rw [Nat.add_comm]
    refine Nat.add_le_add ?_ ?_
    · split
      · simp
      · rw [List.length_map]
        refine Nat.le_trans (List.length_filter_le _ _) ?_
        rw [List.length_zip, List.length_zip]
        simp only [List.length_cons]
        omega
    · cases last with
      | none => simp
      | some l => dsimp only; split <;> simp

/-- after `j` windows (fuel `j`) the output cursor has not overtaken the read cursor -/
theorem parUniqueGo_length_le [BEq α] (W j : Nat) (ts : List Sched) (last : Option α)
    (xs : List α) : (parUniqueGo W j ts last xs).length ≤ min (j * W) xs.length := by
  induction j generalizing ts last xs with
  | zero => simp [parUniqueGo]
  | succ j ih =>
    unfold parUniqueGo
    split
    · simp
    · simp only [List.length_append]
      refine Nat.le_trans (Nat.add_le_add
        (uniqueWindow_length_le (ts.headD .leaf) last (xs.take W)) (ih _ _ _)) ?_
      rw [List.length_take, List.length_drop, Nat.succ_mul]
      omega

end MV.Par
