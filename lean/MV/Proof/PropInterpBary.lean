import MV.Proof.PropInterpField
/-!
Lemmas for property C07 (interpolation half), part 2: what `getBarycentric` returns in the
triangle branch, at a linearly ordered field.
-/
namespace MV.PropInterp
section Field
variable {F : Type} [Field F] [LinearOrder F] [IsStrictOrderedRing F]

/-- edge `i` is snapped: `area2v < d2[i] * tol2` -/
def Snap0 (v t0 t1 t2 : V3 F) (tol : F) : Prop := A0 v t1 t2 < (d2of t0 t1 t2).x * (tol * tol)
def Snap1 (v t0 t1 t2 : V3 F) (tol : F) : Prop := A1 v t0 t2 < (d2of t0 t1 t2).y * (tol * tol)
def Snap2 (v t0 t1 t2 : V3 F) (tol : F) : Prop := A2 v t0 t1 < (d2of t0 t1 t2).z * (tol * tol)
instance (v t0 t1 t2 : V3 F) (tol : F) : Decidable (Snap0 v t0 t1 t2 tol) := by unfold Snap0; infer_instance
instance (v t0 t1 t2 : V3 F) (tol : F) : Decidable (Snap1 v t0 t1 t2 tol) := by unfold Snap1; infer_instance
instance (v t0 t1 t2 : V3 F) (tol : F) : Decidable (Snap2 v t0 t1 t2 tol) := by unfold Snap2; infer_instance

omit [IsStrictOrderedRing F] in
theorem raw_x (v t0 t1 t2 : V3 F) (tol : F) : (rawWeights v t0 t1 t2 tol).x =
    if Snap0 v t0 t1 t2 tol then 0 else U0 v t0 t1 t2 := by
  simp only [rawWeights, edgeWeight, sc_lt, sc_mul, sc_zero, A0, U0, Snap0, decide_eq_true_eq]
  split_ifs with h
  · exact (if_pos h).symm
  · exact (if_neg h).symm
omit [IsStrictOrderedRing F] in
theorem raw_y (v t0 t1 t2 : V3 F) (tol : F) : (rawWeights v t0 t1 t2 tol).y =
    if Snap1 v t0 t1 t2 tol then 0 else U1 v t0 t1 t2 := by
  simp only [rawWeights, edgeWeight, sc_lt, sc_mul, sc_zero, A1, U1, Snap1, decide_eq_true_eq]
  split_ifs with h
  · exact (if_pos h).symm
  · exact (if_neg h).symm
omit [IsStrictOrderedRing F] in
theorem raw_z (v t0 t1 t2 : V3 F) (tol : F) : (rawWeights v t0 t1 t2 tol).z =
    if Snap2 v t0 t1 t2 tol then 0 else U2 v t0 t1 t2 := by
  simp only [rawWeights, edgeWeight, sc_lt, sc_mul, sc_zero, A2, U2, Snap2, decide_eq_true_eq]
  split_ifs with h
  · exact (if_pos h).symm
  · exact (if_neg h).symm

theorem d2_nonneg (t0 t1 t2 : V3 F) :
    0 ≤ (d2of t0 t1 t2).x ∧ 0 ≤ (d2of t0 t1 t2).y ∧ 0 ≤ (d2of t0 t1 t2).z := by
  simp only [d2of, dot_eq]
  refine ⟨?_, ?_, ?_⟩ <;>
    exact add_nonneg (add_nonneg (mul_self_nonneg _) (mul_self_nonneg _)) (mul_self_nonneg _)

omit [IsStrictOrderedRing F] in
theorem dLong_ge (t0 t1 t2 : V3 F) :
    (d2of t0 t1 t2).x ≤ dLong t0 t1 t2 ∧ (d2of t0 t1 t2).y ≤ dLong t0 t1 t2 ∧
    (d2of t0 t1 t2).z ≤ dLong t0 t1 t2 := by
  unfold dLong longSide
  generalize d2of t0 t1 t2 = d
  obtain ⟨a, b, c⟩ := d
  simp only [sc_lt, Bool.and_eq_true, decide_eq_true_eq]
  split_ifs with h1 h2
  · simp only [V3.get]; exact ⟨le_refl _, le_of_lt h1.1, le_of_lt h1.2⟩
  · simp only [V3.get]
    have h1' : ¬ (b < a ∧ c < a) := h1
    refine ⟨?_, le_refl _, le_of_lt h2⟩
    by_contra hc
    exact h1' ⟨not_le.1 hc, lt_trans h2 (not_le.1 hc)⟩
  · simp only [V3.get]
    have h1' : ¬ (b < a ∧ c < a) := h1
    have hcb : b ≤ c := not_lt.1 h2
    refine ⟨?_, hcb, le_refl _⟩
    by_contra hc
    exact h1' ⟨lt_of_le_of_lt hcb (not_le.1 hc), not_le.1 hc⟩

/-- the facts the triangle branch gives at the exact instance -/
structure TriFacts (t0 t1 t2 : V3 F) (tol : F) : Prop where
  tol2 : 0 ≤ tol * tol
  a_pos : 0 < area2of t0 t1 t2
  b0 : (d2of t0 t1 t2).x * (tol * tol) < area2of t0 t1 t2
  b1 : (d2of t0 t1 t2).y * (tol * tol) < area2of t0 t1 t2
  b2 : (d2of t0 t1 t2).z * (tol * tol) < area2of t0 t1 t2
  d0 : 0 < (d2of t0 t1 t2).x
  d1 : 0 < (d2of t0 t1 t2).y
  d2 : 0 < (d2of t0 t1 t2).z

theorem triFacts (v t0 t1 t2 : V3 F) (tol : F) (h : TriBranch v t0 t1 t2 tol) :
    TriFacts t0 t1 t2 tol := by
  obtain ⟨_, _, ht⟩ := h
  simp only [sc_lt, sc_mul, decide_eq_true_eq] at ht
  have htol : 0 ≤ tol * tol := mul_self_nonneg tol
  obtain ⟨n0, n1, n2⟩ := d2_nonneg t0 t1 t2
  obtain ⟨g0, g1, g2⟩ := dLong_ge t0 t1 t2
  have hL : 0 ≤ dLong t0 t1 t2 := le_trans n0 g0
  have ha : 0 < area2of t0 t1 t2 := lt_of_le_of_lt (mul_nonneg hL htol) ht
  have e01 := area2_le_d01 t0 t1 t2
  have e12 := area2_le_d12 t0 t1 t2
  have p01 : 0 < (d2of t0 t1 t2).x * (d2of t0 t1 t2).y := by
    have := sq_nonneg (dot (vsub t2 t1) (vsub t0 t2)); linarith
  have p12 : 0 < (d2of t0 t1 t2).y * (d2of t0 t1 t2).z := by
    have := sq_nonneg (dot (vsub t0 t2) (vsub t1 t0)); linarith
  have hd1 : 0 < (d2of t0 t1 t2).y := by
    rcases n1.lt_or_eq with h | h
    · exact h
    · rw [← h] at p01; simp at p01
  refine ⟨htol, ha, ?_, ?_, ?_, ?_, hd1, ?_⟩
  · exact lt_of_le_of_lt (mul_le_mul_of_nonneg_right g0 htol) ht
  · exact lt_of_le_of_lt (mul_le_mul_of_nonneg_right g1 htol) ht
  · exact lt_of_le_of_lt (mul_le_mul_of_nonneg_right g2 htol) ht
  · exact pos_of_mul_pos_left p01 (le_of_lt hd1)
  · exact pos_of_mul_pos_right p12 (le_of_lt hd1)

/-- generic step: a snapped edge's un-snapped weight is smaller than `area2` in absolute value -/
theorem snap_small {A U d a z tol2 : F} (hlag : A * a = U ^ 2 + d * z ^ 2) (hs : A < d * tol2)
    (hb : d * tol2 < a) (ha : 0 < a) (hd : 0 < d) : U < a := by
  by_contra hc
  have hUa : a ≤ U := not_lt.1 hc
  have h1 : a * a ≤ U ^ 2 := by nlinarith
  have h2 : A * a < a * a := by
    have : A < a := lt_trans hs hb
    exact mul_lt_mul_of_pos_right this ha
  have h3 : 0 ≤ d * z ^ 2 := mul_nonneg (le_of_lt hd) (sq_nonneg z)
  linarith

/-- generic step: if edge `i` is snapped and the un-snapped weight of `k` vanishes, `k` is snapped too -/
theorem snap_transfer {Ai Ui di Ak dk a z tol2 : F} (hi : Ai * a = Ui ^ 2 + di * z ^ 2)
    (hk : Ak * a = dk * z ^ 2) (hs : Ai < di * tol2) (ha : 0 < a) (hdi : 0 < di) (hdk : 0 < dk) :
    Ak < dk * tol2 := by
  have h1 : di * z ^ 2 < di * (tol2 * a) := by
    have : Ai * a < di * tol2 * a := mul_lt_mul_of_pos_right hs ha
    have hU := sq_nonneg Ui
    nlinarith
  have h2 : z ^ 2 < tol2 * a := lt_of_mul_lt_mul_left h1 (le_of_lt hdi)
  have h3 : Ak * a < dk * tol2 * a := by
    rw [hk]
    have := mul_lt_mul_of_pos_left h2 hdk
    linarith
  exact lt_of_mul_lt_mul_right h3 (le_of_lt ha)

/-- all three edge tests fire -/
def AllSnapped (v t0 t1 t2 : V3 F) (tol : F) : Prop :=
  Snap0 v t0 t1 t2 tol ∧ Snap1 v t0 t1 t2 tol ∧ Snap2 v t0 t1 t2 tol

/-- the normalising sum `uvw[0] + uvw[1] + uvw[2]` of the triangle branch -/
def rawSum (v t0 t1 t2 : V3 F) (tol : F) : F :=
  (rawWeights v t0 t1 t2 tol).x + (rawWeights v t0 t1 t2 tol).y + (rawWeights v t0 t1 t2 tol).z

/-- THE NORMALISING SUM VANISHES ONLY WHEN ALL THREE EDGE TESTS FIRE -/
theorem rawSum_ne_zero (v t0 t1 t2 : V3 F) (tol : F) (h : TriBranch v t0 t1 t2 tol)
    (hn : ¬ AllSnapped v t0 t1 t2 tol) : rawSum v t0 t1 t2 tol ≠ 0 := by
  have f := triFacts v t0 t1 t2 tol h
  have hsum := U_sum v t0 t1 t2
  have l0 := lag0 v t0 t1 t2
  have l1 := lag1 v t0 t1 t2
  have l2 := lag2 v t0 t1 t2
  unfold rawSum
  rw [raw_x, raw_y, raw_z]
  by_cases s0 : Snap0 v t0 t1 t2 tol <;> by_cases s1 : Snap1 v t0 t1 t2 tol <;>
    by_cases s2 : Snap2 v t0 t1 t2 tol <;> simp only [s0, s1, s2, if_true, if_false]
  · exact absurd ⟨s0, s1, s2⟩ hn
  · -- 0, 1 snapped: the sum is U2
    intro hz
    simp only [zero_add] at hz
    rw [hz] at l2
    exact s2 (snap_transfer l0 (by simpa using l2) s0 f.a_pos f.d0 f.d2)
  · intro hz
    simp only [zero_add, add_zero] at hz
    rw [hz] at l1
    exact s1 (snap_transfer l0 (by simpa using l1) s0 f.a_pos f.d0 f.d1)
  · have := snap_small l0 s0 f.b0 f.a_pos f.d0
    intro hz; linarith
  · intro hz
    simp only [add_zero] at hz
    rw [hz] at l0
    exact s0 (snap_transfer l1 (by simpa using l0) s1 f.a_pos f.d1 f.d0)
  · have := snap_small l1 s1 f.b1 f.a_pos f.d1
    intro hz; linarith
  · have := snap_small l2 s2 f.b2 f.a_pos f.d2
    intro hz; linarith
  · have := f.a_pos
    intro hz; linarith

omit [IsStrictOrderedRing F] in
theorem gb_tri_field (v t0 t1 t2 : V3 F) (tol : F) (h : TriBranch v t0 t1 t2 tol) :
    getBarycentric v t0 t1 t2 tol =
      ⟨(rawWeights v t0 t1 t2 tol).x / rawSum v t0 t1 t2 tol,
       (rawWeights v t0 t1 t2 tol).y / rawSum v t0 t1 t2 tol,
       (rawWeights v t0 t1 t2 tol).z / rawSum v t0 t1 t2 tol⟩ := by
  rw [gb_tri v t0 t1 t2 tol h]
  simp only [sc_add, sc_div, rawSum]

/-- triangle branch, not all three edge tests firing: the weights sum to 1 -/
theorem tri_sum_one (v t0 t1 t2 : V3 F) (tol : F) (h : TriBranch v t0 t1 t2 tol)
    (hn : ¬ AllSnapped v t0 t1 t2 tol) :
    (getBarycentric v t0 t1 t2 tol).x + (getBarycentric v t0 t1 t2 tol).y +
      (getBarycentric v t0 t1 t2 tol).z = 1 := by
  have hs := rawSum_ne_zero v t0 t1 t2 tol h hn
  rw [gb_tri_field v t0 t1 t2 tol h]
  simp only
  rw [← add_div, ← add_div]
  exact div_self hs

omit [IsStrictOrderedRing F] in
/-- triangle branch, all three edge tests firing: `0/0` in every component (`x / 0 = 0` in a
field; `NaN` at `Float`) -/
theorem tri_all_snapped (v t0 t1 t2 : V3 F) (tol : F) (h : TriBranch v t0 t1 t2 tol)
    (ha : AllSnapped v t0 t1 t2 tol) :
    getBarycentric v t0 t1 t2 tol = ⟨0, 0, 0⟩ ∧ rawSum v t0 t1 t2 tol = 0 ∧
      rawWeights v t0 t1 t2 tol = ⟨0, 0, 0⟩ := by
  have hx : (rawWeights v t0 t1 t2 tol).x = 0 := by rw [raw_x, if_pos ha.1]
  have hy : (rawWeights v t0 t1 t2 tol).y = 0 := by rw [raw_y, if_pos ha.2.1]
  have hz : (rawWeights v t0 t1 t2 tol).z = 0 := by rw [raw_z, if_pos ha.2.2]
  have hs : rawSum v t0 t1 t2 tol = 0 := by simp [rawSum, hx, hy, hz]
  refine ⟨?_, hs, V3.ext' hx hy hz⟩
  rw [gb_tri_field v t0 t1 t2 tol h, hx, hy, hz, hs]
  simp

end Field
end MV.PropInterp
