/-
Lemmas for the assembly model, part 2: `PairUp` (for every conforming `std::partition`), the
libstdc++ partition meets the contract, and the cursor fetches.
-/
import MV.Model.BoolAssembly

namespace MV.BoolAsm

/-! ## the comparator -/

theorem EdgePos.le_trans (a b c : EdgePos) : EdgePos.le a b = true → EdgePos.le b c = true → EdgePos.le a c = true := by
  simp only [EdgePos.le, EdgePos.lt, Bool.not_eq_true', Bool.or_eq_false_iff, Bool.and_eq_false_iff,
    decide_eq_false_iff_not]
  omega

theorem EdgePos.le_total (a b : EdgePos) : (EdgePos.le a b || EdgePos.le b a) = true := by
  simp only [EdgePos.le, EdgePos.lt, Bool.or_eq_true, Bool.not_eq_true', Bool.or_eq_false_iff,
    Bool.and_eq_false_iff, decide_eq_false_iff_not]
  omega

theorem stableSort_perm (l : List EdgePos) : (stableSort l).Perm l := List.mergeSort_perm _ _

theorem stableSort_sorted (l : List EdgePos) :
    (stableSort l).Pairwise (fun a b => EdgePos.le a b = true) :=
  List.pairwise_mergeSort EdgePos.le_trans EdgePos.le_total l

theorem stableSort_length (l : List EdgePos) : (stableSort l).length = l.length :=
  (stableSort_perm l).length_eq

/-! ## PairUp -/

/-- what `PairUp` computes under its precondition, for every conforming partition -/
theorem pairUpWith_eq (part : List EdgePos → List EdgePos) (hc : PartitionContract part)
    (es : List EdgePos) (hpre : pairUpPre es = true) :
    ∃ S E : List EdgePos,
      part es = S ++ E ∧ S.Perm (es.filter (·.isStart)) ∧ E.Perm (es.filter fun e => !e.isStart) ∧
      S.length = es.length / 2 ∧ E.length = es.length / 2 ∧
      pairUpWith part es = List.zip ((stableSort S).map (·.vert)) ((stableSort E).map (·.vert)) := by
  obtain ⟨hp, heq⟩ := hc es
  unfold pairUpPre at hpre
  simp only [Bool.and_eq_true, beq_iff_eq] at hpre
  obtain ⟨heven, hcnt⟩ := hpre
  have hS0 : ((part es).filter (·.isStart)).Perm (es.filter (·.isStart)) := hp.filter _
  have hE0 : ((part es).filter fun e => !e.isStart).Perm (es.filter fun e => !e.isStart) := hp.filter _
  have hmid : (part es).countP (·.isStart) = es.length / 2 := by rw [hp.countP_eq, hcnt]
  have hlen : (part es).length = es.length := hp.length_eq
  generalize hS : (part es).filter (·.isStart) = S at heq hS0
  generalize hE : (part es).filter (fun e => !e.isStart) = E at heq hE0
  have hSl : S.length = es.length / 2 := by rw [← hS, ← List.countP_eq_length_filter, hmid]
  have hEl : E.length = es.length / 2 := by
    have : (S ++ E).length = es.length := by rw [← heq, hlen]
    simp only [List.length_append] at this; omega
  refine ⟨S, E, heq, hS0, hE0, hSl, hEl, ?_⟩
  simp only [pairUpWith, hmid]
  rw [heq, List.take_left' hSl, List.drop_left' hSl]
  have h1 : (stableSort S).length = es.length / 2 := by rw [stableSort_length, hSl]
  have h2 : (stableSort E).length = es.length / 2 := by rw [stableSort_length, hEl]
  rw [List.take_left' h1, List.drop_left' h1, List.take_of_length_le (by omega)]

/-! ## libstdc++'s partition meets the contract -/

theorem mem_takeWhile_imp' {α : Type} (p : α → Bool) : ∀ (l : List α) (x : α), x ∈ l.takeWhile p → p x = true := by
  intro l
  induction l with
  | nil => intro x hx; simp at hx
  | cons a l ih =>
    intro x hx
    by_cases ha : p a = true
    · rw [List.takeWhile_cons_of_pos ha] at hx
      rcases List.mem_cons.1 hx with rfl | h
      · exact ha
      · exact ih x h
    · rw [List.takeWhile_cons_of_neg ha] at hx; simp at hx

theorem splitSuffix_spec {α : Type} (q : α → Bool) (l : List α) :
    l = (splitSuffix q l).1 ++ (splitSuffix q l).2 ∧ (∀ x ∈ (splitSuffix q l).2, q x = true) ∧
    (∀ m x, (splitSuffix q l).1 = m ++ [x] → q x = false) := by
  unfold splitSuffix
  refine ⟨?_, ?_, ?_⟩
  · have := List.takeWhile_append_dropWhile (p := q) (l := l.reverse)
    have h2 := congrArg List.reverse this
    simp only [List.reverse_append, List.reverse_reverse] at h2
    exact h2.symm
  · intro x hx
    simp only [List.mem_reverse] at hx
    exact mem_takeWhile_imp' _ _ _ hx
  · intro m x h
    simp only at h
    have h2 := congrArg List.reverse h
    simp only [List.reverse_reverse, List.reverse_append, List.reverse_cons, List.reverse_nil,
      List.nil_append, List.singleton_append] at h2
    have hne : List.dropWhile q l.reverse ≠ [] := by rw [h2]; simp
    have := List.head_dropWhile_not q hne
    simpa [h2] using this

theorem go_perm {α : Type} [DecidableEq α] (p : α → Bool) :
    ∀ (fuel : Nat) (l : List α), (stdPartitionGo p fuel l).Perm l := by
  intro fuel
  induction fuel with
  | zero => intro l; exact List.Perm.refl _
  | succ fuel ih =>
    intro l
    have hl : l = l.takeWhile p ++ l.dropWhile p := List.takeWhile_append_dropWhile.symm
    obtain ⟨hrest, -, -⟩ := splitSuffix_spec (fun x => !p x) (l.dropWhile p)
    simp only [stdPartitionGo]
    generalize (splitSuffix (fun x => !p x) (l.dropWhile p)).1 = mid at hrest
    generalize (splitSuffix (fun x => !p x) (l.dropWhile p)).2 = E at hrest
    cases mid with
    | nil =>
      simp only [List.nil_append] at hrest
      simp only []
      rw [← hrest]; exact List.Perm.of_eq hl.symm
    | cons ns tl =>
      simp only []
      cases hgl : tl.getLast? with
      | none =>
        simp only []
        rw [List.append_assoc, ← hrest]; exact List.Perm.of_eq hl.symm
      | some st =>
        simp only []
        obtain ⟨D, hD⟩ := List.getLast?_eq_some_iff.1 hgl
        have hdl : tl.dropLast = D := by rw [hD]; simp
        rw [hdl]
        have ihD := ih D
        have : l = l.takeWhile p ++ (ns :: (D ++ [st]) ++ E) := by rw [← hD, ← hrest]; exact hl
        conv => rhs; rw [this]
        refine List.Perm.append_left _ ?_
        rw [List.perm_iff_count]
        intro a
        have hc := (List.perm_iff_count.1 ihD) a
        simp only [List.count_cons, List.count_append, List.count_nil, hc, List.cons_append]
        omega

/-- `l = A ++ B` with `p` on all of `A` and on none of `B` -/
def Split {α : Type} (p : α → Bool) (l : List α) : Prop :=
  ∃ A B, l = A ++ B ∧ (∀ x ∈ A, p x = true) ∧ (∀ x ∈ B, p x = false)

theorem go_split {α : Type} (p : α → Bool) :
    ∀ (fuel : Nat) (l : List α), l.length ≤ fuel → Split p (stdPartitionGo p fuel l) := by
  intro fuel
  induction fuel with
  | zero =>
    intro l hl
    have : l = [] := List.length_eq_zero_iff.1 (by omega)
    subst this
    exact ⟨[], [], rfl, by simp, by simp⟩
  | succ fuel ih =>
    intro l hlen
    have hl : l = l.takeWhile p ++ l.dropWhile p := List.takeWhile_append_dropWhile.symm
    have hS : ∀ x ∈ l.takeWhile p, p x = true := fun x hx => mem_takeWhile_imp' _ _ _ hx
    obtain ⟨hrest, hE, hlast⟩ := splitSuffix_spec (fun x => !p x) (l.dropWhile p)
    simp only [stdPartitionGo]
    generalize (splitSuffix (fun x => !p x) (l.dropWhile p)).1 = mid at hrest hlast
    generalize (splitSuffix (fun x => !p x) (l.dropWhile p)).2 = E at hrest hE
    have hE' : ∀ x ∈ E, p x = false := fun x hx => by simpa using hE x hx
    cases mid with
    | nil =>
      simp only []
      exact ⟨_, _, rfl, hS, hE'⟩
    | cons ns tl =>
      simp only []
      have hns : p ns = false := by
        have hne : l.dropWhile p ≠ [] := by rw [hrest]; simp
        have := List.head_dropWhile_not p hne
        simpa [hrest] using this
      cases hgl : tl.getLast? with
      | none =>
        exfalso
        have : tl = [] := List.getLast?_eq_none_iff.1 hgl
        subst this
        have := hlast [] ns rfl
        simp [hns] at this
      | some st =>
        simp only []
        obtain ⟨D, hD⟩ := List.getLast?_eq_some_iff.1 hgl
        have hdl : tl.dropLast = D := by rw [hD]; simp
        rw [hdl]
        have hst : p st = true := by
          have := hlast (ns :: D) st (by rw [hD]; rfl)
          simpa using this
        have hDlen : D.length ≤ fuel := by
          have h1 : l.length = (l.takeWhile p).length + (l.dropWhile p).length := by
            have := congrArg List.length hl
            rwa [List.length_append] at this
          rw [hrest, hD] at h1
          simp only [List.length_append, List.length_cons, List.length_nil] at h1
          omega
        obtain ⟨A, B, hAB, hA, hB⟩ := ih D hDlen
        refine ⟨l.takeWhile p ++ st :: A, B ++ ns :: E, ?_, ?_, ?_⟩
        · rw [hAB]; simp
        · intro x hx
          rcases List.mem_append.1 hx with h | h
          · exact hS x h
          · rcases List.mem_cons.1 h with rfl | h
            · exact hst
            · exact hA x h
        · intro x hx
          rcases List.mem_append.1 hx with h | h
          · exact hB x h
          · rcases List.mem_cons.1 h with rfl | h
            · exact hns
            · exact hE' x h

theorem split_filter {α : Type} (p : α → Bool) (l : List α) (h : Split p l) :
    l = l.filter p ++ l.filter (fun x => !p x) := by
  obtain ⟨A, B, rfl, hA, hB⟩ := h
  have h1 : A.filter p = A := List.filter_eq_self.2 hA
  have h2 : B.filter p = [] := List.filter_eq_nil_iff.2 (fun x hx => by simp [hB x hx])
  have h3 : A.filter (fun x => !p x) = [] := List.filter_eq_nil_iff.2 (fun x hx => by simp [hA x hx])
  have h4 : B.filter (fun x => !p x) = B := List.filter_eq_self.2 (fun x hx => by simp [hB x hx])
  simp only [List.filter_append, h1, h2, h3, h4, List.append_nil, List.nil_append]

/-- **libstdc++'s `std::partition` satisfies the contract `PairUp` is proved against** -/
theorem stdPartition_contract : PartitionContract (stdPartition (·.isStart)) := by
  intro l
  exact ⟨go_perm _ _ _, split_filter _ _ (go_split _ _ _ (Nat.le_refl _))⟩

/-! ## cursor fetches -/

theorem getD_set_nat (l : List Nat) (i j a : Nat) :
    (l.set i a).getD j 0 = if i = j ∧ i < l.length then a else l.getD j 0 := by
  simp only [List.getD_eq_getElem?_getD, List.getElem?_set]
  by_cases h : i = j
  · subst h
    by_cases h2 : i < l.length
    · simp [h2]
    · simp [h2]
  · simp [h]

/-- the exact slot of every fetch: the cursor's initial value plus the number of EARLIER fetches
on the same face; the final cursors; nothing else depends on the order -/
theorem fetch_spec : ∀ (fs : List Nat) (ptr : List Nat), (∀ f ∈ fs, f < ptr.length) →
    (fetch ptr fs).1.length = ptr.length ∧
    (∀ f, (fetch ptr fs).1.getD f 0 = ptr.getD f 0 + fs.count f) ∧
    (fetch ptr fs).2.length = fs.length ∧
    (∀ k, k < fs.length →
      (fetch ptr fs).2.getD k 0 = ptr.getD (fs.getD k 0) 0 + (fs.take k).count (fs.getD k 0)) := by
  intro fs
  induction fs with
  | nil => intro ptr _; simp [fetch]
  | cons f fs ih =>
    intro ptr hlt
    have hf : f < ptr.length := hlt f (List.mem_cons_self ..)
    have ih' := ih (ptr.set f (ptr.getD f 0 + 1)) (fun g hg => by
      rw [List.length_set]; exact hlt g (List.mem_cons_of_mem _ hg))
    obtain ⟨a, b, c, d⟩ := ih'
    simp only [fetch]
    refine ⟨by rw [a, List.length_set], fun g => ?_, by rw [List.length_cons, List.length_cons, c], fun k hk => ?_⟩
    · rw [b g, getD_set_nat, List.count_cons]
      by_cases hg : f = g
      · subst hg
        rw [if_pos ⟨rfl, hf⟩]; simp only [beq_self_eq_true, if_true]; omega
      · have h2 : (f == g) = false := by simpa using hg
        rw [if_neg (fun h => hg h.1), h2]; simp
    · cases k with
      | zero => simp
      | succ k =>
        have hk' : k < fs.length := by simpa using hk
        have := d k hk'
        rw [List.getD_cons_succ, List.getD_cons_succ, List.take_succ_cons, List.count_cons, this,
          getD_set_nat]
        by_cases hg : f = fs.getD k 0
        · rw [if_pos ⟨hg, hf⟩, ← hg]; simp only [beq_self_eq_true, if_true]; omega
        · have h2 : (f == fs.getD k 0) = false := by simpa using hg
          rw [if_neg (fun h => hg h.1), h2]; simp

/-- prefix sums -/
theorem exSum_getD (xs : List Nat) : ∀ (init k : Nat), k ≤ xs.length →
    (exSum init xs).getD k 0 = init + (xs.take k).sum := by
  induction xs with
  | nil => intro init k hk; have : k = 0 := by simpa using hk
           subst this; simp [exSum]
  | cons x xs ih =>
    intro init k hk
    cases k with
    | zero => simp [exSum]
    | succ k =>
      simp only [exSum, List.getD_cons_succ, List.take_succ_cons, List.sum_cons]
      rw [ih (init + x) k (by simpa using hk)]; omega

theorem exSum_length (xs : List Nat) (init : Nat) : (exSum init xs).length = xs.length + 1 := by
  induction xs generalizing init with
  | nil => rfl
  | cons x xs ih => simp [exSum, ih]

theorem sum_take_le (xs : List Nat) (j k : Nat) (h : j ≤ k) : (xs.take j).sum ≤ (xs.take k).sum := by
  induction xs generalizing j k with
  | nil => simp
  | cons x xs ih =>
    cases j with
    | zero => simp
    | succ j =>
      cases k with
      | zero => omega
      | succ k =>
        simp only [List.take_succ_cons, List.sum_cons]
        have := ih j k (by omega); omega

theorem sum_take_succ (xs : List Nat) (k : Nat) (hk : k < xs.length) :
    (xs.take (k + 1)).sum = (xs.take k).sum + xs.getD k 0 := by
  induction xs generalizing k with
  | nil => simp at hk
  | cons x xs ih =>
    cases k with
    | zero => simp
    | succ k =>
      simp only [List.take_succ_cons, List.sum_cons, List.getD_cons_succ]
      rw [ih k (by simpa using hk)]; omega

end MV.BoolAsm
