import MV.Proof.CsgAlg
/-
`batch_eq_fold`: whatever partition into groups, bracketing and order `BatchUnion` /
`BatchBoolean` use (bounding-box partition, `Compose`, the size-ordered heap, 4-way task
groups), a commutative associative operation gives the fold of the operands.
-/
set_option autoImplicit false
namespace MV.Csg

/-- an arbitrary bracketing of operands -/
inductive Bracket (α : Type) where
  | one (a : α)
  | op (l r : Bracket α)

variable {α : Type}

def Bracket.eval (f : α → α → α) : Bracket α → α
  | .one a => a
  | .op l r => f (l.eval f) (r.eval f)

def Bracket.leaves : Bracket α → List α
  | .one a => [a]
  | .op l r => l.leaves ++ r.leaves

section
variable (f : α → α → α) [ha : Std.Associative f] [hc : Std.Commutative f]

omit hc in
theorem Bracket.eval_eq_foldl (t : Bracket α) :
    ∃ y ys, t.leaves = y :: ys ∧ t.eval f = ys.foldl f y := by
  induction t with
  | one a => exact ⟨a, [], rfl, rfl⟩
  | op l r ihl ihr =>
    obtain ⟨y, ys, h1, h2⟩ := ihl
    obtain ⟨z, zs, h3, h4⟩ := ihr
    refine ⟨y, ys ++ z :: zs, by simp [Bracket.leaves, h1, h3], ?_⟩
    simp only [Bracket.eval, h2, h4, List.foldl_append, List.foldl_cons]
    rw [List.foldl_assoc]

include ha hc in
theorem foldl_perm_head {x y : α} {l l' : List α} (h : (x :: l).Perm (y :: l')) :
    l.foldl f x = l'.foldl f y := by
  -- fold both from an adjoined unit
  let g : Option α → α → Option α := fun acc a => some (match acc with | none => a | some b => f b a)
  have hg : ∀ (l : List α) (b : α), l.foldl g (some b) = some (l.foldl f b) := by
    intro l
    induction l with
    | nil => intro b; rfl
    | cons a as ih => intro b; simp only [List.foldl_cons]; exact ih (f b a)
  have h1 : (x :: l).foldl g none = some (l.foldl f x) := by
    simp only [List.foldl_cons]; exact hg l x
  have h2 : (y :: l').foldl g none = some (l'.foldl f y) := by
    simp only [List.foldl_cons]; exact hg l' y
  have := h.foldl_eq' (f := g) (fun a _ b _ z => by
    cases z with
    | none => simp only [g]; rw [hc.comm]
    | some c => simp only [g]; rw [ha.assoc, hc.comm a b, ← ha.assoc]) none
  rw [h1, h2] at this
  exact Option.some.inj this

include ha hc in
/-- any bracketing and order of the operands `x :: l` evaluates to their left fold -/
theorem batch_eq_fold (t : Bracket α) (x : α) (l : List α) (h : t.leaves.Perm (x :: l)) :
    t.eval f = l.foldl f x := by
  obtain ⟨y, ys, h1, h2⟩ := t.eval_eq_foldl f
  rw [h2]
  rw [h1] at h
  exact foldl_perm_head f h

end
end MV.Csg

namespace MV.Csg
open SolidAlg

variable {S : Type} [SolidAlg S]

theorem foldl_union_eq (x : S) (l : List S) : l.foldl union x = bigU (x :: l) := by
  induction l generalizing x with
  | nil => simp [union_empty]
  | cons y ys ih => simp only [List.foldl_cons, ih, bigU_cons, union_assoc]

theorem foldl_inter_eq (x : S) (l : List S) : l.foldl inter x = bigI (x :: l) := by
  induction l generalizing x with
  | nil => rfl
  | cons y ys ih =>
    simp only [List.foldl_cons, ih, bigI, bigIo_cons, ← oInter_assoc]
    rfl

/-- `BatchUnion`: any bracketing/partition/order of the operands is `⋃` of the operands -/
theorem batchUnion_eq_bigU (t : Bracket S) (x : S) (l : List S) (h : t.leaves.Perm (x :: l)) :
    t.eval union = bigU (x :: l) := by
  rw [batch_eq_fold union t x l h, foldl_union_eq]

/-- `BatchBoolean(Intersect)`: any heap order is `⋂` of the operands -/
theorem batchInter_eq_bigI (t : Bracket S) (x : S) (l : List S) (h : t.leaves.Perm (x :: l)) :
    t.eval inter = bigI (x :: l) := by
  rw [batch_eq_fold inter t x l h, foldl_inter_eq]

end MV.Csg
