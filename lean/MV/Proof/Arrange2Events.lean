import MV.Proof.Arrange2Test
import MV.Proof.Sweep2PolySet
/-!
C11b: the event queue.  Invariant of `Run()`: `events_` is strictly ascending, every live edge's pending end and
every pending edge's far end is a queued event, all queued events lie after the event just processed.  As long as
every constructed crossing lies after the event at which it is found (`ahead`), events are processed in strictly
increasing lexicographic order.
-/
namespace MV.Arr2
open MV.Sweep2

/-! ### `events_` -/

theorem mem_insertEv (l : List Pt) (q x : Pt) : x ∈ insertEv l q ↔ x = q ∨ x ∈ l := by
  induction l with
  | nil => simp [insertEv]
  | cons y rest ih =>
    unfold insertEv
    split
    · simp
    · split
      · simp only [List.mem_cons, ih]
        constructor
        · rintro (h | h | h)
          · exact Or.inr (Or.inl h)
          · exact Or.inl h
          · exact Or.inr (Or.inr h)
        · rintro (h | h | h)
          · exact Or.inr (Or.inl h)
          · exact Or.inl h
          · exact Or.inr (Or.inr h)
      · next h1 h2 =>
        have : q = y := lexLess_tri (by simpa using h1) (by simpa using h2)
        subst this
        simp only [List.mem_cons]
        constructor
        · intro h; exact Or.inr h
        · rintro (h | h)
          · exact Or.inl h
          · exact h

def EvSorted (l : List Pt) : Prop := l.Pairwise (fun a b => lexLess a b = true)

theorem sorted_insertEv (l : List Pt) (q : Pt) (h : EvSorted l) : EvSorted (insertEv l q) := by
  induction l with
  | nil => simp [insertEv, EvSorted]
  | cons y rest ih =>
    unfold insertEv
    have hy := List.pairwise_cons.mp h
    split
    · next h1 =>
      apply List.pairwise_cons.mpr
      refine ⟨?_, h⟩
      intro z hz
      rcases List.mem_cons.mp hz with hz | hz
      · rw [hz]; exact h1
      · exact lexLess_trans h1 (hy.1 z hz)
    · split
      · next h1 h2 =>
        apply List.pairwise_cons.mpr
        refine ⟨?_, ih hy.2⟩
        intro z hz
        rcases (mem_insertEv rest q z).mp hz with hz | hz
        · rw [hz]; exact h2
        · exact hy.1 z hz
      · exact h

/-! ### `pending_` -/

theorem mem_innerBump (inner : List (Pt × Int)) (b : Pt) (m : Int) (x : Pt × Int)
    (h : x ∈ innerBump inner b m) : x.1 = b ∨ ∃ y ∈ inner, y.1 = x.1 := by
  induction inner with
  | nil => simp [innerBump] at h; left; rw [h]
  | cons y rest ih =>
    obtain ⟨b', v⟩ := y
    unfold innerBump at h
    split at h
    · simp only [List.mem_cons] at h
      rcases h with h | h | h
      · left; rw [h]
      · right; exact ⟨(b', v), List.mem_cons_self, by rw [h]⟩
      · right; exact ⟨x, List.mem_cons_of_mem _ h, rfl⟩
    · split at h
      · simp only [List.mem_cons] at h
        rcases h with h | h
        · right; exact ⟨(b', v), List.mem_cons_self, by rw [h]⟩
        · rcases ih h with h' | ⟨y, hy, hy'⟩
          · left; exact h'
          · right; exact ⟨y, List.mem_cons_of_mem _ hy, hy'⟩
      · split at h
        · right; exact ⟨x, List.mem_cons_of_mem _ h, rfl⟩
        · simp only [List.mem_cons] at h
          rcases h with h | h
          · right; exact ⟨(b', v), List.mem_cons_self, by rw [h]⟩
          · right; exact ⟨x, List.mem_cons_of_mem _ h, rfl⟩

/-- an entry of `pending_` after `PendingAdd` put `(a, b)`: an old entry, or an entry for `a` whose far ends are
    `b` or far ends of an old entry for `a` -/
theorem mem_pendBump (pd : Pending) (a b : Pt) (m : Int) (e : Pt × List (Pt × Int))
    (h : e ∈ pendBump pd a b m) :
    e ∈ pd ∨ (e.1 = a ∧ ∀ x ∈ e.2, x.1 = b ∨ ∃ e0 ∈ pd, e0.1 = a ∧ ∃ y ∈ e0.2, y.1 = x.1) := by
  induction pd with
  | nil =>
    simp only [pendBump, List.mem_singleton] at h
    right; rw [h]; refine ⟨rfl, ?_⟩
    intro x hx; simp at hx; left; rw [hx]
  | cons e1 rest ih =>
    obtain ⟨k, inner⟩ := e1
    unfold pendBump at h
    split at h
    · simp only [List.mem_cons] at h
      rcases h with h | h | h
      · right; rw [h]; refine ⟨rfl, ?_⟩
        intro x hx; simp at hx; left; rw [hx]
      · left; rw [h]; exact List.mem_cons_self
      · left; exact List.mem_cons_of_mem _ h
    · split at h
      · simp only [List.mem_cons] at h
        rcases h with h | h
        · left; rw [h]; exact List.mem_cons_self
        · rcases ih h with h' | ⟨h4, h5⟩
          · left; exact List.mem_cons_of_mem _ h'
          · right; refine ⟨h4, ?_⟩
            intro x hx
            rcases h5 x hx with h6 | ⟨e0, h6, h7⟩
            · left; exact h6
            · right; exact ⟨e0, List.mem_cons_of_mem _ h6, h7⟩
      · next h1 h2 =>
        have hka : a = k := lexLess_tri (by simpa using h1) (by simpa using h2)
        subst hka
        simp only at h
        split at h
        · left; exact List.mem_cons_of_mem _ h
        · simp only [List.mem_cons] at h
          rcases h with h | h
          · right; rw [h]; refine ⟨rfl, ?_⟩
            intro x hx
            rcases mem_innerBump inner b m x hx with h5 | h5
            · left; exact h5
            · right; exact ⟨(a, inner), List.mem_cons_self, rfl, h5⟩
          · left; exact List.mem_cons_of_mem _ h

theorem mem_pendErase (pd : Pending) (p : Pt) (e : Pt × List (Pt × Int)) (h : e ∈ pendErase pd p) : e ∈ pd := by
  induction pd with
  | nil => simp [pendErase] at h
  | cons e1 rest ih =>
    obtain ⟨k, inner⟩ := e1
    unfold pendErase at h
    split at h
    · exact List.mem_cons_of_mem _ h
    · rcases List.mem_cons.mp h with h | h
      · rw [h]; exact List.mem_cons_self
      · exact List.mem_cons_of_mem _ (ih h)

theorem pendFind_mem (pd : Pending) (p : Pt) (inner : List (Pt × Int)) (h : pendFind pd p = some inner) :
    (p, inner) ∈ pd := by
  induction pd with
  | nil => simp [pendFind] at h
  | cons e1 rest ih =>
    obtain ⟨k, inn⟩ := e1
    unfold pendFind at h
    split at h
    · next hk => cases h; rw [hk]; exact List.mem_cons_self
    · exact List.mem_cons_of_mem _ (ih h)

/-! ### the invariant -/

/-- `p` = the event being (or just) processed -/
structure Inv (p : Pt) (st : St) : Prop where
  sorted : EvSorted st.events
  statusR : ∀ e ∈ st.status, e.r ∈ st.events
  pend : ∀ e ∈ st.pending, lexLess p e.1 = true → ∀ x ∈ e.2, lexLess e.1 x.1 = true ∧ x.1 ∈ st.events

def After (p : Pt) (st : St) : Prop := ∀ q ∈ st.events, lexLess p q = true

theorem pendingAdd_events_mono (st : St) (a b : Pt) (m : Int) (x : Pt) (h : x ∈ st.events) :
    x ∈ (pendingAdd st a b m).events := by
  unfold pendingAdd
  split
  · exact h
  · simp only [mem_insertEv]; exact Or.inr (Or.inr h)

theorem pendingAdd_events (st : St) (a b : Pt) (m : Int) (x : Pt) (h : x ∈ (pendingAdd st a b m).events) :
    x = a ∨ x = b ∨ x ∈ st.events := by
  unfold pendingAdd at h
  split at h
  · exact Or.inr (Or.inr h)
  · simp only [mem_insertEv] at h
    by_cases hl : lexLess b a = true
    · simp only [hl, if_true] at h
      rcases h with h | h | h
      · exact Or.inl h
      · exact Or.inr (Or.inl h)
      · exact Or.inr (Or.inr h)
    · simp only [hl] at h
      rcases h with h | h | h
      · exact Or.inr (Or.inl h)
      · exact Or.inl h
      · exact Or.inr (Or.inr h)

theorem pendingAdd_inv (p : Pt) (st : St) (a b : Pt) (m : Int) (h : Inv p st) : Inv p (pendingAdd st a b m) := by
  refine ⟨?_, ?_, ?_⟩
  · unfold pendingAdd
    split
    · exact h.sorted
    · exact sorted_insertEv _ _ (sorted_insertEv _ _ h.sorted)
  · intro e he
    rw [pendingAdd_status] at he
    exact pendingAdd_events_mono st a b m _ (h.statusR e he)
  · intro e he hp x hx
    unfold pendingAdd at he ⊢
    split at he
    · next hc => simp only [hc, if_true]; exact h.pend e he hp x hx
    · next hc =>
      simp only [hc, if_false]
      simp only at he
      have hab : a ≠ b := fun h' => hc (Or.inl h')
      rcases mem_pendBump _ _ _ _ e he with h1 | ⟨h1, h2⟩
      · obtain ⟨h3, h4⟩ := h.pend e h1 hp x hx
        exact ⟨h3, by simp only [mem_insertEv]; exact Or.inr (Or.inr h4)⟩
      · rcases h2 x hx with h3 | ⟨e0, h3, h4, y, h5, h6⟩
        · rw [h1, h3]
          refine ⟨?_, (mem_insertEv _ _ _).mpr (Or.inl rfl)⟩
          by_cases hl : lexLess b a = true
          · simp [hl]
          · have hl' : lexLess b a = false := by simpa using hl
            cases hl2 : lexLess a b with
            | true => simp [hl', hl2]
            | false => exact absurd (lexLess_tri hl2 hl') hab
        · have hp0 : lexLess p e0.1 = true := by rw [h4, ← h1]; exact hp
          obtain ⟨h7, h8⟩ := h.pend e0 h3 hp0 y h5
          rw [h6] at h7 h8
          rw [h1, ← h4]
          exact ⟨h7, by simp only [mem_insertEv]; exact Or.inr (Or.inr h8)⟩

theorem pendingAdd_after (p : Pt) (st : St) (a b : Pt) (m : Int) (h : After p st)
    (ha : lexLess p a = true) (hb : lexLess p b = true) : After p (pendingAdd st a b m) := by
  intro q hq
  rcases pendingAdd_events st a b m q hq with h1 | h1 | h1
  · rw [h1]; exact ha
  · rw [h1]; exact hb
  · exact h q h1

theorem Inv.congr {p : Pt} {st st' : St} (h : Inv p st) (h1 : st'.status = st.status)
    (h2 : st'.events = st.events) (h3 : st'.pending = st.pending) : Inv p st' := by
  refine ⟨?_, ?_, ?_⟩
  · rw [h2]; exact h.sorted
  · rw [h1, h2]; exact h.statusR
  · rw [h2, h3]; exact h.pend

theorem Inv.insert {p : Pt} {st : St} (h : Inv p st) (q : Pt) : Inv p { st with events := insertEv st.events q } := by
  refine ⟨sorted_insertEv _ _ h.sorted, ?_, ?_⟩
  · intro e he; exact (mem_insertEv _ _ _).mpr (Or.inr (h.statusR e he))
  · intro e he hp x hx
    obtain ⟨h1, h2⟩ := h.pend e he hp x hx
    exact ⟨h1, (mem_insertEv _ _ _).mpr (Or.inr h2)⟩

theorem pendingAdd_congr_events (st : St) (S : List SEdge) (a b : Pt) (m : Int) :
    (pendingAdd { st with status := S } a b m).events = (pendingAdd st a b m).events := by
  unfold pendingAdd; split <;> rfl

theorem pendingAdd_congr_pending (st : St) (S : List SEdge) (a b : Pt) (m : Int) :
    (pendingAdd { st with status := S } a b m).pending = (pendingAdd st a b m).pending := by
  unfold pendingAdd; split <;> rfl

theorem pendingAdd_ahead (st : St) (a b : Pt) (m : Int) : (pendingAdd st a b m).ahead = st.ahead := by
  unfold pendingAdd; split <;> rfl

/-! ### SplitAt -/

theorem splitAt_inv (p : Pt) (st : St) (idx : Nat) (q : Pt) (h : Inv p st) : Inv p (splitAt st idx q) := by
  unfold splitAt
  cases he : st.status[idx]? with
  | none => exact h
  | some e =>
    simp only
    split
    · exact h
    · have G := pendingAdd_inv p st q e.r e.m h
      split
      · refine ⟨?_, ?_, ?_⟩
        · rw [pendingAdd_congr_events]; exact G.sorted
        · intro e' he'
          rw [pendingAdd_status] at he'
          rw [pendingAdd_congr_events]
          exact pendingAdd_events_mono st _ _ _ _ (h.statusR e' (List.mem_of_mem_eraseIdx he'))
        · rw [pendingAdd_congr_events, pendingAdd_congr_pending]; exact G.pend
      · refine ⟨?_, ?_, ?_⟩
        · simp only [pendingAdd_congr_events]; exact sorted_insertEv _ _ G.sorted
        · intro e' he'
          simp only [pendingAdd_status] at he'
          simp only [pendingAdd_congr_events]
          apply (mem_insertEv _ _ _).mpr
          rcases List.mem_or_eq_of_mem_set he' with h1 | h1
          · right; exact pendingAdd_events_mono st _ _ _ _ (h.statusR e' h1)
          · left; rw [h1]
        · intro e' he' hp x hx
          simp only [pendingAdd_congr_pending] at he'
          simp only [pendingAdd_congr_events]
          obtain ⟨h1, h2⟩ := G.pend e' he' hp x hx
          exact ⟨h1, (mem_insertEv _ _ _).mpr (Or.inr h2)⟩

theorem splitAt_ahead (st : St) (idx : Nat) (q : Pt) : (splitAt st idx q).ahead = st.ahead := by
  unfold splitAt
  split
  · rfl
  · split
    · rfl
    · split
      · rw [pendingAdd_ahead]
      · simp only [pendingAdd_ahead]

theorem splitAt_after (p : Pt) (st : St) (idx : Nat) (q : Pt) (h : Inv p st) (ha : After p st)
    (hq : lexLess p q = true) : After p (splitAt st idx q) := by
  unfold splitAt
  cases he : st.status[idx]? with
  | none => exact ha
  | some e =>
    simp only
    have her : lexLess p e.r = true := ha _ (h.statusR e (List.mem_of_getElem? he))
    split
    · exact ha
    · split
      · intro x hx
        rw [pendingAdd_congr_events] at hx
        exact pendingAdd_after p st q e.r e.m ha hq her x hx
      · intro x hx
        simp only [pendingAdd_congr_events] at hx
        rcases (mem_insertEv _ _ _).mp hx with h1 | h1
        · rw [h1]; exact hq
        · exact pendingAdd_after p st q e.r e.m ha hq her x h1

/-! ### TestPair -/

theorem testPair_inv (o : Oracle) (p p' : Pt) (st : St) (i j : Nat) (h : Inv p st) : Inv p (testPair o p' st i j) := by
  unfold testPair
  split
  · exact h
  · split
    · next a b ha hb =>
      have h0 : Inv p { st with tested := st.tested ++ [(a.seq, b.seq)] } := h.congr rfl rfl rfl
      simp only
      split
      · exact h0
      · split
        · exact splitAt_inv p _ _ _ h0
        · split
          · exact splitAt_inv p _ _ _ h0
          · split
            · exact h0
            · next q hc =>
              apply splitAt_inv; apply splitAt_inv
              exact (h.insert q).congr rfl rfl rfl
    · exact h

theorem testPair_ahead_mono (o : Oracle) (p : Pt) (st : St) (i j : Nat)
    (h : (testPair o p st i j).ahead = true) : st.ahead = true := by
  unfold testPair at h
  split at h
  · exact h
  · split at h
    · simp only at h
      split at h
      · exact h
      · split at h
        · rw [splitAt_ahead] at h; exact h
        · split at h
          · rw [splitAt_ahead] at h; exact h
          · split at h
            · exact h
            · rw [splitAt_ahead, splitAt_ahead] at h
              simp only [Bool.and_eq_true] at h; exact h.1
    · exact h

theorem testPair_eq (o : Oracle) (p : Pt) (st : St) (i j : Nat) (a b : SEdge)
    (hg : ¬ (j ≥ st.status.length ∨ i ≥ j)) (ha : st.status[i]? = some a) (hb : st.status[j]? = some b) :
    testPair o p st i j =
      if a.l = b.l ∨ a.l = b.r ∨ a.r = b.l ∨ a.r = b.r then { st with tested := st.tested ++ [(a.seq, b.seq)] }
      else if onInterior o b.r a.l a.r then splitAt { st with tested := st.tested ++ [(a.seq, b.seq)] } i b.r
      else if onInterior o a.r b.l b.r then splitAt { st with tested := st.tested ++ [(a.seq, b.seq)] } j a.r
      else match o.crossing a.l a.r b.l b.r with
        | none => { st with tested := st.tested ++ [(a.seq, b.seq)] }
        | some q => splitAt (splitAt { st with tested := st.tested ++ [(a.seq, b.seq)], events := insertEv st.events q,
                                               ahead := st.ahead && lexLess p q } j q) i q := by
  unfold testPair
  rw [if_neg hg]
  simp only [ha, hb]
  rfl

theorem testPair_after (o : Oracle) (p : Pt) (st : St) (i j : Nat) (h : Inv p st) (ha : After p st)
    (hah : (testPair o p st i j).ahead = true) : After p (testPair o p st i j) := by
  by_cases hg : j ≥ st.status.length ∨ i ≥ j
  · unfold testPair; rw [if_pos hg]; exact ha
  · have hi : i < st.status.length := by omega
    have hj : j < st.status.length := by omega
    have hsa : st.status[i]? = some st.status[i] := List.getElem?_eq_getElem hi
    have hsb : st.status[j]? = some st.status[j] := List.getElem?_eq_getElem hj
    generalize st.status[i] = a at hsa
    generalize st.status[j] = b at hsb
    rw [testPair_eq o p st i j a b hg hsa hsb] at hah ⊢
    have h0 : Inv p { st with tested := st.tested ++ [(a.seq, b.seq)] } := h.congr rfl rfl rfl
    have ha0 : After p { st with tested := st.tested ++ [(a.seq, b.seq)] } := ha
    have har : lexLess p a.r = true := ha _ (h.statusR a (List.mem_of_getElem? hsa))
    have hbr : lexLess p b.r = true := ha _ (h.statusR b (List.mem_of_getElem? hsb))
    by_cases hs : a.l = b.l ∨ a.l = b.r ∨ a.r = b.l ∨ a.r = b.r
    · rw [if_pos hs]; exact ha0
    · rw [if_neg hs] at hah ⊢
      by_cases h1 : onInterior o b.r a.l a.r = true
      · rw [if_pos h1]; exact splitAt_after p _ _ _ h0 ha0 hbr
      · rw [if_neg h1] at hah ⊢
        by_cases h2 : onInterior o a.r b.l b.r = true
        · rw [if_pos h2]; exact splitAt_after p _ _ _ h0 ha0 har
        · rw [if_neg h2] at hah ⊢
          cases hc : o.crossing a.l a.r b.l b.r with
          | none => simp only [hc]; exact ha0
          | some q =>
            simp only [hc] at hah ⊢
            rw [splitAt_ahead, splitAt_ahead] at hah
            simp only [Bool.and_eq_true] at hah
            have hq : lexLess p q = true := hah.2
            have h1' : Inv p { st with tested := st.tested ++ [(a.seq, b.seq)], events := insertEv st.events q,
                                       ahead := st.ahead && lexLess p q } := (h.insert q).congr rfl rfl rfl
            have ha1 : After p { st with tested := st.tested ++ [(a.seq, b.seq)], events := insertEv st.events q,
                                         ahead := st.ahead && lexLess p q } := by
              intro x hx
              rcases (mem_insertEv _ _ _).mp hx with h3 | h3
              · rw [h3]; exact hq
              · exact ha x h3
            exact splitAt_after p _ _ _ (splitAt_inv p _ _ _ h1') (splitAt_after p _ _ _ h1' ha1 hq) hq

theorem fold_inv (o : Oracle) (p : Pt) (cs : List (Nat × Nat)) (st : St) (h : Inv p st) (ha : After p st)
    (hah : (cs.foldl (fun s ij => testPair o p s ij.1 ij.2) st).ahead = true) :
    Inv p (cs.foldl (fun s ij => testPair o p s ij.1 ij.2) st)
    ∧ After p (cs.foldl (fun s ij => testPair o p s ij.1 ij.2) st) ∧ st.ahead = true := by
  induction cs generalizing st with
  | nil => exact ⟨h, ha, hah⟩
  | cons c rest ih =>
    simp only [List.foldl_cons] at hah ⊢
    have h1 := testPair_inv o p p st c.1 c.2 h
    -- first the flag of the intermediate state, from the monotonicity of the rest of the fold
    have hmono : ∀ (cs : List (Nat × Nat)) (s : St),
        (cs.foldl (fun s ij => testPair o p s ij.1 ij.2) s).ahead = true → s.ahead = true := by
      intro cs
      induction cs with
      | nil => intro s hs; exact hs
      | cons c' r' ih' => intro s hs; exact testPair_ahead_mono o p s c'.1 c'.2 (ih' _ hs)
    have h2 := hmono rest _ hah
    have h3 := testPair_after o p st c.1 c.2 h ha h2
    obtain ⟨i1, i2, _⟩ := ih _ h1 h3 hah
    exact ⟨i1, i2, testPair_ahead_mono o p st c.1 c.2 h2⟩

end MV.Arr2
