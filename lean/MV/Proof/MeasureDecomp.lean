/-
Lemmas for property C18, part 4: `Decompose`.  The labelling is `connectedComponents` of the
`DisjointSets` model after one thread has united the end points of every forward halfedge; the
specification of that labelling is theorem `dsu_quiescent_partition` of property C13c.
-/
import MV.Model.Measure
import MV.Props.C13c
import MV.Proof.Mesh

namespace MV.Measure
open MV.Dsu MV.Mesh MV.C13c

theorem runAlone_spec : ∀ (fuel : Nat) (s s' : State), runAlone fuel s = some s' →
    quiescent s' = true ∧ ∃ sched : List (Nat × Bool), exec s sched = s'
  | 0, s, s', h => by
    unfold runAlone at h
    split at h
    · next hq => cases h; exact ⟨hq, [], rfl⟩
    · cases h
  | fuel + 1, s, s', h => by
    unfold runAlone at h
    split at h
    · next hq => cases h; exact ⟨hq, [], rfl⟩
    · obtain ⟨hq, sched, he⟩ := runAlone_spec fuel _ s' h
      exact ⟨hq, (0, false) :: sched, by simpa [exec] using he⟩

theorem unitePairs_map_unite (es : List (Nat × Nat)) :
    unitePairs (es.map fun e => Op.unite e.1 e.2) = es := by
  induction es with
  | nil => rfl
  | cons e es ih =>
    unfold unitePairs at ih ⊢
    simp only [List.map_cons, List.filterMap_cons]
    rw [ih]

theorem unitePairs_uniteProg (ts : List Tri) : unitePairs (uniteProg ts) = forwardEdges ts :=
  unitePairs_map_unite _

theorem allUnitePairs_single (ts : List Tri) : allUnitePairs [uniteProg ts] = forwardEdges ts := by
  unfold allUnitePairs
  simp [unitePairs_uniteProg]

theorem mem_forwardEdges {ts : List Tri} {e : Nat × Nat} :
    e ∈ forwardEdges ts ↔ e ∈ dirEdges ts ∧ e.1 < e.2 := by
  unfold forwardEdges; simp

theorem progsOk_uniteProg {nV : Nat} {ts : List Tri} (hr : ∀ t ∈ ts, TriInRange nV t) :
    ProgsOk nV [uniteProg ts] := by
  intro p hp op hop
  have hp' : p = uniteProg ts := by simpa using hp
  subst hp'
  obtain ⟨e, he, rfl⟩ := List.mem_map.1 hop
  have hd := (mem_forwardEdges.1 he).1
  obtain ⟨t, ht, het⟩ := List.mem_flatMap.1 hd
  obtain ⟨h1, h2, h3⟩ := hr t ht
  simp only [triEdges, List.mem_cons, List.mem_nil_iff, or_false] at het
  rcases het with rfl | rfl | rfl <;> exact ⟨by assumption, by assumption⟩

/-- in a mesh whose directed edges come with their reversals, the end points of every directed
edge are connected through forward edges -/
theorem conn_of_dirEdge {ts : List Tri} (hrev : ∀ a b, (a, b) ∈ dirEdges ts → (b, a) ∈ dirEdges ts)
    {a b : Nat} (h : (a, b) ∈ dirEdges ts) : Conn (forwardEdges ts) a b := by
  rcases Nat.lt_trichotomy a b with hlt | rfl | hgt
  · exact Conn.base (mem_forwardEdges.2 ⟨h, hlt⟩)
  · exact Conn.refl _
  · exact Conn.symm (Conn.base (mem_forwardEdges.2 ⟨hrev a b h, hgt⟩))

theorem tri_edges_mem {ts : List Tri} {t : Tri} (ht : t ∈ ts) :
    (t.1, t.2.1) ∈ dirEdges ts ∧ (t.2.1, t.2.2) ∈ dirEdges ts ∧ (t.2.2, t.1) ∈ dirEdges ts := by
  unfold dirEdges
  refine ⟨List.mem_flatMap.2 ⟨t, ht, by simp [triEdges]⟩, List.mem_flatMap.2 ⟨t, ht, by simp [triEdges]⟩,
    List.mem_flatMap.2 ⟨t, ht, by simp [triEdges]⟩⟩

end MV.Measure
