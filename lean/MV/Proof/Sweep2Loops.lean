import MV.Model.Sweep2
/-! PushSimpleLoops: every pushed loop is vertex-simple and has at least three vertices. -/
namespace MV.Sweep2

theorem firstRepeat_spec (rest seen : List Nat) (hs : seen.Nodup) :
    (firstRepeat rest seen = none → (seen ++ rest).Nodup)
    ∧ (∀ j i, firstRepeat rest seen = some (j, i) →
        j < i ∧ i < (seen ++ rest).length ∧ ((seen ++ rest).take i).Nodup) := by
  induction rest generalizing seen with
  | nil => simp [firstRepeat, hs]
  | cons x rest ih =>
    unfold firstRepeat
    by_cases hc : seen.contains x = true
    · have hx : x ∈ seen := by simpa using hc
      simp only [hc, if_true]
      refine ⟨by simp, ?_⟩
      intro j i h
      simp only [Option.some.injEq, Prod.mk.injEq] at h
      obtain ⟨rfl, rfl⟩ := h
      refine ⟨List.idxOf_lt_length_of_mem hx, by simp, ?_⟩
      simp [hs]
    · have hx : x ∉ seen := by simpa using hc
      simp only [hc, if_false, Bool.false_eq_true]
      have hs' : (seen ++ [x]).Nodup := by
        rw [List.nodup_append]
        refine ⟨hs, by simp, ?_⟩
        intro a ha b hb
        simp only [List.mem_singleton] at hb
        subst hb
        intro e; exact hx (e ▸ ha)
      have := ih (seen ++ [x]) hs'
      simpa [List.append_assoc] using this

theorem findSplit_none {l : List Nat} (h : findSplit l = none) : l.Nodup := by
  have := (firstRepeat_spec l [] List.nodup_nil).1 h
  simpa using this

theorem findSplit_some {l : List Nat} {j i : Nat} (h : findSplit l = some (j, i)) :
    j < i ∧ i < l.length ∧ (l.take i).Nodup := by
  have := (firstRepeat_spec l [] List.nodup_nil).2 j i h
  simpa using this

theorem pushSimpleLoops_simple (fuel : Nat) (l : List Nat) (out : List (List Nat))
    (hf : l.length ≤ fuel) (ho : ∀ x ∈ out, x.Nodup ∧ 3 ≤ x.length) :
    ∀ x ∈ pushSimpleLoops fuel l out, x.Nodup ∧ 3 ≤ x.length := by
  induction fuel generalizing l out with
  | zero =>
    have : l = [] := List.eq_nil_of_length_eq_zero (by omega)
    subst this
    simpa [pushSimpleLoops] using ho
  | succ fuel ih =>
    unfold pushSimpleLoops
    cases hfs : findSplit l with
    | none =>
      simp only
      have hn := findSplit_none hfs
      by_cases h3 : l.length ≥ 3
      · simp only [h3, if_true]
        intro x hx
        simp only [List.mem_append, List.mem_singleton] at hx
        rcases hx with hx | rfl
        · exact ho x hx
        · exact ⟨hn, h3⟩
      · simp only [h3, if_false]; exact ho
    | some ji =>
      obtain ⟨j, i⟩ := ji
      simp only
      obtain ⟨hji, hil, hnd⟩ := findSplit_some hfs
      have hsimple : ((l.drop j).take (i - j)).Nodup := by
        rw [← List.drop_take]
        exact List.Nodup.sublist (List.drop_sublist _ _) hnd
      apply ih
      · simp only [List.length_append, List.length_take, List.length_drop]; omega
      · intro x hx
        by_cases h3 : ((l.drop j).take (i - j)).length ≥ 3
        · simp only [h3, if_true, List.mem_append, List.mem_singleton] at hx
          rcases hx with hx | rfl
          · exact ho x hx
          · exact ⟨hsimple, h3⟩
        · simp only [h3, if_false] at hx; exact ho x hx

end MV.Sweep2
