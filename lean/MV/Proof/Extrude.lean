import MV.Proof.EarClip
import MV.Model.Extrude
/-!
Lemmas for `extrude_closed` / `revolve_closed` (MV/Props/C17.lean).  Core Lean only.

Everything is a computation with `net`, the class of an edge list in the free abelian group on
directed edges modulo `(a,b) = −(b,a)`.  The side walls of both constructors are BANDS between
two closed vertex rings `W`, `W'` (two layers of an extrusion, a layer and the apex, two slices
of a revolve): `band` says the quads of a band have boundary `ring W − ring W'`.
-/
namespace MV.Extrude
open MV.EarClip

/-! ## sums -/

theorem sumTo_neg (n : Nat) (g : Nat → Int) : sumTo n (fun v => - g v) = - sumTo n g := by
  induction n with
  | zero => rfl
  | succ n ih => simp only [sumTo, ih]; omega

theorem sumTo_sub (n : Nat) (g g' : Nat → Int) :
    sumTo n (fun v => g v - g' v) = sumTo n g - sumTo n g' := by
  induction n with
  | zero => rfl
  | succ n ih => simp only [sumTo, ih]; omega

theorem sumTo_shift (n : Nat) (g : Nat → Int) : sumTo (n + 1) g = g 0 + sumTo n (fun i => g (i + 1)) := by
  induction n with
  | zero => simp [sumTo]
  | succ n ih => rw [sumTo, ih]; simp only [sumTo]; omega

/-- cyclic predecessor: the map `v ↦ (v == 0 ? n : v) - 1` permutes `0 … n-1` -/
theorem sumTo_cyc_pred (n : Nat) (f : Nat → Int) :
    sumTo n (fun v => f ((if v = 0 then n else v) - 1)) = sumTo n f := by
  cases n with
  | zero => rfl
  | succ n =>
    rw [sumTo_shift]
    simp only [if_true, Nat.add_sub_cancel]
    have : sumTo n (fun i => f ((if i + 1 = 0 then n + 1 else i + 1) - 1)) = sumTo n f :=
      sumTo_congr (fun v _ => by simp)
    rw [this, sumTo]; omega

/-- cyclic successor: `i ↦ (i + 1 < n ? i + 1 : 0)` -/
theorem sumTo_cyc_next (n : Nat) (f : Nat → Int) :
    sumTo n (fun i => f (if i + 1 < n then i + 1 else 0)) = sumTo n f := by
  cases n with
  | zero => rfl
  | succ n =>
    rw [sumTo]
    have : sumTo n (fun i => f (if i + 1 < n + 1 then i + 1 else 0)) = sumTo n (fun i => f (i + 1)) :=
      sumTo_congr (fun v hv => by simp [hv])
    rw [this, sumTo_shift]; simp; omega

theorem sumTo_comm (n m : Nat) (h : Nat → Nat → Int) :
    sumTo n (fun i => sumTo m (fun j => h i j)) = sumTo m (fun j => sumTo n (fun i => h i j)) := by
  induction n with
  | zero => simp [sumTo, sumTo_zero]
  | succ n ih => simp only [sumTo, ih, sumTo_add]

theorem sumTo_telescope (n : Nat) (f : Nat → Int) : sumTo n (fun i => f (i + 1) - f i) = f n - f 0 := by
  induction n with
  | zero => simp [sumTo]
  | succ n ih => simp only [sumTo, ih]; omega

theorem sumTo_mul (n : Nat) (c : Int) (g : Nat → Int) : sumTo n (fun v => c * g v) = c * sumTo n g := by
  induction n with
  | zero => simp [sumTo]
  | succ n ih => simp only [sumTo, ih, Int.mul_add]

/-- sum over a list -/
def lsum {α : Type} (f : α → Int) : List α → Int
  | [] => 0
  | x :: xs => f x + lsum f xs

theorem lsum_append {α : Type} (f : α → Int) (l m : List α) : lsum f (l ++ m) = lsum f l + lsum f m := by
  induction l with
  | nil => simp [lsum]
  | cons x xs ih => simp only [List.cons_append, lsum, ih]; omega

theorem lsum_congr {α : Type} {f g : α → Int} {l : List α} (h : ∀ x ∈ l, f x = g x) : lsum f l = lsum g l := by
  induction l with
  | nil => rfl
  | cons x xs ih =>
    simp only [lsum]
    rw [h x (List.mem_cons_self ..), ih (fun y hy => h y (List.mem_cons_of_mem _ hy))]

theorem lsum_range (n : Nat) (f : Nat → Int) : lsum f (List.range n) = sumTo n f := by
  induction n with
  | zero => rfl
  | succ n ih => rw [List.range_succ, lsum_append, ih]; simp [lsum, sumTo]

theorem lsum_add {α : Type} (f g : α → Int) (l : List α) :
    lsum (fun x => f x + g x) l = lsum f l + lsum g l := by
  induction l with
  | nil => rfl
  | cons x xs ih => simp only [lsum, ih]; omega

theorem lsum_sub {α : Type} (f g : α → Int) (l : List α) :
    lsum (fun x => f x - g x) l = lsum f l - lsum g l := by
  induction l with
  | nil => rfl
  | cons x xs ih => simp only [lsum, ih]; omega

theorem lsum_zero {α : Type} (l : List α) : lsum (fun _ => (0 : Int)) l = 0 := by
  induction l with
  | nil => rfl
  | cons x xs ih => simp only [lsum, ih]; omega

theorem sumTo_lsum_comm {α : Type} (n : Nat) (l : List α) (h : Nat → α → Int) :
    sumTo n (fun i => lsum (fun x => h i x) l) = lsum (fun x => sumTo n (fun i => h i x)) l := by
  induction n with
  | zero => simp [sumTo, lsum_zero]
  | succ n ih => simp only [sumTo, ih, lsum_add]

/-! ## `net` of concatenations -/

theorem net_triEdges_append (ts us : List Tri) (a b : Nat) :
    net (triEdges (ts ++ us)) a b = net (triEdges ts) a b + net (triEdges us) a b := by
  simp only [triEdges, List.flatMap_append, net_append]

theorem net_triEdges_cons (t : Tri) (ts : List Tri) (a b : Nat) :
    net (triEdges (t :: ts)) a b = net (triEdgesOf t) a b + net (triEdges ts) a b := by
  simp only [triEdges, List.flatMap_cons, net_append]

@[simp] theorem net_triEdges_nil (a b : Nat) : net (triEdges []) a b = 0 := by simp [triEdges]

theorem net_triEdges_flatMap {α : Type} (l : List α) (F : α → List Tri) (a b : Nat) :
    net (triEdges (l.flatMap F)) a b = lsum (fun x => net (triEdges (F x)) a b) l := by
  induction l with
  | nil => simp [lsum]
  | cons x xs ih => simp only [List.flatMap_cons, net_triEdges_append, ih, lsum]

theorem net_triEdges_flatMap_range (n : Nat) (F : Nat → List Tri) (a b : Nat) :
    net (triEdges ((List.range n).flatMap F)) a b = sumTo n (fun i => net (triEdges (F i)) a b) := by
  rw [net_triEdges_flatMap, lsum_range]

/-! ## weighted sums and vertex maps -/

/-- `Σ_{(x,y) ∈ es} g x y` -/
def wsum (g : Nat → Nat → Int) (es : List Edge) : Int := lsum (fun e => g e.1 e.2) es

theorem net_eq_wsum (es : List Edge) (a b : Nat) : net es a b = wsum (fun x y => ind x y a b) es := by
  induction es with
  | nil => simp [wsum, lsum]
  | cons e es ih => obtain ⟨x, y⟩ := e; rw [net_cons, ih]; rfl

theorem net_map_eq_wsum (f : Nat → Nat) (es : List Edge) (a b : Nat) :
    net (es.map fun e => (f e.1, f e.2)) a b = wsum (fun x y => ind (f x) (f y) a b) es := by
  induction es with
  | nil => simp [wsum, lsum]
  | cons e es ih => rw [List.map_cons, net_cons, ih]; rfl

theorem sumTo_sumTo_single (M x0 y0 : Nat) (hx : x0 < M) (hy : y0 < M) (g : Nat → Nat → Int) :
    sumTo M (fun x => sumTo M (fun y => (if x0 = x ∧ y0 = y then 1 else 0) * g x y)) = g x0 y0 := by
  have h1 : ∀ x, sumTo M (fun y => (if x0 = x ∧ y0 = y then (1 : Int) else 0) * g x y)
      = if x = x0 then g x0 y0 else 0 := by
    intro x
    by_cases hxx : x = x0
    · subst hxx
      have : sumTo M (fun y => (if x = x ∧ y0 = y then (1 : Int) else 0) * g x y)
          = sumTo M (fun y => if y = y0 then g x y0 else 0) :=
        sumTo_congr (fun y _ => by
          by_cases h : y = y0
          · simp [h]
          · simp [h, Ne.symm h])
      rw [this, sumTo_single]; simp [hy]
    · have : sumTo M (fun y => (if x0 = x ∧ y0 = y then (1 : Int) else 0) * g x y) = sumTo M (fun _ => 0) :=
        sumTo_congr (fun y _ => by simp [Ne.symm hxx])
      rw [this, sumTo_zero]; simp [hxx]
  simp only [h1]
  rw [sumTo_single]; simp [hx]

/-- for an antisymmetric weight, twice the weighted sum is determined by `net` -/
theorem two_wsum (g : Nat → Nat → Int) (hg : ∀ x y, g y x = - g x y) (M : Nat) (es : List Edge)
    (hM : ∀ e ∈ es, e.1 < M ∧ e.2 < M) :
    2 * wsum g es = sumTo M (fun x => sumTo M (fun y => net es x y * g x y)) := by
  induction es with
  | nil => simp [wsum, lsum, sumTo_zero]
  | cons e es ih =>
    obtain ⟨x0, y0⟩ := e
    have hb := hM (x0, y0) (List.mem_cons_self ..)
    have ih' := ih (fun e he => hM e (List.mem_cons_of_mem _ he))
    have hsplit : sumTo M (fun x => sumTo M (fun y => net ((x0, y0) :: es) x y * g x y))
        = sumTo M (fun x => sumTo M (fun y => (if x0 = x ∧ y0 = y then 1 else 0) * g x y))
          - sumTo M (fun x => sumTo M (fun y => (if x0 = y ∧ y0 = x then 1 else 0) * g x y))
          + sumTo M (fun x => sumTo M (fun y => net es x y * g x y)) := by
      rw [← sumTo_sub, ← sumTo_add]
      refine sumTo_congr (fun x _ => ?_)
      rw [← sumTo_sub, ← sumTo_add]
      refine sumTo_congr (fun y _ => ?_)
      rw [net_cons]; unfold ind
      rw [Int.add_mul, Int.sub_mul]
    have h2 : sumTo M (fun x => sumTo M (fun y => (if x0 = y ∧ y0 = x then 1 else 0) * g x y)) = g y0 x0 := by
      rw [← sumTo_sumTo_single M y0 x0 hb.2 hb.1 g]
      refine sumTo_congr (fun x _ => sumTo_congr (fun y _ => ?_))
      by_cases h : x0 = y ∧ y0 = x
      · simp [h.1, h.2]
      · have : ¬ (y0 = x ∧ x0 = y) := fun hh => h ⟨hh.2, hh.1⟩
        simp [h, this]
    rw [hsplit, sumTo_sumTo_single M x0 y0 hb.1 hb.2, h2, hg x0 y0, ← ih']
    simp only [wsum, lsum]; omega

theorem exists_bound (es : List Edge) : ∃ M, ∀ e ∈ es, e.1 < M ∧ e.2 < M := by
  induction es with
  | nil => exact ⟨0, fun _ h => by cases h⟩
  | cons e es ih =>
    obtain ⟨M, hM⟩ := ih
    refine ⟨max M (max (e.1 + 1) (e.2 + 1)), fun e' he' => ?_⟩
    rcases List.mem_cons.1 he' with rfl | h
    · omega
    · have := hM e' h; omega

/-- edge lists with the same class have the same weighted sum for every antisymmetric weight -/
theorem wsum_congr_net (g : Nat → Nat → Int) (hg : ∀ x y, g y x = - g x y) (es fs : List Edge)
    (h : ∀ x y, net es x y = net fs x y) : wsum g es = wsum g fs := by
  obtain ⟨M, hM⟩ := exists_bound (es ++ fs)
  have h1 := two_wsum g hg M es (fun e he => hM e (List.mem_append_left _ he))
  have h2 := two_wsum g hg M fs (fun e he => hM e (List.mem_append_right _ he))
  have : sumTo M (fun x => sumTo M (fun y => net es x y * g x y))
       = sumTo M (fun x => sumTo M (fun y => net fs x y * g x y)) :=
    sumTo_congr (fun x _ => sumTo_congr (fun y _ => by rw [h x y]))
  omega

theorem ind_map_anti (f : Nat → Nat) (a b x y : Nat) : ind (f y) (f x) a b = - ind (f x) (f y) a b := by
  have := ind_swap (f x) (f y) a b; omega

/-- **vertex maps respect classes**: if two edge lists have the same class, so have their images
    under any (not necessarily injective) vertex map -/
theorem net_map_congr (f : Nat → Nat) (es fs : List Edge) (h : ∀ x y, net es x y = net fs x y)
    (a b : Nat) :
    net (es.map fun e => (f e.1, f e.2)) a b = net (fs.map fun e => (f e.1, f e.2)) a b := by
  rw [net_map_eq_wsum, net_map_eq_wsum]
  exact wsum_congr_net _ (fun x y => ind_map_anti f a b x y) es fs h

/-! ## bands -/

/-- cyclic predecessor in a ring of `n` vertices: `(v == 0 ? n : v) - 1` -/
def pr (n v : Nat) : Nat := (if v = 0 then n else v) - 1

theorem pr_lt {n v : Nat} (h : v < n) : pr n v < n := by unfold pr; split <;> omega

/-- class of the closed ring `W 0 → W 1 → … → W (n-1) → W 0` -/
def ringP (n : Nat) (W : Nat → Nat) (a b : Nat) : Int := sumTo n (fun v => ind (W (pr n v)) (W v) a b)

theorem ringP_congr {n : Nat} {W W' : Nat → Nat} (h : ∀ v, v < n → W v = W' v) (a b : Nat) :
    ringP n W a b = ringP n W' a b :=
  sumTo_congr (fun v hv => by rw [h v hv, h _ (pr_lt hv)])

theorem ringP_const (n c a b : Nat) : ringP n (fun _ => c) a b = 0 := by
  unfold ringP
  rw [← sumTo_zero n]
  exact sumTo_congr (fun v _ => ind_self c a b)

theorem sumTo_add4 (n : Nat) (A B C D : Nat → Int) :
    sumTo n (fun v => A v + B v + C v + D v) = sumTo n A + sumTo n B + sumTo n C + sumTo n D := by
  induction n with
  | zero => rfl
  | succ n ih => simp only [sumTo, ih]; omega

/-- **band lemma**: the quads `W v → W' v → W' (pr v) → W (pr v)` between two rings have
    boundary `ring W − ring W'` -/
theorem band (n : Nat) (W W' : Nat → Nat) (a b : Nat) :
    sumTo n (fun v => ind (W v) (W' v) a b + ind (W' v) (W' (pr n v)) a b
        + ind (W' (pr n v)) (W (pr n v)) a b + ind (W (pr n v)) (W v) a b)
      = ringP n W a b - ringP n W' a b := by
  refine (sumTo_add4 n (fun v => ind (W v) (W' v) a b) (fun v => ind (W' v) (W' (pr n v)) a b)
    (fun v => ind (W' (pr n v)) (W (pr n v)) a b) (fun v => ind (W (pr n v)) (W v) a b)).trans ?_
  have h3 : sumTo n (fun v => ind (W' (pr n v)) (W (pr n v)) a b) = sumTo n (fun v => ind (W' v) (W v) a b) :=
    sumTo_cyc_pred n (fun v => ind (W' v) (W v) a b)
  have h1 : sumTo n (fun v => ind (W v) (W' v) a b) = - sumTo n (fun v => ind (W' v) (W v) a b) := by
    rw [← sumTo_neg]; exact sumTo_congr (fun v _ => by have := ind_swap (W v) (W' v) a b; omega)
  have h2 : sumTo n (fun v => ind (W' v) (W' (pr n v)) a b) = - ringP n W' a b := by
    unfold ringP; rw [← sumTo_neg]
    exact sumTo_congr (fun v _ => by have := ind_swap (W' v) (W' (pr n v)) a b; omega)
  rw [h1, h2, h3]; unfold ringP; omega

theorem net_map_range' (n : Nat) (F : Nat → Edge) (a b : Nat) :
    net ((List.range n).map F) a b = sumTo n (fun i => ind (F i).1 (F i).2 a b) := by
  have := net_map_range n (fun _ => true) F a b
  have hf : (List.range n).filter (fun _ => true) = List.range n := by simp
  rw [hf] at this
  simpa using this

/-- the image of the contour `start, start+1, …, start+s-1` under a vertex map is a ring -/
theorem net_polyEdges_map (f : Nat → Nat) (start s a b : Nat) :
    net ((polyEdges ((List.range s).map (start + ·))).map fun e => (f e.1, f e.2)) a b
      = ringP s (fun v => f (start + v)) a b := by
  unfold polyEdges
  rw [List.map_map, List.length_map, List.length_range, net_map_range']
  unfold ringP
  have hget : ∀ i, i < s → ((List.range s).map (start + ·)).getD i 0 = start + i := by
    intro i hi; simp [List.getD, hi]
  have e1 : sumTo s (fun i => ind (((fun e : Edge => (f e.1, f e.2)) ∘ fun i =>
              (((List.range s).map (start + ·)).getD i 0,
                ((List.range s).map (start + ·)).getD (if i + 1 < s then i + 1 else 0) 0)) i).1
              (((fun e : Edge => (f e.1, f e.2)) ∘ fun i =>
              (((List.range s).map (start + ·)).getD i 0,
                ((List.range s).map (start + ·)).getD (if i + 1 < s then i + 1 else 0) 0)) i).2 a b)
      = sumTo s (fun i => ind (f (start + i)) (f (start + (if i + 1 < s then i + 1 else 0))) a b) := by
    refine sumTo_congr (fun i hi => ?_)
    have hn : (if i + 1 < s then i + 1 else 0) < s := by split <;> omega
    simp only [Function.comp, hget i hi, hget _ hn]
  refine e1.trans ?_
  rw [← sumTo_cyc_pred s (fun i => ind (f (start + i)) (f (start + (if i + 1 < s then i + 1 else 0))) a b)]
  refine sumTo_congr (fun v hv => ?_)
  have : (if pr s v + 1 < s then pr s v + 1 else 0) = v := by unfold pr; split <;> split <;> omega
  show ind (f (start + pr s v)) (f (start + if pr s v + 1 < s then pr s v + 1 else 0)) a b = _
  rw [this]

/-! ## contours -/

theorem contourEdges_cons (c : List Nat) (cs : List (List Nat)) :
    contourEdges (c :: cs) = polyEdges c ++ contourEdges cs := by simp [contourEdges]

/-- the image of all contours under a vertex map: one ring per polygon -/
theorem net_contours_map (f : Nat → Nat) (sizes : List Nat) (j start a b : Nat) :
    net ((contourEdges (contoursFrom start sizes)).map fun e => (f e.1, f e.2)) a b
      = lsum (fun p => ringP p.2.2 (fun v => f (p.2.1 + v)) a b) (polyTable j start sizes) := by
  induction sizes generalizing j start with
  | nil => simp [contoursFrom, polyTable, contourEdges, lsum]
  | cons s rest ih =>
    simp only [contoursFrom, polyTable, contourEdges_cons, List.map_append, net_append, lsum]
    rw [net_polyEdges_map, ih]

theorem triEdges_map (f : Nat → Nat) (ts : List Tri) :
    triEdges (ts.map fun t => (f t.1, f t.2.1, f t.2.2)) = (triEdges ts).map fun e => (f e.1, f e.2) := by
  induction ts with
  | nil => rfl
  | cons t ts ih =>
    simp only [List.map_cons, triEdges, List.flatMap_cons, List.map_append] at ih ⊢
    rw [ih]; rfl

/-- a cap: the image of a triangulation of the contours under any vertex map has the class of
    the rings -/
theorem net_cap_map (f : Nat → Nat) (sizes : List Nat) (top : List Tri)
    (htop : ∀ x y, net (triEdges top) x y = bdContours (contours sizes) x y) (a b : Nat) :
    net (triEdges (top.map fun t => (f t.1, f t.2.1, f t.2.2))) a b
      = lsum (fun p => ringP p.2.2 (fun v => f (p.2.1 + v)) a b) (polyTable 0 0 sizes) := by
  rw [triEdges_map, net_map_congr f _ _ htop, contours, net_contours_map f sizes 0 0]

theorem net_triEdgesOf_rev (x y z a b : Nat) :
    net (triEdgesOf (x, z, y)) a b = - net (triEdgesOf (x, y, z)) a b := by
  rw [bdTri_eq, bdTri_eq]
  have h1 := ind_swap x y a b; have h2 := ind_swap y z a b; have h3 := ind_swap z x a b
  omega

theorem net_triEdges_rev (ts : List Tri) (a b : Nat) :
    net (triEdges (ts.map fun t => (t.1, t.2.2, t.2.1))) a b = - net (triEdges ts) a b := by
  induction ts with
  | nil => simp
  | cons t ts ih =>
    obtain ⟨x, y, z⟩ := t
    rw [List.map_cons, net_triEdges_cons, net_triEdges_cons, ih]
    dsimp only
    rw [net_triEdgesOf_rev]; omega

/-! ## Extrude -/

/-- class of layer `i`: one ring per polygon -/
def layerNet (sizes : List Nat) (i a b : Nat) : Int :=
  lsum (fun p => ringP p.2.2 (fun v => p.2.1 + v + sizes.sum * i) a b) (polyTable 0 0 sizes)

theorem side_quads (nC N i j idx sz : Nat) (isCone : Bool) (hi : 1 ≤ i) (hc : ¬ (i = N ∧ isCone = true)) (a b : Nat) :
    sumTo sz (fun vert => net (triEdges (sideTris nC N isCone i j idx sz vert)) a b)
      = ringP sz (fun v => idx + v + nC * (i - 1)) a b - ringP sz (fun v => idx + v + nC * i) a b := by
  rw [← band]
  refine sumTo_congr (fun v hv => ?_)
  obtain ⟨k, rfl⟩ : ∃ k, i = k + 1 := ⟨i - 1, by omega⟩
  simp only [sideTris, hc, if_false, net_triEdges_cons, net_triEdges_nil, bdTri_eq, Nat.add_sub_cancel]
  have e1 : v + (idx + nC * (k + 1)) = idx + v + nC * (k + 1) := by omega
  have e2 : (if v = 0 then sz else v) - 1 + (idx + nC * (k + 1)) = idx + pr sz v + nC * (k + 1) := by
    unfold pr; split <;> omega
  have e3 : idx + v + nC * (k + 1) - nC = idx + v + nC * k := by rw [Nat.mul_succ]; omega
  have e4 : idx + pr sz v + nC * (k + 1) - nC = idx + pr sz v + nC * k := by rw [Nat.mul_succ]; omega
  rw [e1, e2, e3, e4]
  have := ind_swap (idx + pr sz v + nC * (k + 1)) (idx + v + nC * k) a b
  omega

theorem side_cone (nC N j idx sz : Nat) (hN : 1 ≤ N) (a b : Nat) :
    sumTo sz (fun vert => net (triEdges (sideTris nC N true N j idx sz vert)) a b)
      = ringP sz (fun v => idx + v + nC * (N - 1)) a b := by
  have hb := band sz (fun v => idx + v + nC * (N - 1)) (fun _ => nC * N + j) a b
  rw [ringP_const] at hb
  rw [show ringP sz (fun v => idx + v + nC * (N - 1)) a b = ringP sz (fun v => idx + v + nC * (N - 1)) a b - 0 by omega, ← hb]
  refine sumTo_congr (fun v hv => ?_)
  obtain ⟨k, rfl⟩ : ∃ k, N = k + 1 := ⟨N - 1, by omega⟩
  simp only [sideTris, true_and, if_true, net_triEdges_cons, net_triEdges_nil, bdTri_eq, Nat.add_sub_cancel]
  have e1 : v + (idx + nC * (k + 1)) - nC = idx + v + nC * k := by rw [Nat.mul_succ]; omega
  have e2 : (if v = 0 then sz else v) - 1 + (idx + nC * (k + 1)) - nC = idx + pr sz v + nC * k := by
    unfold pr; rw [Nat.mul_succ]; split <;> omega
  rw [e1, e2, ind_self]
  have := ind_swap (nC * (k + 1) + j) (idx + v + nC * k) a b
  omega

theorem sideAll_net_nocone (sizes : List Nat) (N : Nat) (a b : Nat) :
    net (triEdges (sideAll sizes N false)) a b = layerNet sizes 0 a b - layerNet sizes N a b := by
  unfold sideAll
  rw [net_triEdges_flatMap_range]
  have h : ∀ i0, net (triEdges ((polyTable 0 0 sizes).flatMap fun p =>
        (List.range p.2.2).flatMap fun vert => sideTris sizes.sum N false (i0 + 1) p.1 p.2.1 p.2.2 vert)) a b
      = layerNet sizes i0 a b - layerNet sizes (i0 + 1) a b := by
    intro i0
    rw [net_triEdges_flatMap]
    unfold layerNet
    rw [← lsum_sub]
    refine lsum_congr (fun p _ => ?_)
    rw [net_triEdges_flatMap_range, side_quads _ _ _ _ _ _ _ (by omega) (by simp)]
    rfl
  simp only [h]
  have := sumTo_telescope N (fun i => - layerNet sizes i a b)
  have h2 : sumTo N (fun i0 => layerNet sizes i0 a b - layerNet sizes (i0 + 1) a b)
      = sumTo N (fun i => - layerNet sizes (i + 1) a b - - layerNet sizes i a b) :=
    sumTo_congr (fun i _ => by omega)
  rw [h2, this]; omega

theorem sideAll_net_cone (sizes : List Nat) (n : Nat) (a b : Nat) :
    net (triEdges (sideAll sizes (n + 1) true)) a b = layerNet sizes 0 a b := by
  unfold sideAll
  rw [net_triEdges_flatMap_range, sumTo]
  have h : ∀ i0, i0 < n → net (triEdges ((polyTable 0 0 sizes).flatMap fun p =>
        (List.range p.2.2).flatMap fun vert => sideTris sizes.sum (n + 1) true (i0 + 1) p.1 p.2.1 p.2.2 vert)) a b
      = layerNet sizes i0 a b - layerNet sizes (i0 + 1) a b := by
    intro i0 hi
    rw [net_triEdges_flatMap]
    unfold layerNet
    rw [← lsum_sub]
    refine lsum_congr (fun p _ => ?_)
    rw [net_triEdges_flatMap_range, side_quads _ _ _ _ _ _ _ (by omega) (by omega)]
    rfl
  have hl : net (triEdges ((polyTable 0 0 sizes).flatMap fun p =>
        (List.range p.2.2).flatMap fun vert => sideTris sizes.sum (n + 1) true (n + 1) p.1 p.2.1 p.2.2 vert)) a b
      = layerNet sizes n a b := by
    rw [net_triEdges_flatMap]
    unfold layerNet
    refine lsum_congr (fun p _ => ?_)
    rw [net_triEdges_flatMap_range, side_cone _ _ _ _ _ (by omega)]
    rfl
  rw [hl, sumTo_congr h]
  have := sumTo_telescope n (fun i => - layerNet sizes i a b)
  have h2 : sumTo n (fun i0 => layerNet sizes i0 a b - layerNet sizes (i0 + 1) a b)
      = sumTo n (fun i => - layerNet sizes (i + 1) a b - - layerNet sizes i a b) :=
    sumTo_congr (fun i _ => by omega)
  rw [h2, this]; omega

theorem capTris_net (nC N : Nat) (isCone : Bool) (top : List Tri) (a b : Nat) :
    net (triEdges (capTris nC N isCone top)) a b
      = net (triEdges (top.map fun t => (t.1, t.2.2, t.2.1))) a b
        + (if isCone then 0 else
            net (triEdges (top.map fun t => (t.1 + nC * N, t.2.1 + nC * N, t.2.2 + nC * N))) a b) := by
  induction top with
  | nil => cases isCone <;> simp [capTris]
  | cons t ts ih =>
    unfold capTris at ih ⊢
    rw [List.flatMap_cons, net_triEdges_append, ih]
    cases isCone
    · simp only [List.map_cons, net_triEdges_cons, net_triEdges_nil, Bool.false_eq_true, if_false]; omega
    · simp only [List.map_cons, net_triEdges_cons, net_triEdges_nil, if_true]; omega

theorem layerNet_zero_eq (sizes : List Nat) (top : List Tri)
    (htop : ∀ x y, net (triEdges top) x y = bdContours (contours sizes) x y) (a b : Nat) :
    net (triEdges top) a b = layerNet sizes 0 a b := by
  have h := net_cap_map (fun x => x) sizes top htop a b
  have e : (top.map fun t : Tri => (t.1, t.2.1, t.2.2)) = top := by
    induction top with
    | nil => rfl
    | cons t ts ih => simp
  rw [e] at h
  rw [h]; unfold layerNet
  exact lsum_congr (fun p _ => ringP_congr (fun v _ => by simp) a b)

/-- **the net of all emitted triangles is zero on every edge** -/
theorem extrude_net_zero (sizes : List Nat) (nDiv : Nat) (isCone : Bool) (top : List Tri)
    (htop : ∀ x y, net (triEdges top) x y = bdContours (contours sizes) x y) (a b : Nat) :
    net (triEdges (extrudeTris sizes nDiv isCone top)) a b = 0 := by
  unfold extrudeTris
  rw [net_triEdges_append, capTris_net, net_triEdges_rev, layerNet_zero_eq sizes top htop]
  cases isCone
  · rw [sideAll_net_nocone]
    simp only [Bool.false_eq_true, if_false]
    have := net_cap_map (fun x => x + sizes.sum * (nDiv + 1)) sizes top htop a b
    rw [this]; unfold layerNet; omega
  · rw [sideAll_net_cone]; simp only [if_true]; omega

/-! ## Extrude: index range and coverage -/

theorem polyTable_bounds (sizes : List Nat) (j idx : Nat) :
    ∀ p ∈ polyTable j idx sizes, idx ≤ p.2.1 ∧ p.2.1 + p.2.2 ≤ idx + sizes.sum ∧
      j ≤ p.1 ∧ p.1 < j + sizes.length ∧ p.2.2 ∈ sizes := by
  induction sizes generalizing j idx with
  | nil => intro p hp; cases hp
  | cons s rest ih =>
    intro p hp
    simp only [polyTable, List.mem_cons] at hp
    rcases hp with rfl | hp
    · simp only [List.sum_cons, List.length_cons, List.mem_cons, true_or, and_true]; omega
    · have := ih (j + 1) (idx + s) p hp
      simp only [List.sum_cons, List.length_cons, List.mem_cons]
      refine ⟨by omega, by omega, by omega, by omega, Or.inr this.2.2.2.2⟩

theorem polyTable_cover (sizes : List Nat) (j idx r : Nat) (h1 : idx ≤ r) (h2 : r < idx + sizes.sum) :
    ∃ p ∈ polyTable j idx sizes, p.2.1 ≤ r ∧ r < p.2.1 + p.2.2 := by
  induction sizes generalizing j idx with
  | nil => simp at h2; omega
  | cons s rest ih =>
    simp only [List.sum_cons] at h2
    by_cases h : r < idx + s
    · exact ⟨(j, idx, s), by simp [polyTable], h1, h⟩
    · obtain ⟨p, hp, hb⟩ := ih (j + 1) (idx + s) (by omega) (by omega)
      exact ⟨p, by simp [polyTable, hp], hb⟩

theorem polyTable_nth (sizes : List Nat) (j idx k : Nat) (hk : k < sizes.length) :
    ∃ p ∈ polyTable j idx sizes, p.1 = j + k := by
  induction sizes generalizing j idx k with
  | nil => simp at hk
  | cons s rest ih =>
    cases k with
    | zero => exact ⟨(j, idx, s), by simp [polyTable], rfl⟩
    | succ k =>
      obtain ⟨p, hp, he⟩ := ih (j + 1) (idx + s) k (by simpa using hk)
      exact ⟨p, by simp [polyTable, hp], by omega⟩

theorem mem_sideAll (sizes : List Nat) (N : Nat) (isCone : Bool) (t : Tri) :
    t ∈ sideAll sizes N isCone ↔ ∃ i0, i0 < N ∧ ∃ p ∈ polyTable 0 0 sizes, ∃ vert, vert < p.2.2 ∧
      t ∈ sideTris sizes.sum N isCone (i0 + 1) p.1 p.2.1 p.2.2 vert := by
  simp only [sideAll, List.mem_flatMap, List.mem_range]

def TriLt (n : Nat) (t : Tri) : Prop := t.1 < n ∧ t.2.1 < n ∧ t.2.2 < n
def TriHas (v : Nat) (t : Tri) : Prop := t.1 = v ∨ t.2.1 = v ∨ t.2.2 = v
instance (n : Nat) (t : Tri) : Decidable (TriLt n t) := by unfold TriLt; infer_instance
instance (v : Nat) (t : Tri) : Decidable (TriHas v t) := by unfold TriHas; infer_instance

theorem sideTris_eq (nC N : Nat) (isCone : Bool) (k j idx sz vert : Nat) :
    sideTris nC N isCone (k + 1) j idx sz vert =
      if k + 1 = N ∧ isCone = true then
        [(nC * (k + 1) + j, idx + pr sz vert + nC * k, idx + vert + nC * k)]
      else
        [(idx + vert + nC * (k + 1), idx + pr sz vert + nC * (k + 1), idx + vert + nC * k),
         (idx + pr sz vert + nC * (k + 1), idx + pr sz vert + nC * k, idx + vert + nC * k)] := by
  have e1 : vert + (idx + nC * (k + 1)) = idx + vert + nC * (k + 1) := by omega
  have e2 : (if vert = 0 then sz else vert) - 1 + (idx + nC * (k + 1)) = idx + pr sz vert + nC * (k + 1) := by
    unfold pr; split <;> omega
  have e3 : idx + vert + nC * (k + 1) - nC = idx + vert + nC * k := by rw [Nat.mul_succ]; omega
  have e4 : idx + pr sz vert + nC * (k + 1) - nC = idx + pr sz vert + nC * k := by rw [Nat.mul_succ]; omega
  simp only [sideTris, e1, e2, e3, e4]

theorem extrude_in_range (sizes : List Nat) (nDiv : Nat) (isCone : Bool) (top : List Tri)
    (htop : ∀ t ∈ top, TriLt sizes.sum t) :
    ∀ t ∈ extrudeTris sizes nDiv isCone top, TriLt (extrudeNumVert sizes nDiv isCone) t := by
  intro t ht
  unfold extrudeTris at ht
  rcases List.mem_append.1 ht with hs | hc
  · obtain ⟨i0, hi0, p, hp, vert, hv, hm⟩ := (mem_sideAll _ _ _ _).1 hs
    obtain ⟨_, hb, _, hj, _⟩ := polyTable_bounds sizes 0 0 p hp
    have hpv := pr_lt hv
    have hmul : sizes.sum * (i0 + 1) ≤ sizes.sum * (nDiv + 1) := Nat.mul_le_mul_left _ (by omega)
    have e1 : sizes.sum * (nDiv + 2) = sizes.sum * (nDiv + 1) + sizes.sum := by rw [Nat.mul_succ]
    have e2 : sizes.sum * (i0 + 1) = sizes.sum * i0 + sizes.sum := by rw [Nat.mul_succ]
    rw [sideTris_eq] at hm
    unfold extrudeNumVert TriLt
    by_cases hcone : i0 + 1 = nDiv + 1 ∧ isCone = true
    · rw [if_pos hcone] at hm
      obtain ⟨hiN, hcn⟩ := hcone
      simp only [List.mem_singleton] at hm
      subst hm
      simp only [hcn, if_true]
      rw [hiN] at e2
      refine ⟨by omega, by omega, by omega⟩
    · rw [if_neg hcone] at hm
      simp only [List.mem_cons, List.not_mem_nil, or_false] at hm
      cases isCone
      · simp only [Bool.false_eq_true, if_false]
        rcases hm with rfl | rfl <;> (refine ⟨?_, ?_, ?_⟩ <;> dsimp only <;> omega)
      · simp only [if_true]
        have hlt : i0 + 1 < nDiv + 1 := by
          rcases Nat.lt_or_ge (i0 + 1) (nDiv + 1) with h | h
          · exact h
          · exact absurd ⟨by omega, rfl⟩ hcone
        have hmul2 : sizes.sum * (i0 + 2) ≤ sizes.sum * (nDiv + 1) := Nat.mul_le_mul_left _ (by omega)
        have e3 : sizes.sum * (i0 + 2) = sizes.sum * (i0 + 1) + sizes.sum := by rw [Nat.mul_succ]
        rcases hm with rfl | rfl <;> (refine ⟨?_, ?_, ?_⟩ <;> dsimp only <;> omega)
  · unfold capTris at hc
    obtain ⟨t0, ht0, hm⟩ := List.mem_flatMap.1 hc
    obtain ⟨h1, h2, h3⟩ := htop t0 ht0
    have e1 : sizes.sum * (nDiv + 2) = sizes.sum * (nDiv + 1) + sizes.sum := by rw [Nat.mul_succ]
    have hge : sizes.sum ≤ sizes.sum * (nDiv + 1) := Nat.le_mul_of_pos_right _ (by omega)
    unfold extrudeNumVert TriLt
    rcases List.mem_cons.1 hm with rfl | hm
    · cases isCone <;> simp only [Bool.false_eq_true, if_false, if_true] <;> (refine ⟨?_, ?_, ?_⟩ <;> omega)
    · cases isCone
      · simp only [Bool.false_eq_true, if_false, List.mem_singleton] at hm ⊢
        subst hm
        refine ⟨?_, ?_, ?_⟩ <;> dsimp only <;> omega
      · simp at hm

/-- every vertex is a corner of some emitted triangle (for a cone: every polygon non-empty,
    else its apex duplicate is never referenced) -/
theorem extrude_all_used (sizes : List Nat) (nDiv : Nat) (isCone : Bool) (top : List Tri)
    (hpos : isCone = true → ∀ s ∈ sizes, 0 < s) :
    ∀ v, v < extrudeNumVert sizes nDiv isCone → ∃ t ∈ extrudeTris sizes nDiv isCone top, TriHas v t := by
  intro v hv
  -- a vertex of layer i < N is the third corner of the triangles of layer i+1 above it
  have lower : ∀ i r, i < nDiv + 1 → r < sizes.sum → v = r + sizes.sum * i →
      ∃ t ∈ extrudeTris sizes nDiv isCone top, TriHas v t := by
    intro i r hi hr hvr
    obtain ⟨p, hp, h1, h2⟩ := polyTable_cover sizes 0 0 r (by omega) (by omega)
    have hmem : ∀ t, t ∈ sideTris sizes.sum (nDiv + 1) isCone (i + 1) p.1 p.2.1 p.2.2 (r - p.2.1) →
        t ∈ extrudeTris sizes nDiv isCone top := fun t ht =>
      List.mem_append_left _ ((mem_sideAll _ _ _ _).2 ⟨i, hi, p, hp, r - p.2.1, by omega, ht⟩)
    rw [sideTris_eq] at hmem
    by_cases hc : i + 1 = nDiv + 1 ∧ isCone = true
    · rw [if_pos hc] at hmem
      exact ⟨_, hmem _ (List.mem_singleton.2 rfl), Or.inr (Or.inr (by dsimp only; omega))⟩
    · rw [if_neg hc] at hmem
      exact ⟨_, hmem _ (List.mem_cons_self ..), Or.inr (Or.inr (by dsimp only; omega))⟩
  unfold extrudeNumVert at hv
  by_cases hlow : v < sizes.sum * (nDiv + 1)
  · have hpos' : 0 < sizes.sum := by
      rcases Nat.eq_zero_or_pos sizes.sum with h | h
      · rw [h] at hlow; simp at hlow
      · exact h
    have hd := Nat.div_add_mod v sizes.sum
    have hm := Nat.mod_lt v hpos'
    have hi : v / sizes.sum < nDiv + 1 := (Nat.div_lt_iff_lt_mul hpos').2 (by rw [Nat.mul_comm]; exact hlow)
    exact lower (v / sizes.sum) (v % sizes.sum) hi hm (by omega)
  · cases isCone
    · -- top layer of a prism: first corner of the first triangle of layer N
      simp only [Bool.false_eq_true, if_false] at hv
      have e1 : sizes.sum * (nDiv + 2) = sizes.sum * (nDiv + 1) + sizes.sum := by rw [Nat.mul_succ]
      obtain ⟨p, hp, h1, h2⟩ := polyTable_cover sizes 0 0 (v - sizes.sum * (nDiv + 1)) (by omega) (by omega)
      have hmem : ∀ t, t ∈ sideTris sizes.sum (nDiv + 1) false (nDiv + 1) p.1 p.2.1 p.2.2 (v - sizes.sum * (nDiv + 1) - p.2.1) →
          t ∈ extrudeTris sizes nDiv false top := fun t ht =>
        List.mem_append_left _ ((mem_sideAll _ _ _ _).2 ⟨nDiv, by omega, p, hp, _, by omega, ht⟩)
      rw [sideTris_eq, if_neg (by simp)] at hmem
      exact ⟨_, hmem _ (List.mem_cons_self ..), Or.inl (by dsimp only; omega)⟩
    · -- apex duplicate j of a cone: first corner of the apex triangle of polygon j, vertex 0
      simp only [if_true] at hv
      obtain ⟨p, hp, hj⟩ := polyTable_nth sizes 0 0 (v - sizes.sum * (nDiv + 1)) (by omega)
      have hsz : 0 < p.2.2 := hpos rfl _ (polyTable_bounds sizes 0 0 p hp).2.2.2.2
      have hmem : ∀ t, t ∈ sideTris sizes.sum (nDiv + 1) true (nDiv + 1) p.1 p.2.1 p.2.2 0 →
          t ∈ extrudeTris sizes nDiv true top := fun t ht =>
        List.mem_append_left _ ((mem_sideAll _ _ _ _).2 ⟨nDiv, by omega, p, hp, 0, hsz, ht⟩)
      rw [sideTris_eq, if_pos ⟨rfl, rfl⟩] at hmem
      exact ⟨_, hmem _ (List.mem_singleton.2 rfl), Or.inl (by dsimp only; omega)⟩

/-! ## Revolve -/

theorem pushedBy_succ (nS : Nat) (poly : List Bool) (k : Nat) (hk : k < poly.length) :
    pushedBy nS poly (k + 1) = pushedBy nS poly k + cnt nS (poly.getD k false) := by
  unfold pushedBy
  rw [List.take_add_one, List.map_append, List.sum_append]
  simp [List.getD, List.getElem?_eq_getElem hk]

theorem sum_map_cnt (nS : Nat) (poly : List Bool) :
    (poly.map (cnt nS)).sum = poly.count false + nS * poly.count true := by
  induction poly with
  | nil => simp
  | cons b rest ih =>
    cases b <;> simp [cnt, ih, Nat.mul_add] <;> omega

theorem pushedBy_total (nS : Nat) (poly : List Bool) :
    pushedBy nS poly poly.length = poly.count false + nS * poly.count true := by
  unfold pushedBy; rw [List.take_length, sum_map_cnt]

theorem pushedBy_zero (nS : Nat) (poly : List Bool) : pushedBy nS poly 0 = 0 := by simp [pushedBy]

theorem prevIdx_eq_pr (len pv : Nat) : prevIdx len pv = pr len pv := by
  unfold prevIdx pr; split <;> omega

/-- the C++ expression for `prevStartPosIndex` is the start index of the previous polygon vertex -/
theorem prevStart_eq (nS : Nat) (poly : List Bool) (base pv : Nat) (hpv : pv < poly.length) :
    (prevStartOf nS poly (startOf nS poly base pv) pv).toNat = startOf nS poly base (pr poly.length pv) := by
  unfold prevStartOf startOf
  rw [prevIdx_eq_pr]
  have hp := pr_lt hpv
  have hs := pushedBy_succ nS poly (pr poly.length pv) hp
  by_cases h0 : pv = 0
  · subst h0
    have ht := pushedBy_total nS poly
    have hz := pushedBy_zero nS poly
    have e : pr poly.length 0 + 1 = poly.length := by unfold pr; simp; omega
    rw [e] at hs
    simp only [if_true]
    cases hb : poly.getD (pr poly.length 0) false <;>
      simp only [hb, cnt, Bool.false_eq_true, if_false, if_true] at hs ⊢ <;> omega
  · have e : pr poly.length pv + 1 = pv := by unfold pr; simp [h0]; omega
    rw [e] at hs
    simp only [h0, if_false]
    cases hb : poly.getD (pr poly.length pv) false <;>
      simp only [hb, cnt, Bool.false_eq_true, if_false, if_true] at hs ⊢ <;> omega

/-- output index of polygon vertex `k` on slice `s` -/
def V (nS : Nat) (poly : List Bool) (base k s : Nat) : Nat :=
  startOf nS poly base k + (if poly.getD k false then s else 0)

theorem vert_tris_net (nDiv nS : Nat) (isFull : Bool) (poly : List Bool) (base pv slice : Nat)
    (hpv : pv < poly.length) (hg : (isFull || decide (slice > 0)) = true) (a b : Nat) :
    net (triEdges (revolveVertTris nDiv nS isFull poly base pv slice)) a b
      = ind (V nS poly base pv slice) (V nS poly base pv ((if slice = 0 then nDiv else slice) - 1)) a b
        + ind (V nS poly base pv ((if slice = 0 then nDiv else slice) - 1))
              (V nS poly base (pr poly.length pv) ((if slice = 0 then nDiv else slice) - 1)) a b
        + ind (V nS poly base (pr poly.length pv) ((if slice = 0 then nDiv else slice) - 1))
              (V nS poly base (pr poly.length pv) slice) a b
        + ind (V nS poly base (pr poly.length pv) slice) (V nS poly base pv slice) a b := by
  unfold revolveVertTris
  simp only [hg, if_true]
  rw [prevStart_eq nS poly base pv hpv, prevIdx_eq_pr]
  unfold V
  generalize (if slice = 0 then nDiv else slice) - 1 = ls
  generalize startOf nS poly base pv = c
  generalize startOf nS poly base (pr poly.length pv) = p
  cases poly.getD pv false <;> cases poly.getD (pr poly.length pv) false <;>
    simp only [Bool.false_eq_true, if_false, if_true, List.append_nil, List.nil_append, List.cons_append,
      net_triEdges_cons, net_triEdges_nil, bdTri_eq, Nat.add_zero, ind_self]
  · have := ind_swap c p a b; omega
  · have := ind_swap c (p + ls) a b; omega
  · have := ind_swap p (c + slice) a b; omega
  · have := ind_swap (p + ls) (c + slice) a b; omega

/-- class of one polygon's ring on slice `s` -/
def polyRing (nS : Nat) (poly : List Bool) (base s a b : Nat) : Int :=
  ringP poly.length (fun k => V nS poly base k s) a b

theorem slice_net (nDiv nS : Nat) (isFull : Bool) (poly : List Bool) (base slice : Nat)
    (hg : (isFull || decide (slice > 0)) = true) (a b : Nat) :
    sumTo poly.length (fun pv => net (triEdges (revolveVertTris nDiv nS isFull poly base pv slice)) a b)
      = polyRing nS poly base slice a b - polyRing nS poly base ((if slice = 0 then nDiv else slice) - 1) a b := by
  unfold polyRing
  rw [← band]
  exact sumTo_congr (fun pv hpv => vert_tris_net nDiv nS isFull poly base pv slice hpv hg a b)

theorem slice_net_off (nDiv nS : Nat) (poly : List Bool) (base : Nat) (a b : Nat) :
    sumTo poly.length (fun pv => net (triEdges (revolveVertTris nDiv nS false poly base pv 0)) a b) = 0 := by
  rw [← sumTo_zero poly.length]
  exact sumTo_congr (fun pv _ => by simp [revolveVertTris])

theorem poly_net_swap (nDiv nS : Nat) (isFull : Bool) (poly : List Bool) (base a b : Nat) :
    net (triEdges (revolvePolyTris nDiv nS isFull poly base)) a b
      = sumTo nS (fun slice => sumTo poly.length (fun pv =>
          net (triEdges (revolveVertTris nDiv nS isFull poly base pv slice)) a b)) := by
  unfold revolvePolyTris
  rw [net_triEdges_flatMap_range, ← sumTo_comm]
  exact sumTo_congr (fun pv _ => net_triEdges_flatMap_range _ _ a b)

theorem poly_net_full (nDiv : Nat) (poly : List Bool) (base a b : Nat) :
    net (triEdges (revolvePolyTris nDiv nDiv true poly base)) a b = 0 := by
  rw [poly_net_swap]
  have h : ∀ slice, sumTo poly.length (fun pv => net (triEdges (revolveVertTris nDiv nDiv true poly base pv slice)) a b)
      = polyRing nDiv poly base slice a b - polyRing nDiv poly base ((if slice = 0 then nDiv else slice) - 1) a b :=
    fun slice => slice_net nDiv nDiv true poly base slice (by simp) a b
  simp only [h]
  rw [sumTo_sub, sumTo_cyc_pred nDiv (fun s => polyRing nDiv poly base s a b)]; omega

theorem poly_net_partial (nDiv : Nat) (poly : List Bool) (base a b : Nat) :
    net (triEdges (revolvePolyTris nDiv (nDiv + 1) false poly base)) a b
      = polyRing (nDiv + 1) poly base nDiv a b - polyRing (nDiv + 1) poly base 0 a b := by
  rw [poly_net_swap, sumTo_shift, slice_net_off]
  have h : ∀ k, sumTo poly.length (fun pv => net (triEdges (revolveVertTris nDiv (nDiv + 1) false poly base pv (k + 1))) a b)
      = polyRing (nDiv + 1) poly base (k + 1) a b - polyRing (nDiv + 1) poly base k a b := by
    intro k
    have := slice_net nDiv (nDiv + 1) false poly base (k + 1) (by simp) a b
    simpa using this
  simp only [h]
  rw [sumTo_telescope nDiv (fun s => polyRing (nDiv + 1) poly base s a b)]; omega

/-- class of all polygons' rings on slice `s` -/
def ringsAt (nS s a b : Nat) : Nat → List (List Bool) → Int
  | _, [] => 0
  | base, poly :: rest => polyRing nS poly base s a b + ringsAt nS s a b (base + pushedBy nS poly poly.length) rest

theorem sides_net_full (nDiv : Nat) (polys : List (List Bool)) (base a b : Nat) :
    net (triEdges (revolveSides nDiv nDiv true base polys)) a b = 0 := by
  induction polys generalizing base with
  | nil => simp [revolveSides]
  | cons poly rest ih => rw [revolveSides, net_triEdges_append, poly_net_full, ih]; rfl

theorem sides_net_partial (nDiv : Nat) (polys : List (List Bool)) (base a b : Nat) :
    net (triEdges (revolveSides nDiv (nDiv + 1) false base polys)) a b
      = ringsAt (nDiv + 1) nDiv a b base polys - ringsAt (nDiv + 1) 0 a b base polys := by
  induction polys generalizing base with
  | nil => simp [revolveSides, ringsAt]
  | cons poly rest ih => rw [revolveSides, net_triEdges_append, poly_net_partial, ih]; simp only [ringsAt]; omega

/-! caps -/

theorem getD_append_mid (pre mid post : List Nat) (v : Nat) (hv : v < mid.length) :
    (pre ++ (mid ++ post)).getD (pre.length + v) 0 = mid.getD v 0 := by
  simp [List.getD, List.getElem?_append_right, List.getElem?_append_left hv]

/-- reading `startPoses`-like tables through the contours gives the rings of the slice -/
theorem cap_rings (nS s a b : Nat) (tbl : Nat → List (List Bool) → List Nat)
    (htbl : ∀ base poly rest, tbl base (poly :: rest) =
      (List.range poly.length).map (fun k => V nS poly base k s) ++ tbl (base + pushedBy nS poly poly.length) rest)
    (polys : List (List Bool)) (pre : List Nat) (j base : Nat) :
    lsum (fun p => ringP p.2.2 (fun v => (pre ++ tbl base polys).getD (p.2.1 + v) 0) a b)
        (polyTable j pre.length (polys.map List.length))
      = ringsAt nS s a b base polys := by
  induction polys generalizing pre j base with
  | nil => simp [polyTable, lsum, ringsAt]
  | cons poly rest ih =>
    simp only [List.map_cons, polyTable, lsum, ringsAt]
    rw [htbl]
    congr 1
    · unfold polyRing
      refine ringP_congr (fun v hv => ?_) a b
      rw [getD_append_mid _ _ _ _ (by simpa using hv)]
      simp [List.getD, hv]
    · have := ih (pre ++ (List.range poly.length).map (fun k => V nS poly base k s)) (j + 1)
        (base + pushedBy nS poly poly.length)
      simp only [List.length_append, List.length_map, List.length_range, List.append_assoc] at this
      exact this

def tblV (nS s : Nat) : Nat → List (List Bool) → List Nat
  | _, [] => []
  | base, poly :: rest =>
      (List.range poly.length).map (fun k => V nS poly base k s) ++ tblV nS s (base + pushedBy nS poly poly.length) rest

theorem startPosList_eq (nS : Nat) (polys : List (List Bool)) (base : Nat) :
    startPosList nS base polys = tblV nS 0 base polys := by
  induction polys generalizing base with
  | nil => rfl
  | cons poly rest ih =>
    rw [startPosList, tblV, ih]
    congr 1
    exact List.map_congr_left (fun k _ => by simp [V])

theorem endPosList_eq (nS : Nat) (polys : List (List Bool)) (base : Nat) :
    endPosList (nS + 1) base polys = tblV (nS + 1) nS base polys := by
  induction polys generalizing base with
  | nil => rfl
  | cons poly rest ih =>
    rw [endPosList, tblV, ih]
    congr 1
    refine List.map_congr_left (fun k hk => ?_)
    have hk' : k < poly.length := List.mem_range.1 hk
    unfold V startOf
    rw [pushedBy_succ _ _ _ hk']
    unfold cnt
    split <;> omega

theorem net_triEdges_rev3 (ts : List Tri) (a b : Nat) :
    net (triEdges (ts.map fun t => (t.2.2, t.2.1, t.1))) a b = - net (triEdges ts) a b := by
  induction ts with
  | nil => simp
  | cons t ts ih =>
    obtain ⟨x, y, z⟩ := t
    rw [List.map_cons, net_triEdges_cons, net_triEdges_cons, ih]
    dsimp only
    rw [bdTri_eq, bdTri_eq]
    have h1 := ind_swap x y a b; have h2 := ind_swap y z a b; have h3 := ind_swap z x a b
    omega

theorem caps_net (nDiv : Nat) (polys : List (List Bool)) (front : List Tri)
    (hfront : ∀ x y, net (triEdges front) x y = bdContours (revolveContours polys) x y) (a b : Nat) :
    net (triEdges (revolveCaps (startPosList (nDiv + 1) 0 polys) (endPosList (nDiv + 1) 0 polys) front)) a b
      = ringsAt (nDiv + 1) 0 a b 0 polys - ringsAt (nDiv + 1) nDiv a b 0 polys := by
  unfold revolveCaps
  rw [net_triEdges_append]
  have h1 := net_cap_map (fun c => (startPosList (nDiv + 1) 0 polys).getD c 0) (polys.map List.length) front hfront a b
  have h2 := net_cap_map (fun c => (endPosList (nDiv + 1) 0 polys).getD c 0) (polys.map List.length) front hfront a b
  have c1 := cap_rings (nDiv + 1) 0 a b (tblV (nDiv + 1) 0) (fun _ _ _ => rfl) polys [] 0 0
  have c2 := cap_rings (nDiv + 1) nDiv a b (tblV (nDiv + 1) nDiv) (fun _ _ _ => rfl) polys [] 0 0
  simp only [List.nil_append, List.length_nil] at c1 c2
  rw [startPosList_eq] at h1 ⊢
  rw [endPosList_eq] at h2 ⊢
  rw [c1] at h1
  rw [c2] at h2
  rw [h1]
  have e : (front.map fun t => ((tblV (nDiv + 1) nDiv 0 polys).getD t.2.2 0, (tblV (nDiv + 1) nDiv 0 polys).getD t.2.1 0,
        (tblV (nDiv + 1) nDiv 0 polys).getD t.1 0))
      = (front.map fun t => ((tblV (nDiv + 1) nDiv 0 polys).getD t.1 0, (tblV (nDiv + 1) nDiv 0 polys).getD t.2.1 0,
        (tblV (nDiv + 1) nDiv 0 polys).getD t.2.2 0)).map fun t => (t.2.2, t.2.1, t.1) := by
    rw [List.map_map]; rfl
  rw [e, net_triEdges_rev3, h2]; omega

/-- **the net of all triangles `Revolve` emits is zero on every edge** -/
theorem revolve_net_zero (polys : List (List Bool)) (nDiv : Nat) (isFull : Bool) (front : List Tri)
    (hfront : ∀ x y, net (triEdges front) x y = bdContours (revolveContours polys) x y) (a b : Nat) :
    net (triEdges (revolveTris polys nDiv isFull front)) a b = 0 := by
  unfold revolveTris
  cases isFull
  · simp only [nSlicesOf, Bool.false_eq_true, if_false]
    rw [net_triEdges_append, sides_net_partial, caps_net nDiv polys front hfront]; omega
  · simp only [nSlicesOf, if_true, List.append_nil]
    exact sides_net_full nDiv polys 0 a b

/-! ## Revolve: index range and coverage -/

theorem pushedBy_le (nS : Nat) (poly : List Bool) (k : Nat) :
    pushedBy nS poly k ≤ pushedBy nS poly poly.length := by
  unfold pushedBy
  rw [List.take_length]
  conv => rhs; rw [← List.take_append_drop k poly]
  rw [List.map_append, List.sum_append]; omega

theorem startOf_succ_le (nS : Nat) (poly : List Bool) (base k : Nat) (hk : k < poly.length) :
    startOf nS poly base k + cnt nS (poly.getD k false) ≤ base + pushedBy nS poly poly.length := by
  have h1 := pushedBy_succ nS poly k hk
  have h2 := pushedBy_le nS poly (k + 1)
  unfold startOf; omega

theorem mem_revolvePolyTris (nDiv nS : Nat) (isFull : Bool) (poly : List Bool) (base : Nat) (t : Tri) :
    t ∈ revolvePolyTris nDiv nS isFull poly base ↔
      ∃ pv, pv < poly.length ∧ ∃ slice, slice < nS ∧ t ∈ revolveVertTris nDiv nS isFull poly base pv slice := by
  simp only [revolvePolyTris, List.mem_flatMap, List.mem_range]

theorem vertTris_range (nDiv nS : Nat) (isFull : Bool) (poly : List Bool) (base pv slice : Nat)
    (hpv : pv < poly.length) (hs : slice < nS) (hd : 1 ≤ nDiv) (hdn : nDiv ≤ nS) :
    ∀ t ∈ revolveVertTris nDiv nS isFull poly base pv slice, TriLt (base + pushedBy nS poly poly.length) t := by
  intro t ht
  unfold revolveVertTris at ht
  dsimp only at ht
  rw [prevStart_eq nS poly base pv hpv, prevIdx_eq_pr] at ht
  have hc := startOf_succ_le nS poly base pv hpv
  have hp := startOf_succ_le nS poly base (pr poly.length pv) (pr_lt hpv)
  have hls : (if slice = 0 then nDiv else slice) - 1 < nS := by split <;> omega
  revert ht hc hp
  generalize (if slice = 0 then nDiv else slice) - 1 = ls at hls ⊢
  generalize startOf nS poly base pv = c
  generalize startOf nS poly base (pr poly.length pv) = p
  generalize base + pushedBy nS poly poly.length = top
  unfold cnt TriLt
  cases isFull || decide (slice > 0) <;> cases poly.getD pv false <;> cases poly.getD (pr poly.length pv) false <;>
    simp only [Bool.false_eq_true, if_false, if_true, List.append_nil, List.nil_append, List.cons_append,
      List.mem_cons, List.not_mem_nil, or_false, false_imp_iff] <;>
    intro ht hc hp <;> (try rcases ht with rfl | rfl) <;> (try subst ht) <;>
    (refine ⟨?_, ?_, ?_⟩ <;> dsimp only <;> omega)

theorem sides_range (nDiv nS : Nat) (isFull : Bool) (polys : List (List Bool)) (base : Nat)
    (hd : 1 ≤ nDiv) (hdn : nDiv ≤ nS) :
    ∀ t ∈ revolveSides nDiv nS isFull base polys,
      TriLt (base + (polys.map fun p => pushedBy nS p p.length).sum) t := by
  induction polys generalizing base with
  | nil => intro t ht; cases ht
  | cons poly rest ih =>
    intro t ht
    rw [revolveSides] at ht
    simp only [List.map_cons, List.sum_cons]
    rcases List.mem_append.1 ht with h | h
    · obtain ⟨pv, hpv, slice, hs, hm⟩ := (mem_revolvePolyTris _ _ _ _ _ _).1 h
      have := vertTris_range nDiv nS isFull poly base pv slice hpv hs hd hdn t hm
      unfold TriLt at this ⊢; omega
    · have := ih (base + pushedBy nS poly poly.length) t h
      unfold TriLt at this ⊢; omega

theorem tblV_length (nS s : Nat) (polys : List (List Bool)) (base : Nat) :
    (tblV nS s base polys).length = (polys.map List.length).sum := by
  induction polys generalizing base with
  | nil => rfl
  | cons poly rest ih => simp [tblV, ih]

theorem tblV_lt (nS s : Nat) (hs : s < nS) (polys : List (List Bool)) (base : Nat) :
    ∀ x ∈ tblV nS s base polys, x < base + (polys.map fun p => pushedBy nS p p.length).sum := by
  induction polys generalizing base with
  | nil => intro x hx; cases hx
  | cons poly rest ih =>
    intro x hx
    rw [tblV] at hx
    simp only [List.map_cons, List.sum_cons]
    rcases List.mem_append.1 hx with h | h
    · obtain ⟨k, hk, rfl⟩ := List.mem_map.1 h
      have := startOf_succ_le nS poly base k (List.mem_range.1 hk)
      unfold V; unfold cnt at this
      split <;> simp_all <;> omega
    · have := ih (base + pushedBy nS poly poly.length) x h; omega

theorem getD_mem_of_lt (l : List Nat) (i : Nat) (h : i < l.length) : l.getD i 0 ∈ l := by
  simp [List.getD, List.getElem?_eq_getElem h]

theorem revolve_in_range (polys : List (List Bool)) (nDiv : Nat) (isFull : Bool) (front : List Tri)
    (hd : 1 ≤ nDiv) (hfront : ∀ t ∈ front, TriLt (polys.map List.length).sum t) :
    ∀ t ∈ revolveTris polys nDiv isFull front, TriLt (revolveNumVert polys nDiv isFull) t := by
  intro t ht
  unfold revolveTris at ht
  unfold revolveNumVert
  rcases List.mem_append.1 ht with h | h
  · have := sides_range nDiv (nSlicesOf nDiv isFull) isFull polys 0 hd (by unfold nSlicesOf; split <;> omega) t h
    simpa using this
  · cases isFull
    · simp only [Bool.false_eq_true, if_false, nSlicesOf] at h ⊢
      rw [startPosList_eq, endPosList_eq] at h
      have hl0 := tblV_length (nDiv + 1) 0 polys 0
      have hl1 := tblV_length (nDiv + 1) nDiv polys 0
      have b0 := tblV_lt (nDiv + 1) 0 (by omega) polys 0
      have b1 := tblV_lt (nDiv + 1) nDiv (by omega) polys 0
      simp only [Nat.zero_add] at b0 b1
      unfold revolveCaps at h
      rcases List.mem_append.1 h with h | h
      · obtain ⟨t0, ht0, rfl⟩ := List.mem_map.1 h
        obtain ⟨h1, h2, h3⟩ := hfront t0 ht0
        exact ⟨b0 _ (getD_mem_of_lt _ _ (by omega)), b0 _ (getD_mem_of_lt _ _ (by omega)), b0 _ (getD_mem_of_lt _ _ (by omega))⟩
      · obtain ⟨t0, ht0, rfl⟩ := List.mem_map.1 h
        obtain ⟨h1, h2, h3⟩ := hfront t0 ht0
        exact ⟨b1 _ (getD_mem_of_lt _ _ (by omega)), b1 _ (getD_mem_of_lt _ _ (by omega)), b1 _ (getD_mem_of_lt _ _ (by omega))⟩
    · simp at h

/-- cyclic successor `(k + 1 < len ? k + 1 : 0)` -/
def nx (len k : Nat) : Nat := if k + 1 < len then k + 1 else 0

theorem pr_nx {len k : Nat} (h : k < len) : pr len (nx len k) = k := by
  unfold pr nx; split <;> split <;> omega

theorem nx_lt {len k : Nat} (h : k < len) : nx len k < len := by unfold nx; split <;> omega

theorem vertTris_A (nDiv nS : Nat) (isFull : Bool) (poly : List Bool) (base pv slice : Nat)
    (hpv : pv < poly.length) (hg : (isFull || decide (slice > 0)) = true) (hc : poly.getD pv false = true) :
    (startOf nS poly base pv + slice, startOf nS poly base pv + ((if slice = 0 then nDiv else slice) - 1),
      if poly.getD (pr poly.length pv) false = true
        then startOf nS poly base (pr poly.length pv) + ((if slice = 0 then nDiv else slice) - 1)
        else startOf nS poly base (pr poly.length pv))
      ∈ revolveVertTris nDiv nS isFull poly base pv slice := by
  unfold revolveVertTris
  dsimp only
  rw [prevStart_eq nS poly base pv hpv, prevIdx_eq_pr]
  simp only [hg, hc, if_true]
  exact List.mem_append_left _ (List.mem_singleton.2 rfl)

theorem vertTris_B (nDiv nS : Nat) (isFull : Bool) (poly : List Bool) (base pv slice : Nat)
    (hpv : pv < poly.length) (hg : (isFull || decide (slice > 0)) = true)
    (hp : poly.getD (pr poly.length pv) false = true) :
    (startOf nS poly base (pr poly.length pv) + ((if slice = 0 then nDiv else slice) - 1),
      startOf nS poly base (pr poly.length pv) + slice,
      if poly.getD pv false = true then startOf nS poly base pv + slice else startOf nS poly base pv)
      ∈ revolveVertTris nDiv nS isFull poly base pv slice := by
  unfold revolveVertTris
  dsimp only
  rw [prevStart_eq nS poly base pv hpv, prevIdx_eq_pr]
  simp only [hg, hp, if_true]
  exact List.mem_append_right _ (List.mem_singleton.2 rfl)

theorem find_vertex (nS : Nat) (poly : List Bool) (base u : Nat) (m : Nat) (hm : m ≤ poly.length)
    (h1 : base ≤ u) (h2 : u < base + pushedBy nS poly m) :
    ∃ k, k < m ∧ startOf nS poly base k ≤ u ∧ u < startOf nS poly base k + cnt nS (poly.getD k false) := by
  induction m with
  | zero => rw [pushedBy_zero] at h2; omega
  | succ m ih =>
    have hs := pushedBy_succ nS poly m (by omega)
    by_cases h : u < base + pushedBy nS poly m
    · obtain ⟨k, hk, hb⟩ := ih (by omega) h
      exact ⟨k, by omega, hb⟩
    · exact ⟨m, by omega, by unfold startOf; omega, by unfold startOf; omega⟩

/-- the hypothesis of the coverage clause: every axis vertex has a neighbour off the axis -/
def AxisOk (poly : List Bool) : Prop :=
  ∀ k, k < poly.length → poly.getD k false = false →
    poly.getD (pr poly.length k) false = true ∨ poly.getD (nx poly.length k) false = true

theorem poly_used (nDiv : Nat) (isFull : Bool) (poly : List Bool) (base u : Nat) (hd : 1 ≤ nDiv)
    (hH : AxisOk poly) (h1 : base ≤ u) (h2 : u < base + pushedBy (nSlicesOf nDiv isFull) poly poly.length) :
    ∃ t ∈ revolvePolyTris nDiv (nSlicesOf nDiv isFull) isFull poly base, TriHas u t := by
  obtain ⟨k, hk, hlo, hhi⟩ := find_vertex _ poly base u poly.length (Nat.le_refl _) h1 h2
  have hnS : nSlicesOf nDiv isFull = if isFull then nDiv else nDiv + 1 := rfl
  -- a slice on which triangles are emitted
  have hs0 : ∃ s0, s0 < nSlicesOf nDiv isFull ∧ (isFull || decide (s0 > 0)) = true := by
    cases isFull
    · exact ⟨1, by simp [nSlicesOf]; omega, by simp⟩
    · exact ⟨0, by simp [nSlicesOf]; omega, by simp⟩
  cases hpos : poly.getD k false
  · -- axis vertex
    rw [hpos] at hhi
    simp only [cnt, Bool.false_eq_true, if_false] at hhi
    have hu : u = startOf (nSlicesOf nDiv isFull) poly base k := by omega
    obtain ⟨s0, hs0, hg⟩ := hs0
    rcases hH k hk hpos with hp | hn
    · refine ⟨_, (mem_revolvePolyTris _ _ _ _ _ _).2 ⟨k, hk, s0, hs0, vertTris_B nDiv _ isFull poly base k s0 hk hg hp⟩, ?_⟩
      right; right
      simp only [hpos, Bool.false_eq_true, if_false]; exact hu.symm
    · have hpv := nx_lt hk
      have hA := vertTris_A nDiv (nSlicesOf nDiv isFull) isFull poly base (nx poly.length k) s0 hpv hg hn
      rw [pr_nx hk] at hA
      simp only [hpos, Bool.false_eq_true, if_false] at hA
      exact ⟨_, (mem_revolvePolyTris _ _ _ _ _ _).2 ⟨_, hpv, s0, hs0, hA⟩, Or.inr (Or.inr hu.symm)⟩
  · -- vertex off the axis, slice s = u - start
    rw [hpos] at hhi
    simp only [cnt, if_true] at hhi
    by_cases hg : (isFull || decide (u - startOf (nSlicesOf nDiv isFull) poly base k > 0)) = true
    · exact ⟨_, (mem_revolvePolyTris _ _ _ _ _ _).2 ⟨k, hk, _, by omega, vertTris_A nDiv _ isFull poly base k _ hk hg hpos⟩,
        Or.inl (by dsimp only; omega)⟩
    · have hf : isFull = false := by cases isFull <;> simp_all
      subst hf
      have hz : u = startOf (nSlicesOf nDiv false) poly base k := by
        simp only [Bool.false_or, decide_eq_true_eq] at hg; omega
      have hA := vertTris_A nDiv (nSlicesOf nDiv false) false poly base k 1 hk (by simp) hpos
      exact ⟨_, (mem_revolvePolyTris _ _ _ _ _ _).2 ⟨k, hk, 1, by simp [nSlicesOf]; omega, hA⟩,
        Or.inr (Or.inl (by dsimp only; simp; omega))⟩

theorem sides_used (nDiv : Nat) (isFull : Bool) (polys : List (List Bool)) (base u : Nat) (hd : 1 ≤ nDiv)
    (hH : ∀ poly ∈ polys, AxisOk poly) (h1 : base ≤ u)
    (h2 : u < base + (polys.map fun p => pushedBy (nSlicesOf nDiv isFull) p p.length).sum) :
    ∃ t ∈ revolveSides nDiv (nSlicesOf nDiv isFull) isFull base polys, TriHas u t := by
  induction polys generalizing base with
  | nil => simp at h2; omega
  | cons poly rest ih =>
    simp only [List.map_cons, List.sum_cons] at h2
    rw [revolveSides]
    by_cases h : u < base + pushedBy (nSlicesOf nDiv isFull) poly poly.length
    · obtain ⟨t, ht, hu⟩ := poly_used nDiv isFull poly base u hd (hH poly (List.mem_cons_self ..)) h1 h
      exact ⟨t, List.mem_append_left _ ht, hu⟩
    · obtain ⟨t, ht, hu⟩ := ih (base + pushedBy (nSlicesOf nDiv isFull) poly poly.length)
        (fun p hp => hH p (List.mem_cons_of_mem _ hp)) (by omega) (by omega)
      exact ⟨t, List.mem_append_right _ ht, hu⟩

theorem revolve_all_used (polys : List (List Bool)) (nDiv : Nat) (isFull : Bool) (front : List Tri)
    (hd : 1 ≤ nDiv) (hH : ∀ poly ∈ polys, AxisOk poly) :
    ∀ v, v < revolveNumVert polys nDiv isFull → ∃ t ∈ revolveTris polys nDiv isFull front, TriHas v t := by
  intro v hv
  obtain ⟨t, ht, hu⟩ := sides_used nDiv isFull polys 0 v hd hH (Nat.zero_le _) (by simpa [revolveNumVert] using hv)
  exact ⟨t, List.mem_append_left _ ht, hu⟩

end MV.Extrude
