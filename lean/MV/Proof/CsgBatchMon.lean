import MV.Model.CsgBatch
/-
Commutative monoids and sums over lists: the vocabulary in which "nothing dropped, nothing
duplicated" (`N` = multisets as count functions) and "denotes the union" (`N` = solids under
`∪`) are the same statement about `BatchUnion` / `BatchBoolean`.  Core Lean only.
-/
set_option autoImplicit false
namespace MV.CsgBatch

/-- a commutative monoid; exactly the laws used -/
class CMon (N : Type) where
  add : N → N → N
  zero : N
  add_assoc : ∀ a b c, add (add a b) c = add a (add b c)
  add_comm : ∀ a b, add a b = add b a
  add_zero : ∀ a, add a zero = a

open CMon

variable {N : Type} [CMon N]

instance : Std.Associative (α := N) add := ⟨add_assoc⟩
instance : Std.Commutative (α := N) add := ⟨add_comm⟩

theorem CMon.zero_add (a : N) : add zero a = a := by rw [add_comm, add_zero]

/-- the sum of a list -/
def msum (l : List N) : N := l.foldr add zero

@[simp] theorem msum_nil : msum ([] : List N) = zero := rfl
@[simp] theorem msum_cons (a : N) (l : List N) : msum (a :: l) = add a (msum l) := rfl

theorem msum_singleton (a : N) : msum [a] = a := by simp [add_zero]

theorem msum_append (a b : List N) : msum (a ++ b) = add (msum a) (msum b) := by
  induction a with
  | nil => simp [CMon.zero_add]
  | cons x xs ih => simp [ih, add_assoc]

theorem msum_perm {a b : List N} (h : a.Perm b) : msum a = msum b := by
  induction h with
  | nil => rfl
  | cons x _ ih => simp [ih]
  | swap x y l =>
    simp only [msum_cons]
    rw [← add_assoc, add_comm y x, add_assoc]
  | trans _ _ ih1 ih2 => exact ih1.trans ih2

theorem msum_flatten (ls : List (List N)) : msum (ls.map msum) = msum ls.flatten := by
  induction ls with
  | nil => rfl
  | cons l ls ih => simp [msum_append, ih]

/-- the sum of `f` over a list of lists, taken list by list, is the sum over the flattening -/
theorem msum_map_flatten {β : Type} (f : β → N) (ls : List (List β)) :
    msum (ls.map fun l => msum (l.map f)) = msum (ls.flatten.map f) := by
  induction ls with
  | nil => rfl
  | cons l ls ih => simp [msum_append, ih]

end MV.CsgBatch
