import MV.Proof.CsgBatchMon
/-
`MeshCompare` is a strict total order on `(NumVert, serial)`; `popMax` returns the greatest
entry; `BatchBoolean` terminates and its result sums its operands in any commutative monoid.
Core Lean only.
-/
set_option autoImplicit false
namespace MV.CsgBatch
open CMon

variable {α : Type}

/-! ## `keyLt` is a strict total order -/

theorem keyLt_irrefl (a : Nat × Nat) : keyLt a a = false := by
  simp [keyLt]

theorem keyLt_asymm {a b : Nat × Nat} (h : keyLt a b = true) : keyLt b a = false := by
  obtain ⟨a1, a2⟩ := a
  obtain ⟨b1, b2⟩ := b
  simp only [keyLt, bne_iff_ne, ne_eq] at h ⊢
  split at h <;> split <;> simp_all <;> omega

theorem keyLt_trans {a b c : Nat × Nat} (h1 : keyLt a b = true) (h2 : keyLt b c = true) :
    keyLt a c = true := by
  obtain ⟨a1, a2⟩ := a
  obtain ⟨b1, b2⟩ := b
  obtain ⟨c1, c2⟩ := c
  simp only [keyLt, bne_iff_ne, ne_eq] at h1 h2 ⊢
  split at h1 <;> split at h2 <;> split <;> simp_all <;> omega

theorem keyLt_total {a b : Nat × Nat} (h : a ≠ b) : keyLt a b = true ∨ keyLt b a = true := by
  obtain ⟨a1, a2⟩ := a
  obtain ⟨b1, b2⟩ := b
  simp only [keyLt, bne_iff_ne, ne_eq]
  by_cases h1 : a1 = b1
  · subst h1
    have : a2 ≠ b2 := fun h2 => h (by rw [h2])
    simp
    omega
  · have h1' : ¬ b1 = a1 := fun e => h1 e.symm
    simp [h1, h1']
    omega

/-- negative transitivity: `¬ a < b → ¬ b < c → ¬ a < c` -/
theorem keyLt_ntrans {a b c : Nat × Nat} (h1 : keyLt a b = false) (h2 : keyLt b c = false) :
    keyLt a c = false := by
  by_cases hab : a = b
  · subst hab; exact h2
  by_cases hbc : b = c
  · subst hbc; exact h1
  have h3 : keyLt b a = true := by
    rcases keyLt_total hab with h | h
    · rw [h1] at h; cases h
    · exact h
  have h4 : keyLt c b = true := by
    rcases keyLt_total hbc with h | h
    · rw [h2] at h; cases h
    · exact h
  exact keyLt_asymm (keyLt_trans h4 h3)

/-! ## popMax -/

section Pop
variable (lt : Entry α → Entry α → Bool)

theorem popMax_eq_none {l : List (Entry α)} : popMax lt l = none ↔ l = [] := by
  cases l with
  | nil => simp [popMax]
  | cons e es =>
    simp only [popMax, reduceCtorEq, iff_false]
    cases popMax lt es with
    | none => simp
    | some p => obtain ⟨m, rest⟩ := p; simp only; split <;> simp

/-- the popped entry and the remaining entries are a rearrangement of the heap -/
theorem popMax_perm {l : List (Entry α)} {m : Entry α} {r : List (Entry α)}
    (h : popMax lt l = some (m, r)) : l.Perm (m :: r) := by
  induction l generalizing m r with
  | nil => simp [popMax] at h
  | cons e es ih =>
    simp only [popMax] at h
    cases hp : popMax lt es with
    | none =>
      rw [hp] at h
      simp only [Option.some.injEq, Prod.mk.injEq] at h
      obtain ⟨rfl, rfl⟩ := h
      rw [(popMax_eq_none lt).1 hp]
    | some p =>
      obtain ⟨m', rest⟩ := p
      rw [hp] at h
      simp only at h
      have ih' := ih hp
      split at h
      · simp only [Option.some.injEq, Prod.mk.injEq] at h
        obtain ⟨rfl, rfl⟩ := h
        exact List.Perm.cons _ ih'
      · simp only [Option.some.injEq, Prod.mk.injEq] at h
        obtain ⟨rfl, rfl⟩ := h
        exact (List.Perm.cons _ ih').trans (List.Perm.swap _ _ _)

theorem popMax_length {l : List (Entry α)} {m : Entry α} {r : List (Entry α)}
    (h : popMax lt l = some (m, r)) : l.length = r.length + 1 := by
  simpa using (popMax_perm lt h).length_eq

theorem popMax_isSome {l : List (Entry α)} (h : l ≠ []) : ∃ m r, popMax lt l = some (m, r) := by
  cases hp : popMax lt l with
  | none => exact absurd ((popMax_eq_none lt).1 hp) h
  | some p => exact ⟨p.1, p.2, rfl⟩

end Pop

/-- **the popped entry is the greatest**: no remaining entry compares above it under
`MeshCompare`, for every size oracle -/
theorem popMax_max (orc : Orc α) {l : List (Entry α)} {m : Entry α} {r : List (Entry α)}
    (h : popMax (meshCompare orc) l = some (m, r)) : ∀ e ∈ r, meshCompare orc m e = false := by
  induction l generalizing m r with
  | nil => simp [popMax] at h
  | cons e es ih =>
    simp only [popMax] at h
    cases hp : popMax (meshCompare orc) es with
    | none =>
      rw [hp] at h
      simp only [Option.some.injEq, Prod.mk.injEq] at h
      obtain ⟨rfl, rfl⟩ := h
      simp
    | some p =>
      obtain ⟨m', rest⟩ := p
      rw [hp] at h
      simp only at h
      have ih' := ih hp
      split at h
      · rename_i hlt
        simp only [Option.some.injEq, Prod.mk.injEq] at h
        obtain ⟨rfl, rfl⟩ := h
        intro x hx
        rcases List.mem_cons.1 hx with rfl | hx
        · exact keyLt_asymm hlt
        · -- x ≤ m' < e
          cases hx' : meshCompare orc e x with
          | false => rfl
          | true =>
            have := keyLt_trans hlt hx'
            have h2 := ih' x hx
            simp only [meshCompare] at h2 this
            rw [h2] at this; cases this
      · rename_i hlt
        simp only [Option.some.injEq, Prod.mk.injEq] at h
        obtain ⟨rfl, rfl⟩ := h
        intro x hx
        rcases List.mem_cons.1 hx with rfl | hx
        · simpa using hlt
        · exact ih' x hx

/-! ## the loop of BatchBoolean: lengths -/

section Loop
variable (ops : Ops α) (orc : Orc α)

/-- number of entries alive -/
def HeapSt.total (σ : HeapSt α) : Nat := σ.heap.length + σ.tmp.length

theorem popPairs_total (k : Nat) (σ : HeapSt α) :
    (popPairs ops orc k σ).total ≤ σ.total ∧
    (1 ≤ σ.total → 1 ≤ (popPairs ops orc k σ).total) ∧
    (1 ≤ k → 1 < σ.heap.length → (popPairs ops orc k σ).total < σ.total) := by
  induction k generalizing σ with
  | zero => simp [popPairs]
  | succ k ih =>
    simp only [popPairs]
    split
    · rename_i hlen
      obtain ⟨a, h1, hp1⟩ := popMax_isSome (meshCompare orc) (l := σ.heap)
        (by intro h; rw [h] at hlen; simp at hlen)
      have l1 := popMax_length _ hp1
      obtain ⟨b, h2, hp2⟩ := popMax_isSome (meshCompare orc) (l := h1)
        (by intro h; rw [h] at l1; simp at l1; omega)
      have l2 := popMax_length _ hp2
      simp only [hp1, hp2]
      have := ih { heap := h2, tmp := σ.tmp ++ [(⟨σ.next, ops.bool a.1.val b.1.val⟩, σ.nextSerial)],
                   next := σ.next + 1, nextSerial := σ.nextSerial + 1,
                   evs := σ.evs ++ [.pop a.1.id a.2 b.1.id b.2] }
      simp only [HeapSt.total, List.length_append, List.length_cons, List.length_nil] at this ⊢
      refine ⟨by omega, fun _ => ?_, fun _ _ => by omega⟩
      exact this.2.1 (by omega)
    · rename_i hlen
      exact ⟨Nat.le_refl _, fun h => h, fun _ h => absurd h hlen⟩

theorem pushTmp_heap_length (σ : HeapSt α) : (pushTmp σ).heap.length = σ.total := by
  simp [pushTmp, HeapSt.total]

theorem pushTmp_tmp (σ : HeapSt α) : (pushTmp σ).tmp = [] := rfl

/-- with `grp ≥ 1` and fuel ≥ the heap size the loop ends with exactly one entry (if it started
with at least one and an empty `tmp`) -/
theorem heapLoop_length (grp : Nat) (hg : 1 ≤ grp) (f : Nat) (σ : HeapSt α)
    (ht : σ.tmp = []) (hf : σ.heap.length ≤ f) (h1 : 1 ≤ σ.heap.length) :
    (heapLoop ops orc grp f σ).heap.length = 1 := by
  induction f generalizing σ with
  | zero => omega
  | succ f ih =>
    simp only [heapLoop]
    split
    · rename_i hlen
      have hp := popPairs_total ops orc grp σ
      have htot : σ.total = σ.heap.length := by simp [HeapSt.total, ht]
      apply ih
      · rfl
      · rw [pushTmp_heap_length]
        have := hp.2.2 hg hlen
        omega
      · rw [pushTmp_heap_length]
        exact hp.2.1 (by omega)
    · omega

/-- more fuel changes nothing -/
theorem heapLoop_fuel (grp : Nat) (hg : 1 ≤ grp) (f g : Nat) (σ : HeapSt α)
    (ht : σ.tmp = []) (hf : σ.heap.length ≤ f) (hfg : f ≤ g) :
    heapLoop ops orc grp g σ = heapLoop ops orc grp f σ := by
  induction f generalizing σ g with
  | zero =>
    have : σ.heap.length = 0 := by omega
    cases g with
    | zero => rfl
    | succ g => simp [heapLoop, this]
  | succ f ih =>
    cases g with
    | zero => omega
    | succ g =>
      simp only [heapLoop]
      split
      · rename_i hlen
        have hp := popPairs_total ops orc grp σ
        have htot : σ.total = σ.heap.length := by simp [HeapSt.total, ht]
        apply ih
        · rfl
        · rw [pushTmp_heap_length]
          have := hp.2.2 hg hlen
          omega
        · omega
      · rfl

end Loop

/-! ## the loop of BatchBoolean: values -/

section Val
variable {N : Type} [CMon N] (ops : Ops α) (orc : Orc α) (μ : α → N)

/-- the sum of the values of a list of heap entries -/
def hsum (h : List (Entry α)) : N := msum (h.map fun e => μ e.1.val)

theorem hsum_perm {a b : List (Entry α)} (h : a.Perm b) : hsum μ a = hsum μ b :=
  msum_perm (h.map _)

theorem hsum_append (a b : List (Entry α)) : hsum μ (a ++ b) = add (hsum μ a) (hsum μ b) := by
  simp [hsum, msum_append]

theorem hsum_cons (e : Entry α) (b : List (Entry α)) :
    hsum μ (e :: b) = add (μ e.1.val) (hsum μ b) := rfl

variable (hb : ∀ a b, μ (ops.bool a b) = add (μ a) (μ b))
include hb

theorem popPairs_hsum (k : Nat) (σ : HeapSt α) :
    hsum μ ((popPairs ops orc k σ).heap ++ (popPairs ops orc k σ).tmp) =
      hsum μ (σ.heap ++ σ.tmp) := by
  induction k generalizing σ with
  | zero => rfl
  | succ k ih =>
    simp only [popPairs]
    split
    · cases hp1 : popMax (meshCompare orc) σ.heap with
      | none => rfl
      | some p1 =>
        obtain ⟨a, h1⟩ := p1
        simp only
        cases hp2 : popMax (meshCompare orc) h1 with
        | none => rfl
        | some p2 =>
          obtain ⟨b, h2⟩ := p2
          simp only
          rw [ih]
          simp only
          have e1 := hsum_perm μ (popMax_perm _ hp1)
          have e2 := hsum_perm μ (popMax_perm _ hp2)
          simp only [hsum_append, hsum_cons] at e1 e2 ⊢
          rw [e1, e2, hb]
          simp only [hsum, List.map_nil, msum_nil, add_zero]
          ac_rfl
    · rfl

theorem heapLoop_hsum (grp f : Nat) (σ : HeapSt α) (ht : σ.tmp = []) :
    hsum μ (heapLoop ops orc grp f σ).heap = hsum μ σ.heap ∧
    (heapLoop ops orc grp f σ).tmp = [] := by
  induction f generalizing σ with
  | zero => exact ⟨rfl, ht⟩
  | succ f ih =>
    simp only [heapLoop]
    split
    · have := ih (pushTmp (popPairs ops orc grp σ)) rfl
      rw [this.1]
      refine ⟨?_, this.2⟩
      have h2 := popPairs_hsum ops orc μ hb grp σ
      simp only [pushTmp]
      rw [h2, ht, List.append_nil]
    · exact ⟨rfl, ht⟩

end Val

theorem withSerials_map_fst (l : List (BLeaf α)) (i : Nat) :
    (withSerials l i).map (·.1) = l := by
  induction l generalizing i with
  | nil => rfl
  | cons x xs ih => simp [withSerials, ih]

theorem withSerials_length (l : List (BLeaf α)) (i : Nat) :
    (withSerials l i).length = l.length := by
  rw [← List.length_map (f := (·.1)), withSerials_map_fst]

section Main
variable {N : Type} [CMon N] (ops : Ops α) (orc : Orc α) (μ : α → N)

/-- **BatchBoolean terminates and sums its operands**: for every size oracle, every group
width `grp ≥ 1` and every valuation `μ` into a commutative monoid under which `SimpleBoolean`
adds and the empty mesh is zero, the call returns a leaf whose value is the sum of the
operands' values (`he` is needed for an empty operand list only). -/
theorem batchBoolean_msum (grp : Nat) (hg : 1 ≤ grp)
    (hb : ∀ a b, μ (ops.bool a b) = add (μ a) (μ b))
    (results : List (BLeaf α)) (he : results = [] → μ ops.empty = zero) (next : Nat) :
    ∃ r, (batchBoolean ops orc grp results next).ret = some r ∧
      μ r.val = msum (results.map fun x => μ x.val) := by
  match results, he with
  | [], he => exact ⟨_, rfl, by simp [he rfl]⟩
  | [a], _ => exact ⟨_, rfl, by simp [add_zero]⟩
  | [a, b], _ => exact ⟨_, rfl, by simp [hb, add_zero]⟩
  | a :: b :: c :: rest, _ =>
    simp only [batchBoolean]
    have hlen := heapLoop_length ops orc grp hg (a :: b :: c :: rest).length
      { heap := withSerials (a :: b :: c :: rest) 0, next := next,
        nextSerial := (a :: b :: c :: rest).length,
        evs := [.start ((a :: b :: c :: rest).map (·.id))] } rfl
      (by simp [withSerials_length]) (by simp [withSerials_length])
    have hs := (heapLoop_hsum ops orc μ hb grp (a :: b :: c :: rest).length
      { heap := withSerials (a :: b :: c :: rest) 0, next := next,
        nextSerial := (a :: b :: c :: rest).length,
        evs := [.start ((a :: b :: c :: rest).map (·.id))] } rfl).1
    generalize heapLoop ops orc grp _ _ = σ at hlen hs
    match hh : σ.heap, hlen with
    | [e], _ =>
      refine ⟨e.1, rfl, ?_⟩
      rw [hh] at hs
      simp only [hsum, List.map_cons, List.map_nil, msum_cons, msum_nil, add_zero] at hs
      rw [hs]
      have := withSerials_map_fst (a :: b :: c :: rest) 0
      conv => rhs; rw [← this]
      rw [List.map_map]
      rfl

end Main
end MV.CsgBatch
