/-
Lemmas for the assembly model, part 1: the flood fill of `Winding03_` and the start/end balance
of the vectors handed to `PairUp`.
-/
import MV.Model.BoolAssembly
import MV.Proof.DsuSeq

namespace MV.BoolAsm
open MV.Bool3 MV.Dsu

/-! ## flood fill -/

theorem getD_set_int (l : List Int) (i j : Nat) (a : Int) :
    (l.set i a).getD j 0 = if i = j ∧ i < l.length then a else l.getD j 0 := by
  simp only [List.getD_eq_getElem?_getD, List.getElem?_set]
  by_cases h : i = j
  · subst h
    by_cases h2 : i < l.length
    · simp [h2]
    · simp [h2]
  · simp [h]

theorem floodStep_length (root : Nat → Nat) (w : List Int) (i : Nat) :
    (floodStep root w i).length = w.length := by
  unfold floodStep; split <;> simp

theorem flood_length (root : Nat → Nat) (ord : List Nat) (w : List Int) :
    (flood root w ord).length = w.length := by
  induction ord generalizing w with
  | nil => rfl
  | cons i ord ih => simp only [flood, List.foldl_cons] at ih ⊢; rw [ih, floodStep_length]

/-- the invariant of the flood fill: every entry is still its seed or already the seed of its
root, and root entries are never changed -/
def FloodInv (root : Nat → Nat) (w0 w : List Int) : Prop :=
  w.length = w0.length ∧
  ∀ j, w.getD j 0 = w0.getD j 0 ∨ w.getD j 0 = w0.getD (root j) 0

theorem floodInv_root {root : Nat → Nat} {w0 w : List Int} (h : FloodInv root w0 w)
    (hr : ∀ i, root (root i) = root i) (i : Nat) : w.getD (root i) 0 = w0.getD (root i) 0 := by
  rcases h.2 (root i) with h1 | h1
  · exact h1
  · rw [h1, hr]

theorem floodStep_inv {root : Nat → Nat} {w0 w : List Int} (hr : ∀ i, root (root i) = root i)
    (h : FloodInv root w0 w) (k : Nat) : FloodInv root w0 (floodStep root w k) := by
  unfold floodStep
  split
  · exact h
  · refine ⟨by simp [h.1], fun j => ?_⟩
    rw [getD_set_int]
    split
    · rename_i hk; obtain ⟨rfl, _⟩ := hk
      exact .inr (floodInv_root h hr k)
    · exact h.2 j

theorem floodStep_done {root : Nat → Nat} {w0 w : List Int} (hr : ∀ i, root (root i) = root i)
    (h : FloodInv root w0 w) (k i : Nat) (hi : w.getD i 0 = w0.getD (root i) 0) :
    (floodStep root w k).getD i 0 = w0.getD (root i) 0 := by
  unfold floodStep
  split
  · exact hi
  · rw [getD_set_int]
    split
    · rename_i hk; obtain ⟨rfl, _⟩ := hk
      exact floodInv_root h hr k
    · exact hi

theorem floodStep_self {root : Nat → Nat} {w0 w : List Int} (hr : ∀ i, root (root i) = root i)
    (h : FloodInv root w0 w) (i : Nat) (hi : i < w.length) :
    (floodStep root w i).getD i 0 = w0.getD (root i) 0 := by
  unfold floodStep
  split
  · rename_i e
    have := floodInv_root h hr i
    rw [e] at this; rw [this, e]
  · rw [getD_set_int]; simp [hi]; exact floodInv_root h hr i

theorem flood_spec {root : Nat → Nat} {w0 : List Int} (hr : ∀ i, root (root i) = root i)
    (ord : List Nat) : ∀ (w : List Int), FloodInv root w0 w →
    FloodInv root w0 (flood root w ord) ∧
    (∀ i, w.getD i 0 = w0.getD (root i) 0 → (flood root w ord).getD i 0 = w0.getD (root i) 0) ∧
    (∀ i, i ∈ ord → i < w0.length → (flood root w ord).getD i 0 = w0.getD (root i) 0) := by
  induction ord with
  | nil => intro w h; exact ⟨h, fun _ hi => hi, fun _ hi => by cases hi⟩
  | cons k ord ih =>
    intro w h
    have h' := floodStep_inv hr h k
    obtain ⟨a, b, c⟩ := ih (floodStep root w k) h'
    simp only [flood, List.foldl_cons] at a b c ⊢
    refine ⟨a, fun i hi => b i (floodStep_done hr h k i hi), fun i hi hlt => ?_⟩
    rcases List.mem_cons.1 hi with rfl | hi
    · exact b i (floodStep_self hr h i (h.1 ▸ hlt))
    · exact c i hi hlt

/-- **flood fill, any traversal order.**  If `root` is idempotent and every vertex is visited at
least once (in any order, repeats allowed), every vertex ends with the seed of its root. -/
theorem flood_any_order {root : Nat → Nat} (hr : ∀ i, root (root i) = root i) (w0 : List Int)
    (ord : List Nat) (hall : ∀ i, i < w0.length → i ∈ ord) (i : Nat) (hi : i < w0.length) :
    (flood root w0 ord).getD i 0 = w0.getD (root i) 0 :=
  (flood_spec hr ord w0 ⟨rfl, fun _ => .inl rfl⟩).2.2 i (hall i hi) hi

/-! ## `rootsOk` makes `rootOf` a system of representatives of `Conn edges` -/

structure RootsSpec (n : Nat) (edges : List (Nat × Nat)) (rootOf : List Nat) : Prop where
  len : rootOf.length = n
  lt : ∀ i, i < n → rootOf.getD i 0 < n
  conn : ∀ i, i < n → Conn edges i (rootOf.getD i 0)
  idem : ∀ i, i < n → rootOf.getD (rootOf.getD i 0) 0 = rootOf.getD i 0
  same : ∀ i j, i < n → j < n → Conn edges i j → rootOf.getD i 0 = rootOf.getD j 0

theorem rootsOk_spec {n : Nat} {edges : List (Nat × Nat)} {rootOf : List Nat}
    (hb : ∀ p, p ∈ edges → p.1 < n ∧ p.2 < n) (h : rootsOk n edges rootOf = true) :
    RootsSpec n edges rootOf := by
  unfold rootsOk at h
  simp only [Bool.and_eq_true, beq_iff_eq, List.all_eq_true, List.mem_range, decide_eq_true_eq] at h
  obtain ⟨hlen, hall⟩ := h
  have hs := (seqPartition_spec n edges hb).2
  have hl := fun i (hi : i < n) => seqPartition_least n edges hb hi
  refine ⟨hlen, fun i hi => (hall i hi).1.1.1, fun i hi => ?_, fun i hi => (hall i hi).1.2, ?_⟩
  · obtain ⟨⟨⟨h1, h2⟩, _⟩, _⟩ := hall i hi
    exact ((hs _ _ h1 hi).1 h2).symm
  · intro i j hi hj hc
    have e : (seqPartition n edges).getD i 0 = (seqPartition n edges).getD j 0 := (hs i j hi hj).2 hc
    rw [← (hall i hi).2, ← (hall j hj).2, e]

/-- a function constant along every edge is constant on `Conn` classes -/
theorem conn_const {edges : List (Nat × Nat)} {α : Type} (tw : Nat → α)
    (he : ∀ p, p ∈ edges → tw p.1 = tw p.2) {a b : Nat} (c : Conn edges a b) : tw a = tw b := by
  induction c with
  | base h => exact he _ h
  | refl => rfl
  | symm _ ih => exact ih.symm
  | trans _ _ ih1 ih2 => exact ih1.trans ih2

/-! ## start/end balance -/

/-- `#starts − #ends` of a vector -/
def signed (es : List EdgePos) : Int :=
  (es.countP (·.isStart) : Int) - (es.countP (fun e => !e.isStart) : Int)

theorem signed_append (a b : List EdgePos) : signed (a ++ b) = signed a + signed b := by
  unfold signed; simp only [List.countP_append]; omega

theorem signed_perm {a b : List EdgePos} (h : a.Perm b) : signed a = signed b := by
  unfold signed; rw [h.countP_eq, h.countP_eq]

theorem countP_map_const {α : Type} (l : List α) (f : α → EdgePos) (p : EdgePos → Bool) (b : Bool)
    (h : ∀ x, p (f x) = b) : (l.map f).countP p = if b then l.length else 0 := by
  induction l with
  | nil => cases b <;> rfl
  | cons x xs ih =>
    simp only [List.map_cons, List.countP_cons, ih, h x, List.length_cons]
    cases b <;> simp

theorem signed_vertEntries (v : Nat) (i : Int) (b : Bool) :
    signed (vertEntries v i b) = if b then (i.natAbs : Int) else -(i.natAbs : Int) := by
  unfold signed vertEntries
  rw [countP_map_const _ _ _ b (fun _ => rfl), countP_map_const _ _ _ (!b) (fun _ => rfl)]
  cases b <;> simp

theorem signed_collEntries (c : Coll) (b : Bool) :
    signed (collEntries c b) = if b then (c.incl.natAbs : Int) else -(c.incl.natAbs : Int) := by
  unfold signed collEntries
  rw [countP_map_const _ _ _ b (fun _ => rfl), countP_map_const _ _ _ (!b) (fun _ => rfl)]
  cases b <;> simp

/-- the crossings `AddNewEdgeVerts` pushes onto the vector of ONE edge (l.232-235: first tuple) -/
def crossingEntries (cs : List Coll) : List EdgePos :=
  cs.flatMap fun c => collEntries c (decide (c.incl < 0))

theorem signed_crossingEntries (cs : List Coll) :
    signed (crossingEntries cs) = -(cs.map (·.incl)).sum := by
  induction cs with
  | nil => rfl
  | cons c cs ih =>
    simp only [crossingEntries, List.flatMap_cons, List.map_cons, List.sum_cons] at ih ⊢
    rw [signed_append, ih, signed_collEntries]
    by_cases h : c.incl < 0 <;> simp [h] <;> omega

theorem signed_partialEntries (crossings : List EdgePos) (vS vE : Nat) (iS iE : Int) :
    signed (partialEntries crossings vS vE iS iE) = signed crossings + iS - iE := by
  unfold partialEntries
  rw [signed_append, signed_append, signed_perm (show (stableSort crossings).Perm crossings from List.mergeSort_perm _ _),
    signed_vertEntries, signed_vertEntries]
  by_cases h1 : iS > 0 <;> by_cases h2 : iE < 0 <;> simp [h1, h2] <;> omega

theorem partialEntries_length (crossings : List EdgePos) (vS vE : Nat) (iS iE : Int) :
    (partialEntries crossings vS vE iS iE).length = crossings.length + iS.natAbs + iE.natAbs := by
  unfold partialEntries vertEntries
  have : (stableSort crossings).length = crossings.length := (List.mergeSort_perm _ _).length_eq
  simp [this]; omega

theorem length_even_of_signed_zero (es : List EdgePos) (h : signed es = 0) :
    pairUpPre es = true := by
  unfold signed at h
  unfold pairUpPre
  have hl : es.length = es.countP (·.isStart) + es.countP (fun e => !e.isStart) := by
    have := List.length_eq_countP_add_countP (fun e : EdgePos => e.isStart) (l := es)
    simpa using this
  simp only [Bool.and_eq_true, beq_iff_eq]
  omega

theorem withKeys_isStart (es : List EdgePos) (keys : List Int) (h : keys.length = es.length) :
    (withKeys es keys).map (·.isStart) = es.map (·.isStart) ∧
    (withKeys es keys).map (·.vert) = es.map (·.vert) := by
  induction es generalizing keys with
  | nil => simp [withKeys]
  | cons e es ih =>
    cases keys with
    | nil => simp at h
    | cons k ks =>
      have := ih ks (by simpa using h)
      simp only [withKeys, List.zipWith_cons_cons, List.map_cons] at this ⊢
      exact ⟨by rw [this.1], by rw [this.2]⟩

theorem countP_of_map_isStart {a b : List EdgePos} (h : a.map (·.isStart) = b.map (·.isStart)) :
    a.countP (·.isStart) = b.countP (·.isStart) ∧ a.length = b.length := by
  have h1 : a.countP (·.isStart) = (a.map (·.isStart)).countP id := by
    rw [List.countP_map]; rfl
  have h2 : b.countP (·.isStart) = (b.map (·.isStart)).countP id := by
    rw [List.countP_map]; rfl
  refine ⟨by rw [h1, h2, h], ?_⟩
  have := congrArg List.length h
  simpa using this

theorem pairUpPre_withKeys (es : List EdgePos) (keys : List Int) (h : keys.length = es.length) :
    pairUpPre (withKeys es keys) = pairUpPre es := by
  obtain ⟨a, b⟩ := countP_of_map_isStart (withKeys_isStart es keys h).1
  unfold pairUpPre; rw [a, b]

/-- keeping along an edge: `keepP op (w − Σ xs) = keepP op w − Σ keepNew op x` — iterated
`keepNew_is_jump` (MV/Props/C02.lean), stated for any affine keeping rule `c + c3·w` -/
theorem keep_along (c c3 w : Int) (xs : List Int) :
    c + c3 * (w - xs.sum) = (c + c3 * w) - (xs.map fun x => c3 * x).sum := by
  induction xs generalizing w with
  | nil => simp
  | cons x xs ih =>
    simp only [List.sum_cons, List.map_cons]
    have := ih (w - x)
    have e : w - (x + xs.sum) = w - x - xs.sum := by omega
    rw [e, this, Int.mul_sub]; omega

end MV.BoolAsm
