/-
Specification vocabulary for synchronisation traces (property C06): happens-before, conflict,
data race.  `MV.Sync.Ev`, the monitors and their state live in `MV/Model/Sync.lean`.
-/
import MV.Model.Sync

namespace MV.Sync

/-- the variable a plain access touches and whether it writes -/
def Ev.access : Ev → Option (Nat × Bool)
  | .rd _ x _ => some (x, false)
  | .wr _ x _ => some (x, true)
  | _ => none

/-- Happens-before between positions of a trace: program order, release → later acquire of the
same lock (or token: thread start / join), closed under transitivity.  Atomics contribute
nothing (a sound under-approximation of the C++ relation: fewer edges, more races). -/
inductive HB (tr : List Ev) : Nat → Nat → Prop
  | po {i j : Nat} {a b : Ev} (hij : i < j) (hi : tr[i]? = some a) (hj : tr[j]? = some b)
      (ht : a.tid = b.tid) : HB tr i j
  | sync {i j t u l m : Nat} (hij : i < j) (hi : tr[i]? = some (.rel t l))
      (hj : tr[j]? = some (.acq u l m)) : HB tr i j
  | trans {i j k : Nat} : HB tr i j → HB tr j k → HB tr i k

/-- two accesses of different threads to the same variable, at least one a write -/
def Conflict (a b : Ev) : Prop :=
  a.tid ≠ b.tid ∧ ∃ x wa wb, a.access = some (x, wa) ∧ b.access = some (x, wb) ∧ (wa = true ∨ wb = true)

/-- No data race: every two conflicting accesses are ordered by happens-before. -/
def RaceFree (tr : List Ev) : Prop :=
  ∀ i j a b, i < j → tr[i]? = some a → tr[j]? = some b → Conflict a b → HB tr i j

theorem HB.lt {tr : List Ev} {i j : Nat} (h : HB tr i j) : i < j := by
  induction h with
  | po hij _ _ _ => exact hij
  | sync hij _ _ => exact hij
  | trans _ _ ih1 ih2 => exact Nat.lt_trans ih1 ih2

end MV.Sync
