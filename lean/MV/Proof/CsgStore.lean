import MV.Proof.CsgAlg
/-
Well-formed stores, denotation and cost equations, store extension.
-/
set_option autoImplicit false
namespace MV.Csg
open SolidAlg XfAct

variable {M S : Type}

/-- structural well-formedness (Prop form of `Store.wf`) -/
structure WFs (s : Store M) : Prop where
  impl_lt : ∀ {n i : Nat} {o : Op} {m : M} {c : Option Nat},
    s.nodes[n]? = some (Node.op i o m c) → i < s.impls.length
  child : ∀ {j : Nat} {ch : List Nat}, s.impls[j]? = some ch → ∀ c ∈ ch,
    (∃ l, s.nodes[c]? = some (Node.leaf l)) ∨
    (∃ i o m k, s.nodes[c]? = some (Node.op i o m k) ∧ i < j)
  shape : ∀ {j : Nat} {ch : List Nat}, s.impls[j]? = some ch →
    2 ≤ ch.length ∨ ∃ c l, ch = [c] ∧ s.nodes[c]? = some (Node.leaf l)
  op_same : ∀ {n n' i : Nat} {o o' : Op} {m m' : M} {c c' : Option Nat},
    s.nodes[n]? = some (Node.op i o m c) → s.nodes[n']? = some (Node.op i o' m' c') → o = o'
  cache : ∀ {n i : Nat} {o : Op} {m : M} {c : Nat},
    s.nodes[n]? = some (Node.op i o m (some c)) →
    (∃ l, s.nodes[c]? = some (Node.leaf l)) ∧
    ∃ c' l', s.impls[i]? = some [c'] ∧ s.nodes[c']? = some (Node.leaf l')

/-- `rank` bounds the fuel needed by `denoteF`/`costF` -/
def rank (s : Store M) (n : Nat) : Nat :=
  match s.nodes[n]? with
  | some (Node.op i _ _ _) => i + 1
  | _ => 0

theorem rank_leaf {s : Store M} {n : Nat} {l : Leaf M} (h : s.nodes[n]? = some (Node.leaf l)) : rank s n = 0 := by
  simp [rank, h]

theorem rank_op {s : Store M} {n i : Nat} {o : Op} {m : M} {c : Option Nat} (h : s.nodes[n]? = some (Node.op i o m c)) :
    rank s n = i + 1 := by simp [rank, h]

theorem getD_of_getElem? {α : Type} {l : List α} {i : Nat} {x d : α} (h : l[i]? = some x) :
    l.getD i d = x := by simp [List.getD, h]

theorem getElem?_of_lt_getD {α : Type} {l : List α} {i : Nat} (d : α) (h : i < l.length) :
    l[i]? = some (l.getD i d) := by simp [List.getD, h]

theorem WFs.rank_child {s : Store M} (h : WFs s) {j : Nat} {ch : List Nat} (hj : s.impls[j]? = some ch) {c : Nat}
    (hc : c ∈ ch) : rank s c ≤ j := by
  rcases h.child hj c hc with ⟨l, hl⟩ | ⟨i, o, m, k, hn, hlt⟩
  · simp [rank_leaf hl]
  · rw [rank_op hn]; omega

theorem WFs.impl_get {s : Store M} (h : WFs s) {n i : Nat} {o : Op} {m : M} {c : Option Nat}
    (hn : s.nodes[n]? = some (Node.op i o m c)) : s.impls[i]? = some (s.impls.getD i []) :=
  getElem?_of_lt_getD _ (h.impl_lt hn)

section Den
variable [One M] [Mul M] [SolidAlg S] [XfAct M S]

theorem denoteF_stable (L : Val S) {s : Store M} (h : WFs s) :
    ∀ f f' n, rank s n < f → rank s n < f' → denoteF L s f n = denoteF L s f' n := by
  intro f
  induction f with
  | zero => intro f' n h1; omega
  | succ f ih =>
    intro f' n h1 h2
    cases f' with
    | zero => omega
    | succ f' =>
      simp only [denoteF]
      cases hn : s.nodes[n]? with
      | none => rfl
      | some nd =>
        cases nd with
        | leaf l => rfl
        | op i o m c =>
          simp only
          rw [rank_op hn] at h1 h2
          have hi := h.impl_get hn
          congr 2
          apply List.map_congr_left
          intro c hc
          have := h.rank_child hi hc
          exact ih f' c (by omega) (by omega)

theorem denote_leaf (L : Val S) {s : Store M} {n : Nat} {l : Leaf M} (h : s.nodes[n]? = some (Node.leaf l)) :
    denote L s n = L.leaf l := by simp [denote, denoteF, h]

theorem denote_none (L : Val S) {s : Store M} {n : Nat} (h : s.nodes[n]? = none) :
    denote L s n = empty := by simp [denote, denoteF, h]

theorem denote_op (L : Val S) {s : Store M} (h : WFs s) {n i : Nat} {o : Op} {m : M} {c : Option Nat}
    (hn : s.nodes[n]? = some (Node.op i o m c)) :
    denote L s n = act m (opSem o ((s.impls.getD i []).map (denote L s))) := by
  simp only [denote, denoteF, hn]
  congr 2
  apply List.map_congr_left
  intro c hc
  have := h.rank_child (h.impl_get hn) hc
  have := h.impl_lt hn
  exact denoteF_stable L h _ _ c (by omega) (by omega)

end Den

/-! ### cost -/

theorem costF_stable {s : Store M} (h : WFs s) :
    ∀ f f' n, rank s n < f → rank s n < f' → costF s f n = costF s f' n := by
  intro f
  induction f with
  | zero => intro f' n h1; omega
  | succ f ih =>
    intro f' n h1 h2
    cases f' with
    | zero => omega
    | succ f' =>
      simp only [costF]
      cases hn : s.nodes[n]? with
      | none => rfl
      | some nd =>
        cases nd with
        | leaf l => rfl
        | op i o m c =>
          simp only
          rw [rank_op hn] at h1 h2
          have hi := h.impl_get hn
          congr 2
          apply List.map_congr_left
          intro c hc
          have := h.rank_child hi hc
          exact ih f' c (by omega) (by omega)

theorem cost_leaf {s : Store M} {n : Nat} {l : Leaf M} (h : s.nodes[n]? = some (Node.leaf l)) : cost s n = 0 := by
  simp [cost, costF, h]

theorem cost_none {s : Store M} {n : Nat} (h : s.nodes[n]? = none) : cost s n = 0 := by
  simp [cost, costF, h]

theorem cost_op {s : Store M} (h : WFs s) {n i : Nat} {o : Op} {m : M} {c : Option Nat}
    (hn : s.nodes[n]? = some (Node.op i o m c)) :
    cost s n = 2 + ((s.impls.getD i []).map (cost s)).sum := by
  simp only [cost, costF, hn]
  congr 2
  apply List.map_congr_left
  intro c hc
  have := h.rank_child (h.impl_get hn) hc
  have := h.impl_lt hn
  exact costF_stable h _ _ c (by omega) (by omega)

end MV.Csg
