import Mathlib.Analysis.Convex.Combination
import Mathlib.Analysis.Convex.PathConnected
import Mathlib.Topology.Connected.Clopen
import Mathlib.Topology.MetricSpace.HausdorffDistance
import Mathlib.Analysis.Normed.Module.Basic
/-!
Set-level theory behind `Manifold::Impl::Minkowski` (/repo/src/minkowski.cpp) for property C16.
Everything is stated in an arbitrary real normed space `E` (the code lives in `ℝ³`), with the
pointwise operations of Mathlib (`A + B = {a + b}`, `c +ᵥ A = {c + a}`).

* `preconnected_meets_frontier`  a connected set that meets `A` and `Aᶜ` meets `frontier A`
* `minkowski_decomp_at`          `A` closed, `B` convex, `c ∈ B`  ⇒ `A + B = (c +ᵥ A) ∪ (frontier A + B)`
* `minkowski_decomp`             the case `c = 0` (DESIGN.md Appendix A.8)
* `minkowski_general`            `A`, `B` closed, `B` connected ⇒ `A + B = (frontier A + B) ∪ (A + frontier B)`
* `sweep_faces`                  `(⋃ faces) + B = (⋃ corner_i +ᵥ B) ∪ ((⋃ faces) + frontier B)` for convex faces
* `erosion`, `erosion_dual`, `diff_eq_erosion_interior` and the containment clauses
* `sum_contains`, `sum_within_reach`
* `facepair_formula_fails`       `A ∪ (frontier A + frontier B)` (what the pinned non-convex branch
                                 builds) is not `A + B` in general
-/

open Set Pointwise Metric
set_option linter.unusedSectionVars false

namespace MV.Minkowski

section Topology
variable {X : Type*} [TopologicalSpace X]

/-- a preconnected set that meets `A` and the complement of `A` meets the frontier of `A` -/
theorem preconnected_meets_frontier {S A : Set X}
    (hS : IsPreconnected S) (h1 : (S ∩ A).Nonempty) (h2 : (S ∩ Aᶜ).Nonempty) :
    (S ∩ frontier A).Nonempty := by
  by_contra hne
  rw [Set.not_nonempty_iff_eq_empty] at hne
  have hcov : S ⊆ interior A ∪ (closure A)ᶜ := by
    intro x hx
    by_cases hc : x ∈ closure A
    · left
      by_contra hi
      have : x ∈ S ∩ frontier A := ⟨hx, hc, hi⟩
      rw [hne] at this; exact this
    · right; exact hc
  have hdis : Disjoint (interior A) (closure A)ᶜ :=
    Set.disjoint_left.mpr fun x hx hx' => hx' (subset_closure (interior_subset hx))
  obtain ⟨a, haS, haA⟩ := h1
  have hai : a ∈ interior A := by
    rcases hcov haS with h | h
    · exact h
    · exact absurd (subset_closure haA) h
  have hsub : S ⊆ interior A :=
    hS.subset_left_of_subset_union isOpen_interior isClosed_closure.isOpen_compl hdis hcov ⟨a, haS, hai⟩
  obtain ⟨y, hyS, hyA⟩ := h2
  exact hyA (interior_subset (hsub hyS))

/-- a preconnected set that meets `A` but not `frontier A` lies in the interior of `A` -/
theorem preconnected_subset_interior {S A : Set X}
    (hS : IsPreconnected S) (h1 : (S ∩ A).Nonempty) (h2 : S ∩ frontier A = ∅) :
    S ⊆ interior A := by
  have hSA : S ⊆ A := by
    by_contra hno
    obtain ⟨y, hyS, hyA⟩ := Set.not_subset.mp hno
    have := preconnected_meets_frontier hS h1 ⟨y, hyS, hyA⟩
    rw [h2] at this; exact Set.not_nonempty_empty this
  intro x hx
  by_contra hi
  have : x ∈ S ∩ frontier A := ⟨hx, subset_closure (hSA hx), hi⟩
  rw [h2] at this; exact this

end Topology

variable {E : Type*} [NormedAddCommGroup E] [NormedSpace ℝ E]

/-- **Decomposition about a point of `B`.**  `A` closed, `B` convex, `c ∈ B`:
`A + B = (c +ᵥ A) ∪ (frontier A + B)`.  (A copy of `A` placed at any point of `B`, plus `B` swept
over the surface of `A`.) -/
theorem minkowski_decomp_at {A B : Set E} (hA : IsClosed A) (hB : Convex ℝ B) {c : E} (hc : c ∈ B) :
    A + B = (c +ᵥ A) ∪ (frontier A + B) := by
  apply Set.Subset.antisymm
  · rintro x ⟨a, ha, b, hb, rfl⟩
    by_cases hx : a + (b - c) ∈ A
    · left
      exact ⟨a + (b - c), hx, by simp only [vadd_eq_add]; abel⟩
    · right
      have hseg : IsPreconnected (segment ℝ a (a + (b - c))) :=
        (convex_segment a (a + (b - c))).isPreconnected
      obtain ⟨y, hyS, hyF⟩ := preconnected_meets_frontier hseg
        ⟨a, left_mem_segment ℝ a _, ha⟩ ⟨a + (b - c), right_mem_segment ℝ a _, hx⟩
      rw [segment_eq_image'] at hyS
      obtain ⟨t, ⟨ht0, ht1⟩, rfl⟩ := hyS
      refine ⟨_, hyF, (1 - t) • b + t • c, ?_, ?_⟩
      · exact hB hb hc (by linarith) ht0 (by ring)
      · simp only [add_sub_cancel_left, smul_sub, sub_smul, one_smul]; abel
  · rintro x (⟨a, ha, rfl⟩ | ⟨a, ha, b, hb, rfl⟩)
    · exact ⟨a, ha, c, hc, by simp only [vadd_eq_add]; abel⟩
    · exact ⟨a, hA.frontier_subset ha, b, hb, rfl⟩

/-- **Decomposition (DESIGN.md A.8).**  `A` closed, `B` convex, `0 ∈ B`:
`A + B = A ∪ (frontier A + B)`. -/
theorem minkowski_decomp {A B : Set E} (hA : IsClosed A) (hB : Convex ℝ B) (h0 : (0 : E) ∈ B) :
    A + B = A ∪ (frontier A + B) := by
  have := minkowski_decomp_at hA hB h0
  rwa [zero_vadd] at this

/-- **General decomposition.**  `A`, `B` closed, `B` connected with non-empty frontier (any bounded
non-empty solid): `A + B = (frontier A + B) ∪ (A + frontier B)`.  No convexity. -/
theorem minkowski_general {A B : Set E} (hA : IsClosed A) (hB : IsClosed B)
    (hBc : IsPreconnected B) (hBf : (frontier B).Nonempty) :
    A + B = (frontier A + B) ∪ (A + frontier B) := by
  apply Set.Subset.antisymm
  · rintro x ⟨a, ha, b, hb, rfl⟩
    set S : Set E := (fun b' => a + b - b') '' B with hS
    have hSc : IsPreconnected S := hBc.image _ (by fun_prop)
    have haS : a ∈ S := ⟨b, hb, by simp⟩
    by_cases hmeet : (S ∩ Aᶜ).Nonempty
    · left
      obtain ⟨y, ⟨b', hb', rfl⟩, hyF⟩ := preconnected_meets_frontier hSc ⟨a, haS, ha⟩ hmeet
      exact ⟨_, hyF, b', hb', by simp⟩
    · right
      obtain ⟨b₀, hb₀⟩ := hBf
      have hin : a + b - b₀ ∈ A := by
        by_contra hout
        exact hmeet ⟨_, ⟨b₀, hB.frontier_subset hb₀, rfl⟩, hout⟩
      exact ⟨_, hin, b₀, hb₀, by simp⟩
  · rintro x (⟨a, ha, b, hb, rfl⟩ | ⟨a, ha, b, hb, rfl⟩)
    · exact ⟨a, hA.frontier_subset ha, b, hb, rfl⟩
    · exact ⟨a, ha, b, hB.frontier_subset hb, rfl⟩

/-- **Sweeping `B` over a surface made of convex faces.**  Each face `F i` is convex and `v i` is
one of its points (a corner): the sweep of a closed `B` over `⋃ F i` is a copy of `B` at every
`v i` together with the sweep of the *surface* of `B`. -/
theorem sweep_faces {ι : Type*} {F : ι → Set E} {v : ι → E} {B : Set E} (hB : IsClosed B)
    (hF : ∀ i, Convex ℝ (F i)) (hv : ∀ i, v i ∈ F i) :
    (⋃ i, F i) + B = (⋃ i, v i +ᵥ B) ∪ ((⋃ i, F i) + frontier B) := by
  have h1 : ∀ i, F i + B = (v i +ᵥ B) ∪ (F i + frontier B) := by
    intro i
    rw [add_comm (F i) B, minkowski_decomp_at hB (hF i) (hv i), add_comm (frontier B)]
  rw [Set.iUnion_add, Set.iUnion_add, ← Set.iUnion_union_distrib]
  exact Set.iUnion_congr h1

/-! ### erosion -/

/-- morphological erosion with the sign convention of `MinkowskiDifference`:
the points `p` with `p - b ∈ A` for every `b ∈ B` -/
def erosion (A B : Set E) : Set E := {p | ∀ b ∈ B, p - b ∈ A}

/-- duality of erosion and dilation (in the code's sign convention) -/
theorem erosion_dual (A B : Set E) : erosion A B = (Aᶜ + B)ᶜ := by
  ext p
  simp only [erosion, Set.mem_ofPred_eq, Set.mem_compl_iff, Set.mem_add, not_exists, not_and]
  constructor
  · intro h a ha b hb hab
    exact ha (by have := h b hb; rwa [← hab, add_sub_cancel_right] at this)
  · intro h b hb
    by_contra hp
    exact h (p - b) hp b hb (by abel)

theorem erosion_subset {A B : Set E} (h0 : (0 : E) ∈ B) : erosion A B ⊆ A := by
  intro p hp
  simpa using hp 0 h0

theorem erosion_mono {A A' B : Set E} (h : A ⊆ A') : erosion A B ⊆ erosion A' B :=
  fun _ hp b hb => h (hp b hb)

/-- **What `MinkowskiDifference` builds is the erosion.**  `A` minus the sweep of `B` over the
surface of `A` is the set of points `p` with `p - b` in the interior of `A` for all `b ∈ B`, for
every connected `B` that contains the origin. -/
theorem diff_eq_erosion_interior {A B : Set E} (hBc : IsPreconnected B) (h0 : (0 : E) ∈ B) :
    A \ (frontier A + B) = erosion (interior A) B := by
  ext p
  constructor
  · rintro ⟨hpA, hpn⟩ b hb
    set S : Set E := (fun b' => p - b') '' B with hS
    have hSc : IsPreconnected S := hBc.image _ (by fun_prop)
    have hmiss : S ∩ frontier A = ∅ := by
      rw [Set.eq_empty_iff_forall_notMem]
      rintro y ⟨⟨b', hb', rfl⟩, hyF⟩
      exact hpn ⟨_, hyF, b', hb', by simp⟩
    exact preconnected_subset_interior hSc ⟨p, ⟨0, h0, by simp⟩, hpA⟩ hmiss ⟨b, hb, rfl⟩
  · intro hp
    refine ⟨interior_subset (by simpa using hp 0 h0), ?_⟩
    rintro ⟨y, hyF, b, hb, rfl⟩
    have : y ∈ interior A := by simpa using hp b hb
    exact hyF.2 this

/-- containment clause 1 of the property: the difference lies inside `A` -/
theorem diff_subset (A B : Set E) : A \ (frontier A + B) ⊆ A := fun _ h => h.1

/-- containment clause 2 of the property: every point `p` of the difference has `p - b ∈ A`
for every `b ∈ B` -/
theorem diff_mem_sub {A B : Set E} (hBc : IsPreconnected B) (h0 : (0 : E) ∈ B) {p : E}
    (hp : p ∈ A \ (frontier A + B)) {b : E} (hb : b ∈ B) : p - b ∈ A := by
  rw [diff_eq_erosion_interior hBc h0] at hp
  exact interior_subset (hp b hb)

/-! ### the clauses of the sum -/

theorem sum_contains {A B : Set E} {a b : E} (ha : a ∈ A) (hb : b ∈ B) : a + b ∈ A + B :=
  Set.add_mem_add ha hb

theorem sum_contains_left {A B : Set E} (h0 : (0 : E) ∈ B) : A ⊆ A + B :=
  fun a ha => ⟨a, ha, 0, h0, add_zero a⟩

/-- no point of the sum is farther from `A` than the reach `r` of `B` -/
theorem sum_within_reach {A B : Set E} {r : ℝ} (hr : ∀ b ∈ B, ‖b‖ ≤ r) {x : E} (hx : x ∈ A + B) :
    infDist x A ≤ r := by
  obtain ⟨a, ha, b, hb, rfl⟩ := hx
  calc infDist (a + b) A ≤ dist (a + b) a := infDist_le_dist_of_mem ha
    _ = ‖b‖ := by rw [dist_eq_norm]; simp
    _ ≤ r := hr b hb

/-! ### the formula of the pinned non-convex × non-convex branch is not an identity -/

/-- On the real line: `A = {0}`, `B = [-1, 1]` (closed, convex, contains the origin):
`A ∪ (frontier A + frontier B) = {-1, 0, 1}` misses `1/2 ∈ A + B`.  Sweeping only the surface of
`B` over the surface of `A` leaves the sum hollow. -/
theorem facepair_formula_fails :
    ∃ A B : Set ℝ, IsClosed A ∧ IsClosed B ∧ Convex ℝ B ∧ (0 : ℝ) ∈ B ∧
      A + B ≠ A ∪ (frontier A + frontier B) := by
  refine ⟨{0}, Set.Icc (-1) 1, isClosed_singleton, isClosed_Icc, convex_Icc _ _, ⟨by norm_num, by norm_num⟩, ?_⟩
  intro h
  have hmem : (1 / 2 : ℝ) ∈ ({0} : Set ℝ) + Set.Icc (-1 : ℝ) 1 :=
    ⟨0, rfl, 1 / 2, ⟨by norm_num, by norm_num⟩, by norm_num⟩
  rw [h, frontier_Icc (by norm_num : (-1 : ℝ) ≤ 1)] at hmem
  rcases hmem with h0 | ⟨a, ha, b, hb, hab⟩
  · simp at h0
  · have ha0 : a = 0 := by
      have := frontier_subset_closure ha
      simpa using this
    subst ha0
    rcases hb with hb | hb
    · rw [hb] at hab; norm_num at hab
    · rw [Set.mem_singleton_iff] at hb; rw [hb] at hab; norm_num at hab

end MV.Minkowski
