import MV.Proof.EdgeOpOrbit
/-!
`FormLoop` (edge_op.cpp:740-756) up to its final `RemoveIfFolded`: `formLoopCore`.
In a state satisfying `PairInv`, called on two distinct live halfedges `cur`, `en` carrying the same
directed edge u→v, it creates the vertices `A = nVert`, `B = nVert+1`, relabels the fan of `u`
between `Pair(cur)` and `Pair(en)` to `A`, the fan of `v` between `en` and `cur` to `B`, swaps the
partners - and the result satisfies `PairInv` again.
-/
namespace MV.EdgeOp
open MV.Halfedge (HErr rd wr nextHalfedge)

/-! ## involution facts -/

theorem Pn_eq (s : HE) (e : Nat) : s.Pn e = (s.P e).toNat := rfl

theorem live_inv {s : HE} (h : PairInv s) {e : Nat} (he : e < s.start.size) (hl : s.P e ≠ -1) :
    0 ≤ s.P e ∧ s.Pn e < s.start.size ∧ s.P (s.Pn e) = (e : Int) ∧ s.Pn (s.Pn e) = e ∧
      s.P (s.Pn e) ≠ -1 ∧ s.P e = ((s.Pn e : Nat) : Int) := by
  obtain ⟨_, _, c, d, f, _⟩ := (h.good he).live hl
  refine ⟨c, d, f, ?_, by omega, (Pn_cast s e c).symm⟩
  rw [Pn_eq s (s.Pn e), f]; simp

theorem Pn_inj {s : HE} (h : PairInv s) {e e' : Nat} (he : e < s.start.size) (hl : s.P e ≠ -1)
    (he' : e' < s.start.size) (hl' : s.P e' ≠ -1) (heq : s.Pn e = s.Pn e') : e = e' := by
  have a := (live_inv h he hl).2.2.2.1
  have b := (live_inv h he' hl').2.2.2.1
  rw [← a, ← b, heq]

/-! ## the fan of a minimal walk -/

/-- the halfedges `Next(c_i)`, `i < k`, of the walk `c_0 = c0`, `c_{i+1} = Pair(Next(c_i))`: the
cells `UpdateVert` writes -/
def Fan (s : HE) (c0 k : Nat) (e : Nat) : Prop := ∃ i, i < k ∧ e = nx (s.walk c0 i)

section fan
variable {s : HE} {c0 k t : Nat} (h : PairInv s) (hc0 : c0 < s.start.size) (hl0 : s.P c0 ≠ -1)
  (hk : s.walk c0 k = t) (hmin : ∀ i, i < k → s.walk c0 i ≠ t)
include h hc0 hl0

theorem fan_live {e : Nat} (hf : Fan s c0 k e) :
    e < s.start.size ∧ s.P e ≠ -1 ∧ s.S e = s.S (nx c0) := by
  obtain ⟨i, _, rfl⟩ := hf
  obtain ⟨a, b, _, d⟩ := walk_live s c0 h hc0 hl0 i
  obtain ⟨p, q, _⟩ := step_live h a b
  exact ⟨p, q, d⟩

omit h hc0 hl0 in
theorem fan_first (hk0 : 0 < k) : Fan s c0 k (nx c0) := ⟨0, hk0, rfl⟩

include hk in
theorem fan_last (hk0 : 0 < k) : Fan s c0 k (s.Pn t) := by
  obtain ⟨k', rfl⟩ : ∃ k', k = k' + 1 := ⟨k - 1, by omega⟩
  refine ⟨k', by omega, ?_⟩
  obtain ⟨a, b, _⟩ := walk_live s c0 h hc0 hl0 k'
  obtain ⟨p, q, _⟩ := step_live h a b
  rw [← hk, walk_succ]
  exact (live_inv h p q).2.2.2.1

omit h hc0 hl0 in
include hmin in
theorem fan_not_next : ¬ Fan s c0 k (nx t) := by
  rintro ⟨i, hi, he⟩
  exact hmin i hi (nx_inj he).symm

include hk hmin in
theorem fan_not_pair : ¬ Fan s c0 k (s.Pn c0) := by
  rintro ⟨i, hi, he⟩
  have h1 : s.walk c0 (i + 1) = c0 := by
    rw [walk_succ, ← he]; exact (live_inv h hc0 hl0).2.2.2.1
  exact (walk_simple s c0 k t h hc0 hl0 hk hmin).1 0 (i + 1) (by omega) (by omega) (by simpa using h1.symm)

include hk in
theorem fan_iff {e : Nat} (he : e < s.start.size) (hl : s.P e ≠ -1) (h1 : e ≠ s.Pn c0)
    (h2 : e ≠ s.Pn t) : Fan s c0 k e ↔ Fan s c0 k (nx (s.Pn e)) := by
  constructor
  · rintro ⟨i, hi, rfl⟩
    by_cases hik : i + 1 < k
    · exact ⟨i + 1, hik, by rw [walk_succ]⟩
    · have : i + 1 = k := by omega
      subst this
      exfalso; apply h2
      rw [← hk, walk_succ]; exact ((live_inv h he hl).2.2.2.1).symm
  · rintro ⟨j, hj, hej⟩
    have hp := nx_inj hej
    rcases j with _ | j
    · exfalso; apply h1
      simp only [walk_zero] at hp
      rw [← hp]; exact ((live_inv h he hl).2.2.2.1).symm
    · refine ⟨j, by omega, ?_⟩
      obtain ⟨a, b, _⟩ := walk_live s c0 h hc0 hl0 j
      obtain ⟨p, q, _⟩ := step_live h a b
      rw [walk_succ] at hp
      exact Pn_inj h he hl p q hp
end fan

/-! ## the relabelled, re-paired state satisfies `PairInv` (pure combinatorics) -/

section relabel
variable {s s' : HE} {cur en : Nat} {A B : Int} {Ru Rv : Nat → Prop}
  (h : PairInv s) (hw' : WF s') (hsz : s'.start.size = s.start.size)
  (hc : cur < s.start.size) (he : en < s.start.size) (hne : cur ≠ en)
  (hlc : s.P cur ≠ -1) (hle : s.P en ≠ -1)
  (hS : s.S cur = s.S en) (hE : s.S (nx cur) = s.S (nx en))
  (hA : ∀ e, e < s.start.size → s.S e < A) (hA0 : 0 ≤ A) (hAB : A < B)
  (u1 : ∀ e, Ru e → s.S e = s.S cur)
  (u2a : Ru en) (u2b : Ru (nx (s.Pn cur))) (u2c : ¬ Ru cur) (u2d : ¬ Ru (nx (s.Pn en)))
  (u3 : ∀ e, e < s.start.size → s.P e ≠ -1 → e ≠ cur → e ≠ en → (Ru e ↔ Ru (nx (s.Pn e))))
  (v1 : ∀ e, Rv e → s.S e = s.S (nx cur))
  (v2a : Rv (nx en)) (v2b : Rv (s.Pn cur)) (v2c : ¬ Rv (nx cur)) (v2d : ¬ Rv (s.Pn en))
  (v3 : ∀ e, e < s.start.size → s.P e ≠ -1 → e ≠ s.Pn en → e ≠ s.Pn cur →
    (Rv e ↔ Rv (nx (s.Pn e))))
  (sA : ∀ e, Ru e → s'.S e = A) (sB : ∀ e, Rv e → s'.S e = B)
  (s0 : ∀ e, ¬ Ru e → ¬ Rv e → s'.S e = s.S e)
  (p1 : s'.P cur = ((s.Pn en : Nat) : Int)) (p2 : s'.P (s.Pn en) = (cur : Int))
  (p3 : s'.P en = ((s.Pn cur : Nat) : Int)) (p4 : s'.P (s.Pn cur) = (en : Int))
  (p0 : ∀ e, e ≠ cur → e ≠ s.Pn en → e ≠ en → e ≠ s.Pn cur → s'.P e = s.P e)

include h hc hlc in
theorem relabel_uv : s.S cur ≠ s.S (nx cur) ∧ s.S cur ≠ -1 ∧ s.S (nx cur) ≠ -1 := by
  obtain ⟨a, _, _, d, f, g, hh, _⟩ := (h.good hc).live hlc
  obtain ⟨a', _⟩ := (h.good d).live (by omega)
  exact ⟨g, by rw [hh]; exact a', a⟩

include u1 v1 sA sB s0 in
theorem relabel_tri (x : Nat) :
    (Ru x ∧ s'.S x = A ∧ s.S x = s.S cur) ∨ (Rv x ∧ s'.S x = B ∧ s.S x = s.S (nx cur)) ∨
      (¬ Ru x ∧ ¬ Rv x ∧ s'.S x = s.S x) := by
  by_cases a : Ru x
  · exact Or.inl ⟨a, sA x a, u1 x a⟩
  · by_cases b : Rv x
    · exact Or.inr (Or.inl ⟨b, sB x b, v1 x b⟩)
    · exact Or.inr (Or.inr ⟨a, b, s0 x a b⟩)

include h hc hlc u1 v1 sA sB s0 in
theorem relabel_transfer {x y : Nat} (hxy : s.S x = s.S y) (hu : Ru x ↔ Ru y) (hv : Rv x ↔ Rv y) :
    s'.S x = s'.S y := by
  have huv := (relabel_uv h hc hlc).1
  rcases relabel_tri u1 v1 sA sB s0 x with ⟨a, b, c⟩ | ⟨a, b, c⟩ | ⟨a, b, c⟩
  · rw [b, sA y (hu.1 a)]
  · rw [b, sB y (hv.1 a)]
  · rw [c, s0 y (fun q => a (hu.2 q)) (fun q => b (hv.2 q)), hxy]

include u1 v1 sA sB s0 hA0 hAB in
theorem relabel_ne {x : Nat} (hx : s.S x ≠ -1) : s'.S x ≠ -1 := by
  rcases relabel_tri u1 v1 sA sB s0 x with ⟨_, b, _⟩ | ⟨_, b, _⟩ | ⟨_, _, c⟩ <;> omega

include u1 v1 sA sB s0 hAB in
theorem relabel_iffA {x : Nat} (hx : s.S x < A) : s'.S x = A ↔ Ru x := by
  constructor
  · intro q
    rcases relabel_tri u1 v1 sA sB s0 x with ⟨a, _, _⟩ | ⟨_, b, _⟩ | ⟨_, _, c⟩
    · exact a
    · omega
    · omega
  · exact sA x

include u1 v1 sA sB s0 hAB in
theorem relabel_iffB {x : Nat} (hx : s.S x < A) : s'.S x = B ↔ Rv x := by
  constructor
  · intro q
    rcases relabel_tri u1 v1 sA sB s0 x with ⟨_, b, _⟩ | ⟨a, _, _⟩ | ⟨_, _, c⟩
    · omega
    · exact a
    · omega
  · exact sB x

include h hc he hne hlc hle hS hE in
/-- facts about the four halfedges of the doubled edge in the old state -/
theorem relabel_four :
    s.Pn cur < s.start.size ∧ s.Pn en < s.start.size ∧
    s.P (s.Pn cur) = (cur : Int) ∧ s.P (s.Pn en) = (en : Int) ∧
    s.S (s.Pn cur) = s.S (nx cur) ∧ s.S (nx (s.Pn cur)) = s.S cur ∧
    s.S (s.Pn en) = s.S (nx cur) ∧ s.S (nx (s.Pn en)) = s.S cur ∧
    cur ≠ s.Pn cur ∧ cur ≠ s.Pn en ∧ en ≠ s.Pn cur ∧ en ≠ s.Pn en ∧ s.Pn cur ≠ s.Pn en := by
  obtain ⟨_, _, _, d, f, g, hh, i⟩ := (h.good hc).live hlc
  obtain ⟨_, _, _, d', f', g', hh', i'⟩ := (h.good he).live hle
  refine ⟨d, d', f, f', i.symm, hh.symm, by rw [← i', hE], by rw [← hh', hS], ?_, ?_, ?_, ?_, ?_⟩
  · intro q; rw [← q] at i; exact g i.symm
  · intro q; rw [← q] at i'; rw [← hE] at i'; exact g i'.symm
  · intro q; rw [← q] at i; exact g (hS.trans i.symm)
  · intro q; rw [← q] at i'; exact g' i'.symm
  · intro q; rw [q, f'] at f; omega

include h hc he hne hlc hle hS hE u1 u2a u2b u2c u2d v1 v2a v2b v2c v2d sA sB s0 in
/-- the new labels on the four halfedges of the doubled edge -/
theorem relabel_vals :
    s'.S cur = s.S cur ∧ s'.S (nx cur) = s.S (nx cur) ∧ s'.S (s.Pn en) = s.S (nx cur) ∧
    s'.S (nx (s.Pn en)) = s.S cur ∧ s'.S en = A ∧ s'.S (nx en) = B ∧ s'.S (s.Pn cur) = B ∧
    s'.S (nx (s.Pn cur)) = A := by
  obtain ⟨huv, _, _⟩ := relabel_uv h hc hlc
  obtain ⟨_, _, _, _, q1, q2, q3, q4, _⟩ := relabel_four h hc he hne hlc hle hS hE
  refine ⟨?_, ?_, ?_, ?_, sA _ u2a, sB _ v2a, sB _ v2b, sA _ u2b⟩
  · exact s0 _ u2c (fun q => huv (v1 _ q))
  · exact s0 _ (fun q => huv (u1 _ q).symm) v2c
  · rw [s0 _ (fun q => huv ((u1 _ q).symm.trans q3)) v2d, q3]
  · rw [s0 _ u2d (fun q => huv (q4.symm.trans (v1 _ q))), q4]

include hsz h hc he hne hlc hle hS hE u1 u2a u2b u2c u2d v1 v2a v2b v2c v2d sA sB s0 hA0 hAB p1 p2 in
theorem relabel_good_cur : Good s' cur := by
  obtain ⟨huv, hu, hv⟩ := relabel_uv h hc hlc
  obtain ⟨_, b, _⟩ := (h.good hc).live hlc
  obtain ⟨_, d', _⟩ := relabel_four h hc he hne hlc hle hS hE
  obtain ⟨w1, w2, w3, w4, _⟩ := relabel_vals h hc he hne hlc hle hS hE u1 u2a u2b u2c u2d v1 v2a v2b v2c v2d sA sB s0
  have hPn : s'.Pn cur = s.Pn en := by rw [Pn_eq, p1]; simp
  refine (good_iff s' cur).2 (Or.inr ?_)
  rw [hPn, w1, w2, w3, w4, p1, p2, hsz]
  exact ⟨hv, relabel_ne hA0 hAB u1 v1 sA sB s0 b, by omega, d', rfl, huv, rfl, rfl⟩

include hsz h hc he hne hlc hle hS hE u1 u2a u2b u2c u2d v1 v2a v2b v2c v2d sA sB s0 hA0 hAB p1 p2 in
theorem relabel_good_nm : Good s' (s.Pn en) := by
  obtain ⟨huv, hu, hv⟩ := relabel_uv h hc hlc
  obtain ⟨_, d', _, f', _⟩ := relabel_four h hc he hne hlc hle hS hE
  obtain ⟨_, b, _⟩ := (h.good d').live (by omega)
  obtain ⟨w1, w2, w3, w4, _⟩ := relabel_vals h hc he hne hlc hle hS hE u1 u2a u2b u2c u2d v1 v2a v2b v2c v2d sA sB s0
  have hPn : s'.Pn (s.Pn en) = cur := by rw [Pn_eq, p2]; simp
  refine (good_iff s' _).2 (Or.inr ?_)
  rw [hPn, w1, w2, w3, w4, p1, p2, hsz]
  exact ⟨hu, relabel_ne hA0 hAB u1 v1 sA sB s0 b, by omega, hc, rfl, huv.symm, rfl, rfl⟩

include hsz h hc he hne hlc hle hS hE u1 u2a u2b u2c u2d v1 v2a v2b v2c v2d sA sB s0 hA0 hAB p3 p4 in
theorem relabel_good_en : Good s' en := by
  obtain ⟨_, b, _⟩ := (h.good he).live hle
  obtain ⟨d, _⟩ := relabel_four h hc he hne hlc hle hS hE
  obtain ⟨_, _, _, _, w1, w2, w3, w4⟩ := relabel_vals h hc he hne hlc hle hS hE u1 u2a u2b u2c u2d v1 v2a v2b v2c v2d sA sB s0
  have hPn : s'.Pn en = s.Pn cur := by rw [Pn_eq, p3]; simp
  refine (good_iff s' en).2 (Or.inr ?_)
  rw [hPn, w1, w2, w3, w4, p3, p4, hsz]
  exact ⟨by omega, relabel_ne hA0 hAB u1 v1 sA sB s0 b, by omega, d, rfl, by omega, rfl, rfl⟩

include hsz h hc he hne hlc hle hS hE u1 u2a u2b u2c u2d v1 v2a v2b v2c v2d sA sB s0 hA0 hAB p3 p4 in
theorem relabel_good_om : Good s' (s.Pn cur) := by
  obtain ⟨d, _, f, _⟩ := relabel_four h hc he hne hlc hle hS hE
  obtain ⟨_, b, _⟩ := (h.good d).live (by omega)
  obtain ⟨_, _, _, _, w1, w2, w3, w4⟩ := relabel_vals h hc he hne hlc hle hS hE u1 u2a u2b u2c u2d v1 v2a v2b v2c v2d sA sB s0
  have hPn : s'.Pn (s.Pn cur) = en := by rw [Pn_eq, p4]; simp
  refine (good_iff s' _).2 (Or.inr ?_)
  rw [hPn, w1, w2, w3, w4, p3, p4, hsz]
  exact ⟨by omega, relabel_ne hA0 hAB u1 v1 sA sB s0 b, by omega, he, rfl, by omega, rfl, rfl⟩

include h hc he hne hlc hle hS hE u1 v1 s0 p0 in
theorem relabel_good_tomb {e : Nat} (he' : e < s.start.size) (ht : s.P e = -1) : Good s' e := by
  obtain ⟨huv, hu, hv⟩ := relabel_uv h hc hlc
  obtain ⟨_, _, f, f', _⟩ := relabel_four h hc he hne hlc hle hS hE
  rcases (good_iff s e).1 (h.good he') with ⟨a, b, _⟩ | ⟨_, _, c, _⟩
  · have n1 : e ≠ cur := by rintro rfl; exact hlc ht
    have n2 : e ≠ s.Pn en := by rintro rfl; omega
    have n3 : e ≠ en := by rintro rfl; exact hle ht
    have n4 : e ≠ s.Pn cur := by rintro rfl; omega
    apply good_of_tomb
    · rw [s0 e (fun q => hu ((u1 e q).symm.trans a)) (fun q => hv ((v1 e q).symm.trans a)), a]
    · rw [s0 _ (fun q => hu ((u1 _ q).symm.trans b)) (fun q => hv ((v1 _ q).symm.trans b)), b]
    · rw [p0 e n1 n2 n3 n4, ht]
  · omega

include h hc hlc u1 v1 sA sB s0 hAB in
theorem relabel_ne2 {x y : Nat} (hxy : s.S x ≠ s.S y) (hx : s.S x < A) (hy : s.S y < A) :
    s'.S x ≠ s'.S y := by
  have huv := (relabel_uv h hc hlc).1
  rcases relabel_tri u1 v1 sA sB s0 x with ⟨_, a, b⟩ | ⟨_, a, b⟩ | ⟨_, _, a⟩ <;>
  rcases relabel_tri u1 v1 sA sB s0 y with ⟨_, a', b'⟩ | ⟨_, a', b'⟩ | ⟨_, _, a'⟩ <;> omega

include h hc he hlc hle in
/-- the partner of a live halfedge that is none of the four is none of the four -/
theorem relabel_partner {e : Nat} (he' : e < s.start.size) (hl : s.P e ≠ -1)
    (n1 : e ≠ cur) (n2 : e ≠ s.Pn en) (n3 : e ≠ en) (n4 : e ≠ s.Pn cur) :
    s.Pn e ≠ cur ∧ s.Pn e ≠ s.Pn en ∧ s.Pn e ≠ en ∧ s.Pn e ≠ s.Pn cur := by
  obtain ⟨_, _, _, i4, _⟩ := live_inv h he' hl
  refine ⟨?_, ?_, ?_, ?_⟩
  · intro q; rw [q] at i4; exact n4 i4.symm
  · intro q; rw [q, (live_inv h he hle).2.2.2.1] at i4; exact n3 i4.symm
  · intro q; rw [q] at i4; exact n2 i4.symm
  · intro q; rw [q, (live_inv h hc hlc).2.2.2.1] at i4; exact n1 i4.symm

include hsz h hc he hlc hle hA hA0 hAB u1 u3 v1 v3 sA sB s0 p0 in
theorem relabel_good_other {e : Nat} (he' : e < s.start.size) (hl : s.P e ≠ -1)
    (n1 : e ≠ cur) (n2 : e ≠ s.Pn en) (n3 : e ≠ en) (n4 : e ≠ s.Pn cur) : Good s' e := by
  obtain ⟨a, b, c, d, g, g1, g2, g3⟩ := (h.good he').live hl
  obtain ⟨_, _, _, i4, i5, _⟩ := live_inv h he' hl
  have hn : nx e < s.start.size := nx_lt h.1.2.2 he'
  obtain ⟨m1, m2, m3, m4⟩ := relabel_partner h hc he hlc hle he' hl n1 n2 n3 n4
  have hp : s'.P e = s.P e := p0 e n1 n2 n3 n4
  have hpp : s'.P (s.Pn e) = (e : Int) := by rw [p0 _ m1 m2 m3 m4, g]
  have hPn : s'.Pn e = s.Pn e := by rw [Pn_eq, hp]; rfl
  have t1 : s'.S e = s'.S (nx (s.Pn e)) :=
    relabel_transfer h hc hlc u1 v1 sA sB s0 g2 (u3 e he' hl n1 n3) (v3 e he' hl n2 n4)
  have t2 : s'.S (s.Pn e) = s'.S (nx e) := by
    have hu' := u3 _ d i5 m1 m3
    have hv' := v3 _ d i5 m2 m4
    rw [i4] at hu' hv'
    exact relabel_transfer h hc hlc u1 v1 sA sB s0 g3.symm hu' hv'
  have t3 : s'.S e ≠ s'.S (nx e) :=
    relabel_ne2 h hc hlc hAB u1 v1 sA sB s0 g1 (hA e he') (hA _ hn)
  refine (good_iff s' e).2 (Or.inr ?_)
  rw [hPn, hp, hpp, hsz]
  exact ⟨relabel_ne hA0 hAB u1 v1 sA sB s0 a, relabel_ne hA0 hAB u1 v1 sA sB s0 b, c, d, rfl,
    t3, t1, t2.symm⟩

include hw' hsz h hc he hne hlc hle hS hE hA hA0 hAB u1 u2a u2b u2c u2d u3 v1 v2a v2b v2c v2d v3
  sA sB s0 p1 p2 p3 p4 p0 in
/-- the relabelled and re-paired state satisfies `PairInv` -/
theorem relabel_pairInv : PairInv s' := by
  refine ⟨hw', hw'.1, hw'.2.2, fun e he' => ?_⟩
  rw [hsz] at he'
  change Good s' e
  by_cases ht : s.P e = -1
  · exact relabel_good_tomb h hc he hne hlc hle hS hE u1 v1 s0 p0 he' ht
  by_cases n1 : e = cur
  · subst n1
    exact relabel_good_cur h hsz hc he hne hlc hle hS hE hA0 hAB u1 u2a u2b u2c u2d v1 v2a v2b v2c v2d
      sA sB s0 p1 p2
  by_cases n2 : e = s.Pn en
  · subst n2
    exact relabel_good_nm h hsz hc he hne hlc hle hS hE hA0 hAB u1 u2a u2b u2c u2d v1 v2a v2b v2c v2d
      sA sB s0 p1 p2
  by_cases n3 : e = en
  · subst n3
    exact relabel_good_en h hsz hc he hne hlc hle hS hE hA0 hAB u1 u2a u2b u2c u2d v1 v2a v2b v2c v2d
      sA sB s0 p3 p4
  by_cases n4 : e = s.Pn cur
  · subst n4
    exact relabel_good_om h hsz hc he hne hlc hle hS hE hA0 hAB u1 u2a u2b u2c u2d v1 v2a v2b v2c v2d
      sA sB s0 p3 p4
  exact relabel_good_other h hsz hc he hlc hle hA hA0 hAB u1 u3 v1 v3 sA sB s0 p0 he' ht
    n1 n2 n3 n4

end relabel

/-! ## evaluation of `FormLoop` -/

/-- `FormLoop` (edge_op.cpp:740-756) without its last statement `RemoveIfFolded(end)` -/
def formLoopCore (s : HE) (current end_ : Int) : M HE := do
  let startVert : Int := s.nVert
  let _ ← s.getStart current
  let endVert : Int := s.nVert + 1
  let _ ← s.getEnd current
  let s := { s with nVert := s.nVert + 2 }
  let oldMatch ← s.getPair current
  let newMatch ← s.getPair end_
  let s ← updateVert s startVert oldMatch newMatch
  let s ← updateVert s endVert end_ current
  let s ← pairUp s current newMatch
  pairUp s end_ oldMatch

theorem formLoop_eq (s : HE) (c e : Int) :
    formLoop s c e = formLoopCore s c e >>= fun s' => removeIfFolded s' e := by
  unfold formLoop formLoopCore
  simp only [bind_assoc]

theorem P_congr {s t : HE} (h : t.paired = s.paired) (e : Nat) : t.P e = s.P e := by
  unfold HE.P; rw [h]

theorem S_congr {s t : HE} (h : t.start = s.start) (e : Nat) : t.S e = s.S e := by
  unfold HE.S; rw [h]

/-- `UpdateVert` on a state `t` that has the pairing of a `PairInv` state `s`, in terms of the fan -/
theorem updateVert_fan (s t : HE) (vert : Int) (c0 k tgt : Nat) (h : PairInv s) (hwt : WF t)
    (hp : t.paired = s.paired) (hsz : t.start.size = s.start.size)
    (hc0 : c0 < s.start.size) (hl0 : s.P c0 ≠ -1)
    (hk : s.walk c0 k = tgt) (hmin : ∀ i, i < k → s.walk c0 i ≠ tgt) :
    ∃ t', updateVert t vert (c0 : Int) (tgt : Int) = .ok t' ∧ t'.paired = s.paired ∧
      t'.prop = t.prop ∧ t'.nVert = t.nVert ∧ t'.nPropVert = t.nPropVert ∧
      t'.start.size = s.start.size ∧ WF t' ∧
      (∀ e, Fan s c0 k e → t'.S e = vert) ∧ (∀ e, ¬ Fan s c0 k e → t'.S e = t.S e) := by
  have hwk : ∀ i, t.walk c0 i = s.walk c0 i := walk_congr hp c0
  obtain ⟨t', a, b, c, d, e, f, g, g'⟩ := updateVert_spec t vert c0 k (tgt : Int) hwt
    (by rw [hsz]; exact Nat.le_of_lt (walk_simple s c0 k tgt h hc0 hl0 hk hmin).2)
    (by intro i _; rw [hwk, hsz]; exact (walk_live s c0 h hc0 hl0 i).1)
    (by intro i _; rw [hwk, P_congr hp]; exact (walk_live s c0 h hc0 hl0 i).2.2.1)
    (by rw [hwk, hk])
    (by intro i hi; rw [hwk]; intro q; exact hmin i hi (Int.ofNat_inj.1 q))
  refine ⟨t', a, b.trans hp, c, d, e, f.trans hsz, ?_, ?_, ?_⟩
  · unfold WF at *; rw [f, b, c]; exact hwt
  · rintro e ⟨i, hi, rfl⟩; rw [← hwk]; exact g i hi
  · intro e he; apply g'; intro i hi q; rw [hwk] at q; exact he ⟨i, hi, q⟩

theorem P_four (t : HE) (a b c d : Nat) (ha : a < t.paired.size) (hb : b < t.paired.size)
    (hc : c < t.paired.size) (hd : d < t.paired.size)
    (hab : a ≠ b) (hac : a ≠ c) (had : a ≠ d) (hbc : b ≠ c) (hbd : b ≠ d) (hcd : c ≠ d) :
    ((((t.setP a b).setP b a).setP c d).setP d c).P a = (b : Int) ∧
    ((((t.setP a b).setP b a).setP c d).setP d c).P b = (a : Int) ∧
    ((((t.setP a b).setP b a).setP c d).setP d c).P c = (d : Int) ∧
    ((((t.setP a b).setP b a).setP c d).setP d c).P d = (c : Int) ∧
    ∀ e, e ≠ a → e ≠ b → e ≠ c → e ≠ d →
      ((((t.setP a b).setP b a).setP c d).setP d c).P e = t.P e := by
  refine ⟨?_, ?_, ?_, ?_, ?_⟩
  · simp [P_setP, ha, Ne.symm hab, Ne.symm hac, Ne.symm had]
  · simp [P_setP, hb, Ne.symm hbc, Ne.symm hbd]
  · simp [P_setP, hc, Ne.symm hcd]
  · simp [P_setP, hd]
  · intro e h1 h2 h3 h4
    simp [P_setP, Ne.symm h1, Ne.symm h2, Ne.symm h3, Ne.symm h4]

/-- T5 (core).  `FormLoop(cur, en)` before its final `RemoveIfFolded`, on two distinct live halfedges
carrying the same directed edge: succeeds, `PairInv` holds again, two vertices are created and each
carries exactly one fan. -/
theorem formLoopCore_preserves (s : HE) (cur en k m : Nat) (h : PairInv s)
    (hc : cur < s.start.size) (he : en < s.start.size) (hne : cur ≠ en)
    (hlc : s.P cur ≠ -1) (hle : s.P en ≠ -1)
    (hS : s.S cur = s.S en) (hE : s.S (nx cur) = s.S (nx en))
    (hfresh : ∀ e, e < s.start.size → s.S e < (s.nVert : Int))
    (hk : s.walk (s.Pn cur) k = s.Pn en) (hkmin : ∀ i, i < k → s.walk (s.Pn cur) i ≠ s.Pn en)
    (hm : s.walk en m = cur) (hmmin : ∀ i, i < m → s.walk en i ≠ cur) :
    ∃ s', formLoopCore s (cur : Int) (en : Int) = .ok s' ∧ PairInv s' ∧ s'.nVert = s.nVert + 2 ∧
      s'.start.size = s.start.size ∧ s'.prop = s.prop ∧ s'.nPropVert = s.nPropVert ∧
      (∀ e, e < s.start.size →
        (s'.S e = (s.nVert : Int) ↔ ∃ i, i < k ∧ e = nx (s.walk (s.Pn cur) i))) ∧
      (∀ e, e < s.start.size →
        (s'.S e = (s.nVert : Int) + 1 ↔ ∃ i, i < m ∧ e = nx (s.walk en i))) ∧
      (∀ e, (¬ ∃ i, i < k ∧ e = nx (s.walk (s.Pn cur) i)) → (¬ ∃ i, i < m ∧ e = nx (s.walk en i)) →
        s'.S e = s.S e) ∧
      s'.P cur = ((s.Pn en : Nat) : Int) ∧ s'.P (s.Pn en) = (cur : Int) ∧
      s'.P en = ((s.Pn cur : Nat) : Int) ∧ s'.P (s.Pn cur) = (en : Int) ∧
      (∀ e, e ≠ cur → e ≠ s.Pn en → e ≠ en → e ≠ s.Pn cur → s'.P e = s.P e) := by
  have hw := h.1
  obtain ⟨huv, hu, hv⟩ := relabel_uv h hc hlc
  obtain ⟨dO, dN, fO, fN, q1, q2, q3, q4, x1, x2, x3, x4, x5⟩ := relabel_four h hc he hne hlc hle hS hE
  obtain ⟨_, _, _, iC, lO, cC⟩ := live_inv h hc hlc
  obtain ⟨_, _, _, iE, lN, cE⟩ := live_inv h he hle
  have hk0 : 0 < k := by
    rcases k with _ | k
    · exact absurd hk x5
    · omega
  have hm0 : 0 < m := by
    rcases m with _ | m
    · exact absurd hm.symm hne
    · omega
  -- the two `UpdateVert`s
  obtain ⟨s1, e1, a1, b1, c1, d1, f1, w1, g1, g1'⟩ :=
    updateVert_fan s { s with nVert := s.nVert + 2 } (s.nVert : Int) (s.Pn cur) k (s.Pn en) h hw rfl rfl
      dO lO hk hkmin
  obtain ⟨s2, e2, a2, b2, c2, d2, f2, w2, g2, g2'⟩ :=
    updateVert_fan s s1 ((s.nVert : Int) + 1) en m cur h w1 a1 f1 he hle hm hmmin
  have hsz2 : s2.paired.size = s.start.size := by rw [a2]; exact hw.1.symm
  obtain ⟨p1, p2, p3, p4, p0⟩ := P_four s2 cur (s.Pn en) en (s.Pn cur) (by omega) (by omega) (by omega)
    (by omega) x2 hne x1 (Ne.symm x4) (Ne.symm x5) x3
  -- the fan facts
  have u1 : ∀ e, Fan s (s.Pn cur) k e → s.S e = s.S cur := fun e q =>
    (fan_live h dO lO q).2.2.trans q2
  have v1 : ∀ e, Fan s en m e → s.S e = s.S (nx cur) := fun e q =>
    (fan_live h he hle q).2.2.trans hE.symm
  have u2a : Fan s (s.Pn cur) k en := by have := fan_last h dO lO hk hk0; rwa [iE] at this
  have u2c : ¬ Fan s (s.Pn cur) k cur := by have := fan_not_pair h dO lO hk hkmin; rwa [iC] at this
  have u3 : ∀ e, e < s.start.size → s.P e ≠ -1 → e ≠ cur → e ≠ en →
      (Fan s (s.Pn cur) k e ↔ Fan s (s.Pn cur) k (nx (s.Pn e))) := by
    intro e he' hl n1 n2
    exact fan_iff h dO lO hk he' hl (by rwa [iC]) (by rwa [iE])
  have sA : ∀ e, Fan s (s.Pn cur) k e → s2.S e = (s.nVert : Int) := by
    intro e q
    rw [g2' e (fun q' => huv ((u1 e q).symm.trans (v1 e q'))), g1 e q]
  have s0 : ∀ e, ¬ Fan s (s.Pn cur) k e → ¬ Fan s en m e → s2.S e = s.S e := by
    intro e q q'
    rw [g2' e q', g1' e q]; rfl
  let s' := (((s2.setP cur (s.Pn en)).setP (s.Pn en) cur).setP en (s.Pn cur)).setP (s.Pn cur) en
  have hS' : ∀ e, s'.S e = s2.S e := fun e => by simp only [s', S_setP]
  have sA' : ∀ e, Fan s (s.Pn cur) k e → s'.S e = (s.nVert : Int) := fun e q =>
    (hS' e).trans (sA e q)
  have sB' : ∀ e, Fan s en m e → s'.S e = (s.nVert : Int) + 1 := fun e q => (hS' e).trans (g2 e q)
  have s0' : ∀ e, ¬ Fan s (s.Pn cur) k e → ¬ Fan s en m e → s'.S e = s.S e := fun e q q' =>
    (hS' e).trans (s0 e q q')
  have hw' : WF s' := WF_setP _ _ _ (WF_setP _ _ _ (WF_setP _ _ _ (WF_setP _ _ _ w2)))
  have hinv : PairInv s' :=
    relabel_pairInv (s := s) (s' := s') (A := (s.nVert : Int)) (B := (s.nVert : Int) + 1)
      (Ru := Fan s (s.Pn cur) k) (Rv := Fan s en m) h hw' f2 hc he hne hlc hle hS hE hfresh
      (by omega) (by omega) u1 u2a (fan_first hk0) u2c (fan_not_next hkmin) u3 v1 (fan_first hm0)
      (fan_last h he hle hm hm0) (fan_not_next hmmin) (fan_not_pair h he hle hm hmmin)
      (fun e he' hl n1 n2 => fan_iff h he hle hm he' hl n1 n2)
      sA' sB' s0' p1 p2 p3 p4 (fun e n1 n2 n3 n4 => (p0 e n1 n2 n3 n4).trans (P_congr a2 e))
  refine ⟨s', ?_, hinv, ?_, f2, ?_, ?_, ?_, ?_, s0', p1, p2, p3, p4,
    fun e n1 n2 n3 n4 => (p0 e n1 n2 n3 n4).trans (P_congr a2 e)⟩
  · unfold formLoopCore
    rw [getStart_ok s cur hc]
    simp only [bind, Except.bind]
    rw [getEnd_ok s cur (nx_lt hw.2.2 hc)]
    simp only []
    rw [getPair_ok _ cur (hw.1 ▸ hc)]
    simp only []
    rw [getPair_ok _ en (hw.1 ▸ he)]
    simp only []
    rw [show HE.P { s with nVert := s.nVert + 2 } cur = ((s.Pn cur : Nat) : Int) from cC,
      show HE.P { s with nVert := s.nVert + 2 } en = ((s.Pn en : Nat) : Int) from cE, e1]
    simp only []
    rw [e2]
    simp only []
    rw [pairUp_ok s2 cur (s.Pn en) (by omega) (by omega)]
    simp only []
    rw [pairUp_ok _ en (s.Pn cur) (by simp; omega) (by simp; omega)]
  · show s2.nVert = s.nVert + 2
    rw [c2, c1]
  · show s2.prop = s.prop
    rw [b2, b1]
  · show s2.nPropVert = s.nPropVert
    rw [d2, d1]
  · intro e he'
    exact relabel_iffA (s := s) (s' := s') (B := (s.nVert : Int) + 1) (Rv := Fan s en m)
      (Int.lt_succ _) u1 v1 sA' sB' s0' (hfresh e he')
  · intro e he'
    exact relabel_iffB (s := s) (s' := s') (A := (s.nVert : Int)) (Ru := Fan s (s.Pn cur) k)
      (Int.lt_succ _) u1 v1 sA' sB' s0' (hfresh e he')

/-- the property of `RemoveIfFolded` proved in `MV.Proof.EdgeOpLocal` (`removeIfFolded_preserves`),
as a hypothesis, so that this file does not depend on that one -/
def RemoveIfFoldedPreserves : Prop :=
  ∀ (s : HE) (e : Nat), PairInv s → e < s.start.size →
    ∃ s', removeIfFolded s (e : Int) = .ok s' ∧ PairInv s' ∧ s'.nVert = s.nVert ∧
      s'.prop.size = s.prop.size

/-- T5.  The whole `FormLoop` preserves `PairInv` and creates two vertices, given the
`RemoveIfFolded` theorem. -/
theorem formLoop_preserves_of (hR : RemoveIfFoldedPreserves) (s : HE) (cur en k m : Nat)
    (h : PairInv s)
    (hc : cur < s.start.size) (he : en < s.start.size) (hne : cur ≠ en)
    (hlc : s.P cur ≠ -1) (hle : s.P en ≠ -1)
    (hS : s.S cur = s.S en) (hE : s.S (nx cur) = s.S (nx en))
    (hfresh : ∀ e, e < s.start.size → s.S e < (s.nVert : Int))
    (hk : s.walk (s.Pn cur) k = s.Pn en) (hkmin : ∀ i, i < k → s.walk (s.Pn cur) i ≠ s.Pn en)
    (hm : s.walk en m = cur) (hmmin : ∀ i, i < m → s.walk en i ≠ cur) :
    ∃ s', formLoop s (cur : Int) (en : Int) = .ok s' ∧ PairInv s' ∧ s'.nVert = s.nVert + 2 ∧
      s'.prop.size = s.prop.size := by
  obtain ⟨s1, e1, i1, n1, z1, r1, _⟩ :=
    formLoopCore_preserves s cur en k m h hc he hne hlc hle hS hE hfresh hk hkmin hm hmmin
  obtain ⟨s2, e2, i2, n2, r2⟩ := hR s1 en i1 (by rw [z1]; exact he)
  refine ⟨s2, ?_, i2, by rw [n2, n1], by rw [r2, r1]⟩
  rw [formLoop_eq, e1]; exact e2

/-- two tetrahedra 0123 and 0145 glued along the edge 0-1 with the pairing CROSSING the sheets
(halfedge 0 = 0→1 of the first is paired with 15 = 1→0 of the second, 12 = 0→1 of the second with
3 = 1→0 of the first): a doubled edge whose two copies lie on one orbit at both ends -/
def twoTetraCross : HE :=
  { start := #[0,1,2, 1,0,3, 0,2,3, 2,1,3, 0,1,4, 1,0,5, 0,4,5, 4,1,5],
    paired := #[15,9,6, 12,8,10, 2,11,4, 1,5,7, 3,21,18, 0,20,22, 14,23,16, 13,17,19],
    prop := #[0,1,2, 1,0,3, 0,2,3, 2,1,3, 0,1,4, 1,0,5, 0,4,5, 4,1,5], nVert := 6, nPropVert := 6 }

/-- non-vacuity of `formLoopCore_preserves`: `cur = 0`, `en = 12` (both 0→1), `k = m = 3` -/
example : PairInv twoTetraCross ∧ 0 < twoTetraCross.start.size ∧ 12 < twoTetraCross.start.size ∧
    (0 : Nat) ≠ 12 ∧ twoTetraCross.P 0 ≠ -1 ∧ twoTetraCross.P 12 ≠ -1 ∧
    twoTetraCross.S 0 = twoTetraCross.S 12 ∧ twoTetraCross.S (nx 0) = twoTetraCross.S (nx 12) ∧
    (∀ e, e < twoTetraCross.start.size → twoTetraCross.S e < (twoTetraCross.nVert : Int)) ∧
    twoTetraCross.walk (twoTetraCross.Pn 0) 3 = twoTetraCross.Pn 12 ∧
    (∀ i, i < 3 → twoTetraCross.walk (twoTetraCross.Pn 0) i ≠ twoTetraCross.Pn 12) ∧
    twoTetraCross.walk 12 3 = 0 ∧ (∀ i, i < 3 → twoTetraCross.walk 12 i ≠ 0) := by decide +kernel

/-- ... and the model evaluated on it: `FormLoop` un-crosses the pairing, the second tetrahedron gets
the two new vertices 6, 7 -/
example : formLoopCore twoTetraCross 0 12 = .ok
    { start := #[0,1,2, 1,0,3, 0,2,3, 2,1,3, 6,7,4, 7,6,5, 6,4,5, 4,7,5],
      paired := #[3,9,6, 0,8,10, 2,11,4, 1,5,7, 15,21,18, 12,20,22, 14,23,16, 13,17,19],
      prop := #[0,1,2, 1,0,3, 0,2,3, 2,1,3, 0,1,4, 1,0,5, 0,4,5, 4,1,5], nVert := 8, nPropVert := 6 } := by
  decide +kernel

end MV.EdgeOp
