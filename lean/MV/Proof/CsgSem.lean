import MV.Proof.CsgLoop
/-
The semantic contract of a stack frame and the value accounting of a whole children loop.
-/
set_option autoImplicit false
namespace MV.Csg
open SolidAlg XfAct

variable {M S : Type}

/-- invariant of a pending (not yet visited, non-root) frame whose stack below has height `h` -/
structure FrameOK (G : Frame M) (h : Nat) : Prop where
  fin : G.finalize = false
  pos : G.pos = []
  neg : G.neg = []
  d1 : ∃ d, G.posDest = some d ∧ d.depth < h
  d2 : G.parentOp = .sub → ∃ d, G.negDest = some d ∧ d.depth < h ∧ some d ≠ G.posDest
  d2n : G.parentOp ≠ .sub → G.negDest = none

theorem FrameOK.mono {G : Frame M} {h h' : Nat} (a : FrameOK G h) (hh : h ≤ h') :
    FrameOK G h' where
  fin := a.fin
  pos := a.pos
  neg := a.neg
  d1 := by obtain ⟨d, h1, h2⟩ := a.d1; exact ⟨d, h1, by omega⟩
  d2 := fun hp => by obtain ⟨d, h1, h2, h3⟩ := a.d2 hp; exact ⟨d, h1, by omega, h3⟩
  d2n := a.d2n

/-- the pushes caused by a frame go through its two pointers, and something is pushed
through `positive_dest` -/
def LogOK (G : Frame M) (log : List (Push M)) : Prop :=
  (∀ e ∈ log, some e.1 = G.posDest ∨ some e.1 = G.negDest) ∧
  (∀ d1, G.posDest = some d1 → sel d1 log ≠ [])

theorem LogOK.depth {G : Frame M} {h : Nat} {log : List (Push M)} (hG : FrameOK G h)
    (hl : LogOK G log) : ∀ e ∈ log, e.1.depth < h := by
  intro e he
  rcases hl.1 e he with h1 | h1
  · obtain ⟨d, hd, hlt⟩ := hG.d1
    rw [hd] at h1; cases h1; exact hlt
  · by_cases hp : G.parentOp = .sub
    · obtain ⟨d, hd, hlt, _⟩ := hG.d2 hp
      rw [hd] at h1; cases h1; exact hlt
    · rw [hG.d2n hp] at h1; cases h1

theorem All2.mem_right {α β : Type} {R : α → β → Prop} {as : List α} {bs : List β}
    (h : All2 R as bs) {b : β} (hb : b ∈ bs) : ∃ a ∈ as, R a b := by
  induction h with
  | nil => simp at hb
  | cons h1 _ ih =>
    rcases List.mem_cons.1 hb with rfl | hb'
    · exact ⟨_, by simp, h1⟩
    · obtain ⟨a, ha, hr⟩ := ih hb'
      exact ⟨a, by simp [ha], hr⟩

theorem All2.depth {Gs : List (Frame M)} {logs : List (List (Push M))} {h : Nat}
    (hl : All2 LogOK Gs logs) (hG : ∀ G ∈ Gs, FrameOK G h) :
    ∀ e ∈ logs.reverse.flatten, e.1.depth < h := by
  intro e he
  obtain ⟨log, hlog, he'⟩ := List.mem_flatten.1 he
  obtain ⟨G, hGm, hlo⟩ := hl.mem_right (List.mem_reverse.1 hlog)
  exact hlo.depth (hG G hGm) e he'

section Struct
variable [Mul M]

omit [Mul M] in
theorem childFrame_ok (o : Op) (f' : Bool) (xf : M) (a : Dest) (nd : Option Dest) (c H : Nat)
    (ha : a.depth < H) (hsub : o = .sub → ∃ b, nd = some b ∧ b.depth < H ∧ b ≠ a) :
    FrameOK (childFrame o f' xf (some a) nd c) H := by
  refine ⟨rfl, rfl, rfl, ?_, ?_, ?_⟩
  · cases o <;> cases f' <;> simp [childFrame, childDest1, childNeg, ha]
    obtain ⟨b, rfl, hb, _⟩ := hsub rfl
    exact ⟨b, rfl, hb⟩
  · intro hp
    cases o <;> cases f' <;> simp [childFrame, childOp, childNeg] at hp
    obtain ⟨b, rfl, hb, hba⟩ := hsub rfl
    exact ⟨b, rfl, hb, by simpa [childFrame, childDest1, childNeg] using hba⟩
  · intro hp
    cases o <;> cases f' <;> simp [childFrame, childOp, childNeg, childDest2] at hp ⊢

/-- every push of a children loop goes through one of the loop's two pointers -/
theorem loop_dests (st : Store M) (o : Op) (xf : M) (pd nd : Option Dest) (cs : List Nat)
    (first : Bool) (logs : List (List (Push M)))
    (hl : All2 LogOK (childFrames st o xf pd nd cs first) logs) :
    ∀ e ∈ childLog st o xf pd nd cs first ++ logs.reverse.flatten,
      some e.1 = pd ∨ some e.1 = nd := by
  have key : ∀ f' : Bool, ∀ x : Dest, childDest1 o f' pd nd = some x → some x = pd ∨ some x = nd := by
    intro f' x hx
    simp only [childDest1] at hx
    split at hx
    · exact Or.inr hx.symm
    · exact Or.inl hx.symm
  intro e he
  rcases List.mem_append.1 he with he | he
  · obtain ⟨f', _, h1⟩ := childLog_mem he
    exact key f' _ h1
  · obtain ⟨log, hlog, he'⟩ := List.mem_flatten.1 he
    obtain ⟨G, hGm, hlo⟩ := hl.mem_right (List.mem_reverse.1 hlog)
    obtain ⟨f', _, hG', _⟩ := childFrames_mem hGm
    rcases hlo.1 e he' with h1 | h1
    · rw [hG'] at h1
      exact key f' _ h1.symm
    · rw [hG'] at h1
      simp only [childFrame, childDest2] at h1
      split at h1
      · exact Or.inr h1
      · cases h1

/-- a children loop over a non-empty list pushes something through its positive pointer -/
theorem loop_ne (st : Store M) (o : Op) (xf : M) (a : Dest) (nd : Option Dest) (cs : List Nat)
    (hne : cs ≠ []) (hex : ∀ c ∈ cs, st.nodes[c]? ≠ none) (logs : List (List (Push M)))
    (hl : All2 LogOK (childFrames st o xf (some a) nd cs true) logs) :
    sel a (childLog st o xf (some a) nd cs true ++ logs.reverse.flatten) ≠ [] := by
  have hd : childDest1 o true (some a) nd = some a := by simp [childDest1, childNeg]
  cases cs with
  | nil => exact absurd rfl hne
  | cons c cs =>
    cases hn : st.nodes[c]? with
    | none => exact absurd hn (hex c (by simp))
    | some nd' =>
      cases nd' with
      | leaf lf => simp [childLog, hn, hd, sel_cons]
      | op i o' m k =>
        simp only [childFrames, hn] at hl
        cases hl with
        | cons h1 hl' =>
          have := h1.2 a (by simp [childFrame, hd])
          simp only [List.reverse_cons, List.flatten_append, sel_append, List.flatten_cons,
            List.flatten_nil, List.append_nil]
          intro h
          simp only [List.append_eq_nil_iff] at h
          exact this h.2.2

omit [Mul M] in
theorem childFrames_cost (s st : Store M) (o : Op) (xf : M) (pd nd : Option Dest)
    (cs : List Nat) (first : Bool) :
    ((childFrames st o xf pd nd cs first).map (fun G => cost s G.node)).sum
      ≤ (cs.map (cost s)).sum := by
  induction cs generalizing first with
  | nil => simp [childFrames]
  | cons c cs ih =>
    simp only [childFrames]
    split
    · simp only [List.map_cons, List.sum_cons, childFrame]
      have := ih false
      omega
    · simp only [List.map_cons, List.sum_cons]
      have := ih false
      omega

end Struct

section Sem
variable [One M] [Mul M] [SolidAlg S] [XfAct M S]

def negSel (d2 : Option Dest) (log : List (Push M)) : List (Leaf M) :=
  match d2 with
  | some b => sel b log
  | none => []

/-- the value a parent finalize would compute from the pushes of `log` alone -/
def logSem (L : Val S) (p : Op) (d1 : Dest) (d2 : Option Dest) (log : List (Push M)) : S :=
  evSem L p (sel d1 log) (negSel d2 log)

/-- A frame with parent operation `p` whose subtree has value `v` pushes a non-empty list
`P` to `d1` (and `N` to `d2`) with `⋃P = v` / `⋂P = v` / `⋃P \ ⋃N = v`. -/
def Contract (L : Val S) (p : Op) (d1 : Dest) (d2 : Option Dest) (v : S)
    (log : List (Push M)) : Prop :=
  sel d1 log ≠ [] ∧ logSem L p d1 d2 log = v

theorem bigIo_of_ne {l : List S} (h : l ≠ []) : bigIo l = some (bigI l) := by
  cases l with
  | nil => exact absurd rfl h
  | cons x xs => simp [bigI, bigIo]

variable (L : Val S) (st : Store M) (xf : M)

theorem loop_sem (o : Op) (a : Dest) (nd : Option Dest)
    (hsub : o = .sub → ∃ b, nd = some b ∧ a ≠ b)
    (cs : List Nat) (hne : cs ≠ []) (hex : ∀ c ∈ cs, st.nodes[c]? ≠ none)
    (logs : List (List (Push M)))
    (hF : All2 (fun G log => LogOK G log ∧ ∃ d1, G.posDest = some d1 ∧
        Contract L G.parentOp d1 G.negDest (act G.xf (denote L st G.node)) log)
      (childFrames st o xf (some a) nd cs true) logs) :
    Contract L o a nd (act xf (opSem o (cs.map (denote L st))))
      (childLog st o xf (some a) nd cs true ++ logs.reverse.flatten) := by
  cases o with
  | add =>
    have hd : ∀ f, childDest1 .add f (some a) nd = some a := fun f => rfl
    have hF1 : All2 (fun G log => sel a log ≠ [] ∧ muU L a log = act G.xf (denote L st G.node))
        (childFrames st .add xf (some a) nd cs true) logs := by
      refine hF.imp (fun G log hG h => ?_)
      obtain ⟨_, d1, hd1, hc1, hc2⟩ := h
      obtain ⟨f', _, hG', _⟩ := childFrames_mem hG
      have e1 : G.posDest = some a := by rw [hG']; rfl
      have e2 : G.parentOp = .add := by rw [hG']; rfl
      rw [e1] at hd1; cases hd1
      rw [e2] at hc2
      exact ⟨hc1, hc2⟩
    refine ⟨?_, ?_⟩
    · exact loop_nonempty st .add xf (some a) nd a cs true logs (hd true) hex hne
        (hF1.imp (fun _ _ _ h => h.1))
    · exact loop_add L st .add xf (some a) nd a (hd false) cs true logs (hd true) hex
        (hF1.imp (fun _ _ _ h => h.2))
  | int =>
    have hd : ∀ f, childDest1 .int f (some a) nd = some a := fun f => rfl
    have hF1 : All2 (fun G log => sel a log ≠ [] ∧
          muI L a log = some (act G.xf (denote L st G.node)))
        (childFrames st .int xf (some a) nd cs true) logs := by
      refine hF.imp (fun G log hG h => ?_)
      obtain ⟨_, d1, hd1, hc1, hc2⟩ := h
      obtain ⟨f', _, hG', _⟩ := childFrames_mem hG
      have e1 : G.posDest = some a := by rw [hG']; rfl
      have e2 : G.parentOp = .int := by rw [hG']; rfl
      rw [e1] at hd1; cases hd1
      rw [e2] at hc2
      refine ⟨hc1, ?_⟩
      have hne' : L.leaves (sel a log) ≠ [] := by simpa [Val.leaves] using hc1
      rw [muI, bigIo_of_ne hne']
      exact congrArg some hc2
    have h1 := loop_nonempty st .int xf (some a) nd a cs true logs (hd true) hex hne
        (hF1.imp (fun _ _ _ h => h.1))
    have h2 := loop_int L st .int xf (some a) nd a (hd false) cs true logs (hd true) hex
        (hF1.imp (fun _ _ _ h => h.2))
    refine ⟨h1, ?_⟩
    show bigI (L.leaves (sel a _)) = act xf (bigI _)
    simp only [muI] at h2
    simp only [bigI, h2]
    cases bigIo (cs.map (denote L st)) <;> simp [act_empty]
  | sub =>
    obtain ⟨b, rfl, hab⟩ := hsub rfl
    cases cs with
    | nil => exact absurd rfl hne
    | cons c0 cs' =>
      have hex' : ∀ c ∈ cs', st.nodes[c]? ≠ none := fun c' h' => hex c' (by simp [h'])
      have hdb : childDest1 .sub false (some a) (some b) = some b := rfl
      -- the tail: a union loop towards `b`
      have tail : ∀ logsT : List (List (Push M)),
          All2 (fun G log => LogOK G log ∧ ∃ d1, G.posDest = some d1 ∧
            Contract L G.parentOp d1 G.negDest (act G.xf (denote L st G.node)) log)
            (childFrames st .sub xf (some a) (some b) cs' false) logsT →
          muU L b (childLog st .sub xf (some a) (some b) cs' false ++ logsT.reverse.flatten)
            = act xf (bigU (cs'.map (denote L st))) ∧
          sel a (childLog st .sub xf (some a) (some b) cs' false ++ logsT.reverse.flatten)
            = [] := by
        intro logsT hT
        have hfr : ∀ G ∈ childFrames st .sub xf (some a) (some b) cs' false,
            G.posDest = some b ∧ G.negDest = none ∧ G.parentOp = .add := by
          intro G hG
          obtain ⟨f', hf', hG', _⟩ := childFrames_mem hG
          have : f' = false := by
            cases f' with
            | false => rfl
            | true => exact absurd (hf' rfl) (by decide)
          subst this
          rw [hG']; exact ⟨rfl, rfl, rfl⟩
        refine ⟨?_, ?_⟩
        · apply loop_add L st .sub xf (some a) (some b) b hdb cs' false logsT hdb hex'
          refine hT.imp (fun G log hG h => ?_)
          obtain ⟨_, d1, hd1, hc1, hc2⟩ := h
          obtain ⟨e1, e2, e3⟩ := hfr G hG
          rw [e1] at hd1; cases hd1
          rw [e3] at hc2
          exact hc2
        · apply sel_eq_nil
          intro e he
          rcases List.mem_append.1 he with he | he
          · obtain ⟨f', hf', h1⟩ := childLog_mem he
            have : f' = false := by
              cases f' with
              | false => rfl
              | true => exact absurd (hf' rfl) (by decide)
            subst this
            rw [hdb] at h1; cases h1
            exact fun h => hab h.symm
          · obtain ⟨log, hlog, he'⟩ := List.mem_flatten.1 he
            obtain ⟨G, hGm, hlo, _⟩ := hT.mem_right (List.mem_reverse.1 hlog)
            obtain ⟨e1, e2, _⟩ := hfr G hGm
            rcases hlo.1 e he' with h1 | h1
            · rw [e1] at h1; cases h1; exact fun h => hab h.symm
            · rw [e2] at h1; cases h1
      cases hn : st.nodes[c0]? with
      | none => exact absurd hn (hex c0 (by simp))
      | some nd' =>
        cases nd' with
        | leaf lf =>
          simp only [childFrames, hn] at hF
          obtain ⟨t1, t2⟩ := tail logs hF
          have hd1 : childDest1 .sub true (some a) (some b) = some a := rfl
          simp only [childLog, hn, hd1, List.cons_append]
          refine ⟨by simp [sel_cons], ?_⟩
          simp only [logSem, negSel, evSem, sel_cons, if_true, if_neg hab, List.nil_append,
            t2, List.append_nil]
          simp only [muU] at t1
          rw [t1]
          simp only [Val.leaves, List.map_cons, List.map_nil, bigU_singleton,
            Val.leaf_transform, opSem, act_diff, denote_leaf L hn]
        | op i o' m k =>
          simp only [childFrames, hn] at hF
          cases hF with
          | cons h0 hF' =>
            rename_i log0 logsT
            obtain ⟨t1, t2⟩ := tail logsT hF'
            obtain ⟨_, d1, hd1, hc1, hc2⟩ := h0
            have e1 : (childFrame .sub true xf (some a) (some b) c0).posDest = some a := rfl
            have e2 : (childFrame .sub true xf (some a) (some b) c0).parentOp = .sub := rfl
            have e3 : (childFrame .sub true xf (some a) (some b) c0).negDest = some b := rfl
            have e4 : (childFrame .sub true xf (some a) (some b) c0).xf = xf := rfl
            have e5 : (childFrame .sub true xf (some a) (some b) c0).node = c0 := rfl
            rw [e1] at hd1; cases hd1
            rw [e2, e3, e4, e5] at hc2
            simp only [logSem, negSel, evSem] at hc2
            have hTT : childLog st .sub xf (some a) (some b) (c0 :: cs') true
                  ++ (log0 :: logsT).reverse.flatten
                = (childLog st .sub xf (some a) (some b) cs' false ++ logsT.reverse.flatten)
                  ++ log0 := by
              simp [childLog, hn]
            rw [hTT]
            refine ⟨by simp [sel_append, hc1], ?_⟩
            simp only [logSem, negSel, evSem]
            rw [sel_append a _ log0, sel_append b _ log0, t2, List.nil_append]
            simp only [muU] at t1
            simp only [Val.leaves, List.map_append, bigU_append] at t1 hc2 ⊢
            rw [t1, union_comm, ← diff_diff, hc2]
            simp only [opSem, List.map_cons, act_diff]

end Sem
end MV.Csg
