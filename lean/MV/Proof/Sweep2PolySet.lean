import MV.Model.Sweep2
/-! PolySet2: canonical form, extensionality, permutation invariance (C11 (c)). -/
namespace MV.Sweep2

/-! ### the two orders are strict total orders -/

theorem lexLess_iff (a b : Pt) : lexLess a b = true ↔ a.1 < b.1 ∨ (a.1 = b.1 ∧ a.2 < b.2) := by
  simp [lexLess]

theorem lexLess_irrefl (a : Pt) : lexLess a a = false := by
  cases h : lexLess a a
  · rfl
  · rw [lexLess_iff] at h; omega

theorem lexLess_trans {a b c : Pt} (h1 : lexLess a b = true) (h2 : lexLess b c = true) :
    lexLess a c = true := by
  rw [lexLess_iff] at *; omega

theorem lexLess_asymm {a b : Pt} (h1 : lexLess a b = true) : lexLess b a = false := by
  cases h : lexLess b a
  · rfl
  · rw [lexLess_iff] at *; omega

theorem lexLess_tri {a b : Pt} (h1 : lexLess a b = false) (h2 : lexLess b a = false) : a = b := by
  have n1 : ¬ (a.1 < b.1 ∨ (a.1 = b.1 ∧ a.2 < b.2)) := by rw [← lexLess_iff]; simp [h1]
  have n2 : ¬ (b.1 < a.1 ∨ (b.1 = a.1 ∧ b.2 < a.2)) := by rw [← lexLess_iff]; simp [h2]
  obtain ⟨a1, a2⟩ := a
  obtain ⟨b1, b2⟩ := b
  simp only at n1 n2
  have e1 : a1 = b1 := by omega
  have e2 : a2 = b2 := by omega
  rw [e1, e2]

theorem pairLexLess_iff (a b : Key) :
    pairLexLess a b = true ↔ lexLess a.1 b.1 = true ∨ (a.1 = b.1 ∧ lexLess a.2 b.2 = true) := by
  unfold pairLexLess
  by_cases h1 : lexLess a.1 b.1 = true
  · simp [h1]
  · by_cases h2 : lexLess b.1 a.1 = true
    · simp only [h1, h2, if_true, if_false, Bool.false_eq_true, false_or, false_iff, not_and]
      intro e; rw [e, lexLess_irrefl] at h2; simp at h2
    · have e : a.1 = b.1 := lexLess_tri (by simpa using h1) (by simpa using h2)
      have h1' : lexLess a.1 b.1 = false := by simpa using h1
      have h2' : lexLess b.1 a.1 = false := by simpa using h2
      simp only [h1', h2', if_false, Bool.false_eq_true, false_or]
      exact ⟨fun h => ⟨e, h⟩, fun h => h.2⟩

theorem pairLexLess_irrefl (a : Key) : pairLexLess a a = false := by
  cases h : pairLexLess a a
  · rfl
  · rw [pairLexLess_iff] at h; simp [lexLess_irrefl] at h

theorem pairLexLess_trans {a b c : Key} (h1 : pairLexLess a b = true) (h2 : pairLexLess b c = true) :
    pairLexLess a c = true := by
  rw [pairLexLess_iff] at *
  rcases h1 with h1 | ⟨e1, h1⟩ <;> rcases h2 with h2 | ⟨e2, h2⟩
  · left; exact lexLess_trans h1 h2
  · left; rw [← e2]; exact h1
  · left; rw [e1]; exact h2
  · right; exact ⟨e1.trans e2, lexLess_trans h1 h2⟩

theorem pairLexLess_asymm {a b : Key} (h1 : pairLexLess a b = true) : pairLexLess b a = false := by
  cases h : pairLexLess b a
  · rfl
  · have := pairLexLess_trans h1 h
    rw [pairLexLess_irrefl] at this; simp at this

theorem pairLexLess_tri {a b : Key} (h1 : pairLexLess a b = false) (h2 : pairLexLess b a = false) :
    a = b := by
  have n1 : ¬ (lexLess a.1 b.1 = true ∨ (a.1 = b.1 ∧ lexLess a.2 b.2 = true)) := by
    rw [← pairLexLess_iff]; simp [h1]
  have n2 : ¬ (lexLess b.1 a.1 = true ∨ (b.1 = a.1 ∧ lexLess b.2 a.2 = true)) := by
    rw [← pairLexLess_iff]; simp [h2]
  simp only [not_or, not_and, Bool.not_eq_true] at n1 n2
  have e1 : a.1 = b.1 := lexLess_tri n1.1 n2.1
  have e2 : a.2 = b.2 := lexLess_tri (n1.2 e1) (n2.2 e1.symm)
  exact Prod.ext e1 e2

/-! ### canonical form -/

/-- what a `std::map` with erase-on-zero is: keys strictly increasing, no zero entry -/
def Canon (ps : PolySet) : Prop :=
  ps.Pairwise (fun a b => pairLexLess a.1 b.1 = true) ∧ ∀ e ∈ ps, e.2 ≠ 0

theorem canon_nil : Canon [] := ⟨List.Pairwise.nil, by simp⟩

theorem Canon.tail {e : Key × Int} {ps : PolySet} (h : Canon (e :: ps)) : Canon ps :=
  ⟨(List.pairwise_cons.mp h.1).2, fun x hx => h.2 x (by simp [hx])⟩

theorem mult_bump (ps : PolySet) (k : Key) (m : Int) (k' : Key) :
    mult (bump ps k m) k' = mult ps k' + (if k = k' then m else 0) := by
  induction ps with
  | nil => simp [bump, mult]
  | cons e rest ih =>
    obtain ⟨ke, v⟩ := e
    unfold bump
    by_cases h1 : pairLexLess k ke = true
    · simp only [h1, if_true, mult]; omega
    · by_cases h2 : pairLexLess ke k = true
      · simp only [h1, h2, if_true, if_false, mult, ih, Bool.false_eq_true]; omega
      · have e : k = ke := pairLexLess_tri (by simpa using h1) (by simpa using h2)
        subst e
        simp only [h1, if_false, Bool.false_eq_true]
        by_cases hz : v + m = 0
        · simp only [hz, if_true, mult]
          by_cases hk : k = k' <;> simp [hk] <;> omega
        · simp only [hz, if_false, mult]
          by_cases hk : k = k' <;> simp [hk] <;> omega

theorem mem_bump_key {ps : PolySet} {k : Key} {m : Int} {e : Key × Int} (h : e ∈ bump ps k m) :
    e.1 = k ∨ e ∈ ps := by
  induction ps with
  | nil => simp [bump] at h; left; rw [h]
  | cons e0 rest ih =>
    obtain ⟨ke, v⟩ := e0
    unfold bump at h
    by_cases h1 : pairLexLess k ke = true
    · simp only [h1, if_true, List.mem_cons] at h
      rcases h with rfl | h | h
      · left; rfl
      · right; simp [h]
      · right; simp [h]
    · by_cases h2 : pairLexLess ke k = true
      · simp only [h1, h2, if_true, if_false, List.mem_cons, Bool.false_eq_true] at h
        rcases h with rfl | h
        · right; simp
        · rcases ih h with h | h
          · left; exact h
          · right; simp [h]
      · have ek : k = ke := pairLexLess_tri (by simpa using h1) (by simpa using h2)
        simp only [h1, h2, if_false, Bool.false_eq_true] at h
        by_cases hz : v + m = 0
        · simp only [hz, if_true] at h; right; simp [h]
        · simp only [hz, if_false, List.mem_cons] at h
          rcases h with rfl | h
          · left; exact ek.symm
          · right; simp [h]

theorem canon_bump {ps : PolySet} (hc : Canon ps) (k : Key) (m : Int) (hm : m ≠ 0) :
    Canon (bump ps k m) := by
  induction ps with
  | nil => exact ⟨by simp [bump], by simp [bump, hm]⟩
  | cons e0 rest ih =>
    obtain ⟨ke, v⟩ := e0
    have hp := List.pairwise_cons.mp hc.1
    have hv : v ≠ 0 := hc.2 (ke, v) (by simp)
    unfold bump
    by_cases h1 : pairLexLess k ke = true
    · simp only [h1, if_true]
      refine ⟨List.pairwise_cons.mpr ⟨?_, hc.1⟩, ?_⟩
      · intro a ha
        simp only [List.mem_cons] at ha
        rcases ha with rfl | ha
        · exact h1
        · exact pairLexLess_trans h1 (hp.1 a ha)
      · intro e he
        simp only [List.mem_cons] at he
        rcases he with rfl | he
        · exact hm
        · exact hc.2 e (by simpa using he)
    · by_cases h2 : pairLexLess ke k = true
      · simp only [h1, h2, if_true, if_false, Bool.false_eq_true]
        have ihc := ih hc.tail
        refine ⟨List.pairwise_cons.mpr ⟨?_, ihc.1⟩, ?_⟩
        · intro a ha
          rcases mem_bump_key ha with h | h
          · rw [h]; exact h2
          · exact hp.1 a h
        · intro e he
          simp only [List.mem_cons] at he
          rcases he with rfl | he
          · exact hv
          · exact ihc.2 e he
      · simp only [h1, h2, if_false, Bool.false_eq_true]
        by_cases hz : v + m = 0
        · simp only [hz, if_true]; exact hc.tail
        · simp only [hz, if_false]
          refine ⟨List.pairwise_cons.mpr ⟨hp.1, hp.2⟩, ?_⟩
          intro e he
          simp only [List.mem_cons] at he
          rcases he with rfl | he
          · exact hz
          · exact hc.2 e (by simp [he])

theorem canon_polySetAdd {ps : PolySet} (hc : Canon ps) (a b : Pt) (m : Int) :
    Canon (polySetAdd ps a b m) := by
  unfold polySetAdd
  by_cases h : a = b ∨ m = 0
  · simp [h, hc]
  · have hm : m ≠ 0 := fun e => h (Or.inr e)
    simp only [h, if_false]
    by_cases hl : lexLess b a = true
    · simp only [hl, if_true]; exact canon_bump hc _ _ (by omega)
    · simp only [hl, if_false, Bool.false_eq_true]; exact canon_bump hc _ _ hm

/-- what one directed edge contributes to the stored multiplicity of key `k` -/
def contrib (e : DEdge) (k : Key) : Int :=
  if e.1 = e.2.1 then 0
  else if lexLess e.2.1 e.1 then (if (e.2.1, e.1) = k then -e.2.2 else 0)
  else (if (e.1, e.2.1) = k then e.2.2 else 0)

theorem mult_polySetAdd (ps : PolySet) (a b : Pt) (m : Int) (k : Key) :
    mult (polySetAdd ps a b m) k = mult ps k + contrib (a, b, m) k := by
  unfold polySetAdd contrib
  by_cases hab : a = b
  · simp [hab]
  · by_cases hm : m = 0
    · subst hm; simp [hab]
    · simp only [hab, hm, or_self, if_false]
      by_cases hl : lexLess b a = true
      · simp only [hl, if_true, mult_bump]
      · simp only [hl, if_false, mult_bump, Bool.false_eq_true]

theorem foldl_polySetAdd_canon (es : List DEdge) (ps : PolySet) (hc : Canon ps) :
    Canon (es.foldl (fun ps e => polySetAdd ps e.1 e.2.1 e.2.2) ps) := by
  induction es generalizing ps with
  | nil => exact hc
  | cons e es ih => exact ih _ (canon_polySetAdd hc _ _ _)

theorem foldl_polySetAdd_mult (es : List DEdge) (ps : PolySet) (k : Key) :
    mult (es.foldl (fun ps e => polySetAdd ps e.1 e.2.1 e.2.2) ps) k
      = mult ps k + (es.map (contrib · k)).sum := by
  induction es generalizing ps with
  | nil => simp
  | cons e es ih =>
    obtain ⟨a, b, m⟩ := e
    simp only [List.foldl_cons, ih, mult_polySetAdd, List.map_cons, List.sum_cons]
    omega

theorem canon_ofEdges (es : List DEdge) : Canon (ofEdges es) :=
  foldl_polySetAdd_canon es [] canon_nil

theorem mult_ofEdges (es : List DEdge) (k : Key) : mult (ofEdges es) k = (es.map (contrib · k)).sum := by
  unfold ofEdges; rw [foldl_polySetAdd_mult]; simp [mult]

/-! ### extensionality of the canonical form -/

theorem mult_eq_zero_of_lt {ps : PolySet} {k : Key}
    (h : ∀ e ∈ ps, pairLexLess k e.1 = true) : mult ps k = 0 := by
  induction ps with
  | nil => rfl
  | cons e rest ih =>
    obtain ⟨ke, v⟩ := e
    have h1 : pairLexLess k ke = true := h (ke, v) (by simp)
    have hne : ke ≠ k := by
      intro e; rw [e, pairLexLess_irrefl] at h1; simp at h1
    simp only [mult, hne, if_false, Int.zero_add]
    exact ih (fun e he => h e (by simp [he]))

theorem canon_ext {ps qs : PolySet} (hp : Canon ps) (hq : Canon qs)
    (h : ∀ k, mult ps k = mult qs k) : ps = qs := by
  induction ps generalizing qs with
  | nil =>
    cases qs with
    | nil => rfl
    | cons e rest =>
      obtain ⟨ke, v⟩ := e
      exfalso
      have hv : v ≠ 0 := hq.2 (ke, v) (by simp)
      have h0 := h ke
      have hz : mult rest ke = 0 := mult_eq_zero_of_lt (List.pairwise_cons.mp hq.1).1
      simp only [mult, if_true, hz] at h0
      omega
  | cons e ps ih =>
    obtain ⟨kp, vp⟩ := e
    have hvp : vp ≠ 0 := hp.2 (kp, vp) (by simp)
    have hpp := List.pairwise_cons.mp hp.1
    have hzp : mult ps kp = 0 := mult_eq_zero_of_lt hpp.1
    cases qs with
    | nil =>
      exfalso
      have h0 := h kp
      simp only [mult, if_true, hzp] at h0
      omega
    | cons e' qs =>
      obtain ⟨kq, vq⟩ := e'
      have hvq : vq ≠ 0 := hq.2 (kq, vq) (by simp)
      have hqq := List.pairwise_cons.mp hq.1
      have hzq : mult qs kq = 0 := mult_eq_zero_of_lt hqq.1
      have hk : kp = kq := by
        apply pairLexLess_tri
        · -- kp < kq impossible: then kp is below every key of qs
          cases hlt : pairLexLess kp kq
          · rfl
          · exfalso
            have h0 := h kp
            have hne : kq ≠ kp := by
              intro e; rw [e, pairLexLess_irrefl] at hlt; simp at hlt
            have hz : mult qs kp = 0 :=
              mult_eq_zero_of_lt (fun e he => pairLexLess_trans hlt (hqq.1 e he))
            simp only [mult, if_true, hzp, hne, if_false, hz] at h0
            omega
        · cases hlt : pairLexLess kq kp
          · rfl
          · exfalso
            have h0 := h kq
            have hne : kp ≠ kq := by
              intro e; rw [e, pairLexLess_irrefl] at hlt; simp at hlt
            have hz : mult ps kq = 0 :=
              mult_eq_zero_of_lt (fun e he => pairLexLess_trans hlt (hpp.1 e he))
            simp only [mult, if_true, hzq, hne, if_false, hz] at h0
            omega
      subst hk
      have hv : vp = vq := by
        have h0 := h kp
        simp only [mult, if_true, hzp, hzq] at h0
        omega
      subst hv
      have : ps = qs := by
        apply ih hp.tail hq.tail
        intro k
        have h0 := h k
        simp only [mult] at h0
        omega
      rw [this]

/-! ### invariance -/

theorem sum_map_perm {α : Type} (f : α → Int) {l1 l2 : List α} (h : l1.Perm l2) :
    (l1.map f).sum = (l2.map f).sum := by
  induction h with
  | nil => rfl
  | cons x _ ih => simp [ih]
  | swap x y l => simp only [List.map_cons, List.sum_cons]; omega
  | trans _ _ ih1 ih2 => exact ih1.trans ih2

theorem ofEdges_ext {es fs : List DEdge}
    (h : ∀ k, (es.map (contrib · k)).sum = (fs.map (contrib · k)).sum) : ofEdges es = ofEdges fs :=
  canon_ext (canon_ofEdges es) (canon_ofEdges fs) (fun k => by rw [mult_ofEdges, mult_ofEdges, h k])

theorem contrib_reverse (a b : Pt) (m : Int) (k : Key) : contrib (b, a, -m) k = contrib (a, b, m) k := by
  unfold contrib
  by_cases hab : a = b
  · subst hab; simp
  · have hba : ¬ b = a := fun e => hab e.symm
    simp only [hab, hba, if_false]
    by_cases h1 : lexLess b a = true
    · have h2 := lexLess_asymm h1
      simp [h1, h2]
    · have h1' : lexLess b a = false := by simpa using h1
      have h2 : lexLess a b = true := by
        cases h : lexLess a b
        · exact absurd (lexLess_tri h h1') hab
        · rfl
      simp [h1', h2]

theorem contrib_neg (a b : Pt) (m : Int) (k : Key) : contrib (a, b, -m) k = - contrib (a, b, m) k := by
  unfold contrib
  by_cases hab : a = b
  · simp [hab]
  · simp only [hab, if_false]
    by_cases h1 : lexLess b a = true
    · simp only [h1, if_true]; split <;> omega
    · simp only [h1, if_false, Bool.false_eq_true]; split <;> omega

theorem contrib_degenerate (a : Pt) (m : Int) (k : Key) : contrib (a, a, m) k = 0 := by
  simp [contrib]

theorem contrib_zero (a b : Pt) (k : Key) : contrib (a, b, 0) k = 0 := by
  unfold contrib; split
  · rfl
  · split <;> split <;> simp

end MV.Sweep2
