import MV.Proof.Export
/-! helper lemmas for `MV/Props/C08a.lean`: the flat-list specification of the prop-vert
duplication loop (`cornerSpec`) and its invariants; the array transliteration (`cornerStep`)
refines it. -/
namespace MV.Export
open List

variable {τ : Type}

/-! ## first output index of a position vertex -/

/-- first output index whose position vertex is `v` -/
def fst1 (out : List (Nat × Nat)) (v : Nat) : Option Nat := out.findIdx? (fun o => o.1 == v)

theorem fst1_append_of_some {out : List (Nat × Nat)} {v i : Nat} (c : Nat × Nat)
    (h : fst1 out v = some i) : fst1 (out ++ [c]) v = some i := by
  unfold fst1 at *
  rw [findIdx?_append, h]; rfl

theorem fst1_append_of_ne {out : List (Nat × Nat)} {v : Nat} (c : Nat × Nat)
    (h : c.1 ≠ v) : fst1 (out ++ [c]) v = fst1 out v := by
  unfold fst1
  rw [findIdx?_append]
  have : (c.1 == v) = false := by simpa using h
  simp [findIdx?_cons, this]

theorem fst1_append_of_none {out : List (Nat × Nat)} (c : Nat × Nat)
    (h : fst1 out c.1 = none) : fst1 (out ++ [c]) c.1 = some out.length := by
  unfold fst1 at *
  rw [findIdx?_append, h]
  simp [findIdx?_cons]

theorem fst1_some_getElem {out : List (Nat × Nat)} {v i : Nat} (h : fst1 out v = some i) :
    ∃ o, out[i]? = some o ∧ o.1 = v := by
  unfold fst1 at h
  rw [findIdx?_eq_some_iff_getElem] at h
  obtain ⟨hi, hp, _⟩ := h
  exact ⟨out[i], by simp [hi], by simpa using hp⟩

theorem fst1_isSome_of_mem {out : List (Nat × Nat)} {o : Nat × Nat} (h : o ∈ out) :
    ∃ i, fst1 out o.1 = some i := by
  unfold fst1
  cases hf : out.findIdx? (fun x => x.1 == o.1) with
  | some i => exact ⟨i, rfl⟩
  | none =>
    rw [findIdx?_eq_none_iff] at hf
    have := hf o h
    simp at this

/-! ## invariants of the specification fold -/

/-- what the specification state `sp` satisfies after the corners `cs` -/
structure SpecInv (cs : List (Nat × Nat)) (sp : VSpec) : Prop where
  nodup : sp.out.Nodup
  /-- the output vertex of the `k`-th corner is that corner -/
  look : sp.triVerts.map (fun i => sp.out[i]?) = cs.map some
  /-- every output vertex was emitted for some corner -/
  from_corner : ∀ o ∈ sp.out, o ∈ cs
  /-- every merge entry sends an output index to the first index of its position vertex -/
  merge_to : ∀ m ∈ sp.merges, ∃ o, sp.out[m.1]? = some o ∧ fst1 sp.out o.1 = some m.2
  /-- an output index that is not merged is the first of its position vertex -/
  not_merged : ∀ idx o, sp.out[idx]? = some o → idx ∉ sp.merges.map (·.1) →
    fst1 sp.out o.1 = some idx

theorem SpecInv.lt {cs sp} (h : SpecInv cs sp) : ∀ i ∈ sp.triVerts, i < sp.out.length := by
  intro i hi
  have : (sp.out[i]?) ∈ sp.triVerts.map (fun i => sp.out[i]?) := mem_map.2 ⟨i, hi, rfl⟩
  rw [h.look] at this
  obtain ⟨c, _, hc⟩ := mem_map.1 this
  rcases Nat.lt_or_ge i sp.out.length with hn | hn
  · exact hn
  · rw [getElem?_eq_none hn] at hc
    cases hc

theorem SpecInv.length {cs sp} (h : SpecInv cs sp) : sp.triVerts.length = cs.length := by
  have := congrArg List.length h.look
  simpa using this

theorem SpecInv.init : SpecInv [] ⟨[], [], []⟩ :=
  ⟨nodup_nil, rfl, by simp, by simp, by simp⟩

theorem getElem?_append_one_of_some {α} {l : List α} {i : Nat} {a : α} (c : α)
    (h : l[i]? = some a) : (l ++ [c])[i]? = some a := by
  have hi : i < l.length := by
    rcases Nat.lt_or_ge i l.length with hn | hn
    · exact hn
    · rw [getElem?_eq_none hn] at h; cases h
  rw [getElem?_append_left hi, h]

theorem getElem?_append_one_cases {α} {l : List α} {i : Nat} {a : α} (c : α)
    (h : (l ++ [c])[i]? = some a) : l[i]? = some a ∨ (i = l.length ∧ a = c) := by
  by_cases hi : i < l.length
  · rw [getElem?_append_left hi] at h; exact .inl h
  · rw [getElem?_append_right (by omega)] at h
    right
    have : i - l.length = 0 := by
      rcases Nat.eq_zero_or_pos (i - l.length) with hn | hn
      · exact hn
      · have : ([c] : List α)[i - l.length]? = none := getElem?_eq_none (by simp; omega)
        rw [this] at h; cases h
    rw [this] at h
    simp at h
    exact ⟨by omega, h.symm⟩

theorem SpecInv.step {cs sp} (h : SpecInv cs sp) (c : Nat × Nat) :
    SpecInv (cs ++ [c]) (cornerSpec sp c) := by
  unfold cornerSpec
  split
  · -- reuse of an existing output vertex
    rename_i idx hidx
    rw [findIdx?_eq_some_iff_getElem] at hidx
    obtain ⟨hlt, hp, _⟩ := hidx
    have hc : sp.out[idx] = c := by simpa using hp
    refine ⟨h.nodup, ?_, ?_, h.merge_to, h.not_merged⟩
    · simp only [map_append, h.look, map_cons, map_nil]
      rw [getElem?_eq_getElem hlt, hc]
    · intro o ho; exact mem_append_left _ (h.from_corner o ho)
  · -- a new output vertex
    rename_i hnone
    rw [findIdx?_eq_none_iff] at hnone
    have hcn : c ∉ sp.out := fun hm => by simpa using hnone c hm
    have hlook : (sp.triVerts ++ [sp.out.length]).map (fun i => (sp.out ++ [c])[i]?)
        = (cs ++ [c]).map some := by
      simp only [map_append, map_cons, map_nil]
      congr 1
      · rw [← h.look]
        apply map_congr_left
        intro i hi
        exact getElem?_append_left (h.lt i hi)
      · simp
    have hfrom : ∀ o ∈ sp.out ++ [c], o ∈ cs ++ [c] := by
      intro o ho
      rcases mem_append.1 ho with ho | ho
      · exact mem_append_left _ (h.from_corner o ho)
      · exact mem_append_right _ ho
    have hnd : (sp.out ++ [c]).Nodup := by
      rw [nodup_append]
      refine ⟨h.nodup, by simp, ?_⟩
      intro a ha b hb
      simp only [mem_cons, not_mem_nil, or_false] at hb
      subst hb
      intro hab; subst hab; exact hcn ha
    -- old merge entries keep their meaning
    have hold : ∀ m ∈ sp.merges, ∃ o, (sp.out ++ [c])[m.1]? = some o ∧
        fst1 (sp.out ++ [c]) o.1 = some m.2 := by
      intro m hm
      obtain ⟨o, h1, h2⟩ := h.merge_to m hm
      exact ⟨o, getElem?_append_one_of_some c h1, fst1_append_of_some c h2⟩
    split
    · rename_i to hto
      refine ⟨hnd, hlook, hfrom, ?_, ?_⟩
      · intro m hm
        rcases mem_append.1 hm with hm | hm
        · exact hold m hm
        · simp only [mem_cons, not_mem_nil, or_false] at hm
          subst hm
          exact ⟨c, by simp, fst1_append_of_some c hto⟩
      · intro idx o ho hnm
        simp only [map_append, map_cons, map_nil, mem_append, mem_cons, not_mem_nil, or_false,
          not_or] at hnm
        rcases getElem?_append_one_cases c ho with ho | ⟨hi, _⟩
        · exact fst1_append_of_some c (h.not_merged idx o ho hnm.1)
        · exact absurd hi hnm.2
    · rename_i hto
      refine ⟨hnd, hlook, hfrom, hold, ?_⟩
      intro idx o ho hnm
      rcases getElem?_append_one_cases c ho with ho | ⟨hi, ho'⟩
      · exact fst1_append_of_some c (h.not_merged idx o ho hnm)
      · subst hi; subst ho'
        exact fst1_append_of_none o hto

theorem specInv_foldl {cs sp} (h : SpecInv cs sp) (cs' : List (Nat × Nat)) :
    SpecInv (cs ++ cs') (cs'.foldl cornerSpec sp) := by
  induction cs' generalizing cs sp with
  | nil => simpa using h
  | cons c cs' ih =>
    have := ih (h.step c)
    simpa using this

theorem specInv_export (cs : List (Nat × Nat)) : SpecInv cs (exportVertsSpec cs) := by
  have := specInv_foldl SpecInv.init cs
  simpa [exportVertsSpec] using this

/-! ## reading the exported indices through the merge vectors -/

theorem zip_map_fst_snd {α β} (l : List (α × β)) : (l.map (·.1)).zip (l.map (·.2)) = l := by
  induction l with
  | nil => rfl
  | cons a l ih => simp only [map_cons, zip_cons_cons, ih]

open MV.Mesh in
/-- `mergeFun` sends every output index to the first output index of its position vertex -/
theorem SpecInv.mergeFun_eq {cs sp} (h : SpecInv cs sp) {idx : Nat} {o : Nat × Nat}
    (ho : sp.out[idx]? = some o) :
    fst1 sp.out o.1 = some (mergeFun (sp.merges.map (·.1)) (sp.merges.map (·.2)) idx) := by
  unfold mergeFun
  rw [zip_map_fst_snd]
  split
  · rename_i ft hft
    have hm : ft ∈ sp.merges := by
      have := mem_of_find?_eq_some hft
      simpa using this
    have h1 : ft.1 = idx := by simpa using find?_some hft
    obtain ⟨o', ho', hf⟩ := h.merge_to ft hm
    rw [h1, ho] at ho'
    cases ho'
    exact hf
  · rename_i hnone
    apply h.not_merged idx o ho
    intro hmem
    obtain ⟨m, hm, hm1⟩ := mem_map.1 hmem
    rw [find?_eq_none] at hnone
    have := hnone m (by simpa using hm)
    simp [hm1] at this

/-- first output index of position vertex `v` in the export of `cs` (0 if `v` does not occur) -/
def firstIdx (cs : List (Nat × Nat)) (v : Nat) : Nat := (fst1 (exportVertsSpec cs).out v).getD 0

theorem mem_out_of_mem (cs : List (Nat × Nat)) {c : Nat × Nat} (hc : c ∈ cs) :
    c ∈ (exportVertsSpec cs).out := by
  have h := specInv_export cs
  have : some c ∈ (exportVertsSpec cs).triVerts.map (fun i => (exportVertsSpec cs).out[i]?) := by
    rw [h.look]; exact mem_map.2 ⟨c, hc, rfl⟩
  obtain ⟨i, _, hi⟩ := mem_map.1 this
  exact mem_of_getElem? hi

theorem firstIdx_spec (cs : List (Nat × Nat)) {v : Nat} (hv : v ∈ cs.map (·.1)) :
    ∃ o, (exportVertsSpec cs).out[firstIdx cs v]? = some o ∧ o.1 = v := by
  obtain ⟨c, hc, rfl⟩ := mem_map.1 hv
  obtain ⟨i, hi⟩ := fst1_isSome_of_mem (mem_out_of_mem cs hc)
  unfold firstIdx
  rw [hi]
  exact fst1_some_getElem hi

theorem firstIdx_lt (cs : List (Nat × Nat)) {v : Nat} (hv : v ∈ cs.map (·.1)) :
    firstIdx cs v < (exportVertsSpec cs).out.length := by
  obtain ⟨o, ho, _⟩ := firstIdx_spec cs hv
  rcases Nat.lt_or_ge (firstIdx cs v) (exportVertsSpec cs).out.length with hn | hn
  · exact hn
  · rw [getElem?_eq_none hn] at ho; cases ho

theorem firstIdx_inj (cs : List (Nat × Nat)) {u v : Nat} (hu : u ∈ cs.map (·.1))
    (hv : v ∈ cs.map (·.1)) (h : firstIdx cs u = firstIdx cs v) : u = v := by
  obtain ⟨o, ho, ho1⟩ := firstIdx_spec cs hu
  obtain ⟨o', ho', ho1'⟩ := firstIdx_spec cs hv
  rw [h, ho'] at ho
  cases ho
  rw [← ho1, ← ho1']

open MV.Mesh in
theorem triVerts_mergeFun (cs : List (Nat × Nat)) :
    (exportVertsSpec cs).triVerts.map
        (mergeFun ((exportVertsSpec cs).merges.map (·.1)) ((exportVertsSpec cs).merges.map (·.2)))
      = cs.map (fun c => firstIdx cs c.1) := by
  have h := specInv_export cs
  apply ext_getElem
  · simp [h.length]
  · intro k h1 h2
    simp only [length_map] at h1 h2
    simp only [getElem_map]
    have hl := congrArg (fun l => l[k]?) h.look
    simp only [getElem?_map, getElem?_eq_getElem h1, getElem?_eq_getElem h2, Option.map_some] at hl
    have := h.mergeFun_eq (Option.some.inj hl)
    unfold firstIdx
    rw [this]; rfl

/-- an output index that is not in `mergeFrom` is the first index of a corner's position vertex -/
theorem not_mergeFrom (cs : List (Nat × Nat)) {idx : Nat}
    (hidx : idx < (exportVertsSpec cs).out.length)
    (hn : idx ∉ (exportVertsSpec cs).merges.map (·.1)) :
    ∃ c ∈ cs, idx = firstIdx cs c.1 := by
  have h := specInv_export cs
  have ho : (exportVertsSpec cs).out[idx]? = some (exportVertsSpec cs).out[idx] :=
    getElem?_eq_getElem hidx
  refine ⟨_, h.from_corner _ (getElem_mem hidx), ?_⟩
  unfold firstIdx
  rw [h.not_merged idx _ ho hn]; rfl

/-! ## the array transliteration refines the specification -/

/-- the bin `vertPropPair[v]` as a function of the emitted list: (prop, idx), idx ascending -/
def binOf (out : List (Nat × Nat)) (v : Nat) : List (Nat × Nat) :=
  (out.zipIdx.filter (fun oi => oi.1.1 == v)).map (fun oi => (oi.1.2, oi.2))

theorem binOf_find_go (out : List (Nat × Nat)) (v p k : Nat) :
    (((out.zipIdx k).filter (fun oi => oi.1.1 == v)).map (fun oi => (oi.1.2, oi.2))).find?
        (fun b => b.1 == p)
      = (out.findIdx? (fun o => o == (v, p))).map (fun i => (p, i + k)) := by
  induction out generalizing k with
  | nil => rfl
  | cons o out ih =>
    obtain ⟨ov, op⟩ := o
    simp only [zipIdx_cons, filter_cons, findIdx?_cons]
    have hmm : ∀ x : Option Nat, Option.map (fun i => (p, i + (k + 1))) x
        = Option.map (fun i => (p, i + k)) (Option.map (fun i => i + 1) x) := by
      intro x; cases x with
      | none => rfl
      | some i => simp only [Option.map_some, Nat.add_assoc, Nat.add_comm 1 k]
    by_cases hv : ov = v
    · subst hv
      by_cases hp : op = p
      · subst hp
        simp
      · have h1 : (op == p) = false := by simpa using hp
        have h2 : ((ov, op) == (ov, p)) = false := by simp [hp]
        simp only [beq_self_eq_true, if_true, map_cons, find?_cons, h1, h2, ih (k + 1)]
        exact hmm _
    · have h1 : (ov == v) = false := by simpa using hv
      have h2 : ((ov, op) == (v, p)) = false := by simp [hv]
      simp only [h1, h2, Bool.false_eq_true, if_false, ih (k + 1)]
      exact hmm _

theorem binOf_find (out : List (Nat × Nat)) (v p : Nat) :
    (binOf out v).find? (fun b => b.1 == p)
      = (out.findIdx? (fun o => o == (v, p))).map (fun i => (p, i)) := by
  have := binOf_find_go out v p 0
  simpa [binOf] using this

theorem binOf_append_same (out : List (Nat × Nat)) (c : Nat × Nat) :
    binOf (out ++ [c]) c.1 = binOf out c.1 ++ [(c.2, out.length)] := by
  simp [binOf, zipIdx_append]

theorem binOf_append_ne (out : List (Nat × Nat)) (c : Nat × Nat) {v : Nat} (h : c.1 ≠ v) :
    binOf (out ++ [c]) v = binOf out v := by
  have : (c.1 == v) = false := by simpa using h
  simp [binOf, zipIdx_append, this]

/-- refinement relation between the array state and the specification state -/
structure Refines (numVert : Nat) (s : VState) (sp : VSpec) : Prop where
  out : s.out.toList = sp.out
  tri : s.triVerts.toList = sp.triVerts
  mf : s.mergeFrom.toList = sp.merges.map (·.1)
  mt : s.mergeTo.toList = sp.merges.map (·.2)
  bsize : s.bins.size = numVert
  vsize : s.vert2idx.size = numVert
  bins : ∀ v, v < numVert → s.bins.getD v [] = binOf sp.out v
  v2i : ∀ v, v < numVert → s.vert2idx.getD v none = fst1 sp.out v

theorem Refines.init (numVert : Nat) : Refines numVert (VState.init numVert) ⟨[], [], []⟩ := by
  refine ⟨rfl, rfl, rfl, rfl, by simp [VState.init], by simp [VState.init], ?_, ?_⟩
  · intro v hv
    simp [VState.init, Array.getD_eq_getD_getElem?, hv, binOf]
  · intro v hv
    simp [VState.init, Array.getD_eq_getD_getElem?, hv, fst1]

theorem Refines.step {numVert : Nat} {s : VState} {sp : VSpec} (h : Refines numVert s sp)
    (c : Nat × Nat) (hc : c.1 < numVert) : Refines numVert (cornerStep s c) (cornerSpec sp c) := by
  obtain ⟨v, p⟩ := c
  have hsize : s.out.size = sp.out.length := by rw [← h.out, Array.length_toList]
  unfold cornerStep cornerSpec
  simp only [h.bins v hc, binOf_find]
  cases hf : sp.out.findIdx? (fun o => o == (v, p)) with
  | some i =>
    simp only [Option.map_some]
    exact ⟨h.out, by simp [h.tri], h.mf, h.mt, h.bsize, h.vsize, h.bins, h.v2i⟩
  | none =>
    simp only [Option.map_none, h.v2i v hc]
    have hbins : ∀ v', v' < numVert →
        (s.bins.setIfInBounds v (binOf sp.out v ++ [(p, s.out.size)])).getD v' []
          = binOf (sp.out ++ [(v, p)]) v' := by
      intro v' hv'
      simp only [Array.getD_eq_getD_getElem?, Array.getElem?_setIfInBounds, h.bsize]
      by_cases hvv : v = v'
      · subst hvv
        simp only [if_true, hc, Option.getD_some]
        rw [binOf_append_same (c := (v, p)), hsize]
      · simp only [hvv, if_false]
        rw [binOf_append_ne (c := (v, p)) (h := hvv)]
        have := h.bins v' hv'
        simpa [Array.getD_eq_getD_getElem?] using this
    cases hto : fst1 sp.out v with
    | some to =>
      have hto' : sp.out.findIdx? (fun o => o.1 == v) = some to := hto
      simp only [hto']
      refine ⟨by simp [h.out], by simp [h.tri, hsize], by simp [h.mf, hsize], by simp [h.mt],
        by simp [h.bsize], h.vsize, hbins, ?_⟩
      intro v' hv'
      simp only []
      rw [h.v2i v' hv']
      by_cases hvv : v = v'
      · subst hvv
        exact (fst1_append_of_some (v, p) hto).symm ▸ hto
      · exact (fst1_append_of_ne (c := (v, p)) (h := hvv)).symm
    | none =>
      have hto' : sp.out.findIdx? (fun o => o.1 == v) = none := hto
      simp only [hto']
      refine ⟨by simp [h.out], by simp [h.tri, hsize], h.mf, h.mt,
        by simp [h.bsize], by simp [h.vsize], hbins, ?_⟩
      intro v' hv'
      simp only [Array.getD_eq_getD_getElem?, Array.getElem?_setIfInBounds, h.vsize]
      by_cases hvv : v = v'
      · subst hvv
        simp only [if_true, hc, Option.getD_some]
        rw [fst1_append_of_none (c := (v, p)) hto, hsize]
      · simp only [hvv, if_false]
        rw [fst1_append_of_ne (c := (v, p)) (h := hvv)]
        have := h.v2i v' hv'
        simpa [Array.getD_eq_getD_getElem?] using this

theorem refines_foldl {numVert : Nat} {s : VState} {sp : VSpec} (h : Refines numVert s sp)
    (cs : List (Nat × Nat)) (hcs : ∀ c ∈ cs, c.1 < numVert) :
    Refines numVert (cs.foldl cornerStep s) (cs.foldl cornerSpec sp) := by
  induction cs generalizing s sp with
  | nil => exact h
  | cons c cs ih =>
    simp only [foldl_cons]
    exact ih (h.step c (hcs c mem_cons_self)) (fun c' hc' => hcs c' (mem_cons_of_mem _ hc'))

theorem refines_export (numVert : Nat) (cs : List (Nat × Nat)) (hcs : ∀ c ∈ cs, c.1 < numVert) :
    Refines numVert (exportVerts numVert cs) (exportVertsSpec cs) :=
  refines_foldl (Refines.init numVert) cs hcs

end MV.Export

/-! ## relabelling by a function injective on the used vertices -/
namespace MV.Mesh
open List

theorem used_map {f : Nat → Nat} {ts : List Tri} {w : Nat} :
    Used (ts.map (mapTri f)) w ↔ ∃ v, Used ts v ∧ f v = w := by
  unfold Used
  constructor
  · rintro ⟨t, ht, hw⟩
    obtain ⟨t0, ht0, rfl⟩ := mem_map.1 ht
    rcases mem_triVerts.1 hw with rfl | rfl | rfl
    · exact ⟨t0.1, ⟨t0, ht0, by simp [triVerts]⟩, rfl⟩
    · exact ⟨t0.2.1, ⟨t0, ht0, by simp [triVerts]⟩, rfl⟩
    · exact ⟨t0.2.2, ⟨t0, ht0, by simp [triVerts]⟩, rfl⟩
  · rintro ⟨v, ⟨t, ht, hv⟩, rfl⟩
    refine ⟨mapTri f t, mem_map.2 ⟨t, ht, rfl⟩, ?_⟩
    rcases mem_triVerts.1 hv with rfl | rfl | rfl <;> simp [triVerts, mapTri]

theorem closedOriented_map_of_injOn (f : Nat → Nat) (ts : List Tri)
    (hinj : ∀ u v, Used ts u → Used ts v → f u = f v → u = v) (h : ClosedOriented ts) :
    ClosedOriented (ts.map (mapTri f)) := by
  rw [closedOriented_iff_edges] at h ⊢
  rw [dirEdges_map]
  obtain ⟨hnd, hno, hm⟩ := h
  have hs : ∀ {e : Nat × Nat}, e ∈ dirEdges ts → Used ts e.1 := fun {e} he =>
    used_iff_start.2 ⟨e.2, he⟩
  have he : ∀ {e : Nat × Nat}, e ∈ dirEdges ts → Used ts e.2 := fun {e} he =>
    used_iff_end.2 ⟨e.1, he⟩
  have ginj : ∀ x ∈ dirEdges ts, ∀ y ∈ dirEdges ts,
      (fun e : Nat × Nat => (f e.1, f e.2)) x = (fun e : Nat × Nat => (f e.1, f e.2)) y → x = y := by
    intro x hx y hy h
    simp only [Prod.mk.injEq] at h
    exact Prod.ext (hinj _ _ (hs hx) (hs hy) h.1) (hinj _ _ (he hx) (he hy) h.2)
  rw [nodup_map_iff_of_injOn ginj]
  refine ⟨?_, hno, ?_⟩
  · intro e' he'
    obtain ⟨e, hemem, rfl⟩ := mem_map.1 he'
    intro heq
    exact hnd e hemem (hinj _ _ (hs hemem) (he hemem) heq)
  · intro a b hab
    obtain ⟨e, hemem, heq⟩ := mem_map.1 hab
    simp only [Prod.mk.injEq] at heq
    exact mem_map.2 ⟨(e.2, e.1), hm _ _ hemem, by simp only [heq.1, heq.2]⟩

theorem mapTri_comp (g f : Nat → Nat) (t : Tri) : mapTri g (mapTri f t) = mapTri (fun v => g (f v)) t := rfl

end MV.Mesh
