import Mathlib.Tactic.Ring
import Mathlib.Tactic.LinearCombination
/-!
Affine algebra behind `Translate/Rotate/Scale/Mirror/Transform` (property C17), over an
arbitrary commutative ring `R` (the statements are polynomial identities, so they hold in ℝ and
in ℚ; floating-point rounding is outside).

  `Aff R`     a `mat3x4` of linalg.h: four COLUMNS `c0 c1 c2 c3` (`m[0..3]`), the last one the translation
  `Aff.apply` `m * vec4(p, 1.0)`                       (impl.cpp `Transform4x3`)
  `Aff.comp`  `m * Mat4(n)`                            (csg_tree.cpp:119, 613; impl.cpp:614)
  `rotX/Y/Z`  the three `mat3` literals of `CsgNode::Rotate` (csg_tree.cpp:74-82), column by column
  `tetVol`    6 × signed volume of the tetrahedron `(a, b, c, d)`; a closed mesh's `Volume()` is
              `Σ_tri tetVol(o, v0, v1, v2) / 6` for any apex `o`
-/
namespace MV.Affine

structure V3 (R : Type) where
  x : R
  y : R
  z : R
deriving DecidableEq, Repr

structure Aff (R : Type) where
  c0 : V3 R
  c1 : V3 R
  c2 : V3 R
  c3 : V3 R
deriving DecidableEq, Repr

variable {R : Type}

@[ext] theorem V3.ext' {a b : V3 R} (hx : a.x = b.x) (hy : a.y = b.y) (hz : a.z = b.z) : a = b := by
  cases a; cases b; simp_all

@[ext] theorem Aff.ext' {m n : Aff R} (h0 : m.c0 = n.c0) (h1 : m.c1 = n.c1) (h2 : m.c2 = n.c2)
    (h3 : m.c3 = n.c3) : m = n := by
  cases m; cases n; simp_all

variable [CommRing R]

def V3.add (a b : V3 R) : V3 R := ⟨a.x + b.x, a.y + b.y, a.z + b.z⟩
def V3.sub (a b : V3 R) : V3 R := ⟨a.x - b.x, a.y - b.y, a.z - b.z⟩

/-- linear part times a vector: `c0 * v.x + c1 * v.y + c2 * v.z` -/
def Aff.lin (m : Aff R) (v : V3 R) : V3 R :=
  ⟨m.c0.x * v.x + m.c1.x * v.y + m.c2.x * v.z,
   m.c0.y * v.x + m.c1.y * v.y + m.c2.y * v.z,
   m.c0.z * v.x + m.c1.z * v.y + m.c2.z * v.z⟩

/-- `m * vec4(p, 1)` -/
def Aff.apply (m : Aff R) (p : V3 R) : V3 R := (m.lin p).add m.c3

/-- `m * Mat4(n)`: column `j` of the product is `m` applied to column `j` of `Mat4(n)`
    (whose fourth row is `0 0 0 1`) -/
def Aff.comp (m n : Aff R) : Aff R := ⟨m.lin n.c0, m.lin n.c1, m.lin n.c2, (m.lin n.c3).add m.c3⟩

def Aff.id : Aff R := ⟨⟨1, 0, 0⟩, ⟨0, 1, 0⟩, ⟨0, 0, 1⟩, ⟨0, 0, 0⟩⟩

/-- `la::determinant(mat3(m))` -/
def Aff.det (m : Aff R) : R :=
  m.c0.x * (m.c1.y * m.c2.z - m.c2.y * m.c1.z) - m.c1.x * (m.c0.y * m.c2.z - m.c2.y * m.c0.z)
    + m.c2.x * (m.c0.y * m.c1.z - m.c1.y * m.c0.z)

def det3 (u v w : V3 R) : R :=
  u.x * (v.y * w.z - w.y * v.z) - v.x * (u.y * w.z - w.y * u.z) + w.x * (u.y * v.z - v.y * u.z)

/-- six times the signed volume of the tetrahedron with apex `a` over the triangle `(b, c, d)` -/
def tetVol (a b c d : V3 R) : R := det3 (b.sub a) (c.sub a) (d.sub a)

def dot (u v : V3 R) : R := u.x * v.x + u.y * v.y + u.z * v.z

/-- the linear part has orthonormal columns -/
def Aff.Orthogonal (m : Aff R) : Prop :=
  dot m.c0 m.c0 = 1 ∧ dot m.c1 m.c1 = 1 ∧ dot m.c2 m.c2 = 1 ∧
  dot m.c0 m.c1 = 0 ∧ dot m.c0 m.c2 = 0 ∧ dot m.c1 m.c2 = 0

/-- `mat3 rX({1, 0, 0}, {0, cosd x, sind x}, {0, -sind x, cosd x})` etc. (columns), no translation -/
def rotX (s c : R) : Aff R := ⟨⟨1, 0, 0⟩, ⟨0, c, s⟩, ⟨0, -s, c⟩, ⟨0, 0, 0⟩⟩
def rotY (s c : R) : Aff R := ⟨⟨c, 0, -s⟩, ⟨0, 1, 0⟩, ⟨s, 0, c⟩, ⟨0, 0, 0⟩⟩
def rotZ (s c : R) : Aff R := ⟨⟨c, s, 0⟩, ⟨-s, c, 0⟩, ⟨0, 0, 1⟩, ⟨0, 0, 0⟩⟩

/-- `mat3x4 transform(rZ * rY * rX, vec3())` -/
def rotate (sx cx sy cy sz cz : R) : Aff R := ((rotZ sz cz).comp (rotY sy cy)).comp (rotX sx cx)

/-- `Translate`: identity with `transform[3] += t` -/
def translate (t : V3 R) : Aff R := ⟨⟨1, 0, 0⟩, ⟨0, 1, 0⟩, ⟨0, 0, 1⟩, t⟩
/-- `Scale`: `transform[i][i] = v[i]` -/
def scale (v : V3 R) : Aff R := ⟨⟨v.x, 0, 0⟩, ⟨0, v.y, 0⟩, ⟨0, 0, v.z⟩, ⟨0, 0, 0⟩⟩
/-- `Mirror` over the plane with UNIT normal `n`: `identity - 2 * outerprod(n, n)` -/
def mirror (n : V3 R) : Aff R :=
  ⟨⟨1 - 2 * n.x * n.x, -2 * n.y * n.x, -2 * n.z * n.x⟩, ⟨-2 * n.x * n.y, 1 - 2 * n.y * n.y, -2 * n.z * n.y⟩,
   ⟨-2 * n.x * n.z, -2 * n.y * n.z, 1 - 2 * n.z * n.z⟩, ⟨0, 0, 0⟩⟩

/-! ## theorems -/

theorem apply_comp (m n : Aff R) (p : V3 R) : (m.comp n).apply p = m.apply (n.apply p) := by
  ext <;> simp [Aff.comp, Aff.apply, Aff.lin, V3.add] <;> ring

theorem comp_assoc (m n k : Aff R) : (m.comp n).comp k = m.comp (n.comp k) := by
  ext <;> simp [Aff.comp, Aff.lin, V3.add] <;> ring

theorem comp_id (m : Aff R) : m.comp Aff.id = m ∧ Aff.id.comp m = m := by
  constructor <;> (ext <;> simp [Aff.comp, Aff.lin, V3.add, Aff.id])

theorem det_comp (m n : Aff R) : (m.comp n).det = m.det * n.det := by
  simp [Aff.comp, Aff.det, Aff.lin, V3.add]; ring

theorem tetVol_apply (m : Aff R) (a b c d : V3 R) :
    tetVol (m.apply a) (m.apply b) (m.apply c) (m.apply d) = m.det * tetVol a b c d := by
  simp [tetVol, det3, Aff.apply, Aff.lin, V3.add, V3.sub, Aff.det]; ring

theorem tetVol_swap (a b c d : V3 R) : tetVol a b d c = - tetVol a b c d := by
  simp [tetVol, det3, V3.sub]; ring

theorem rotX_orth (s c : R) (h : s * s + c * c = 1) : (rotX s c).Orthogonal ∧ (rotX s c).det = 1 := by
  refine ⟨⟨?_, ?_, ?_, ?_, ?_, ?_⟩, ?_⟩ <;> simp only [rotX, dot, Aff.det] <;> first | ring1 | linear_combination h

theorem rotY_orth (s c : R) (h : s * s + c * c = 1) : (rotY s c).Orthogonal ∧ (rotY s c).det = 1 := by
  refine ⟨⟨?_, ?_, ?_, ?_, ?_, ?_⟩, ?_⟩ <;> simp only [rotY, dot, Aff.det] <;> first | ring1 | linear_combination h

theorem rotZ_orth (s c : R) (h : s * s + c * c = 1) : (rotZ s c).Orthogonal ∧ (rotZ s c).det = 1 := by
  refine ⟨⟨?_, ?_, ?_, ?_, ?_, ?_⟩, ?_⟩ <;> simp only [rotZ, dot, Aff.det] <;> first | ring1 | linear_combination h

/-- orthogonal matrices are closed under the product -/
theorem orth_comp (m n : Aff R) (hm : m.Orthogonal) (hn : n.Orthogonal) : (m.comp n).Orthogonal := by
  obtain ⟨m00, m11, m22, m01, m02, m12⟩ := hm
  obtain ⟨n00, n11, n22, n01, n02, n12⟩ := hn
  simp only [dot] at m00 m11 m22 m01 m02 m12 n00 n11 n22 n01 n02 n12
  refine ⟨?_, ?_, ?_, ?_, ?_, ?_⟩ <;> simp only [Aff.comp, Aff.lin, dot]
  · linear_combination n.c0.x * n.c0.x * m00 + n.c0.y * n.c0.y * m11 + n.c0.z * n.c0.z * m22
      + 2 * n.c0.x * n.c0.y * m01 + 2 * n.c0.x * n.c0.z * m02 + 2 * n.c0.y * n.c0.z * m12 + n00
  · linear_combination n.c1.x * n.c1.x * m00 + n.c1.y * n.c1.y * m11 + n.c1.z * n.c1.z * m22
      + 2 * n.c1.x * n.c1.y * m01 + 2 * n.c1.x * n.c1.z * m02 + 2 * n.c1.y * n.c1.z * m12 + n11
  · linear_combination n.c2.x * n.c2.x * m00 + n.c2.y * n.c2.y * m11 + n.c2.z * n.c2.z * m22
      + 2 * n.c2.x * n.c2.y * m01 + 2 * n.c2.x * n.c2.z * m02 + 2 * n.c2.y * n.c2.z * m12 + n22
  · linear_combination n.c0.x * n.c1.x * m00 + n.c0.y * n.c1.y * m11 + n.c0.z * n.c1.z * m22
      + (n.c0.x * n.c1.y + n.c0.y * n.c1.x) * m01 + (n.c0.x * n.c1.z + n.c0.z * n.c1.x) * m02
      + (n.c0.y * n.c1.z + n.c0.z * n.c1.y) * m12 + n01
  · linear_combination n.c0.x * n.c2.x * m00 + n.c0.y * n.c2.y * m11 + n.c0.z * n.c2.z * m22
      + (n.c0.x * n.c2.y + n.c0.y * n.c2.x) * m01 + (n.c0.x * n.c2.z + n.c0.z * n.c2.x) * m02
      + (n.c0.y * n.c2.z + n.c0.z * n.c2.y) * m12 + n02
  · linear_combination n.c1.x * n.c2.x * m00 + n.c1.y * n.c2.y * m11 + n.c1.z * n.c2.z * m22
      + (n.c1.x * n.c2.y + n.c1.y * n.c2.x) * m01 + (n.c1.x * n.c2.z + n.c1.z * n.c2.x) * m02
      + (n.c1.y * n.c2.z + n.c1.z * n.c2.y) * m12 + n12

/-- an orthogonal linear part preserves dot products of differences (hence lengths and angles) -/
theorem orth_preserves_dot (m : Aff R) (hm : m.Orthogonal) (u v : V3 R) :
    dot (m.lin u) (m.lin v) = dot u v := by
  obtain ⟨m00, m11, m22, m01, m02, m12⟩ := hm
  simp only [dot] at m00 m11 m22 m01 m02 m12
  simp only [Aff.lin, dot]
  linear_combination u.x * v.x * m00 + u.y * v.y * m11 + u.z * v.z * m22
    + (u.x * v.y + u.y * v.x) * m01 + (u.x * v.z + u.z * v.x) * m02 + (u.y * v.z + u.z * v.y) * m12

theorem mirror_det (n : V3 R) (h : dot n n = 1) : (mirror n).det = -1 ∧ (mirror n).Orthogonal := by
  simp only [dot] at h
  refine ⟨?_, ?_, ?_, ?_, ?_, ?_, ?_⟩ <;> simp only [mirror, Aff.det, dot]
  · linear_combination (-2 : R) * h
  · linear_combination (4 * n.x * n.x) * h
  · linear_combination (4 * n.y * n.y) * h
  · linear_combination (4 * n.z * n.z) * h
  · linear_combination (4 * n.x * n.y) * h
  · linear_combination (4 * n.x * n.z) * h
  · linear_combination (4 * n.y * n.z) * h

end MV.Affine
