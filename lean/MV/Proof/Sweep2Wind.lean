import MV.Model.Sweep2
import MV.Gen.WindRule
/-! Winding rules and the emission of one status column (C11 (a), (b)). -/
namespace MV.Sweep2

/-! ### the rules, on all integers -/

theorem cmod_two_ne_zero_iff (w : Int) : (cmod w 2 != 0) = true ↔ w % 2 = 1 := by
  unfold cmod
  simp only [bne_iff_ne, ne_eq]
  rw [← Int.dvd_iff_tmod_eq_zero, Int.dvd_iff_emod_eq_zero]; omega

theorem isInside_add (w : Int) : isInside .add w = true ↔ 0 < w := by simp [isInside]
theorem isInside_intersect (w : Int) : isInside .intersect w = true ↔ 1 < w := by simp [isInside]
theorem isInside_evenOdd (w : Int) : isInside .evenOdd w = true ↔ w % 2 = 1 := by
  simp only [isInside]; exact cmod_two_ne_zero_iff w

theorem isInside_zero (r : WindRule) : isInside r 0 = false := by
  cases r <;> decide

theorem isInside_evenOdd_periodic (w : Int) : isInside .evenOdd (w + 2) = isInside .evenOdd w := by
  have h1 := isInside_evenOdd (w + 2)
  have h2 := isInside_evenOdd w
  cases ha : isInside .evenOdd (w + 2) <;> cases hb : isInside .evenOdd w <;> simp_all <;> omega

theorem isInside_add_mono {w w' : Int} (h : w ≤ w') (hw : isInside .add w = true) :
    isInside .add w' = true := by
  rw [isInside_add] at *; omega

theorem isInside_intersect_mono {w w' : Int} (h : w ≤ w') (hw : isInside .intersect w = true) :
    isInside .intersect w' = true := by
  rw [isInside_intersect] at *; omega

/-! ### Boolean formulas on 0/1 operand windings -/

theorem opInside_add (a b : Int) (ha : a = 0 ∨ a = 1) (hb : b = 0 ∨ b = 1) :
    opInside .add a b = (decide (a = 1) || decide (b = 1)) := by
  rcases ha with rfl | rfl <;> rcases hb with rfl | rfl <;> decide

theorem opInside_subtract (a b : Int) (ha : a = 0 ∨ a = 1) (hb : b = 0 ∨ b = 1) :
    opInside .subtract a b = (decide (a = 1) && !decide (b = 1)) := by
  rcases ha with rfl | rfl <;> rcases hb with rfl | rfl <;> decide

theorem opInside_intersect (a b : Int) (ha : a = 0 ∨ a = 1) (hb : b = 0 ∨ b = 1) :
    opInside .intersect a b = (decide (a = 1) && decide (b = 1)) := by
  rcases ha with rfl | rfl <;> rcases hb with rfl | rfl <;> decide

theorem sum_zero_one_nonneg (bs : List Int) (hb : ∀ b ∈ bs, b = 0 ∨ b = 1) : 0 ≤ bs.sum := by
  induction bs with
  | nil => simp
  | cons b bs ih =>
    have h1 := hb b (by simp)
    have h2 := ih (fun x hx => hb x (by simp [hx]))
    simp only [List.sum_cons]; omega

theorem sum_zero_one_pos_iff (bs : List Int) (hb : ∀ b ∈ bs, b = 0 ∨ b = 1) :
    0 < bs.sum ↔ ∃ b ∈ bs, b = 1 := by
  induction bs with
  | nil => simp
  | cons b bs ih =>
    have h1 := hb b (by simp)
    have hb' : ∀ x ∈ bs, x = 0 ∨ x = 1 := fun x hx => hb x (by simp [hx])
    have h2 := ih hb'
    have h3 := sum_zero_one_nonneg bs hb'
    simp only [List.sum_cons, List.mem_cons, exists_eq_or_imp]
    rcases h1 with rfl | rfl
    · simp only [Int.zero_add]; rw [h2]; simp
    · constructor
      · intro _; left; rfl
      · intro _; omega

/-! ### EmitBoundary -/

theorem ind_cases (b : Bool) : ind b = 0 ∨ ind b = 1 := by cases b <;> simp [ind]

/-- the orientation logic of `EmitBoundary` followed by the key normalisation of `PolySetAdd`
    stores `+1` under the lex-forward key when only the upper side is filled and `−1` when only
    the lower side is — independently of the direction the piece was handed over in. -/
theorem emitLex_eq_emitSign (rule : WindRule) (fwd : Bool) (below above : Int) :
    emitLex rule fwd below above = emitSign rule below above := by
  unfold emitLex emitRaw emitSign polyNorm ind
  cases isInside rule below <;> cases isInside rule above <;> cases fwd <;> simp

theorem emitSign_range (rule : WindRule) (below above : Int) :
    emitSign rule below above = -1 ∨ emitSign rule below above = 0 ∨ emitSign rule below above = 1 := by
  unfold emitSign ind
  cases isInside rule below <;> cases isInside rule above <;> simp

theorem emitFrom_length (rule : WindRule) (fwd : Bool) (w : Int) (ms : List Int) :
    (emitFrom rule fwd w ms).length = ms.length := by
  induction ms generalizing w with
  | nil => simp [emitFrom]
  | cons m ms ih => simp [emitFrom, ih]

/-- telescoping: the partial sums of the emitted signs are the fill indicator of the running
    winding, relative to the fill below the column -/
theorem emitFrom_prefix_sum (rule : WindRule) (fwd : Bool) (w : Int) (ms : List Int) (k : Nat) :
    ((emitFrom rule fwd w ms).take k).sum
      = ind (isInside rule (w + (ms.take k).sum)) - ind (isInside rule w) := by
  induction ms generalizing w k with
  | nil => simp [emitFrom]
  | cons m ms ih =>
    cases k with
    | zero => simp
    | succ k =>
      simp only [emitFrom, List.take_succ_cons, List.sum_cons, ih, emitLex_eq_emitSign, emitSign]
      have : w + m + (List.take k ms).sum = w + (m + (List.take k ms).sum) := by omega
      rw [this]; omega

theorem emitFrom_mem_range (rule : WindRule) (fwd : Bool) (w : Int) (ms : List Int) :
    ∀ e ∈ emitFrom rule fwd w ms, e = -1 ∨ e = 0 ∨ e = 1 := by
  induction ms generalizing w with
  | nil => simp [emitFrom]
  | cons m ms ih =>
    intro e he
    simp only [emitFrom, List.mem_cons] at he
    rcases he with rfl | he
    · rw [emitLex_eq_emitSign]; exact emitSign_range _ _ _
    · exact ih _ e he

end MV.Sweep2
