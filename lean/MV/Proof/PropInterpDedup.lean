import MV.Model.PropInterp
/-!
Lemmas for property C07 (interpolation half), part 3: the de-duplication loop of
`CreateProperties` (`cornerStep` / `runCorners` of `MV/Model/PropInterp.lean`), for EVERY
`Scalar` (in particular for `Float`): the two tables together behave as one finite map from keys
to property-vertex indices, every key is entered once, at its first corner, with that corner's row.
-/
namespace MV.PropInterp
section Dedup
variable {α : Type} [Scalar α]

/-- the table slot a key addresses: `propMissIdx[key.x][key.z]` or the entry `(x, z, w)` of bin
`propIdx[key.y]` -/
def St.find (idMiss : Nat) (st : St α) (k : Key) : Option Nat :=
  if k.isMiss idMiss then st.miss.lookup (k.x, k.z.toNat) else st.bins.lookup (k.y, k.x, k.z, k.w)

/-- keys the loop can produce: a key that goes through `propMissIdx` has `w = -1`
(so `(x, z)` determines it) -/
def Key.WF (idMiss : Nat) (k : Key) : Prop := k.isMiss idMiss = true → k.w = -1

theorem cornerKey_wf (P Q : Src α) (idMiss : Nat) (c : Corner α) (hv : c.vert ≠ idMiss) :
    (cornerKey P Q idMiss c).WF idMiss := by
  intro hm
  unfold cornerKey at hm ⊢
  by_cases hp : (srcOf P Q c.pq).numProp > 0
  · simp only [hp, if_true] at hm ⊢
    cases hc : classify c.uvw with
    | retained j => simp only
    | edge j =>
      rw [hc] at hm
      simp only [Key.isMiss, Bool.and_eq_true, beq_iff_eq] at hm
      exact absurd hm.1 hv
    | interior => simp only
  · simp only [hp, if_false]

theorem lookup_single {κ : Type} [BEq κ] [LawfulBEq κ] [DecidableEq κ] (a k : κ) (b : Nat) :
    List.lookup k [(a, b)] = if k = a then some b else none := by
  simp only [List.lookup]
  by_cases h : k = a
  · subst h; simp
  · have : (k == a) = false := by simpa using h
    simp [this, h]

theorem lookup_snoc {κ : Type} [BEq κ] [LawfulBEq κ] [DecidableEq κ] (l : List (κ × Nat)) (a k : κ) (b : Nat) :
    List.lookup k (l ++ [(a, b)]) = (List.lookup k l).or (if k = a then some b else none) := by
  rw [List.lookup_append, lookup_single]

/-- a miss-key is determined by `(x, z.toNat)` -/
theorem miss_key_inj {idMiss : Nat} {k k' : Key} (hk : k.isMiss idMiss = true)
    (hk' : k'.isMiss idMiss = true) (wk : k.WF idMiss) (wk' : k'.WF idMiss)
    (h : (k.x, k.z.toNat) = (k'.x, k'.z.toNat)) : k = k' := by
  have w1 := wk hk
  have w2 := wk' hk'
  simp only [Key.isMiss, Bool.and_eq_true, beq_iff_eq, decide_eq_true_eq] at hk hk'
  obtain ⟨x, y, z, w⟩ := k
  obtain ⟨x', y', z', w'⟩ := k'
  simp only [Prod.mk.injEq] at h
  simp only at hk hk' w1 w2
  simp only [Key.mk.injEq]
  refine ⟨h.1, by omega, by omega, by omega⟩

/-- entering `key ↦ idx` into the table it belongs to -/
def St.insert (idMiss : Nat) (st : St α) (key : Key) (idx : Nat) : St α :=
  if key.isMiss idMiss then { st with miss := st.miss ++ [((key.x, key.z.toNat), idx)] }
  else { st with bins := st.bins ++ [((key.y, key.x, key.z, key.w), idx)] }

omit [Scalar α] in
theorem find_insert (idMiss : Nat) (st : St α) (key k : Key) (idx : Nat)
    (wkey : key.WF idMiss) (wk : k.WF idMiss) (hnone : st.find idMiss key = none) :
    (st.insert idMiss key idx).find idMiss k = if k = key then some idx else st.find idMiss k := by
  unfold St.insert St.find at *
  by_cases hm : key.isMiss idMiss = true
  · simp only [hm, if_true] at hnone ⊢
    by_cases hk : k.isMiss idMiss = true
    · simp only [hk, if_true]
      rw [lookup_snoc]
      by_cases he : k = key
      · subst he; simp [hnone]
      · have : (k.x, k.z.toNat) ≠ (key.x, key.z.toNat) := fun h =>
          he (miss_key_inj hk hm wk wkey h)
        simp [this, he]
    · have hne : k ≠ key := fun h => hk (h ▸ hm)
      simp [hk, hne]
  · simp only [hm, Bool.false_eq_true, if_false] at hnone ⊢
    by_cases hk : k.isMiss idMiss = true
    · have hne : k ≠ key := fun h => hm (h ▸ hk)
      simp [hk, hne]
    · simp only [hk, Bool.false_eq_true, if_false]
      rw [lookup_snoc]
      by_cases he : k = key
      · subst he; simp [hnone]
      · have : (k.y, k.x, k.z, k.w) ≠ (key.y, key.x, key.z, key.w) := by
          intro h
          apply he
          obtain ⟨x, y, z, w⟩ := k
          obtain ⟨x', y', z', w'⟩ := key
          simp only [Prod.mk.injEq] at h
          simp only [Key.mk.injEq]
          exact ⟨h.2.1, h.1, h.2.2.1, h.2.2.2⟩
        simp [this, he]

/-- `cornerStep` in terms of `find` / `insert` -/
theorem cornerStep_found (P Q : Src α) (invertQ : Bool) (numProp idMiss : Nat) (st : St α)
    (c : Corner α) (e : Nat) (h : st.find idMiss (cornerKey P Q idMiss c) = some e) :
    ∃ o, cornerStep P Q invertQ numProp idMiss st c =
      { st with out := st.out.push e, oob := o } := by
  unfold cornerStep
  unfold St.find at h
  by_cases hm : (cornerKey P Q idMiss c).isMiss idMiss = true
  · simp only [hm, if_true] at h ⊢
    simp only [h]
    exact ⟨_, rfl⟩
  · simp only [hm, Bool.false_eq_true, if_false] at h ⊢
    simp only [h]
    exact ⟨_, rfl⟩

theorem cornerStep_new (P Q : Src α) (invertQ : Bool) (numProp idMiss : Nat) (st : St α)
    (c : Corner α) (h : st.find idMiss (cornerKey P Q idMiss c) = none) :
    ∃ o, cornerStep P Q invertQ numProp idMiss st c =
      { st.insert idMiss (cornerKey P Q idMiss c) st.rows.size with
        out := st.out.push st.rows.size,
        rows := st.rows.push (interpRow P Q invertQ numProp c), oob := o } := by
  unfold cornerStep St.insert
  unfold St.find at h
  by_cases hm : (cornerKey P Q idMiss c).isMiss idMiss = true
  · simp only [hm, if_true] at h ⊢
    simp only [h]
    exact ⟨_, rfl⟩
  · simp only [hm, Bool.false_eq_true, if_false] at h ⊢
    simp only [h]
    exact ⟨_, rfl⟩

/-- the loop invariant after the corners `cs` -/
structure Inv (P Q : Src α) (invertQ : Bool) (numProp idMiss : Nat) (st : St α)
    (cs : List (Corner α)) : Prop where
  size : st.out.size = cs.length
  /-- every processed corner's key is in the table, under the index the corner got -/
  seen : ∀ (n : Nat) (c : Corner α), cs[n]? = some c →
    ∃ i, st.out[n]? = some i ∧ st.find idMiss (cornerKey P Q idMiss c) = some i
  /-- every table entry was made by the FIRST corner with that key, with that corner's row -/
  first : ∀ k i, k.WF idMiss → st.find idMiss k = some i →
    ∃ (m : Nat) (c : Corner α), cs[m]? = some c ∧ cornerKey P Q idMiss c = k ∧
      (∀ (m' : Nat) (c' : Corner α), m' < m → cs[m']? = some c' → cornerKey P Q idMiss c' ≠ k) ∧
      st.rows[i]? = some (interpRow P Q invertQ numProp c) ∧ st.out[m]? = some i
  /-- distinct keys have distinct indices -/
  inj : ∀ k k' i, k.WF idMiss → k'.WF idMiss → st.find idMiss k = some i →
    st.find idMiss k' = some i → k = k'

theorem inv_init (P Q : Src α) (invertQ : Bool) (numProp idMiss : Nat) :
    Inv P Q invertQ numProp idMiss (St.init : St α) [] := by
  refine ⟨rfl, ?_, ?_, ?_⟩
  · intro n c h; simp at h
  · intro k i _ h
    simp [St.find, St.init] at h
  · intro k k' i _ _ h
    simp [St.find, St.init] at h

theorem push_getElem?_lt {β : Type} (a : Array β) (x : β) (i : Nat) (h : i < a.size) :
    (a.push x)[i]? = a[i]? := by
  rw [Array.getElem?_push, if_neg (Nat.ne_of_lt h)]

theorem getElem?_snoc_some {β : Type} {l : List β} {a c : β} {n : Nat}
    (h : (l ++ [a])[n]? = some c) : (n < l.length ∧ l[n]? = some c) ∨ (n = l.length ∧ c = a) := by
  by_cases hn : n < l.length
  · left
    rw [List.getElem?_append_left hn] at h
    exact ⟨hn, h⟩
  · right
    have hn' : l.length ≤ n := Nat.le_of_not_lt hn
    rw [List.getElem?_append_right hn'] at h
    by_cases h0 : n - l.length = 0
    · rw [h0] at h
      simp at h
      exact ⟨by omega, h.symm⟩
    · have : ([a] : List β)[n - l.length]? = none := by
        apply List.getElem?_eq_none
        simp; omega
      rw [this] at h; simp at h

theorem inv_step (P Q : Src α) (invertQ : Bool) (numProp idMiss : Nat) (st : St α)
    (cs : List (Corner α)) (c : Corner α) (hv : c.vert ≠ idMiss)
    (hwf : ∀ c' ∈ cs, c'.vert ≠ idMiss)
    (h : Inv P Q invertQ numProp idMiss st cs) :
    Inv P Q invertQ numProp idMiss (cornerStep P Q invertQ numProp idMiss st c) (cs ++ [c]) := by
  have wkey := cornerKey_wf P Q idMiss c hv
  cases hf : st.find idMiss (cornerKey P Q idMiss c) with
  | some e =>
    obtain ⟨o, ho⟩ := cornerStep_found P Q invertQ numProp idMiss st c e hf
    rw [ho]
    have hfind : ∀ k, St.find idMiss ({ st with out := st.out.push e, oob := o } : St α) k =
        st.find idMiss k := fun k => rfl
    refine ⟨?_, ?_, ?_, ?_⟩
    · simp [h.size]
    · intro n c' hn
      rcases getElem?_snoc_some hn with ⟨hlt, hc⟩ | ⟨heq, hc⟩
      · obtain ⟨i, hi, hfi⟩ := h.seen n c' hc
        refine ⟨i, ?_, by rw [hfind]; exact hfi⟩
        simp only
        rw [push_getElem?_lt _ _ _ (by rw [h.size]; exact hlt)]
        exact hi
      · subst hc
        refine ⟨e, ?_, by rw [hfind]; exact hf⟩
        simp only
        rw [heq, ← h.size, Array.getElem?_push_size]
    · intro k i wk hk
      rw [hfind] at hk
      obtain ⟨m, c', hm, hkey, hfirst, hrow, hout⟩ := h.first k i wk hk
      have hmlt : m < cs.length := by
        rcases Nat.lt_or_ge m cs.length with h1 | h1
        · exact h1
        · rw [List.getElem?_eq_none h1] at hm; simp at hm
      refine ⟨m, c', ?_, hkey, ?_, hrow, ?_⟩
      · rw [List.getElem?_append_left hmlt]; exact hm
      · intro m' c'' hlt hc''
        have : m' < cs.length := by omega
        rw [List.getElem?_append_left this] at hc''
        exact hfirst m' c'' hlt hc''
      · simp only
        rw [push_getElem?_lt _ _ _ (by rw [h.size]; exact hmlt)]
        exact hout
    · intro k k' i wk wk' h1 h2
      rw [hfind] at h1 h2
      exact h.inj k k' i wk wk' h1 h2
  | none =>
    obtain ⟨o, ho⟩ := cornerStep_new P Q invertQ numProp idMiss st c hf
    rw [ho]
    have hfind : ∀ k, k.WF idMiss →
        St.find idMiss ({ st.insert idMiss (cornerKey P Q idMiss c) st.rows.size with
          out := st.out.push st.rows.size,
          rows := st.rows.push (interpRow P Q invertQ numProp c), oob := o } : St α) k =
        if k = cornerKey P Q idMiss c then some st.rows.size else st.find idMiss k := by
      intro k wk
      have := find_insert idMiss st (cornerKey P Q idMiss c) k st.rows.size wkey wk hf
      rw [← this]
      unfold St.find St.insert
      split <;> rfl
    have hold : ∀ k i, k.WF idMiss → st.find idMiss k = some i → i < st.rows.size := by
      intro k i wk hk
      obtain ⟨m, c', _, _, _, hrow, _⟩ := h.first k i wk hk
      rcases Nat.lt_or_ge i st.rows.size with h1 | h1
      · exact h1
      · rw [Array.getElem?_eq_none h1] at hrow; simp at hrow
    refine ⟨?_, ?_, ?_, ?_⟩
    · simp [h.size]
    · intro n c' hn
      rcases getElem?_snoc_some hn with ⟨hlt, hc⟩ | ⟨heq, hc⟩
      · obtain ⟨i, hi, hfi⟩ := h.seen n c' hc
        have wc' : (cornerKey P Q idMiss c').WF idMiss :=
          cornerKey_wf P Q idMiss c' (hwf c' (List.mem_of_getElem? hc))
        have hne : cornerKey P Q idMiss c' ≠ cornerKey P Q idMiss c := by
          intro he; rw [he, hf] at hfi; simp at hfi
        refine ⟨i, ?_, by rw [hfind _ wc', if_neg hne]; exact hfi⟩
        simp only
        rw [push_getElem?_lt _ _ _ (by rw [h.size]; exact hlt)]
        exact hi
      · subst hc
        refine ⟨st.rows.size, ?_, by rw [hfind _ wkey, if_pos rfl]⟩
        simp only
        rw [heq, ← h.size, Array.getElem?_push_size]
    · intro k i wk hk
      rw [hfind k wk] at hk
      by_cases he : k = cornerKey P Q idMiss c
      · rw [if_pos he] at hk
        simp only [Option.some.injEq] at hk
        subst hk
        refine ⟨cs.length, c, by simp, he.symm, ?_, ?_, ?_⟩
        · intro m' c'' hlt hc''
          rw [List.getElem?_append_left hlt] at hc''
          obtain ⟨i, _, hfi⟩ := h.seen m' c'' hc''
          intro hk'
          rw [hk', he, hf] at hfi; simp at hfi
        · simp only
          rw [Array.getElem?_push_size]
        · simp only
          rw [← h.size, Array.getElem?_push_size]
      · rw [if_neg he] at hk
        obtain ⟨m, c', hm, hkey, hfirst, hrow, hout⟩ := h.first k i wk hk
        have hmlt : m < cs.length := by
          rcases Nat.lt_or_ge m cs.length with h1 | h1
          · exact h1
          · rw [List.getElem?_eq_none h1] at hm; simp at hm
        refine ⟨m, c', ?_, hkey, ?_, ?_, ?_⟩
        · rw [List.getElem?_append_left hmlt]; exact hm
        · intro m' c'' hlt hc''
          have : m' < cs.length := by omega
          rw [List.getElem?_append_left this] at hc''
          exact hfirst m' c'' hlt hc''
        · simp only
          rw [push_getElem?_lt _ _ _ (hold k i wk hk)]
          exact hrow
        · simp only
          rw [push_getElem?_lt _ _ _ (by rw [h.size]; exact hmlt)]
          exact hout
    · intro k k' i wk wk' h1 h2
      rw [hfind k wk] at h1
      rw [hfind k' wk'] at h2
      by_cases he : k = cornerKey P Q idMiss c <;> by_cases he' : k' = cornerKey P Q idMiss c
      · rw [he, he']
      · rw [if_pos he] at h1; rw [if_neg he'] at h2
        simp only [Option.some.injEq] at h1
        have := hold k' i wk' h2
        omega
      · rw [if_neg he] at h1; rw [if_pos he'] at h2
        simp only [Option.some.injEq] at h2
        have := hold k i wk h1
        omega
      · rw [if_neg he] at h1; rw [if_neg he'] at h2
        exact h.inj k k' i wk wk' h1 h2

theorem inv_foldl (P Q : Src α) (invertQ : Bool) (numProp idMiss : Nat) (cs : List (Corner α)) :
    ∀ (st : St α) (pre : List (Corner α)),
      (∀ c ∈ pre ++ cs, c.vert ≠ idMiss) → Inv P Q invertQ numProp idMiss st pre →
      Inv P Q invertQ numProp idMiss (cs.foldl (cornerStep P Q invertQ numProp idMiss) st)
        (pre ++ cs) := by
  induction cs with
  | nil => intro st pre _ h; simpa using h
  | cons c cs ih =>
    intro st pre hv h
    rw [List.foldl_cons]
    have := ih (cornerStep P Q invertQ numProp idMiss st c) (pre ++ [c])
      (by intro c' hc'; apply hv; simpa using hc')
      (inv_step P Q invertQ numProp idMiss st pre c
        (hv c (by simp)) (fun c' hc' => hv c' (by simp [hc'])) h)
    simpa using this

/-- THE LOOP INVARIANT HOLDS AT THE END of `runCorners` -/
theorem inv_run (P Q : Src α) (invertQ : Bool) (idMiss : Nat) (cs : List (Corner α))
    (hv : ∀ c ∈ cs, c.vert ≠ idMiss) :
    Inv P Q invertQ (max P.numProp Q.numProp) idMiss (runCorners P Q invertQ idMiss cs) cs := by
  have := inv_foldl P Q invertQ (max P.numProp Q.numProp) idMiss cs St.init []
    (by simpa using hv) (inv_init P Q invertQ _ idMiss)
  simpa [runCorners] using this

/-! ### the tables are indexed in range -/

theorem oob_mono_step (P Q : Src α) (invertQ : Bool) (numProp idMiss : Nat) (st : St α)
    (c : Corner α) (h : st.oob = false)
    (hk : let key := cornerKey P Q idMiss c
      if key.isMiss idMiss then key.z.toNat < missSize P Q key.x else key.y ≤ idMiss) :
    (cornerStep P Q invertQ numProp idMiss st c).oob = false := by
  unfold cornerStep
  simp only at hk
  by_cases hm : (cornerKey P Q idMiss c).isMiss idMiss = true
  · simp only [hm, if_true] at hk ⊢
    have : decide (missSize P Q (cornerKey P Q idMiss c).x ≤ (cornerKey P Q idMiss c).z.toNat) = false := by
      simp; omega
    split <;> simp [h, this]
  · simp only [hm, Bool.false_eq_true, if_false] at hk ⊢
    have : decide (idMiss < (cornerKey P Q idMiss c).y) = false := by simp; omega
    split <;> simp [h, this]

end Dedup
end MV.PropInterp
