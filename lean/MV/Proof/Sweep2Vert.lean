import MV.Model.Sweep2
/-! MergeVerticals1D on one vertical line (C11 (d)). -/
namespace MV.Sweep2

/-- running coverage just below `y`: the sum of all deltas at breakpoints `< y` -/
def deltaBelow (d : List (Int × Int)) (y : Int) : Int :=
  (d.map fun e => if e.1 < y then e.2 else 0).sum

def deltaTotal (d : List (Int × Int)) : Int := (d.map (·.2)).sum

def DSorted (d : List (Int × Int)) : Prop := d.Pairwise (fun a b => a.1 < b.1)

theorem deltaBelow_bump (d : List (Int × Int)) (k v y : Int) :
    deltaBelow (deltaBump d k v) y = deltaBelow d y + (if k < y then v else 0) := by
  induction d with
  | nil => simp [deltaBump, deltaBelow]
  | cons e rest ih =>
    obtain ⟨k', c⟩ := e
    unfold deltaBump
    by_cases h1 : k < k'
    · simp only [h1, if_true, deltaBelow, List.map_cons, List.sum_cons]; omega
    · by_cases h2 : k' < k
      · simp only [h1, h2, if_true, if_false]
        simp only [deltaBelow, List.map_cons, List.sum_cons] at ih ⊢
        omega
      · have e : k = k' := by omega
        subst e
        simp only [h1, if_false, deltaBelow, List.map_cons, List.sum_cons]
        by_cases hy : k < y <;> simp [hy] <;> omega

theorem deltaTotal_bump (d : List (Int × Int)) (k v : Int) :
    deltaTotal (deltaBump d k v) = deltaTotal d + v := by
  induction d with
  | nil => simp [deltaBump, deltaTotal]
  | cons e rest ih =>
    obtain ⟨k', c⟩ := e
    unfold deltaBump
    by_cases h1 : k < k'
    · simp only [h1, if_true, deltaTotal, List.map_cons, List.sum_cons]; omega
    · by_cases h2 : k' < k
      · simp only [h1, h2, if_true, if_false]
        simp only [deltaTotal, List.map_cons, List.sum_cons] at ih ⊢
        omega
      · simp only [h1, h2, if_false, deltaTotal, List.map_cons, List.sum_cons]; omega

theorem mem_deltaBump {d : List (Int × Int)} {k v : Int} {e : Int × Int} (h : e ∈ deltaBump d k v) :
    e.1 = k ∨ ∃ e' ∈ d, e'.1 = e.1 := by
  induction d with
  | nil => simp [deltaBump] at h; left; rw [h]
  | cons e0 rest ih =>
    obtain ⟨k', c⟩ := e0
    unfold deltaBump at h
    by_cases h1 : k < k'
    · simp only [h1, if_true, List.mem_cons] at h
      rcases h with rfl | rfl | h
      · left; rfl
      · right; exact ⟨(k', c), by simp, rfl⟩
      · right; exact ⟨e, by simp [h], rfl⟩
    · by_cases h2 : k' < k
      · simp only [h1, h2, if_true, if_false, List.mem_cons] at h
        rcases h with rfl | h
        · right; exact ⟨(k', c), by simp, rfl⟩
        · rcases ih h with h | ⟨e', he', hk⟩
          · left; exact h
          · right; exact ⟨e', by simp [he'], hk⟩
      · simp only [h1, h2, if_false, List.mem_cons] at h
        rcases h with rfl | h
        · right; exact ⟨(k', c), by simp, rfl⟩
        · right; exact ⟨e, by simp [h], rfl⟩

theorem dsorted_bump {d : List (Int × Int)} (hs : DSorted d) (k v : Int) : DSorted (deltaBump d k v) := by
  induction d with
  | nil => simp [deltaBump, DSorted]
  | cons e0 rest ih =>
    obtain ⟨k', c⟩ := e0
    have hp := List.pairwise_cons.mp hs
    unfold deltaBump
    by_cases h1 : k < k'
    · simp only [h1, if_true]
      refine List.pairwise_cons.mpr ⟨?_, hs⟩
      intro a ha
      simp only [List.mem_cons] at ha
      rcases ha with rfl | ha
      · exact h1
      · have := hp.1 a ha; simp only at this ⊢; omega
    · by_cases h2 : k' < k
      · simp only [h1, h2, if_true, if_false]
        refine List.pairwise_cons.mpr ⟨?_, ih hp.2⟩
        intro a ha
        rcases mem_deltaBump ha with h | ⟨e', he', hk⟩
        · simp only; omega
        · have := hp.1 e' he'; simp only at this ⊢; omega
      · simp only [h1, h2, if_false]
        exact List.pairwise_cons.mpr ⟨hp.1, hp.2⟩

/-- the fold of `deltaOf`, from any starting map -/
def deltaFold (d : List (Int × Int)) (segs : List (Int × Int × Int)) : List (Int × Int) :=
  segs.foldl (fun d s => deltaBump (deltaBump d s.1 s.2.2) s.2.1 (-s.2.2)) d

theorem deltaOf_eq (segs : List (Int × Int × Int)) : deltaOf segs = deltaFold [] segs := rfl

theorem deltaBelow_fold (d : List (Int × Int)) (segs : List (Int × Int × Int)) (y : Int) :
    deltaBelow (deltaFold d segs) y
      = deltaBelow d y + (segs.map fun s => (if s.1 < y then s.2.2 else 0) - (if s.2.1 < y then s.2.2 else 0)).sum := by
  induction segs generalizing d with
  | nil => simp [deltaFold]
  | cons s segs ih =>
    obtain ⟨y0, y1, m⟩ := s
    simp only [deltaFold, List.foldl_cons] at ih ⊢
    rw [ih, deltaBelow_bump, deltaBelow_bump]
    simp only [List.map_cons, List.sum_cons]
    by_cases h1 : y1 < y <;> by_cases h0 : y0 < y <;> simp [h0, h1] <;> omega

theorem deltaTotal_fold (d : List (Int × Int)) (segs : List (Int × Int × Int)) :
    deltaTotal (deltaFold d segs) = deltaTotal d := by
  induction segs generalizing d with
  | nil => simp [deltaFold]
  | cons s segs ih =>
    simp only [deltaFold, List.foldl_cons] at ih ⊢
    rw [ih, deltaTotal_bump, deltaTotal_bump]; omega

theorem dsorted_fold {d : List (Int × Int)} (hs : DSorted d) (segs : List (Int × Int × Int)) :
    DSorted (deltaFold d segs) := by
  induction segs generalizing d with
  | nil => exact hs
  | cons s segs ih =>
    simp only [deltaFold, List.foldl_cons] at ih ⊢
    exact ih (dsorted_bump (dsorted_bump hs _ _) _ _)

/-- every breakpoint is an endpoint of an input interval -/
theorem keys_fold {d : List (Int × Int)} (segs : List (Int × Int × Int)) {e : Int × Int}
    (h : e ∈ deltaFold d segs) :
    (∃ e' ∈ d, e'.1 = e.1) ∨ ∃ s ∈ segs, e.1 = s.1 ∨ e.1 = s.2.1 := by
  induction segs generalizing d with
  | nil => left; exact ⟨e, h, rfl⟩
  | cons s segs ih =>
    simp only [deltaFold, List.foldl_cons] at ih h
    rcases ih h with ⟨e', he', hk⟩ | ⟨s', hs', hk⟩
    · rcases mem_deltaBump he' with h1 | ⟨e'', he'', hk''⟩
      · right; exact ⟨s, by simp, Or.inr (by omega)⟩
      · rcases mem_deltaBump he'' with h1 | ⟨e3, he3, hk3⟩
        · right; exact ⟨s, by simp, Or.inl (by omega)⟩
        · left; exact ⟨e3, he3, by omega⟩
    · right; exact ⟨s', by simp [hs'], hk⟩

theorem deltaBelow_deltaOf (segs : List (Int × Int × Int)) (hwf : ∀ s ∈ segs, s.1 < s.2.1) (y : Int)
    (hy : ∀ s ∈ segs, y ≠ s.1 ∧ y ≠ s.2.1) : deltaBelow (deltaOf segs) y = cov segs y := by
  rw [deltaOf_eq, deltaBelow_fold]
  simp only [deltaBelow, List.map_nil, List.sum_nil, Int.zero_add, cov]
  induction segs with
  | nil => rfl
  | cons s segs ih =>
    have h1 := hwf s (by simp)
    have h2 := hy s (by simp)
    simp only [List.map_cons, List.sum_cons]
    rw [ih (fun s hs => hwf s (by simp [hs])) (fun s hs => hy s (by simp [hs]))]
    by_cases a : s.1 < y <;> by_cases b : s.2.1 < y <;> by_cases c : y < s.2.1 <;> simp [a, b, c] <;> omega

theorem deltaBelow_of_all_gt {d : List (Int × Int)} {y : Int} (h : ∀ e ∈ d, y < e.1) :
    deltaBelow d y = 0 := by
  induction d with
  | nil => rfl
  | cons e rest ih =>
    have h1 := h e (by simp)
    have : ¬ e.1 < y := by omega
    simp only [deltaBelow, List.map_cons, List.sum_cons, this, if_false, Int.zero_add] at ih ⊢
    exact ih (fun e he => h e (by simp [he]))

theorem deltaBelow_of_all_lt {d : List (Int × Int)} {y : Int} (h : ∀ e ∈ d, e.1 < y) :
    deltaBelow d y = deltaTotal d := by
  induction d with
  | nil => rfl
  | cons e rest ih =>
    have h1 := h e (by simp)
    simp only [deltaBelow, deltaTotal, List.map_cons, List.sum_cons, h1, if_true] at ih ⊢
    rw [ih (fun e he => h e (by simp [he]))]

theorem cov_cons (s : Int × Int × Int) (l : List (Int × Int × Int)) (y : Int) :
    cov (s :: l) y = (if s.1 < y ∧ y < s.2.1 then s.2.2 else 0) + cov l y := by
  simp [cov]

theorem scan_some_cons (c p k dk : Int) (rest : List (Int × Int)) :
    scan c (some p) ((k, dk) :: rest)
      = if c ≠ 0 then (p, k, c) :: scan (c + dk) (some k) rest else scan (c + dk) (some k) rest := by
  rw [scan]

theorem scan_none_cons (c k dk : Int) (rest : List (Int × Int)) :
    scan c none ((k, dk) :: rest) = scan (c + dk) (some k) rest := by
  rw [scan]

/-- coverage of the intervals emitted by the scan loop, started with `have == true` -/
theorem cov_scan (d : List (Int × Int)) (c p y : Int) (hs : DSorted d) (hp : ∀ e ∈ d, p < e.1)
    (hyp : y ≠ p) (hyd : ∀ e ∈ d, y ≠ e.1) :
    cov (scan c (some p) d) y
      = if p < y ∧ d.any (fun e => decide (y < e.1)) = true then c + deltaBelow d y else 0 := by
  induction d generalizing c p with
  | nil => simp [scan, cov]
  | cons e rest ih =>
    obtain ⟨k, dk⟩ := e
    have hsp := List.pairwise_cons.mp hs
    have hpk : p < k := hp (k, dk) (by simp)
    have hyk : y ≠ k := hyd (k, dk) (by simp)
    have ih' := ih (c + dk) k hsp.2 (fun e he => hsp.1 e he) hyk (fun e he => hyd e (by simp [he]))
    have hfirst : cov (scan c (some p) ((k, dk) :: rest)) y
        = (if p < y ∧ y < k then c else 0) + cov (scan (c + dk) (some k) rest) y := by
      rw [scan_some_cons]
      by_cases hc : c ≠ 0
      · rw [if_pos hc, cov_cons]
      · have : c = 0 := by omega
        subst this
        simp
    rw [hfirst, ih']
    simp only [List.any_cons, Bool.or_eq_true, decide_eq_true_eq]
    by_cases hyk' : y < k
    · -- y below the first breakpoint: every breakpoint is above y
      have hnk : ¬ k < y := by omega
      have hz : deltaBelow ((k, dk) :: rest) y = 0 :=
        deltaBelow_of_all_gt (by
          intro e he
          simp only [List.mem_cons] at he
          rcases he with rfl | he
          · exact hyk'
          · have := hsp.1 e he; simp only at this; omega)
      rw [hz]
      by_cases hpy : p < y <;> simp [hpy, hyk', hnk]
    · have hky : k < y := by omega
      have hpy : p < y := by omega
      have hb : deltaBelow ((k, dk) :: rest) y = dk + deltaBelow rest y := by
        simp [deltaBelow, hky]
      rw [hb]
      simp only [hyk', hky, hpy, and_false, if_false, Int.zero_add, true_and, false_or]
      by_cases hany : rest.any (fun e => decide (y < e.1)) = true
      · simp only [hany, if_true]; omega
      · simp [hany]

/-- ... and from the initial state `have == false` -/
theorem cov_scan_none (d : List (Int × Int)) (y : Int) (hs : DSorted d) (hyd : ∀ e ∈ d, y ≠ e.1)
    (ht : deltaTotal d = 0) : cov (scan 0 none d) y = deltaBelow d y := by
  cases d with
  | nil => simp [scan, cov, deltaBelow]
  | cons e rest =>
    obtain ⟨k, dk⟩ := e
    have hsp := List.pairwise_cons.mp hs
    have hyk : y ≠ k := hyd (k, dk) (by simp)
    rw [scan_none_cons]
    rw [cov_scan rest (0 + dk) k y hsp.2 (fun e he => hsp.1 e he) hyk (fun e he => hyd e (by simp [he]))]
    by_cases hky : k < y
    · have hb : deltaBelow ((k, dk) :: rest) y = dk + deltaBelow rest y := by
        simp [deltaBelow, hky]
      rw [hb]
      by_cases hany : rest.any (fun e => decide (y < e.1)) = true
      · simp only [hky, hany, and_self, if_true]; omega
      · -- y is above every breakpoint: the total is zero
        have hall : ∀ e ∈ rest, e.1 < y := by
          intro e he
          have h1 : ¬ (y < e.1) := by
            intro hlt
            apply hany
            simp only [List.any_eq_true, decide_eq_true_eq]
            exact ⟨e, he, hlt⟩
          have h2 := hyd e (by simp [he])
          omega
        have := deltaBelow_of_all_lt hall
        simp only [deltaTotal, List.map_cons, List.sum_cons] at ht
        simp only [deltaTotal] at this
        simp only [hany, and_false, if_false, Bool.false_eq_true]
        omega
    · have hyk' : y < k := by omega
      have hz : deltaBelow ((k, dk) :: rest) y = 0 :=
        deltaBelow_of_all_gt (by
          intro e he
          simp only [List.mem_cons] at he
          rcases he with rfl | he
          · exact hyk'
          · have := hsp.1 e he; simp only at this; omega)
      rw [hz]; simp [hky]

/-- intervals emitted by the scan start at or above `p`, are non-degenerate and non-zero, and
    each ends where or before the next starts -/
theorem scan_shape (d : List (Int × Int)) (c p : Int) (hs : DSorted d) (hp : ∀ e ∈ d, p < e.1) :
    (∀ s ∈ scan c (some p) d, p ≤ s.1 ∧ s.1 < s.2.1 ∧ s.2.2 ≠ 0 ∧ ∃ e ∈ d, s.2.1 = e.1)
      ∧ (scan c (some p) d).Pairwise (fun a b => a.2.1 ≤ b.1) := by
  induction d generalizing c p with
  | nil => simp [scan]
  | cons e rest ih =>
    obtain ⟨k, dk⟩ := e
    have hsp := List.pairwise_cons.mp hs
    have hpk : p < k := hp (k, dk) (by simp)
    have ih' := ih (c + dk) k hsp.2 (fun e he => hsp.1 e he)
    have hrest : ∀ s ∈ scan (c + dk) (some k) rest,
        p ≤ s.1 ∧ s.1 < s.2.1 ∧ s.2.2 ≠ 0 ∧ ∃ e ∈ (k, dk) :: rest, s.2.1 = e.1 := by
      intro s hs'
      obtain ⟨h1, h2, h3, e, he, h4⟩ := ih'.1 s hs'
      exact ⟨by omega, h2, h3, e, by simp [he], h4⟩
    rw [scan_some_cons]
    by_cases hc : c ≠ 0
    · rw [if_pos hc]
      constructor
      · intro s hs'
        simp only [List.mem_cons] at hs'
        rcases hs' with rfl | hs'
        · exact ⟨by simp, hpk, hc, (k, dk), by simp, rfl⟩
        · exact hrest s hs'
      · refine List.pairwise_cons.mpr ⟨?_, ih'.2⟩
        intro s hs'
        exact (ih'.1 s hs').1
    · rw [if_neg hc]
      exact ⟨hrest, ih'.2⟩

theorem scan_none_shape (d : List (Int × Int)) (hs : DSorted d) :
    (∀ s ∈ scan 0 none d, s.1 < s.2.1 ∧ s.2.2 ≠ 0 ∧ (∃ e ∈ d, s.1 = e.1 ∨ e.1 < s.1) ∧ ∃ e ∈ d, s.2.1 = e.1)
      ∧ (scan 0 none d).Pairwise (fun a b => a.2.1 ≤ b.1) := by
  cases d with
  | nil => simp [scan]
  | cons e rest =>
    obtain ⟨k, dk⟩ := e
    have hsp := List.pairwise_cons.mp hs
    rw [scan_none_cons]
    have h := scan_shape rest (0 + dk) k hsp.2 (fun e he => hsp.1 e he)
    refine ⟨?_, h.2⟩
    intro s hs'
    obtain ⟨h1, h2, h3, e, he, h4⟩ := h.1 s hs'
    refine ⟨h2, h3, ⟨(k, dk), by simp, ?_⟩, e, by simp [he], h4⟩
    simp only; omega

end MV.Sweep2
