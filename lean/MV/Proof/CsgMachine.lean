import MV.Proof.CsgStore
/-
Operational lemmas about the stack machine: `pushDest`, logs of pushes, the children loop.
-/
set_option autoImplicit false
namespace MV.Csg

variable {M : Type}

/-- a chronological log of `dest->push_back(leaf)` -/
abbrev Push (M : Type) := Dest × Leaf M

def applyPushes (s : List (Frame M)) (log : List (Push M)) : List (Frame M) :=
  log.foldl (fun s p => pushDest s p.1 p.2) s

/-- the leaves pushed to `d`, in order -/
def sel (d : Dest) (log : List (Push M)) : List (Leaf M) :=
  (log.filter (fun e => e.1 = d)).map (·.2)

@[simp] theorem sel_nil (d : Dest) : sel d ([] : List (Push M)) = [] := rfl

theorem sel_append (d : Dest) (a b : List (Push M)) : sel d (a ++ b) = sel d a ++ sel d b := by
  simp [sel]

theorem sel_cons (d : Dest) (e : Push M) (b : List (Push M)) :
    sel d (e :: b) = (if e.1 = d then [e.2] else []) ++ sel d b := by
  simp only [sel, List.filter_cons]
  split <;> simp_all

theorem sel_eq_map {d : Dest} {log : List (Push M)} (h : ∀ e ∈ log, e.1 = d) :
    sel d log = log.map (·.2) := by
  simp only [sel]
  rw [List.filter_eq_self.2]
  simpa using h

theorem sel_eq_nil {d : Dest} {log : List (Push M)} (h : ∀ e ∈ log, e.1 ≠ d) :
    sel d log = [] := by
  simp only [sel]
  rw [List.filter_eq_nil_iff.2]
  · rfl
  · simpa using h

@[simp] theorem pushDest_length (s : List (Frame M)) (d : Dest) (l : Leaf M) :
    (pushDest s d l).length = s.length := by
  induction s with
  | nil => rfl
  | cons f fs ih =>
    simp only [pushDest]
    split <;> simp [ih]

theorem pushDest_append (top base : List (Frame M)) (d : Dest) (l : Leaf M)
    (h : d.depth < base.length) : pushDest (top ++ base) d l = top ++ pushDest base d l := by
  induction top with
  | nil => rfl
  | cons t ts ih =>
    simp only [List.cons_append, pushDest]
    rw [if_neg (by simp; omega), ih]

@[simp] theorem applyPushes_nil (s : List (Frame M)) : applyPushes s [] = s := rfl

theorem applyPushes_cons (s : List (Frame M)) (e : Push M) (log : List (Push M)) :
    applyPushes s (e :: log) = applyPushes (pushDest s e.1 e.2) log := rfl

theorem applyPushes_append (s : List (Frame M)) (a b : List (Push M)) :
    applyPushes s (a ++ b) = applyPushes (applyPushes s a) b := by
  simp [applyPushes, List.foldl_append]

@[simp] theorem applyPushes_length (s : List (Frame M)) (log : List (Push M)) :
    (applyPushes s log).length = s.length := by
  induction log generalizing s with
  | nil => rfl
  | cons e es ih => simp [applyPushes_cons, ih]

theorem applyPushes_stack_append (top base : List (Frame M)) (log : List (Push M))
    (h : ∀ e ∈ log, e.1.depth < base.length) :
    applyPushes (top ++ base) log = top ++ applyPushes base log := by
  induction log generalizing base with
  | nil => rfl
  | cons e es ih =>
    simp only [applyPushes_cons]
    rw [pushDest_append _ _ _ _ (h e (by simp))]
    apply ih
    intro e' he'
    simpa using h e' (by simp [he'])

theorem applyPushes_stack_cons (t : Frame M) (base : List (Frame M)) (log : List (Push M))
    (h : ∀ e ∈ log, e.1.depth < base.length) :
    applyPushes (t :: base) log = t :: applyPushes base log :=
  applyPushes_stack_append [t] base log h

/-- pushes that all target the frame on top -/
theorem applyPushes_head (F : Frame M) (rest : List (Frame M)) (log : List (Push M))
    (h : ∀ e ∈ log, e.1.depth = rest.length) :
    applyPushes (F :: rest) log =
      { F with pos := F.pos ++ sel ⟨rest.length, false⟩ log,
               neg := F.neg ++ sel ⟨rest.length, true⟩ log } :: rest := by
  induction log generalizing F with
  | nil => simp
  | cons e es ih =>
    have he := h e (by simp)
    simp only [applyPushes_cons, pushDest, he, if_true]
    rw [ih _ (fun e' he' => h e' (by simp [he']))]
    obtain ⟨⟨dd, dn⟩, el⟩ := e
    simp only at he
    subst he
    cases dn <;> simp [Frame.push, sel_cons]

/-! ### the children loop l.835-842 -/

section Loop
variable [Mul M]

def childNeg (o : Op) (first : Bool) : Bool := o == .sub && !first

def childDest1 (o : Op) (first : Bool) (posD negD : Option Dest) : Option Dest :=
  if childNeg o first then negD else posD

def childDest2 (o : Op) (first : Bool) (negD : Option Dest) : Option Dest :=
  if o == .sub && first then negD else none

def childOp (o : Op) (first : Bool) : Op := if childNeg o first then .add else o

def childFrame (o : Op) (first : Bool) (xf : M) (posD negD : Option Dest) (c : Nat) : Frame M :=
  { finalize := false, parentOp := childOp o first, xf := xf,
    posDest := childDest1 o first posD negD, negDest := childDest2 o first negD, node := c }

/-- frames pushed by the loop, in creation order (the last one ends up on top) -/
def childFrames (st : Store M) (o : Op) (xf : M) (posD negD : Option Dest) :
    List Nat → Bool → List (Frame M)
  | [], _ => []
  | c :: cs, first =>
    match st.nodes[c]? with
    | some (.op _ _ _ _) =>
      childFrame o first xf posD negD c :: childFrames st o xf posD negD cs false
    | _ => childFrames st o xf posD negD cs false

/-- leaves pushed directly by the loop -/
def childLog (st : Store M) (o : Op) (xf : M) (posD negD : Option Dest) :
    List Nat → Bool → List (Push M)
  | [], _ => []
  | c :: cs, first =>
    match st.nodes[c]?, childDest1 o first posD negD with
    | some (.leaf lf), some d => (d, lf.transform xf) :: childLog st o xf posD negD cs false
    | _, _ => childLog st o xf posD negD cs false

theorem addChildren_eq (st : Store M) (o : Op) (xf : M) (posD negD : Option Dest)
    (cs : List Nat) (first : Bool) (top base : List (Frame M)) (ub : Bool)
    (hex : ∀ c ∈ cs, st.nodes[c]? ≠ none)
    (hpos : posD.isSome) (hneg : o = .sub → negD.isSome)
    (hd : ∀ d, posD = some d ∨ negD = some d → d.depth < base.length) :
    addChildren st o xf posD negD cs first (top ++ base, ub) =
      ((childFrames st o xf posD negD cs first).reverse ++ top
        ++ applyPushes base (childLog st o xf posD negD cs first), ub) := by
  induction cs generalizing first top base with
  | nil => simp [addChildren, childFrames, childLog]
  | cons c cs ih =>
    have hex' : ∀ c ∈ cs, st.nodes[c]? ≠ none := fun c' h' => hex c' (by simp [h'])
    have hd1 : ∃ d, childDest1 o first posD negD = some d ∧ d.depth < base.length := by
      unfold childDest1
      split
      · rename_i hn
        have : o = .sub := by
          simp [childNeg] at hn; exact hn.1
        obtain ⟨d, hd'⟩ := Option.isSome_iff_exists.1 (hneg this)
        exact ⟨d, hd', hd d (Or.inr hd')⟩
      · obtain ⟨d, hd'⟩ := Option.isSome_iff_exists.1 hpos
        exact ⟨d, hd', hd d (Or.inl hd')⟩
    obtain ⟨d1, hd1, hd1lt⟩ := hd1
    simp only [addChildren]
    cases hn : st.nodes[c]? with
    | none => exact absurd hn (hex c (by simp))
    | some nd =>
      cases nd with
      | leaf lf =>
        have e1 : (if (o == Op.sub && !first) = true then negD else posD) = some d1 := by
          simpa [childDest1, childNeg] using hd1
        simp only [addChild, hn, e1]
        rw [pushDest_append _ _ _ _ hd1lt]
        rw [ih false top (pushDest base d1 (lf.transform xf)) hex' (by simpa using hd)]
        simp [childFrames, childLog, hn, hd1, applyPushes_cons]
      | op i o' m k =>
        simp only [addChild, hn]
        have := ih false (childFrame o first xf posD negD c :: top) base hex' hd
        simp only [List.cons_append] at this
        simp only [childFrame, childOp, childNeg, childDest1, childDest2] at this ⊢
        refine Eq.trans this ?_
        simp [childFrames, childLog, hn, childFrame, childOp, childNeg, childDest1, childDest2]

end Loop
end MV.Csg
