import MV.Proof.Ingest
/-!
Property C09, the loops of `Impl(MeshGLP)` (impl.h:377-499) under the facts of the ladder: each is
free of faults and leaves the invariant the next one needs.
-/
namespace MV.Ingest
open MV.Mesh

@[simp] theorem castIdx_fixed (x : Nat) : castIdx Guards.fixed x = x := rfl

/-- invariant of the `prop2vert` loop -/
def P2V (nv : Nat) (p : Array Nat) : Prop := p.size = nv ∧ ∀ k (hk : k < p.size), p[k] < nv

theorem p2v_init (nv : Nat) : P2V nv (Array.range nv) := by
  refine ⟨by simp, ?_⟩
  intro k hk
  simp at hk ⊢
  exact hk

theorem p2v_set {nv : Nat} {p : Array Nat} (h : P2V nv p) {i v : Nat} (hv : v < nv) :
    P2V nv (p.set! i v) := by
  refine ⟨by simp [h.1], ?_⟩
  intro k hk
  have hk' : k < p.size := by simpa using hk
  simp only [Array.set!_eq_setIfInBounds]
  rw [Array.getElem_setIfInBounds hk']
  split
  · exact hv
  · exact h.2 k hk'

theorem mergeStep_inv (s : MeshShape) (nv : Nat) (hlen : s.mergeFrom.size = s.mergeTo.size)
    (i : Nat) (p : Array Nat) (hi : i < s.mergeFrom.size) (hp : P2V nv p) :
    (mergeStep Guards.fixed s nv i p).Safe ∧ ∀ p', mergeStep Guards.fixed s nv i p = .ok p' → P2V nv p' := by
  unfold mergeStep
  simp only [monad_bind, rd_safe 381 s.mergeFrom i hi, rd_safe 382 s.mergeTo i (hlen ▸ hi), bind_ok, castIdx_fixed]
  by_cases hc : s.mergeFrom[i] ≥ nv ∨ s.mergeTo[i]'(hlen ▸ hi) ≥ nv
  · simp only [hc, ↓reduceIte]
    exact ⟨safe_fail _, fun p' h => by cases h⟩
  · simp only [hc, ↓reduceIte]
    have hf : s.mergeFrom[i] < p.size := by rw [hp.1]; omega
    rw [wr_safe 387 p _ _ hf]
    refine ⟨safe_ok _, ?_⟩
    intro p' h
    cases h
    exact p2v_set hp (by omega)

/-- `prop2vert` is either empty or a total map into `[0, numVert)` -/
def P2VOk (nv : Nat) (p : Array Nat) : Prop := p.size = 0 ∨ P2V nv p

theorem buildProp2vert_inv (s : MeshShape) (nv : Nat) (hlen : s.mergeFrom.size = s.mergeTo.size) :
    (buildProp2vert Guards.fixed s nv).Safe ∧ ∀ p, buildProp2vert Guards.fixed s nv = .ok p → P2VOk nv p := by
  unfold buildProp2vert
  split
  · exact ⟨safe_ok _, fun p h => by cases h; exact Or.inl rfl⟩
  · have := forRange_inv (fun _ p => P2V nv p) (mergeStep Guards.fixed s nv) s.mergeFrom.size 0
      (Array.range nv) (p2v_init nv)
      (fun i p _ hi hp => mergeStep_inv s nv hlen i p (by omega) hp)
    exact ⟨this.1, fun p h => Or.inr (this.2 p h)⟩

/-- impl.h:400-406 never reads past `vertProperties` -/
theorem copyVerts_ok (s : MeshShape) (hnp : 0 < s.numProp) :
    forRange (copyVert s) 0 (s.nVertProp / s.numProp) () = .ok () := by
  apply forRange_unit_safe
  intro i _ hi
  unfold copyVert
  apply forRange_unit_safe
  intro j _ hj
  exact chk_safe _ _ _ (stride_lt (by omega) (by omega))

/-- impl.h:409-413 never reads past `halfedgeTangent` -/
theorem copyTangents_ok (s : MeshShape) : forRange (copyTangent s) 0 (s.nTangent / 4) () = .ok () := by
  apply forRange_unit_safe
  intro i _ hi
  unfold copyTangent
  apply forRange_unit_safe
  intro j _ hj
  exact chk_safe _ _ _ (by omega)


/-- invariant of the run loop: `triRef` has one slot per triangle and the first `c` are filled -/
def Covered (nt c : Nat) (tr : Array (Option Nat)) : Prop :=
  tr.size = nt ∧ ∀ t, t < c → ∃ r, tr[t]? = some (some r)

theorem covered_set {nt c : Nat} {tr : Array (Option Nat)} (h : Covered nt c tr) (hc : c < nt) (r : Nat) :
    Covered nt (c + 1) (tr.set! c (some r)) := by
  refine ⟨by simp [h.1], ?_⟩
  intro t ht
  simp only [Array.set!_eq_setIfInBounds, Array.getElem?_setIfInBounds]
  by_cases e : c = t
  · subst e; simp [h.1, hc]
  · simp only [e, ↓reduceIte]; exact h.2 t (by omega)

/-- inner loop of one run (impl.h:441-448) -/
theorem runInner_inv (s : MeshShape) (nt i lo n : Nat) (tr : Array (Option Nat))
    (hface : s.nFaceID = 0 ∨ s.nFaceID = nt) (hn : lo + n ≤ nt) (h : Covered nt lo tr) :
    let f := fun tri (tr : Array (Option Nat)) => (wr 444 tr tri (some i)).bind fun tr =>
      if s.nFaceID ≠ 0 then (chk 446 s.nFaceID tri).bind fun _ => R.ok tr else R.ok tr
    (forRange f lo n tr).Safe ∧ ∀ tr', forRange f lo n tr = .ok tr' → Covered nt (lo + n) tr' := by
  intro f
  apply forRange_inv (fun c tr => Covered nt c tr) f n lo tr h
  intro c tr' hlo hc hcov
  have hlt : c < tr'.size := by rw [hcov.1]; omega
  simp only [f, wr_safe 444 tr' c (some i) hlt, bind_ok]
  by_cases hz : s.nFaceID = 0
  · simp only [hz, ne_eq, not_true_eq_false, ↓reduceIte]
    exact ⟨safe_ok _, fun s' e => by cases e; exact covered_set hcov (by omega) i⟩
  · have hf : s.nFaceID = nt := by cases hface with
      | inl h0 => exact absurd h0 hz
      | inr h1 => exact h1
    simp only [ne_eq, hz, not_false_eq_true, ↓reduceIte, chk_safe 446 s.nFaceID c (by omega), bind_ok]
    exact ⟨safe_ok _, fun s' e => by cases e; exact covered_set hcov (by omega) i⟩



theorem rd_bang {ln : Nat} (a : Array Nat) (i : Nat) (h : i < a.size) : rd ln a i = .ok a[i]! := by
  rw [rd_safe ln a i h, getElem!_pos a i h]

theorem runStep_inv (s : MeshShape) (i : Nat) (tr : Array (Option Nat))
    (hface : s.nFaceID = 0 ∨ s.nFaceID = numTriOf s)
    (htr : s.nRunTransform = 0 ∨ 12 * s.nRunID = s.nRunTransform)
    (hrt : runTableOk s = true) (hi : i < nRun s)
    (h : Covered (numTriOf s) ((normRunIndex s)[i]! / 3) tr) :
    (runStep s (normRunIndex s) i tr).Safe ∧
    ∀ tr', runStep s (normRunIndex s) i tr = .ok tr' → Covered (numTriOf s) ((normRunIndex s)[i + 1]! / 3) tr' := by
  obtain ⟨hsz, _, hend, hmono⟩ := runTable_facts hrt
  have hle : (normRunIndex s)[i]! ≤ (normRunIndex s)[i + 1]! := hmono i hi
  have hle2 : (normRunIndex s)[i + 1]! ≤ s.triVerts.size := by
    rw [← hend]; exact run_mono hmono (nRun s) (Nat.le_refl _) (i + 1) (by omega)
  have hdiv : (normRunIndex s)[i]! / 3 ≤ (normRunIndex s)[i + 1]! / 3 := Nat.div_le_div_right hle
  have hdiv2 : (normRunIndex s)[i + 1]! / 3 ≤ numTriOf s := by unfold numTriOf; exact Nat.div_le_div_right hle2
  have hi1 : i < (normRunIndex s).size := by omega
  have hi2 : i + 1 < (normRunIndex s).size := by omega
  unfold runStep
  simp only [monad_bind, rd_bang (normRunIndex s) i hi1, rd_bang (normRunIndex s) (i + 1) hi2, bind_ok]
  have inner := runInner_inv s (numTriOf s) i ((normRunIndex s)[i]! / 3)
    ((normRunIndex s)[i + 1]! / 3 - (normRunIndex s)[i]! / 3) tr hface (by omega) h
  simp only at inner
  have hsum : (normRunIndex s)[i]! / 3 + ((normRunIndex s)[i + 1]! / 3 - (normRunIndex s)[i]! / 3) =
      (normRunIndex s)[i + 1]! / 3 := by omega
  rw [hsum] at inner
  constructor
  · apply safe_bind inner.1
    intro tr1 _
    by_cases hz : s.nRunTransform = 0
    · simp [hz]
    · have h12 : 12 * s.nRunID = s.nRunTransform := by cases htr with
        | inl h0 => exact absurd h0 hz
        | inr h1 => exact h1
      have hnr : nRun s = s.nRunID := by unfold nRun; split <;> omega
      simp only [ne_eq, hz, not_false_eq_true, ↓reduceIte, chk_safe 455 s.nRunTransform (12 * i + 11) (by omega), bind_ok, safe_ok]
  · intro tr' htr'
    obtain ⟨tr1, h1, h2⟩ := bind_eq_ok htr'
    have hc := inner.2 tr1 h1
    by_cases hz : s.nRunTransform = 0
    · simp [hz] at h2; cases h2; exact hc
    · have h12 : 12 * s.nRunID = s.nRunTransform := by cases htr with
        | inl h0 => exact absurd h0 hz
        | inr h1 => exact h1
      have hnr : nRun s = s.nRunID := by unfold nRun; split <;> omega
      simp only [ne_eq, hz, not_false_eq_true, ↓reduceIte, chk_safe 455 s.nRunTransform (12 * i + 11) (by omega), bind_ok] at h2
      cases h2; exact hc

/-- the whole run loop (impl.h:431-459): safe, and afterwards every triangle has a run -/
theorem runLoop_inv (s : MeshShape)
    (hface : s.nFaceID = 0 ∨ s.nFaceID = numTriOf s)
    (htr : s.nRunTransform = 0 ∨ 12 * s.nRunID = s.nRunTransform)
    (hrt : runTableOk s = true) :
    (forRange (runStep s (normRunIndex s)) 0 (nRun s) (Array.replicate (numTriOf s) none)).Safe ∧
    ∀ tr, forRange (runStep s (normRunIndex s)) 0 (nRun s) (Array.replicate (numTriOf s) none) = .ok tr →
      Covered (numTriOf s) (numTriOf s) tr := by
  obtain ⟨hsz, h0, hend, hmono⟩ := runTable_facts hrt
  have := forRange_inv (fun i tr => Covered (numTriOf s) ((normRunIndex s)[i]! / 3) tr)
    (runStep s (normRunIndex s)) (nRun s) 0 (Array.replicate (numTriOf s) none)
    (by rw [h0]; exact ⟨by simp, fun t ht => by omega⟩)
    (fun i tr _ hi hc => runStep_inv s i tr hface htr hrt (by omega) hc)
  refine ⟨this.1, fun tr h => ?_⟩
  have hc := this.2 tr h
  simp only [Nat.zero_add, hend] at hc
  exact hc



/-- one corner (impl.h:478-486): safe, and both returned indices are `< numVert` -/
theorem corner_inv (s : MeshShape) (nv : Nat) (p : Array Nat) (k : Nat) (hk : k < s.triVerts.size)
    (hp : P2VOk nv p) :
    (corner Guards.fixed s nv p k).Safe ∧
    ∀ c, corner Guards.fixed s nv p k = .ok c → c.1 < nv ∧ c.2 < nv := by
  unfold corner
  simp only [monad_bind, rd_safe 479 s.triVerts k hk, bind_ok, castIdx_fixed]
  by_cases hv : s.triVerts[k] ≥ nv
  · simp only [hv, ↓reduceIte]
    exact ⟨safe_fail _, fun c h => by cases h⟩
  · simp only [hv, ↓reduceIte]
    by_cases hz : p.size = 0
    · simp only [hz, ↓reduceIte]
      exact ⟨safe_ok _, fun c h => by cases h; exact ⟨by simpa using hv, by simpa using hv⟩⟩
    · simp only [hz, ↓reduceIte]
      have hP : P2V nv p := by cases hp with
        | inl h0 => exact absurd h0 hz
        | inr h1 => exact h1
      have hlt : s.triVerts[k] < p.size := by rw [hP.1]; omega
      rw [rd_safe 485 p _ hlt]
      simp only [bind_ok]
      exact ⟨safe_ok _, fun c h => by cases h; exact ⟨by simpa using hv, hP.2 _ hlt⟩⟩

/-- invariant of the triangle loop: every kept triangle is in range and non-degenerate -/
def KeptOk (nv : Nat) (k : Kept) : Prop :=
  k.triVert.size = k.triProp.size ∧ k.triVert.size = k.keptIdx.size ∧
  (∀ t ∈ k.triVert.toList, TriInRange nv t ∧ TriNondeg t) ∧ (∀ t ∈ k.triProp.toList, TriInRange nv t)

theorem keptOk_push {nv : Nat} {k : Kept} (h : KeptOk nv k) {a b : Tri} {i : Nat} (refs : Array Nat)
    (ha : TriInRange nv a) (hb : TriInRange nv b ∧ TriNondeg b) :
    KeptOk nv { triProp := k.triProp.push a, triVert := k.triVert.push b, refs := refs, keptIdx := k.keptIdx.push i } := by
  obtain ⟨h1, h2, h3, h4⟩ := h
  refine ⟨by simp [h1], by simp [h2], ?_, ?_⟩
  · intro t ht
    simp only [Array.toList_push, List.mem_append, List.mem_singleton] at ht
    cases ht with
    | inl h' => exact h3 t h'
    | inr h' => subst h'; exact hb
  · intro t ht
    simp only [Array.toList_push, List.mem_append, List.mem_singleton] at ht
    cases ht with
    | inl h' => exact h4 t h'
    | inr h' => subst h'; exact ha

theorem triStep_inv (s : MeshShape) (nv : Nat) (p : Array Nat) (tr : Array (Option Nat)) (i : Nat) (k : Kept)
    (hi : i < numTriOf s) (hp : P2VOk nv p) (hc : Covered (numTriOf s) (numTriOf s) tr) (hk : KeptOk nv k) :
    (triStep Guards.fixed s nv p tr i k).Safe ∧
    ∀ k', triStep Guards.fixed s nv p tr i k = .ok k' → KeptOk nv k' := by
  have h3 : 3 * i + 2 < s.triVerts.size := by unfold numTriOf at hi; omega
  have c0 := corner_inv s nv p (3 * i) (by omega) hp
  have c1 := corner_inv s nv p (3 * i + 1) (by omega) hp
  have c2 := corner_inv s nv p (3 * i + 2) (by omega) hp
  unfold triStep
  simp only [monad_bind]
  constructor
  · apply safe_bind c0.1; intro a ha
    apply safe_bind c1.1; intro b hb
    apply safe_bind c2.1; intro c hcc
    split
    · split
      · exact safe_ok _
      · have hlt : i < tr.size := by rw [hc.1]; exact hi
        rw [rd_safe 495 tr i hlt]
        simp only [bind_ok]
        obtain ⟨r, hr⟩ := hc.2 i hi
        have : tr[i] = some r := by
          have := Array.getElem?_eq_getElem hlt
          rw [this] at hr; exact Option.some.inj hr
        rw [this]; exact safe_ok _
    · exact safe_ok _
  · intro k' hk'
    obtain ⟨a, ha, hk'⟩ := bind_eq_ok hk'
    obtain ⟨b, hb, hk'⟩ := bind_eq_ok hk'
    obtain ⟨c, hcc, hk'⟩ := bind_eq_ok hk'
    have ra := c0.2 a ha
    have rb := c1.2 b hb
    have rc := c2.2 c hcc
    split at hk'
    · rename_i hnd
      split at hk'
      · cases hk'
        exact keptOk_push hk _ ⟨ra.1, rb.1, rc.1⟩ ⟨⟨ra.2, rb.2, rc.2⟩, hnd⟩
      · obtain ⟨r, _, hk'⟩ := bind_eq_ok hk'
        split at hk'
        · cases hk'
        · cases hk'
          exact keptOk_push hk _ ⟨ra.1, rb.1, rc.1⟩ ⟨⟨ra.2, rb.2, rc.2⟩, hnd⟩
    · cases hk'; exact hk



/-- a loop whose every iteration succeeds (under an invariant) succeeds -/
theorem forRange_total {σ : Type} (P : Nat → σ → Prop) (f : Nat → σ → R σ) :
    ∀ (n lo : Nat) (s : σ), P lo s →
      (∀ i s, lo ≤ i → i < lo + n → P i s → ∃ s', f i s = .ok s' ∧ P (i + 1) s') →
      ∃ s', forRange f lo n s = .ok s' ∧ P (lo + n) s' := by
  intro n
  induction n with
  | zero => intro lo s h0 _; exact ⟨s, rfl, by simpa using h0⟩
  | succ n ih =>
    intro lo s h0 hstep
    obtain ⟨s1, h1, hp1⟩ := hstep lo s (Nat.le_refl _) (by omega) h0
    obtain ⟨s2, h2, hp2⟩ := ih (lo + 1) s1 hp1 (fun i s hi hi2 hp => hstep i s (by omega) (by omega) hp)
    refine ⟨s2, ?_, ?_⟩
    · show ((f lo s).bind fun s' => forRange f (lo + 1) n s') = .ok s2
      rw [h1]; exact h2
    · have e : lo + 1 + n = lo + (n + 1) := by omega
      rw [e] at hp2; exact hp2

/-- one triangle adds at most one kept triangle -/
theorem triStep_size {g : Guards} {s : MeshShape} {nv : Nat} {p : Array Nat} {tr : Array (Option Nat)} {i : Nat}
    {k k' : Kept} (h : triStep g s nv p tr i k = .ok k') : k'.triVert.size ≤ k.triVert.size + 1 := by
  unfold triStep at h
  simp only [monad_bind] at h
  obtain ⟨a, _, h⟩ := bind_eq_ok h
  obtain ⟨b, _, h⟩ := bind_eq_ok h
  obtain ⟨c, _, h⟩ := bind_eq_ok h
  split at h
  · split at h
    · cases h; simp
    · obtain ⟨r, _, h⟩ := bind_eq_ok h
      split at h
      · cases h
      · cases h; simp
  · cases h; omega

end MV.Ingest
