/-
`connectedComponents`: the labelling loop, abstracted over the root function, assigns labels
`0..k-1` such that two elements get the same label iff they have the same root -- provided
rank-0 roots are singletons (the shortcut of the C++ code, justified by (I3) at quiescence).
-/
import MV.Proof.DsuPart

namespace MV.Dsu

/-! ## the labelling loop over an abstract root function -/

structure Lab where
  toLabel : List (Nat × Nat) := []
  lonely : Nat := 0
  comps : List Nat := []

def labStep (rt : Nat → Nat) (z : Nat → Bool) (st : Lab) (i : Nat) : Lab :=
  if z (rt i) then
    { st with comps := st.comps ++ [st.toLabel.length + st.lonely], lonely := st.lonely + 1 }
  else
    match st.toLabel.lookup (rt i) with
    | none => { st with toLabel := (rt i, st.toLabel.length + st.lonely) :: st.toLabel,
                        comps := st.comps ++ [st.toLabel.length + st.lonely] }
    | some l => { st with comps := st.comps ++ [l] }

def Lab.count (st : Lab) : Nat := st.toLabel.length + st.lonely

structure LabInv (rt : Nat → Nat) (z : Nat → Bool) (i : Nat) (st : Lab) : Prop where
  len : st.comps.length = i
  lt : ∀ a, a < i → st.comps.getD a 0 < st.count
  surj : ∀ l, l < st.count → ∃ a, a < i ∧ st.comps.getD a 0 = l
  same : ∀ a b, a < i → b < i → (st.comps.getD a 0 = st.comps.getD b 0 ↔ rt a = rt b)
  tl : ∀ r l, (r, l) ∈ st.toLabel → ∃ a, a < i ∧ rt a = r ∧ st.comps.getD a 0 = l
  look : ∀ a, a < i → z (rt a) = false → st.toLabel.lookup (rt a) = some (st.comps.getD a 0)

theorem getD_append_lt (l : List Nat) (x a : Nat) (h : a < l.length) :
    (l ++ [x]).getD a 0 = l.getD a 0 := by
  simp [List.getD_eq_getElem?_getD, List.getElem?_append_left h]

theorem getD_append_eq (l : List Nat) (x : Nat) : (l ++ [x]).getD l.length 0 = x := by
  simp [List.getD_eq_getElem?_getD]

theorem lookup_mem {r l : Nat} {tl : List (Nat × Nat)} (h : tl.lookup r = some l) :
    (r, l) ∈ tl := by
  induction tl with
  | nil => simp [List.lookup] at h
  | cons p ps ih =>
    obtain ⟨r', l'⟩ := p
    simp only [List.lookup] at h
    by_cases e : r = r'
    · subst e; simp at h; subst h; exact List.mem_cons_self ..
    · have : (r == r') = false := by simpa using e
      rw [this] at h
      exact List.mem_cons_of_mem _ (ih h)

theorem labStep_inv {rt : Nat → Nat} {z : Nat → Bool} {i : Nat} {st : Lab}
    (hz : z (rt i) = true → ∀ a, a < i → rt a ≠ rt i)
    (h : LabInv rt z i st) : LabInv rt z (i + 1) (labStep rt z st i) := by
  have hgetlt : ∀ x a, a < i → (st.comps ++ [x]).getD a 0 = st.comps.getD a 0 :=
    fun x a ha => getD_append_lt _ _ _ (h.len ▸ ha)
  have hgeteq : ∀ x, (st.comps ++ [x]).getD i 0 = x := by
    intro x; have := getD_append_eq st.comps x; rwa [h.len] at this
  have cases_lt : ∀ a, a < i + 1 → a < i ∨ a = i := fun a ha => by omega
  unfold labStep
  by_cases hzi : z (rt i) = true
  · -- singleton shortcut
    rw [if_pos hzi]
    have fresh : ∀ a, a < i → rt a ≠ rt i := hz hzi
    refine ⟨by simp [h.len], ?_, ?_, ?_, ?_, ?_⟩
    · intro a ha
      rcases cases_lt a ha with ha | rfl
      · have := h.lt a ha; simp only [hgetlt _ a ha, Lab.count] at this ⊢; omega
      · simp only [hgeteq, Lab.count]; omega
    · intro l hl
      simp only [Lab.count] at hl
      by_cases e : l = st.toLabel.length + st.lonely
      · exact ⟨i, by omega, by rw [hgeteq]; exact e.symm⟩
      · obtain ⟨a, ha, hla⟩ := h.surj l (by simp only [Lab.count]; omega)
        exact ⟨a, by omega, by rw [hgetlt _ a ha]; exact hla⟩
    · intro a b ha hb
      rcases cases_lt a ha with ha | rfl <;> rcases cases_lt b hb with hb | rfl
      · simp only [hgetlt _ _ ha, hgetlt _ _ hb]; exact h.same a b ha hb
      · simp only [hgetlt _ _ ha, hgeteq]
        have := h.lt a ha; simp only [Lab.count] at this
        constructor
        · intro e; omega
        · intro e; exact (fresh a ha e).elim
      · simp only [hgetlt _ _ hb, hgeteq]
        have := h.lt b hb; simp only [Lab.count] at this
        constructor
        · intro e; omega
        · intro e; exact (fresh b hb e.symm).elim
      · simp
    · intro r l hrl
      obtain ⟨a, ha, h1, h2⟩ := h.tl r l hrl
      exact ⟨a, by omega, h1, by rw [hgetlt _ a ha]; exact h2⟩
    · intro a ha hza
      rcases cases_lt a ha with ha | rfl
      · rw [hgetlt _ a ha]; exact h.look a ha hza
      · rw [hzi] at hza; cases hza
  · have hzi' : z (rt i) = false := by simpa using hzi
    rw [if_neg hzi]
    cases hlk : st.toLabel.lookup (rt i) with
    | none =>
      dsimp only
      have fresh : ∀ a, a < i → rt a ≠ rt i := by
        intro a ha e
        have := h.look a ha (e ▸ hzi')
        rw [e, hlk] at this; cases this
      refine ⟨by simp [h.len], ?_, ?_, ?_, ?_, ?_⟩
      · intro a ha
        rcases cases_lt a ha with ha | rfl
        · have := h.lt a ha; simp only [hgetlt _ a ha, Lab.count, List.length_cons] at this ⊢; omega
        · simp only [hgeteq, Lab.count, List.length_cons]; omega
      · intro l hl
        simp only [Lab.count, List.length_cons] at hl
        by_cases e : l = st.toLabel.length + st.lonely
        · exact ⟨i, by omega, by rw [hgeteq]; exact e.symm⟩
        · obtain ⟨a, ha, hla⟩ := h.surj l (by simp only [Lab.count]; omega)
          exact ⟨a, by omega, by rw [hgetlt _ a ha]; exact hla⟩
      · intro a b ha hb
        rcases cases_lt a ha with ha | rfl <;> rcases cases_lt b hb with hb | rfl
        · simp only [hgetlt _ _ ha, hgetlt _ _ hb]; exact h.same a b ha hb
        · simp only [hgetlt _ _ ha, hgeteq]
          have := h.lt a ha; simp only [Lab.count] at this
          constructor
          · intro e; omega
          · intro e; exact (fresh a ha e).elim
        · simp only [hgetlt _ _ hb, hgeteq]
          have := h.lt b hb; simp only [Lab.count] at this
          constructor
          · intro e; omega
          · intro e; exact (fresh b hb e.symm).elim
        · simp
      · intro r l hrl
        rcases List.mem_cons.1 hrl with e | hrl
        · cases e; exact ⟨i, by omega, rfl, hgeteq _⟩
        · obtain ⟨a, ha, h1, h2⟩ := h.tl r l hrl
          exact ⟨a, by omega, h1, by rw [hgetlt _ a ha]; exact h2⟩
      · intro a ha hza
        rcases cases_lt a ha with ha | rfl
        · rw [hgetlt _ a ha]
          have hne : (rt a == rt i) = false := by simpa using fresh a ha
          simp only [List.lookup, hne]
          exact h.look a ha hza
        · rw [hgeteq]; simp [List.lookup]
    | some l =>
      dsimp only
      obtain ⟨a0, ha0, hr0, hl0⟩ := h.tl _ _ (lookup_mem hlk)
      refine ⟨by simp [h.len], ?_, ?_, ?_, ?_, ?_⟩
      · intro a ha
        rcases cases_lt a ha with ha | rfl
        · have := h.lt a ha; simp only [hgetlt _ a ha, Lab.count] at this ⊢; omega
        · have := h.lt a0 ha0; simp only [hgeteq, Lab.count] at this ⊢; omega
      · intro l' hl'
        obtain ⟨a, ha, hla⟩ := h.surj l' hl'
        exact ⟨a, by omega, by rw [hgetlt _ a ha]; exact hla⟩
      · intro a b ha hb
        rcases cases_lt a ha with ha | rfl <;> rcases cases_lt b hb with hb | rfl
        · simp only [hgetlt _ _ ha, hgetlt _ _ hb]; exact h.same a b ha hb
        · simp only [hgetlt _ _ ha, hgeteq, ← hl0, ← hr0]; exact h.same a a0 ha ha0
        · simp only [hgetlt _ _ hb, hgeteq, ← hl0, ← hr0]; exact h.same a0 b ha0 hb
        · simp
      · intro r l' hrl
        obtain ⟨a, ha, h1, h2⟩ := h.tl r l' hrl
        exact ⟨a, by omega, h1, by rw [hgetlt _ a ha]; exact h2⟩
      · intro a ha hza
        rcases cases_lt a ha with ha | rfl
        · rw [hgetlt _ a ha]; exact h.look a ha hza
        · rw [hgeteq]; exact hlk

def labRun (rt : Nat → Nat) (z : Nat → Bool) (k : Nat) : Lab :=
  (List.range k).foldl (labStep rt z) {}

theorem labRun_succ (rt : Nat → Nat) (z : Nat → Bool) (k : Nat) :
    labRun rt z (k + 1) = labStep rt z (labRun rt z k) k := by
  unfold labRun; rw [List.range_succ, List.foldl_append]; rfl

theorem labRun_inv {rt : Nat → Nat} {z : Nat → Bool} {n : Nat}
    (hz : ∀ i, i < n → z (rt i) = true → ∀ a, a < i → rt a ≠ rt i) :
    ∀ k, k ≤ n → LabInv rt z k (labRun rt z k) := by
  intro k
  induction k with
  | zero =>
    intro _
    refine ⟨rfl, fun a h => by omega, fun l h => ?_, fun a b h => by omega, fun r l h => ?_,
      fun a h => by omega⟩
    · simp [labRun, Lab.count] at h
    · simp [labRun] at h
  | succ k ih =>
    intro hk
    rw [labRun_succ]
    exact labStep_inv (hz k (by omega)) (ih (by omega))

/-! ## `connectedComponents` is the labelling loop over `root` -/

/-- rank-0 roots have no children (I3 at quiescence) -/
def NoChild0 (n : Nat) (m : Mem) : Prop :=
  ∀ r j, r < n → j < n → par m r = r → rk m r = 0 → par m j = r → j = r

theorem rootF_child {m : Mem} {r : Nat} : ∀ (f i : Nat), rootF m f i = r → par m r = r → i ≠ r →
    ∃ j, j ≠ r ∧ par m j = r ∧ (∃ g, j = rootF m g i) := by
  intro f
  induction f with
  | zero => intro i h _ hne; exact (hne h).elim
  | succ f ih =>
    intro i h hr hne
    unfold rootF at h
    by_cases hi : par m i = i
    · rw [if_pos hi] at h; exact (hne h).elim
    · rw [if_neg hi] at h
      by_cases hp : par m i = r
      · exact ⟨i, hne, hp, 0, rfl⟩
      · obtain ⟨j, h1, h2, g, h3⟩ := ih (par m i) h hr hp
        refine ⟨j, h1, h2, g + 1, ?_⟩
        rw [h3]; show rootF m g (par m i) = rootF m (g + 1) i
        conv => rhs; unfold rootF
        rw [if_neg hi]

theorem rootF_lt {n : Nat} {m : Mem} {E : List (Nat × Nat)} (hm : MemInv n m E) :
    ∀ (g i : Nat), i < n → rootF m g i < n := by
  intro g
  induction g with
  | zero => intro i hi; exact hi
  | succ g ih =>
    intro i hi; unfold rootF
    by_cases h : par m i = i
    · rw [if_pos h]; exact hi
    · rw [if_neg h]; exact ih _ (hm.bound i hi)

/-- with (I3), a rank-0 root is alone in its class -/
theorem singleton_of_rank0 {n : Nat} {m : Mem} {E : List (Nat × Nat)} (hm : MemInv n m E)
    (h3 : NoChild0 n m) {i : Nat} (hi : i < n) (hz : rk m (root m i) = 0) : root m i = i := by
  obtain ⟨r1, r2, _⟩ := root_spec hm hi
  apply Classical.byContradiction
  intro hne
  obtain ⟨j, hj1, hj2, g, hj3⟩ := rootF_child m.length i rfl r2 (fun e => hne e.symm)
  have hjn : j < n := hj3 ▸ rootF_lt hm g i hi
  exact hj1 (h3 _ j r1 hjn r2 hz hj2)

def CC.lab (st : CC) : Lab := ⟨st.toLabel, st.lonely, st.comps⟩

/-- the memory stays a version of the original one: invariant, same ranks, same roots -/
structure SameRoots (n : Nat) (E : List (Nat × Nat)) (m m' : Mem) : Prop where
  inv : MemInv n m' E
  rk : ∀ j, rk m' j = rk m j
  rt : ∀ j, par m' j = j ↔ par m j = j

theorem ccStep_lab {n : Nat} {m : Mem} {E : List (Nat × Nat)} (hm : MemInv n m E) {st : CC}
    (hs : SameRoots n E m st.mem) {i : Nat} (hi : i < n) :
    SameRoots n E m (ccStep st i).mem ∧
    (ccStep st i).lab = labStep (root m) (fun r => decide (rk m r = 0)) st.lab i := by
  have hlen : st.mem.length = n := hs.inv.len
  have hmu := mu_lt_n st.mem hi
  obtain ⟨f1, f2, f3, f4, f5, f6⟩ := findSeq_spec (E := E) st.mem.length st.mem i hs.inv hi
    (by rw [hlen]; exact hmu)
  -- the element returned is the root of `i` in the original memory
  have hr : (findSeq st.mem.length st.mem i).2 = root m i := by
    obtain ⟨a1, a2, a3⟩ := root_spec hm hi
    exact hm.uroot _ _ f2 a1 (f4.symm.trans a3) ((hs.rt _).1 ((f6 _).1 f3)) a2
  have hrk : (rd (findSeq st.mem.length st.mem i).1 (findSeq st.mem.length st.mem i).2).rank
      = rk m (root m i) := by
    have := (f5 (findSeq st.mem.length st.mem i).2).trans (hs.rk _)
    rw [hr] at this; rw [hr]; exact this
  have hs' : SameRoots n E m (findSeq st.mem.length st.mem i).1 :=
    ⟨f1, fun j => (f5 j).trans (hs.rk j), fun j => (f6 j).trans (hs.rt j)⟩
  unfold ccStep labStep CC.lab
  rcases hfs : findSeq st.mem.length st.mem i with ⟨m', r⟩
  rw [hfs] at hr hrk hs'
  dsimp only at hr hrk hs' ⊢
  subst hr
  by_cases hz : rk m (root m i) = 0
  · have : (rd m' (root m i)).rank = 0 := hrk.trans hz
    simp only [this, hz, decide_true, if_true]
    exact ⟨hs', trivial⟩
  · have : ¬ (rd m' (root m i)).rank = 0 := fun e => hz (hrk.symm.trans e)
    simp only [this, hz, decide_false, if_false, Bool.false_eq_true]
    cases st.toLabel.lookup (root m i) <;> exact ⟨hs', rfl⟩

theorem ccRun_lab {n : Nat} {m : Mem} {E : List (Nat × Nat)} (hm : MemInv n m E) :
    ∀ k, k ≤ n →
      SameRoots n E m ((List.range k).foldl ccStep { mem := m }).mem ∧
      ((List.range k).foldl ccStep { mem := m }).lab =
        labRun (root m) (fun r => decide (rk m r = 0)) k := by
  intro k
  induction k with
  | zero => intro _; exact ⟨⟨hm, fun _ => rfl, fun _ => Iff.rfl⟩, rfl⟩
  | succ k ih =>
    intro hk
    obtain ⟨h1, h2⟩ := ih (by omega)
    rw [List.range_succ, List.foldl_append, labRun_succ]
    simp only [List.foldl_cons, List.foldl_nil]
    obtain ⟨g1, g2⟩ := ccStep_lab hm h1 (show k < n by omega)
    exact ⟨g1, by rw [g2, h2]⟩

/-- `connectedComponents` on a memory satisfying the invariant and (I3): returns `k` and labels
`0..k-1`, all used, two elements get the same label iff they are in the same class -/
theorem connectedComponents_spec {n : Nat} {m : Mem} {E : List (Nat × Nat)} (hm : MemInv n m E)
    (h3 : NoChild0 n m) :
    (connectedComponents m).2.length = n ∧
    (∀ a, a < n → (connectedComponents m).2.getD a 0 < (connectedComponents m).1) ∧
    (∀ l, l < (connectedComponents m).1 → ∃ a, a < n ∧ (connectedComponents m).2.getD a 0 = l) ∧
    (∀ a b, a < n → b < n →
      ((connectedComponents m).2.getD a 0 = (connectedComponents m).2.getD b 0 ↔ Conn E a b)) := by
  have hz : ∀ i, i < n → decide (rk m (root m i) = 0) = true → ∀ a, a < i → root m a ≠ root m i := by
    intro i hi hz a ha e
    have hz' : rk m (root m i) = 0 := by simpa using hz
    have h1 := singleton_of_rank0 hm h3 hi hz'
    have h2 := singleton_of_rank0 hm h3 (show a < n by omega) (e ▸ hz')
    omega
  have hinv := labRun_inv (rt := root m) (z := fun r => decide (rk m r = 0)) hz n (Nat.le_refl n)
  obtain ⟨_, hlab⟩ := ccRun_lab hm n (Nat.le_refl n)
  have hcc : connectedComponents m =
      ((labRun (root m) (fun r => decide (rk m r = 0)) n).count,
       (labRun (root m) (fun r => decide (rk m r = 0)) n).comps) := by
    unfold connectedComponents ccRun
    rw [hm.len, ← hlab]; rfl
  rw [hcc]
  refine ⟨hinv.len, hinv.lt, hinv.surj, fun a b ha hb => ?_⟩
  exact (hinv.same a b ha hb).trans (root_eq_iff hm ha hb)

end MV.Dsu
