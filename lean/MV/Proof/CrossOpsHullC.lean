import MV.Proof.CrossOpsField
/-!
Convex hull, part C: list combinatorics.  A cyclic pair / triple of a ring `l` is a consecutive
pair / triple of `l ++ l`; for a ring `X ++ Y` glued from two chains `X ++ [y0]`, `Y ++ [x0]`
(`X = x0 :: _`, `Y = y0 :: _`) those are consecutive in one of the two chains or sit at a joint.
-/
namespace MV.CrossOps

variable {β : Type}

theorem zip_pair_decomp (a b : β) :
    ∀ (l r m : List β), l <+: m → r <+: m.tail → (a, b) ∈ l.zip r →
      ∃ l1 l2, m = l1 ++ a :: b :: l2 := by
  intro l
  induction l with
  | nil => intro r m _ _ h; simp at h
  | cons x l ih =>
    intro r m hl hr hmem
    cases m with
    | nil => simp at hl
    | cons x' m' =>
      obtain ⟨rfl, hl'⟩ := List.cons_prefix_cons.1 hl
      cases r with
      | nil => simp at hmem
      | cons y r' =>
        cases m' with
        | nil => simp at hr
        | cons y' m'' =>
          simp only [List.tail_cons] at hr
          obtain ⟨rfl, hr'⟩ := List.cons_prefix_cons.1 hr
          simp only [List.zip_cons_cons, List.mem_cons, Prod.mk.injEq] at hmem
          rcases hmem with ⟨rfl, rfl⟩ | hmem
          · exact ⟨[], m'', rfl⟩
          · obtain ⟨l1, l2, e⟩ := ih r' (y :: m'') hl' (by simpa using hr') hmem
            exact ⟨x :: l1, l2, by rw [e]; rfl⟩

theorem zip_triple_decomp (a b c : β) :
    ∀ (l r1 r2 m : List β), l <+: m → r1 <+: m.tail → r2 <+: m.tail.tail →
      (a, b, c) ∈ l.zip (r1.zip r2) → ∃ l1 l2, m = l1 ++ a :: b :: c :: l2 := by
  intro l
  induction l with
  | nil => intro r1 r2 m _ _ _ h; simp at h
  | cons x l ih =>
    intro r1 r2 m hl h1 h2 hmem
    cases m with
    | nil => simp at hl
    | cons x' m' =>
      obtain ⟨rfl, hl'⟩ := List.cons_prefix_cons.1 hl
      cases r1 with
      | nil => simp at hmem
      | cons y r1' =>
        cases r2 with
        | nil => simp at hmem
        | cons z r2' =>
          cases m' with
          | nil => simp at h1
          | cons y' m'' =>
            simp only [List.tail_cons] at h1 h2
            obtain ⟨rfl, h1'⟩ := List.cons_prefix_cons.1 h1
            cases m'' with
            | nil => simp at h2
            | cons z' m''' =>
              obtain ⟨rfl, h2'⟩ := List.cons_prefix_cons.1 h2
              simp only [List.zip_cons_cons, List.mem_cons, Prod.mk.injEq] at hmem
              rcases hmem with ⟨rfl, rfl, rfl⟩ | hmem
              · exact ⟨[], m''', rfl⟩
              · obtain ⟨l1, l2, e⟩ := ih r1' r2' (y :: z :: m''') hl' (by simpa using h1')
                  (by simpa using h2') hmem
                exact ⟨x :: l1, l2, by rw [e]; rfl⟩

theorem cyclicPairs_decomp {l : List β} {e : β × β} (he : e ∈ cyclicPairs l) :
    ∃ l1 l2, l ++ l = l1 ++ e.1 :: e.2 :: l2 := by
  cases l with
  | nil => simp [cyclicPairs] at he
  | cons x l' =>
    refine zip_pair_decomp e.1 e.2 (x :: l') (l' ++ [x]) _ (List.prefix_append _ _) ?_ ?_
    · exact ⟨l', by simp⟩
    · simpa [cyclicPairs] using he

theorem cyclicTriples_decomp {l : List β} (h2 : 2 ≤ l.length) {t : β × β × β}
    (ht : t ∈ cyclicTriples l) : ∃ l1 l2, l ++ l = l1 ++ t.1 :: t.2.1 :: t.2.2 :: l2 := by
  match l, h2 with
  | x :: y :: l'', _ =>
    refine zip_triple_decomp t.1 t.2.1 t.2.2 (x :: y :: l'') (y :: l'' ++ [x]) (l'' ++ [x, y]) _
      (List.prefix_append _ _) ?_ ?_ ?_
    · exact ⟨y :: l'', by simp⟩
    · exact ⟨l'', by simp⟩
    · simpa [cyclicTriples] using ht

theorem pair_split (a b m : β) (S' l2 : List β) :
    ∀ (P l1 : List β), P ++ m :: S' = l1 ++ a :: b :: l2 →
      (∃ l2', P ++ [m] = l1 ++ a :: b :: l2') ∨ (∃ l1', m :: S' = l1' ++ a :: b :: l2) := by
  intro P
  induction P with
  | nil => intro l1 h; exact Or.inr ⟨l1, by simpa using h⟩
  | cons x P' ih =>
    intro l1 h
    cases l1 with
    | nil =>
      simp only [List.cons_append, List.nil_append, List.cons.injEq] at h
      obtain ⟨rfl, h⟩ := h
      cases P' with
      | nil =>
        simp only [List.nil_append, List.cons.injEq] at h
        obtain ⟨rfl, _⟩ := h
        exact Or.inl ⟨[], rfl⟩
      | cons y P'' =>
        simp only [List.cons_append, List.cons.injEq] at h
        obtain ⟨rfl, _⟩ := h
        exact Or.inl ⟨P'' ++ [m], rfl⟩
    | cons w l1' =>
      simp only [List.cons_append, List.cons.injEq] at h
      obtain ⟨rfl, h⟩ := h
      rcases ih l1' h with ⟨l2', e⟩ | r
      · exact Or.inl ⟨l2', by simp only [List.cons_append, e]⟩
      · exact Or.inr r

theorem triple_split (a b c m : β) (S' l2 : List β) :
    ∀ (P l1 : List β), P ++ m :: S' = l1 ++ a :: b :: c :: l2 →
      (∃ l2', P ++ [m] = l1 ++ a :: b :: c :: l2') ∨
      (∃ P' S'', P = P' ++ [a] ∧ b = m ∧ S' = c :: S'') ∨
      (∃ l1', m :: S' = l1' ++ a :: b :: c :: l2) := by
  intro P
  induction P with
  | nil => intro l1 h; exact Or.inr (Or.inr ⟨l1, by simpa using h⟩)
  | cons x P' ih =>
    intro l1 h
    cases l1 with
    | nil =>
      simp only [List.cons_append, List.nil_append, List.cons.injEq] at h
      obtain ⟨rfl, h⟩ := h
      cases P' with
      | nil =>
        simp only [List.nil_append, List.cons.injEq] at h
        obtain ⟨rfl, h⟩ := h
        exact Or.inr (Or.inl ⟨[], l2, rfl, rfl, h⟩)
      | cons y P'' =>
        simp only [List.cons_append, List.cons.injEq] at h
        obtain ⟨rfl, h⟩ := h
        cases P'' with
        | nil =>
          simp only [List.nil_append, List.cons.injEq] at h
          obtain ⟨rfl, _⟩ := h
          exact Or.inl ⟨[], rfl⟩
        | cons z P''' =>
          simp only [List.cons_append, List.cons.injEq] at h
          obtain ⟨rfl, _⟩ := h
          exact Or.inl ⟨P''' ++ [m], rfl⟩
    | cons w l1' =>
      simp only [List.cons_append, List.cons.injEq] at h
      obtain ⟨rfl, h⟩ := h
      rcases ih l1' h with ⟨l2', e⟩ | ⟨P'', S'', e1, e2, e3⟩ | r
      · exact Or.inl ⟨l2', by simp only [List.cons_append, e]⟩
      · exact Or.inr (Or.inl ⟨x :: P'', S'', by rw [e1]; rfl, e2, e3⟩)
      · exact Or.inr (Or.inr r)

/-- a consecutive pair of the doubled ring lies in one of the two chains -/
theorem ring_pairs {x0 y0 a b : β} {X' Y' l1 l2 : List β}
    (h : ((x0 :: X') ++ (y0 :: Y')) ++ ((x0 :: X') ++ (y0 :: Y')) = l1 ++ a :: b :: l2) :
    (∃ k1 k2, (x0 :: X') ++ [y0] = k1 ++ a :: b :: k2) ∨
    (∃ k1 k2, (y0 :: Y') ++ [x0] = k1 ++ a :: b :: k2) := by
  have h1 : (x0 :: X') ++ y0 :: (Y' ++ ((x0 :: X') ++ (y0 :: Y'))) = l1 ++ a :: b :: l2 := by
    rw [← h]; simp
  rcases pair_split a b y0 _ l2 _ l1 h1 with ⟨k2, e⟩ | ⟨l1', h2⟩
  · exact Or.inl ⟨l1, k2, e⟩
  · have h2' : (y0 :: Y') ++ x0 :: (X' ++ (y0 :: Y')) = l1' ++ a :: b :: l2 := by
      rw [← h2]; simp
    rcases pair_split a b x0 _ l2 _ l1' h2' with ⟨k2, e⟩ | ⟨l1'', h3⟩
    · exact Or.inr ⟨l1', k2, e⟩
    · have h3' : (x0 :: X') ++ y0 :: Y' = l1'' ++ a :: b :: l2 := by
        rw [← h3]; simp
      rcases pair_split a b y0 _ l2 _ l1'' h3' with ⟨k2, e⟩ | ⟨k1, h4⟩
      · exact Or.inl ⟨l1'', k2, e⟩
      · exact Or.inr ⟨k1, l2 ++ [x0], by rw [h4]; simp⟩

/-- a consecutive triple of the doubled ring lies in one of the two chains or at a joint -/
theorem ring_triples {x0 y0 a b c : β} {X' Y' l1 l2 : List β}
    (h : ((x0 :: X') ++ (y0 :: Y')) ++ ((x0 :: X') ++ (y0 :: Y')) = l1 ++ a :: b :: c :: l2) :
    (∃ k1 k2, (x0 :: X') ++ [y0] = k1 ++ a :: b :: c :: k2) ∨
    (∃ k1 k2, (y0 :: Y') ++ [x0] = k1 ++ a :: b :: c :: k2) ∨
    (∃ P R, x0 :: X' = P ++ [a] ∧ b = y0 ∧ (y0 :: Y') ++ [x0] = y0 :: c :: R) ∨
    (∃ P R, y0 :: Y' = P ++ [a] ∧ b = x0 ∧ (x0 :: X') ++ [y0] = x0 :: c :: R) := by
  have h1 : (x0 :: X') ++ y0 :: (Y' ++ ((x0 :: X') ++ (y0 :: Y'))) = l1 ++ a :: b :: c :: l2 := by
    rw [← h]; simp
  rcases triple_split a b c y0 _ l2 _ l1 h1 with ⟨k2, e⟩ | ⟨P, S'', e1, e2, e3⟩ | ⟨l1', h2⟩
  · exact Or.inl ⟨l1, k2, e⟩
  · refine Or.inr (Or.inr (Or.inl ?_))
    cases Y' with
    | nil =>
      simp only [List.nil_append, List.cons_append, List.cons.injEq] at e3
      exact ⟨P, [], e1, e2, by rw [e3.1]; rfl⟩
    | cons y1 Y'' =>
      simp only [List.cons_append, List.cons.injEq] at e3
      exact ⟨P, Y'' ++ [x0], e1, e2, by rw [e3.1]; rfl⟩
  · have h2' : (y0 :: Y') ++ x0 :: (X' ++ (y0 :: Y')) = l1' ++ a :: b :: c :: l2 := by
      rw [← h2]; simp
    rcases triple_split a b c x0 _ l2 _ l1' h2' with ⟨k2, e⟩ | ⟨P, S'', e1, e2, e3⟩ | ⟨l1'', h3⟩
    · exact Or.inr (Or.inl ⟨l1', k2, e⟩)
    · refine Or.inr (Or.inr (Or.inr ?_))
      cases X' with
      | nil =>
        simp only [List.nil_append, List.cons.injEq] at e3
        exact ⟨P, [], e1, e2, by rw [e3.1]; rfl⟩
      | cons x1 X'' =>
        simp only [List.cons_append, List.cons.injEq] at e3
        exact ⟨P, X'' ++ [y0], e1, e2, by rw [e3.1]; rfl⟩
    · have h3' : (x0 :: X') ++ y0 :: Y' = l1'' ++ a :: b :: c :: l2 := by
        rw [← h3]; simp
      rcases triple_split a b c y0 _ l2 _ l1'' h3' with ⟨k2, e⟩ | ⟨P, S'', e1, e2, e3⟩ | ⟨k1, h4⟩
      · exact Or.inl ⟨l1'', k2, e⟩
      · exact Or.inr (Or.inr (Or.inl ⟨P, S'' ++ [x0], e1, e2, by rw [e3]; rfl⟩))
      · exact Or.inr (Or.inl ⟨k1, l2 ++ [x0], by rw [h4]; simp⟩)

end MV.CrossOps
