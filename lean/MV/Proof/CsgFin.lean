import MV.Proof.CsgMachine
/-
The store update performed by one finalize, and the extension relation between stores.
-/
set_option autoImplicit false
namespace MV.Csg
open SolidAlg XfAct

variable {M S : Type}

/-- structural extension: what an evaluation may do to the store -/
structure Ext (s s' : Store M) : Prop where
  len : s.nodes.length ≤ s'.nodes.length
  ilen : s'.impls.length = s.impls.length
  leaf : ∀ {k : Nat} {l : Leaf M}, s.nodes[k]? = some (Node.leaf l) →
    s'.nodes[k]? = some (Node.leaf l)
  op : ∀ {k i : Nat} {o : Op} {m : M} {c : Option Nat}, s.nodes[k]? = some (Node.op i o m c) →
    ∃ c', s'.nodes[k]? = some (Node.op i o m c')
  new : ∀ {k : Nat} {nd : Node M}, s.nodes.length ≤ k → s'.nodes[k]? = some nd →
    ∃ l, nd = Node.leaf l
  cost : ∀ k, cost s' k ≤ cost s k

theorem Ext.refl (s : Store M) : Ext s s where
  len := Nat.le_refl _
  ilen := rfl
  leaf := id
  op := fun h => ⟨_, h⟩
  new := fun h1 h2 => by
    have := (List.getElem?_eq_some_iff.1 h2).1
    omega
  cost := fun _ => Nat.le_refl _

theorem Ext.trans {s s' s'' : Store M} (a : Ext s s') (b : Ext s' s'') : Ext s s'' where
  len := Nat.le_trans a.len b.len
  ilen := b.ilen.trans a.ilen
  leaf := fun h => b.leaf (a.leaf h)
  op := fun h => by
    obtain ⟨c', h'⟩ := a.op h
    exact b.op h'
  new := fun {k nd} h1 h2 => by
    by_cases hk : s'.nodes.length ≤ k
    · exact b.new hk h2
    · have hk' : k < s'.nodes.length := by omega
      obtain ⟨nd', hnd'⟩ : ∃ nd', s'.nodes[k]? = some nd' := ⟨_, List.getElem?_eq_getElem hk'⟩
      obtain ⟨l, rfl⟩ := a.new h1 hnd'
      have := b.leaf hnd'
      rw [this] at h2
      exact ⟨l, (Option.some.inj h2).symm⟩
  cost := fun k => Nat.le_trans (b.cost k) (a.cost k)

/-- an op node of the extended store was the same op node (up to its cache) before -/
theorem Ext.op_inv {s s' : Store M} (e : Ext s s') {k i : Nat} {o : Op} {m : M}
    {c' : Option Nat} (h : s'.nodes[k]? = some (Node.op i o m c')) :
    ∃ c, s.nodes[k]? = some (Node.op i o m c) := by
  by_cases hk : s.nodes.length ≤ k
  · obtain ⟨l, hl⟩ := e.new hk h
    cases hl
  · have hk' : k < s.nodes.length := by omega
    cases hnd : s.nodes[k]? with
    | none => rw [List.getElem?_eq_getElem hk'] at hnd; cases hnd
    | some nd =>
      cases nd with
      | leaf l => rw [e.leaf hnd] at h; cases h
      | op i' o' m' c =>
        obtain ⟨c'', h'⟩ := e.op hnd
        rw [h'] at h
        cases h
        exact ⟨c, rfl⟩

section Sem
variable [One M] [Mul M] [SolidAlg S] [XfAct M S]

/-- caches hold the value of their node -/
def CacheOK (L : Val S) (s : Store M) : Prop :=
  ∀ {n i : Nat} {o : Op} {m : M} {c : Nat}, s.nodes[n]? = some (Node.op i o m (some c)) →
    denote L s c = denote L s n

/-- denotations of existing nodes are unchanged -/
def SemExt (L : Val S) (s s' : Store M) : Prop :=
  ∀ k, k < s.nodes.length → denote L s' k = denote L s k

theorem SemExt.refl (L : Val S) (s : Store M) : SemExt L s s := fun _ _ => rfl

theorem SemExt.trans' {L : Val S} {s s' s'' : Store M} (e : s.nodes.length ≤ s'.nodes.length)
    (a : SemExt L s s') (b : SemExt L s' s'') : SemExt L s s'' := fun k hk => by
  rw [b k (by omega), a k hk]

theorem SemExt.trans {L : Val S} {s s' s'' : Store M} (e : Ext s s') (a : SemExt L s s')
    (b : SemExt L s' s'') : SemExt L s s'' := fun k hk => by
  rw [b k (by have := e.len; omega), a k hk]

end Sem

/-! ### the finalize update -/

/-- l.770-796: `*impl = {res}; cache_ = (*impl)[0]->Transform(transform_)` -/
def finStore [Mul M] (s : Store M) (n i : Nat) (o : Op) (nxf : M) (res : Leaf M) (fresh : Bool) :
    Store M :=
  { nodes := s.nodes.set n (.op i o nxf (some (s.nodes.length + 1)))
               ++ [.leaf res, .leaf (res.transform nxf)],
    impls := s.impls.set i [s.nodes.length],
    nextRes := if fresh then s.nextRes + 1 else s.nextRes }

section FinStore
variable [Mul M] {s : Store M} {n i : Nat} {o : Op} {nxf : M} {res : Leaf M} {fresh : Bool}

theorem finStore_lt {k : Nat} (hk : k < s.nodes.length) :
    (finStore s n i o nxf res fresh).nodes[k]? =
      if n = k then some (.op i o nxf (some (s.nodes.length + 1))) else s.nodes[k]? := by
  simp only [finStore]
  rw [List.getElem?_append_left (by simpa using hk), List.getElem?_set]
  split
  · simp [*]
  · rfl

theorem finStore_n (hn : n < s.nodes.length) :
    (finStore s n i o nxf res fresh).nodes[n]? =
      some (.op i o nxf (some (s.nodes.length + 1))) := by
  rw [finStore_lt hn]; simp

theorem finStore_len0 :
    (finStore s n i o nxf res fresh).nodes[s.nodes.length]? = some (.leaf res) := by
  simp only [finStore]
  rw [List.getElem?_append_right (by simp)]
  simp

theorem finStore_len1 :
    (finStore s n i o nxf res fresh).nodes[s.nodes.length + 1]? =
      some (.leaf (res.transform nxf)) := by
  simp only [finStore]
  rw [List.getElem?_append_right (by simp)]
  simp

theorem finStore_length :
    (finStore s n i o nxf res fresh).nodes.length = s.nodes.length + 2 := by
  simp [finStore]

theorem finStore_ilen : (finStore s n i o nxf res fresh).impls.length = s.impls.length := by
  simp [finStore]

theorem finStore_impl (hi : i < s.impls.length) (j : Nat) :
    (finStore s n i o nxf res fresh).impls[j]? =
      if i = j then some [s.nodes.length] else s.impls[j]? := by
  simp only [finStore, List.getElem?_set, hi, if_true]

/-- case analysis of a node of the new store -/
theorem finStore_cases {k : Nat} {nd : Node M}
    (h : (finStore s n i o nxf res fresh).nodes[k]? = some nd) :
    (k < s.nodes.length ∧ k ≠ n ∧ s.nodes[k]? = some nd) ∨
    (k = n ∧ n < s.nodes.length ∧ nd = .op i o nxf (some (s.nodes.length + 1))) ∨
    (k = s.nodes.length ∧ nd = .leaf res) ∨
    (k = s.nodes.length + 1 ∧ nd = .leaf (res.transform nxf)) := by
  by_cases hk : k < s.nodes.length
  · rw [finStore_lt hk] at h
    split at h
    · rename_i e; subst e
      right; left; exact ⟨rfl, hk, (Option.some.inj h).symm⟩
    · rename_i e
      left; exact ⟨hk, fun e' => e e'.symm, h⟩
  · have hlen := (List.getElem?_eq_some_iff.1 h).1
    rw [finStore_length] at hlen
    have : k = s.nodes.length ∨ k = s.nodes.length + 1 := by omega
    rcases this with rfl | rfl
    · rw [finStore_len0] at h
      right; right; left; exact ⟨rfl, (Option.some.inj h).symm⟩
    · rw [finStore_len1] at h
      right; right; right; exact ⟨rfl, (Option.some.inj h).symm⟩

theorem finStore_leaf_old {c : Option Nat} (hn : s.nodes[n]? = some (Node.op i o nxf c))
    {k : Nat} {l : Leaf M}
    (h : s.nodes[k]? = some (Node.leaf l)) :
    (finStore s n i o nxf res fresh).nodes[k]? = some (Node.leaf l) := by
  have hk := (List.getElem?_eq_some_iff.1 h).1
  rw [finStore_lt hk]
  split
  · rename_i e; subst e; rw [hn] at h; cases h
  · exact h

theorem finStore_op_old {c : Option Nat} (hn : s.nodes[n]? = some (Node.op i o nxf c))
    {k j : Nat} {o' : Op} {m : M} {c' : Option Nat}
    (h : s.nodes[k]? = some (Node.op j o' m c')) :
    ∃ c'', (finStore s n i o nxf res fresh).nodes[k]? = some (Node.op j o' m c'') := by
  have hk := (List.getElem?_eq_some_iff.1 h).1
  rw [finStore_lt hk]
  split
  · rename_i e; subst e; rw [hn] at h; cases h; exact ⟨_, rfl⟩
  · exact ⟨_, h⟩

theorem finStore_op_inv {c : Option Nat} (hn : s.nodes[n]? = some (Node.op i o nxf c))
    {k j : Nat} {o' : Op} {m : M} {c' : Option Nat}
    (h : (finStore s n i o nxf res fresh).nodes[k]? = some (Node.op j o' m c')) :
    ∃ c'', s.nodes[k]? = some (Node.op j o' m c'') := by
  rcases finStore_cases h with ⟨_, _, h'⟩ | ⟨rfl, _, h'⟩ | ⟨_, h'⟩ | ⟨_, h'⟩
  · exact ⟨_, h'⟩
  · cases h'; exact ⟨_, hn⟩
  · cases h'
  · cases h'

theorem finStore_wfs {c : Option Nat} (h : WFs s) (hn : s.nodes[n]? = some (Node.op i o nxf c)) :
    WFs (finStore s n i o nxf res fresh) := by
  have hi := h.impl_lt hn
  have hnlt := (List.getElem?_eq_some_iff.1 hn).1
  refine ⟨?_, ?_, ?_, ?_, ?_⟩
  · intro k j o' m c' hk
    obtain ⟨c'', h'⟩ := finStore_op_inv hn hk
    rw [finStore_ilen]; exact h.impl_lt h'
  · intro j ch hj c' hc'
    rw [finStore_impl hi] at hj
    split at hj
    · rename_i e; subst e
      cases hj
      simp only [List.mem_singleton] at hc'
      subst hc'
      exact Or.inl ⟨_, finStore_len0⟩
    · rcases h.child hj c' hc' with ⟨l, hl⟩ | ⟨i', o', m', k', hk', hlt⟩
      · exact Or.inl ⟨l, finStore_leaf_old hn hl⟩
      · obtain ⟨c'', h''⟩ := finStore_op_old (res := res) (fresh := fresh) hn hk'
        exact Or.inr ⟨i', o', m', c'', h'', hlt⟩
  · intro j ch hj
    rw [finStore_impl hi] at hj
    split at hj
    · cases hj
      exact Or.inr ⟨_, _, rfl, finStore_len0⟩
    · rcases h.shape hj with h2 | ⟨c', l, rfl, hl⟩
      · exact Or.inl h2
      · exact Or.inr ⟨c', l, rfl, finStore_leaf_old hn hl⟩
  · intro k k' j o1 o2 m1 m2 c1 c2 h1 h2
    obtain ⟨_, h1'⟩ := finStore_op_inv hn h1
    obtain ⟨_, h2'⟩ := finStore_op_inv hn h2
    exact h.op_same h1' h2'
  · intro k j o' m c' hk
    rcases finStore_cases hk with ⟨_, _, h'⟩ | ⟨rfl, _, h'⟩ | ⟨_, h'⟩ | ⟨_, h'⟩
    · obtain ⟨⟨l, hl⟩, c2, l2, hi2, hl2⟩ := h.cache h'
      refine ⟨⟨l, finStore_leaf_old hn hl⟩, ?_⟩
      rw [finStore_impl hi]
      split
      · exact ⟨_, _, rfl, finStore_len0⟩
      · exact ⟨c2, l2, hi2, finStore_leaf_old hn hl2⟩
    · cases h'
      refine ⟨⟨_, finStore_len1⟩, ?_⟩
      rw [finStore_impl hi, if_pos rfl]
      exact ⟨_, _, rfl, finStore_len0⟩
    · cases h'
    · cases h'

theorem sum_map_le {l : List Nat} {f g : Nat → Nat} (h : ∀ c ∈ l, f c ≤ g c) :
    (l.map f).sum ≤ (l.map g).sum := by
  induction l with
  | nil => simp
  | cons x xs ih =>
    simp only [List.map_cons, List.sum_cons]
    have := h x (by simp)
    have := ih (fun c hc => h c (by simp [hc]))
    omega

theorem finStore_cost {c : Option Nat} (h : WFs s) (hn : s.nodes[n]? = some (Node.op i o nxf c)) :
    ∀ k, cost (finStore s n i o nxf res fresh) k ≤ cost s k := by
  have h' := finStore_wfs (res := res) (fresh := fresh) h hn
  have hi := h.impl_lt hn
  suffices H : ∀ f k, rank s k < f → cost (finStore s n i o nxf res fresh) k ≤ cost s k from
    fun k => H _ k (Nat.lt_succ_self _)
  intro f
  induction f with
  | zero => intro k hk; omega
  | succ f ih =>
    intro k hk
    cases hnd : s.nodes[k]? with
    | none =>
      -- new or non-existent node: cost 0 in the new store
      have hklen : s.nodes.length ≤ k := by
        rcases Nat.lt_or_ge k s.nodes.length with h1 | h1
        · rw [List.getElem?_eq_getElem h1] at hnd; cases hnd
        · exact h1
      cases hnd' : (finStore s n i o nxf res fresh).nodes[k]? with
      | none => rw [cost_none hnd']; exact Nat.zero_le _
      | some nd =>
        rcases finStore_cases hnd' with ⟨h1, _⟩ | ⟨rfl, h1, _⟩ | ⟨_, rfl⟩ | ⟨_, rfl⟩
        · omega
        · omega
        · rw [cost_leaf hnd']; exact Nat.zero_le _
        · rw [cost_leaf hnd']; exact Nat.zero_le _
    | some nd =>
      cases nd with
      | leaf l => rw [cost_leaf (finStore_leaf_old hn hnd)]; exact Nat.zero_le _
      | op j o' m c' =>
        obtain ⟨c'', hk'⟩ := finStore_op_old (res := res) (fresh := fresh) hn hnd
        rw [cost_op h' hk', cost_op h hnd]
        have hj := h.impl_get hnd
        have hj' := finStore_impl (s := s) (n := n) (i := i) (o := o) (nxf := nxf) (res := res)
          (fresh := fresh) hi j
        by_cases e : i = j
        · subst e
          rw [if_pos rfl] at hj'
          rw [getD_of_getElem? hj']
          simp [cost_leaf (finStore_len0 (s := s) (n := n) (i := i) (o := o) (nxf := nxf)
            (res := res) (fresh := fresh))]
        · rw [if_neg e, hj] at hj'
          rw [getD_of_getElem? hj']
          have := sum_map_le (l := s.impls.getD j [])
            (f := cost (finStore s n i o nxf res fresh)) (g := cost s) (by
              intro c hc
              apply ih
              have := h.rank_child hj hc
              rw [rank_op hnd] at hk
              omega)
          omega

theorem finStore_ext {c : Option Nat} (h : WFs s) (hn : s.nodes[n]? = some (Node.op i o nxf c)) :
    Ext s (finStore s n i o nxf res fresh) where
  len := by rw [finStore_length]; omega
  ilen := finStore_ilen
  leaf := fun hl => finStore_leaf_old hn hl
  op := fun ho => finStore_op_old hn ho
  new := fun {k nd} hk hnd => by
    rcases finStore_cases hnd with ⟨h1, _⟩ | ⟨rfl, h1, _⟩ | ⟨_, rfl⟩ | ⟨_, rfl⟩
    · omega
    · omega
    · exact ⟨_, rfl⟩
    · exact ⟨_, rfl⟩
  cost := finStore_cost h hn

end FinStore

section FinSem
variable [One M] [Mul M] [SolidAlg S] [XfAct M S]
variable {s : Store M} {n i : Nat} {o : Op} {nxf : M} {res : Leaf M} {fresh : Bool}

omit [One M] [Mul M] in
theorem WFs.child_lt (h : WFs s) {j : Nat} {ch : List Nat} (hj : s.impls[j]? = some ch)
    {c : Nat} (hc : c ∈ ch) : c < s.nodes.length := by
  rcases h.child hj c hc with ⟨l, hl⟩ | ⟨_, _, _, _, hl, _⟩ <;>
    exact (List.getElem?_eq_some_iff.1 hl).1

/-- replacing the children of impl `i` by one leaf that has the value of the operation leaves
every denotation unchanged -/
theorem finStore_sem (L : Val S) {c : Option Nat} (h : WFs s)
    (hn : s.nodes[n]? = some (Node.op i o nxf c))
    (hres : ∀ {k : Nat} {o' : Op} {m : M} {c' : Option Nat},
      s.nodes[k]? = some (Node.op i o' m c') → denote L s k = act m (L.leaf res)) :
    SemExt L s (finStore s n i o nxf res fresh) := by
  have h' := finStore_wfs (res := res) (fresh := fresh) h hn
  have hi := h.impl_lt hn
  suffices H : ∀ f k, rank s k < f → k < s.nodes.length →
      denote L (finStore s n i o nxf res fresh) k = denote L s k from
    fun k hk => H _ k (Nat.lt_succ_self _) hk
  intro f
  induction f with
  | zero => intro k hk; omega
  | succ f ih =>
    intro k hk hlen
    cases hnd : s.nodes[k]? with
    | none => rw [List.getElem?_eq_getElem hlen] at hnd; cases hnd
    | some nd =>
      cases nd with
      | leaf l => rw [denote_leaf L (finStore_leaf_old hn hnd), denote_leaf L hnd]
      | op j o' m c' =>
        obtain ⟨c'', hk'⟩ := finStore_op_old (res := res) (fresh := fresh) hn hnd
        rw [denote_op L h' hk']
        have hj := h.impl_get hnd
        have hj' := finStore_impl (s := s) (n := n) (i := i) (o := o) (nxf := nxf) (res := res)
          (fresh := fresh) hi j
        by_cases e : i = j
        · subst e
          rw [if_pos rfl] at hj'
          rw [getD_of_getElem? hj', hres hnd]
          simp only [List.map_cons, List.map_nil, opSem_singleton]
          rw [denote_leaf L finStore_len0]
        · rw [if_neg e, hj] at hj'
          rw [getD_of_getElem? hj', denote_op L h hnd]
          congr 2
          apply List.map_congr_left
          intro c hc
          apply ih
          · have := h.rank_child hj hc
            rw [rank_op hnd] at hk
            omega
          · exact h.child_lt hj hc

theorem finStore_denote_len0 (L : Val S) :
    denote L (finStore s n i o nxf res fresh) s.nodes.length = L.leaf res :=
  denote_leaf L finStore_len0

theorem finStore_denote_len1 (L : Val S) :
    denote L (finStore s n i o nxf res fresh) (s.nodes.length + 1) = act nxf (L.leaf res) := by
  rw [denote_leaf L finStore_len1, Val.leaf_transform]

theorem finStore_cacheOK (L : Val S) (h : WFs s)
    (hn : s.nodes[n]? = some (Node.op i o nxf none))
    (hc : CacheOK L s) (hv : denote L s n = act nxf (L.leaf res))
    (hsem : SemExt L s (finStore s n i o nxf res fresh)) :
    CacheOK L (finStore s n i o nxf res fresh) := by
  intro k j o' m c' hk
  rcases finStore_cases hk with ⟨hlt, _, h'⟩ | ⟨rfl, hlt, h'⟩ | ⟨_, h'⟩ | ⟨_, h'⟩
  · obtain ⟨⟨l, hl⟩, _⟩ := h.cache h'
    rw [hsem k hlt, hsem c' (List.getElem?_eq_some_iff.1 hl).1]
    exact hc h'
  · cases h'
    rw [hsem k hlt, finStore_denote_len1, hv]
  · cases h'
  · cases h'

end FinSem
end MV.Csg
