/-
Lemmas for the polygon k-d tree (MV/Model/Broad2.lean: `buildImpl`, `queryLoop`):
the invariant `KD` established by `BuildTwoDTreeImpl`, and the exactness of the explicit-stack
traversal of `QueryTwoDTree` for every array satisfying `KD`.
-/
import MV.Model.Broad2

namespace MV.Broad2

/-! ## sorting by a coordinate -/

theorem keyIntLe_trans {α : Type} (key : α → Int) (a b c : α) :
    (!decide (key b < key a)) = true → (!decide (key c < key b)) = true →
    (!decide (key c < key a)) = true := by
  simp only [Bool.not_eq_true', decide_eq_false_iff_not]; omega

theorem keyIntLe_total {α : Type} (key : α → Int) (a b : α) :
    ((!decide (key b < key a)) || (!decide (key a < key b))) = true := by
  simp only [Bool.or_eq_true, Bool.not_eq_true', decide_eq_false_iff_not]; omega

/-- the `stable_sort` of `BuildTwoDTreeImpl` -/
def kdSort (sx : Bool) (pts : List PolyVert) : List PolyVert :=
  stableSort (fun a b => decide (coord sx a < coord sx b)) pts

theorem kdSort_perm (sx : Bool) (pts : List PolyVert) : (kdSort sx pts).Perm pts :=
  List.mergeSort_perm _ _

theorem kdSort_sorted (sx : Bool) (pts : List PolyVert) :
    (kdSort sx pts).Pairwise (fun a b => coord sx a ≤ coord sx b) := by
  have := List.pairwise_mergeSort (le := fun a b => !decide (coord sx b < coord sx a))
    (keyIntLe_trans (coord sx)) (keyIntLe_total (coord sx)) pts
  exact this.imp (fun {a b} h => by
    simp only [Bool.not_eq_true', decide_eq_false_iff_not] at h; omega)

/-! ## BuildTwoDTreeImpl -/

theorem buildImpl_succ (fuel : Nat) (sx : Bool) (pts : List PolyVert) :
    buildImpl (fuel + 1) sx pts =
      if (kdSort sx pts).length < 2 then kdSort sx pts
      else
        match (kdSort sx pts).drop ((kdSort sx pts).length / 2) with
        | [] => kdSort sx pts
        | m :: right =>
          buildImpl fuel (!sx) ((kdSort sx pts).take ((kdSort sx pts).length / 2)) ++
            m :: buildImpl fuel (!sx) right := rfl

theorem buildImpl_perm : ∀ (fuel : Nat) (sx : Bool) (pts : List PolyVert),
    (buildImpl fuel sx pts).Perm pts := by
  intro fuel
  induction fuel with
  | zero => intro sx pts; exact List.Perm.refl _
  | succ f ih =>
    intro sx pts
    rw [buildImpl_succ]
    split
    · exact kdSort_perm sx pts
    · split
      · exact kdSort_perm sx pts
      · rename_i m right hd
        refine List.Perm.trans ?_ (kdSort_perm sx pts)
        have e : kdSort sx pts =
            (kdSort sx pts).take ((kdSort sx pts).length / 2) ++ m :: right := by
          rw [← hd, List.take_append_drop]
        conv => rhs; rw [e]
        exact (ih _ _).append ((ih _ _).cons m)

/-- **The invariant of `BuildTwoDTreeImpl`**: an array of fewer than two points, or
`l ++ m :: r` with `m` at index `size/2`, every point of `l` at most `m` and every point of
`r` at least `m` on the current axis (ties may sit on both sides), `l` and `r` built for the
other axis. -/
inductive KD : Bool → List PolyVert → Prop
  | small {sx : Bool} {v : List PolyVert} : v.length < 2 → KD sx v
  | node {sx : Bool} {l : List PolyVert} {m : PolyVert} {r : List PolyVert} :
      l.length = (l.length + 1 + r.length) / 2 →
      (∀ p ∈ l, coord sx p ≤ coord sx m) → (∀ p ∈ r, coord sx m ≤ coord sx p) →
      KD (!sx) l → KD (!sx) r → KD sx (l ++ m :: r)

theorem buildImpl_kd : ∀ (fuel : Nat) (sx : Bool) (pts : List PolyVert), pts.length ≤ fuel →
    KD sx (buildImpl fuel sx pts) := by
  intro fuel
  induction fuel with
  | zero =>
    intro sx pts h
    exact KD.small (by simp only [buildImpl]; omega)
  | succ f ih =>
    intro sx pts hlen
    rw [buildImpl_succ]
    have hsl : (kdSort sx pts).length = pts.length := (kdSort_perm sx pts).length_eq
    split
    · rename_i h; exact KD.small h
    · rename_i hge
      split
      · rename_i hd
        have := congrArg List.length hd
        simp only [List.length_drop, List.length_nil] at this
        omega
      · rename_i m right hd
        have e : kdSort sx pts =
            (kdSort sx pts).take ((kdSort sx pts).length / 2) ++ m :: right := by
          rw [← hd, List.take_append_drop]
        have hs := kdSort_sorted sx pts
        rw [e, List.pairwise_append, List.pairwise_cons] at hs
        obtain ⟨_, ⟨hmr, _⟩, hlm⟩ := hs
        have hr : right.length = (kdSort sx pts).length - (kdSort sx pts).length / 2 - 1 := by
          have := congrArg List.length hd
          simp only [List.length_drop, List.length_cons] at this
          omega
        have ht : ((kdSort sx pts).take ((kdSort sx pts).length / 2)).length =
            (kdSort sx pts).length / 2 := by
          rw [List.length_take]; omega
        have pl := buildImpl_perm f (!sx) ((kdSort sx pts).take ((kdSort sx pts).length / 2))
        have pr := buildImpl_perm f (!sx) right
        refine KD.node ?_ ?_ ?_ (ih _ _ (by rw [ht]; omega)) (ih _ _ (by rw [hr]; omega))
        · rw [pl.length_eq, pr.length_eq, ht, hr]; omega
        · intro p hp
          exact hlm p (pl.mem_iff.mp hp) m List.mem_cons_self
        · intro p hp
          exact hmr p (pr.mem_iff.mp hp)

theorem buildTwoDTree_perm (pts : List PolyVert) : (buildTwoDTree pts).Perm pts := by
  unfold buildTwoDTree
  split
  · exact List.Perm.refl _
  · exact buildImpl_perm _ _ _

theorem buildTwoDTree_kd (pts : List PolyVert) (h : 8 < pts.length) :
    KD true (buildTwoDTree pts) := by
  unfold buildTwoDTree
  rw [if_neg (by omega)]
  exact buildImpl_kd _ _ _ (Nat.le_refl _)

/-! ## QueryTwoDTree -/

/-- the point lies in the conceptual rectangle (closed, infinite bounds allowed) -/
def InRect (c : CRect) (p : PolyVert) : Prop :=
  loLe c.minX p.x = true ∧ loLe c.minY p.y = true ∧ hiGe c.maxX p.x = true ∧ hiGe c.maxY p.y = true

theorem loLe_mono {lo : Option Int} {a b : Int} (h : loLe lo a = true) (hab : a ≤ b) :
    loLe lo b = true := by
  cases lo with
  | none => rfl
  | some v => simp only [loLe, decide_eq_true_eq] at *; omega

theorem hiGe_mono {hi : Option Int} {a b : Int} (h : hiGe hi a = true) (hab : b ≤ a) :
    hiGe hi b = true := by
  cases hi with
  | none => rfl
  | some v => simp only [hiGe, decide_eq_true_eq] at *; omega

/-- **closed `DoesOverlap` is a sound prune**: a rectangle that contains a point of the query
rectangle overlaps the query rectangle -/
theorem overlap_of_mem {c : CRect} {r : Rect} {p : PolyVert} (hc : InRect c p)
    (hr : r.contains p = true) : c.doesOverlap r = true := by
  simp only [Rect.contains, Bool.and_eq_true, decide_eq_true_eq] at hr
  obtain ⟨h1, h2, h3, h4⟩ := hc
  simp only [CRect.doesOverlap, Bool.and_eq_true]
  exact ⟨⟨⟨loLe_mono h1 (by omega), loLe_mono h2 (by omega)⟩, hiGe_mono h3 (by omega)⟩,
    hiGe_mono h4 (by omega)⟩

theorem filter_nil_of_no_overlap {c : CRect} {r : Rect} {v : List PolyVert}
    (hin : ∀ p ∈ v, InRect c p) (hno : c.doesOverlap r = false) : v.filter r.contains = [] := by
  rw [List.filter_eq_nil_iff]
  intro p hp hc
  rw [overlap_of_mem (hin p hp) hc] at hno
  cases hno

/-- the conceptual left / right rectangles -/
def leftRect (current : CRect) (level : Nat) (m : PolyVert) : CRect :=
  if level % 2 = 0 then { current with maxX := some m.x } else { current with maxY := some m.y }

def rightRect (current : CRect) (level : Nat) (m : PolyVert) : CRect :=
  if level % 2 = 0 then { current with minX := some m.x } else { current with minY := some m.y }

theorem inRect_left {current : CRect} {level : Nat} {m p : PolyVert} (h : InRect current p)
    (hc : coord (decide (level % 2 = 0)) p ≤ coord (decide (level % 2 = 0)) m) :
    InRect (leftRect current level m) p := by
  obtain ⟨h1, h2, h3, h4⟩ := h
  unfold leftRect
  by_cases hl : level % 2 = 0
  · simp only [hl, decide_true, coord, if_true] at hc ⊢
    exact ⟨h1, h2, by simp only [hiGe, decide_eq_true_eq]; omega, h4⟩
  · simp only [hl, decide_false, coord, if_false, Bool.false_eq_true] at hc ⊢
    exact ⟨h1, h2, h3, by simp only [hiGe, decide_eq_true_eq]; omega⟩

theorem inRect_right {current : CRect} {level : Nat} {m p : PolyVert} (h : InRect current p)
    (hc : coord (decide (level % 2 = 0)) m ≤ coord (decide (level % 2 = 0)) p) :
    InRect (rightRect current level m) p := by
  obtain ⟨h1, h2, h3, h4⟩ := h
  unfold rightRect
  by_cases hl : level % 2 = 0
  · simp only [hl, decide_true, coord, if_true] at hc ⊢
    exact ⟨by simp only [loLe, decide_eq_true_eq]; omega, h2, h3, h4⟩
  · simp only [hl, decide_false, coord, if_false, Bool.false_eq_true] at hc ⊢
    exact ⟨h1, by simp only [loLe, decide_eq_true_eq]; omega, h3, h4⟩

theorem parity_succ (level : Nat) :
    (!decide (level % 2 = 0)) = decide ((level + 1) % 2 = 0) := by
  rcases Nat.mod_two_eq_zero_or_one level with h | h
  · have : (level + 1) % 2 = 1 := by omega
    simp [h, this]
  · have : (level + 1) % 2 = 0 := by omega
    simp [h, this]

/-- what the loop does once the current view is finished -/
def cont (r : Rect) (fuel : Nat) (stack : List Frame) (out : List PolyVert) :
    Option (List PolyVert) :=
  match stack with
  | [] => some out
  | f :: rest => queryLoop r fuel f.rect f.view f.level rest out

theorem queryLoop_small (r : Rect) (fuel : Nat) (current : CRect) (view : List PolyVert)
    (level : Nat) (stack : List Frame) (out : List PolyVert) (h : view.length ≤ 8) :
    queryLoop r (fuel + 1) current view level stack out =
      cont r fuel stack (out ++ view.filter r.contains) := by
  rw [queryLoop, if_pos h]
  cases stack <;> rfl

theorem queryLoop_big (r : Rect) (fuel : Nat) (current : CRect) (l : List PolyVert) (m : PolyVert)
    (rr : List PolyVert) (level : Nat) (stack : List Frame) (out : List PolyVert)
    (h : ¬ (l ++ m :: rr).length ≤ 8) (hl : l.length = (l ++ m :: rr).length / 2) :
    queryLoop r (fuel + 1) current (l ++ m :: rr) level stack out =
      if (leftRect current level m).doesOverlap r then
        if (rightRect current level m).doesOverlap r then
          if stack.length ≥ kTreeStack then none
          else queryLoop r fuel (leftRect current level m) l (level + 1)
            (⟨rightRect current level m, rr, level + 1⟩ :: stack)
            (out ++ if r.contains m then [m] else [])
        else queryLoop r fuel (leftRect current level m) l (level + 1) stack
          (out ++ if r.contains m then [m] else [])
      else queryLoop r fuel (rightRect current level m) rr (level + 1) stack
        (out ++ if r.contains m then [m] else []) := by
  have hd : (l ++ m :: rr).drop ((l ++ m :: rr).length / 2) = m :: rr := by
    rw [← hl]; simp
  have ht : (l ++ m :: rr).take ((l ++ m :: rr).length / 2) = l := by
    rw [← hl]; simp
  have ho : (if r.contains m = true then out ++ [m] else out) =
      out ++ if r.contains m then [m] else [] := by
    split <;> simp
  rw [queryLoop, if_neg h]
  simp only [hd, ht, ho, leftRect, rightRect]
  rfl

/-- **The traversal of one subtree.**  For a view satisfying `KD` whose points lie in the
conceptual rectangle, the loop started on it reports a permutation `V` of the points of the
view inside `r`, uses `c ≤ max 1 length` iterations and then continues with the stack; it needs
`k` free stack slots where `length < 9 * 2^k`. -/
theorem queryLoop_spec (r : Rect) : ∀ (N : Nat) (view : List PolyVert), view.length ≤ N →
    ∀ (level : Nat) (current : CRect), KD (decide (level % 2 = 0)) view →
    (∀ p ∈ view, InRect current p) →
    ∃ (V : List PolyVert) (c : Nat), V.Perm (view.filter r.contains) ∧ 1 ≤ c ∧
      c ≤ Nat.max 1 view.length ∧
      ∀ (k fuel : Nat) (stack : List Frame) (out : List PolyVert),
        view.length < 9 * 2 ^ k → stack.length + k ≤ 64 → c ≤ fuel →
        queryLoop r fuel current view level stack out = cont r (fuel - c) stack (out ++ V) := by
  intro N
  induction N with
  | zero =>
    intro view hN level current _ _
    refine ⟨view.filter r.contains, 1, List.Perm.refl _, Nat.le_refl _, Nat.le_max_left _ _, ?_⟩
    intro k fuel stack out _ _ hf
    obtain ⟨f, rfl⟩ : ∃ f, fuel = f + 1 := ⟨fuel - 1, by omega⟩
    rw [queryLoop_small r f current view level stack out (by omega)]
    rfl
  | succ N ih =>
    intro view hN level current hkd hin
    by_cases hsmall : view.length ≤ 8
    · refine ⟨view.filter r.contains, 1, List.Perm.refl _, Nat.le_refl _, Nat.le_max_left _ _, ?_⟩
      intro k fuel stack out _ _ hf
      obtain ⟨f, rfl⟩ : ∃ f, fuel = f + 1 := ⟨fuel - 1, by omega⟩
      rw [queryLoop_small r f current view level stack out hsmall]
      rfl
    · cases hkd with
      | small h => omega
      | @node _ l m rr hl hlm hmr kl kr =>
        have hlen : (l ++ m :: rr).length = l.length + 1 + rr.length := by simp; omega
        have hl' : l.length = (l ++ m :: rr).length / 2 := by rw [hlen]; exact hl
        rw [parity_succ] at kl kr
        have inl : ∀ p ∈ l, InRect (leftRect current level m) p := fun p hp =>
          inRect_left (hin p (by simp [hp])) (hlm p hp)
        have inr : ∀ p ∈ rr, InRect (rightRect current level m) p := fun p hp =>
          inRect_right (hin p (by simp [hp])) (hmr p hp)
        obtain ⟨VL, cL, pL, cL1, cL2, sL⟩ := ih l (by omega) (level + 1) _ kl inl
        obtain ⟨VR, cR, pR, cR1, cR2, sR⟩ := ih rr (by omega) (level + 1) _ kr inr
        have hfil : (l ++ m :: rr).filter r.contains =
            l.filter r.contains ++ ((if r.contains m then [m] else []) ++ rr.filter r.contains) := by
          rw [List.filter_append, List.filter_cons]
          split <;> simp
        have cLle : cL ≤ l.length := by
          have : Nat.max 1 l.length = l.length := Nat.max_eq_right (by omega)
          omega
        have cRle : cR ≤ rr.length := by
          have : Nat.max 1 rr.length = rr.length := Nat.max_eq_right (by omega)
          omega
        have hmax : Nat.max 1 (l ++ m :: rr).length = (l ++ m :: rr).length :=
          Nat.max_eq_right (by omega)
        -- the stack budget of the children
        have hk : ∀ k, (l ++ m :: rr).length < 9 * 2 ^ k →
            ∃ k', k = k' + 1 ∧ l.length < 9 * 2 ^ k' ∧ rr.length < 9 * 2 ^ k' := by
          intro k hk
          cases k with
          | zero => simp at hk; omega
          | succ k' =>
            refine ⟨k', rfl, ?_, ?_⟩ <;> (rw [Nat.pow_succ] at hk; omega)
        by_cases hL : (leftRect current level m).doesOverlap r = true
        · by_cases hR : (rightRect current level m).doesOverlap r = true
          · -- both subtrees
            refine ⟨(if r.contains m then [m] else []) ++ VL ++ VR, 1 + cL + cR, ?_, by omega,
              by omega, ?_⟩
            · rw [hfil]
              refine List.Perm.trans ?_ (List.perm_append_comm_assoc _ _ _)
              rw [List.append_assoc]
              exact List.Perm.append_left _ (pL.append pR)
            · intro k fuel stack out hk1 hk2 hf
              obtain ⟨k', rfl, hkl, hkr⟩ := hk k hk1
              obtain ⟨f, rfl⟩ : ∃ f, fuel = f + 1 := ⟨fuel - 1, by omega⟩
              rw [queryLoop_big r f current l m rr level stack out hsmall hl', if_pos hL, if_pos hR,
                if_neg (by unfold kTreeStack; omega)]
              rw [sL k' f _ _ hkl (by simp only [List.length_cons]; omega) (by omega)]
              show queryLoop r (f - cL) (rightRect current level m) rr (level + 1) stack _ = _
              rw [sR k' (f - cL) stack _ hkr (by omega) (by omega)]
              congr 1
              · omega
              · simp only [List.append_assoc]
          · -- only the left subtree; nothing of the right subtree is in `r`
            have hR' : (rightRect current level m).doesOverlap r = false := by simpa using hR
            have hnil := filter_nil_of_no_overlap inr hR'
            refine ⟨(if r.contains m then [m] else []) ++ VL, 1 + cL, ?_, by omega, by omega, ?_⟩
            · rw [hfil, hnil, List.append_nil]
              exact (List.perm_append_comm).trans (pL.append_right _)
            · intro k fuel stack out hk1 hk2 hf
              obtain ⟨k', rfl, hkl, _⟩ := hk k hk1
              obtain ⟨f, rfl⟩ : ∃ f, fuel = f + 1 := ⟨fuel - 1, by omega⟩
              rw [queryLoop_big r f current l m rr level stack out hsmall hl', if_pos hL, if_neg hR]
              rw [sL k' f stack _ hkl (by omega) (by omega)]
              congr 1
              · omega
              · simp only [List.append_assoc]
        · -- the left subtree is pruned: the loop continues with the right subtree
          have hL' : (leftRect current level m).doesOverlap r = false := by simpa using hL
          have hnil := filter_nil_of_no_overlap inl hL'
          refine ⟨(if r.contains m then [m] else []) ++ VR, 1 + cR, ?_, by omega, by omega, ?_⟩
          · rw [hfil, hnil, List.nil_append]
            exact pR.append_left _
          · intro k fuel stack out hk1 hk2 hf
            obtain ⟨k', rfl, _, hkr⟩ := hk k hk1
            obtain ⟨f, rfl⟩ : ∃ f, fuel = f + 1 := ⟨fuel - 1, by omega⟩
            rw [queryLoop_big r f current l m rr level stack out hsmall hl', if_neg hL]
            rw [sR k' f stack _ hkr (by omega) (by omega)]
            congr 1
            · omega
            · simp only [List.append_assoc]

/-- `QueryTwoDTree` on an array that is small or satisfies the invariant -/
theorem queryTwoDTree_spec (pts : List PolyVert) (r : Rect) (hn : pts.length < 9 * 2 ^ 64)
    (hkd : 8 < pts.length → KD true pts) :
    ∃ out, queryTwoDTree pts r = some out ∧ out.Perm (pts.filter r.contains) := by
  unfold queryTwoDTree
  by_cases h : pts.length ≤ 8
  · rw [if_pos h]; exact ⟨_, rfl, List.Perm.refl _⟩
  · rw [if_neg h]
    obtain ⟨V, c, pV, _, c2, s⟩ := queryLoop_spec r pts.length pts (Nat.le_refl _) 0
      ⟨none, none, none, none⟩ (hkd (by omega)) (fun p _ => ⟨rfl, rfl, rfl, rfl⟩)
    have : Nat.max 1 pts.length = pts.length := Nat.max_eq_right (by omega)
    refine ⟨V, ?_, pV⟩
    rw [s 64 (pts.length + 1) [] [] hn (by simp) (by omega)]
    simp [cont]

end MV.Broad2
