import MV.Model.EdgeOp
import MV.Proof.Halfedge
/-!
Vocabulary and evaluation lemmas for the edge-operation model (`MV.Model.EdgeOp`):
pure array updates `setS/setP/setR`, the monadic accessors evaluated on in-range indices,
`Good` (= `CheckHalfedges` of properties.cpp for one halfedge), `PairInvExcept` (every halfedge
outside a finite exception list is `Good`) and the frame lemma `good_frame`.
-/
namespace MV.EdgeOp
open MV.Halfedge (HErr rd wr nextHalfedge GoodHalfedge Tomb endOf rd_ok wr_ok next_lt next_next_next)

/-- `NextHalfedge` on in-range indices -/
abbrev nx (e : Nat) : Nat := nextHalfedge e

namespace HE
/-- `start_[e]` -/
def S (s : HE) (e : Nat) : Int := s.start[e]!
/-- `paired_[e]` -/
def P (s : HE) (e : Nat) : Int := s.paired[e]!
/-- `paired_[e]` as an index -/
def Pn (s : HE) (e : Nat) : Nat := (s.paired[e]!).toNat
/-- `propVert_[e]` -/
def R (s : HE) (e : Nat) : Int := s.prop[e]!

/-- pure `start_[i] = v` -/
def setS (s : HE) (i : Nat) (v : Int) : HE := { s with start := s.start.setIfInBounds i v }
/-- pure `paired_[i] = v` -/
def setP (s : HE) (i : Nat) (v : Int) : HE := { s with paired := s.paired.setIfInBounds i v }
/-- pure `propVert_[i] = v` -/
def setR (s : HE) (i : Nat) (v : Int) : HE := { s with prop := s.prop.setIfInBounds i v }
end HE

/-- the three arrays have one length, a multiple of 3 -/
def WF (s : HE) : Prop :=
  s.start.size = s.paired.size ∧ s.prop.size = s.paired.size ∧ s.start.size % 3 = 0

instance (s : HE) : Decidable (WF s) := by unfold WF; infer_instance

/-- `CheckHalfedges::operator()(e)` holds -/
def Good (s : HE) (e : Nat) : Prop := GoodHalfedge s.start s.paired e

instance (s : HE) (e : Nat) : Decidable (Good s e) := by unfold Good; infer_instance

/-- every halfedge outside the list `X` passes `CheckHalfedges` -/
def PairInvExcept (s : HE) (X : List Nat) : Prop :=
  WF s ∧ ∀ e, e < s.start.size → e ∉ X → Good s e

instance (s : HE) (X : List Nat) : Decidable (PairInvExcept s X) := by
  unfold PairInvExcept; infer_instance

/-- the library's `IsManifold()` on the state -/
def PairInv (s : HE) : Prop := WF s ∧ MV.Halfedge.PairInv s.start s.paired

instance (s : HE) : Decidable (PairInv s) := by unfold PairInv; infer_instance

theorem good_iff (s : HE) (e : Nat) : Good s e ↔
    (s.S e = -1 ∧ s.S (nx e) = -1 ∧ s.P e = -1) ∨
    (s.S (nx e) ≠ -1 ∧ s.S (nx (nx e)) ≠ -1 ∧ 0 ≤ s.P e ∧ s.Pn e < s.start.size ∧
      s.P (s.Pn e) = (e : Int) ∧ s.S e ≠ s.S (nx e) ∧ s.S e = s.S (nx (s.Pn e)) ∧
      s.S (nx e) = s.S (s.Pn e)) := Iff.rfl

theorem pairInv_iff (s : HE) : PairInv s ↔ PairInvExcept s [] := by
  unfold PairInv PairInvExcept MV.Halfedge.PairInv WF Good
  constructor
  · rintro ⟨hw, _, _, h⟩; exact ⟨hw, fun e he _ => h e he⟩
  · rintro ⟨hw, h⟩; exact ⟨hw, hw.1, hw.2.2, fun e he => h e he (by simp)⟩

theorem PairInvExcept.mono {s : HE} {X Y : List Nat} (h : PairInvExcept s X)
    (hg : ∀ e, e < s.start.size → e ∈ X → e ∉ Y → Good s e) : PairInvExcept s Y := by
  refine ⟨h.1, fun e he hy => ?_⟩
  by_cases hx : e ∈ X
  · exact hg e he hx hy
  · exact h.2 e he hx

/-! ## `NextHalfedge` -/

theorem nx_lt {n e : Nat} (h3 : n % 3 = 0) (he : e < n) : nx e < n := next_lt h3 he

theorem nx_nx_nx (e : Nat) : nx (nx (nx e)) = e := next_next_next e

theorem nx_ne (e : Nat) : nx e ≠ e := by
  unfold nx nextHalfedge; split <;> omega

theorem nx_nx_ne (e : Nat) : nx (nx e) ≠ e := by
  unfold nx nextHalfedge; split <;> split <;> omega

theorem nx_inj {a b : Nat} (h : nx a = nx b) : a = b := by
  have := congrArg (fun x => nx (nx x)) h
  simpa [nx_nx_nx] using this

theorem nx_div (e : Nat) : nx e / 3 = e / 3 := by
  unfold nx nextHalfedge; split <;> omega

theorem nx_cases {a b : Nat} (h : a / 3 = b / 3) : b = a ∨ b = nx a ∨ b = nx (nx a) := by
  unfold nx nextHalfedge; split <;> split <;> omega

theorem nextI_cast (e : Nat) : nextI (e : Int) = ((nx e : Nat) : Int) := by
  unfold nextI nx nextHalfedge
  have h : Int.tmod (e : Int) 3 = ((e % 3 : Nat) : Int) := by
    rw [Int.tmod_eq_emod_of_nonneg (by omega)]; omega
  rw [h]
  by_cases h2 : e % 3 = 2
  · rw [if_pos (by omega), if_pos h2]; omega
  · rw [if_neg (by omega), if_neg h2]; omega

theorem triOf_cast (e : Nat) : triOf (e : Int) = ((e : Int), ((nx e : Nat) : Int), ((nx (nx e) : Nat) : Int)) := by
  simp [triOf, nextI_cast]

/-! ## pure updates -/

section upd
variable (s : HE) (i j : Nat) (v : Int)

@[simp] theorem S_setS : (s.setS i v).S j = if i = j ∧ i < s.start.size then v else s.S j := by
  unfold HE.setS HE.S
  by_cases h : i = j
  · subst h
    by_cases h' : i < s.start.size <;> simp [h']
  · simp [h, Array.getElem!_eq_getD, Array.getD_eq_getD_getElem?, Array.getElem?_setIfInBounds_ne h]
@[simp] theorem P_setS : (s.setS i v).P j = s.P j := rfl
@[simp] theorem R_setS : (s.setS i v).R j = s.R j := rfl
@[simp] theorem Pn_setS : (s.setS i v).Pn j = s.Pn j := rfl
@[simp] theorem P_setP : (s.setP i v).P j = if i = j ∧ i < s.paired.size then v else s.P j := by
  unfold HE.setP HE.P
  by_cases h : i = j
  · subst h
    by_cases h' : i < s.paired.size <;> simp [h']
  · simp [h, Array.getElem!_eq_getD, Array.getD_eq_getD_getElem?, Array.getElem?_setIfInBounds_ne h]
@[simp] theorem S_setP : (s.setP i v).S j = s.S j := rfl
@[simp] theorem R_setP : (s.setP i v).R j = s.R j := rfl
@[simp] theorem R_setR : (s.setR i v).R j = if i = j ∧ i < s.prop.size then v else s.R j := by
  unfold HE.setR HE.R
  by_cases h : i = j
  · subst h
    by_cases h' : i < s.prop.size <;> simp [h']
  · simp [h, Array.getElem!_eq_getD, Array.getD_eq_getD_getElem?, Array.getElem?_setIfInBounds_ne h]
@[simp] theorem S_setR : (s.setR i v).S j = s.S j := rfl
@[simp] theorem P_setR : (s.setR i v).P j = s.P j := rfl
@[simp] theorem Pn_setR : (s.setR i v).Pn j = s.Pn j := rfl

@[simp] theorem start_size_setS : (s.setS i v).start.size = s.start.size := by simp [HE.setS]
@[simp] theorem paired_size_setS : (s.setS i v).paired.size = s.paired.size := rfl
@[simp] theorem prop_size_setS : (s.setS i v).prop.size = s.prop.size := rfl
@[simp] theorem start_size_setP : (s.setP i v).start.size = s.start.size := rfl
@[simp] theorem paired_size_setP : (s.setP i v).paired.size = s.paired.size := by simp [HE.setP]
@[simp] theorem prop_size_setP : (s.setP i v).prop.size = s.prop.size := rfl
@[simp] theorem start_size_setR : (s.setR i v).start.size = s.start.size := rfl
@[simp] theorem paired_size_setR : (s.setR i v).paired.size = s.paired.size := rfl
@[simp] theorem prop_size_setR : (s.setR i v).prop.size = s.prop.size := by simp [HE.setR]
@[simp] theorem nVert_setS : (s.setS i v).nVert = s.nVert := rfl
@[simp] theorem nVert_setP : (s.setP i v).nVert = s.nVert := rfl
@[simp] theorem nVert_setR : (s.setR i v).nVert = s.nVert := rfl
@[simp] theorem paired_setS : (s.setS i v).paired = s.paired := rfl
@[simp] theorem prop_setS : (s.setS i v).prop = s.prop := rfl
@[simp] theorem start_setP : (s.setP i v).start = s.start := rfl
@[simp] theorem prop_setP : (s.setP i v).prop = s.prop := rfl
@[simp] theorem start_setR : (s.setR i v).start = s.start := rfl
@[simp] theorem paired_setR : (s.setR i v).paired = s.paired := rfl

theorem Pn_setP : (s.setP i v).Pn j = if i = j ∧ i < s.paired.size then v.toNat else s.Pn j := by
  have := P_setP s i j v
  unfold HE.Pn; unfold HE.P at this; rw [this]; split <;> rfl

theorem WF_setS (h : WF s) : WF (s.setS i v) := by unfold WF at *; simpa using h
theorem WF_setP (h : WF s) : WF (s.setP i v) := by unfold WF at *; simpa using h
theorem WF_setR (h : WF s) : WF (s.setR i v) := by unfold WF at *; simpa using h
end upd

/-! ## the monadic accessors on in-range indices -/

section eval
variable (s : HE) (e : Nat) (v : Int)

theorem getElem?_of_lt {a : Array Int} {k : Nat} (h : k < a.size) : a[k]? = some a[k]! := by
  simp [h]

theorem getStart_ok (h : e < s.start.size) : s.getStart (e : Int) = .ok (s.S e) :=
  rd_ok (getElem?_of_lt h)
theorem getPair_ok (h : e < s.paired.size) : s.getPair (e : Int) = .ok (s.P e) :=
  rd_ok (getElem?_of_lt h)
theorem getProp_ok (h : e < s.prop.size) : s.getProp (e : Int) = .ok (s.R e) :=
  rd_ok (getElem?_of_lt h)
theorem getEnd_ok (h : nx e < s.start.size) : s.getEnd (e : Int) = .ok (s.S (nx e)) := by
  unfold HE.getEnd; rw [nextI_cast]; exact rd_ok (getElem?_of_lt h)
theorem setStart_ok (h : e < s.start.size) : s.setStart (e : Int) v = .ok (s.setS e v) := by
  unfold HE.setStart; rw [wr_ok h]; rfl
theorem setPair_ok (h : e < s.paired.size) : s.setPair (e : Int) v = .ok (s.setP e v) := by
  unfold HE.setPair; rw [wr_ok h]; rfl
theorem setProp_ok (h : e < s.prop.size) : s.setProp (e : Int) v = .ok (s.setR e v) := by
  unfold HE.setProp; rw [wr_ok h]; rfl
theorem setEnd_ok (h : nx e < s.start.size) : s.setEnd (e : Int) v = .ok (s.setS (nx e) v) := by
  unfold HE.setEnd; rw [nextI_cast]; exact setStart_ok s (nx e) v h

/-- `Halfedges::Set` on an in-range index -/
theorem set_ok (hw : WF s) (h : e < s.start.size) (st pr pp : Int) :
    s.set (e : Int) st pr pp = .ok (((s.setS e st).setP e pr).setR e pp) := by
  unfold HE.set
  rw [setStart_ok s e st h]
  have h2 : e < (s.setS e st).paired.size := by simp; exact hw.1 ▸ h
  have h3 : e < ((s.setS e st).setP e pr).prop.size := by simp; rw [hw.2.1, ← hw.1]; exact h
  simp only [bind, Except.bind]
  rw [setPair_ok _ e pr h2]
  simp only []
  rw [setProp_ok _ e pp h3]

/-- `PairUp` on in-range indices -/
theorem pairUp_ok (e0 e1 : Nat) (h0 : e0 < s.paired.size) (h1 : e1 < s.paired.size) :
    pairUp s (e0 : Int) (e1 : Int) = .ok ((s.setP e0 e1).setP e1 e0) := by
  unfold pairUp
  rw [setPair_ok s e0 _ h0]
  simp only [bind, Except.bind]
  rw [setPair_ok _ e1 _ (by simpa using h1)]
end eval

/-- an index read from `paired_` of a live halfedge, as an `Int` -/
theorem Pn_cast (s : HE) (e : Nat) (h : 0 ≤ s.P e) : ((s.Pn e : Nat) : Int) = s.P e := by
  unfold HE.Pn HE.P at *; omega

/-! ## the frame lemma -/

/-- `Good s e` only reads `start` on the triangle of `e` and on `Pn e`, `nx (Pn e)`, and `paired`
at `e` and `Pn e`. -/
theorem good_frame {s s' : HE} {e : Nat} (hsz : s'.start.size = s.start.size)
    (h0 : s'.S e = s.S e) (h1 : s'.S (nx e) = s.S (nx e)) (h2 : s'.S (nx (nx e)) = s.S (nx (nx e)))
    (hp : s'.P e = s.P e)
    (hq : 0 ≤ s.P e → s'.P (s.Pn e) = s.P (s.Pn e) ∧ s'.S (s.Pn e) = s.S (s.Pn e) ∧
      s'.S (nx (s.Pn e)) = s.S (nx (s.Pn e)))
    (hg : Good s e) : Good s' e := by
  rw [good_iff] at hg ⊢
  have hpn : s'.Pn e = s.Pn e := by unfold HE.Pn; unfold HE.P at hp; rw [hp]
  rcases hg with ⟨a, b, c⟩ | ⟨a, b, c, d, f, g, h, i⟩
  · left; exact ⟨h0 ▸ a, h1 ▸ b, hp ▸ c⟩
  · right
    obtain ⟨q1, q2, q3⟩ := hq c
    rw [hpn, h0, h1, h2, hp, hsz, q1, q2, q3]
    exact ⟨a, b, c, d, f, g, h, i⟩

/-- a tombstoned halfedge is `Good` -/
theorem good_of_tomb {s : HE} {e : Nat} (h0 : s.S e = -1) (h1 : s.S (nx e) = -1) (hp : s.P e = -1) :
    Good s e := (good_iff s e).2 (Or.inl ⟨h0, h1, hp⟩)

/-- facts carried by a live `Good` halfedge -/
theorem Good.live {s : HE} {e : Nat} (hg : Good s e) (hl : s.P e ≠ -1) :
    s.S (nx e) ≠ -1 ∧ s.S (nx (nx e)) ≠ -1 ∧ 0 ≤ s.P e ∧ s.Pn e < s.start.size ∧
      s.P (s.Pn e) = (e : Int) ∧ s.S e ≠ s.S (nx e) ∧ s.S e = s.S (nx (s.Pn e)) ∧
      s.S (nx e) = s.S (s.Pn e) := by
  rcases (good_iff s e).1 hg with ⟨_, _, c⟩ | h
  · exact absurd c hl
  · exact h

/-! ## the walk of `UpdateVert` / "Orbit startVert" / "Orbit endVert" -/

/-- `i` steps of `current ↦ Pair(NextHalfedge(current))` from `c0` (the halfedges ENDING at one
vertex, clockwise) -/
def HE.walk (s : HE) (c0 : Nat) : Nat → Nat
  | 0 => c0
  | i + 1 => s.Pn (nx (HE.walk s c0 i))

@[simp] theorem walk_zero (s : HE) (c0 : Nat) : s.walk c0 0 = c0 := rfl
theorem walk_succ (s : HE) (c0 i : Nat) : s.walk c0 (i + 1) = s.Pn (nx (s.walk c0 i)) := rfl
theorem walk_succ' (s : HE) (c0 i : Nat) : s.walk c0 (i + 1) = s.walk (s.Pn (nx c0)) i := by
  induction i with
  | zero => rfl
  | succ i ih => rw [walk_succ, ih, ← walk_succ]

end MV.EdgeOp
