import MV.Model.PropInterp
import Mathlib.Algebra.Order.Field.Basic
import Mathlib.Algebra.Order.Ring.Rat
import Mathlib.Algebra.Field.Rat
import Mathlib.Tactic.Ring
import Mathlib.Tactic.Linarith
import Mathlib.Tactic.Positivity
import Mathlib.Tactic.FieldSimp
import Mathlib.Tactic.LinearCombination
/-!
Lemmas for property C07 (interpolation half), part 1: the exact instance of the `Scalar` interface
of `MV/Model/PropInterp.lean` at a linearly ordered field, the vector identities behind
`GetBarycentric`, and the branch structure of `getBarycentric`.
-/
namespace MV.PropInterp

/-- the exact instance: a linearly ordered field, every operation exact, comparisons decided -/
instance fieldScalar (F : Type) [Field F] [LinearOrder F] : Scalar F where
  zero := 0
  one := 1
  add a b := a + b
  sub a b := a - b
  mul a b := a * b
  div a b := a / b
  neg a := -a
  lt a b := decide (a < b)
  beq a b := decide (a = b)

/-! ## branch structure (any `Scalar`) -/
section Branches
variable {α : Type} [Scalar α]
open Scalar

/-- squared distance of `v` to vertex `t` as the code computes it (`dot(dv, dv)`) -/
def dist2 (v t : V3 α) : α := dot (vsub v t) (vsub v t)

theorem gb_vert0 (v t0 t1 t2 : V3 α) (tol : α) (h : lt (dist2 v t0) (mul tol tol) = true) :
    getBarycentric v t0 t1 t2 tol = unitV 0 := by
  unfold getBarycentric
  simp only [dist2] at h
  simp only [h, if_true]

theorem gb_vert1 (v t0 t1 t2 : V3 α) (tol : α) (h0 : lt (dist2 v t0) (mul tol tol) = false)
    (h : lt (dist2 v t1) (mul tol tol) = true) :
    getBarycentric v t0 t1 t2 tol = unitV 1 := by
  unfold getBarycentric
  simp only [dist2] at h h0
  simp only [h, h0, if_true, Bool.false_eq_true, if_false]

theorem gb_vert2 (v t0 t1 t2 : V3 α) (tol : α) (h0 : lt (dist2 v t0) (mul tol tol) = false)
    (h1 : lt (dist2 v t1) (mul tol tol) = false) (h : lt (dist2 v t2) (mul tol tol) = true) :
    getBarycentric v t0 t1 t2 tol = unitV 2 := by
  unfold getBarycentric
  simp only [dist2] at h h0 h1
  simp only [h, h0, h1, if_true, Bool.false_eq_true, if_false]

/-- the three squared edge lengths `d2` -/
def d2of (t0 t1 t2 : V3 α) : V3 α :=
  ⟨dot (vsub t2 t1) (vsub t2 t1), dot (vsub t0 t2) (vsub t0 t2), dot (vsub t1 t0) (vsub t1 t0)⟩
/-- `d2[longSide]` -/
def dLong (t0 t1 t2 : V3 α) : α :=
  (d2of t0 t1 t2).get (longSide (d2of t0 t1 t2).x (d2of t0 t1 t2).y (d2of t0 t1 t2).z)
/-- `crossP = cross(edges[0], edges[1])` -/
def crossPof (t0 t1 t2 : V3 α) : V3 α := cross (vsub t2 t1) (vsub t0 t2)
/-- `area2 = dot(crossP, crossP)` -/
def area2of (t0 t1 t2 : V3 α) : α := dot (crossPof t0 t1 t2) (crossPof t0 t1 t2)

/-- no vertex of the triangle is within tolerance of `v` -/
def NoVertex (v t0 t1 t2 : V3 α) (tol : α) : Prop :=
  lt (dist2 v t0) (mul tol tol) = false ∧ lt (dist2 v t1) (mul tol tol) = false ∧
  lt (dist2 v t2) (mul tol tol) = false

/-- the triangle branch is taken: no vertex within tolerance, the long side is not shorter than
the tolerance, and `area2 > d2[longSide] * tol2` -/
def TriBranch (v t0 t1 t2 : V3 α) (tol : α) : Prop :=
  NoVertex v t0 t1 t2 tol ∧ lt (dLong t0 t1 t2) (mul tol tol) = false ∧
  lt (mul (dLong t0 t1 t2) (mul tol tol)) (area2of t0 t1 t2) = true

/-- the three weights before normalisation -/
def rawWeights (v t0 t1 t2 : V3 α) (tol : α) : V3 α :=
  ⟨edgeWeight (vsub t2 t1) (vsub v t1) (crossPof t0 t1 t2) (d2of t0 t1 t2).x (mul tol tol),
   edgeWeight (vsub t0 t2) (vsub v t2) (crossPof t0 t1 t2) (d2of t0 t1 t2).y (mul tol tol),
   edgeWeight (vsub t1 t0) (vsub v t0) (crossPof t0 t1 t2) (d2of t0 t1 t2).z (mul tol tol)⟩

theorem gb_tri (v t0 t1 t2 : V3 α) (tol : α) (h : TriBranch v t0 t1 t2 tol) :
    getBarycentric v t0 t1 t2 tol =
      let u := rawWeights v t0 t1 t2 tol
      let s := add (add u.x u.y) u.z
      ⟨div u.x s, div u.y s, div u.z s⟩ := by
  obtain ⟨⟨h0, h1, h2⟩, hp, ht⟩ := h
  unfold getBarycentric
  simp only [dist2, dLong, d2of, area2of, crossPof] at h0 h1 h2 hp ht
  simp only [h0, h1, h2, hp, ht, if_true, Bool.false_eq_true, if_false, rawWeights, d2of, crossPof]

theorem gb_point (v t0 t1 t2 : V3 α) (tol : α) (hv : NoVertex v t0 t1 t2 tol)
    (hp : lt (dLong t0 t1 t2) (mul tol tol) = true) :
    getBarycentric v t0 t1 t2 tol = ⟨one, zero, zero⟩ := by
  obtain ⟨h0, h1, h2⟩ := hv
  unfold getBarycentric
  simp only [dist2, dLong, d2of] at h0 h1 h2 hp
  simp only [h0, h1, h2, hp, if_true, Bool.false_eq_true, if_false]

/-- the line branch: `uvw[longSide] = 0`, the other two are `1 - alpha` and `alpha` -/
theorem gb_line (v t0 t1 t2 : V3 α) (tol : α) (hv : NoVertex v t0 t1 t2 tol)
    (hp : lt (dLong t0 t1 t2) (mul tol tol) = false)
    (ht : lt (mul (dLong t0 t1 t2) (mul tol tol)) (area2of t0 t1 t2) = false) :
    ∃ alpha : α,
      getBarycentric v t0 t1 t2 tol = ⟨zero, sub one alpha, alpha⟩ ∨
      getBarycentric v t0 t1 t2 tol = ⟨alpha, zero, sub one alpha⟩ ∨
      getBarycentric v t0 t1 t2 tol = ⟨sub one alpha, alpha, zero⟩ := by
  obtain ⟨h0, h1, h2⟩ := hv
  unfold getBarycentric
  simp only [dist2, dLong, d2of, area2of, crossPof] at h0 h1 h2 hp ht
  simp only [h0, h1, h2, hp, ht, Bool.false_eq_true, if_false]
  split
  · exact ⟨_, Or.inl rfl⟩
  · exact ⟨_, Or.inr (Or.inl rfl)⟩
  · exact ⟨_, Or.inr (Or.inr rfl)⟩

end Branches

/-! ## the exact instance -/
section Field
variable {F : Type} [Field F] [LinearOrder F]

@[simp] theorem sc_zero : (Scalar.zero : F) = 0 := rfl
@[simp] theorem sc_one : (Scalar.one : F) = 1 := rfl
@[simp] theorem sc_add (a b : F) : Scalar.add a b = a + b := rfl
@[simp] theorem sc_sub (a b : F) : Scalar.sub a b = a - b := rfl
@[simp] theorem sc_mul (a b : F) : Scalar.mul a b = a * b := rfl
@[simp] theorem sc_div (a b : F) : Scalar.div a b = a / b := rfl
@[simp] theorem sc_neg (a : F) : Scalar.neg a = -a := rfl
@[simp] theorem sc_lt (a b : F) : Scalar.lt a b = decide (a < b) := rfl
@[simp] theorem sc_beq (a b : F) : Scalar.beq a b = decide (a = b) := rfl

@[simp] theorem dot_eq (a b : V3 F) : dot a b = a.x * b.x + a.y * b.y + a.z * b.z := by
  simp [dot]
@[simp] theorem vsub_x (a b : V3 F) : (vsub a b).x = a.x - b.x := rfl
@[simp] theorem vsub_y (a b : V3 F) : (vsub a b).y = a.y - b.y := rfl
@[simp] theorem vsub_z (a b : V3 F) : (vsub a b).z = a.z - b.z := rfl
@[simp] theorem cross_x (a b : V3 F) : (cross a b).x = a.y * b.z - a.z * b.y := rfl
@[simp] theorem cross_y (a b : V3 F) : (cross a b).y = a.z * b.x - a.x * b.z := rfl
@[simp] theorem cross_z (a b : V3 F) : (cross a b).z = a.x * b.y - a.y * b.x := rfl

omit [Field F] [LinearOrder F] in
theorem V3.ext' {a b : V3 F} (hx : a.x = b.x) (hy : a.y = b.y) (hz : a.z = b.z) : a = b := by
  cases a; cases b; simp_all

/-! ### vector identities (pure polynomial identities) -/

/-- Lagrange: for `e ⟂ n`, `|e × w|² |n|² = ((e × w)·n)² + |e|² (w·n)²` -/
theorem lagrange_perp (e w n : V3 F) (h : dot e n = 0) :
    dot (cross e w) (cross e w) * dot n n =
      dot (cross e w) n ^ 2 + dot e e * dot w n ^ 2 := by
  simp only [dot_eq, cross_x, cross_y, cross_z] at h ⊢
  linear_combination
    ((e.x * n.x + e.y * n.y + e.z * n.z) * (w.x * w.x + w.y * w.y + w.z * w.z) -
      2 * (w.x * n.x + w.y * n.y + w.z * n.z) * (w.x * e.x + w.y * e.y + w.z * e.z)) * h

/-- every edge is perpendicular to `crossP` -/
theorem edge0_perp (t0 t1 t2 : V3 F) : dot (vsub t2 t1) (crossPof t0 t1 t2) = 0 := by
  simp only [crossPof, dot_eq, cross_x, cross_y, cross_z, vsub_x, vsub_y, vsub_z]; ring
theorem edge1_perp (t0 t1 t2 : V3 F) : dot (vsub t0 t2) (crossPof t0 t1 t2) = 0 := by
  simp only [crossPof, dot_eq, cross_x, cross_y, cross_z, vsub_x, vsub_y, vsub_z]; ring
theorem edge2_perp (t0 t1 t2 : V3 F) : dot (vsub t1 t0) (crossPof t0 t1 t2) = 0 := by
  simp only [crossPof, dot_eq, cross_x, cross_y, cross_z, vsub_x, vsub_y, vsub_z]; ring

/-- the height of `v` over the plane of the triangle, times `|crossP|` -/
def zeta (v t0 t1 t2 : V3 F) : F := dot (vsub v t0) (crossPof t0 t1 t2)

theorem zeta1 (v t0 t1 t2 : V3 F) : dot (vsub v t1) (crossPof t0 t1 t2) = zeta v t0 t1 t2 := by
  simp only [zeta, crossPof, dot_eq, cross_x, cross_y, cross_z, vsub_x, vsub_y, vsub_z]; ring
theorem zeta2 (v t0 t1 t2 : V3 F) : dot (vsub v t2) (crossPof t0 t1 t2) = zeta v t0 t1 t2 := by
  simp only [zeta, crossPof, dot_eq, cross_x, cross_y, cross_z, vsub_x, vsub_y, vsub_z]; ring

/-- the un-snapped weights `dot(cross(edges[i], v - triPos[Next3(i)]), crossP)` -/
def U0 (v t0 t1 t2 : V3 F) : F := dot (cross (vsub t2 t1) (vsub v t1)) (crossPof t0 t1 t2)
def U1 (v t0 t1 t2 : V3 F) : F := dot (cross (vsub t0 t2) (vsub v t2)) (crossPof t0 t1 t2)
def U2 (v t0 t1 t2 : V3 F) : F := dot (cross (vsub t1 t0) (vsub v t0)) (crossPof t0 t1 t2)
/-- `area2v` of edge `i`: `|edges[i] × (v - triPos[Next3(i)])|²` -/
def A0 (v t1 t2 : V3 F) : F := dot (cross (vsub t2 t1) (vsub v t1)) (cross (vsub t2 t1) (vsub v t1))
def A1 (v t0 t2 : V3 F) : F := dot (cross (vsub t0 t2) (vsub v t2)) (cross (vsub t0 t2) (vsub v t2))
def A2 (v t0 t1 : V3 F) : F := dot (cross (vsub t1 t0) (vsub v t0)) (cross (vsub t1 t0) (vsub v t0))

/-- the un-snapped weights sum to `area2` -/
theorem U_sum (v t0 t1 t2 : V3 F) :
    U0 v t0 t1 t2 + U1 v t0 t1 t2 + U2 v t0 t1 t2 = area2of t0 t1 t2 := by
  simp only [U0, U1, U2, area2of, crossPof, dot_eq, cross_x, cross_y, cross_z, vsub_x, vsub_y, vsub_z]
  ring

theorem lag0 (v t0 t1 t2 : V3 F) :
    A0 v t1 t2 * area2of t0 t1 t2 = U0 v t0 t1 t2 ^ 2 + (d2of t0 t1 t2).x * zeta v t0 t1 t2 ^ 2 := by
  have := lagrange_perp (vsub t2 t1) (vsub v t1) (crossPof t0 t1 t2) (edge0_perp t0 t1 t2)
  rw [zeta1] at this
  exact this
theorem lag1 (v t0 t1 t2 : V3 F) :
    A1 v t0 t2 * area2of t0 t1 t2 = U1 v t0 t1 t2 ^ 2 + (d2of t0 t1 t2).y * zeta v t0 t1 t2 ^ 2 := by
  have := lagrange_perp (vsub t0 t2) (vsub v t2) (crossPof t0 t1 t2) (edge1_perp t0 t1 t2)
  rw [zeta2] at this
  exact this
theorem lag2 (v t0 t1 t2 : V3 F) :
    A2 v t0 t1 * area2of t0 t1 t2 = U2 v t0 t1 t2 ^ 2 + (d2of t0 t1 t2).z * zeta v t0 t1 t2 ^ 2 := by
  exact lagrange_perp (vsub t1 t0) (vsub v t0) (crossPof t0 t1 t2) (edge2_perp t0 t1 t2)

/-- `area2 ≤ d2[i] * d2[j]`: a non-degenerate triangle has no zero edge -/
theorem area2_le_d01 (t0 t1 t2 : V3 F) :
    area2of t0 t1 t2 + dot (vsub t2 t1) (vsub t0 t2) ^ 2 = (d2of t0 t1 t2).x * (d2of t0 t1 t2).y := by
  simp only [area2of, crossPof, d2of, dot_eq, cross_x, cross_y, cross_z, vsub_x, vsub_y, vsub_z]; ring
theorem area2_le_d12 (t0 t1 t2 : V3 F) :
    area2of t0 t1 t2 + dot (vsub t0 t2) (vsub t1 t0) ^ 2 = (d2of t0 t1 t2).y * (d2of t0 t1 t2).z := by
  simp only [area2of, crossPof, d2of, dot_eq, cross_x, cross_y, cross_z, vsub_x, vsub_y, vsub_z]; ring

/-- reconstruction: the un-snapped weights place the point at the projection of `v` onto the plane:
`Σ Uᵢ tᵢ = area2 · v − ζ · crossP` -/
theorem U_reconstruct (v t0 t1 t2 : V3 F) :
    (U0 v t0 t1 t2 * t0.x + U1 v t0 t1 t2 * t1.x + U2 v t0 t1 t2 * t2.x =
      area2of t0 t1 t2 * v.x - zeta v t0 t1 t2 * (crossPof t0 t1 t2).x) ∧
    (U0 v t0 t1 t2 * t0.y + U1 v t0 t1 t2 * t1.y + U2 v t0 t1 t2 * t2.y =
      area2of t0 t1 t2 * v.y - zeta v t0 t1 t2 * (crossPof t0 t1 t2).y) ∧
    (U0 v t0 t1 t2 * t0.z + U1 v t0 t1 t2 * t1.z + U2 v t0 t1 t2 * t2.z =
      area2of t0 t1 t2 * v.z - zeta v t0 t1 t2 * (crossPof t0 t1 t2).z) := by
  simp only [U0, U1, U2, zeta, area2of, crossPof, dot_eq, cross_x, cross_y, cross_z, vsub_x, vsub_y, vsub_z]
  refine ⟨by ring, by ring, by ring⟩

end Field
end MV.PropInterp
