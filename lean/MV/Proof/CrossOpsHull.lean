import MV.Proof.CrossOpsHullB
import MV.Proof.CrossOpsHullC
import Mathlib.Tactic.NormNum
/-!
Convex hull (`HullImpl`, cross_section.cpp:92-122) at the exact instance: the ring returned by
`hullImpl` consists of input points, has every input point on the left of (or on) every edge, and is
strictly convex when it has at least three vertices.
-/
namespace MV.CrossOps
set_option linter.unusedSectionVars false

variable {F : Type} [Field F] [LinearOrder F] [IsStrictOrderedRing F]

theorem sorted_pairwise (pts : List (V2 F)) : (pts.mergeSort lexLe).Pairwise lle := by
  have h := List.pairwise_mergeSort (le := (lexLe : V2 F → V2 F → Bool))
    (fun a b c h1 h2 => (lexLe_iff a c).2 (lle_trans ((lexLe_iff a b).1 h1) ((lexLe_iff b c).1 h2)))
    (fun a b => by
      rcases lle_total a b with h | h
      · simp [(lexLe_iff a b).2 h]
      · simp [(lexLe_iff b a).2 h])
    pts
  exact h.imp (fun {a b} hab => (lexLe_iff a b).1 hab)

theorem hullImpl_eq (pts : List (V2 F)) (h : ¬ pts.length < 3) :
    hullImpl pts = (chain (pts.mergeSort lexLe)).tail.reverse ++
      (chain (pts.mergeSort lexLe).reverse).tail.reverse := by
  have hfin : pts.any (fun p => !p.isFinite) = false := by
    simp [V2.isFinite]
  simp only [hullImpl, if_neg h, hfin, Bool.false_eq_true, if_false]

theorem rev_decomp2 {β : Type} {S k1 k2 : List β} {a b : β} (h : S.reverse = k1 ++ a :: b :: k2) :
    S = k2.reverse ++ b :: a :: k1.reverse := by
  have := congrArg List.reverse h
  simpa using this

theorem rev_decomp3 {β : Type} {S k1 k2 : List β} {a b c : β}
    (h : S.reverse = k1 ++ a :: b :: c :: k2) :
    S = k2.reverse ++ c :: b :: a :: k1.reverse := by
  have := congrArg List.reverse h
  simpa using this

/-- a stack with at least two vertices: top, middle, bottom -/
theorem two_le_decomp {β : Type} {S : List β} (h : 2 ≤ S.length) :
    ∃ t M b, S = t :: (M ++ [b]) := by
  match S, h with
  | t :: y :: r, _ =>
    rcases List.eq_nil_or_concat (y :: r) with e | ⟨M, b, e⟩
    · simp at e
    · exact ⟨t, M, b, by rw [e]; simp⟩

/-- the shape of the ring: the lower chain without its top followed by the upper chain without
its top, and the two chains share their end points -/
theorem hull_structure (pts : List (V2 F)) (h : ¬ pts.length < 3) :
    ∃ (Q L U : List (V2 F)) (x0 y0 : V2 F) (X' Y' : List (V2 F)),
      (∀ q, q ∈ Q ↔ q ∈ pts) ∧ Inv lle L Q ∧ Inv (fun a b : V2 F => lle b a) U Q.reverse ∧
      hullImpl pts = (x0 :: X') ++ (y0 :: Y') ∧
      L.reverse = (x0 :: X') ++ [y0] ∧ U.reverse = (y0 :: Y') ++ [x0] := by
  have IL := chain_inv goodOrd_lle _ (sorted_pairwise pts)
  have IU := chain_inv goodOrd_gle (pts.mergeSort lexLe).reverse
    (List.pairwise_reverse.2 (sorted_pairwise pts))
  have hlen : 2 ≤ (pts.mergeSort lexLe).length := by
    rw [List.length_mergeSort]; omega
  obtain ⟨tL, ML, bL, hL⟩ := two_le_decomp (IL.len hlen)
  obtain ⟨tU, MU, bU, hU⟩ := two_le_decomp (IU.len (by rw [List.length_reverse]; exact hlen))
  have htL : tL ∈ pts.mergeSort lexLe := IL.sub tL (by rw [hL]; simp)
  have hbL : bL ∈ pts.mergeSort lexLe := IL.sub bL (by rw [hL]; simp)
  have htU : tU ∈ (pts.mergeSort lexLe).reverse := IU.sub tU (by rw [hU]; simp)
  have hbU : bU ∈ (pts.mergeSort lexLe).reverse := IU.sub bU (by rw [hU]; simp)
  have e1 : bU = tL := by
    have h1 : lle bU tL := IL.top tL _ hL bU (List.mem_reverse.1 hbU)
    have h2 : lle tL bU := IU.bot (tU :: MU) bU (by rw [hU]; simp) tL (List.mem_reverse.2 htL)
    exact lle_antisymm h1 h2
  have e2 : tU = bL := by
    have h1 : lle bL tU := IL.bot (tL :: ML) bL (by rw [hL]; simp) tU (List.mem_reverse.1 htU)
    have h2 : lle tU bL := IU.top tU _ hU bL (List.mem_reverse.2 hbL)
    exact lle_antisymm h2 h1
  subst e1 e2
  refine ⟨pts.mergeSort lexLe, _, _, tU, bU, ML.reverse, MU.reverse,
    fun q => List.mem_mergeSort, IL, IU, ?_, ?_, ?_⟩
  · rw [hullImpl_eq pts h, hL, hU]; simp
  · rw [hL]; simp
  · rw [hU]; simp

theorem hull_subset (pts : List (V2 F)) : ∀ v ∈ hullImpl pts, v ∈ pts := by
  intro v hv
  by_cases h : pts.length < 3
  · simp [hullImpl, h] at hv
  · obtain ⟨Q, L, U, x0, y0, X', Y', hQ, IL, IU, hring, hLR, hUR⟩ := hull_structure pts h
    rw [hring] at hv
    rcases List.mem_append.1 hv with hv | hv
    · have : v ∈ L := by
        rw [← List.mem_reverse, hLR]; exact List.mem_append_left _ hv
      exact (hQ v).1 (IL.sub v this)
    · have : v ∈ U := by
        rw [← List.mem_reverse, hUR]; exact List.mem_append_left _ hv
      exact (hQ v).1 (List.mem_reverse.1 (IU.sub v this))

theorem hull_contains (pts : List (V2 F)) :
    ∀ e ∈ cyclicPairs (hullImpl pts), ∀ q ∈ pts, 0 ≤ orient e.1 e.2 q := by
  intro e he q hq
  by_cases h : pts.length < 3
  · simp [hullImpl, h, cyclicPairs] at he
  · obtain ⟨Q, L, U, x0, y0, X', Y', hQ, IL, IU, hring, hLR, hUR⟩ := hull_structure pts h
    rw [hring] at he
    obtain ⟨l1, l2, hd⟩ := cyclicPairs_decomp he
    rcases ring_pairs hd with ⟨k1, k2, hk⟩ | ⟨k1, k2, hk⟩
    · exact IL.sees q ((hQ q).2 hq) _ _ _ _ (rev_decomp2 (hLR.trans hk))
    · exact IU.sees q (List.mem_reverse.2 ((hQ q).2 hq)) _ _ _ _ (rev_decomp2 (hUR.trans hk))

/-- if all input points are collinear the ring has at most two vertices -/
theorem ring_short_of_collinear {Q L U X Y : List (V2 F)} {x0 y0 : V2 F}
    (IL : Inv lle L Q) (IU : Inv (fun a b : V2 F => lle b a) U Q.reverse)
    (hLR : L.reverse = X ++ [y0]) (hUR : U.reverse = Y ++ [x0])
    (hcol : ∀ a ∈ Q, ∀ b ∈ Q, ∀ c ∈ Q, orient a b c = 0) : (X ++ Y).length ≤ 2 := by
  have h1 := IL.len_le_two hcol
  have h2 := IU.len_le_two (fun a ha b hb c hc =>
    hcol a (List.mem_reverse.1 ha) b (List.mem_reverse.1 hb) c (List.mem_reverse.1 hc))
  have e1 : L.length = X.length + 1 := by
    rw [← List.length_reverse, hLR]; simp
  have e2 : U.length = Y.length + 1 := by
    rw [← List.length_reverse, hUR]; simp
  rw [List.length_append]; omega

theorem allEq_collinear {Q : List (V2 F)} {z : V2 F} (h : ∀ q ∈ Q, q = z) :
    ∀ a ∈ Q, ∀ b ∈ Q, ∀ c ∈ Q, orient a b c = 0 := by
  intro a ha b hb c hc
  rw [h a ha, h b hb]; exact orient_self_left z c

theorem hull_strictly_convex (pts : List (V2 F)) (h3 : 3 ≤ (hullImpl pts).length) :
    ∀ t ∈ cyclicTriples (hullImpl pts), 0 < orient t.1 t.2.1 t.2.2 := by
  intro t ht
  have h : ¬ pts.length < 3 := by
    intro hlt
    simp [hullImpl, hlt] at h3
  obtain ⟨Q, L, U, x0, y0, X', Y', hQ, IL, IU, hring, hLR, hUR⟩ := hull_structure pts h
  rw [hring] at ht h3
  obtain ⟨l1, l2, hd⟩ := cyclicTriples_decomp (by omega) ht
  obtain ⟨a, b, c⟩ := t
  simp only at hd ⊢
  rcases ring_triples hd with ⟨k1, k2, hk⟩ | ⟨k1, k2, hk⟩ | ⟨P, R, hX, hb, hY⟩ | ⟨P, R, hY, hb, hX⟩
  · exact IL.turns _ _ _ _ _ (rev_decomp3 (hLR.trans hk))
  · exact IU.turns _ _ _ _ _ (rev_decomp3 (hUR.trans hk))
  · -- joint at the lex-largest point `y0`
    subst hb
    have hL : L = [] ++ b :: a :: P.reverse := by
      have := congrArg List.reverse hLR
      rw [hX] at this
      simpa using this
    have hU : U = R.reverse ++ c :: b :: [] := by
      have := congrArg List.reverse (hUR.trans hY)
      simpa using this
    have haQ : a ∈ Q := IL.sub a (by rw [hL]; simp)
    have hcQ : c ∈ Q := List.mem_reverse.1 (IU.sub c (by rw [hU]; simp))
    have hge : 0 ≤ orient a b c := IL.sees c hcQ _ _ _ _ hL
    rcases lt_or_eq_of_le hge with hlt | heq
    · exact hlt
    · exfalso
      have hcol : ∀ a ∈ Q, ∀ b ∈ Q, ∀ c ∈ Q, orient a b c = 0 := by
        by_cases hab : a = b
        · exact allEq_collinear (IL.allEq goodOrd_lle hL hab)
        · by_cases hcb : c = b
          · exact allEq_collinear (fun q hq =>
              IU.allEq goodOrd_gle hU hcb.symm q (List.mem_reverse.2 hq))
          · have hline : ∀ q ∈ Q, orient a b q = 0 := fun q hq =>
              orient_joint_lt (IL.top b _ hL a haQ) hab (IL.top b _ hL c hcQ) hcb heq.symm
                (IL.sees q hq _ _ _ _ hL) (IU.sees q (List.mem_reverse.2 hq) _ _ _ _ hU)
            intro p hp q hq r hr
            exact orient_collinear hab (hline p hp) (hline q hq) (hline r hr)
      have := ring_short_of_collinear IL IU hLR hUR hcol
      omega
  · -- joint at the lex-smallest point `x0`
    subst hb
    have hU : U = [] ++ b :: a :: P.reverse := by
      have := congrArg List.reverse hUR
      rw [hY] at this
      simpa using this
    have hL : L = R.reverse ++ c :: b :: [] := by
      have := congrArg List.reverse (hLR.trans hX)
      simpa using this
    have hL' : L = (R.reverse ++ [c]) ++ [b] := by rw [hL]; simp
    have haQ : a ∈ Q := List.mem_reverse.1 (IU.sub a (by rw [hU]; simp))
    have hcQ : c ∈ Q := IL.sub c (by rw [hL]; simp)
    have hge : 0 ≤ orient a b c := IU.sees c (List.mem_reverse.2 hcQ) _ _ _ _ hU
    rcases lt_or_eq_of_le hge with hlt | heq
    · exact hlt
    · exfalso
      have hcol : ∀ a ∈ Q, ∀ b ∈ Q, ∀ c ∈ Q, orient a b c = 0 := by
        by_cases hab : a = b
        · exact allEq_collinear (fun q hq =>
            IU.allEq goodOrd_gle hU hab q (List.mem_reverse.2 hq))
        · by_cases hcb : c = b
          · exact allEq_collinear (IL.allEq goodOrd_lle hL hcb.symm)
          · have hline : ∀ q ∈ Q, orient a b q = 0 := fun q hq =>
              orient_joint_gt (IL.bot _ b hL' a haQ) hab (IL.bot _ b hL' c hcQ) hcb heq.symm
                (IU.sees q (List.mem_reverse.2 hq) _ _ _ _ hU) (IL.sees q hq _ _ _ _ hL)
            intro p hp q hq r hr
            exact orient_collinear hab (hline p hp) (hline q hq) (hline r hr)
      have := ring_short_of_collinear IL IU hLR hUR hcol
      omega

/-! ## non-vacuity: the theorems instantiated at `ℚ` on a concrete input

The input is given lex-sorted so that `mergeSort` is the identity (`List.mergeSort_of_pairwise`);
the two chains are then evaluated by `norm_num`. -/

private def hullTestPts : List (V2 ℚ) := [⟨0, 0⟩, ⟨0, 2⟩, ⟨1, 0⟩, ⟨1, 1⟩, ⟨2, 0⟩, ⟨2, 2⟩]

private theorem hullTest_eq : hullImpl hullTestPts = [⟨0, 0⟩, ⟨2, 0⟩, ⟨2, 2⟩, ⟨0, 2⟩] := by
  have hs : hullTestPts.mergeSort lexLe = hullTestPts := List.mergeSort_of_pairwise (by decide)
  rw [hullImpl_eq hullTestPts (by decide), hs]
  norm_num [hullTestPts, chain, hullPush, hullBacktrack, ccw_zero, orient]

example : (hullImpl hullTestPts).length = 4 := by rw [hullTest_eq]; rfl

/-- `hull_subset` at a vertex that exists -/
example : (⟨2, 2⟩ : V2 ℚ) ∈ hullTestPts :=
  hull_subset hullTestPts ⟨2, 2⟩ (by rw [hullTest_eq]; simp)

/-- `hull_contains` at an edge that exists and an interior input point -/
example : 0 ≤ orient (⟨0, 0⟩ : V2 ℚ) ⟨2, 0⟩ ⟨1, 1⟩ :=
  hull_contains hullTestPts (⟨0, 0⟩, ⟨2, 0⟩) (by rw [hullTest_eq]; simp [cyclicPairs])
    ⟨1, 1⟩ (by simp [hullTestPts])

/-- the hypothesis of `hull_strictly_convex` is satisfiable, and a joint triple that exists -/
example : 0 < orient (⟨2, 0⟩ : V2 ℚ) ⟨2, 2⟩ ⟨0, 2⟩ :=
  hull_strictly_convex hullTestPts (by rw [hullTest_eq]; decide) (⟨2, 0⟩, ⟨2, 2⟩, ⟨0, 2⟩)
    (by rw [hullTest_eq]; simp [cyclicTriples])

/-- the same on an unsorted input (the stable sort evaluated by `norm_num`) -/
example : hullImpl ([⟨0, 0⟩, ⟨2, 0⟩, ⟨1, 1⟩, ⟨2, 2⟩, ⟨0, 2⟩, ⟨1, 0⟩] : List (V2 ℚ))
    = [⟨0, 0⟩, ⟨2, 0⟩, ⟨2, 2⟩, ⟨0, 2⟩] := by
  have hs : ([⟨0, 0⟩, ⟨2, 0⟩, ⟨1, 1⟩, ⟨2, 2⟩, ⟨0, 2⟩, ⟨1, 0⟩] : List (V2 ℚ)).mergeSort lexLe
      = hullTestPts := by
    norm_num [List.mergeSort, List.MergeSort.Internal.splitInTwo, List.merge, lexLe, lexLess,
      hullTestPts]
  have h0 := hullTest_eq
  rw [hullImpl_eq hullTestPts (by decide),
    List.mergeSort_of_pairwise (l := hullTestPts) (by decide)] at h0
  rw [hullImpl_eq _ (by decide), hs, h0]

end MV.CrossOps
