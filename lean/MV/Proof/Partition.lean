import MV.Model.Partition
import Mathlib.Order.Defs.LinearOrder
import Mathlib.Tactic.SplitIfs
/-!
Lemmas about `MV/Model/Partition.lean` that hold for ALL inputs (no bound):
the sorting / rotation of `GetPartition`, the exclusive scans of `Subdivide`, `PartitionFan`,
and the tolerance scalar logic.
-/
namespace MV.Partition

/-! ### `GetPartition`: sorting of a triangle's divisions (subdivision.cpp:53-65) -/

/-- The six permutations of `{0,1,2}`. -/
def isPerm3 (t : I4) : Prop :=
  (t.a = 0 ∧ t.b = 1 ∧ t.c = 2) ∨ (t.a = 0 ∧ t.b = 2 ∧ t.c = 1) ∨ (t.a = 1 ∧ t.b = 0 ∧ t.c = 2) ∨
  (t.a = 1 ∧ t.b = 2 ∧ t.c = 0) ∨ (t.a = 2 ∧ t.b = 0 ∧ t.c = 1) ∨ (t.a = 2 ∧ t.b = 1 ∧ t.c = 0)

theorem sortTri_spec (d : I4) :
    (sortTri d).1.a ≥ (sortTri d).1.b ∧ (sortTri d).1.b ≥ (sortTri d).1.c ∧ (sortTri d).1.d = d.d ∧
    (sortTri d).2.d = 3 ∧ isPerm3 (sortTri d).2 ∧
    (sortTri d).1.a = d.get (sortTri d).2.a.toNat ∧ (sortTri d).1.b = d.get (sortTri d).2.b.toNat ∧
    (sortTri d).1.c = d.get (sortTri d).2.c.toNat := by
  obtain ⟨a, b, c, e⟩ := d
  unfold sortTri isPerm3
  by_cases h1 : c > b <;> by_cases h2 : b > a <;> by_cases h3 : c > a <;>
    simp [h1, h2, h3, I4.get] <;> omega

/-! ### `GetPartition`: rotation of a quad's divisions (subdivision.cpp:67-85) -/

theorem quadMinIdx_lt (d : I4) : quadMinIdx d < 4 := by
  obtain ⟨a, b, c, e⟩ := d
  simp only [quadMinIdx, List.foldl, I4.get]
  split_ifs <;> simp

/-- The chosen rotation starts at a lexicographically minimal `(d[i], d[i+1])`. -/
theorem quadMinIdx_min (d : I4) (i : Nat) (hi : i < 4) :
    d.get (quadMinIdx d) < d.get i ∨
    (d.get (quadMinIdx d) = d.get i ∧ d.get ((quadMinIdx d + 1) % 4) ≤ d.get ((i + 1) % 4)) := by
  obtain ⟨a, b, c, e⟩ := d
  have : i = 0 ∨ i = 1 ∨ i = 2 ∨ i = 3 := by omega
  simp only [quadMinIdx, List.foldl, I4.get]
  rcases this with rfl | rfl | rfl | rfl <;> split_ifs <;>
    simp only [Bool.or_eq_true, Bool.and_eq_true, decide_eq_true_eq, beq_iff_eq, Nat.reduceAdd, Nat.reduceMod,
      Nat.zero_add] at * <;> first | omega | (simp only [true_and] at * ; omega)

theorem rotQuad_spec (d : I4) (m : Nat) :
    (rotQuad d m).1.a = d.get ((0 + m) % 4) ∧ (rotQuad d m).1.b = d.get ((1 + m) % 4) ∧
    (rotQuad d m).1.c = d.get ((2 + m) % 4) ∧ (rotQuad d m).1.d = d.get ((3 + m) % 4) ∧
    (rotQuad d m).2.a = Int.ofNat ((0 + m) % 4) ∧ (rotQuad d m).2.b = Int.ofNat ((1 + m) % 4) ∧
    (rotQuad d m).2.c = Int.ofNat ((2 + m) % 4) ∧ (rotQuad d m).2.d = Int.ofNat ((3 + m) % 4) := by
  simp [rotQuad]

/-! ### Exclusive scan (subdivision.cpp:564-566, 609-619) -/

def sumL (l : List Int) : Int := l.foldl (· + ·) 0

theorem foldl_add_init (l : List Int) (a : Int) : l.foldl (· + ·) a = a + l.foldl (· + ·) 0 := by
  induction l generalizing a with
  | nil => simp
  | cons x xs ih => simp only [List.foldl]; rw [ih (a + x), ih (0 + x)]; omega

theorem exclusiveScan_length (init : Int) (l : List Int) : (exclusiveScan init l).length = l.length := by
  induction l generalizing init with
  | nil => rfl
  | cons x xs ih => simp [exclusiveScan, ih]

/-- Entry `i` of the scan is `init` plus the sum of the entries before `i`. -/
theorem exclusiveScan_getD (init : Int) (l : List Int) (i : Nat) (h : i < l.length) :
    (exclusiveScan init l).getD i 0 = init + sumL (l.take i) := by
  induction l generalizing init i with
  | nil => simp at h
  | cons x xs ih =>
    cases i with
    | zero => simp [exclusiveScan, sumL]
    | succ j =>
      simp only [exclusiveScan, List.getD_cons_succ, List.take_succ_cons]
      rw [ih (init + x) j (by simpa using h)]
      simp only [sumL, List.foldl]
      rw [foldl_add_init (List.take j xs) (0 + x)]
      omega

/-- The half-open range of new vertex indices owned by entry `i`. -/
def ownsIdx (init : Int) (l : List Int) (i : Nat) (v : Int) : Prop :=
  (exclusiveScan init l).getD i 0 ≤ v ∧ v < (exclusiveScan init l).getD i 0 + l.getD i 0

theorem sumL_take_mono (l : List Int) (hnn : ∀ x ∈ l, 0 ≤ x) (i j : Nat) (hij : i ≤ j) :
    sumL (l.take i) ≤ sumL (l.take j) := by
  induction l generalizing i j with
  | nil => simp
  | cons x xs ih =>
    cases i with
    | zero =>
      simp only [List.take_zero, sumL, List.foldl]
      clear ih
      have : ∀ (m : List Int), (∀ y ∈ m, 0 ≤ y) → 0 ≤ m.foldl (· + ·) 0 := by
        intro m hm
        induction m with
        | nil => simp
        | cons y ys ihy =>
          simp only [List.foldl]; rw [foldl_add_init]
          have := ihy (fun z hz => hm z (List.mem_cons_of_mem _ hz))
          have := hm y (List.mem_cons_self ..)
          omega
      exact this _ (fun y hy => hnn y (List.mem_of_mem_take hy))
    | succ i' =>
      cases j with
      | zero => omega
      | succ j' =>
        simp only [List.take_succ_cons, sumL, List.foldl]
        rw [foldl_add_init (List.take i' xs), foldl_add_init (List.take j' xs)]
        have := ih (fun y hy => hnn y (List.mem_cons_of_mem _ hy)) i' j' (by omega)
        simp only [sumL] at this
        omega

theorem sumL_take_succ (l : List Int) (i : Nat) (h : i < l.length) :
    sumL (l.take (i + 1)) = sumL (l.take i) + l.getD i 0 := by
  induction l generalizing i with
  | nil => simp at h
  | cons x xs ih =>
    cases i with
    | zero => simp [sumL]
    | succ j =>
      simp only [List.take_succ_cons, sumL, List.foldl, List.getD_cons_succ]
      rw [foldl_add_init (List.take (j + 1) xs), foldl_add_init (List.take j xs)]
      have := ih j (by simpa using h)
      simp only [sumL] at this
      omega

/-- Distinct entries own disjoint index ranges. -/
theorem scan_disjoint (init : Int) (l : List Int) (hnn : ∀ x ∈ l, 0 ≤ x) (i j : Nat) (hi : i < l.length)
    (hj : j < l.length) (v : Int) (h1 : ownsIdx init l i v) (h2 : ownsIdx init l j v) : i = j := by
  unfold ownsIdx at h1 h2
  rw [exclusiveScan_getD init l i hi] at h1
  rw [exclusiveScan_getD init l j hj] at h2
  rcases Nat.lt_trichotomy i j with h | h | h
  · have := sumL_take_mono l hnn (i + 1) j (by omega)
    rw [sumL_take_succ l i hi] at this
    omega
  · exact h
  · have := sumL_take_mono l hnn (j + 1) i (by omega)
    rw [sumL_take_succ l j hj] at this
    omega

/-- Every index of `[init, init + Σ l)` is owned by some entry. -/
theorem scan_cover (init : Int) (l : List Int) (v : Int) (h0 : init ≤ v) (h1 : v < init + sumL l) :
    ∃ i, i < l.length ∧ ownsIdx init l i v := by
  induction l generalizing init with
  | nil => simp [sumL] at h1; omega
  | cons x xs ih =>
    by_cases hx : v < init + x
    · exact ⟨0, by simp, by simp [ownsIdx, exclusiveScan]; omega⟩
    · have hs : sumL (x :: xs) = x + sumL xs := by
        simp only [sumL, List.foldl]; rw [foldl_add_init]; omega
      obtain ⟨i, hi, ho⟩ := ih (init + x) (by omega) (by rw [hs] at h1; omega)
      refine ⟨i + 1, by simpa using hi, ?_⟩
      simpa [ownsIdx, exclusiveScan] using ho

/-- Every owned index lies in `[init, init + Σ l)`. -/
theorem scan_within (init : Int) (l : List Int) (hnn : ∀ x ∈ l, 0 ≤ x) (i : Nat) (hi : i < l.length) (v : Int)
    (h : ownsIdx init l i v) : init ≤ v ∧ v < init + sumL l := by
  unfold ownsIdx at h
  rw [exclusiveScan_getD init l i hi] at h
  have h0 := sumL_take_mono l hnn 0 i (by omega)
  have h1 := sumL_take_mono l hnn (i + 1) l.length (by omega)
  rw [sumL_take_succ l i hi] at h1
  simp only [List.take_zero, List.take_length] at h0 h1
  have : sumL ([] : List Int) = 0 := rfl
  omega

/-! ### `PartitionFan` (subdivision.cpp:249-258) -/

/-- The `j`-th vertex of the chain `c0, off, off+1, …, off+added-1, c1` along side 0. -/
def fanChain (c0 c1 off : Int) (added : Nat) (j : Nat) : Int :=
  if j = 0 then c0 else if j ≤ added then off + Int.ofNat (j - 1) else c1

def fanTris (c0 c1 c2 off : Int) (added : Nat) : List Tri :=
  (List.range (added + 1)).map fun j => (fanChain c0 c1 off added j, fanChain c0 c1 off added (j + 1), c2)

theorem fan_loop (c0 c2 off : Int) (n : Nat) (s : QState) :
    (List.range n).foldl (fun (sl : QState × Int) i =>
      let next := off + Int.ofNat i
      (sl.1.push (sl.2, next, c2), next)) (s, c0) =
    ({ s with tris := ((List.range n).map fun j =>
        ((if j = 0 then c0 else off + Int.ofNat (j - 1)), off + Int.ofNat j, c2)).reverse ++ s.tris },
     if n = 0 then c0 else off + Int.ofNat (n - 1)) := by
  induction n with
  | zero => simp
  | succ k ih =>
    rw [List.range_succ, List.foldl_append, ih]
    simp [QState.push, List.map_append]

/-- `PartitionFan` pushes exactly the `added + 1` triangles of the fan around `cornerVerts[2]`,
in order along side 0. -/
theorem partitionFan_tris (s : QState) (c0 c1 c2 added off : Int) :
    (partitionFan s c0 c1 c2 added off).tris.reverse =
      s.tris.reverse ++ fanTris c0 c1 c2 off added.toNat ∧
    (partitionFan s c0 c1 c2 added off).nV = s.nV ∧ (partitionFan s c0 c1 c2 added off).ok = s.ok := by
  unfold partitionFan
  have h := fan_loop c0 c2 off added.toNat s
  simp only at h
  rw [h]
  refine ⟨?_, rfl, rfl⟩
  simp only [QState.push, List.reverse_cons, List.reverse_append, List.reverse_reverse, fanTris]
  rw [List.range_succ, List.map_append, List.append_assoc]
  congr 1
  congr 1
  · apply List.map_congr_left
    intro j hj
    have hj' : j < added.toNat := by simpa using hj
    simp only [fanChain]
    by_cases h0 : j = 0
    · subst h0; simp; omega
    · have h1 : j ≤ added.toNat := by omega
      have h2 : j + 1 ≤ added.toNat := by omega
      simp [h0, h1, h2]
  · simp only [List.map_cons, List.map_nil, fanChain]
    by_cases h0 : added.toNat = 0
    · simp [h0]
    · simp [h0]
      intro h
      omega

theorem fanTris_length (c0 c1 c2 off : Int) (added : Nat) : (fanTris c0 c1 c2 off added).length = added + 1 := by
  simp [fanTris]

/-! ### Tolerance scalar logic -/

section tol
variable {α : Type} [LinearOrder α] [TScalar α]

/-- `SetTolerance(t)` on a state with `epsilon ≤ tolerance`: the reported tolerance is
`max t epsilon`, epsilon is untouched, and `epsilon ≤ tolerance` still holds.  (`α` = any linear
order whose `<` is the one the code uses: the reals restricted to doubles without NaN.) -/
theorem setTolerance_spec (hlt : ∀ a b : α, TScalar.lt a b = decide (a < b)) (s : TolState α) (t : α)
    (hinv : s.epsilon ≤ s.tolerance) :
    (setTolerance s t).1.tolerance = max t s.epsilon ∧ (setTolerance s t).1.epsilon = s.epsilon ∧
    (setTolerance s t).1.epsilon ≤ (setTolerance s t).1.tolerance ∧
    ((setTolerance s t).2 = true ↔ s.tolerance < t) := by
  unfold setTolerance stdMax
  simp only [hlt]
  by_cases h : s.tolerance < t
  · have h1 : s.epsilon ≤ t := le_of_lt (lt_of_le_of_lt hinv h)
    simp [h, max_eq_left h1, h1]
  · simp only [h, decide_false, Bool.false_eq_true, ↓reduceIte]
    by_cases h2 : s.epsilon < t
    · simp [h2, max_eq_left (le_of_lt h2), le_of_lt h2]
    · have h3 : t ≤ s.epsilon := not_lt.mp h2
      simp [h2, max_eq_right h3]

/-- `Simplify(t)`: the object's tolerance is unchanged; the simplification runs at
`max tolerance t` (at `tolerance` for `t = 0`). -/
theorem simplifyTol_spec (hlt : ∀ a b : α, TScalar.lt a b = decide (a < b)) (s : TolState α) (t : α) (z : Bool) :
    (simplifyTol s t z).2 = s ∧ (simplifyTol s t z).1 = (if z then s.tolerance else max s.tolerance t) ∧
    s.tolerance ≤ (simplifyTol s t z).1 := by
  unfold simplifyTol
  simp only [hlt]
  cases z
  · by_cases h : s.tolerance < t
    · simp [h, max_eq_right (le_of_lt h), le_of_lt h]
    · simp [h, max_eq_left (not_lt.mp h)]
  · simp

/-- `SetEpsilon` establishes `epsilon ≤ tolerance` whatever the state was, and never lowers the
tolerance. -/
theorem setEpsilon_spec (hlt : ∀ a b : α, TScalar.lt a b = decide (a < b)) (s : TolState α) (e : α) (f : Option α) :
    (setEpsilon s e f).epsilon = e ∧ (setEpsilon s e f).epsilon ≤ (setEpsilon s e f).tolerance ∧
    s.tolerance ≤ (setEpsilon s e f).tolerance := by
  unfold setEpsilon stdMax
  simp only [hlt]
  cases f with
  | none =>
    by_cases h : s.tolerance < e
    · simp [h, le_of_lt h]
    · simp [h, not_lt.mp h]
  | some g =>
    by_cases h1 : e < g
    · by_cases h : s.tolerance < g
      · simp [h1, h, le_of_lt h1, le_of_lt h]
      · simp [h1, h, le_trans (le_of_lt h1) (not_lt.mp h)]
    · by_cases h : s.tolerance < e
      · simp [h1, h, le_of_lt h]
      · simp [h1, h, not_lt.mp h]

end tol

end MV.Partition
