/-
Lemmas for property C15 (progress accounting and cancellation), about MV/Model/Progress.lean.
1. the interleaving machine keeps `Inv` (numerators never above denominators at any micro step, given the
   coded store order; what an observer between its two loads can have seen)
2. `BatchBoolean` / `BatchUnion` credit exactly `n - 1`
3. the evaluation of an expression credits at most `NumLeaves - 1` reductions, exactly that for a tree
4. cancellation on one Impl (post-loop check discipline) and on an expression (poisoned caches)
-/
import MV.Model.Progress

namespace MV.Progress

/-! ## 1. interleavings -/

/-- invariant of the interleaving machine -/
structure Inv (s : St) : Prop where
  phase : match s.ph with
    | .run b => s.c.donePhases + b = s.c.totalPhases
    | .r1 => s.c.donePhases ≤ s.c.totalPhases
    | .r2 => s.c.donePhases = 0
    | .r3 => s.c.donePhases = 0
  pend : ∀ p, s.pend = some p →
      (p.crossed = false → p.total = s.c.totalPhases) ∧
      (p.crossed = true → p.dirty = false → s.c.donePhases = 0) ∧
      (p.inRun = true → p.gen = s.gen → p.crossed = false) ∧
      (isRun s.ph = false → p.inRun = true → p.gen < s.gen) ∧
      p.gen ≤ s.gen
  logLe : ∀ o ∈ s.log, o.dirty = false → o.done ≤ o.total
  logCur : ∀ o ∈ s.log, o.clean = true → o.gen = s.gen → isRun s.ph = true →
      o.total = s.c.totalPhases ∧ o.done ≤ s.c.donePhases
  logGen : ∀ o ∈ s.log, o.gen ≤ s.gen
  logRun : ∀ o ∈ s.log, isRun s.ph = false → o.clean = true → o.gen < s.gen
  logMono : s.log.Pairwise (fun newer older => older.clean = true → newer.clean = true → older.gen = newer.gen →
      older.total = newer.total ∧ older.done ≤ newer.done)

theorem inv_init : Inv {} := by
  constructor <;> simp [isRun]

theorem done_le_total {s : St} (h : Inv s) : s.c.donePhases ≤ s.c.totalPhases := by
  have := h.phase
  cases hp : s.ph <;> simp [hp] at this <;> omega

theorem step_inv_w {s s' : St} {e : WEv} (h : Inv s) (hs : s.step (.w e) = some s') : Inv s' := by
  have hdt := done_le_total h
  obtain ⟨hph, hpend, hle, hcur, hgen, hrun, hmono⟩ := h
  unfold St.step at hs
  cases hst : s.ph.step e with
  | none => simp [hst] at hs
  | some ph' =>
    simp [hst] at hs
    subst hs
    cases e <;> cases hp : s.ph <;> simp [WPhase.step, hp] at hst
    all_goals (try obtain ⟨hv, rfl⟩ := hst)
    all_goals (try subst hst)
    all_goals (try subst hv)
    all_goals simp only [hp] at hph hpend hcur hrun
    all_goals
      refine ⟨?_, ?_, ?_, ?_, ?_, ?_, ?_⟩
    all_goals simp only [Counters.apply, isRun, Option.map_eq_some_iff] at *
    all_goals first | omega | grind

theorem step_inv_loadTotal {s s' : St} (h : Inv s) (hs : s.step .loadTotal = some s') : Inv s' := by
  have hdt := done_le_total h
  obtain ⟨hph, hpend, hle, hcur, hgen, hrun, hmono⟩ := h
  unfold St.step at hs
  cases hpd : s.pend with
  | some p => simp [hpd] at hs
  | none =>
    simp only [hpd] at hs
    by_cases h0 : s.c.totalPhases = 0
    · simp only [h0, if_true, Option.some.injEq] at hs
      subst hs
      refine ⟨hph, ?_, ?_, ?_, ?_, ?_, ?_⟩
      · intro p hp; simp at hp
      · intro o ho; simp at ho; rcases ho with rfl | ho
        · simp
        · exact hle o ho
      · intro o ho; simp at ho; rcases ho with rfl | ho
        · simp [h0]
        · exact hcur o ho
      · intro o ho; simp at ho; rcases ho with rfl | ho
        · simp
        · exact hgen o ho
      · intro o ho; simp at ho; rcases ho with rfl | ho
        · simp
        · exact hrun o ho
      · simp only [List.pairwise_cons]
        refine ⟨?_, hmono⟩
        intro o ho hc hn hg
        have := hcur o ho hc hg hn
        constructor <;> omega
    · simp only [h0, if_false, Option.some.injEq] at hs
      subst hs
      refine ⟨hph, ?_, hle, hcur, hgen, hrun, hmono⟩
      intro p hp
      simp at hp
      subst hp
      simp

theorem step_inv_loadDone {s s' : St} (h : Inv s) (hs : s.step .loadDone = some s') : Inv s' := by
  have hdt := done_le_total h
  obtain ⟨hph, hpend, hle, hcur, hgen, hrun, hmono⟩ := h
  unfold St.step at hs
  cases hpd : s.pend with
  | none => simp [hpd] at hs
  | some p =>
    simp only [hpd, Option.some.injEq] at hs
    subst hs
    obtain ⟨p1, p2, p3, p4, p5⟩ := hpend p hpd
    refine ⟨hph, ?_, ?_, ?_, ?_, ?_, ?_⟩
    · intro q hq; simp at hq
    · intro o ho; simp at ho; rcases ho with rfl | ho
      · simp
        intro hd
        cases hc : p.crossed
        · have := p1 hc; omega
        · have := p2 hc hd; omega
      · exact hle o ho
    · intro o ho; simp at ho; rcases ho with rfl | ho
      · simp
        intro hi _ hg _
        have := p1 (p3 hi hg)
        omega
      · exact hcur o ho
    · intro o ho; simp at ho; rcases ho with rfl | ho
      · simp
      · exact hgen o ho
    · intro o ho; simp at ho; rcases ho with rfl | ho
      · simp; intro h1 _ h2; simp [h1] at h2
      · exact hrun o ho
    · simp only [List.pairwise_cons]
      refine ⟨?_, hmono⟩
      intro o ho hc hn hg
      simp at hn hg
      obtain ⟨⟨hi, hr⟩, hpg⟩ := hn
      have := hcur o ho hc hg hr
      have h2 := p1 (p3 hi hpg)
      constructor <;> omega

theorem step_inv {s s' : St} {e : Ev} (h : Inv s) (hs : s.step e = some s') : Inv s' := by
  cases e with
  | w e => exact step_inv_w h hs
  | loadTotal => exact step_inv_loadTotal h hs
  | loadDone => exact step_inv_loadDone h hs

theorem run_inv {s s' : St} (evs : List Ev) (h : Inv s) (hs : s.run evs = some s') : Inv s' := by
  induction evs generalizing s with
  | nil => simp only [St.run, Option.some.injEq] at hs; exact hs ▸ h
  | cons e es ih =>
    unfold St.run at hs
    cases he : s.step e with
    | none => simp [he] at hs
    | some s1 =>
      simp only [he] at hs
      exact ih (step_inv h he) hs

/-! ## 2. BatchBoolean / BatchUnion -/

theorem batchBooleanCount_go (fuel h : Nat) (hf : h ≤ fuel) : batchBooleanCount.go fuel h = h - 1 := by
  induction fuel generalizing h with
  | zero => simp [batchBooleanCount.go]; omega
  | succ n ih =>
    unfold batchBooleanCount.go
    by_cases h1 : h ≤ 1
    · simp [h1]
    · simp only [h1, if_false]
      have hj : 1 ≤ min 4 (h / 2) := by omega
      have hj2 : min 4 (h / 2) ≤ h / 2 := Nat.min_le_right _ _
      rw [ih (h - min 4 (h / 2)) (by omega)]
      omega

theorem batchBooleanCount_eq (k : Nat) : batchBooleanCount k = k - 1 :=
  batchBooleanCount_go k k (Nat.le_refl k)

theorem sum_pred (sets : List Nat) (hpos : sets.all (0 < ·) = true) :
    (sets.map (· - 1)).sum + sets.length = sets.sum := by
  induction sets with
  | nil => simp
  | cons a rest ih =>
    simp only [List.all_cons, Bool.and_eq_true, decide_eq_true_eq] at hpos
    have := ih hpos.2
    simp only [List.map_cons, List.sum_cons, List.length_cons]
    omega

theorem batchUnionRound_eq (sets : List Nat) (hpos : sets.all (0 < ·) = true) (h2 : 1 ≤ sets.sum) :
    batchUnionRound sets = sets.sum - 1 := by
  unfold batchUnionRound
  rw [batchBooleanCount_eq]
  have := sum_pred sets hpos
  have hl : 1 ≤ sets.length := by
    cases sets with
    | nil => simp at h2
    | cons => simp
  omega

theorem batchUnionCredits_eq (rounds : List (List Nat)) (n c : Nat)
    (h : batchUnionCredits n rounds = some c) : c = n - 1 := by
  induction rounds generalizing n c with
  | nil =>
    unfold batchUnionCredits at h
    split at h <;> simp at h
    omega
  | cons sets rest ih =>
    unfold batchUnionCredits at h
    by_cases h1 : n ≤ 1
    · simp [h1] at h
    · simp only [h1, if_false] at h
      split at h
      · rename_i hc
        obtain ⟨hs, hp⟩ := hc
        cases hr : batchUnionCredits (n - min n 1000 + 1) rest with
        | none => simp [hr] at h
        | some c' =>
          simp [hr] at h
          have := ih _ _ hr
          rw [batchUnionRound_eq sets hp (by omega)] at h
          omega
      · simp at h

/-! ## 3. leaf reductions against NumLeaves -/

mutual
theorem Csg.numLeaves_pos : ∀ (t : Csg) (memo : List Nat), t.wf = true → 1 ≤ t.numLeaves memo
  | .leaf, _, _ => by simp [Csg.numLeaves]
  | .node op col share kids, memo, h => by
    simp only [Csg.wf, Bool.and_eq_true, decide_eq_true_eq] at h
    have := Kids.numLeaves_pos kids memo h.2 h.1
    unfold Csg.numLeaves
    cases share with
    | none => simpa using this
    | some id => by_cases hm : id ∈ memo <;> simp [hm] <;> omega
theorem Kids.numLeaves_pos : ∀ (ks : Kids) (memo : List Nat), ks.wf = true → 1 ≤ ks.length → 1 ≤ ks.numLeaves memo
  | .nil, _, _, h => by simp [Kids.length] at h
  | .cons t ks, memo, h, _ => by
    simp only [Kids.wf, Bool.and_eq_true] at h
    have := Csg.numLeaves_pos t memo h.1
    simp only [Kids.numLeaves]
    omega
end

mutual
theorem Csg.numLeaves_mono : ∀ (t : Csg) (m m' : List Nat), t.wf = true → (∀ x ∈ m, x ∈ m') →
    t.numLeaves m' ≤ t.numLeaves m
  | .leaf, _, _, _, _ => by simp [Csg.numLeaves]
  | .node op col share kids, m, m', h, hs => by
    have hw := h
    simp only [Csg.wf, Bool.and_eq_true, decide_eq_true_eq] at h
    have ih := Kids.numLeaves_mono kids m m' h.2 hs
    have hp := Kids.numLeaves_pos kids m h.2 h.1
    unfold Csg.numLeaves
    cases share with
    | none => simpa using ih
    | some id =>
      simp only
      by_cases hm : id ∈ m
      · simp [hm, hs id hm]
      · by_cases hm' : id ∈ m' <;> simp [hm, hm'] <;> omega
theorem Kids.numLeaves_mono : ∀ (ks : Kids) (m m' : List Nat), ks.wf = true → (∀ x ∈ m, x ∈ m') →
    ks.numLeaves m' ≤ ks.numLeaves m
  | .nil, _, _, _, _ => by simp [Kids.numLeaves]
  | .cons t ks, m, m', h, hs => by
    simp only [Kids.wf, Bool.and_eq_true] at h
    have := Csg.numLeaves_mono t m m' h.1 hs
    have := Kids.numLeaves_mono ks m m' h.2 hs
    simp only [Kids.numLeaves]
    omega
end

/-- what one frame does, against the unfolded leaf count `n` of what it processed -/
structure EvalSpec (n : Nat) (memo : List Nat) (tree : Bool) (o : Out) : Prop where
  le : o.pos + o.neg + o.credits ≤ n
  eq : tree = true → o.pos + o.neg + o.credits = n ∧ o.memo = memo
  sub : ∀ x ∈ memo, x ∈ o.memo

theorem finalize_spec {op : Op} {p q f : Nat} (hp : 1 ≤ p) (h : finalizeCredits op p q = some f) :
    f + 1 = p + q := by
  cases op <;> simp only [finalizeCredits] at h
  · split at h <;> simp at h; omega
  · split at h <;> simp at h
    rw [batchBooleanCount_eq] at h; omega
  · split at h
    · omega
    · split at h <;> simp at h <;> omega

theorem finalize_case {op : Op} {col : Bool} {share : Option Nat} {kids : Kids} {memo : List Nat} {ok : Out} {f : Nat}
    (hit : ∀ id, share = some id → id ∉ memo) (_hl : 1 ≤ kids.length)
    (sp : EvalSpec (kids.numLeaves memo) memo kids.isTree ok) (hp : 1 ≤ ok.pos)
    (hf : finalizeCredits op ok.pos ok.neg = some f) :
    EvalSpec ((Csg.node op col share kids).numLeaves memo) memo (Csg.node op col share kids).isTree
      { pos := 1, neg := 0, credits := ok.credits + f,
        memo := match share with | some id => id :: ok.memo | none => ok.memo } ∧
    1 ≤ (1 : Nat) := by
  have hfin := finalize_spec hp hf
  have hnl : (Csg.node op col share kids).numLeaves memo = kids.numLeaves memo := by
    unfold Csg.numLeaves
    cases share with
    | none => rfl
    | some id =>
      have : id ∉ memo := hit id rfl
      simp [this]
  refine ⟨⟨?_, ?_, ?_⟩, Nat.le_refl 1⟩
  · rw [hnl]; have := sp.le; simp only; omega
  · intro ht
    simp only [Csg.isTree, Bool.and_eq_true, Option.isNone_iff_eq_none] at ht
    obtain ⟨hsh, htk⟩ := ht
    subst hsh
    have := sp.eq htk
    rw [hnl]
    simp only
    constructor
    · omega
    · exact this.2
  · intro x hx
    have := sp.sub x hx
    cases share with
    | none => simpa using this
    | some id => simp [this]

mutual
theorem Csg.eval_spec : ∀ (t : Csg) (pop : Op) (hn : Bool) (memo : List Nat) (o : Out),
    t.wf = true → t.eval pop hn memo = some o →
    EvalSpec (t.numLeaves memo) memo t.isTree o ∧ 1 ≤ o.pos
  | .leaf, _, _, memo, o, _, h => by
    simp only [Csg.eval, Option.some.injEq] at h
    subst h
    exact ⟨⟨by simp [Csg.numLeaves], by simp [Csg.numLeaves], fun _ hx => hx⟩, Nat.le_refl 1⟩
  | .node op col share kids, pop, hn, memo, o, hw, h => by
    have hw' := hw
    simp only [Csg.wf, Bool.and_eq_true, decide_eq_true_eq] at hw'
    unfold Csg.eval at h
    cases share with
    | none =>
      simp only [Bool.false_eq_true, if_false, Option.isNone_none, Bool.true_and] at h
      by_cases hc : (col && decide (op = pop)) = true
      · rw [if_pos hc] at h
        obtain ⟨sp, hpos⟩ := Kids.eval_spec kids op hn true memo o hw'.2 h
        refine ⟨⟨?_, ?_, sp.sub⟩, hpos (Or.inl rfl) hw'.1⟩
        · simpa [Csg.numLeaves] using sp.le
        · intro ht
          simp only [Csg.isTree, Bool.and_eq_true] at ht
          simpa [Csg.numLeaves] using sp.eq ht.2
      · rw [if_neg hc] at h
        cases hk : kids.eval op true true memo with
        | none => simp [hk] at h
        | some ok =>
          simp only [hk] at h
          cases hf : finalizeCredits op ok.pos ok.neg with
          | none => simp [hf] at h
          | some f =>
            simp only [hf, Option.some.injEq] at h
            subst h
            obtain ⟨sp, hpos⟩ := Kids.eval_spec kids op true true memo ok hw'.2 hk
            exact finalize_case (share := none) (hit := by simp) hw'.1 sp (hpos (Or.inl rfl) hw'.1) hf
    | some id =>
      simp only [Option.isNone_some, Bool.false_and, Bool.false_eq_true, if_false] at h
      by_cases hm : id ∈ memo
      · simp only [hm, decide_true, if_true, Option.some.injEq] at h
        subst h
        refine ⟨⟨?_, ?_, fun _ hx => hx⟩, Nat.le_refl 1⟩
        · simp [Csg.numLeaves, hm]
        · simp [Csg.isTree]
      · simp only [hm, decide_false, Bool.false_eq_true, if_false] at h
        cases hk : kids.eval op true true memo with
        | none => simp [hk] at h
        | some ok =>
          simp only [hk] at h
          cases hf : finalizeCredits op ok.pos ok.neg with
          | none => simp [hf] at h
          | some f =>
            simp only [hf, Option.some.injEq] at h
            subst h
            obtain ⟨sp, hpos⟩ := Kids.eval_spec kids op true true memo ok hw'.2 hk
            exact finalize_case (share := some id) (hit := by simpa using hm) hw'.1 sp (hpos (Or.inl rfl) hw'.1) hf
theorem Kids.eval_spec : ∀ (ks : Kids) (op : Op) (hn first : Bool) (memo : List Nat) (o : Out),
    ks.wf = true → ks.eval op hn first memo = some o →
    EvalSpec (ks.numLeaves memo) memo ks.isTree o ∧
      ((first = true ∨ op ≠ .subtract) → 1 ≤ ks.length → 1 ≤ o.pos)
  | .nil, _, _, _, memo, o, _, h => by
    simp only [Kids.eval, Option.some.injEq] at h
    subst h
    exact ⟨⟨by simp [Kids.numLeaves], by simp [Kids.numLeaves], fun _ hx => hx⟩, by simp [Kids.length]⟩
  | .cons t ks, op, hn, first, memo, o, hw, h => by
    simp only [Kids.wf, Bool.and_eq_true] at hw
    unfold Kids.eval at h
    simp only at h
    generalize hN : (decide (op = Op.subtract) && !first) = negative at h
    generalize hC : (decide (op = Op.subtract) && first && hn) = chn at h
    split at h
    · simp at h
    · cases ht : t.eval (if negative = true then Op.add else op) chn memo with
      | none => simp [ht] at h
      | some a =>
        simp only [ht] at h
        split at h
        · simp at h
        · cases hk : ks.eval op hn false a.memo with
          | none => simp [hk] at h
          | some b =>
            simp only [hk] at h
            obtain ⟨sa, hpa⟩ := Csg.eval_spec t _ _ memo a hw.1 ht
            obtain ⟨sb, _⟩ := Kids.eval_spec ks op hn false a.memo b hw.2 hk
            have hmono := Kids.numLeaves_mono ks memo a.memo hw.2 sa.sub
            have hsub : ∀ x ∈ memo, x ∈ b.memo := fun x hx => sb.sub x (sa.sub x hx)
            have hle := sa.le
            have hle2 := sb.le
            have heq : (Kids.cons t ks).isTree = true →
                a.pos + a.neg + a.credits + (b.pos + b.neg + b.credits) = (Kids.cons t ks).numLeaves memo ∧ b.memo = memo := by
              intro htr
              simp only [Kids.isTree, Bool.and_eq_true] at htr
              have ea := sa.eq htr.1
              have eb := sb.eq htr.2
              rw [ea.2] at eb
              simp only [Kids.numLeaves]
              exact ⟨by omega, eb.2⟩
            cases negative with
            | true =>
              simp only [if_true, Option.some.injEq] at h
              subst h
              refine ⟨⟨?_, ?_, hsub⟩, ?_⟩
              · simp only [Kids.numLeaves]; omega
              · intro htr
                have := heq htr
                exact ⟨by simp only; omega, this.2⟩
              · intro hfo
                simp only [Bool.and_eq_true, decide_eq_true_eq, Bool.not_eq_true'] at hN
                rcases hfo with hf | hf
                · simp [hf] at hN
                · exact absurd hN.1 hf
            | false =>
              simp only [Bool.false_eq_true, if_false, Option.some.injEq] at h
              subst h
              refine ⟨⟨?_, ?_, hsub⟩, ?_⟩
              · simp only [Kids.numLeaves]; omega
              · intro htr
                have := heq htr
                exact ⟨by simp only; omega, this.2⟩
              · intro _ _
                simp only
                omega
end

/-! ## 4. cancellation -/

theorem tick_zero : tick (some 0) = (true, some 0) := rfl
theorem tick_none : tick none = (false, none) := rfl

theorem tick_true {f f' : Fuel} (h : tick f = (true, f')) : f = some 0 ∧ f' = some 0 := by
  cases f with
  | none => simp [tick] at h
  | some n => cases n with
    | zero => simp [tick] at h; exact ⟨rfl, h.symm⟩
    | succ n => simp [tick] at h

theorem runLoop_none (n : Nat) : runLoop n none = (true, none) := by
  induction n with
  | zero => rfl
  | succ n ih => simp [runLoop, tick, ih]

theorem runLoop_false {n : Nat} {f f' : Fuel} (h : runLoop n f = (false, f')) : f' = some 0 := by
  induction n generalizing f with
  | zero => simp [runLoop] at h
  | succ n ih =>
    unfold runLoop at h
    cases ht : tick f with
    | mk c f1 =>
      cases c with
      | true => simp [ht] at h; rw [← h]; exact (tick_true ht).2
      | false => simp [ht] at h; exact ih h

theorem runLoop_zero_fuel (n : Nat) : (runLoop n (some 0)).2 = some 0 := by
  cases n with
  | zero => rfl
  | succ n => simp [runLoop, tick]

/-- the flag is sticky: once seen, every later `check` aborts -/
theorem exec_cancelled_of_check (p : List Stmt) (b : Built) (h : p.contains .check = true) :
    (exec p (some 0) b).1 = .cancelled := by
  induction p generalizing b with
  | nil => simp at h
  | cons s rest ih =>
    cases s with
    | work id =>
      simp only [exec]
      apply ih
      simpa using h
    | loop id n =>
      have hr : rest.contains .check = true := by simpa using h
      simp only [exec]
      have h0 := runLoop_zero_fuel n
      cases hl : runLoop n (some 0) with
      | mk c f1 =>
        rw [hl] at h0
        simp only at h0
        subst h0
        cases c <;> simp only <;> exact ih _ hr
    | check => simp [exec, tick]

theorem exec_all_or_nothing (p : List Stmt) (hg : guarded p = true) (f : Fuel) (b : Built) :
    (exec p f b).1 = .cancelled ∨ (exec p f b).1 = (exec p none b).1 := by
  induction p generalizing f b with
  | nil => right; rfl
  | cons s rest ih =>
    cases s with
    | work id =>
      simp only [exec]
      exact ih (by simpa [guarded] using hg) f _
    | loop id n =>
      simp only [guarded, Bool.and_eq_true] at hg
      simp only [exec, runLoop_none]
      cases hl : runLoop n f with
      | mk c f1 =>
        cases c with
        | true => simp only; exact ih hg.2 f1 _
        | false =>
          simp only
          have := runLoop_false hl
          subst this
          left
          exact exec_cancelled_of_check rest _ hg.1
    | check =>
      simp only [exec, tick_none]
      cases ht : tick f with
      | mk c f1 =>
        cases c with
        | true => left; rfl
        | false => simp only; exact ih (by simpa [guarded] using hg) f1 b

/-- an uncancelled run never produces partial output -/
theorem exec_none_not_partial (p : List Stmt) (b : Built) :
    ∃ b', (exec p none b).1 = .value b' ∧ b'.partialOutput = b.partialOutput := by
  induction p generalizing b with
  | nil => exact ⟨b, rfl, rfl⟩
  | cons s rest ih =>
    cases s with
    | work id => simp only [exec]; exact ih _
    | loop id n => simp only [exec, runLoop_none]; exact ih _
    | check => simp only [exec, tick_none]; exact ih _

theorem ticks_none (n : Nat) : ticks n none = (false, none) := by
  induction n with
  | zero => rfl
  | succ n ih => simp [ticks, tick, ih]

theorem ticks_true {n : Nat} {f f' : Fuel} (h : ticks n f = (true, f')) : f' = some 0 := by
  induction n generalizing f with
  | zero => simp [ticks] at h
  | succ n ih =>
    unfold ticks at h
    cases ht : tick f with
    | mk c f1 =>
      cases c with
      | true => simp [ht] at h; rw [← h]; exact (tick_true ht).2
      | false => simp [ht] at h; exact ih h

theorem poisonPending_doneClosed : ∀ (ks : CKids), ks.doneClosed = true → ks.poisonPending.doneClosed = true
  | .nil, _ => by simp [CKids.poisonPending, CKids.doneClosed]
  | .cons t ks, h => by
    simp only [CKids.doneClosed, Bool.and_eq_true] at h
    have ih := poisonPending_doneClosed ks h.2
    simp only [CKids.poisonPending, CKids.doneClosed, Bool.and_eq_true]
    refine ⟨?_, ih⟩
    cases t with
    | leaf => simp [CTree.doneClosed]
    | node c n kids =>
      cases c
      · simp only [CTree.doneClosed, Bool.and_eq_true, Bool.or_eq_true] at h ⊢
        exact ⟨Or.inl (by simp), h.1.2⟩
      · exact h.1
      · exact h.1

mutual
theorem CTree.doneClosed_of_allDone : ∀ (t : CTree), t.allDone = true → t.doneClosed = true
  | .leaf, _ => by simp [CTree.doneClosed]
  | .node c n kids, h => by
    simp only [CTree.allDone, Bool.and_eq_true, decide_eq_true_eq] at h
    simp only [CTree.doneClosed, Bool.and_eq_true, Bool.or_eq_true]
    exact ⟨Or.inr h.2, CKids.doneClosed_of_allDone kids h.2⟩
theorem CKids.doneClosed_of_allDone : ∀ (ks : CKids), ks.allDone = true → ks.doneClosed = true
  | .nil, _ => by simp [CKids.doneClosed]
  | .cons t ks, h => by
    simp only [CKids.allDone, Bool.and_eq_true] at h
    simp only [CKids.doneClosed, Bool.and_eq_true]
    exact ⟨CTree.doneClosed_of_allDone t h.1, CKids.doneClosed_of_allDone ks h.2⟩
end

/-- what one evaluation does to a node, for every fuel -/
structure EvalC (f : Fuel) (c : Bool) (f' : Fuel) : Prop where
  fuel : c = true → f' = some 0

mutual
theorem CTree.eval_spec : ∀ (t : CTree) (f : Fuel), t.clean = true → t.doneClosed = true →
    ((t.eval f).1 = false → (t.eval f).2.2 = (t.eval none).2.2 ∧ (t.eval f).2.2.allDone = true) ∧
    ((t.eval f).1 = true → (t.eval f).2.1 = some 0 ∧ (t.eval f).2.2.cacheOf = .cancelled ∧ (t.eval f).2.2.doneClosed = true) ∧
    (t.eval none).1 = false ∧ (t.eval none).2.1 = none
  | .leaf, f, _, _ => by simp [CTree.eval, CTree.allDone]
  | .node c n kids, f, hc, hd => by
    simp only [CTree.clean, Bool.and_eq_true, decide_eq_true_eq] at hc
    simp only [CTree.doneClosed, Bool.and_eq_true, Bool.or_eq_true, decide_eq_true_eq] at hd
    cases c with
    | cancelled => exact absurd rfl hc.1
    | done =>
      have : kids.allDone = true := by
        rcases hd.1 with h | h
        · exact absurd rfl h
        · exact h
      simp [CTree.eval, CTree.allDone, this]
    | empty =>
      obtain ⟨ih1, ih2, ih3, ih4⟩ := CKids.eval_spec kids f hc.2 hd.2
      have e0 : (CTree.node Cache.empty n kids).eval none = (false, none, .node .done n (kids.eval none).2.2) := by
        simp only [CTree.eval]
        cases hk : kids.eval none with
        | mk c0 r0 =>
          cases r0 with
          | mk f0 k0 =>
            rw [hk] at ih3 ih4
            simp only at ih3 ih4
            subst ih3; subst ih4
            simp [ticks_none]
      rw [e0]
      simp only [CTree.eval]
      cases hk : kids.eval f with
      | mk c1 r1 =>
        cases r1 with
        | mk f1 k1 =>
          rw [hk] at ih1 ih2
          simp only at ih1 ih2
          cases c1 with
          | true =>
            obtain ⟨hf, hdc⟩ := ih2 rfl
            simp only [CTree.cacheOf, CTree.doneClosed, Bool.and_eq_true, Bool.or_eq_true, decide_eq_true_eq]
            refine ⟨by simp, fun _ => ⟨hf, trivial, Or.inl (by simp), hdc⟩, by first | rfl | trivial, by first | rfl | trivial⟩
          | false =>
            obtain ⟨hk1, had⟩ := ih1 rfl
            simp only
            cases ht : ticks (n + 1) f1 with
            | mk c2 f2 =>
              cases c2 with
              | true =>
                have := ticks_true ht
                simp only [CTree.cacheOf, CTree.doneClosed, Bool.and_eq_true, Bool.or_eq_true, decide_eq_true_eq]
                refine ⟨by simp, fun _ => ⟨this, trivial, Or.inl (by simp), ?_⟩, by first | rfl | trivial, by first | rfl | trivial⟩
                exact CKids.doneClosed_of_allDone k1 had
              | false =>
                simp only [CTree.allDone, Bool.and_eq_true, decide_eq_true_eq]
                refine ⟨fun _ => ⟨by rw [hk1], trivial, had⟩, by simp, by first | rfl | trivial, by first | rfl | trivial⟩
theorem CKids.eval_spec : ∀ (ks : CKids) (f : Fuel), ks.clean = true → ks.doneClosed = true →
    ((ks.eval f).1 = false → (ks.eval f).2.2 = (ks.eval none).2.2 ∧ (ks.eval f).2.2.allDone = true) ∧
    ((ks.eval f).1 = true → (ks.eval f).2.1 = some 0 ∧ (ks.eval f).2.2.doneClosed = true) ∧
    (ks.eval none).1 = false ∧ (ks.eval none).2.1 = none
  | .nil, f, _, _ => by simp [CKids.eval, CKids.allDone]
  | .cons t ks, f, hc, hd => by
    simp only [CKids.clean, Bool.and_eq_true] at hc
    simp only [CKids.doneClosed, Bool.and_eq_true] at hd
    obtain ⟨t1, t2, t3, t4⟩ := CTree.eval_spec t f hc.1 hd.1
    have e0 : (CKids.cons t ks).eval none = ((ks.eval none).1, (ks.eval none).2.1, .cons (t.eval none).2.2 (ks.eval none).2.2) := by
      simp only [CKids.eval]
      cases hk : t.eval none with
      | mk c0 r0 =>
        cases r0 with
        | mk f0 k0 =>
          rw [hk] at t3 t4
          simp only at t3 t4
          subst t3; subst t4
          simp
    obtain ⟨_, _, k03, k04⟩ := CKids.eval_spec ks none hc.2 hd.2
    rw [e0]
    simp only [CKids.eval]
    cases ht : t.eval f with
    | mk c1 r1 =>
      cases r1 with
      | mk f1 t' =>
        rw [ht] at t1 t2
        simp only at t1 t2
        cases c1 with
        | true =>
          obtain ⟨hf, _, hdc⟩ := t2 rfl
          simp only [CKids.doneClosed, Bool.and_eq_true]
          exact ⟨by simp, fun _ => ⟨hf, hdc, poisonPending_doneClosed ks hd.2⟩, k03, k04⟩
        | false =>
          obtain ⟨ht1, had⟩ := t1 rfl
          simp only
          obtain ⟨k1, k2, _, _⟩ := CKids.eval_spec ks f1 hc.2 hd.2
          cases hk : ks.eval f1 with
          | mk c2 r2 =>
            cases r2 with
            | mk f2 ks' =>
              rw [hk] at k1 k2
              simp only at k1 k2
              simp only [CKids.allDone, CKids.doneClosed, Bool.and_eq_true]
              refine ⟨fun h2 => ?_, fun h2 => ?_, k03, k04⟩
              · obtain ⟨e, a⟩ := k1 h2
                exact ⟨by rw [ht1, e], had, a⟩
              · obtain ⟨e, a⟩ := k2 h2
                exact ⟨e, CTree.doneClosed_of_allDone t' had, a⟩
end

end MV.Progress
