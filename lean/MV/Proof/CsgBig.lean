import MV.Proof.CsgSem
/-
Big-step lemmas for the stack machine.
-/
set_option autoImplicit false
namespace MV.Csg
open SolidAlg XfAct

variable {M S : Type} [One M] [Mul M]

/-- `k` iterations lead from `σ` to `σ'`, emitting `ev'`, without undefined behaviour, keeping
the store well-formed -/
structure Big (σ σ' : EvalState M) (k : Nat) (ev' : List (Event M)) : Prop where
  run : run k σ = σ'
  ub : σ'.ub = σ.ub
  evs : σ'.evs = σ.evs ++ ev'
  wf : WFs σ'.st
  ext : Ext σ.st σ'.st

theorem Big.refl {σ : EvalState M} (hwf : WFs σ.st) : Big σ σ 0 [] where
  run := rfl
  ub := rfl
  evs := by simp
  wf := hwf
  ext := Ext.refl _

theorem Big.trans {σ σ1 σ2 : EvalState M} {k1 k2 : Nat} {e1 e2 : List (Event M)}
    (a : Big σ σ1 k1 e1) (b : Big σ1 σ2 k2 e2) : Big σ σ2 (k1 + k2) (e1 ++ e2) where
  run := by rw [run_add, a.run, b.run]
  ub := b.ub.trans a.ub
  evs := by rw [b.evs, a.evs, List.append_assoc]
  wf := b.wf
  ext := a.ext.trans b.ext

section
variable [SolidAlg S] [XfAct M S]

theorem Respects_nil (L : Val S) : Respects L ([] : List (Event M)) := by
  intro e he; simp at he

theorem Respects_append (L : Val S) (a b : List (Event M)) :
    Respects L (a ++ b) ↔ Respects L a ∧ Respects L b := by
  simp only [Respects, List.mem_append]
  constructor
  · intro h; exact ⟨fun e he => h e (Or.inl he), fun e he => h e (Or.inr he)⟩
  · rintro ⟨h1, h2⟩ e (he | he)
    · exact h1 e he
    · exact h2 e he

/-- the value of what the finalize `switch` stores is the value of the operation, by the laws
when an operand is returned unchanged -/
theorem finalizeResult_sem (L : Val S) (fr : Leaf M) (o : Op) (pos neg : List (Leaf M))
    (hpos : pos ≠ []) :
    (finalizeResult fr o pos neg).2.2 = false ∧
    ((finalizeResult fr o pos neg).2.1 = false →
      L.leaf (finalizeResult fr o pos neg).1 = evSem L o pos neg) := by
  cases pos with
  | nil => exact absurd rfl hpos
  | cons x xs =>
    cases o with
    | add =>
      cases xs with
      | nil => simp [finalizeResult, batchUnion, evSem, Val.leaves, union_empty]
      | cons y ys => simp [finalizeResult, batchUnion]
    | int =>
      cases xs with
      | nil => simp [finalizeResult, evSem, Val.leaves, bigI, bigIo]
      | cons y ys => simp [finalizeResult]
    | sub =>
      cases xs with
      | nil =>
        cases neg with
        | nil => simp [finalizeResult, batchUnion, evSem, Val.leaves, union_empty, diff_empty]
        | cons z zs => simp [finalizeResult]
      | cons y ys =>
        cases neg with
        | nil => simp [finalizeResult, batchUnion]
        | cons z zs => simp [finalizeResult]

/-- specification of the complete processing of one pending frame whose node has impl id
`< r`: the frame disappears, its pushes `log` go through its two pointers, and they add up
to the value of its node moved by the frame transform -/
def VisitSpec (S : Type) [SolidAlg S] [XfAct M S] (r : Nat) : Prop :=
  ∀ (σ : EvalState M) (G : Frame M) (rest : List (Frame M)) (i : Nat) (o : Op) (nxf : M)
    (cache : Option Nat) (d1 : Dest),
    σ.stack = G :: rest → WFs σ.st → σ.st.nodes[G.node]? = some (Node.op i o nxf cache) →
    i < r → FrameOK G rest.length → G.posDest = some d1 →
    ∃ (k : Nat) (log : List (Push M)) (ev' : List (Event M)) (σ' : EvalState M),
      Big σ σ' k ev' ∧ k ≤ cost σ.st G.node ∧ σ'.stack = applyPushes rest log ∧ LogOK G log ∧
      ∀ (L : Val S), Respects L ev' → CacheOK L σ.st →
        SemExt L σ.st σ'.st ∧ CacheOK L σ'.st ∧
        Contract L G.parentOp d1 G.negDest (act G.xf (denote L σ.st G.node)) log

/-- processing all frames `Gs` (creation order; the last one is on top) -/
theorem frames_big (r : Nat) (IH : VisitSpec (M := M) S r) :
    ∀ (Gs : List (Frame M)) (σ : EvalState M) (base : List (Frame M)),
      σ.stack = Gs.reverse ++ base → WFs σ.st →
      (∀ G ∈ Gs, FrameOK G base.length ∧
        ∃ i o nxf cache, σ.st.nodes[G.node]? = some (Node.op i o nxf cache) ∧ i < r) →
      ∃ (k : Nat) (logs : List (List (Push M))) (ev' : List (Event M)) (σ' : EvalState M),
        Big σ σ' k ev' ∧ k ≤ (Gs.map (fun G => cost σ.st G.node)).sum ∧
        σ'.stack = applyPushes base logs.reverse.flatten ∧ All2 LogOK Gs logs ∧
        ∀ (L : Val S), Respects L ev' → CacheOK L σ.st →
          SemExt L σ.st σ'.st ∧ CacheOK L σ'.st ∧
          All2 (fun G log => LogOK G log ∧ ∃ d1, G.posDest = some d1 ∧
            Contract L G.parentOp d1 G.negDest (act G.xf (denote L σ.st G.node)) log) Gs logs := by
  intro Gs
  induction Gs with
  | nil =>
    intro σ base hs hwf _
    refine ⟨0, [], [], σ, Big.refl hwf, by simp, by simpa using hs, .nil, ?_⟩
    intro L _ hc
    exact ⟨SemExt.refl L _, hc, .nil⟩
  | cons G1 Gs' ih =>
    intro σ base hs hwf hG
    have hs' : σ.stack = Gs'.reverse ++ (G1 :: base) := by simpa using hs
    obtain ⟨hG1, i1, o1, nxf1, cache1, hn1, hi1⟩ := hG G1 (by simp)
    have hG' : ∀ G ∈ Gs', FrameOK G base.length ∧
        ∃ i o nxf cache, σ.st.nodes[G.node]? = some (Node.op i o nxf cache) ∧ i < r :=
      fun G h => hG G (by simp [h])
    obtain ⟨k', logs', ev1, σ1, big1, hk', hst1, hlog1, hsem1⟩ :=
      ih σ (G1 :: base) hs' hwf (fun G h => ⟨(hG' G h).1.mono (by simp), (hG' G h).2⟩)
    have hdepth : ∀ e ∈ logs'.reverse.flatten, e.1.depth < base.length :=
      hlog1.depth (fun G h => (hG' G h).1)
    rw [applyPushes_stack_cons _ _ _ hdepth] at hst1
    obtain ⟨c1', hn1'⟩ := big1.ext.op hn1
    obtain ⟨d1, hd1, _⟩ := hG1.d1
    obtain ⟨k1, log1, ev2, σ2, big2, hk1, hst2, hlog2, hsem2⟩ :=
      IH σ1 G1 (applyPushes base logs'.reverse.flatten) i1 o1 nxf1 c1' d1 hst1 big1.wf hn1' hi1
        (by simpa using hG1) hd1
    refine ⟨k' + k1, log1 :: logs', ev1 ++ ev2, σ2, big1.trans big2, ?_, ?_, .cons hlog2 hlog1, ?_⟩
    · have := big1.ext.cost G1.node
      simp only [List.map_cons, List.sum_cons]
      omega
    · rw [hst2, ← applyPushes_append]
      simp
    · intro L hL hc
      obtain ⟨hL1, hL2⟩ := (Respects_append L _ _).1 hL
      obtain ⟨s1, c1, a1⟩ := hsem1 L hL1 hc
      obtain ⟨s2, c2, a2⟩ := hsem2 L hL2 c1
      refine ⟨SemExt.trans big1.ext s1 s2, c2, .cons ⟨hlog2, d1, hd1, ?_⟩ a1⟩
      rw [← s1 G1.node (List.getElem?_eq_some_iff.1 hn1).1]
      exact a2

end
end MV.Csg
