/-
`CreateRadixTree` builds Karras' tree: blocks, owners, `RangeEnd`, `FindSplit`, and the
well-formedness of the produced arrays (`radixTree_wf`).
-/
import MV.Proof.ColliderBase
import MV.Proof.ColliderDelta

namespace MV.Collider

/-! ## the three loops -/

/-- binary search of `RangeEnd`: with `step = 2^e` and the invariant
`(length = 0 ∨ P length) ∧ ¬ P (length + 2*step)` the result `r` satisfies
`(r = 0 ∨ P r) ∧ ¬ P (r+1)`.  (No monotonicity needed.) -/
theorem searchLength_spec (codes : Array Nat) (i dir cp : Int) :
    ∀ (e length : Nat),
      (length = 0 ∨ prefixLength codes i (i + dir * (length : Int)) > cp) →
      ¬ prefixLength codes i (i + dir * ((length + 2 ^ (e + 1) : Nat) : Int)) > cp →
      (searchLength codes i dir cp (2 ^ e) length = 0 ∨
        prefixLength codes i (i + dir * (searchLength codes i dir cp (2 ^ e) length : Int)) > cp) ∧
      ¬ prefixLength codes i
          (i + dir * ((searchLength codes i dir cp (2 ^ e) length + 1 : Nat) : Int)) > cp := by
  intro e
  induction e with
  | zero =>
    intro length h1 h2
    rw [searchLength]
    simp only [Nat.pow_zero, gt_iff_lt, Nat.zero_lt_one, dite_true]
    rw [searchLength]
    simp only [show ¬ (1 / 2 > 0) by decide, dite_false]
    simp only [Nat.zero_add, Nat.pow_one] at h2
    split
    · rename_i hp
      exact ⟨Or.inr hp, h2⟩
    · rename_i hp
      exact ⟨h1, hp⟩
  | succ e ih =>
    intro length h1 h2
    rw [searchLength]
    have hpos : 2 ^ (e + 1) > 0 := Nat.pow_pos (by decide)
    have hhalf : 2 ^ (e + 1) / 2 = 2 ^ e := by
      rw [Nat.pow_succ]; omega
    simp only [hpos, dite_true, hhalf]
    split
    · rename_i hp
      apply ih
      · exact Or.inr hp
      · have : length + 2 ^ (e + 1) + 2 ^ (e + 1) = length + 2 ^ (e + 1 + 1) := by
          rw [Nat.pow_succ 2 (e + 1)]; omega
        rw [this]; exact h2
    · rename_i hp
      apply ih
      · exact h1
      · exact hp

/-- exponential growth of `RangeEnd`: the result is a power of two `≥` the start at which the
predicate fails, provided it fails everywhere from `B` on and `B ≤ m + fuel`. -/
theorem growLength_spec (codes : Array Nat) (i dir cp : Int) (B : Nat)
    (hB : ∀ x : Nat, B ≤ x → ¬ prefixLength codes i (i + dir * (x : Int)) > cp) :
    ∀ (fuel m e : Nat), m = 2 ^ e → B ≤ m + fuel →
      ∃ e', e ≤ e' ∧ growLength codes i dir cp fuel m = 2 ^ e' ∧
        ¬ prefixLength codes i (i + dir * ((2 ^ e' : Nat) : Int)) > cp := by
  intro fuel
  induction fuel with
  | zero =>
    intro m e hm hb
    refine ⟨e, Nat.le_refl _, by simp [growLength, hm], ?_⟩
    rw [← hm]; exact hB m (by omega)
  | succ f ih =>
    intro m e hm hb
    rw [growLength]
    split
    · have hm4 : m * kLengthMultiple = 2 ^ (e + 2) := by
        rw [hm, kLengthMultiple, Nat.pow_add]
      have hpos : 0 < m := by rw [hm]; exact Nat.pow_pos (by decide)
      obtain ⟨e', h1, h2, h3⟩ := ih (m * kLengthMultiple) (e + 2) hm4
        (by simp only [kLengthMultiple]; omega)
      exact ⟨e', by omega, h2, h3⟩
    · rename_i hp
      exact ⟨e, Nat.le_refl _, hm, by rw [← hm]; exact hp⟩

/-- binary search of `FindSplit`.  `P x := x < last ∧ δ(first,x) > cp` is antitone from
`first` on; started with `¬ P (split + step)` it returns `γ` with `(γ = split₀ ∨ P γ)`-style
invariant and `¬ P (γ + 1)`. -/
theorem splitLoop_spec (codes : Array Nat) (first last cp : Int)
    (hmono : ∀ x y : Int, first ≤ x → x ≤ y →
      (y < last ∧ prefixLength codes first y > cp) → (x < last ∧ prefixLength codes first x > cp)) :
    ∀ (step : Nat) (split : Int), 1 ≤ step → first ≤ split →
      (split = first ∨ (split < last ∧ prefixLength codes first split > cp)) →
      ¬ (split + (step : Int) < last ∧ prefixLength codes first (split + (step : Int)) > cp) →
      first ≤ splitLoop codes first last cp step split ∧
      (splitLoop codes first last cp step split = first ∨
        (splitLoop codes first last cp step split < last ∧
          prefixLength codes first (splitLoop codes first last cp step split) > cp)) ∧
      ¬ (splitLoop codes first last cp step split + 1 < last ∧
          prefixLength codes first (splitLoop codes first last cp step split + 1) > cp) := by
  intro step
  induction step using Nat.strongRecOn with
  | _ step ih =>
    intro split hstep hfs hinv hnot
    rw [splitLoop]
    have hs1 : 1 ≤ (step + 1) / 2 := by omega
    have hs2 : step ≤ 2 * ((step + 1) / 2) := by omega
    -- the state after one iteration
    have key : ∀ split' : Int,
        split' = (if split + (((step + 1) / 2 : Nat) : Int) < last ∧
            prefixLength codes first (split + (((step + 1) / 2 : Nat) : Int)) > cp
          then split + (((step + 1) / 2 : Nat) : Int) else split) →
        first ≤ split' ∧
        (split' = first ∨ (split' < last ∧ prefixLength codes first split' > cp)) ∧
        ¬ (split' + (((step + 1) / 2 : Nat) : Int) < last ∧
            prefixLength codes first (split' + (((step + 1) / 2 : Nat) : Int)) > cp) := by
      intro split' hdef
      split at hdef
      · rename_i hp
        subst hdef
        refine ⟨by omega, Or.inr hp, ?_⟩
        intro hq
        apply hnot
        exact hmono _ _ (by omega) (by omega) hq
      · rename_i hp
        subst hdef
        exact ⟨hfs, hinv, hp⟩
    split
    · rename_i hgt
      obtain ⟨k1, k2, k3⟩ := key _ rfl
      exact ih ((step + 1) / 2) (by omega) _ hs1 k1 k2 k3
    · rename_i hgt
      have h1 : (((step + 1) / 2 : Nat) : Int) = 1 := by omega
      obtain ⟨k1, k2, k3⟩ := key _ rfl
      refine ⟨k1, k2, ?_⟩
      generalize (if split + (((step + 1) / 2 : Nat) : Int) < last ∧
            prefixLength codes first (split + (((step + 1) / 2 : Nat) : Int)) > cp
          then split + (((step + 1) / 2 : Nat) : Int) else split) = s' at k3 ⊢
      rw [h1] at k3
      exact k3

/-! ## δ facts in the form used below -/

section Blocks
variable {codes : Array Nat}

theorem pl_ge (i j : Int) : -1 ≤ prefixLength codes i j := by
  by_cases h : j < 0 ∨ (codes.size : Int) ≤ j
  · rw [prefixLength_out h]; omega
  · have := (prefixLength_bounds (codes := codes) (i := i) (j := j) (by omega) (by omega)).1
    omega

theorem delta_le_left (hs : Sorted codes) (hn : codes.size < 2 ^ 32) {i j k : Int}
    (hi0 : 0 ≤ i) (hij : i ≤ j) (hjk : j ≤ k) (hk : k < codes.size) :
    prefixLength codes i k ≤ prefixLength codes i j := by
  rw [delta_min hs hn hi0 hij hjk hk]; exact Int.min_le_left _ _

theorem delta_le_right (hs : Sorted codes) (hn : codes.size < 2 ^ 32) {i j k : Int}
    (hi0 : 0 ≤ i) (hij : i ≤ j) (hjk : j ≤ k) (hk : k < codes.size) :
    prefixLength codes i k ≤ prefixLength codes j k := by
  rw [delta_min hs hn hi0 hij hjk hk]; exact Int.min_le_right _ _

/-- along either direction the prefix length with `i` does not increase with the distance -/
theorem pl_mono_dir (hs : Sorted codes) (hn : codes.size < 2 ^ 32) {i : Int}
    (hi0 : 0 ≤ i) (hi : i < codes.size) {dir : Int} (hdir : dir = 1 ∨ dir = -1)
    {x y : Nat} (hx : 1 ≤ x) (hxy : x ≤ y) {cp : Int} (hcp : -1 ≤ cp)
    (h : prefixLength codes i (i + dir * (y : Int)) > cp) :
    prefixLength codes i (i + dir * (x : Int)) > cp := by
  rcases hdir with rfl | rfl
  · by_cases hy : i + 1 * (y : Int) < codes.size
    · have := delta_le_left hs hn (i := i) (j := i + 1 * (x : Int)) (k := i + 1 * (y : Int))
        hi0 (by omega) (by omega) hy
      omega
    · rw [prefixLength_out (Or.inr (by omega))] at h; omega
  · by_cases hy : 0 ≤ i + -1 * (y : Int)
    · have := delta_le_right hs hn (i := i + -1 * (y : Int)) (j := i + -1 * (x : Int)) (k := i)
        hy (by omega) (by omega) hi
      rw [prefixLength_symm hi0 hi hy (by omega)] at h
      rw [prefixLength_symm hi0 hi (by omega) (by omega)]
      omega
    · rw [prefixLength_out (Or.inl (by omega))] at h; omega

/-- `RangeEnd(i)` returns `i + dir*len` as soon as `len ≥ 1` is a position where the
comparison with `δmin = δ(i, i-dir)` flips. -/
theorem rangeEnd_eq (hs : Sorted codes) (hn : codes.size < 2 ^ 32) {i : Int}
    (hi0 : 0 ≤ i) (hi : i < codes.size) {dir : Int} (hdir : dir = 1 ∨ dir = -1)
    (hsign : sign (prefixLength codes i (i + 1) - prefixLength codes i (i - 1)) = dir)
    {len : Nat} (hlen : 1 ≤ len)
    (hP : prefixLength codes i (i + dir * (len : Int)) > prefixLength codes i (i - dir))
    (hnP : ¬ prefixLength codes i (i + dir * ((len + 1 : Nat) : Int)) >
      prefixLength codes i (i - dir)) :
    rangeEnd codes i = i + dir * (len : Int) := by
  unfold rangeEnd
  simp only [hsign]
  generalize hcp : prefixLength codes i (i - dir) = cp at *
  have hcp1 : -1 ≤ cp := by rw [← hcp]; exact pl_ge _ _
  have hB : ∀ x : Nat, codes.size ≤ x →
      ¬ prefixLength codes i (i + dir * (x : Int)) > cp := by
    intro x hx
    have : i + dir * (x : Int) < 0 ∨ (codes.size : Int) ≤ i + dir * (x : Int) := by
      rcases hdir with rfl | rfl <;> omega
    rw [prefixLength_out this]; omega
  obtain ⟨e', he, hg, hng⟩ := growLength_spec codes i dir cp codes.size hB codes.size
    kInitialLength 7 (by decide) (by omega)
  rw [hg]
  have hhalf : 2 ^ e' / 2 = 2 ^ (e' - 1) := by
    have : e' = (e' - 1) + 1 := by omega
    rw [this, Nat.pow_succ]; simp
  rw [hhalf]
  have h2 : ¬ prefixLength codes i (i + dir * ((0 + 2 ^ (e' - 1 + 1) : Nat) : Int)) > cp := by
    have : e' - 1 + 1 = e' := by omega
    rw [this, Nat.zero_add]; exact hng
  obtain ⟨r1, r2⟩ := searchLength_spec codes i dir cp (e' - 1) 0 (Or.inl rfl) h2
  generalize searchLength codes i dir cp (2 ^ (e' - 1)) 0 = r at r1 r2
  have hr : r = len := by
    have hmono := @pl_mono_dir codes hs hn i hi0 hi dir hdir
    -- P 1 holds
    have hP1 := hmono (x := 1) (y := len) (Nat.le_refl 1) hlen hcp1 hP
    rcases Nat.lt_trichotomy r len with hlt | heq | hgt
    · exfalso
      by_cases hr0 : r = 0
      · subst hr0; exact r2 hP1
      · exact r2 (hmono (x := r + 1) (y := len) (by omega) (by omega) hcp1 hP)
    · exact heq
    · exfalso
      rcases r1 with r1 | r1
      · omega
      · exact hnP (hmono (x := len + 1) (y := r) (by omega) (by omega) hcp1 r1)
  rw [hr]

/-- `FindSplit(first,last)` for `first < last`: the split `γ` lies in `[first, last-1]`, the
prefix across the split is exactly the block's prefix, and both halves share strictly more. -/
theorem findSplit_spec (hs : Sorted codes) (hn : codes.size < 2 ^ 32) {f l : Int}
    (hf0 : 0 ≤ f) (hfl : f < l) (hl : l < codes.size) :
    f ≤ findSplit codes f l ∧ findSplit codes f l < l ∧
    prefixLength codes (findSplit codes f l) (findSplit codes f l + 1) = prefixLength codes f l ∧
    (f < findSplit codes f l →
      prefixLength codes f (findSplit codes f l) > prefixLength codes f l) ∧
    (findSplit codes f l + 1 < l →
      prefixLength codes (findSplit codes f l + 1) l > prefixLength codes f l) := by
  unfold findSplit
  generalize hcp : prefixLength codes f l = cp
  have hcp63 : cp ≤ 63 := by
    rw [← hcp]
    exact (prefixLength_range hs hn hf0 (by omega) (by omega) hl (by omega)).2
  have hmono : ∀ x y : Int, f ≤ x → x ≤ y →
      (y < l ∧ prefixLength codes f y > cp) → (x < l ∧ prefixLength codes f x > cp) := by
    intro x y hx hxy ⟨hy, hp⟩
    have := delta_le_left hs hn (i := f) (j := x) (k := y) hf0 hx hxy (by omega)
    exact ⟨by omega, by omega⟩
  have hstep : ((l - f).toNat : Int) = l - f := by omega
  obtain ⟨g1, g2, g3⟩ := splitLoop_spec codes f l cp hmono (l - f).toNat f (by omega)
    (Int.le_refl _) (Or.inl rfl) (by rw [hstep]; intro h; omega)
  generalize splitLoop codes f l cp (l - f).toNat f = γ at g1 g2 g3
  have hγl : γ < l := by
    rcases g2 with g2 | g2
    · omega
    · exact g2.1
  have hfγ : prefixLength codes f γ > cp := by
    rcases g2 with g2 | g2
    · rw [g2, prefixLength_self hf0 (by omega)]; omega
    · exact g2.2
  -- δ(f, γ+1) = cp
  have hle : prefixLength codes f (γ + 1) ≤ cp := by
    by_cases h : γ + 1 < l
    · have : ¬ prefixLength codes f (γ + 1) > cp := fun hp => g3 ⟨h, hp⟩
      omega
    · have : γ + 1 = l := by omega
      rw [this, hcp]; exact Int.le_refl _
  have hge : cp ≤ prefixLength codes f (γ + 1) := by
    rw [← hcp]
    exact delta_le_left hs hn hf0 (by omega) (by omega) hl
  have hmin := delta_min hs hn (i := f) (j := γ) (k := γ + 1) hf0 g1 (by omega) (by omega)
  have hsplit : prefixLength codes γ (γ + 1) = cp := by
    rw [Int.min_def] at hmin
    split at hmin <;> omega
  refine ⟨g1, hγl, hsplit, fun _ => hfγ, ?_⟩
  intro hlt
  have hne := delta_ne hs hn (i := γ) (j := γ + 1) (k := l) (by omega) (by omega) hlt hl
  have hge2 : cp ≤ prefixLength codes (γ + 1) l := by
    rw [← hcp]
    exact delta_le_right hs hn hf0 (by omega) (by omega) hl
  omega

/-- a *block*: a run of at least two consecutive leaves whose common prefix is strictly longer
than the prefix shared with either outer neighbour (`-1` outside the array) -/
def IsBlock (codes : Array Nat) (f l : Int) : Prop :=
  0 ≤ f ∧ f < l ∧ l < codes.size ∧
  prefixLength codes f l > prefixLength codes f (f - 1) ∧
  prefixLength codes f l > prefixLength codes l (l + 1)

/-- the internal node that owns the block: the end whose outer neighbour is closer -/
def owner (codes : Array Nat) (f l : Int) : Int :=
  if prefixLength codes f (f - 1) ≥ prefixLength codes l (l + 1) then f else l

theorem isBlock_root (hs : Sorted codes) (hn : codes.size < 2 ^ 32) (h2 : 2 ≤ codes.size) :
    IsBlock codes 0 ((codes.size : Int) - 1) ∧ owner codes 0 ((codes.size : Int) - 1) = 0 := by
  have e1 : prefixLength codes 0 (0 - 1) = -1 := prefixLength_out (Or.inl (by omega))
  have e2 : prefixLength codes ((codes.size : Int) - 1) ((codes.size : Int) - 1 + 1) = -1 :=
    prefixLength_out (Or.inr (by omega))
  have := (prefixLength_range hs hn (i := 0) (j := (codes.size : Int) - 1) (by omega) (by omega)
    (by omega) (by omega) (by omega)).1
  refine ⟨⟨by omega, by omega, by omega, by omega, by omega⟩, ?_⟩
  simp only [owner]
  rw [if_pos (by omega)]

/-- the owner `f` of a block `[f,l]` finds `l` -/
theorem rangeEnd_owner_first (hs : Sorted codes) (hn : codes.size < 2 ^ 32) {f l : Int}
    (hb : IsBlock codes f l)
    (ho : prefixLength codes f (f - 1) ≥ prefixLength codes l (l + 1)) :
    rangeEnd codes f = l := by
  obtain ⟨hf0, hfl, hl, hb1, hb2⟩ := hb
  have h1 : prefixLength codes f l ≤ prefixLength codes f (f + 1) :=
    delta_le_left hs hn hf0 (by omega) (by omega) hl
  have hsign : sign (prefixLength codes f (f + 1) - prefixLength codes f (f - 1)) = 1 := by
    simp only [sign]
    have : prefixLength codes f (f + 1) - prefixLength codes f (f - 1) > 0 := by omega
    simp only [this, if_true]
    have : ¬ prefixLength codes f (f + 1) - prefixLength codes f (f - 1) < 0 := by omega
    simp only [this, if_false]; rfl
  have hlen : ((l - f).toNat : Int) = l - f := by omega
  have := rangeEnd_eq hs hn (i := f) hf0 (by omega) (dir := 1) (Or.inl rfl) hsign
    (len := (l - f).toNat) (by omega)
    (by
      have e : f + 1 * ((l - f).toNat : Int) = l := by omega
      rw [e]; exact hb1)
    (by
      have e : f + 1 * (((l - f).toNat + 1 : Nat) : Int) = l + 1 := by omega
      rw [e]
      by_cases hl1 : l + 1 < codes.size
      · have := delta_le_right hs hn (i := f) (j := l) (k := l + 1) hf0 (by omega) (by omega) hl1
        omega
      · rw [prefixLength_out (Or.inr (by omega))]
        have := pl_ge (codes := codes) f (f - 1)
        omega)
  rw [this]; omega

/-- the owner `l` of a block `[f,l]` finds `f` -/
theorem rangeEnd_owner_last (hs : Sorted codes) (hn : codes.size < 2 ^ 32) {f l : Int}
    (hb : IsBlock codes f l)
    (ho : ¬ prefixLength codes f (f - 1) ≥ prefixLength codes l (l + 1)) :
    rangeEnd codes l = f := by
  obtain ⟨hf0, hfl, hl, hb1, hb2⟩ := hb
  have hl0 : 0 ≤ l := by omega
  have h1 : prefixLength codes f l ≤ prefixLength codes (l - 1) l :=
    delta_le_right hs hn hf0 (by omega) (by omega) hl
  have hsym1 : prefixLength codes l (l - 1) = prefixLength codes (l - 1) l :=
    prefixLength_symm hl0 hl (by omega) (by omega)
  have hsign : sign (prefixLength codes l (l + 1) - prefixLength codes l (l - 1)) = -1 := by
    simp only [sign]
    have : ¬ prefixLength codes l (l + 1) - prefixLength codes l (l - 1) > 0 := by omega
    simp only [this, if_false]
    have : prefixLength codes l (l + 1) - prefixLength codes l (l - 1) < 0 := by omega
    simp only [this, if_true]; rfl
  have e0 : l - -1 = l + 1 := by omega
  have := rangeEnd_eq hs hn (i := l) hl0 hl (dir := -1) (Or.inr rfl) hsign
    (len := (l - f).toNat) (by omega)
    (by
      have e : l + -1 * ((l - f).toNat : Int) = f := by omega
      rw [e, e0, prefixLength_symm hl0 hl hf0 (by omega)]; exact hb2)
    (by
      have e : l + -1 * (((l - f).toNat + 1 : Nat) : Int) = f - 1 := by omega
      rw [e, e0]
      by_cases hf1 : 0 ≤ f - 1
      · have := delta_le_left hs hn (i := f - 1) (j := f) (k := l) hf1 (by omega) (by omega) hl
        rw [prefixLength_symm hl0 hl hf1 (by omega)]
        rw [prefixLength_symm hf0 (by omega) hf1 (by omega)] at ho
        omega
      · rw [prefixLength_out (Or.inl (by omega))]
        have := pl_ge (codes := codes) l (l + 1)
        omega)
  rw [this]; omega

/-- the two halves of a split block: each is a single leaf or a block, owned by `γ` resp.
`γ+1` -/
theorem isBlock_left (hs : Sorted codes) (hn : codes.size < 2 ^ 32) {f l : Int}
    (hb : IsBlock codes f l) (hlt : f < findSplit codes f l) :
    IsBlock codes f (findSplit codes f l) ∧ owner codes f (findSplit codes f l) = findSplit codes f l := by
  obtain ⟨hf0, hfl, hl, hb1, hb2⟩ := hb
  obtain ⟨g1, g2, g3, g4, _⟩ := findSplit_spec hs hn hf0 hfl hl
  have := g4 hlt
  refine ⟨⟨hf0, hlt, by omega, by omega, by omega⟩, ?_⟩
  simp only [owner]
  rw [if_neg (by omega)]

theorem isBlock_right (hs : Sorted codes) (hn : codes.size < 2 ^ 32) {f l : Int}
    (hb : IsBlock codes f l) (hlt : findSplit codes f l + 1 < l) :
    IsBlock codes (findSplit codes f l + 1) l ∧
      owner codes (findSplit codes f l + 1) l = findSplit codes f l + 1 := by
  obtain ⟨hf0, hfl, hl, hb1, hb2⟩ := hb
  obtain ⟨g1, g2, g3, _, g5⟩ := findSplit_spec hs hn hf0 hfl hl
  have := g5 hlt
  have e : findSplit codes f l + 1 - 1 = findSplit codes f l := by omega
  have hsym : prefixLength codes (findSplit codes f l + 1) (findSplit codes f l) =
      prefixLength codes (findSplit codes f l) (findSplit codes f l + 1) :=
    prefixLength_symm (by omega) (by omega) (by omega) (by omega)
  have hge : prefixLength codes f l ≤ prefixLength codes (findSplit codes f l + 1) l :=
    delta_le_right hs hn hf0 (by omega) (by omega) hl
  refine ⟨⟨by omega, hlt, hl, by rw [e, hsym]; omega, by omega⟩, ?_⟩
  simp only [owner, e, hsym]
  rw [if_pos (by omega)]

end Blocks

/-! ## the arrays written by `CreateRadixTree` -/

theorem foldl_setIfInBounds_getElem? {α : Type} (g : Nat → α) :
    ∀ (order : List Nat) (a : Array α) (k : Nat),
      (order.foldl (fun ch i => ch.setIfInBounds i (g i)) a)[k]? =
        if k ∈ order then (if k < a.size then some (g k) else none) else a[k]? := by
  intro order
  induction order with
  | nil => intro a k; simp
  | cons i rest ih =>
    intro a k
    simp only [List.foldl_cons, ih, Array.size_setIfInBounds, List.mem_cons,
      Array.getElem?_setIfInBounds]
    by_cases h1 : k ∈ rest
    · simp [h1]
    · by_cases h2 : k = i
      · subst h2; simp [h1]
      · have : ¬ i = k := fun e => h2 e.symm
        simp [h1, h2, this]

theorem foldl_setIfInBounds_size {α : Type} (g : Nat → α) :
    ∀ (order : List Nat) (a : Array α),
      (order.foldl (fun ch i => ch.setIfInBounds i (g i)) a).size = a.size := by
  intro order
  induction order with
  | nil => intro a; rfl
  | cons i rest ih => intro a; simp only [List.foldl_cons, ih, Array.size_setIfInBounds]

/-- `internalChildren_[k]` after the constructor (any order that mentions `k`) -/
theorem children_getElem? (codes : Array Nat) (order : List Nat) (k : Nat)
    (hk : k < codes.size - 1) (hmem : k ∈ order) :
    (createRadixTreeOrd codes order).1[k]? = some (radixNode codes k) := by
  simp only [createRadixTreeOrd]
  rw [foldl_setIfInBounds_getElem? (radixNode codes)]
  simp [hmem, hk]

theorem children_size (codes : Array Nat) (order : List Nat) :
    (createRadixTreeOrd codes order).1.size = codes.size - 1 := by
  simp only [createRadixTreeOrd]
  rw [foldl_setIfInBounds_size (radixNode codes)]
  simp

theorem recordParent_size (codes : Array Nat) (p : Array Int) (k : Nat) :
    (recordParent codes p k).size = p.size := by
  simp only [recordParent]
  split <;> simp

theorem parent_size (codes : Array Nat) (order : List Nat) :
    (createRadixTreeOrd codes order).2.size = 2 * codes.size - 1 := by
  simp only [createRadixTreeOrd]
  have : ∀ (order : List Nat) (a : Array Int),
      (order.foldl (recordParent codes) a).size = a.size := by
    intro order
    induction order with
    | nil => intro a; rfl
    | cons i rest ih => intro a; simp only [List.foldl_cons, ih, recordParent_size]
  rw [this]; simp

/-- what one `recordParent` does to cell `c` -/
theorem recordParent_getElem? (codes : Array Nat) (p : Array Int) (k c : Nat)
    (h1 : 0 ≤ (radixNode codes k).1) (h2 : 0 ≤ (radixNode codes k).2) :
    (recordParent codes p k)[c]? =
      if (c = (radixNode codes k).1.toNat ∨ c = (radixNode codes k).2.toNat) ∧ c < p.size
      then some (internal2Node k) else p[c]? := by
  simp only [recordParent]
  rw [if_neg (by omega)]
  simp only [Array.getElem?_setIfInBounds, Array.size_setIfInBounds]
  by_cases e2 : (radixNode codes k).2.toNat = c
  · by_cases hc : c < p.size
    · simp [e2, hc]
    · simp [e2, hc]
  · by_cases e1 : (radixNode codes k).1.toNat = c
    · by_cases hc : c < p.size
      · simp [e1, e2, hc]
      · simp [e1, e2, hc]
    · have e1' : ¬ c = (radixNode codes k).1.toNat := fun e => e1 e.symm
      have e2' : ¬ c = (radixNode codes k).2.toNat := fun e => e2 e.symm
      simp [e1, e2, e1', e2']

/-- `nodeParent_[c]` after the constructor: if some internal node of the schedule writes cell
`c` and all writers of `c` write the same value `v`, the cell holds `v`. -/
theorem parent_foldl_getElem? (codes : Array Nat) (c : Nat) (v : Int) :
    ∀ (order : List Nat) (p : Array Int),
      c < p.size →
      (∀ k ∈ order, 0 ≤ (radixNode codes k).1 ∧ 0 ≤ (radixNode codes k).2) →
      (∀ k ∈ order, (c = (radixNode codes k).1.toNat ∨ c = (radixNode codes k).2.toNat) →
        internal2Node k = v) →
      ((∃ k ∈ order, c = (radixNode codes k).1.toNat ∨ c = (radixNode codes k).2.toNat) ∨
        p[c]? = some v) →
      (order.foldl (recordParent codes) p)[c]? = some v := by
  intro order
  induction order with
  | nil =>
    intro p _ _ _ h
    rcases h with ⟨k, hk, _⟩ | h
    · simp at hk
    · simpa using h
  | cons i rest ih =>
    intro p hc hpos hall hex
    simp only [List.foldl_cons]
    have hpi := hpos i (List.mem_cons_self)
    apply ih
    · rw [recordParent_size]; exact hc
    · intro k hk; exact hpos k (List.mem_cons_of_mem _ hk)
    · intro k hk; exact hall k (List.mem_cons_of_mem _ hk)
    · by_cases hr : ∃ k ∈ rest, c = (radixNode codes k).1.toNat ∨ c = (radixNode codes k).2.toNat
      · exact Or.inl hr
      · right
        rw [recordParent_getElem? codes p i c hpi.1 hpi.2]
        by_cases hw : c = (radixNode codes i).1.toNat ∨ c = (radixNode codes i).2.toNat
        · rw [if_pos ⟨hw, hc⟩, hall i (List.mem_cons_self) hw]
        · rw [if_neg (fun h => hw h.1)]
          rcases hex with ⟨k, hk, hkw⟩ | h
          · rcases List.mem_cons.mp hk with e | e
            · subst e; exact absurd hkw hw
            · exact absurd ⟨k, e, hkw⟩ hr
          · exact h

/-! ## the tree the arrays contain -/

section Tree
variable {codes : Array Nat}

/-- `CreateRadixTree::operator()` at the owner of a block -/
theorem radixNode_block (hs : Sorted codes) (hn : codes.size < 2 ^ 32) {f l : Int}
    (hb : IsBlock codes f l) (i : Nat) (hi : (i : Int) = owner codes f l) :
    radixNode codes i =
      (if findSplit codes f l = f then leaf2Node (findSplit codes f l)
        else internal2Node (findSplit codes f l),
       if findSplit codes f l + 1 = l then leaf2Node (findSplit codes f l + 1)
        else internal2Node (findSplit codes f l + 1)) := by
  have hfl := hb.2.1
  unfold radixNode
  simp only [owner] at hi
  split at hi
  · rename_i ho
    simp only [hi, rangeEnd_owner_first hs hn hb ho, if_neg (show ¬ f > l by omega)]
  · rename_i ho
    simp only [hi, rangeEnd_owner_last hs hn hb ho, if_pos (show l > f by omega)]

/-- the owner is an internal index `≤ n-2` -/
theorem owner_bounds {f l : Int} (hb : IsBlock codes f l) :
    0 ≤ owner codes f l ∧ owner codes f l < (codes.size : Int) - 1 ∧
    (owner codes f l = f ∨ owner codes f l = l) := by
  obtain ⟨hf0, hfl, hl, _, _⟩ := hb
  simp only [owner]
  split
  · omega
  · rename_i ho
    have : l + 1 < codes.size := by
      apply Classical.byContradiction
      intro hc
      apply ho
      rw [prefixLength_out (i := l) (j := l + 1) (Or.inr (by omega))]
      exact pl_ge _ _
    omega

/-- the specification tree for `[f,l]` (fuel `≥ l - f`) -/
def ktree (codes : Array Nat) : Nat → Nat → Nat → T
  | 0, f, _ => .leaf f
  | fuel + 1, f, l =>
    if f < l then
      .node (owner codes f l).toNat
        (ktree codes fuel f (findSplit codes f l).toNat)
        (ktree codes fuel ((findSplit codes f l).toNat + 1) l)
    else .leaf f

theorem cover_match_of_id (a : T) (x : Nat) :
    (a.id = 2 * (x : Int) ∨ a.id = 2 * (x : Int) + 1) →
    (match a with | .leaf _ => true | .node ka _ _ => ka == x) = true := by
  cases a with
  | leaf i => intro _; rfl
  | node ka _ _ =>
    intro h
    simp only [T.id] at h
    simp only [beq_iff_eq]
    omega

theorem ktree_spec (hs : Sorted codes) (hn : codes.size < 2 ^ 32) {ch : Array (Int × Int)}
    (hch : ∀ k, k < codes.size - 1 → ch[k]? = some (radixNode codes k)) :
    ∀ (fuel f l : Nat), l - f ≤ fuel →
      ((f = l ∧ l < codes.size) ∨ IsBlock codes f l) →
      Rep ch (ktree codes fuel f l) ∧ (ktree codes fuel f l).cover f l = true ∧
      (ktree codes fuel f l).id = (if f = l then 2 * (f : Int) else 2 * owner codes f l + 1) ∧
      ((ktree codes fuel f l).height : Int) ≤ 64 - prefixLength codes f l := by
  intro fuel
  induction fuel with
  | zero =>
    intro f l hfuel hcase
    have hfl : f = l := by
      rcases hcase with h | h
      · exact h.1
      · have := h.2.1; omega
    subst hfl
    have hl : f < codes.size := by
      rcases hcase with h | h
      · exact h.2
      · have := h.2.1; omega
    simp only [ktree, Rep, T.cover, T.id, T.height, if_true, beq_self_eq_true, Bool.and_self,
      true_and]
    rw [prefixLength_self (by omega) (by omega)]; omega
  | succ fuel ih =>
    intro f l hfuel hcase
    by_cases hfl : f < l
    · have hb : IsBlock codes f l := by
        rcases hcase with h | h
        · omega
        · exact h
      have hb0 := hb
      obtain ⟨hf0, hfl', hl, hb1, hb2⟩ := hb0
      obtain ⟨g1, g2, g3, g4, g5⟩ := findSplit_spec hs hn hf0 hfl' hl
      have hrn := radixNode_block hs hn hb
      have hleft := @isBlock_left codes hs hn f l hb
      have hright := @isBlock_right codes hs hn f l hb
      obtain ⟨ho0, ho1, ho2⟩ := owner_bounds hb
      generalize hγ : findSplit codes f l = γ at *
      have hγn : ((γ.toNat : Nat) : Int) = γ := by omega
      have hγn1 : ((γ.toNat + 1 : Nat) : Int) = γ + 1 := by omega
      -- induction hypotheses for the two halves
      have ihA := ih f γ.toNat (by omega)
        (by
          by_cases e : (f : Int) = γ
          · left; constructor <;> omega
          · right; rw [hγn]; exact (hleft (by omega)).1)
      have ihB := ih (γ.toNat + 1) l (by omega)
        (by
          by_cases e : γ + 1 = (l : Int)
          · left; constructor <;> omega
          · right; rw [hγn1]; exact (hright (by omega)).1)
      obtain ⟨ra, ca, ida, ha⟩ := ihA
      obtain ⟨rb, cb, idb, hb'⟩ := ihB
      rw [hγn] at ha ida
      rw [hγn1] at hb' idb
      have ⟨_, alast, _⟩ := cover_first_last _ _ _ ca
      -- ids of the two children
      have ida' : (ktree codes fuel f γ.toNat).id =
          (if γ = (f : Int) then leaf2Node γ else internal2Node γ) := by
        rw [ida]
        by_cases e : (f : Int) = γ
        · have : f = γ.toNat := by omega
          rw [if_pos this, if_pos e.symm, leaf2Node]; omega
        · have : ¬ f = γ.toNat := by omega
          have e' : ¬ γ = (f : Int) := fun h => e h.symm
          rw [if_neg this, if_neg e', (hleft (by omega)).2, internal2Node]; omega
      have idb' : (ktree codes fuel (γ.toNat + 1) l).id =
          (if γ + 1 = (l : Int) then leaf2Node (γ + 1) else internal2Node (γ + 1)) := by
        rw [idb]
        by_cases e : γ + 1 = (l : Int)
        · have : γ.toNat + 1 = l := by omega
          rw [if_pos this, if_pos e, leaf2Node]; omega
        · have : ¬ γ.toNat + 1 = l := by omega
          rw [if_neg this, if_neg e, (hright (by omega)).2, internal2Node]; omega
      have hkt : ktree codes (fuel + 1) f l =
          .node (owner codes f l).toNat (ktree codes fuel f γ.toNat)
            (ktree codes fuel (γ.toNat + 1) l) := by
        rw [ktree, if_pos hfl, hγ]
      rw [hkt]
      refine ⟨⟨?_, ra, rb⟩, ?_, ?_, ?_⟩
      · -- the children pair recorded at the owner
        rw [hch _ (by omega), hrn (owner codes f l).toNat (by omega), ida', idb']
      · -- cover
        simp only [T.cover, alast, Bool.and_eq_true, decide_eq_true_eq, Bool.or_eq_true,
          beq_iff_eq]
        refine ⟨⟨⟨⟨⟨hfl, ?_⟩, ca⟩, cb⟩, ?_⟩, ?_⟩
        · omega
        · apply cover_match_of_id
          rw [ida']
          split
          · left; rw [leaf2Node]; omega
          · right; rw [internal2Node]; omega
        · apply cover_match_of_id
          rw [idb']
          split
          · left; rw [leaf2Node]; omega
          · right; rw [internal2Node]; omega
      · have : ¬ f = l := by omega
        simp only [T.id, if_neg this]; omega
      · simp only [T.height]
        have hmax : Nat.max (ktree codes fuel f γ.toNat).height
            (ktree codes fuel (γ.toNat + 1) l).height ≤ (63 - prefixLength codes f l).toNat := by
          apply Nat.max_le.mpr
          constructor
          · by_cases e : (f : Int) = γ
            · have hpl : prefixLength codes f γ = 64 := by
                rw [← e]; exact prefixLength_self hf0 (by omega)
              rw [hpl] at ha
              have := (prefixLength_range hs hn hf0 (by omega) (by omega) hl (by omega)).2
              omega
            · have := g4 (by omega); omega
          · by_cases e : γ + 1 = (l : Int)
            · have hpl : prefixLength codes (γ + 1) l = 64 := by
                rw [e]; exact prefixLength_self (by omega) hl
              rw [hpl] at hb'
              have := (prefixLength_range hs hn hf0 (by omega) (by omega) hl (by omega)).2
              omega
            · have := g5 (by omega); omega
        have := (prefixLength_range hs hn hf0 (by omega) (by omega) hl (by omega)).2
        omega
    · have hfl' : f = l := by
        rcases hcase with h | h
        · exact h.1
        · have := h.2.1; omega
      subst hfl'
      have hl : f < codes.size := by
        rcases hcase with h | h
        · exact h.2
        · have := h.2.1; omega
      have hkt : ktree codes (fuel + 1) f f = .leaf f := by
        rw [ktree, if_neg (Nat.lt_irrefl f)]
      rw [hkt]
      simp only [Rep, T.cover, T.id, T.height, if_true, beq_self_eq_true, Bool.and_self,
        true_and]
      rw [prefixLength_self (by omega) (by omega)]; omega

end Tree

/-! ## every node has exactly one parent -/

/-- all node numbers of a tree -/
def T.ids : T → List Int
  | .leaf i => [2 * (i : Int)]
  | .node k a b => (2 * (k : Int) + 1) :: (a.ids ++ b.ids)

/-- `(child node, parent internal index)` for every edge of the tree -/
def T.pairs : T → List (Int × Nat)
  | .leaf _ => []
  | .node k a b => (a.id, k) :: (b.id, k) :: (a.pairs ++ b.pairs)

theorem id_mem_ids (t : T) : t.id ∈ t.ids := by
  cases t <;> simp [T.id, T.ids]

theorem mem_ids (t : T) (x : Int) :
    x ∈ t.ids ↔ (∃ i ∈ t.leaves, x = 2 * (i : Int)) ∨ (∃ k ∈ t.internals, x = 2 * (k : Int) + 1) := by
  induction t with
  | leaf i => simp [T.ids, T.leaves, T.internals]
  | node k a b iha ihb =>
    simp only [T.ids, T.leaves, T.internals, List.mem_cons, List.mem_append, iha, ihb]
    constructor
    · rintro (h | (⟨i, hi, e⟩ | ⟨j, hj, e⟩) | (⟨i, hi, e⟩ | ⟨j, hj, e⟩))
      · exact Or.inr ⟨k, Or.inl rfl, h⟩
      · exact Or.inl ⟨i, Or.inl hi, e⟩
      · exact Or.inr ⟨j, Or.inr (Or.inl hj), e⟩
      · exact Or.inl ⟨i, Or.inr hi, e⟩
      · exact Or.inr ⟨j, Or.inr (Or.inr hj), e⟩
    · rintro (⟨i, hi | hi, e⟩ | ⟨j, hj | hj | hj, e⟩)
      · exact Or.inr (Or.inl (Or.inl ⟨i, hi, e⟩))
      · exact Or.inr (Or.inr (Or.inl ⟨i, hi, e⟩))
      · subst hj; exact Or.inl e
      · exact Or.inr (Or.inl (Or.inr ⟨j, hj, e⟩))
      · exact Or.inr (Or.inr (Or.inr ⟨j, hj, e⟩))

theorem nodup_ids (t : T) : t.leaves.Nodup → t.internals.Nodup → t.ids.Nodup := by
  induction t with
  | leaf i => intro _ _; simp [T.ids]
  | node k a b iha ihb =>
    intro hl hi
    simp only [T.leaves, List.nodup_append] at hl
    simp only [T.internals, List.nodup_cons, List.nodup_append, List.mem_append] at hi
    obtain ⟨la, lb, lab⟩ := hl
    obtain ⟨hk, ia, ib, iab⟩ := hi
    simp only [T.ids, List.nodup_cons, List.nodup_append, List.mem_append]
    refine ⟨?_, iha la ia, ihb lb ib, ?_⟩
    · intro h
      rcases h with h | h
      · rcases (mem_ids a _).mp h with ⟨i, _, e⟩ | ⟨j, hj, e⟩
        · omega
        · have : k = j := by omega
          subst this; exact hk (Or.inl hj)
      · rcases (mem_ids b _).mp h with ⟨i, _, e⟩ | ⟨j, hj, e⟩
        · omega
        · have : k = j := by omega
          subst this; exact hk (Or.inr hj)
    · intro x hx y hy e
      subst e
      rcases (mem_ids a _).mp hx with ⟨i, hi, e⟩ | ⟨j, hj, e⟩
      · rcases (mem_ids b _).mp hy with ⟨i', hi', e'⟩ | ⟨j', hj', e'⟩
        · have : i = i' := by omega
          subst this; exact lab i hi i hi' rfl
        · omega
      · rcases (mem_ids b _).mp hy with ⟨i', hi', e'⟩ | ⟨j', hj', e'⟩
        · omega
        · have : j = j' := by omega
          subst this; exact iab j hj j hj' rfl

/-- child numbers are node numbers of the tree other than its root, and occur once -/
theorem pairs_keys (t : T) : t.ids.Nodup →
    (t.pairs.map Prod.fst).Nodup ∧ ∀ c ∈ t.pairs.map Prod.fst, c ∈ t.ids ∧ c ≠ t.id := by
  induction t with
  | leaf i => intro _; simp [T.pairs]
  | node k a b iha ihb =>
    intro hnd
    simp only [T.ids, List.nodup_cons, List.nodup_append, List.mem_append] at hnd
    obtain ⟨hk, na, nb, hab⟩ := hnd
    obtain ⟨ka, sa⟩ := iha na
    obtain ⟨kb, sb⟩ := ihb nb
    have hida := id_mem_ids a
    have hidb := id_mem_ids b
    constructor
    · simp only [T.pairs, List.map_cons, List.map_append, List.nodup_cons, List.nodup_append,
        List.mem_cons, List.mem_append]
      refine ⟨?_, ?_, ka, kb, ?_⟩
      · rintro (h | h | h)
        · exact hab _ hida _ hidb h
        · exact (sa _ h).2 rfl
        · exact hab _ hida _ (sb _ h).1 rfl
      · rintro (h | h)
        · exact hab _ (sa _ h).1 _ hidb rfl
        · exact (sb _ h).2 rfl
      · intro x hx y hy e
        subst e
        exact hab _ (sa _ hx).1 _ (sb _ hy).1 rfl
    · intro c hc
      simp only [T.pairs, List.map_cons, List.map_append, List.mem_cons, List.mem_append] at hc
      simp only [T.ids, T.id, List.mem_cons, List.mem_append]
      rcases hc with h | h | h | h
      · subst h; exact ⟨Or.inr (Or.inl hida), fun e => hk (Or.inl (e ▸ hida))⟩
      · subst h; exact ⟨Or.inr (Or.inr hidb), fun e => hk (Or.inr (e ▸ hidb))⟩
      · exact ⟨Or.inr (Or.inl (sa _ h).1), fun e => hk (Or.inl (e ▸ (sa _ h).1))⟩
      · exact ⟨Or.inr (Or.inr (sb _ h).1), fun e => hk (Or.inr (e ▸ (sb _ h).1))⟩

theorem functional_of_nodup_keys {α β : Type} :
    ∀ (l : List (α × β)), (l.map Prod.fst).Nodup →
      ∀ c k k', (c, k) ∈ l → (c, k') ∈ l → k = k' := by
  intro l
  induction l with
  | nil => intro _ c k k' h; simp at h
  | cons p rest ih =>
    intro hnd c k k' h1 h2
    simp only [List.map_cons, List.nodup_cons, List.mem_map] at hnd
    obtain ⟨hp, hr⟩ := hnd
    rcases List.mem_cons.mp h1 with e1 | e1
    · rcases List.mem_cons.mp h2 with e2 | e2
      · rw [← e1] at e2; exact (Prod.mk.inj e2).2.symm ▸ rfl
      · exfalso; apply hp; exact ⟨(c, k'), e2, by rw [← e1]⟩
    · rcases List.mem_cons.mp h2 with e2 | e2
      · exfalso; apply hp; exact ⟨(c, k), e1, by rw [← e2]⟩
      · exact ih hr c k k' e1 e2

/-- every internal index of a represented tree has its array entry among the edges -/
theorem pairs_of_internal {ch : Array (Int × Int)} (t : T) : Rep ch t →
    ∀ k ∈ t.internals, ∃ c1 c2, ch[k]? = some (c1, c2) ∧ (c1, k) ∈ t.pairs ∧ (c2, k) ∈ t.pairs := by
  induction t with
  | leaf i => intro _ k hk; simp [T.internals] at hk
  | node k0 a b iha ihb =>
    intro hrep k hk
    obtain ⟨hc, ra, rb⟩ := hrep
    simp only [T.internals, List.mem_cons, List.mem_append] at hk
    rcases hk with e | h | h
    · subst e
      exact ⟨a.id, b.id, hc, by simp [T.pairs], by simp [T.pairs]⟩
    · obtain ⟨c1, c2, e, m1, m2⟩ := iha ra k h
      exact ⟨c1, c2, e, by simp [T.pairs, m1], by simp [T.pairs, m2]⟩
    · obtain ⟨c1, c2, e, m1, m2⟩ := ihb rb k h
      exact ⟨c1, c2, e, by simp [T.pairs, m1], by simp [T.pairs, m2]⟩

theorem internal_of_pairs {ch : Array (Int × Int)} (t : T) : Rep ch t →
    ∀ c k, (c, k) ∈ t.pairs →
      k ∈ t.internals ∧ ∃ c1 c2, ch[k]? = some (c1, c2) ∧ (c = c1 ∨ c = c2) := by
  induction t with
  | leaf i => intro _ c k h; simp [T.pairs] at h
  | node k0 a b iha ihb =>
    intro hrep c k h
    obtain ⟨hc, ra, rb⟩ := hrep
    simp only [T.pairs, List.mem_cons, List.mem_append, Prod.mk.injEq] at h
    simp only [T.internals, List.mem_cons, List.mem_append]
    rcases h with ⟨e1, e2⟩ | ⟨e1, e2⟩ | h | h
    · subst e1; subst e2; exact ⟨Or.inl rfl, a.id, b.id, hc, Or.inl rfl⟩
    · subst e1; subst e2; exact ⟨Or.inl rfl, a.id, b.id, hc, Or.inr rfl⟩
    · obtain ⟨m, r⟩ := iha ra c k h; exact ⟨Or.inr (Or.inl m), r⟩
    · obtain ⟨m, r⟩ := ihb rb c k h; exact ⟨Or.inr (Or.inr m), r⟩

theorem parentOk_of_pairs (parent : Array Int) (t : T) :
    (∀ c k, (c, k) ∈ t.pairs → parent[c.toNat]? = some (2 * (k : Int) + 1)) →
    t.parentOk parent = true := by
  induction t with
  | leaf i => intro _; rfl
  | node k a b iha ihb =>
    intro h
    simp only [T.parentOk, Bool.and_eq_true, beq_iff_eq]
    refine ⟨⟨⟨h _ _ (by simp [T.pairs]), h _ _ (by simp [T.pairs])⟩, iha ?_⟩, ihb ?_⟩
    · intro c k' hm; exact h c k' (by simp [T.pairs, hm])
    · intro c k' hm; exact h c k' (by simp [T.pairs, hm])

/-- a cell nobody writes keeps its value -/
theorem parent_foldl_untouched (codes : Array Nat) (c : Nat) :
    ∀ (order : List Nat) (p : Array Int),
      (∀ k ∈ order, 0 ≤ (radixNode codes k).1 ∧ 0 ≤ (radixNode codes k).2 ∧
        c ≠ (radixNode codes k).1.toNat ∧ c ≠ (radixNode codes k).2.toNat) →
      (order.foldl (recordParent codes) p)[c]? = p[c]? := by
  intro order
  induction order with
  | nil => intro p _; rfl
  | cons i rest ih =>
    intro p h
    simp only [List.foldl_cons]
    rw [ih _ (fun k hk => h k (List.mem_cons_of_mem _ hk))]
    obtain ⟨h1, h2, h3, h4⟩ := h i (List.mem_cons_self)
    rw [recordParent_getElem? codes p i c h1 h2, if_neg]
    intro hh
    rcases hh.1 with e | e
    · exact h3 e
    · exact h4 e

/-! ## radixTree_wf -/

/-- **The arrays written by `CreateRadixTree` are a well-formed Karras tree** — for every
`n ≥ 2`, every sorted code array (`< 2^32`, duplicates allowed), and every execution order of
the `for_each_n` that runs each internal index at least once. -/
theorem createRadixTreeOrd_wf {codes : Array Nat} (hs : Sorted codes) (hn : codes.size < 2 ^ 32)
    (h2 : 2 ≤ codes.size) (order : List Nat)
    (hord1 : ∀ k, k < codes.size - 1 → k ∈ order)
    (hord2 : ∀ k ∈ order, k < codes.size - 1) :
    wfTree (createRadixTreeOrd codes order).1 (createRadixTreeOrd codes order).2 codes.size
      = true := by
  have hch : ∀ k, k < codes.size - 1 →
      (createRadixTreeOrd codes order).1[k]? = some (radixNode codes k) :=
    fun k hk => children_getElem? codes order k hk (hord1 k hk)
  obtain ⟨hroot, hown⟩ := isBlock_root hs hn h2
  have hcast : (((codes.size - 1 : Nat)) : Int) = (codes.size : Int) - 1 := by omega
  have hspec := ktree_spec hs hn hch codes.size 0 (codes.size - 1) (by omega)
    (Or.inr (by rw [hcast]; exact hroot))
  generalize ht : ktree codes codes.size 0 (codes.size - 1) = t at hspec
  obtain ⟨hrep, hcov, hid, hh⟩ := hspec
  have h0 : ((0 : Nat) : Int) = 0 := rfl
  rw [hcast, h0] at hid hh
  rw [if_neg (by omega), hown] at hid
  have hid1 : t.id = 1 := by omega
  have hδ := (prefixLength_range hs hn (i := 0) (j := (codes.size : Int) - 1) (by omega)
    (by omega) (by omega) (by omega) (by omega)).1
  have htree : toTree (createRadixTreeOrd codes order).1 65 kRoot = some t := by
    have := toTree_of_rep t 65 hrep (by omega)
    rw [hid1] at this; exact this
  have hleaves : ∀ i, i ∈ t.leaves ↔ i < codes.size := by
    intro i; rw [mem_leaves_of_cover hcov]; omega
  have hints : ∀ k, k ∈ t.internals ↔ k < codes.size - 1 := mem_internals_root hcov hid1
  have hnd : t.ids.Nodup :=
    nodup_ids t (nodup_leaves_of_cover hcov) (cover_internals _ _ _ hcov).1
  obtain ⟨hkeys, hkmem⟩ := pairs_keys t hnd
  -- bounds of node numbers
  have hbound : ∀ c, c ∈ t.ids → 0 ≤ c ∧ c.toNat < 2 * codes.size - 1 := by
    intro c hc
    rcases (mem_ids t c).mp hc with ⟨i, hi, e⟩ | ⟨k, hk, e⟩
    · have := (hleaves i).mp hi; omega
    · have := (hints k).mp hk; omega
  -- what each scheduled internal node writes
  have hwrite : ∀ k ∈ order, ∃ c1 c2, radixNode codes k = (c1, c2) ∧
      (c1, k) ∈ t.pairs ∧ (c2, k) ∈ t.pairs := by
    intro k hk
    obtain ⟨c1, c2, e, m1, m2⟩ := pairs_of_internal t hrep k ((hints k).mpr (hord2 k hk))
    rw [hch k (hord2 k hk)] at e
    exact ⟨c1, c2, Option.some.inj e, m1, m2⟩
  have hpos : ∀ k ∈ order, 0 ≤ (radixNode codes k).1 ∧ 0 ≤ (radixNode codes k).2 := by
    intro k hk
    obtain ⟨c1, c2, e, m1, m2⟩ := hwrite k hk
    rw [e]
    exact ⟨(hbound c1 (hkmem c1 (List.mem_map.mpr ⟨_, m1, rfl⟩)).1).1,
      (hbound c2 (hkmem c2 (List.mem_map.mpr ⟨_, m2, rfl⟩)).1).1⟩
  have hpsize : (Array.replicate (2 * codes.size - 1) (-1 : Int)).size = 2 * codes.size - 1 := by
    simp
  -- the parent array
  have hpar : ∀ c k, (c, k) ∈ t.pairs →
      (createRadixTreeOrd codes order).2[c.toNat]? = some (2 * (k : Int) + 1) := by
    intro c k hm
    have hcid := (hkmem c (List.mem_map.mpr ⟨_, hm, rfl⟩)).1
    obtain ⟨hc0, hcb⟩ := hbound c hcid
    obtain ⟨hkint, c1, c2, e, hor⟩ := internal_of_pairs t hrep c k hm
    have hkn := (hints k).mp hkint
    rw [hch k hkn] at e
    have e' : radixNode codes k = (c1, c2) := Option.some.inj e
    simp only [createRadixTreeOrd]
    apply parent_foldl_getElem? codes c.toNat (2 * (k : Int) + 1) order
    · rw [hpsize]; exact hcb
    · exact hpos
    · intro k' hk' hw
      obtain ⟨d1, d2, ed, m1, m2⟩ := hwrite k' hk'
      have hp' := hpos k' hk'
      rw [ed] at hw hp'
      simp only at hw hp'
      have : (c, k') ∈ t.pairs := by
        rcases hw with hw | hw
        · have : c = d1 := by omega
          rw [this]; exact m1
        · have : c = d2 := by omega
          rw [this]; exact m2
      have := functional_of_nodup_keys t.pairs hkeys c k' k this hm
      rw [this, internal2Node]; omega
    · left
      refine ⟨k, hord1 k hkn, ?_⟩
      rw [e']
      rcases hor with h | h
      · left; rw [h]
      · right; rw [h]
  have hroot1 : (createRadixTreeOrd codes order).2[1]? = some (-1) := by
    simp only [createRadixTreeOrd]
    rw [parent_foldl_untouched codes 1 order]
    · rw [Array.getElem?_replicate, if_pos (by omega)]
    · intro k hk
      obtain ⟨d1, d2, ed, m1, m2⟩ := hwrite k hk
      have hp' := hpos k hk
      rw [ed] at hp' ⊢
      simp only at hp' ⊢
      have n1 := (hkmem d1 (List.mem_map.mpr ⟨_, m1, rfl⟩)).2
      have n2 := (hkmem d2 (List.mem_map.mpr ⟨_, m2, rfl⟩)).2
      rw [hid1] at n1 n2
      refine ⟨hp'.1, hp'.2, ?_, ?_⟩ <;> omega
  unfold wfTree
  rw [htree]
  simp only [Bool.and_eq_true, decide_eq_true_eq, beq_iff_eq]
  exact ⟨⟨⟨h2, children_size codes order⟩, parent_size codes order⟩,
    ⟨hcov, parentOk_of_pairs _ t hpar⟩, hroot1⟩

/-- the sequential order of the model -/
theorem createRadixTree_wf {codes : Array Nat} (hs : Sorted codes) (hn : codes.size < 2 ^ 32)
    (h2 : 2 ≤ codes.size) :
    wfTree (createRadixTree codes).1 (createRadixTree codes).2 codes.size = true := by
  unfold createRadixTree
  apply createRadixTreeOrd_wf hs hn h2
  · intro k hk; exact List.mem_range.mpr hk
  · intro k hk; exact List.mem_range.mp hk

/-- the result does not depend on the execution order -/
theorem createRadixTreeOrd_children_eq (codes : Array Nat) (order : List Nat)
    (hord1 : ∀ k, k < codes.size - 1 → k ∈ order) :
    (createRadixTreeOrd codes order).1 = (createRadixTree codes).1 := by
  apply Array.ext_getElem?
  intro k
  by_cases hk : k < codes.size - 1
  · rw [children_getElem? codes order k hk (hord1 k hk)]
    unfold createRadixTree
    rw [children_getElem? codes _ k hk (List.mem_range.mpr hk)]
  · have s1 := children_size codes order
    have s2 := children_size codes (List.range (codes.size - 1))
    unfold createRadixTree
    rw [Array.getElem?_eq_none (by omega), Array.getElem?_eq_none (by omega)]

end MV.Collider
