import MV.Model.LazyEval
import MV.Model.Sync

/-!
Proofs for property C06, part 2: the two-lock `std::lock` protocol (`MV.TwoLock`), the lock-rank
discipline (`MV.LockOrder`) and `fetch_add` ID reservation (`MV.Sync.reserveAll`).
-/

namespace MV.TwoLock

/-- the locks a program uses -/
def locksOf : Prog → List Nat
  | .one l => [l]
  | .two a b => [a, b]

/-- The ownership invariant of `run_owner`, for one state. -/
def Inv (prog : Nat → Prog) (s : State) : Prop :=
  ∀ l t, s.owner l = some t ↔
    (((s.th t).pc = .crit ∧ l ∈ locksOf (prog t)) ∨
     ((s.th t).pc = .first ∧ ∃ a b, prog t = .two a b ∧ l = fstLock a b (s.th t).swap))

theorem inv_init (prog : Nat → Prog) : Inv prog init := by
  intro l t
  simp [init]

@[simp] theorem locksOf_one (l : Nat) : locksOf (.one l) = [l] := rfl
@[simp] theorem locksOf_two (a b : Nat) : locksOf (.two a b) = [a, b] := rfl

theorem inv_step (prog : Nat → Prog) (s : State) (t0 : Nat) (h : Inv prog s) :
    Inv prog (step prog s t0) := by
  by_cases hen : enabled prog s t0 = true
  case neg => simp only [step, hen]; exact h
  rcases hpc : (s.th t0).pc with _ | _ | _ | _ <;> rcases hp : prog t0 with l0 | ⟨a, b⟩ <;>
    simp only [enabled, hpc, hp] at hen <;>
    simp only [step, enabled, hpc, hp, hen, Bool.not_true, Bool.false_eq_true, if_false] <;>
    try exact h
  · -- idle, one
    intro l t
    have h1 := h l t; have h2 := h l t0; have h3 := h l0 t
    by_cases ht : t = t0 <;> by_cases hl : l = l0 <;> simp_all [upd] <;> grind
  · -- idle, two
    intro l t
    have h1 := h l t; have h2 := h l t0; have h3 := h (fstLock a b (s.th t0).swap) t
    by_cases ht : t = t0 <;> by_cases hl : l = fstLock a b (s.th t0).swap <;> simp_all [upd] <;> grind
  · -- first, two
    split
    · intro l t
      have h1 := h l t; have h2 := h l t0; have h3 := h (sndLock a b (s.th t0).swap) t
      by_cases ht : t = t0 <;> by_cases hl : l = sndLock a b (s.th t0).swap <;>
        simp_all [upd] <;> grind [fstLock, sndLock]
    · intro l t
      have h1 := h l t; have h2 := h l t0; have h3 := h (fstLock a b (s.th t0).swap) t
      by_cases ht : t = t0 <;> by_cases hl : l = fstLock a b (s.th t0).swap <;>
        simp_all [upd] <;> grind [fstLock, sndLock]
  · -- crit, one
    intro l t
    have h1 := h l t; have h2 := h l t0; have h3 := h l0 t
    by_cases ht : t = t0 <;> by_cases hl : l = l0 <;> simp_all [upd] <;> grind
  · -- crit, two
    intro l t
    have h1 := h l t; have h2 := h l t0; have h3 := h a t; have h4 := h b t
    by_cases ht : t = t0 <;> by_cases hl : l = a <;> by_cases hl' : l = b <;>
      simp_all [upd] <;> grind

theorem inv_run (prog : Nat → Prog) (sched : List Nat) :
    ∀ s, Inv prog s → Inv prog (run prog s sched) := by
  induction sched with
  | nil => intro s h; exact h
  | cons t ts ih => intro s h; exact ih _ (inv_step prog s t h)

/-- Ownership is consistent with the program counters in every reachable state. -/
theorem run_owner (prog : Nat → Prog) (hne : ∀ t a b, prog t = .two a b → a ≠ b) (sched : List Nat) :
    let s := run prog init sched
    ∀ l t, s.owner l = some t ↔
      (((s.th t).pc = .crit ∧ l ∈ locksOf (prog t)) ∨
       ((s.th t).pc = .first ∧ ∃ a b, prog t = .two a b ∧ l = fstLock a b (s.th t).swap)) := by
  -- (`hne` is not needed: the invariant also survives a degenerate `two a a`)
  have _ := hne
  exact inv_run prog sched init (inv_init prog)

/-- the two-thread program of the examples: thread 0 locks `(0, 1)`, every other thread `(1, 0)` -/
def exProg : Nat → Prog := fun t => if t = 0 then .two 0 1 else .two 1 0

theorem exProg_ne : ∀ t a b, exProg t = .two a b → a ≠ b := by
  intro t a b h
  unfold exProg at h
  split at h <;> cases h <;> decide

/-- non-vacuity: after `[0, 1]` both threads are at `first`, each owning its first lock; after the
failed `try_lock` of thread 0 lock 0 is free again. -/
example : (run exProg init [0, 1]).owner 0 = some 0 ∧ (run exProg init [0, 1]).owner 1 = some 1 ∧
    ((run exProg init [0, 1]).th 0).pc = .first ∧ ((run exProg init [0, 1]).th 1).pc = .first ∧
    (run exProg init [0, 1, 0]).owner 0 = none ∧ (run exProg init [0, 1, 0]).th 0 = ⟨.idle, true⟩ := by
  decide

example : ∀ l t, (run exProg init [0, 1, 0, 1]).owner l = some t ↔
    ((((run exProg init [0, 1, 0, 1]).th t).pc = .crit ∧ l ∈ locksOf (exProg t)) ∨
     (((run exProg init [0, 1, 0, 1]).th t).pc = .first ∧
        ∃ a b, exProg t = .two a b ∧ l = fstLock a b ((run exProg init [0, 1, 0, 1]).th t).swap)) :=
  run_owner exProg exProg_ne [0, 1, 0, 1]

/-- Mutual exclusion: two threads inside their critical sections use disjoint locks. -/
theorem two_lock_mutex (prog : Nat → Prog) (hne : ∀ t a b, prog t = .two a b → a ≠ b) (sched : List Nat)
    (t u : Nat) (htu : t ≠ u) :
    let s := run prog init sched
    (s.th t).pc = .crit → (s.th u).pc = .crit → ∀ l, l ∈ locksOf (prog t) → l ∈ locksOf (prog u) → False := by
  intro s ht hu l hlt hlu
  have h1 := (run_owner prog hne sched l t).2 (Or.inl ⟨ht, hlt⟩)
  have h2 := (run_owner prog hne sched l u).2 (Or.inl ⟨hu, hlu⟩)
  rw [h1] at h2
  exact htu (Option.some.inj h2)

/-- non-vacuity: a schedule that brings thread 1 into its critical section (holding both locks)
while thread 0 has been thrown back to `idle`. -/
example : ((run exProg init [0, 1, 0, 1]).th 1).pc = .crit ∧
    ((run exProg init [0, 1, 0, 1]).th 0).pc = .idle ∧
    (run exProg init [0, 1, 0, 1]).owner 0 = some 1 ∧ (run exProg init [0, 1, 0, 1]).owner 1 = some 1 := by
  decide

/-- No deadlock, for any number of threads, any lock pairs (including a = b' and b = a' in opposite
order) and every interleaving: a thread that is not finished and cannot move waits for a lock whose
owner can move. -/
theorem two_lock_progress (prog : Nat → Prog) (hne : ∀ t a b, prog t = .two a b → a ≠ b) (sched : List Nat) (t : Nat) :
    let s := run prog init sched
    (s.th t).pc ≠ .fin → enabled prog s t = false →
    ∃ u, u ≠ t ∧ enabled prog s u = true ∧ ((s.th u).pc = .first ∨ (s.th u).pc = .crit) := by
  intro s hfin hdis
  have hinv : Inv prog s := run_owner prog hne sched
  -- a disabled, unfinished thread is `idle` and the lock it wants has an owner
  have key : (s.th t).pc = .idle ∧ ∃ l u, s.owner l = some u := by
    unfold enabled at hdis
    rcases hpc : (s.th t).pc with _ | _ | _ | _ <;> rcases hp : prog t with l0 | ⟨a, b⟩ <;>
      simp only [hpc, hp] at hdis <;> simp_all
    · cases ho : s.owner l0 with
      | none => simp [ho] at hdis
      | some u => exact ⟨l0, u, ho⟩
    · cases ho : s.owner (fstLock a b (s.th t).swap) with
      | none => simp [ho] at hdis
      | some u => exact ⟨_, u, ho⟩
  obtain ⟨hidle, l, u, ho⟩ := key
  have hu := (hinv l u).1 ho
  have hpcu : (s.th u).pc = .first ∨ (s.th u).pc = .crit := by
    rcases hu with ⟨h, _⟩ | ⟨h, _⟩
    · exact Or.inr h
    · exact Or.inl h
  refine ⟨u, ?_, ?_, hpcu⟩
  · intro hut
    subst hut
    rcases hpcu with h | h <;> rw [hidle] at h <;> cases h
  · unfold enabled
    rcases hpcu with h | h <;> rw [h] <;> cases prog u <;> rfl

/-- non-vacuity: in the state after `[0, 1, 0, 1]` thread 0 is not finished and cannot move (it
waits for lock 1, held by thread 1, which is in its critical section and can move). -/
example : ((run exProg init [0, 1, 0, 1]).th 0).pc ≠ .fin ∧
    enabled exProg (run exProg init [0, 1, 0, 1]) 0 = false ∧
    enabled exProg (run exProg init [0, 1, 0, 1]) 1 = true := by
  decide

/-- The schedule `[0, 1, 0, 1, 1, 0, 0, 0]` : both threads take their first lock, thread 0's
`try_lock` fails (it releases lock 0 and flips to start with lock 1), thread 1 gets both locks and
finishes, then thread 0 locks `1`, `try_lock`s `0` and finishes. -/
example : (run exProg init [0, 1, 0]).th 0 = ⟨.idle, true⟩ ∧
    (run exProg init [0, 1, 0, 1, 1, 0, 0, 0]).th 0 = ⟨.fin, true⟩ ∧
    (run exProg init [0, 1, 0, 1, 1, 0, 0, 0]).th 1 = ⟨.fin, false⟩ ∧
    (run exProg init [0, 1, 0, 1, 1, 0, 0, 0]).owner 0 = none ∧
    (run exProg init [0, 1, 0, 1, 1, 0, 0, 0]).owner 1 = none := by
  decide

end MV.TwoLock

namespace MV.LockOrder

/-- A thread in a wait-for analysis: the locks it holds, and the lock it is blocked on (if any). -/
structure TSt where
  held : List Nat
  wait : Option Nat

/-- rank of the awaited lock (0 when not blocked) -/
def waitRank (rank : Nat → Nat) (th : TSt) : Nat :=
  match th.wait with
  | some l => rank l
  | none => 0

theorem exists_bound (f : TSt → Nat) (ths : List TSt) : ∃ B, ∀ th ∈ ths, f th ≤ B := by
  induction ths with
  | nil => exact ⟨0, by simp⟩
  | cons a as ih =>
    obtain ⟨B, hB⟩ := ih
    refine ⟨max (f a) B, ?_⟩
    intro th hth
    rcases List.mem_cons.1 hth with rfl | h
    · exact Nat.le_max_left _ _
    · exact Nat.le_trans (hB th h) (Nat.le_max_right _ _)

/-- Rank discipline excludes deadlock: if every blocked thread waits for a lock that some thread in the
system holds, and only holds locks of strictly smaller rank than the one it waits for, then some
thread that holds a lock is not blocked. (Lock ranks in the library: pNodeMutex_/pathsMutex_ 0 <
ConcurrentSharedPtr guard 1 < CsgLeafNode::mutex_ 2.) -/
theorem rank_no_deadlock (rank : Nat → Nat) (ths : List TSt)
    (hwait : ∀ th ∈ ths, ∀ l, th.wait = some l → ∃ th' ∈ ths, l ∈ th'.held)
    (hrank : ∀ th ∈ ths, ∀ l, th.wait = some l → ∀ h ∈ th.held, rank h < rank l)
    (hsome : ∃ th ∈ ths, th.wait ≠ none) :
    ∃ th ∈ ths, th.wait = none ∧ th.held ≠ [] := by
  obtain ⟨B, hB⟩ := exists_bound (waitRank rank) ths
  have main : ∀ n, ∀ th ∈ ths, ∀ l, th.wait = some l → B - rank l ≤ n →
      ∃ th ∈ ths, th.wait = none ∧ th.held ≠ [] := by
    intro n
    induction n with
    | zero =>
      intro th hth l hl hn
      obtain ⟨th', hth', hmem⟩ := hwait th hth l hl
      cases hw : th'.wait with
      | none => exact ⟨th', hth', hw, List.ne_nil_of_mem hmem⟩
      | some l' =>
        have h1 := hrank th' hth' l' hw l hmem
        have h2 := hB th' hth'
        simp only [waitRank, hw] at h2
        omega
    | succ n ih =>
      intro th hth l hl hn
      obtain ⟨th', hth', hmem⟩ := hwait th hth l hl
      cases hw : th'.wait with
      | none => exact ⟨th', hth', hw, List.ne_nil_of_mem hmem⟩
      | some l' =>
        have h1 := hrank th' hth' l' hw l hmem
        have h2 := hB th' hth'
        simp only [waitRank, hw] at h2
        exact ih th' hth' l' hw (by omega)
  obtain ⟨th, hth, hw⟩ := hsome
  cases hl : th.wait with
  | none => exact absurd hl hw
  | some l => exact main (B - rank l) th hth l hl (Nat.le_refl _)

/-- non-vacuity: thread A holds the `pNodeMutex_` (rank 0) and waits for the guard (rank 1), thread
B holds the guard and the leaf mutex and is not blocked. -/
example : ∃ th ∈ [TSt.mk [0] (some 1), TSt.mk [1, 2] none], th.wait = none ∧ th.held ≠ [] := by
  apply rank_no_deadlock (fun l => l)
  · simp
  · simp
  · simp

end MV.LockOrder

namespace MV.Sync

theorem disj_iff (o n a m : Nat) :
    (o + n ≤ a ∨ a + m ≤ o ∨ n = 0 ∨ m = 0) ↔
      ∀ id, o ≤ id → id < o + n → a ≤ id → id < a + m → False := by
  constructor
  · intro h id; omega
  · intro h
    by_cases hle : o ≤ a
    · refine Classical.byContradiction fun hc => h a ?_ ?_ ?_ ?_ <;> omega
    · refine Classical.byContradiction fun hc => h o ?_ ?_ ?_ ?_ <;> omega

/-- what `rangesDisjoint` decides -/
theorem rangesDisjoint_iff (rs : List (Nat × Nat)) :
    rangesDisjoint rs = true ↔
      rs.Pairwise (fun p q => ∀ id, p.1 ≤ id → id < p.1 + p.2 → q.1 ≤ id → id < q.1 + q.2 → False) := by
  induction rs with
  | nil => simp [rangesDisjoint]
  | cons r rs ih =>
    obtain ⟨o, n⟩ := r
    simp only [rangesDisjoint, Bool.and_eq_true, List.all_eq_true, Bool.or_eq_true, decide_eq_true_eq,
      List.pairwise_cons, ih]
    constructor
    · rintro ⟨h1, h2⟩
      refine ⟨fun q hq => ?_, h2⟩
      have := h1 q hq
      exact (disj_iff o n q.1 q.2).1 (by omega)
    · rintro ⟨h1, h2⟩
      refine ⟨fun q hq => ?_, h2⟩
      have := (disj_iff o n q.1 q.2).2 (h1 q hq)
      omega

example : rangesDisjoint [(1, 3), (7, 0), (4, 2), (6, 5)] = true ∧ rangesDisjoint [(1, 3), (3, 1)] = false := by
  decide

/-- every range starts at or after the initial counter value (no ID below `c` is handed out again) -/
theorem reserveAll_ge (c : Nat) (ns : List Nat) : ∀ p ∈ reserveAll c ns, c ≤ p.1 := by
  induction ns generalizing c with
  | nil => intro p hp; simp [reserveAll] at hp
  | cons n ns ih =>
    intro p hp
    simp only [reserveAll, List.mem_cons] at hp
    rcases hp with rfl | hp
    · exact Nat.le_refl _
    · have := ih (c + n) p hp; omega

example : ∀ p ∈ reserveAll 1 [3, 0, 2, 5], 1 ≤ p.1 := by decide

/-- `fetch_add` hands out disjoint ranges whatever the order in which the requests hit the counter. -/
theorem reserveAll_disjoint (c : Nat) (ns : List Nat) : rangesDisjoint (reserveAll c ns) = true := by
  induction ns generalizing c with
  | nil => rfl
  | cons n ns ih =>
    simp only [reserveAll, rangesDisjoint, Bool.and_eq_true, List.all_eq_true, Bool.or_eq_true,
      decide_eq_true_eq]
    refine ⟨fun p hp => ?_, ih (c + n)⟩
    have := reserveAll_ge (c + n) ns p hp
    omega

example : rangesDisjoint (reserveAll 1 [3, 0, 2, 5]) = true := by decide
example : reserveAll 1 [3, 0, 2, 5] = [(1, 3), (4, 0), (4, 2), (6, 5)] := by decide

/-- … and they tile `[c, c + sum)` : every id in that interval belongs to exactly the ranges in order, no gap. -/
theorem reserveAll_cover (c : Nat) (ns : List Nat) (id : Nat) (h1 : c ≤ id) (h2 : id < c + ns.sum) :
    ∃ p ∈ reserveAll c ns, p.1 ≤ id ∧ id < p.1 + p.2 := by
  induction ns generalizing c with
  | nil => simp at h2; omega
  | cons n ns ih =>
    simp only [List.sum_cons] at h2
    by_cases hlt : id < c + n
    · exact ⟨(c, n), by simp [reserveAll], h1, hlt⟩
    · obtain ⟨p, hp, hp1, hp2⟩ := ih (c + n) (by omega) (by omega)
      exact ⟨p, by simp [reserveAll, hp], hp1, hp2⟩

example : ∃ p ∈ reserveAll 1 [3, 0, 2, 5], p.1 ≤ 5 ∧ 5 < p.1 + p.2 :=
  reserveAll_cover 1 [3, 0, 2, 5] 5 (by decide) (by decide)

end MV.Sync
