/-
The sequential reference `seqPartition n pairs` (a labelling) induces exactly the
equivalence closure `Conn pairs`.
-/
import MV.Proof.DsuBase

namespace MV.Dsu

theorem Conn.cons_iff {E : List (Nat × Nat)} {x y a b : Nat} :
    Conn ((x, y) :: E) a b ↔
      Conn E a b ∨ (Conn E a x ∧ Conn E y b) ∨ (Conn E a y ∧ Conn E x b) := by
  constructor
  · exact Conn.cons_cases
  · have hxy : Conn ((x, y) :: E) x y := .base (List.mem_cons_self ..)
    rintro (h | ⟨h1, h2⟩ | ⟨h1, h2⟩)
    · exact h.cons
    · exact h1.cons.trans (hxy.trans h2.cons)
    · exact h1.cons.trans (hxy.symm.trans h2.cons)

/-- `lab` represents the partition `Conn E` on `0..n-1` -/
structure LabRel (n : Nat) (lab : List Nat) (E : List (Nat × Nat)) : Prop where
  len : lab.length = n
  iff : ∀ i j, i < n → j < n → (lab.getD i 0 = lab.getD j 0 ↔ Conn E i j)

theorem getD_map_lt (f : Nat → Nat) (l : List Nat) (i d : Nat) (h : i < l.length) :
    (l.map f).getD i d = f (l.getD i d) := by
  simp [List.getD_eq_getElem?_getD, List.getElem?_map, List.getElem?_eq_getElem h]

theorem getD_irrel (l : List Nat) (i d d' : Nat) (h : i < l.length) : l.getD i d = l.getD i d' := by
  simp [List.getD_eq_getElem?_getD, List.getElem?_eq_getElem h]

theorem mergeLab_rel {n : Nat} {lab : List Nat} {E : List (Nat × Nat)} {a b : Nat}
    (h : LabRel n lab E) (ha : a < n) (hb : b < n) : LabRel n (mergeLab lab a b) ((a, b) :: E) := by
  unfold mergeLab
  refine ⟨by simp [h.len], ?_⟩
  intro i j hi hj
  have hli : i < lab.length := h.len ▸ hi
  have hlj : j < lab.length := h.len ▸ hj
  have hla : a < lab.length := h.len ▸ ha
  have hlb : b < lab.length := h.len ▸ hb
  rw [getD_map_lt _ _ _ _ hli, getD_map_lt _ _ _ _ hlj, Conn.cons_iff]
  rw [getD_irrel lab a a 0 hla, getD_irrel lab b b 0 hlb]
  rw [← h.iff i j hi hj, ← h.iff i a hi ha, ← h.iff b j hb hj, ← h.iff i b hi hb,
    ← h.iff a j ha hj]
  generalize lab.getD i 0 = li
  generalize lab.getD j 0 = lj
  generalize lab.getD a 0 = la
  generalize lab.getD b 0 = lb
  split <;> split <;> omega

theorem foldl_mergeLab_rel {n : Nat} (ps : List (Nat × Nat)) :
    ∀ (lab : List Nat) (E : List (Nat × Nat)), LabRel n lab E →
      (∀ p, p ∈ ps → p.1 < n ∧ p.2 < n) →
      LabRel n (ps.foldl (fun lab p => mergeLab lab p.1 p.2) lab) (ps.reverse ++ E) := by
  induction ps with
  | nil => intro lab E h _; simpa using h
  | cons p ps ih =>
    intro lab E h hb
    obtain ⟨a, b⟩ := p
    have hab := hb (a, b) (List.mem_cons_self ..)
    have := ih _ _ (mergeLab_rel h hab.1 hab.2) (fun q hq => hb q (List.mem_cons_of_mem _ hq))
    simpa [List.foldl_cons, List.reverse_cons, List.append_assoc] using this

/-- the sequential reference partition: same label iff related by the equivalence closure -/
theorem seqPartition_spec (n : Nat) (pairs : List (Nat × Nat))
    (hb : ∀ p, p ∈ pairs → p.1 < n ∧ p.2 < n) :
    (seqPartition n pairs).length = n ∧
    ∀ i j, i < n → j < n →
      ((seqPartition n pairs).getD i 0 = (seqPartition n pairs).getD j 0 ↔ Conn pairs i j) := by
  have h0 : LabRel n (List.range n) [] := by
    refine ⟨by simp, fun i j hi hj => ?_⟩
    have : ∀ {x y : Nat}, Conn ([] : List (Nat × Nat)) x y → x = y := by
      intro x y c
      induction c with
      | base h => cases h
      | refl => rfl
      | symm _ ih => exact ih.symm
      | trans _ _ ih1 ih2 => exact ih1.trans ih2
    simp only [List.getD_eq_getElem?_getD, List.getElem?_range hi, List.getElem?_range hj,
      Option.getD_some]
    exact ⟨fun e => e ▸ .refl _, this⟩
  have h := foldl_mergeLab_rel pairs _ _ h0 hb
  refine ⟨h.len, fun i j hi hj => (h.iff i j hi hj).trans ⟨?_, ?_⟩⟩
  · exact Conn.mono (fun p hp => by simpa using hp)
  · exact Conn.mono (fun p hp => by simpa using hp)

/-! ## the labelling is canonical: label = least element of the class -/

/-- every label is a fixed point below its element -/
structure LabCanon (n : Nat) (lab : List Nat) : Prop where
  len : lab.length = n
  le : ∀ i, i < n → lab.getD i 0 ≤ i
  fix : ∀ i, i < n → lab.getD (lab.getD i 0) 0 = lab.getD i 0

theorem mergeLab_canon {n : Nat} {lab : List Nat} {a b : Nat} (h : LabCanon n lab)
    (ha : a < n) (hb : b < n) : LabCanon n (mergeLab lab a b) := by
  have hlen : ∀ i, i < n → i < lab.length := fun i hi => h.len ▸ hi
  have hlt : ∀ i, i < n → lab.getD i 0 < n := fun i hi => Nat.lt_of_le_of_lt (h.le i hi) hi
  unfold mergeLab
  rw [getD_irrel lab a a 0 (hlen a ha), getD_irrel lab b b 0 (hlen b hb)]
  have fa := h.fix a ha
  have fb := h.fix b hb
  have la_lt := hlt a ha
  have lb_lt := hlt b hb
  generalize lab.getD a 0 = la at *
  generalize lab.getD b 0 = lb at *
  refine ⟨by simp [h.len], ?_, ?_⟩
  · intro i hi
    rw [getD_map_lt _ _ _ _ (hlen i hi)]
    have := h.le i hi
    split <;> omega
  · intro i hi
    rw [getD_map_lt _ _ _ _ (hlen i hi)]
    have hfi := h.fix i hi
    have hli := hlt i hi
    generalize lab.getD i 0 = li at *
    by_cases e : li = max la lb
    · rw [if_pos e]
      have hmin_lt : min la lb < n := by omega
      rw [getD_map_lt _ _ _ _ (hlen _ hmin_lt)]
      have : lab.getD (min la lb) 0 = min la lb := by
        rcases Nat.le_total la lb with hle | hle
        · rw [Nat.min_eq_left hle]; exact fa
        · rw [Nat.min_eq_right hle]; exact fb
      rw [this]; split <;> omega
    · rw [if_neg e]
      rw [getD_map_lt _ _ _ _ (hlen _ hli), hfi, if_neg e]

theorem foldl_mergeLab_canon {n : Nat} (ps : List (Nat × Nat)) :
    ∀ (lab : List Nat), LabCanon n lab → (∀ p, p ∈ ps → p.1 < n ∧ p.2 < n) →
      LabCanon n (ps.foldl (fun lab p => mergeLab lab p.1 p.2) lab) := by
  induction ps with
  | nil => intro lab h _; exact h
  | cons p ps ih =>
    intro lab h hb
    have hab := hb p (List.mem_cons_self ..)
    exact ih _ (mergeLab_canon h hab.1 hab.2) (fun q hq => hb q (List.mem_cons_of_mem _ hq))

/-- the label of `i` is the least element of the class of `i` -/
theorem seqPartition_least (n : Nat) (pairs : List (Nat × Nat))
    (hb : ∀ p, p ∈ pairs → p.1 < n ∧ p.2 < n) {i : Nat} (hi : i < n) :
    Conn pairs i ((seqPartition n pairs).getD i 0) ∧
    ∀ j, j < n → Conn pairs i j → (seqPartition n pairs).getD i 0 ≤ j := by
  have h0 : LabCanon n (List.range n) := by
    refine ⟨by simp, fun i hi => ?_, fun i hi => ?_⟩
    · simp [List.getD_eq_getElem?_getD, List.getElem?_range hi]
    · simp [List.getD_eq_getElem?_getD, List.getElem?_range hi]
  have hc : LabCanon n (seqPartition n pairs) := foldl_mergeLab_canon pairs _ h0 hb
  have hs := (seqPartition_spec n pairs hb).2
  have hl : (seqPartition n pairs).getD i 0 < n := Nat.lt_of_le_of_lt (hc.le i hi) hi
  refine ⟨(hs i _ hi hl).1 (hc.fix i hi).symm, fun j hj hij => ?_⟩
  rw [(hs i j hi hj).2 hij]
  exact hc.le j hj

end MV.Dsu
