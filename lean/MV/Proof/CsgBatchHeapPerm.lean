import MV.Proof.CsgBatchHeap
/-
"The heap is a list in ANY arrangement": the serial numbers of the heap entries are pairwise
distinct, so the entry `popMax` extracts, and with it the whole run of `BatchBoolean`'s loop
(the trace of pop / push events, the fresh leaf ids, the serial numbers handed out, the final
entry), is a function of the MULTISET of heap entries.  Whatever arrangement `std::make_heap` /
`push_heap` / `pop_heap` keep the vector in, the model's list computes the same thing.
Core Lean only.
-/
set_option autoImplicit false
namespace MV.CsgBatch

variable {α : Type}

/-! ## distinct serial numbers -/

/-- in a list whose serial numbers are pairwise distinct, an entry is determined by its serial -/
theorem eq_of_serial_eq {l : List (Entry α)} (hnd : (l.map (·.2)).Nodup) {a b : Entry α}
    (ha : a ∈ l) (hb : b ∈ l) (h : a.2 = b.2) : a = b := by
  induction l with
  | nil => cases ha
  | cons x xs ih =>
    rw [List.map_cons, List.nodup_cons] at hnd
    rcases List.mem_cons.1 ha with e1 | ha'
    · rcases List.mem_cons.1 hb with e2 | hb'
      · rw [e1, e2]
      · exact absurd (List.mem_map.2 ⟨b, hb', by rw [← h, e1]⟩) hnd.1
    · rcases List.mem_cons.1 hb with e2 | hb'
      · exact absurd (List.mem_map.2 ⟨a, ha', by rw [h, e2]⟩) hnd.1
      · exact ih hnd.2 ha' hb'

/-- two entries neither of which is above the other under `MeshCompare` carry the same serial -/
theorem serial_eq_of_incomparable (orc : Orc α) {a b : Entry α}
    (h1 : meshCompare orc a b = false) (h2 : meshCompare orc b a = false) : a.2 = b.2 := by
  by_cases hk : orc.key a = orc.key b
  · have := congrArg Prod.snd hk
    exact this
  · rcases keyLt_total hk with h | h
    · simp only [meshCompare] at h1; rw [h1] at h; cases h
    · simp only [meshCompare] at h2; rw [h2] at h; cases h

/-! ## popMax is a function of the multiset -/

/-- **the popped entry does not depend on the arrangement**: if the serial numbers are pairwise
distinct, every rearrangement of the heap pops the same entry and leaves a rearrangement of the
same remainder -/
theorem popMax_perm_inv (orc : Orc α) {l l' : List (Entry α)} (hp : l.Perm l')
    (hnd : (l.map (·.2)).Nodup) {m : Entry α} {r : List (Entry α)}
    (h : popMax (meshCompare orc) l = some (m, r)) :
    ∃ r', popMax (meshCompare orc) l' = some (m, r') ∧ r.Perm r' := by
  have hl := popMax_perm _ h
  have hne : l' ≠ [] := by
    intro e
    have := hp.length_eq
    rw [e, popMax_length _ h] at this
    simp at this
  obtain ⟨m', r', h'⟩ := popMax_isSome (meshCompare orc) hne
  have hl' := popMax_perm _ h'
  have hm : m ∈ l := hl.mem_iff.2 (List.mem_cons_self ..)
  have hm' : m' ∈ l := hp.mem_iff.2 (hl'.mem_iff.2 (List.mem_cons_self ..))
  have hmm : m' = m := by
    by_cases e : m' = m
    · exact e
    · -- `m'` is left in `r`, `m` is left in `r'`; neither is above the other
      have h1 : m' ∈ r := by
        rcases List.mem_cons.1 (hl.mem_iff.1 hm') with e' | e'
        · exact absurd e' e
        · exact e'
      have h2 : m ∈ r' := by
        rcases List.mem_cons.1 (hl'.mem_iff.1 (hp.mem_iff.1 hm)) with e' | e'
        · exact absurd e'.symm e
        · exact e'
      exact eq_of_serial_eq hnd hm' hm
        (serial_eq_of_incomparable orc (popMax_max orc h' m h2) (popMax_max orc h m' h1))
  subst hmm
  exact ⟨r', h', (hl.symm.trans (hp.trans hl')).cons_inv⟩

/-! ## the serial-number invariant -/

/-- the entries of `L` carry pairwise distinct serial numbers, all below `n` -/
def SerL (L : List (Entry α)) (n : Nat) : Prop :=
  (L.map (·.2)).Nodup ∧ ∀ e ∈ L, e.2 < n

theorem SerL.perm {L L' : List (Entry α)} {n : Nat} (hp : L.Perm L') (h : SerL L n) :
    SerL L' n :=
  ⟨(hp.map _).nodup h.1, fun e he => h.2 e (hp.mem_iff.2 he)⟩

theorem SerL.of_cons {a : Entry α} {L : List (Entry α)} {n : Nat} (h : SerL (a :: L) n) :
    SerL L n := by
  refine ⟨?_, fun e he => h.2 e (List.mem_cons_of_mem _ he)⟩
  have := h.1
  rw [List.map_cons, List.nodup_cons] at this
  exact this.2

/-- `emplace_back(x, nextSerial++)` keeps the serial numbers distinct -/
theorem SerL.snoc {L : List (Entry α)} {n : Nat} (h : SerL L n) (x : BLeaf α) :
    SerL (L ++ [(x, n)]) (n + 1) := by
  have hp : (L ++ [(x, n)]).Perm ((x, n) :: L) := List.perm_append_comm
  apply SerL.perm hp.symm
  refine ⟨?_, ?_⟩
  · rw [List.map_cons, List.nodup_cons]
    refine ⟨?_, h.1⟩
    intro hm
    obtain ⟨e, he, hen⟩ := List.mem_map.1 hm
    have := h.2 e he
    simp only at hen
    omega
  · intro e he
    rcases List.mem_cons.1 he with rfl | he
    · exact Nat.lt_succ_self _
    · exact Nat.lt_succ_of_lt (h.2 e he)

theorem SerL.left {A B : List (Entry α)} {n : Nat} (h : SerL (A ++ B) n) : SerL A n := by
  refine ⟨?_, fun e he => h.2 e (List.mem_append_left _ he)⟩
  have := h.1
  rw [List.map_append, List.nodup_append] at this
  exact this.1

/-- **the invariant of `BatchBoolean`'s loop**: the entries alive (in the heap or waiting in
`tmp`) carry pairwise distinct serial numbers, all below `nextSerial` -/
def SerOK (σ : HeapSt α) : Prop := SerL (σ.heap ++ σ.tmp) σ.nextSerial

theorem SerOK_iff (σ : HeapSt α) :
    SerOK σ ↔ ((σ.heap ++ σ.tmp).map (·.2)).Nodup ∧ ∀ e ∈ σ.heap ++ σ.tmp, e.2 < σ.nextSerial :=
  Iff.rfl

theorem SerOK.heap_nodup {σ : HeapSt α} (h : SerOK σ) : (σ.heap.map (·.2)).Nodup :=
  (SerL.left h).1

/-- one iteration of the pop loop keeps the invariant (whatever leaf is pushed, whatever is
traced) -/
theorem SerOK.pair (orc : Orc α) {σ : HeapSt α} (hs : SerOK σ)
    {a b : Entry α} {h1 h2 : List (Entry α)}
    (hp1 : popMax (meshCompare orc) σ.heap = some (a, h1))
    (hp2 : popMax (meshCompare orc) h1 = some (b, h2))
    (r : BLeaf α) (nx : Nat) (ev : List BEv) :
    SerOK { heap := h2, tmp := σ.tmp ++ [(r, σ.nextSerial)], next := nx,
            nextSerial := σ.nextSerial + 1, evs := ev } := by
  have p1 := popMax_perm _ hp1
  have p2 := popMax_perm _ hp2
  have p : (σ.heap ++ σ.tmp).Perm (a :: b :: (h2 ++ σ.tmp)) :=
    (p1.trans (p2.cons a)).append_right σ.tmp
  have h3 : SerL (h2 ++ σ.tmp) σ.nextSerial := (SerL.perm p hs).of_cons.of_cons
  show SerL (h2 ++ (σ.tmp ++ [(r, σ.nextSerial)])) (σ.nextSerial + 1)
  rw [← List.append_assoc]
  exact h3.snoc r

section Loop
variable (ops : Ops α) (orc : Orc α)

theorem popPairs_serOK (k : Nat) (σ : HeapSt α) (hs : SerOK σ) :
    SerOK (popPairs ops orc k σ) := by
  induction k generalizing σ with
  | zero => exact hs
  | succ k ih =>
    simp only [popPairs]
    split
    · cases hp1 : popMax (meshCompare orc) σ.heap with
      | none => exact hs
      | some p1 =>
        obtain ⟨a, h1⟩ := p1
        simp only
        cases hp2 : popMax (meshCompare orc) h1 with
        | none => exact hs
        | some p2 =>
          obtain ⟨b, h2⟩ := p2
          simp only
          exact ih _ (hs.pair orc hp1 hp2 _ _ _)
    · exact hs

theorem pushTmp_serOK (σ : HeapSt α) (hs : SerOK σ) : SerOK (pushTmp σ) := by
  show SerL ((σ.heap ++ σ.tmp) ++ []) σ.nextSerial
  rw [List.append_nil]
  exact hs

theorem heapLoop_serOK (grp f : Nat) (σ : HeapSt α) (hs : SerOK σ) :
    SerOK (heapLoop ops orc grp f σ) := by
  induction f generalizing σ with
  | zero => exact hs
  | succ f ih =>
    simp only [heapLoop]
    split
    · exact ih _ (pushTmp_serOK _ (popPairs_serOK ops orc grp σ hs))
    · exact hs

/-! ## the loop is a function of the multiset of heap entries -/

/-- two states of the loop that differ only in the arrangement of the heap -/
def HeapSt.Eqv (σ σ' : HeapSt α) : Prop :=
  σ.heap.Perm σ'.heap ∧ σ.tmp = σ'.tmp ∧ σ.next = σ'.next ∧ σ.nextSerial = σ'.nextSerial ∧
    σ.evs = σ'.evs

theorem HeapSt.Eqv.refl (σ : HeapSt α) : σ.Eqv σ := ⟨List.Perm.refl _, rfl, rfl, rfl, rfl⟩

theorem HeapSt.Eqv.symm {σ σ' : HeapSt α} (h : σ.Eqv σ') : σ'.Eqv σ :=
  ⟨h.1.symm, h.2.1.symm, h.2.2.1.symm, h.2.2.2.1.symm, h.2.2.2.2.symm⟩

/-- **the pop loop does not see the arrangement**: same pops (ids and serials) in the same
order, same fresh ids, same `tmp`; the heaps left are rearrangements of each other -/
theorem popPairs_perm_inv (k : Nat) (σ σ' : HeapSt α) (he : σ.Eqv σ') (hs : SerOK σ) :
    (popPairs ops orc k σ).Eqv (popPairs ops orc k σ') := by
  induction k generalizing σ σ' with
  | zero => exact he
  | succ k ih =>
    obtain ⟨heap, tmp, next, ns, evs⟩ := σ
    obtain ⟨heap', tmp', next', ns', evs'⟩ := σ'
    obtain ⟨hp, e1, e2, e3, e4⟩ := he
    simp only at hp e1 e2 e3 e4
    subst e1 e2 e3 e4
    simp only [popPairs]
    rw [← hp.length_eq]
    split
    · rename_i hlen
      obtain ⟨a, h1, hp1⟩ := popMax_isSome (meshCompare orc) (l := heap)
        (by intro h; rw [h] at hlen; simp at hlen)
      have l1 := popMax_length _ hp1
      obtain ⟨b, h2, hp2⟩ := popMax_isSome (meshCompare orc) (l := h1)
        (by intro h; rw [h] at l1; simp at l1; omega)
      obtain ⟨h1', hp1', q1⟩ := popMax_perm_inv orc hp hs.heap_nodup hp1
      have nd1 : (h1.map (·.2)).Nodup := by
        have := ((popMax_perm _ hp1).map (·.2)).nodup hs.heap_nodup
        rw [List.map_cons, List.nodup_cons] at this
        exact this.2
      obtain ⟨h2', hp2', q2⟩ := popMax_perm_inv orc q1 nd1 hp2
      simp only [hp1, hp2, hp1', hp2']
      exact ih _ _ ⟨q2, rfl, rfl, rfl, rfl⟩ (hs.pair orc hp1 hp2 _ _ _)
    · exact ⟨hp, rfl, rfl, rfl, rfl⟩

theorem pushTmp_perm_inv (σ σ' : HeapSt α) (he : σ.Eqv σ') : (pushTmp σ).Eqv (pushTmp σ') := by
  obtain ⟨hp, e1, e2, e3, e4⟩ := he
  refine ⟨?_, rfl, e2, e3, ?_⟩
  · show (σ.heap ++ σ.tmp).Perm (σ'.heap ++ σ'.tmp)
    rw [← e1]
    exact hp.append_right _
  · show σ.evs ++ σ.tmp.map _ = σ'.evs ++ σ'.tmp.map _
    rw [e1, e4]

/-- **the whole loop does not see the arrangement**: the same trace of pop / push events, the
same fresh ids and serial numbers; the final heaps are rearrangements of each other -/
theorem heapLoop_perm_inv (grp f : Nat) (σ σ' : HeapSt α) (he : σ.Eqv σ') (hs : SerOK σ) :
    (heapLoop ops orc grp f σ).Eqv (heapLoop ops orc grp f σ') := by
  induction f generalizing σ σ' with
  | zero => exact he
  | succ f ih =>
    simp only [heapLoop]
    rw [← he.1.length_eq]
    split
    · exact ih _ _ (pushTmp_perm_inv _ _ (popPairs_perm_inv ops orc grp σ σ' he hs))
        (pushTmp_serOK _ (popPairs_serOK ops orc grp σ hs))
    · exact he

end Loop

/-! ## the initial heap -/

theorem withSerials_serial_range (l : List (BLeaf α)) (i : Nat) :
    ∀ e ∈ withSerials l i, i ≤ e.2 ∧ e.2 < i + l.length := by
  induction l generalizing i with
  | nil => intro e he; cases he
  | cons x xs ih =>
    intro e he
    simp only [withSerials] at he
    rcases List.mem_cons.1 he with rfl | he
    · simp only [List.length_cons]; omega
    · have := ih (i + 1) e he
      simp only [List.length_cons]; omega

theorem withSerials_nodup (l : List (BLeaf α)) (i : Nat) :
    ((withSerials l i).map (·.2)).Nodup := by
  induction l generalizing i with
  | nil => simp [withSerials]
  | cons x xs ih =>
    simp only [withSerials, List.map_cons, List.nodup_cons]
    refine ⟨?_, ih (i + 1)⟩
    intro hm
    obtain ⟨e, he, hei⟩ := List.mem_map.1 hm
    have := (withSerials_serial_range xs (i + 1) e he).1
    omega

/-- the heap `BatchBoolean` starts from satisfies the invariant -/
theorem withSerials_serL (l : List (BLeaf α)) : SerL (withSerials l 0) l.length :=
  ⟨withSerials_nodup l 0, fun e he => by
    have := (withSerials_serial_range l 0 e he).2
    omega⟩

/-! ## BatchBoolean from any arrangement of the initial heap -/

section Main
variable (ops : Ops α) (orc : Orc α)

/-- **the arrangement of the heap is irrelevant**: run the `while` loop of `BatchBoolean` from
ANY arrangement `h0` of the initial entries `(results[i], i)` (what `std::make_heap` produces):
the trace, the fresh ids, the serial numbers and `tmp` are those of the model's run, the final
heap is a rearrangement of the model's, and when the model ends with the single entry `e`, so
does the other run. -/
theorem batchBoolean_heap_order_irrelevant (grp : Nat) (results : List (BLeaf α)) (next : Nat)
    (ev0 : List BEv) (h0 : List (Entry α)) (hp : h0.Perm (withSerials results 0)) :
    let σ := heapLoop ops orc grp results.length
      { heap := withSerials results 0, next := next, nextSerial := results.length, evs := ev0 }
    let σ' := heapLoop ops orc grp results.length
      { heap := h0, next := next, nextSerial := results.length, evs := ev0 }
    σ'.evs = σ.evs ∧ σ'.next = σ.next ∧ σ'.nextSerial = σ.nextSerial ∧ σ'.tmp = σ.tmp ∧
      σ'.heap.Perm σ.heap ∧ (∀ e, σ.heap = [e] → σ'.heap = [e]) ∧
      (∀ e, σ'.heap = [e] → σ.heap = [e]) := by
  intro σ σ'
  have hs : SerOK (α := α)
      { heap := withSerials results 0, next := next, nextSerial := results.length,
        evs := ev0 } := by
    show SerL (withSerials results 0 ++ []) results.length
    rw [List.append_nil]
    exact withSerials_serL results
  have he : HeapSt.Eqv (α := α)
      { heap := withSerials results 0, next := next, nextSerial := results.length, evs := ev0 }
      { heap := h0, next := next, nextSerial := results.length, evs := ev0 } :=
    ⟨hp.symm, rfl, rfl, rfl, rfl⟩
  obtain ⟨q, e1, e2, e3, e4⟩ := heapLoop_perm_inv ops orc grp results.length _ _ he hs
  refine ⟨e4.symm, e2.symm, e3.symm, e1.symm, q.symm, fun e h => ?_, fun e h => ?_⟩
  · have q' : σ'.heap.Perm σ.heap := q.symm
    rw [h] at q'
    exact q'.eq_singleton
  · have q' : σ.heap.Perm σ'.heap := q
    rw [h] at q'
    exact q'.eq_singleton

/-- `BatchBoolean`'s heap path (l.501-555) started from an arbitrary arrangement `h0` of the
heap instead of the list `withSerials results 0` -/
def batchBooleanFrom (grp : Nat) (results : List (BLeaf α)) (next : Nat)
    (h0 : List (Entry α)) : BBRes α :=
  let σ := heapLoop ops orc grp results.length
    { heap := h0, next := next, nextSerial := results.length,
      evs := [.start (results.map (·.id))] }
  match σ.heap with
  | [e] => { ret := some e.1, next := σ.next, evs := σ.evs }
  | _ => { ret := none, next := σ.next, evs := σ.evs }

/-- for three operands or more `batchBoolean` IS the heap path from `withSerials results 0` -/
theorem batchBoolean_eq_from (grp : Nat) (results : List (BLeaf α)) (next : Nat)
    (h3 : 3 ≤ results.length) :
    batchBoolean ops orc grp results next =
      batchBooleanFrom ops orc grp results next (withSerials results 0) := by
  match results, h3 with
  | a :: b :: c :: rest, _ => rfl

/-- **BatchBoolean does not depend on how the heap is laid out**: for three operands or more
(the heap path), starting the loop from any arrangement of the initial entries returns the same
leaf, the same next fresh id and the same trace as the model. -/
theorem batchBoolean_any_arrangement (grp : Nat) (results : List (BLeaf α)) (next : Nat)
    (h3 : 3 ≤ results.length) (h0 : List (Entry α)) (hp : h0.Perm (withSerials results 0)) :
    batchBooleanFrom ops orc grp results next h0 = batchBoolean ops orc grp results next := by
  rw [batchBoolean_eq_from ops orc grp results next h3]
  obtain ⟨e1, e2, _, _, q, _, _⟩ := batchBoolean_heap_order_irrelevant ops orc grp results next
    [.start (results.map (·.id))] h0 hp
  simp only [batchBooleanFrom]
  rw [e1, e2]
  generalize (heapLoop ops orc grp results.length
    { heap := withSerials results 0, next := next, nextSerial := results.length,
      evs := [.start (results.map (·.id))] }).heap = H at q
  generalize (heapLoop ops orc grp results.length
    { heap := h0, next := next, nextSerial := results.length,
      evs := [.start (results.map (·.id))] }).heap = H' at q
  match H, q with
  | [], q => rw [q.eq_nil]
  | [e], q => rw [q.eq_singleton]
  | x :: y :: t, q =>
    match H', q with
    | [], q => exact absurd q.symm.eq_nil (by simp)
    | [e], q => exact absurd q.symm.eq_singleton (by simp)
    | x' :: y' :: t', _ => rfl

end Main
end MV.CsgBatch
