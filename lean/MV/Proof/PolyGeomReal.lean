import MV.Proof.PolyGeomField
import Mathlib.Analysis.Real.Sqrt
/-! The class `HasSqrt` of MV/Proof/PolyGeomField.lean is inhabited by the real square root: every theorem
of MV/Props/C10b.lean holds over ℝ with `std::sqrt` read as `Real.sqrt`. -/
namespace MV.PolyGeom

noncomputable instance realHasSqrt : HasSqrt ℝ where
  sqrt := Real.sqrt
  sqrt_pos _ h := Real.sqrt_pos.2 h
  sqrt_zero := Real.sqrt_zero

end MV.PolyGeom
