import MV.Model.Export
import MV.Model.MeshIds
import MV.Proof.Mesh
/-! shared definitions for `MV/Props/C07.lean`, `MV/Props/C08a.lean`, `MV/Props/C08b.lean`
(helper lemmas live in `MV/Proof/ExportRuns.lean` and `MV/Proof/ExportVerts.lean`) -/
namespace MV.Export
open List

variable {τ : Type}

/-- the `MeshRelationD` invariant the sortedness clause needs: every triangle's meshID is a key
of `meshIDtransform`, and the relation stored there names the triangle's original -/
def Consistent (refs : List TriRef) (m : RelMap τ) : Prop :=
  ∀ r ∈ refs, ∃ rel, RelMap.lookup m r.meshID = some rel ∧ rel.originalID = r.originalID

/-- strict order of the run sort key (originalID, meshID) on runs -/
def RunKeyLT (a b : Run τ) : Prop :=
  a.rel.originalID < b.rel.originalID ∨ (a.rel.originalID = b.rel.originalID ∧ a.meshID < b.meshID)

end MV.Export
