import MV.Proof.HalfedgeSoupA
/-!
C09b, part B: `search` / `body` / `serialLoop` (impl.cpp:456-502, 530-532) on ARBITRARY triangle
soups with an even number of halfedge pairs: no out-of-range access, no fuel exhaustion, `ids`
stays a permutation of `[0, numHalfedge)`, removal marks come in position pairs `(j, j+numEdge)`.
-/
namespace MV.Halfedge
open List

theorem rd_nat {α : Type} {x : Array α} {k : Nat} (d : α) (h : k < x.size) :
    rd x (k : Int) = .ok (x.getD k d) := rd_ok (getElem?_eq_some_getD d h)

theorem wr_nat {α : Type} {x : Array α} {k : Nat} (v : α) (h : k < x.size) :
    wr x (k : Int) v = .ok (x.setIfInBounds k v) := wr_ok h

/-- invariant of the serial loop before iteration `i` (`M = numEdge`, `2M = numHalfedge`) -/
structure SInv (he : Array CH) (M i : Nat) (s : St) : Prop where
  hsz : he.size = 2 * M
  h3 : (2 * M) % 3 = 0
  isz : s.ids.size = 2 * M
  rsz : s.removed.size = 2 * M
  perm : s.ids.toList ~ List.range (2 * M)
  stat : ∀ p, p < 2 * M → remAt s.removed s.ids p = true → (p < i ∨ (M ≤ p ∧ p < M + i))
  sym : ∀ j, j < M → remAt s.removed s.ids j = remAt s.removed s.ids (j + M)

theorem getD_toList (xs : Array Nat) (p : Nat) (hp : p < xs.size) :
    xs.getD p 0 = xs.toList[p]'(by simpa using hp) := by
  simp [Array.getD_eq_getD_getElem?, hp]

theorem perm_val {N : Nat} {ids : Array Nat} (hs : ids.size = N) (h : ids.toList ~ List.range N)
    (p : Nat) (hp : p < N) : ids.getD p 0 < N := by
  rw [getD_toList ids p (by omega)]
  exact List.mem_range.1 ((h.mem_iff).1 (List.getElem_mem _))

theorem perm_inj {N : Nat} {ids : Array Nat} (hs : ids.size = N) (h : ids.toList ~ List.range N)
    (p q : Nat) (hp : p < N) (hq : q < N) (he : ids.getD p 0 = ids.getD q 0) : p = q := by
  rw [getD_toList ids p (by omega), getD_toList ids q (by omega)] at he
  have hnd : ids.toList.Nodup := (h.nodup_iff).2 List.nodup_range
  exact (List.getElem_inj hnd).mp he

theorem SInv.vr {he : Array CH} {M i : Nat} {s : St} (h : SInv he M i s) :
    VR (2 * M) s.removed s.ids := ⟨h.isz, h.rsz, perm_val h.isz h.perm⟩

theorem SInv.mono {he : Array CH} {M i : Nat} {s : St} (h : SInv he M i s) : SInv he M (i + 1) s :=
  { h with stat := fun p hp hr => by have := h.stat p hp hr; omega }

/-- what one removal (marking + re-pairing) does, in terms of positions -/
structure StepPost (M i : Nat) (s s' : St) : Prop where
  isz : s'.ids.size = 2 * M
  rsz : s'.removed.size = 2 * M
  perm : s'.ids.toList ~ List.range (2 * M)
  keep : ∀ p, p < 2 * M → p ≠ i → p ≠ i + M → remAt s'.removed s'.ids p = remAt s.removed s.ids p
  at0 : remAt s'.removed s'.ids i = true
  at1 : remAt s'.removed s'.ids (i + M) = true

theorem SInv.step {he : Array CH} {M i : Nat} {s s' : St} (h : SInv he M i s) (hi : i < M)
    (q : StepPost M i s s') : SInv he M (i + 1) s' := by
  refine ⟨h.hsz, h.h3, q.isz, q.rsz, q.perm, ?_, ?_⟩
  · intro p hp hr
    by_cases h1 : p = i
    · omega
    · by_cases h2 : p = i + M
      · omega
      · rw [q.keep p hp h1 h2] at hr
        have := h.stat p hp hr; omega
  · intro j hj
    by_cases h1 : j = i
    · subst h1; rw [q.at0, q.at1]
    · rw [q.keep j (by omega) h1 (by omega), q.keep (j + M) (by omega) (by omega) (by omega)]
      exact h.sym j hj

/-- status of a position after marking `pair0 = ids[i]` and `pair1 = ids[k]` -/
theorem remAt_mark {he : Array CH} {M i : Nat} {s : St} (h : SInv he M i s) {k : Nat}
    (hi : i < 2 * M) (hk : k < 2 * M) (p : Nat) (hp : p < 2 * M) :
    remAt ((s.removed.setIfInBounds (s.ids.getD i 0) true).setIfInBounds (s.ids.getD k 0) true) s.ids p
      = (remAt s.removed s.ids p || decide (p = i) || decide (p = k)) := by
  have hv := perm_val h.isz h.perm
  unfold remAt
  rw [MV.Mesh.getD_set1, MV.Mesh.getD_set1]
  simp only [Array.size_setIfInBounds, h.rsz, hv p hp, decide_true, Bool.true_and]
  have e1 : (s.ids.getD p 0 == s.ids.getD i 0) = decide (p = i) := by
    by_cases hh : p = i
    · subst hh; simp
    · have : s.ids.getD p 0 ≠ s.ids.getD i 0 := fun he' => hh (perm_inj h.isz h.perm p i hp hi he')
      rw [decide_eq_false hh]; exact beq_eq_false_iff_ne.2 this
  have e2 : (s.ids.getD p 0 == s.ids.getD k 0) = decide (p = k) := by
    by_cases hh : p = k
    · subst hh; simp
    · have : s.ids.getD p 0 ≠ s.ids.getD k 0 := fun he' => hh (perm_inj h.isz h.perm p k hp hk he')
      rw [decide_eq_false hh]; exact beq_eq_false_iff_ne.2 this
  rw [e1, e2]


/-- the two marks of impl.cpp:466-467 -/
def mark (s : St) (p0 p1 : Nat) : St :=
  { s with removed := (s.removed.setIfInBounds p0 true).setIfInBounds p1 true }

/-- marking without re-pairing (`i + numEdge == k`) -/
theorem mark_spec {he : Array CH} {M i : Nat} {s : St} (h : SInv he M i s) (hi : i < M) :
    StepPost M i s (mark s (s.ids.getD i 0) (s.ids.getD (i + M) 0)) := by
  have hm := fun p hp => remAt_mark h (k := i + M) (by omega) (by omega) p hp
  refine ⟨h.isz, by simp [mark, h.rsz], h.perm, ?_, ?_, ?_⟩
  · intro p hp h1 h2
    show remAt (mark s _ _).removed s.ids p = _
    unfold mark; simp only []
    rw [hm p hp]; simp [h1, h2]
  · show remAt (mark s _ _).removed s.ids i = _
    unfold mark; simp only []
    rw [hm i (by omega)]; simp
  · show remAt (mark s _ _).removed s.ids (i + M) = _
    unfold mark; simp only []
    rw [hm (i + M) (by omega)]; simp

/-- marking followed by the re-pairing loop (`i + numEdge != k`) -/
theorem reorder_spec {he : Array CH} {M i : Nat} {s : St} (h : SInv he M i s) (hi : i < M)
    {k : Nat} (hk0 : M ≤ k) (hk : k < 2 * M) (hkt : k ≠ i + M)
    (hrk : remAt s.removed s.ids k = false) :
    ∃ s', reorder M i k (s.ids.getD k 0) (mark s (s.ids.getD i 0) (s.ids.getD k 0)) = .ok s' ∧
      StepPost M i s s' := by
  have hm := fun p hp => remAt_mark h (k := k) (by omega) hk p hp
  have hv := perm_val h.isz h.perm
  unfold reorder mark
  simp only []
  generalize hrem : (s.removed.setIfInBounds (s.ids.getD i 0) true).setIfInBounds (s.ids.getD k 0) true = rem' at hm
  generalize hdir : (if (i : Int) + (M : Int) < (k : Int) then (1 : Int) else -1) = dir
  have hd : dir = 1 ∨ dir = -1 := by rw [← hdir]; split <;> simp
  have hk1 : dir = 1 → (i : Int) + (M : Int) < (k : Int) := by
    intro h1; rw [← hdir] at h1; split at h1
    · assumption
    · omega
  have hk2 : dir = -1 → (k : Int) < (i : Int) + (M : Int) := by
    intro h1; rw [← hdir] at h1; split at h1
    · omega
    · omega
  have vr' : VR (2 * M) rem' s.ids := ⟨h.isz, by rw [← hrem]; simp [h.rsz], hv⟩
  have htn : ((i : Int) + (M : Int)).toNat = i + M := by omega
  have hT : remI rem' s.ids ((i : Int) + (M : Int)) = false := by
    unfold remI; rw [htn, hm (i + M) (by omega)]
    have : remAt s.removed s.ids (i + M) = false := by
      cases hc : remAt s.removed s.ids (i + M)
      · rfl
      · have := h.stat (i + M) (by omega) hc; omega
    simp [this]; omega
  have q0 : OQ (2 * M) rem' ((i : Int) + (M : Int)) (k : Int) dir s.ids (s.ids.getD k 0)
      (k : Int) ((k : Int) + dir) s.ids := by
    refine ⟨vr', ?_, ?_, fun _ => rfl, ?_, .inl rfl, ?_, fun _ _ _ => rfl, fun hh => absurd rfl hh⟩
    · intro h1; have := hk1 h1; omega
    · intro h1; have := hk2 h1; omega
    · intro x hx; unfold Btw at hx; omega
    · intro x; simp
  obtain ⟨idsf, ho, vf, cf, kf, k3⟩ := outer_spec (N := 2 * M) (removed := rem') hd (by omega) (by omega)
    (by omega) (by omega) hk1 hk2 hT (s.ids.size + 2) (by have := h.isz; omega) (s.ids.size + 2) (k : Int)
    ((k : Int) + dir) s.ids q0 (by rw [h.isz]; omega)
  simp only [ho, bind, Except.bind]
  have htsz : (i + M) < idsf.size := by rw [vf.isz]; omega
  rw [wr_int (s.ids.getD k 0) (by omega) (by rw [vf.isz]; omega)]
  rw [htn]
  refine ⟨_, rfl, ?_⟩
  rw [htn] at cf
  refine ⟨by simp [vf.isz], vf.rsz, ?_, ?_, ?_, ?_⟩
  · refine List.Perm.trans ?_ h.perm
    rw [List.perm_iff_count]
    intro x
    have h1 := count_setIB idsf (i + M) (s.ids.getD k 0) x htsz
    have h2 := cf x
    show count x (idsf.setIfInBounds (i + M) (s.ids.getD k 0)).toList = count x s.ids.toList
    omega
  · intro p hp h1 h2
    show remAt rem' (idsf.setIfInBounds (i + M) (s.ids.getD k 0)) p = _
    rw [remAt_setIB _ _ _ _ _ htsz, if_neg h2]
    by_cases hpk : p = k
    · subst hpk
      have : remI rem' idsf (p : Int) = false := k3
      unfold remI at this
      rw [Int.toNat_natCast] at this
      rw [this, hrk]
    · rw [kf p hp (by omega), hm p hp]; simp [h1, hpk]
  · show remAt rem' (idsf.setIfInBounds (i + M) (s.ids.getD k 0)) i = _
    rw [remAt_setIB _ _ _ _ _ htsz, if_neg (by omega), kf i (by omega) (by omega), hm i (by omega)]
    simp
  · show remAt rem' (idsf.setIfInBounds (i + M) (s.ids.getD k 0)) (i + M) = _
    rw [remAt_setIB _ _ _ _ _ htsz, if_pos rfl]
    have := hm k hk
    unfold remAt at this
    rw [this]; simp


/-- the `while (1)` over `k` (impl.cpp:460-496): fuel `2M - k` suffices from position `k` -/
theorem search_spec {he : Array CH} {M i : Nat} {s : St} (h : SInv he M i s) (hi : i < M) (h0 : CH) :
    ∀ (f k : Nat), M ≤ k → k < 2 * M → 2 * M - k ≤ f →
      ∃ s', search he M i M (s.ids.getD i 0) h0 f k s = .ok s' ∧ SInv he M (i + 1) s' := by
  have hv := perm_val h.isz h.perm
  intro f
  induction f with
  | zero => intro k _ hk hf; omega
  | succ f ih =>
    intro k hk0 hk hf
    have hp1 : rd s.ids (k : Int) = .ok (s.ids.getD k 0) := rd_nat 0 (by rw [h.isz]; exact hk)
    have hl1 := hv k hk
    have hl0 := hv i (by omega)
    have hh1 : rd he ((s.ids.getD k 0 : Nat) : Int) = .ok (he.getD (s.ids.getD k 0) default) :=
      rd_nat default (by rw [h.hsz]; exact hl1)
    have hnext : ∃ s', (if k + 1 ≥ M + M then (pure s : Except HErr St)
        else search he M i M (s.ids.getD i 0) h0 f (k + 1) s) = .ok s' ∧ SInv he M (i + 1) s' := by
      by_cases hl : k + 1 ≥ M + M
      · exact ⟨s, by simp [hl, pure, Except.pure], h.mono⟩
      · simp only [hl, if_false]
        exact ih (k + 1) (by omega) (by omega) (by omega)
    rw [search]
    simp only [hp1, hh1, bind, Except.bind]
    by_cases hc : (h0.startVert != (he.getD (s.ids.getD k 0) default).endVert ||
        h0.endVert != (he.getD (s.ids.getD k 0) default).startVert) = true
    · exact ⟨s, by simp only [hc, if_true, pure, Except.pure], h.mono⟩
    · simp only [hc, Bool.false_eq_true, if_false]
      have hr1 : rd s.removed ((s.ids.getD k 0 : Nat) : Int) = .ok (remAt s.removed s.ids k) :=
        rd_nat false (by rw [h.rsz]; exact hl1)
      simp only [hr1]
      cases hr : remAt s.removed s.ids k
      · have hn0 : rd he ((nextHalfedge (s.ids.getD i 0) : Nat) : Int)
            = .ok (he.getD (nextHalfedge (s.ids.getD i 0)) default) :=
          rd_nat default (by rw [h.hsz]; exact next_lt h.h3 hl0)
        have hn1 : rd he ((nextHalfedge (s.ids.getD k 0) : Nat) : Int)
            = .ok (he.getD (nextHalfedge (s.ids.getD k 0)) default) :=
          rd_nat default (by rw [h.hsz]; exact next_lt h.h3 hl1)
        simp only [Bool.false_eq_true, if_false, hn0, hn1, pure, Except.pure]
        by_cases ho : ((he.getD (nextHalfedge (s.ids.getD i 0)) default).endVert ==
            (he.getD (nextHalfedge (s.ids.getD k 0)) default).endVert) = true
        · have hw0 : wr s.removed ((s.ids.getD i 0 : Nat) : Int) true
              = .ok (s.removed.setIfInBounds (s.ids.getD i 0) true) :=
            wr_nat true (by rw [h.rsz]; exact hl0)
          have hw1 : wr (s.removed.setIfInBounds (s.ids.getD i 0) true) ((s.ids.getD k 0 : Nat) : Int) true
              = .ok ((s.removed.setIfInBounds (s.ids.getD i 0) true).setIfInBounds (s.ids.getD k 0) true) :=
            wr_nat true (by rw [Array.size_setIfInBounds, h.rsz]; exact hl1)
          simp only [ho, if_true, hw0, hw1]
          by_cases hkt : k = i + M
          · subst hkt
            have := mark_spec h hi
            refine ⟨_, ?_, h.step hi this⟩
            simp [mark]
          · obtain ⟨s', hs', q⟩ := reorder_spec h hi hk0 hk hkt hr
            refine ⟨s', ?_, h.step hi q⟩
            have hne : (i + M != k) = true := by simp; omega
            simp only [hne, if_true]
            exact hs'
        · simp only [ho, Bool.false_eq_true, if_false]
          exact hnext
      · simp only [if_true, pure, Except.pure, Bool.false_eq_true, if_false]
        exact hnext

/-- `body(i, consecutiveStart, numEdge)` (impl.cpp:456-502) -/
theorem body_spec {he : Array CH} {M i cs : Nat} {s : St} (h : SInv he M i s) (hi : i < M)
    (hcs : cs ≤ i) :
    ∃ s' cs', body he M i cs M s = .ok (s', cs') ∧ SInv he M (i + 1) s' ∧ cs' ≤ i + 1 := by
  have hv := perm_val h.isz h.perm
  have hl0 := hv i (by omega)
  have hp0 : rd s.ids (i : Int) = .ok (s.ids.getD i 0) := rd_nat 0 (by rw [h.isz]; omega)
  have hh0 : rd he ((s.ids.getD i 0 : Nat) : Int) = .ok (he.getD (s.ids.getD i 0) default) :=
    rd_nat default (by rw [h.hsz]; exact hl0)
  obtain ⟨s', hs', inv'⟩ := search_spec h hi (he.getD (s.ids.getD i 0) default)
    (M + M + 1 - (cs + M)) (cs + M) (by omega) (by omega) (by omega)
  unfold body
  simp only [hp0, hh0, hs', bind, Except.bind]
  by_cases hlast : i + 1 = M
  · refine ⟨s', cs, ?_, inv', by omega⟩
    simp [hlast, pure, Except.pure]
  · have hv' := perm_val inv'.isz inv'.perm
    have hp1 : rd s'.ids ((i : Int) + 1) = .ok (s'.ids.getD (i + 1) 0) := by
      have := rd_nat (x := s'.ids) (k := i + 1) 0 (by rw [inv'.isz]; omega)
      rwa [Int.natCast_add] at this
    have hh1 : rd he ((s'.ids.getD (i + 1) 0 : Nat) : Int) = .ok (he.getD (s'.ids.getD (i + 1) 0) default) :=
      rd_nat default (by rw [h.hsz]; exact hv' (i + 1) (by omega))
    have hne : (i + 1 == M) = false := by simpa using hlast
    simp only [hne, Bool.false_eq_true, if_false, hp1, hh1]
    split
    · exact ⟨s', cs, rfl, inv', by omega⟩
    · exact ⟨s', i + 1, rfl, inv', by omega⟩

/-- impl.cpp:530-532 -/
theorem serialLoop_spec {he : Array CH} {M : Nat} :
    ∀ (m i cs : Nat) (s : St), i + m = M → cs ≤ i → SInv he M i s →
      ∃ s', serialLoop he M m i cs s = .ok s' ∧ SInv he M M s'
  | 0, i, cs, s, hm, _, inv => by
    have : i = M := by omega
    subst this
    exact ⟨s, rfl, inv⟩
  | m + 1, i, cs, s, hm, hcs, inv => by
    obtain ⟨s', cs', hb, inv', hcs'⟩ := body_spec inv (show i < M by omega) hcs
    obtain ⟨s'', hl, inv''⟩ := serialLoop_spec m (i + 1) cs' s' (by omega) hcs' inv'
    refine ⟨s'', ?_, inv''⟩
    rw [serialLoop]
    simp only [hb, bind, Except.bind]
    exact hl

end MV.Halfedge
