import MV.Model.PartitionCheck
import Mathlib.Data.List.Nodup
/-!
Soundness of the executable pattern checker: `checkTopo … = true → TopoValid …` and
`checkGeom … = true → GeomValid …` (the `Prop`-level statements the table theorems of C19 are
read through), and the triangle count of a valid pattern.
-/
namespace MV.Partition

/-- What "the topological pattern uses each of its vertices and tiles its triangle / quad" means
combinatorially, for a pattern over vertices `0 … nV-1` with sorted divisions `n`. -/
structure TopoValid (n : I4) (nV : Nat) (ts : List Tri) : Prop where
  /-- every triangle index is a vertex of the pattern -/
  inRange : ∀ t ∈ ts, ∀ v ∈ triList t, 0 ≤ v ∧ v < Int.ofNat nV
  /-- no triangle repeats a vertex -/
  nondeg : ∀ t ∈ ts, t.1 ≠ t.2.1 ∧ t.2.1 ≠ t.2.2 ∧ t.2.2 ≠ t.1
  /-- every directed edge is used by at most one triangle -/
  edgesOnce : (dirEdges ts).Nodup
  /-- the boundary is exactly the subdivided outer edges, traversed in order, each by one triangle -/
  boundary : ∀ e ∈ cycleEdges (boundaryCycle n), e ∈ dirEdges ts ∧ (e.2, e.1) ∉ dirEdges ts
  /-- every other directed edge has its reverse exactly once -/
  interiorPaired : ∀ e ∈ dirEdges ts, e ∈ cycleEdges (boundaryCycle n) ∨ (e.2, e.1) ∈ dirEdges ts
  /-- every vertex of the pattern is referenced -/
  allUsed : ∀ v : Nat, v < nV → ∃ e ∈ dirEdges ts, e.1 = Int.ofNat v
  /-- Euler characteristic of a disk: `F + b + 2 = 2 V` -/
  euler : ts.length + (boundaryCycle n).length + 2 = 2 * nV

/-! ### bit-mask lemmas -/

theorem testBit_or_one_shiftLeft (m c x : Nat) : (m ||| (1 <<< c)).testBit x = (m.testBit x || decide (c = x)) := by
  rw [Nat.testBit_or, Nat.one_shiftLeft, Nat.testBit_two_pow]

theorem maskOf_go (codes : List Nat) (m0 x : Nat) :
    (codes.foldl (fun m c => m ||| (1 <<< c)) m0).testBit x = (m0.testBit x || decide (x ∈ codes)) := by
  induction codes generalizing m0 with
  | nil => simp
  | cons c cs ih =>
    simp only [List.foldl, ih, testBit_or_one_shiftLeft, List.mem_cons]
    by_cases h : c = x
    · subst h; simp
    · have h' : ¬ x = c := fun e => h e.symm
      simp [h, h']

theorem testBit_maskOf (codes : List Nat) (x : Nat) : (maskOf codes).testBit x = decide (x ∈ codes) := by
  unfold maskOf
  rw [maskOf_go]
  simp

theorem insertAll_none (codes : List Nat) : codes.foldl insStep (none : Option Nat) = none := by
  induction codes with
  | nil => rfl
  | cons c cs ih => simpa [insStep] using ih

theorem insertAll_spec (codes : List Nat) (m0 m : Nat) (h : insertAll codes m0 = some m) :
    codes.Nodup ∧ (∀ c ∈ codes, m0.testBit c = false) ∧
    ∀ x, m.testBit x = (m0.testBit x || decide (x ∈ codes)) := by
  induction codes generalizing m0 with
  | nil =>
    simp only [insertAll, List.foldl, Option.some.injEq] at h
    subst h
    simp
  | cons c cs ih =>
    unfold insertAll at h
    simp only [List.foldl] at h
    by_cases hc : m0.testBit c = true
    · simp only [insStep, hc, ↓reduceIte] at h
      rw [insertAll_none] at h
      cases h
    · simp only [insStep, hc, Bool.false_eq_true, ↓reduceIte] at h
      change insertAll cs (m0 ||| (1 <<< c)) = some m at h
      obtain ⟨hnd, hfresh, hbits⟩ := ih (m0 ||| (1 <<< c)) h
      have hc' : m0.testBit c = false := by simpa using hc
      refine ⟨?_, ?_, ?_⟩
      · refine List.nodup_cons.mpr ⟨?_, hnd⟩
        intro hmem
        have := hfresh c hmem
        rw [testBit_or_one_shiftLeft] at this
        simp at this
      · intro x hx
        rcases List.mem_cons.mp hx with rfl | hx
        · exact hc'
        · have := hfresh x hx
          rw [testBit_or_one_shiftLeft] at this
          simp only [Bool.or_eq_false_iff] at this
          exact this.1
      · intro x
        rw [hbits x, testBit_or_one_shiftLeft]
        by_cases hx : c = x
        · subst hx; simp
        · have hx' : ¬ x = c := fun e => hx e.symm
          simp [hx, hx']

/-! ### edge codes -/

theorem edgeCode_inj (nV : Nat) (e f : Int × Int) (he1 : 0 ≤ e.1) (he2 : 0 ≤ e.2 ∧ e.2 < Int.ofNat nV)
    (hf1 : 0 ≤ f.1) (hf2 : 0 ≤ f.2 ∧ f.2 < Int.ofNat nV) (h : edgeCode nV e = edgeCode nV f) : e = f := by
  obtain ⟨a, b⟩ := e
  obtain ⟨c, d⟩ := f
  simp only [edgeCode] at h
  simp only [Int.ofNat_eq_natCast] at he1 he2 hf1 hf2
  have hb : b.toNat < nV := by omega
  have hd : d.toNat < nV := by omega
  have h1 : (a.toNat * nV + b.toNat) / nV = (c.toNat * nV + d.toNat) / nV := by rw [h]
  have h2 : (a.toNat * nV + b.toNat) % nV = (c.toNat * nV + d.toNat) % nV := by rw [h]
  have hpos : 0 < nV := by omega
  rw [Nat.mul_comm a.toNat, Nat.mul_comm c.toNat, Nat.mul_add_div hpos, Nat.mul_add_div hpos,
    Nat.div_eq_of_lt hb, Nat.div_eq_of_lt hd] at h1
  rw [Nat.mul_comm a.toNat, Nat.mul_comm c.toNat, Nat.mul_add_mod, Nat.mul_add_mod, Nat.mod_eq_of_lt hb,
    Nat.mod_eq_of_lt hd] at h2
  have : a = c := by omega
  have : b = d := by omega
  simp [*]

theorem mem_dirEdges_inRange (nV : Nat) (ts : List Tri) (hr : ts.all (inRangeTri nV) = true) (e : Int × Int)
    (he : e ∈ dirEdges ts) : (0 ≤ e.1 ∧ e.1 < Int.ofNat nV) ∧ (0 ≤ e.2 ∧ e.2 < Int.ofNat nV) := by
  simp only [dirEdges, List.mem_flatMap] at he
  obtain ⟨t, ht, hm⟩ := he
  have := List.all_eq_true.mp hr t ht
  simp only [inRangeTri, Bool.and_eq_true, decide_eq_true_eq] at this
  simp only [List.mem_cons, List.not_mem_nil, or_false] at hm
  rcases hm with rfl | rfl | rfl <;> simp only [] <;> omega

theorem mem_cycleEdges_inRange (nV : Nat) (l : List Int)
    (hr : l.all (fun v => decide (0 ≤ v) && decide (v < Int.ofNat nV)) = true) (e : Int × Int)
    (he : e ∈ cycleEdges l) : (0 ≤ e.1 ∧ e.1 < Int.ofNat nV) ∧ (0 ≤ e.2 ∧ e.2 < Int.ofNat nV) := by
  cases l with
  | nil => simp [cycleEdges] at he
  | cons x xs =>
    simp only [cycleEdges] at he
    have h1 := List.of_mem_zip he
    have hall := List.all_eq_true.mp hr
    have g : ∀ v, v ∈ x :: xs → 0 ≤ v ∧ v < Int.ofNat nV := by
      intro v hv
      have := hall v hv
      simpa using this
    refine ⟨g _ h1.1, g _ ?_⟩
    have := h1.2
    simp only [List.mem_append, List.mem_singleton] at this
    rcases this with h | h
    · exact List.mem_cons_of_mem _ h
    · rw [h]; exact List.mem_cons_self ..

/-! ### soundness of the combinatorial half -/

theorem checkTopo_sound (n : I4) (nV : Nat) (ts : List Tri) (h : checkTopo n nV ts = true) : TopoValid n nV ts := by
  unfold checkTopo at h
  simp only [Bool.and_eq_true] at h
  obtain ⟨⟨⟨⟨⟨hr, hnd⟩, hbc⟩, hm⟩, hused⟩, heul⟩ := h
  have hrange := mem_dirEdges_inRange nV ts hr
  have hbrange := mem_cycleEdges_inRange nV (boundaryCycle n) hbc
  split at hm
  · cases hm
  · rename_i m hins
    obtain ⟨hnodup, -, hbits⟩ := insertAll_spec _ _ _ hins
    simp only [Nat.zero_testBit, Bool.false_or] at hbits
    simp only [Bool.and_eq_true] at hm
    obtain ⟨hb, hi⟩ := hm
    -- membership of a code ↔ membership of the edge, for in-range edges
    have hcode : ∀ e : Int × Int, (0 ≤ e.1 ∧ e.1 < Int.ofNat nV) ∧ (0 ≤ e.2 ∧ e.2 < Int.ofNat nV) →
        (m.testBit (edgeCode nV e) = true ↔ e ∈ dirEdges ts) := by
      intro e her
      rw [hbits]
      simp only [decide_eq_true_eq, List.mem_map]
      constructor
      · rintro ⟨f, hf, hfe⟩
        have hfr := hrange f hf
        have := edgeCode_inj nV f e hfr.1.1 hfr.2 her.1.1 her.2 hfe
        rwa [← this]
      · intro he
        exact ⟨e, he, rfl⟩
    refine
      { inRange := ?_, nondeg := ?_, edgesOnce := List.Nodup.of_map _ hnodup, boundary := ?_, interiorPaired := ?_,
        allUsed := ?_, euler := by simpa using heul }
    · intro t ht v hv
      have := List.all_eq_true.mp hr t ht
      simp only [inRangeTri, Bool.and_eq_true, decide_eq_true_eq] at this
      simp only [triList, List.mem_cons, List.not_mem_nil, or_false] at hv
      rcases hv with rfl | rfl | rfl <;> omega
    · intro t ht
      have := List.all_eq_true.mp hnd t ht
      simpa [nondegTri, and_assoc] using this
    · intro e he
      have her := hbrange e he
      have := List.all_eq_true.mp hb e he
      simp only [Bool.and_eq_true, Bool.not_eq_true'] at this
      refine ⟨(hcode e her).mp this.1, ?_⟩
      intro hrev
      have := (hcode (e.2, e.1) ⟨her.2, her.1⟩).mpr hrev
      simp_all
    · intro e he
      have her := hrange e he
      have := List.all_eq_true.mp hi e he
      simp only [Bool.or_eq_true] at this
      rcases this with hbm | hrev
      · left
        rw [testBit_maskOf] at hbm
        simp only [decide_eq_true_eq, List.mem_map] at hbm
        obtain ⟨f, hf, hfe⟩ := hbm
        have hfr := hbrange f hf
        have := edgeCode_inj nV f e hfr.1.1 hfr.2 her.1.1 her.2 hfe
        rwa [← this]
      · right
        exact (hcode (e.2, e.1) ⟨her.2, her.1⟩).mp hrev
    · intro v hv
      have hmask : (maskOf ((dirEdges ts).map fun e => e.1.toNat)).testBit v = true := by
        have : maskOf ((dirEdges ts).map fun e => e.1.toNat) = 2 ^ nV - 1 := by simpa using hused
        rw [this, Nat.testBit_two_pow_sub_one]
        simpa using hv
      rw [testBit_maskOf] at hmask
      simp only [decide_eq_true_eq, List.mem_map] at hmask
      obtain ⟨e, he, hev⟩ := hmask
      refine ⟨e, he, ?_⟩
      have := (hrange e he).1
      simp only [Int.ofNat_eq_natCast] at this ⊢
      omega

/-! ### the geometric half -/

/-- Exact-arithmetic statement of "tiles its triangle or quad": barycentric vectors are convex
combinations, the boundary vertices sit at the exact fractions `j / n[i]` of their edge, every
sub-triangle is positively oriented and the signed areas add up to the whole (doubled areas:
1 for the triangle, 2 for the unit square). -/
structure GeomValid (n : I4) (nV : Nat) (ts : List Tri) (bary : List (V4 Rat)) : Prop where
  len : bary.length = nV
  convex : ∀ b ∈ bary, 0 ≤ b.x ∧ 0 ≤ b.y ∧ 0 ≤ b.z ∧ 0 ≤ b.w ∧ b.x + b.y + b.z + b.w = 1
  corners : ∀ i, i < numCorners n → bary.getD i zero4 = unit4 i
  edgePts : ∀ i, i < numCorners n → ∀ j, j < (n.get i).toNat - 1 →
    bary.getD (canonEdgeOffset n i + Int.ofNat j).toNat zero4 = edgePoint (numCorners n) i j (n.get i)
  oriented : ∀ t ∈ ts, 0 < triArea2 (decide (n.d > 0)) bary t
  areaSum : (ts.map (triArea2 (decide (n.d > 0)) bary)).foldl (· + ·) 0 = if n.d > 0 then 2 else 1

theorem checkGeom_sound (n : I4) (nV : Nat) (ts : List Tri) (bary : List (V4 Rat))
    (h : checkGeom n nV ts bary = true) : GeomValid n nV ts bary := by
  unfold checkGeom at h
  simp only [Bool.and_eq_true, decide_eq_true_eq] at h
  obtain ⟨⟨⟨⟨hl, hc⟩, hb⟩, ho⟩, ha⟩ := h
  refine { len := hl, convex := ?_, corners := ?_, edgePts := ?_, oriented := ?_, areaSum := ?_ }
  · intro b hb'
    have := List.all_eq_true.mp hc b hb'
    simpa [convex4, and_assoc] using this
  · intro i hi
    have := List.all_eq_true.mp hb i (List.mem_range.mpr hi)
    simp only [Bool.and_eq_true, decide_eq_true_eq] at this
    exact this.1
  · intro i hi j hj
    have := List.all_eq_true.mp hb i (List.mem_range.mpr hi)
    simp only [Bool.and_eq_true, decide_eq_true_eq] at this
    have := List.all_eq_true.mp this.2 j (List.mem_range.mpr hj)
    simpa using this
  · intro t ht
    have := List.all_eq_true.mp ho t ht
    simpa using this
  · by_cases hq : n.d > 0
    · simpa [hq] using ha
    · simpa [hq] using ha

/-- A pattern accepted by the checker. -/
structure PatternValid (p : Part) : Prop where
  fuel : p.ok = true
  topo : TopoValid p.sorted p.nV p.tris
  geom : GeomValid p.sorted p.nV p.tris (evalBary (α := Rat) p.recs)

theorem checkPart_sound (p : Part) (h : checkPart p = true) : PatternValid p := by
  unfold checkPart at h
  simp only [Bool.and_eq_true] at h
  exact ⟨h.1.1, checkTopo_sound _ _ _ h.1.2, checkGeom_sound _ _ _ _ h.2⟩

/-! ### triangle count -/

/-- A valid pattern with `b` boundary vertices and `i = V - b` interior vertices has
`b + 2 i - 2` triangles (stated without subtraction). -/
theorem count_from_euler (n : I4) (nV : Nat) (ts : List Tri) (h : TopoValid n nV ts) (b i : Nat)
    (hb : (boundaryCycle n).length = b) (hi : nV = b + i) : ts.length + 2 = b + 2 * i := by
  have := h.euler
  omega

theorem boundaryCycle_length_tri (n0 n1 n2 : Nat) (h0 : 1 ≤ n0) (h1 : 1 ≤ n1) (h2 : 1 ≤ n2) :
    (boundaryCycle ⟨Int.ofNat n0, Int.ofNat n1, Int.ofNat n2, 0⟩).length = n0 + n1 + n2 := by
  simp [boundaryCycle, numCorners, List.range_succ, I4.get]
  omega

theorem boundaryCycle_length_quad (n0 n1 n2 n3 : Nat) (h0 : 1 ≤ n0) (h1 : 1 ≤ n1) (h2 : 1 ≤ n2) (h3 : 1 ≤ n3) :
    (boundaryCycle ⟨Int.ofNat n0, Int.ofNat n1, Int.ofNat n2, Int.ofNat n3⟩).length = n0 + n1 + n2 + n3 := by
  have h4 : 0 < n3 := by omega
  simp [boundaryCycle, numCorners, h4, List.range_succ, I4.get]
  omega

end MV.Partition
