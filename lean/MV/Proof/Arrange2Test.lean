import MV.Proof.Arrange2Adj
/-!
C11b: `TestPair` / `SplitAt` keep the identity (seq, left end) of every status edge when no constructed
crossing coincides with a left end, and every issued `TestPair(i, j)` call reaches the pair of edges at
positions `i, j` of the status after the re-insertion.
-/
namespace MV.Arr2
open MV.Sweep2

/-- identity of a status edge: its sequence number and its processed end -/
def key (e : SEdge) : Nat × Pt := (e.seq, e.l)
def keys (l : List SEdge) : List (Nat × Pt) := l.map key

/-- no constructed crossing coincides with the left end of one of the two edges
    (true whenever the crossing lies strictly ahead of the sweep) -/
def NoErase (o : Oracle) : Prop :=
  ∀ al ar bl br q, o.crossing al ar bl br = some q → q ≠ al ∧ q ≠ bl

theorem pendingAdd_status (st : St) (a b : Pt) (m : Int) : (pendingAdd st a b m).status = st.status := by
  unfold pendingAdd; split <;> rfl

theorem pendingAdd_tested (st : St) (a b : Pt) (m : Int) : (pendingAdd st a b m).tested = st.tested := by
  unfold pendingAdd; split <;> rfl

theorem map_set_same {α β : Type} (f : α → β) (l : List α) (i : Nat) (e e' : α)
    (h : l[i]? = some e) (hk : f e' = f e) : (l.set i e').map f = l.map f := by
  induction l generalizing i with
  | nil => simp
  | cons x rest ih =>
    cases i with
    | zero => simp at h; subst h; simp [hk]
    | succ i => simp at h; simp [ih i h]

theorem splitAt_keys (st : St) (idx : Nat) (q : Pt)
    (h : ∀ e, st.status[idx]? = some e → q ≠ e.l) : keys (splitAt st idx q).status = keys st.status := by
  unfold splitAt
  cases he : st.status[idx]? with
  | none => rfl
  | some e =>
    simp only
    by_cases h1 : q = e.r
    · simp [h1]
    · by_cases h2 : q = e.l
      · exact absurd h2 (h e he)
      · simp only [h1, h2, if_false, pendingAdd_status]
        exact map_set_same key _ idx e _ he rfl

theorem splitAt_tested (st : St) (idx : Nat) (q : Pt) : (splitAt st idx q).tested = st.tested := by
  unfold splitAt
  split
  · rfl
  · split
    · rfl
    · split
      · rw [pendingAdd_tested]
      · simp only [pendingAdd_tested]

theorem keys_getElem? (l : List SEdge) (i : Nat) : (keys l)[i]? = (l[i]?).map key := by
  simp [keys]

theorem splitAt2_keys (s : St) (i j : Nat) (q : Pt) (a b : SEdge)
    (ha : s.status[i]? = some a) (hb : s.status[j]? = some b) (hq1 : q ≠ a.l) (hq2 : q ≠ b.l) :
    keys (splitAt (splitAt s j q) i q).status = keys s.status := by
  have k1 : keys (splitAt s j q).status = keys s.status := by
    apply splitAt_keys
    intro e he; rw [hb] at he; cases he; exact hq2
  rw [splitAt_keys, k1]
  intro e he
  have := keys_getElem? (splitAt s j q).status i
  rw [k1, keys_getElem?, ha, he] at this
  simp [key] at this
  rw [← this.2]; exact hq1

/-- `TestPair` with a non-erasing crossing oracle changes only right ends -/
theorem testPair_keys (o : Oracle) (hne : NoErase o) (p : Pt) (st : St) (i j : Nat) :
    keys (testPair o p st i j).status = keys st.status := by
  unfold testPair
  split
  · rfl
  · cases ha : st.status[i]? with
    | none => rfl
    | some a =>
      cases hb : st.status[j]? with
      | none => rfl
      | some b =>
        simp only
        split
        · rfl
        · next hs =>
          have hs1 : ¬ b.r = a.l := fun h => hs (Or.inr (Or.inl h.symm))
          have hs2 : ¬ a.r = b.l := fun h => hs (Or.inr (Or.inr (Or.inl h)))
          split
          · rw [splitAt_keys]
            intro e he; simp only at he; rw [ha] at he; cases he; exact hs1
          · split
            · rw [splitAt_keys]
              intro e he; simp only at he; rw [hb] at he; cases he; exact hs2
            · split
              · rfl
              · next q hc =>
                obtain ⟨hq1, hq2⟩ := hne _ _ _ _ _ hc
                exact splitAt2_keys _ i j q a b ha hb hq1 hq2

/-- the log of tested pairs only grows, and a call past the index guard appends the pair at `i, j` -/
theorem testPair_tested (o : Oracle) (p : Pt) (st : St) (i j : Nat) :
    (testPair o p st i j).tested = st.tested ∨
    ∃ a b, st.status[i]? = some a ∧ st.status[j]? = some b ∧
      (testPair o p st i j).tested = st.tested ++ [(a.seq, b.seq)] := by
  unfold testPair
  by_cases hg : j ≥ st.status.length ∨ i ≥ j
  · left; simp [hg]
  · simp only [hg, if_false]
    cases ha : st.status[i]? with
    | none => left; rfl
    | some a =>
      cases hb : st.status[j]? with
      | none => left; rfl
      | some b =>
        right
        refine ⟨a, b, rfl, rfl, ?_⟩
        simp only
        split
        · rfl
        · split
          · rw [splitAt_tested]
          · split
            · rw [splitAt_tested]
            · split
              · rfl
              · rw [splitAt_tested, splitAt_tested]

theorem testPair_tested_valid (o : Oracle) (p : Pt) (st : St) (i j : Nat) (hij : i < j) (hj : j < st.status.length) :
    ∃ a b, st.status[i]? = some a ∧ st.status[j]? = some b ∧
      (testPair o p st i j).tested = st.tested ++ [(a.seq, b.seq)] := by
  have hi : i < st.status.length := by omega
  refine ⟨st.status[i], st.status[j], List.getElem?_eq_getElem hi, List.getElem?_eq_getElem hj, ?_⟩
  unfold testPair
  have hg : ¬ (j ≥ st.status.length ∨ i ≥ j) := by omega
  simp only [hg, if_false, List.getElem?_eq_getElem hi, List.getElem?_eq_getElem hj]
  split
  · rfl
  · split
    · rw [splitAt_tested]
    · split
      · rw [splitAt_tested]
      · split
        · rfl
        · rw [splitAt_tested, splitAt_tested]

theorem testPair_tested_mono (o : Oracle) (p : Pt) (st : St) (i j : Nat) (x : Nat × Nat)
    (h : x ∈ st.tested) : x ∈ (testPair o p st i j).tested := by
  rcases testPair_tested o p st i j with h1 | ⟨a, b, _, _, h1⟩
  · rw [h1]; exact h
  · rw [h1]; exact List.mem_append_left _ h

theorem fold_tested_mono (o : Oracle) (p : Pt) (cs : List (Nat × Nat)) (st : St) (x : Nat × Nat)
    (h : x ∈ st.tested) : x ∈ (cs.foldl (fun s ij => testPair o p s ij.1 ij.2) st).tested := by
  induction cs generalizing st with
  | nil => exact h
  | cons c rest ih => exact ih _ (testPair_tested_mono o p st c.1 c.2 x h)

theorem fold_keys (o : Oracle) (hne : NoErase o) (p : Pt) (cs : List (Nat × Nat)) (st : St) :
    keys (cs.foldl (fun s ij => testPair o p s ij.1 ij.2) st).status = keys st.status := by
  induction cs generalizing st with
  | nil => rfl
  | cons c rest ih => simp only [List.foldl_cons]; rw [ih, testPair_keys o hne]

/-- every call `(i, j)` of the list, issued on a status whose edge identities are those of `st`, logs the
    identities found at positions `i, j` of `st` -/
theorem fold_tested (o : Oracle) (hne : NoErase o) (p : Pt) (cs : List (Nat × Nat)) (st : St)
    (i j : Nat) (x y : SEdge) (hij : i < j) (hx : st.status[i]? = some x) (hy : st.status[j]? = some y)
    (hmem : (i, j) ∈ cs) :
    (x.seq, y.seq) ∈ (cs.foldl (fun s ij => testPair o p s ij.1 ij.2) st).tested := by
  induction cs generalizing st x y with
  | nil => simp at hmem
  | cons c rest ih =>
    simp only [List.foldl_cons]
    rcases List.mem_cons.mp hmem with h | h
    · apply fold_tested_mono
      have hj : j < st.status.length := by
        rcases Nat.lt_or_ge j st.status.length with h' | h'
        · exact h'
        · rw [List.getElem?_eq_none h'] at hy; cases hy
      obtain ⟨a, b, ha, hb, ht⟩ := testPair_tested_valid o p st i j hij hj
      rw [← h]; simp only
      rw [ht, hx] at *
      rw [hy] at hb
      cases ha; cases hb
      exact List.mem_append_right _ (List.mem_singleton.mpr rfl)
    · have hk := testPair_keys o hne p st c.1 c.2
      have kx := keys_getElem? (testPair o p st c.1 c.2).status i
      have ky := keys_getElem? (testPair o p st c.1 c.2).status j
      rw [hk, keys_getElem?, hx] at kx
      rw [hk, keys_getElem?, hy] at ky
      cases hx' : (testPair o p st c.1 c.2).status[i]? with
      | none => rw [hx'] at kx; simp at kx
      | some x' =>
        cases hy' : (testPair o p st c.1 c.2).status[j]? with
        | none => rw [hy'] at ky; simp at ky
        | some y' =>
          rw [hx'] at kx; rw [hy'] at ky
          simp [key] at kx ky
          have := ih (testPair o p st c.1 c.2) x' y' hx' hy' h
          rw [kx.1, ky.1]; exact this

end MV.Arr2
