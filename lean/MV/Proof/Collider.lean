/-
Proofs for the collider model (property C14), split by topic:
  ColliderBase   the abstract tree `T`, `Rep`, `toTree`, consequences of `T.cover`
  ColliderDelta  clz32 / PrefixLength = common prefix of 64-bit keys, `delta_min`, `delta_ne`
  ColliderRadix  RangeEnd / FindSplit / CreateRadixTree produce a well-formed Karras tree
  ColliderQuery  FindCollision = recursive traversal; reports exactly the overlapping leaves
  ColliderBoxes  BuildInternalBoxes for any arrival order; Transform
-/
import MV.Proof.ColliderBase
import MV.Proof.ColliderDelta
import MV.Proof.ColliderRadix
import MV.Proof.ColliderQuery
import MV.Proof.ColliderBoxes
import MV.Proof.ColliderSpec
