import MV.Model.CrossOps
import MV.Proof.CrossOpsField
/-!
`SimplifyRing` (cross_section.cpp:130-188), part A: the output is an in-order subset of the input
(any `Scalar`), the popped entry is minimal (exact instance), and the heap invariant
"every live vertex has a current-stamp entry carrying its current deviation" with its
preservation by the three branches of the loop.
-/
namespace MV.CrossOps

/-! ### (1) the output is a sublist of the input, for any `Scalar` -/

theorem map_getD_range {β : Type} (l : List β) (d : β) :
    (List.range l.length).map (fun i => l.getD i d) = l := by
  apply List.ext_getElem
  · simp
  · intro i h1 h2
    simp [List.getElem?_eq_getElem h2]

theorem simplifyKept_sublist {α : Type} [Scalar α] (ring : List (V2 α)) (tol : α) :
    (simplifyKept ring tol).Sublist (List.range ring.length) := by
  unfold simplifyKept
  split
  · exact List.Sublist.refl _
  · exact List.filter_sublist

theorem simplify_sublist {α : Type} [Scalar α] (ring : List (V2 α)) (tol : α) :
    (simplifyRing ring tol).Sublist ring := by
  have h := (simplifyKept_sublist ring tol).map (fun i => ring.getD i V2.zero)
  rw [map_getD_range] at h
  exact h

/-! ### generic facts -/

section Generic
variable {α : Type} [Scalar α]

theorem deviation2_congr (r : Nat → V2 α) (prev next prev' next' : Nat → Nat) (k : Nat)
    (hp : prev' k = prev k) (hn : next' k = next k) :
    deviation2 r prev' next' k = deviation2 r prev next k := by
  simp only [deviation2, hp, hn]

theorem mem_eraseIdx_of_ne {β : Type} (l : List β) (k : Nat) (hk : k < l.length) (e : β)
    (he : e ∈ l) (hne : e ≠ l[k]) : e ∈ l.eraseIdx k := by
  rw [List.mem_eraseIdx_iff_getElem]
  obtain ⟨i, hi, rfl⟩ := List.mem_iff_getElem.1 he
  refine ⟨i, hi, ?_, rfl⟩
  rintro rfl
  exact hne rfl

/-- removing a live index `< n` drops the count of live indices by one -/
theorem filter_upd_false (alive : Nat → Bool) (n i : Nat) :
    (List.range n).filter (upd alive i false) = ((List.range n).filter alive).erase i := by
  rw [(List.nodup_range.filter _).erase_eq_filter, List.filter_filter]
  apply List.filter_congr
  intro j _
  by_cases h : j = i <;> simp [upd, h]

theorem length_filter_upd_false (alive : Nat → Bool) (n i : Nat) (hi : i < n)
    (ha : alive i = true) :
    ((List.range n).filter (upd alive i false)).length + 1 = ((List.range n).filter alive).length := by
  rw [filter_upd_false]
  have hmem : i ∈ (List.range n).filter alive := by simp [hi, ha]
  rw [List.length_erase_of_mem hmem]
  have := List.length_pos_of_mem hmem
  omega

end Generic

/-! ### the popped entry is minimal (exact instance) -/

section Field
variable {F : Type} [Field F] [LinearOrder F]

theorem worse_iff (a b : Entry F) :
    worse a b = true ↔ b.d2 < a.d2 ∨ (a.d2 = b.d2 ∧ b.idx < a.idx) := by
  simp [worse]

theorem worse_irrefl (a : Entry F) : ¬ worse a a = true := by
  simp [worse_iff]

theorem worse_trans {a b c : Entry F} (h1 : worse a b = true) (h2 : worse b c = true) :
    worse a c = true := by
  rw [worse_iff] at *
  rcases h1 with h1 | ⟨h1, h1'⟩ <;> rcases h2 with h2 | ⟨h2, h2'⟩
  · exact Or.inl (lt_trans h2 h1)
  · exact Or.inl (h2 ▸ h1)
  · exact Or.inl (h1 ▸ h2)
  · exact Or.inr ⟨h1.trans h2, lt_trans h2' h1'⟩

theorem le_of_not_worse {a b : Entry F} (h : ¬ worse a b = true) : a.d2 ≤ b.d2 := by
  rw [worse_iff] at h
  exact not_lt.1 fun hlt => h (Or.inl hlt)

theorem minIdxFrom_spec (es : List (Entry F)) :
    ∀ (pre : List (Entry F)) (b : Entry F) (bi : Nat),
      (pre ++ es)[bi]? = some b → (∀ e ∈ pre, ¬ worse b e = true) →
      ∃ t, (pre ++ es)[minIdxFrom b bi pre.length es]? = some t ∧
        ∀ e ∈ pre ++ es, ¬ worse t e = true := by
  induction es with
  | nil =>
    intro pre b bi hb hmin
    exact ⟨b, by simpa [minIdxFrom] using hb, by simpa using hmin⟩
  | cons e es ih =>
    intro pre b bi hb hmin
    have happ : pre ++ e :: es = (pre ++ [e]) ++ es := by simp
    have hlen : (pre ++ [e]).length = pre.length + 1 := by simp
    simp only [minIdxFrom]
    rw [happ, ← hlen]
    split
    · rename_i hw
      apply ih (pre ++ [e]) e pre.length
      · simp
      · intro x hx
        rcases List.mem_append.1 hx with hx | hx
        · exact fun hex => hmin x hx (worse_trans hw hex)
        · rw [List.mem_singleton.1 hx]; exact worse_irrefl e
    · rename_i hw
      apply ih (pre ++ [e]) b bi
      · rw [← happ]; exact hb
      · intro x hx
        rcases List.mem_append.1 hx with hx | hx
        · exact hmin x hx
        · rw [List.mem_singleton.1 hx]; exact hw

/-- `heap.top()` is an entry no entry is better than -/
theorem minIdx_min (h : List (Entry F)) (hne : h ≠ []) :
    ∀ e ∈ h, ¬ worse (h[minIdx h]'(minIdx_lt h hne)) e = true := by
  cases h with
  | nil => exact absurd rfl hne
  | cons a as =>
    obtain ⟨t, ht, hmin⟩ := minIdxFrom_spec as [a] a 0 (by simp) (by
      intro e he; rw [List.mem_singleton.1 he]; exact worse_irrefl a)
    have hlt := minIdx_lt (a :: as) hne
    have heq : (a :: as)[minIdx (a :: as)] = t := by
      have : (a :: as)[minIdx (a :: as)]? = some t := by simpa [minIdx] using ht
      rw [List.getElem?_eq_getElem hlt] at this
      exact Option.some.inj this
    rw [heq]
    simpa using hmin

theorem minIdx_d2_le (h : List (Entry F)) (hne : h ≠ []) :
    ∀ e ∈ h, (h[minIdx h]'(minIdx_lt h hne)).d2 ≤ e.d2 :=
  fun e he => le_of_not_worse (minIdx_min h hne e he)

/-! ### the invariant of the loop -/

/-- (C) the counter counts the live indices, (R) everything stays in range, (S) no entry is newer
than the stamp of its vertex, (H1a) every live vertex has a current entry, (H1b) a current entry
of a live vertex carries the deviation from the CURRENT neighbours. -/
structure SInv (r : Nat → V2 F) (n : Nat) (st : SState F) : Prop where
  cnt : st.numAlive = ((List.range n).filter st.alive).length
  ge3 : 3 ≤ st.numAlive
  hidx : ∀ e ∈ st.heap, e.idx < n
  hprev : ∀ i < n, st.prev i < n
  hnext : ∀ i < n, st.next i < n
  hstamp : ∀ e ∈ st.heap, e.stamp ≤ st.stamp e.idx
  h1a : ∀ i < n, st.alive i = true → ∃ e ∈ st.heap, e.idx = i ∧ e.stamp = st.stamp i
  h1b : ∀ e ∈ st.heap, st.alive e.idx = true → e.stamp = st.stamp e.idx →
    e.d2 = deviation2 r st.prev st.next e.idx

theorem inv_init (r : Nat → V2 F) (n : Nat) (hn : 3 < n) : SInv r n (simplifyInit r n) where
  cnt := by simp [simplifyInit]
  ge3 := by simp only [simplifyInit]; omega
  hidx := by
    intro e he
    simp only [simplifyInit, List.mem_map, List.mem_range] at he
    obtain ⟨i, hi, rfl⟩ := he
    exact hi
  hprev := fun i _ => Nat.mod_lt _ (by omega)
  hnext := fun i _ => Nat.mod_lt _ (by omega)
  hstamp := by
    intro e he
    simp only [simplifyInit, List.mem_map, List.mem_range] at he
    obtain ⟨i, hi, rfl⟩ := he
    exact Nat.le_refl _
  h1a := by
    intro i hi _
    refine ⟨⟨deviation2 r (fun i => (i + n - 1) % n) (fun i => (i + 1) % n) i, 0, i⟩, ?_, rfl, rfl⟩
    simp only [simplifyInit, List.mem_map, List.mem_range]
    exact ⟨i, hi, rfl⟩
  h1b := by
    intro e he _ _
    simp only [simplifyInit, List.mem_map, List.mem_range] at he
    obtain ⟨i, hi, rfl⟩ := he
    rfl

/-- the stale-pop branch (`continue`) keeps the invariant -/
theorem inv_skip (r : Nat → V2 F) (n : Nat) (st : SState F) (hinv : SInv r n st)
    (hne : st.heap ≠ [])
    (hstale : (!st.alive (st.heap[minIdx st.heap]'(minIdx_lt _ hne)).idx ||
      (st.heap[minIdx st.heap]'(minIdx_lt _ hne)).stamp !=
        st.stamp (st.heap[minIdx st.heap]'(minIdx_lt _ hne)).idx) = true) :
    SInv r n { st with heap := st.heap.eraseIdx (minIdx st.heap) } where
  cnt := hinv.cnt
  ge3 := hinv.ge3
  hidx := fun e he => hinv.hidx e (List.mem_of_mem_eraseIdx he)
  hprev := hinv.hprev
  hnext := hinv.hnext
  hstamp := fun e he => hinv.hstamp e (List.mem_of_mem_eraseIdx he)
  h1a := by
    intro i hi ha
    obtain ⟨e, he, hei, hes⟩ := hinv.h1a i hi ha
    refine ⟨e, mem_eraseIdx_of_ne _ _ (minIdx_lt _ hne) e he ?_, hei, hes⟩
    intro heq
    rw [← heq, hei, hes, ha] at hstale
    simp at hstale
  h1b := fun e he => hinv.h1b e (List.mem_of_mem_eraseIdx he)

section RemoveFields
variable {α : Type} [Scalar α] (r : Nat → V2 α) (st : SState α) (rest : List (Entry α)) (i : Nat)

theorem removeVertex_prev :
    (removeVertex r st rest i).prev = upd st.prev (st.next i) (st.prev i) := rfl
theorem removeVertex_next :
    (removeVertex r st rest i).next = upd st.next (st.prev i) (st.next i) := rfl
theorem removeVertex_alive : (removeVertex r st rest i).alive = upd st.alive i false := rfl
theorem removeVertex_numAlive : (removeVertex r st rest i).numAlive = st.numAlive - 1 := rfl
theorem removeVertex_heap : (removeVertex r st rest i).heap =
    ⟨deviation2 r (removeVertex r st rest i).prev (removeVertex r st rest i).next (st.next i),
      (removeVertex r st rest i).stamp (st.next i), st.next i⟩ ::
    ⟨deviation2 r (removeVertex r st rest i).prev (removeVertex r st rest i).next (st.prev i),
      st.stamp (st.prev i) + 1, st.prev i⟩ :: rest := by
  simp [removeVertex, upd]
theorem removeVertex_stamp (j : Nat) : (removeVertex r st rest i).stamp j =
    if j = st.next i then (if st.next i = st.prev i then st.stamp (st.prev i) + 1
      else st.stamp (st.next i)) + 1
    else if j = st.prev i then st.stamp (st.prev i) + 1 else st.stamp j := by
  simp only [removeVertex, upd]

theorem removeVertex_stamp_mono (j : Nat) : st.stamp j ≤ (removeVertex r st rest i).stamp j := by
  rw [removeVertex_stamp]
  split
  · rename_i h; subst h
    split
    · rename_i h; rw [← h]; omega
    · omega
  · split
    · rename_i h; subst h; omega
    · exact Nat.le_refl _

theorem removeVertex_stamp_next : st.stamp (st.next i) < (removeVertex r st rest i).stamp (st.next i) := by
  rw [removeVertex_stamp, if_pos rfl]
  split
  · rename_i h; rw [← h]; omega
  · omega

theorem removeVertex_stamp_prev_le :
    st.stamp (st.prev i) + 1 ≤ (removeVertex r st rest i).stamp (st.prev i) := by
  rw [removeVertex_stamp]
  split
  · rename_i h; rw [← h, if_pos rfl]; omega
  · rw [if_pos rfl]

theorem removeVertex_stamp_prev_ne (h : st.prev i ≠ st.next i) :
    (removeVertex r st rest i).stamp (st.prev i) = st.stamp (st.prev i) + 1 := by
  rw [removeVertex_stamp, if_neg h, if_pos rfl]

theorem removeVertex_stamp_other (j : Nat) (h1 : j ≠ st.next i) (h2 : j ≠ st.prev i) :
    (removeVertex r st rest i).stamp j = st.stamp j := by
  rw [removeVertex_stamp, if_neg h1, if_neg h2]

end RemoveFields

/-- the removal branch keeps the invariant -/
theorem inv_remove (r : Nat → V2 F) (n : Nat) (st : SState F) (hinv : SInv r n st)
    (rest : List (Entry F)) (hsub : ∀ e ∈ rest, e ∈ st.heap) (i : Nat)
    (hrest : ∀ e ∈ st.heap, e.idx ≠ i → e ∈ rest)
    (hi : i < n) (ha : st.alive i = true) (hgt : 3 < st.numAlive) :
    SInv r n (removeVertex r st rest i) := by
  have hp := hinv.hprev i hi
  have hnx := hinv.hnext i hi
  refine ⟨?_, ?_, ?_, ?_, ?_, ?_, ?_, ?_⟩
  · have := length_filter_upd_false st.alive n i hi ha
    have := hinv.cnt
    rw [removeVertex_numAlive, removeVertex_alive]; omega
  · rw [removeVertex_numAlive]; omega
  · intro e he
    rw [removeVertex_heap] at he
    simp only [List.mem_cons] at he
    rcases he with rfl | rfl | he
    · exact hnx
    · exact hp
    · exact hinv.hidx e (hsub e he)
  · intro j hj
    simp only [removeVertex_prev, upd]
    split
    · exact hp
    · exact hinv.hprev j hj
  · intro j hj
    simp only [removeVertex_next, upd]
    split
    · exact hnx
    · exact hinv.hnext j hj
  · intro e he
    rw [removeVertex_heap] at he
    simp only [List.mem_cons] at he
    rcases he with rfl | rfl | he
    · exact Nat.le_refl _
    · exact removeVertex_stamp_prev_le r st rest i
    · exact Nat.le_trans (hinv.hstamp e (hsub e he)) (removeVertex_stamp_mono r st rest i _)
  · intro j hj haj
    simp only [removeVertex_alive, upd] at haj
    have hji : j ≠ i := by
      rintro rfl; simp at haj
    rw [if_neg hji] at haj
    rw [removeVertex_heap]
    by_cases hjn : j = st.next i
    · exact ⟨_, List.mem_cons_self, hjn.symm, by rw [hjn]⟩
    · by_cases hjp : j = st.prev i
      · refine ⟨_, List.mem_cons_of_mem _ List.mem_cons_self, hjp.symm, ?_⟩
        rw [hjp, removeVertex_stamp_prev_ne r st rest i (hjp ▸ hjn)]
      · obtain ⟨e, he, hei, hes⟩ := hinv.h1a j hj haj
        refine ⟨e, List.mem_cons_of_mem _ (List.mem_cons_of_mem _ (hrest e he (hei ▸ hji))), hei, ?_⟩
        rw [removeVertex_stamp_other r st rest i j hjn hjp]; exact hes
  · intro e he hae hse
    rw [removeVertex_heap] at he
    simp only [List.mem_cons] at he
    rcases he with rfl | rfl | he
    · rfl
    · rfl
    · have hst := hinv.hstamp e (hsub e he)
      simp only [removeVertex_alive, upd] at hae
      have hei : e.idx ≠ i := by
        intro h; rw [if_pos h] at hae; simp at hae
      rw [if_neg hei] at hae
      by_cases hen : e.idx = st.next i
      · exfalso
        have := removeVertex_stamp_next r st rest i
        rw [hen] at hse hst; omega
      · by_cases hep : e.idx = st.prev i
        · exfalso
          have := removeVertex_stamp_prev_le r st rest i
          rw [hep] at hse hst; omega
        · rw [removeVertex_stamp_other r st rest i _ hen hep] at hse
          rw [hinv.h1b e (hsub e he) hae hse]
          symm
          apply deviation2_congr
          · simp only [removeVertex_prev, upd, if_neg hen]
          · simp only [removeVertex_next, upd, if_neg hep]

/-! ### the loop -/

/-- what is known at loop exit -/
structure Post (r : Nat → V2 F) (n : Nat) (tol2 : F) (st : SState F) : Prop where
  cnt : st.numAlive = ((List.range n).filter st.alive).length
  ge3 : 3 ≤ st.numAlive
  exit : st.numAlive ≤ 3 ∨
    ∀ i < n, st.alive i = true → tol2 ≤ deviation2 r st.prev st.next i

theorem getD_eq_getElem' {β : Type} (l : List β) (k : Nat) (hk : k < l.length) (d : β) :
    l.getD k d = l[k] := by
  simp [List.getD, List.getElem?_eq_getElem hk]

omit [Field F] [LinearOrder F] in
/-- a popped entry that is not stale is the current entry of a live vertex -/
theorem not_stale_iff (st : SState F) (e : Entry F) :
    (¬ (!st.alive e.idx || e.stamp != st.stamp e.idx) = true) ↔
      st.alive e.idx = true ∧ e.stamp = st.stamp e.idx := by
  cases st.alive e.idx <;> simp

theorem loop_post (r : Nat → V2 F) (n : Nat) (tol2 : F) (st : SState F) :
    SInv r n st → Post r n tol2 (simplifyLoop r tol2 st) := by
  induction st using simplifyLoop.induct r tol2 with
  | case1 x h k top rest hstale ih =>
    intro hinv
    have hk := minIdx_lt x.heap h.2
    have htop : top = x.heap[minIdx x.heap] := getD_eq_getElem' _ _ hk _
    rw [simplifyLoop, dif_pos h]
    rw [if_pos hstale]
    apply ih
    rw [htop] at hstale
    exact inv_skip r n x hinv h.2 hstale
  | case2 x h k top hcur hle =>
    intro hinv
    have hk := minIdx_lt x.heap h.2
    have htop : top = x.heap[minIdx x.heap] := getD_eq_getElem' _ _ hk _
    rw [simplifyLoop, dif_pos h]
    rw [if_neg hcur, if_pos hle]
    rw [htop] at hcur hle
    rw [not_stale_iff] at hcur
    refine ⟨hinv.cnt, hinv.ge3, Or.inr ?_⟩
    intro i hi ha
    obtain ⟨e, he, hei, hes⟩ := hinv.h1a i hi ha
    have hd := hinv.h1b e he (hei ▸ ha) (hei ▸ hes)
    have hmin := minIdx_d2_le x.heap h.2 e he
    have hle' : tol2 ≤ (x.heap[minIdx x.heap]).d2 := by simpa using hle
    show tol2 ≤ deviation2 r x.prev x.next i
    rw [← hei, ← hd]
    exact le_trans hle' hmin
  | case3 x h k top rest hcur hnle ih =>
    intro hinv
    have hk := minIdx_lt x.heap h.2
    have htop : top = x.heap[minIdx x.heap] := getD_eq_getElem' _ _ hk _
    rw [simplifyLoop, dif_pos h]
    rw [if_neg hcur, if_neg hnle]
    apply ih
    rw [htop] at hcur ⊢
    rw [not_stale_iff] at hcur
    apply inv_remove r n x hinv
    · exact fun e he => List.mem_of_mem_eraseIdx he
    · intro e he hne
      apply mem_eraseIdx_of_ne _ _ hk e he
      intro heq; exact hne (heq ▸ rfl)
    · exact hinv.hidx _ (List.getElem_mem hk)
    · exact hcur.1
    · exact h.1
  | case4 x h =>
    intro hinv
    rw [simplifyLoop, dif_neg h]
    refine ⟨hinv.cnt, hinv.ge3, Or.inl ?_⟩
    by_contra hgt
    have hgt : 3 < x.numAlive := by omega
    apply h
    refine ⟨hgt, ?_⟩
    have hpos : 0 < ((List.range n).filter x.alive).length := by
      rw [← hinv.cnt]; omega
    obtain ⟨i, hi⟩ := List.exists_mem_of_length_pos hpos
    simp only [List.mem_filter, List.mem_range] at hi
    obtain ⟨e, he, _⟩ := hinv.h1a i hi.1 hi.2
    exact List.ne_nil_of_mem he

end Field

end MV.CrossOps
