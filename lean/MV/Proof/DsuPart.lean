/-
The partition at reachable / quiescent states: the links made so far lie inside the
equivalence closure of the `unite` pairs of the programs, every completed `unite a b` has
`a`,`b` in one class, hence at quiescence "same root" = equivalence closure of all pairs.
-/
import MV.Proof.DsuRoot

namespace MV.Dsu

/-! ## programs never change -/

@[simp] theorem startOp_prog (t : Thr) : t.startOp.prog = t.prog := by
  unfold Thr.startOp; split <;> rfl

@[simp] theorem finishOp_prog (t : Thr) (r : Nat) : (t.finishOp r).prog = t.prog := by
  unfold Thr.finishOp; simp

@[simp] theorem findRet_prog (t : Thr) (r : Nat) : (t.findRet r).prog = t.prog := by
  unfold Thr.findRet; split <;> (try split) <;> simp

@[simp] theorem next_prog (t : Thr) (w : Word) (ok : Bool) : (t.next w ok).prog = t.prog := by
  unfold Thr.next; split <;> (try dsimp only) <;> (try split) <;> (try split) <;> simp [Thr.uniteRetry]

theorem map_set_same {α β : Type} (f : α → β) (l : List α) (i : Nat) (a x : α)
    (h : l[i]? = some a) (hf : f x = f a) : (l.set i x).map f = l.map f := by
  apply List.ext_getElem?
  intro j
  simp only [List.getElem?_map, List.getElem?_set]
  by_cases e : i = j
  · subst e
    have hlt : i < l.length := (List.getElem?_eq_some_iff.1 h).1
    have : l[i] = a := by
      have := List.getElem?_eq_getElem hlt
      rw [h] at this; exact (Option.some.inj this).symm
    simp [hlt, hf, this]
  · simp [e]

theorem step_progs (s : State) (tid : Nat) (sp : Bool) :
    (step s tid sp).1.thr.map (·.prog) = s.thr.map (·.prog) := by
  unfold step
  cases hget : s.thr[tid]? with
  | none => rfl
  | some t =>
    dsimp only
    split
    · rfl
    · split <;> exact map_set_same _ _ _ t _ hget (by simp)

/-- all `unite` pairs of all programs of a state -/
def allPairs (s : State) : List (Nat × Nat) := (s.thr.map fun t => unitePairs t.prog).flatten

theorem step_allPairs (s : State) (tid : Nat) (sp : Bool) :
    allPairs (step s tid sp).1 = allPairs s := by
  unfold allPairs
  have := congrArg (List.map unitePairs) (step_progs s tid sp)
  simp only [List.map_map] at this
  exact congrArg List.flatten this

theorem mem_allPairs {s : State} {tid : Nat} {t : Thr} (h : s.thr[tid]? = some t) {a b : Nat}
    (hop : Op.unite a b ∈ t.prog) : (a, b) ∈ allPairs s := by
  unfold allPairs
  refine List.mem_flatten.2 ⟨unitePairs t.prog, List.mem_map.2 ⟨t, List.mem_of_getElem? h, rfl⟩, ?_⟩
  unfold unitePairs
  exact List.mem_filterMap.2 ⟨_, hop, rfl⟩

/-! ## links ⊆ closure of the programs' pairs -/

theorem Conn.of_sub {E U : List (Nat × Nat)} (h : ∀ a b, (a, b) ∈ E → Conn U a b) {a b : Nat}
    (c : Conn E a b) : Conn U a b := by
  induction c with
  | base hm => exact h _ _ hm
  | refl a => exact .refl a
  | symm _ ih => exact ih.symm
  | trans _ _ ih1 ih2 => exact ih1.trans ih2

def LinksSub (s : State) : Prop := ∀ a b, (a, b) ∈ s.links → Conn (allPairs s) a b

theorem step_linksSub {n : Nat} {s : State} (hI : Inv n s) (hL : LinksSub s) (tid : Nat)
    (sp : Bool) : LinksSub (step s tid sp).1 := by
  unfold LinksSub
  rw [step_allPairs]
  unfold step
  cases hget : s.thr[tid]? with
  | none => exact hL
  | some t =>
    dsimp only
    split
    · exact hL
    · rename_i hfin
      split
      · exact hL
      · rename_i i exp des weak hop
        dsimp only
        split
        · rename_i hcond
          obtain ⟨_, hpc⟩ := hcond
          intro a b hab
          rcases List.mem_cons.1 hab with e | h
          · cases e
            have hT := hI.thr tid t hget
            obtain ⟨op, hc⟩ : ∃ op, t.curOp = some op := by
              unfold Thr.finished at hfin
              cases h : t.curOp with
              | none => rw [h] at hfin; exact (hfin rfl).elim
              | some op => exact ⟨op, rfl⟩
            obtain ⟨x, y, rfl, _, _, ua, _⟩ := (hT.cur op hc).getUnite
              (by rw [hpc]; exact fun h => h) (by rw [hpc]; exact fun h => by cases h)
            have hxy : Conn (allPairs s) x y := .base (mem_allPairs hget (curOp_mem hc))
            rcases ua with ⟨c1, c2⟩ | ⟨c1, c2⟩
            · exact (c1.of_sub hL).trans (hxy.trans (c2.of_sub hL).symm)
            · exact (c1.of_sub hL).trans (hxy.symm.trans (c2.of_sub hL).symm)
          · exact hL a b h
        · exact hL

theorem init_linksSub (n : Nat) (progs : List (List Op)) : LinksSub (init n progs) := by
  intro a b h; cases h

/-! ## reachable states -/

/-- the programs are well formed: all arguments are `< n` -/
def ProgsOk (n : Nat) (progs : List (List Op)) : Prop := ∀ p, p ∈ progs → ∀ op, op ∈ p → op.Ok n

theorem exec_linksSub {n : Nat} {s : State} (hI : Inv n s) (hL : LinksSub s)
    (sched : List (Nat × Bool)) : LinksSub (exec s sched) := by
  induction sched generalizing s with
  | nil => exact hL
  | cons e rest ih => exact ih (step_inv hI e.1 e.2) (step_linksSub hI hL e.1 e.2)

theorem exec_allPairs (s : State) (sched : List (Nat × Bool)) :
    allPairs (exec s sched) = allPairs s := by
  induction sched generalizing s with
  | nil => rfl
  | cons e rest ih => exact (ih _).trans (step_allPairs s e.1 e.2)

theorem startOp_progEq (t : Thr) : (Thr.startOp t).prog = t.prog := startOp_prog t

theorem init_allPairs (n : Nat) (progs : List (List Op)) :
    allPairs (init n progs) = (progs.map unitePairs).flatten := by
  unfold allPairs init
  simp [List.map_map, Function.comp_def]

/-! ## quiescence -/

/-- every completed `unite a b` has joined `a` and `b` -/
theorem quiescent_pairs_conn {n : Nat} {s : State} (hI : Inv n s) (hq : quiescent s = true)
    {a b : Nat} (h : (a, b) ∈ allPairs s) : Conn s.links a b := by
  unfold allPairs at h
  obtain ⟨l, hl, hab⟩ := List.mem_flatten.1 h
  obtain ⟨t, ht, rfl⟩ := List.mem_map.1 hl
  unfold unitePairs at hab
  obtain ⟨op, hop, hsome⟩ := List.mem_filterMap.1 hab
  have hopEq : op = .unite a b := by
    cases op <;> simp at hsome
    obtain ⟨rfl, rfl⟩ := hsome; rfl
  subst hopEq
  obtain ⟨tid, htid, hget⟩ := List.getElem_of_mem ht
  have hget' : s.thr[tid]? = some t := by rw [List.getElem?_eq_getElem htid, hget]
  have hT := hI.thr tid t hget'
  have hfin : t.finished = true := by
    unfold quiescent at hq
    exact List.all_eq_true.1 hq t ht
  have hidx : t.opIdx = t.prog.length := by
    unfold Thr.finished Thr.curOp at hfin
    have : t.prog[t.opIdx]? = none := by simpa using hfin
    have := List.getElem?_eq_none_iff.1 this
    have := hT.base.idxLe
    omega
  obtain ⟨j, hj, hjop⟩ := List.getElem_of_mem hop
  have hjr : j < t.results.length := by rw [hT.base.resLen, hidx]; exact hj
  have := hT.base.resOk j (.unite a b) t.results[j]
    (by rw [List.getElem?_eq_getElem hj, hjop]) (List.getElem?_eq_getElem hjr)
  exact this.1

/-- at quiescence the classes of the links are exactly the classes of the programs' pairs -/
theorem quiescent_conn_iff {n : Nat} {s : State} (hI : Inv n s) (hL : LinksSub s)
    (hq : quiescent s = true) (a b : Nat) : Conn s.links a b ↔ Conn (allPairs s) a b :=
  ⟨fun c => c.of_sub hL, fun c => c.of_sub fun _ _ h => quiescent_pairs_conn hI hq h⟩

end MV.Dsu
