import MV.Proof.CsgBatchHeap
import MV.Proof.CsgBatchPart
/-
`BatchUnion` (l.562-629): one round keeps the sum of the children's values in any commutative
monoid, never indexes outside `children`, and strictly shortens `children` when
`kMaxUnionSize ≥ 2`; hence the loop terminates within `children.size()` rounds and the result
sums all the children.  Core Lean only.
-/
set_option autoImplicit false
namespace MV.CsgBatch
open CMon

variable {α : Type}

/-! ## swap(front, back) -/

theorem swapFrontBack_perm {β : Type} (l : List β) : (swapFrontBack l).Perm l := by
  cases l with
  | nil => exact List.Perm.refl _
  | cons a t =>
    simp only [swapFrontBack]
    cases hz : t.getLast? with
    | none =>
      have : t = [] := List.getLast?_eq_none_iff.1 hz
      subst this
      exact List.Perm.refl _
    | some z =>
      have hne : t ≠ [] := by intro h; rw [h] at hz; simp at hz
      have ht : t.dropLast ++ [z] = t := by
        have h1 := List.dropLast_concat_getLast hne
        have h2 : t.getLast? = some (t.getLast hne) := List.getLast?_eq_some_getLast hne
        rw [hz] at h2
        rw [Option.some.inj h2]
        exact h1
      simp only
      -- z :: d ++ [a]  ~  a :: (d ++ [z])
      have h1 : (z :: t.dropLast ++ [a]).Perm (a :: (z :: t.dropLast)) :=
        List.perm_append_comm
      have h2 : (z :: t.dropLast).Perm (t.dropLast ++ [z]) := by
        have : ([z] ++ t.dropLast).Perm (t.dropLast ++ [z]) := List.perm_append_comm
        simpa using this
      refine h1.trans ?_
      rw [ht] at h2
      exact List.Perm.cons a h2

theorem swapFrontBack_length {β : Type} (l : List β) : (swapFrontBack l).length = l.length :=
  (swapFrontBack_perm l).length_eq

/-! ## composing the sets -/

section Compose
variable {N : Type} [CMon N] (ops : Ops α) (orc : Orc α) (μ : α → N)

/-- the contribution of chunk index `j` -/
def gAt (chunk : List (BLeaf α)) (j : Nat) : N :=
  match chunk[j]? with
  | some c => μ c.val
  | none => zero

theorem gAt_range (chunk : List (BLeaf α)) :
    (List.range chunk.length).map (gAt μ chunk) = chunk.map fun c => μ c.val := by
  apply List.ext_getElem?
  intro i
  by_cases hi : i < chunk.length
  · simp [hi, gAt]
  · simp [hi]

/-- `tmp` of l.606-609 -/
def pick (chunk : List (BLeaf α)) (set : List Nat) : List (BLeaf α) :=
  set.filterMap fun j => chunk[j]?

theorem pick_msum (chunk : List (BLeaf α)) (set : List Nat) :
    msum ((pick chunk set).map fun c => μ c.val) = msum (set.map (gAt μ chunk)) := by
  induction set with
  | nil => rfl
  | cons j js ih =>
    simp only [pick, List.filterMap_cons, List.map_cons, msum_cons, gAt] at ih ⊢
    cases chunk[j]? with
    | none => simp only [ih, CMon.zero_add]
    | some c => simp only [List.map_cons, msum_cons, ih]

theorem pick_length (chunk : List (BLeaf α)) (set : List Nat)
    (hv : ∀ j ∈ set, j < chunk.length) : (pick chunk set).length = set.length := by
  induction set with
  | nil => rfl
  | cons j js ih =>
    have hj : j < chunk.length := hv j (by simp)
    simp only [pick, List.filterMap_cons, List.getElem?_eq_getElem hj, List.length_cons]
    rw [← ih (fun x hx => hv x (by simp [hx]))]
    rfl

theorem pick_pairwise (chunk : List (BLeaf α)) (set : List Nat)
    (hs : Sep orc chunk.toArray set) :
    (pick chunk set).Pairwise fun x y => orc.ov y x = false := by
  induction set with
  | nil => simp [pick]
  | cons j js ih =>
    simp only [Sep, List.pairwise_cons] at hs
    have ih' := ih hs.2
    simp only [pick, List.filterMap_cons]
    cases hj : chunk[j]? with
    | none => exact ih'
    | some c =>
      simp only [List.pairwise_cons]
      refine ⟨?_, ih'⟩
      intro y hy
      obtain ⟨i, hi, hiy⟩ := List.mem_filterMap.1 hy
      have := hs.1 i hi
      simpa [ovAt, hj, hiy] using this

variable (hc : ∀ l : List (BLeaf α), (l.Pairwise fun x y => orc.ov y x = false) →
    μ (ops.compose (l.map (·.val))) = msum (l.map fun x => μ x.val))
include hc

/-- one iteration of the compose loop adds exactly the members of the set -/
theorem composeSet_spec (children : List (BLeaf α)) (start : Nat) (σ : ComposeSt α)
    (set : List Nat) (hv : ∀ j ∈ set, j < (children.drop start).length)
    (hs : Sep orc (children.drop start).toArray set) :
    (composeSet ops children start σ set).ub = σ.ub ∧
    msum ((composeSet ops children start σ set).impls.map fun c => μ c.val) =
      add (msum (σ.impls.map fun c => μ c.val)) (msum (set.map (gAt μ (children.drop start)))) := by
  have hget : ∀ j, children[start + j]? = (children.drop start)[j]? := by
    intro j; rw [List.getElem?_drop]
  have hpick : (set.filterMap fun j => children[start + j]?) = pick (children.drop start) set := by
    simp only [pick, hget]
  match set, hv, hs, hpick with
  | [j], hv, _, _ =>
    have hj : j < (children.drop start).length := hv j (by simp)
    simp only [composeSet, hget, List.getElem?_eq_getElem hj, List.map_append, msum_append,
      List.map_cons, List.map_nil, msum_cons, msum_nil, gAt, add_zero, and_self]
  | [], _, _, _ =>
    have := hc [] List.Pairwise.nil
    simp only [List.map_nil, msum_nil] at this
    simp [composeSet, msum_append, this, add_zero]
  | a :: b :: rest, hv, hs, hpick =>
    simp only [composeSet, hpick]
    refine ⟨?_, ?_⟩
    · rw [pick_length _ _ hv]; simp
    · rw [List.map_append, msum_append]
      simp only [List.map_cons, List.map_nil, msum_cons, msum_nil, add_zero]
      rw [hc _ (pick_pairwise orc _ _ hs), pick_msum]
      rfl

/-- the whole compose loop -/
theorem composeSets_spec (children : List (BLeaf α)) (start : Nat) (sets : List (List Nat))
    (σ : ComposeSt α) (hv : ∀ s ∈ sets, ∀ j ∈ s, j < (children.drop start).length)
    (hs : ∀ s ∈ sets, Sep orc (children.drop start).toArray s) :
    (sets.foldl (composeSet ops children start) σ).ub = σ.ub ∧
    msum ((sets.foldl (composeSet ops children start) σ).impls.map fun c => μ c.val) =
      add (msum (σ.impls.map fun c => μ c.val))
        (msum (sets.flatten.map (gAt μ (children.drop start)))) := by
  induction sets generalizing σ with
  | nil => simp [add_zero]
  | cons s ss ih =>
    simp only [List.foldl_cons]
    have h1 := composeSet_spec ops orc μ hc children start σ s (hv s (by simp)) (hs s (by simp))
    have h2 := ih (composeSet ops children start σ s) (fun t ht => hv t (by simp [ht]))
      (fun t ht => hs t (by simp [ht]))
    refine ⟨h2.1.trans h1.1, ?_⟩
    rw [h2.2, h1.2, List.flatten_cons, List.map_append, msum_append, add_assoc]

end Compose

/-! ## one round -/

section Round
variable {N : Type} [CMon N] (ops : Ops α) (orc : Orc α) (μ : α → N)

/-- `start` of l.576-578 -/
def startOf (K n : Nat) : Nat := if K < n then n - K else 0

variable (hb : ∀ a b, μ (ops.bool a b) = add (μ a) (μ b)) (he : μ ops.empty = zero)
  (hc : ∀ l : List (BLeaf α), (l.Pairwise fun x y => orc.ov y x = false) →
    μ (ops.compose (l.map (·.val))) = msum (l.map fun x => μ x.val))
include hb he hc

/-- one round of the `while` loop: no out-of-range index, the sum of the values is kept, and
`children` shrinks to `start + 1` entries -/
theorem unionRound_spec (K grp : Nat) (hg : 1 ≤ grp) (σ : USt α) :
    (unionRound ops orc K grp σ).ub = σ.ub ∧
    msum ((unionRound ops orc K grp σ).children.map fun c => μ c.val) =
      msum (σ.children.map fun c => μ c.val) ∧
    (unionRound ops orc K grp σ).children.length = startOf K σ.children.length + 1 := by
  have hsz : ((σ.children.drop (startOf K σ.children.length)).toArray).size =
      (σ.children.drop (startOf K σ.children.length)).length := by simp
  have hv : ∀ s ∈ partition orc (σ.children.drop (startOf K σ.children.length)).toArray,
      ∀ j ∈ s, j < (σ.children.drop (startOf K σ.children.length)).length := by
    intro s hs j hj
    have := partition_lt orc _ s hs j hj
    rwa [hsz] at this
  have hsep := fun s hs => (partition_sep orc
    (σ.children.drop (startOf K σ.children.length)).toArray s hs).1
  have hcs := composeSets_spec ops orc μ hc σ.children (startOf K σ.children.length)
    (partition orc (σ.children.drop (startOf K σ.children.length)).toArray)
    { next := σ.next } hv hsep
  obtain ⟨r, hr, hrv⟩ := batchBoolean_msum ops orc μ grp hg hb
    ((partition orc (σ.children.drop (startOf K σ.children.length)).toArray).foldl
      (composeSet ops σ.children (startOf K σ.children.length)) { next := σ.next }).impls
    (fun _ => he)
    ((partition orc (σ.children.drop (startOf K σ.children.length)).toArray).foldl
      (composeSet ops σ.children (startOf K σ.children.length)) { next := σ.next }).next
  have hperm := msum_perm ((partition_perm orc
    (σ.children.drop (startOf K σ.children.length)).toArray).map
      (gAt μ (σ.children.drop (startOf K σ.children.length))))
  rw [hsz, gAt_range] at hperm
  simp only [unionRound,
    show ∀ n, (if K < n then n - K else 0) = startOf K n from fun _ => rfl]
  simp only [hr, Option.isNone_some, Bool.or_false, hcs.1]
  refine ⟨by simp, ?_, ?_⟩
  · rw [msum_perm ((swapFrontBack_perm _).map _), List.map_append, msum_append]
    simp only [List.map_cons, List.map_nil, msum_cons, msum_nil, add_zero]
    rw [hrv, hcs.2, hperm]
    simp only [List.map_nil, msum_nil, CMon.zero_add]
    rw [← msum_append, ← List.map_append, List.take_append_drop]
  · rw [swapFrontBack_length]
    simp only [List.length_append, List.length_take, List.length_cons, List.length_nil]
    have : startOf K σ.children.length ≤ σ.children.length := by
      simp only [startOf]; split <;> omega
    omega

end Round

theorem startOf_lt (K n : Nat) (hK : 2 ≤ K) (hn : 2 ≤ n) : startOf K n + 1 < n := by
  simp only [startOf]; split <;> omega

/-! ## the loop -/

section LoopU
variable {N : Type} [CMon N] (ops : Ops α) (orc : Orc α) (μ : α → N)
variable (hb : ∀ a b, μ (ops.bool a b) = add (μ a) (μ b)) (he : μ ops.empty = zero)
  (hc : ∀ l : List (BLeaf α), (l.Pairwise fun x y => orc.ov y x = false) →
    μ (ops.compose (l.map (·.val))) = msum (l.map fun x => μ x.val))
include hb he hc

theorem unionLoop_spec (K grp : Nat) (hK : 2 ≤ K) (hg : 1 ≤ grp) (f : Nat) (σ : USt α)
    (hf : σ.children.length ≤ f + 1) (h1 : 1 ≤ σ.children.length) :
    (unionLoop ops orc K grp f σ).ub = σ.ub ∧
    msum ((unionLoop ops orc K grp f σ).children.map fun c => μ c.val) =
      msum (σ.children.map fun c => μ c.val) ∧
    (unionLoop ops orc K grp f σ).children.length = 1 := by
  induction f generalizing σ with
  | zero => exact ⟨rfl, rfl, by simp only [unionLoop]; omega⟩
  | succ f ih =>
    simp only [unionLoop]
    split
    · rename_i hlen
      have hr := unionRound_spec ops orc μ hb he hc K grp hg σ
      have hlt := startOf_lt K σ.children.length hK hlen
      have := ih (unionRound ops orc K grp σ) (by omega) (by omega)
      exact ⟨this.1.trans hr.1, this.2.1.trans hr.2.1, this.2.2⟩
    · exact ⟨rfl, rfl, by omega⟩

end LoopU

/-! ## termination, independently of any valuation -/

/-- the trivial monoid: used to read the structural facts (`ub`, lengths) off the `_spec`
lemmas without any hypothesis on the operations -/
instance : CMon Unit where
  add _ _ := ()
  zero := ()
  add_assoc _ _ _ := rfl
  add_comm _ _ := rfl
  add_zero _ := rfl

theorem unionRound_length (ops : Ops α) (orc : Orc α) (K grp : Nat) (hg : 1 ≤ grp) (σ : USt α) :
    (unionRound ops orc K grp σ).ub = σ.ub ∧
    (unionRound ops orc K grp σ).children.length = startOf K σ.children.length + 1 := by
  have := unionRound_spec ops orc (fun _ => ()) (fun _ _ => rfl) rfl (fun _ _ => rfl) K grp hg σ
  exact ⟨this.1, this.2.2⟩

theorem unionRound_rounds (ops : Ops α) (orc : Orc α) (K grp : Nat) (σ : USt α) :
    (unionRound ops orc K grp σ).rounds.length = σ.rounds.length + 1 := by
  simp [unionRound]

/-- the number of rounds is at most `children.size() - 1`, and more fuel changes nothing -/
theorem unionLoop_rounds (ops : Ops α) (orc : Orc α) (K grp : Nat) (hK : 2 ≤ K) (hg : 1 ≤ grp)
    (f : Nat) (σ : USt α) (hf : σ.children.length ≤ f + 1) :
    (unionLoop ops orc K grp f σ).rounds.length + 1 ≤ σ.rounds.length + max σ.children.length 1 ∧
    ∀ g, f ≤ g → unionLoop ops orc K grp g σ = unionLoop ops orc K grp f σ := by
  induction f generalizing σ with
  | zero =>
    refine ⟨by simp only [unionLoop]; omega, fun g _ => ?_⟩
    cases g with
    | zero => rfl
    | succ g =>
      simp only [unionLoop]
      split
      · omega
      · rfl
  | succ f ih =>
    simp only [unionLoop]
    split
    · rename_i hlen
      have hr := unionRound_length ops orc K grp hg σ
      have hlt := startOf_lt K σ.children.length hK hlen
      have := ih (unionRound ops orc K grp σ) (by omega)
      rw [unionRound_rounds] at this
      refine ⟨by omega, fun g hg' => ?_⟩
      cases g with
      | zero => omega
      | succ g =>
        simp only [unionLoop, hlen, if_true]
        exact this.2 g (by omega)
    · rename_i hlen
      refine ⟨by omega, fun g _ => ?_⟩
      cases g with
      | zero => rfl
      | succ g => simp only [unionLoop, hlen, if_false]

/-! ## the trace -/

/-- what every recorded round satisfies: `start` is the chunk offset of l.576-578, the sets are a
partition of the chunk's indices into non-empty sets, and `impls` has one entry per set -/
def RoundOK (K : Nat) (r : Round) : Prop :=
  r.start = startOf K r.children.length ∧
  r.sets.flatten.Perm (List.range (r.children.length - r.start)) ∧
  (∀ s ∈ r.sets, s ≠ []) ∧
  r.impls.length = r.sets.length

theorem composeSet_impls_length (ops : Ops α) (children : List (BLeaf α)) (start : Nat)
    (σ : ComposeSt α) (set : List Nat) (hub : (composeSet ops children start σ set).ub = false) :
    (composeSet ops children start σ set).impls.length = σ.impls.length + 1 := by
  match set with
  | [j] =>
    simp only [composeSet] at hub ⊢
    cases h : children[start + j]? with
    | none => simp [h] at hub
    | some c => simp
  | [] => simp [composeSet]
  | a :: b :: rest => simp [composeSet]

theorem composeSet_ub_mono (ops : Ops α) (children : List (BLeaf α)) (start : Nat)
    (σ : ComposeSt α) (set : List Nat) (h : σ.ub = true) :
    (composeSet ops children start σ set).ub = true := by
  match set with
  | [j] =>
    simp only [composeSet]
    cases children[start + j]? <;> simp [h]
  | [] => simp [composeSet, h]
  | a :: b :: rest => simp [composeSet, h]

theorem composeSets_ub_mono (ops : Ops α) (children : List (BLeaf α)) (start : Nat)
    (sets : List (List Nat)) (σ : ComposeSt α) (h : σ.ub = true) :
    (sets.foldl (composeSet ops children start) σ).ub = true := by
  induction sets generalizing σ with
  | nil => exact h
  | cons s ss ih => exact ih _ (composeSet_ub_mono ops children start σ s h)

theorem composeSets_impls_length (ops : Ops α) (children : List (BLeaf α)) (start : Nat)
    (sets : List (List Nat)) (σ : ComposeSt α)
    (hub : (sets.foldl (composeSet ops children start) σ).ub = false) :
    (sets.foldl (composeSet ops children start) σ).impls.length = σ.impls.length + sets.length := by
  induction sets generalizing σ with
  | nil => simp
  | cons s ss ih =>
    simp only [List.foldl_cons] at hub ⊢
    have h1 : (composeSet ops children start σ s).ub = false := by
      cases h : (composeSet ops children start σ s).ub with
      | false => rfl
      | true => rw [composeSets_ub_mono ops children start ss _ h] at hub; cases hub
    rw [ih _ hub, composeSet_impls_length ops children start σ s h1, List.length_cons]
    omega

/-- the round appended by `unionRound` is `RoundOK` (when no index was out of range, which
`unionRound_length` shows) -/
theorem unionRound_trace (ops : Ops α) (orc : Orc α) (K grp : Nat) (hg : 1 ≤ grp) (σ : USt α)
    (hub : σ.ub = false) :
    ∃ r, (unionRound ops orc K grp σ).rounds = σ.rounds ++ [r] ∧ RoundOK K r ∧
      r.children = σ.children.map (·.id) := by
  have hl := unionRound_length ops orc K grp hg σ
  refine ⟨_, rfl, ⟨?_, ?_, ?_, ?_⟩, rfl⟩
  · simp [startOf]
  · have := partition_perm orc (σ.children.drop (startOf K σ.children.length)).toArray
    simpa [startOf] using this
  · exact fun s hs => (partition_sep orc _ s hs).2
  · have hub' := hl.1
    rw [hub] at hub'
    simp only [unionRound, Bool.or_eq_false_iff] at hub'
    simp only [List.length_map]
    have := composeSets_impls_length ops σ.children
      (if K < σ.children.length then σ.children.length - K else 0)
      (partition orc (List.drop (if K < σ.children.length then σ.children.length - K else 0)
        σ.children).toArray) { next := σ.next } hub'.1.2
    simpa using this

theorem unionLoop_trace (ops : Ops α) (orc : Orc α) (K grp : Nat) (hg : 1 ≤ grp) (f : Nat)
    (σ : USt α) (hub : σ.ub = false) (h : ∀ r ∈ σ.rounds, RoundOK K r) :
    ∀ r ∈ (unionLoop ops orc K grp f σ).rounds, RoundOK K r := by
  induction f generalizing σ with
  | zero => exact h
  | succ f ih =>
    simp only [unionLoop]
    split
    · obtain ⟨r, hr, hok, _⟩ := unionRound_trace ops orc K grp hg σ hub
      apply ih
      · rw [(unionRound_length ops orc K grp hg σ).1, hub]
      · intro x hx
        rw [hr] at hx
        rcases List.mem_append.1 hx with hx | hx
        · exact h x hx
        · simp only [List.mem_singleton] at hx; rw [hx]; exact hok
    · exact h

end MV.CsgBatch
