import MV.Proof.CsgFin
/-
Characterisation of one loop iteration.
-/
set_option autoImplicit false
namespace MV.Csg

variable {M : Type} [One M] [Mul M]

theorem step_nil {σ : EvalState M} (h : σ.stack = []) : step σ = σ := by
  unfold step; rw [h]

theorem run_nil {σ : EvalState M} (h : σ.stack = []) (f : Nat) : run f σ = σ := by
  cases f <;> simp [run, h]

theorem run_succ (f : Nat) (σ : EvalState M) : run (f + 1) σ = run f (step σ) := by
  simp only [run]
  split
  · rename_i h
    have h' : σ.stack = [] := by simpa using h
    rw [step_nil h', run_nil h']
  · rfl

theorem run_add (a b : Nat) (σ : EvalState M) : run (a + b) σ = run b (run a σ) := by
  induction a generalizing σ with
  | zero => simp [run]
  | succ a ih => rw [Nat.succ_add, run_succ, run_succ, ih]

theorem run_one (σ : EvalState M) : run 1 σ = step σ := by rw [run_succ]; rfl

/-- the C++ `canCollapse` (l.818-822); `bit` is `use_count() <= 2 && impl_.UseCount() == 1` -/
def canCollapse (G : Frame M) (o : Op) (bit : Bool) (implLen : Nat) : Bool :=
  G.posDest.isSome && ((o == G.parentOp && bit) || implLen == 1)

theorem step_visit {σ : EvalState M} {G : Frame M} {rest : List (Frame M)} {i : Nat} {o : Op}
    {nxf : M} {cache : Option Nat} (hs : σ.stack = G :: rest)
    (hn : σ.st.nodes[G.node]? = some (Node.op i o nxf cache)) (hf : G.finalize = false) :
    step σ =
      (let cc := canCollapse G o (σ.orc.headD false) (σ.st.impls.getD i []).length
       let r := addChildren σ.st o (if cc then G.xf * nxf else 1)
          (if cc then G.posDest else some ⟨rest.length, false⟩)
          (if cc then G.negDest else some ⟨rest.length, true⟩)
          (σ.st.impls.getD i []) true
          (if cc then rest else { G with finalize := true } :: rest, σ.ub)
       { σ with stack := r.1, ub := r.2, orc := σ.orc.tail, used := σ.used + 1 }) := by
  unfold step
  simp only [hs, hn, hf, canCollapse]
  rfl

def pushO (rest : List (Frame M)) (d : Option Dest) (l : Leaf M) : List (Frame M) :=
  match d with
  | some d => pushDest rest d l
  | none => rest

theorem step_finalize_cached {σ : EvalState M} {G : Frame M} {rest : List (Frame M)} {i : Nat}
    {o : Op} {nxf : M} {c : Nat} {cl : Leaf M} (hs : σ.stack = G :: rest)
    (hn : σ.st.nodes[G.node]? = some (Node.op i o nxf (some c))) (hf : G.finalize = true)
    (hc : σ.st.nodes[c]? = some (Node.leaf cl)) :
    step σ = { σ with stack := pushO rest G.posDest (cl.transform G.xf) } := by
  unfold step
  simp only [hs, hn, hf, Store.leafAt?, hc, pushO]
  cases G.posDest <;> rfl

theorem step_finalize_compute {σ : EvalState M} {G : Frame M} {rest : List (Frame M)} {i : Nat}
    {o : Op} {nxf : M} (hs : σ.stack = G :: rest)
    (hn : σ.st.nodes[G.node]? = some (Node.op i o nxf none)) (hf : G.finalize = true) :
    step σ =
      (let r := finalizeResult (⟨.res σ.st.nextRes, 1⟩ : Leaf M) o G.pos G.neg
       { σ with st := finStore σ.st G.node i o nxf r.1 r.2.1,
                evs := σ.evs ++ [{ op := o, pos := G.pos, neg := G.neg, res := r.1,
                                   fresh := r.2.1 }],
                ub := σ.ub || r.2.2,
                stack := pushO rest G.posDest ((r.1.transform nxf).transform G.xf) }) := by
  unfold step
  simp only [hs, hn, hf, pushO, finStore]
  cases G.posDest <;> rfl

end MV.Csg
