import MV.Proof.ExportRuns3
/-! helper lemmas for `reexport_eq` (C08b): exporting the re-imported state -/
namespace MV.Export
open List

variable {τ : Type}

/-! ## `runsFrom` under an injective renaming of the meshIDs -/

theorem runsFrom_rename (φ : Int → Int) (d d2 : Rel τ) :
    ∀ (rs rs2 : List TriRef) (tri : Nat) (last last2 : Int) (m m2 : RelMap τ),
    rs2.map (·.meshID) = rs.map (fun r => φ r.meshID) →
    (∀ x ∈ rs.map (·.meshID), ∀ y ∈ rs.map (·.meshID), φ x = φ y → x = y) →
    (∀ x ∈ rs.map (·.meshID), φ x = last2 ↔ x = last) →
    (runsFrom d2 rs2 tri last2 m2).1.map (fun run => (run.start, run.meshID)) =
      (runsFrom d rs tri last m).1.map (fun run => (run.start, φ run.meshID)) := by
  intro rs
  induction rs with
  | nil =>
    intro rs2 tri last last2 m m2 h _ _
    have : rs2 = [] := by simpa using h
    subst this; rfl
  | cons r rs ih =>
    intro rs2 tri last last2 m m2 h hinj hlast
    cases rs2 with
    | nil => simp at h
    | cons r2 rs2 =>
      simp only [map_cons, cons.injEq] at h
      obtain ⟨h1, h2⟩ := h
      have hinj' : ∀ x ∈ rs.map (·.meshID), ∀ y ∈ rs.map (·.meshID), φ x = φ y → x = y :=
        fun x hx y hy => hinj x (by simp only [map_cons]; exact mem_cons_of_mem _ hx) y
          (by simp only [map_cons]; exact mem_cons_of_mem _ hy)
      have hr := hlast r.meshID (by simp)
      by_cases e : r.meshID = last
      · have e2 : r2.meshID = last2 := by rw [h1]; exact hr.2 e
        rw [runsFrom_cons_eq d rs tri m e, runsFrom_cons_eq d2 rs2 tri m2 e2]
        exact ih rs2 (tri + 1) last last2 m m2 h2 hinj'
          (fun x hx => hlast x (by simp only [map_cons]; exact mem_cons_of_mem _ hx))
      · have e2 : r2.meshID ≠ last2 := by rw [h1]; exact fun h => e (hr.1 h)
        rw [runsFrom_cons_ne d rs tri m e, runsFrom_cons_ne d2 rs2 tri m2 e2]
        simp only [map_cons, cons.injEq, Prod.mk.injEq, true_and]
        refine ⟨h1, ?_⟩
        apply ih rs2 (tri + 1) r.meshID r2.meshID _ _ h2 hinj'
        intro x hx
        rw [h1]
        exact ⟨fun h => hinj x (by simp only [map_cons]; exact mem_cons_of_mem _ hx) r.meshID (by simp) h,
          fun h => by rw [h]⟩

/-! ## the re-imported state -/

/-- the refs the importer writes (first component of `runs_roundtrip`) -/
def reRefs (startID : Int) (rt : RunTable τ) : List TriRef :=
  rt.sorted.zipIdx.map (fun rt' =>
    ⟨startID + (rt.runMeshID.idxOf rt'.1.meshID : Nat), rt'.1.originalID, exportFaceID rt'.1, rt'.2⟩)

/-- the relation of a run after the round trip -/
def reRel (nx : Nat) (r : Rel τ) : Rel τ := { r with hasNormals := r.hasNormals && decide (3 ≤ nx) }

/-- the relation table the importer writes (second component of `runs_roundtrip`) -/
def reMap (startID : Int) (nx : Nat) (rt : RunTable τ) : RelMap τ :=
  rt.runs.zipIdx.map (fun rk => (startID + (rk.2 : Nat), reRel nx rk.1.rel))

theorem reMap_sorted (startID : Int) (nx : Nat) (rt : RunTable τ) : RelMap.Sorted (reMap startID nx rt) := by
  unfold RelMap.Sorted reMap
  rw [map_map, pairwise_map]
  have h : (rt.runs.zipIdx.map (·.2)).Pairwise (· < ·) := by
    rw [zipIdx_map_snd]; exact pairwise_lt_range'
  exact (pairwise_map.1 h).imp (fun h => by simp only [Function.comp]; omega)

theorem reMap_lookup (startID : Int) (nx : Nat) (rt : RunTable τ) (k : Nat) (run : Run τ)
    (h : rt.runs[k]? = some run) :
    RelMap.lookup (reMap startID nx rt) (startID + (k : Nat)) = some (reRel nx run.rel) := by
  apply RelMap.lookup_eq_some_of_mem _ _ _ (reMap_sorted startID nx rt)
  exact mem_map.2 ⟨(run, k), mk_mem_zipIdx_iff_getElem?.2 h, rfl⟩

theorem reRefs_length (startID : Int) (rt : RunTable τ) : (reRefs startID rt).length = rt.sorted.length := by
  simp [reRefs]

theorem reRefs_hid (startID : Int) (rt : RunTable τ) (hs : 0 ≤ startID) :
    ∀ r ∈ reRefs startID rt, r.meshID ≠ -1 := by
  intro r hr
  obtain ⟨a, _, rfl⟩ := mem_map.1 hr
  simp only
  omega

theorem idxOf_inj {l : List Int} {x y : Int} (hx : x ∈ l) (h : l.idxOf x = l.idxOf y) : x = y := by
  have hx' := idxOf_lt_length_iff.2 hx
  have hy' : l.idxOf y < l.length := h ▸ hx'
  have e1 := getElem_idxOf hx'
  have e2 := getElem_idxOf hy'
  rw [← e1, ← e2]
  simp only [h]

/-! ## exporting the re-imported state -/

section reexport
variable (idT : τ) (refs : List TriRef) (m : RelMap τ) (startID : Int) (nx : Nat)

theorem idxOf_loop (hid : ∀ r ∈ refs, r.meshID ≠ -1) (hc : Consistent refs m) (k : Nat)
    (hk : k < (loopOf false idT refs m).1.length) :
    (exportRuns false idT refs m).runMeshID.idxOf ((loopOf false idT refs m).1[k]).meshID = k := by
  have hmem : ((loopOf false idT refs m).1[k]).meshID ∈ (loopOf false idT refs m).1.map (·.meshID) :=
    mem_map.2 ⟨_, getElem_mem hk, rfl⟩
  rw [RunTable.runMeshID, exportRuns_runs, map_append, idxOf_append, if_pos hmem]
  have hnd := loop_meshIDs_nodup idT refs m hid hc
  have hk' : k < ((loopOf false idT refs m).1.map (·.meshID)).length := by simpa using hk
  have := hnd.idxOf_getElem k hk'
  rwa [getElem_map] at this

/-- the renaming `ρ` preserves the run sort key order (third clause of `runs_roundtrip`) -/
theorem rho_preserves (hid : ∀ r ∈ refs, r.meshID ≠ -1) (hc : Consistent refs m) :
    ∀ a ∈ refs, ∀ b ∈ refs,
      runLE { a with meshID := startID + ((exportRuns false idT refs m).runMeshID.idxOf a.meshID : Nat) }
        { b with meshID := startID + ((exportRuns false idT refs m).runMeshID.idxOf b.meshID : Nat) } =
      runLE a b := by
  intro a ha b hb
  obtain ⟨ta, hta⟩ := getElem?_of_mem (sortedOf_mem.2 ha : a ∈ sortedOf false refs)
  obtain ⟨tb, htb⟩ := getElem?_of_mem (sortedOf_mem.2 hb : b ∈ sortedOf false refs)
  obtain ⟨ka, ra, hra, _, _, hma, hoa, hia⟩ := ref_run idT refs m hid hc ta a hta
  obtain ⟨kb, rb, hrb, _, _, hmb, hob, hib⟩ := ref_run idT refs m hid hc tb b htb
  have hkey := loop_pairwise_key idT refs m hid hc
  have c1 : ka < kb → RunKeyLT ra rb := fun h => pairwise_getElem? hkey hra hrb h
  have c2 : kb < ka → RunKeyLT rb ra := fun h => pairwise_getElem? hkey hrb hra h
  have c3 : ka = kb → a.meshID = b.meshID := fun h => by
    rw [h, hrb] at hra
    rw [← hma, ← hmb, Option.some.inj hra]
  rw [Bool.eq_iff_iff, runLE_iff, runLE_iff]
  simp only [hia, hib]
  unfold RunKeyLT at c1 c2
  rw [hma, hmb, hoa, hob] at c1 c2
  omega

theorem reRefs_pairwise (hid : ∀ r ∈ refs, r.meshID ≠ -1) (hc : Consistent refs m) :
    (reRefs startID (exportRuns false idT refs m)).Pairwise (fun a b => runLE a b = true) := by
  unfold reRefs
  rw [pairwise_map, exportRuns_sorted]
  have h0 : (sortedOf false refs).zipIdx.Pairwise (fun a b => runLE a.1 b.1 = true) := by
    rw [← pairwise_map (f := Prod.fst) (R := fun a b => runLE a b = true), zipIdx_map_fst]
    exact sortIdx_sorted refs
  refine h0.imp_of_mem ?_
  intro a b ha hb hab
  have := rho_preserves idT refs m startID hid hc a.1 (sortedOf_mem.1 (fst_mem_of_mem_zipIdx ha))
    b.1 (sortedOf_mem.1 (fst_mem_of_mem_zipIdx hb))
  rw [hab] at this
  exact this

theorem reRefs_consistent (hid : ∀ r ∈ refs, r.meshID ≠ -1) (hc : Consistent refs m) :
    Consistent (reRefs startID (exportRuns false idT refs m)) (reMap startID nx (exportRuns false idT refs m)) := by
  intro r2 hr2
  obtain ⟨a, ha, rfl⟩ := mem_map.1 hr2
  rw [exportRuns_sorted] at ha
  have hat : (sortedOf false refs)[a.2]? = some a.1 := mem_zipIdx_iff_getElem?.1 ha
  obtain ⟨k, run, hrun, _, _, _, ho, hidx⟩ := ref_run idT refs m hid hc a.2 a.1 hat
  have hkl : k < (loopOf false idT refs m).1.length := (List.getElem?_eq_some_iff.1 hrun).1
  have hrun' : (exportRuns false idT refs m).runs[k]? = some run := by
    rw [exportRuns_runs, getElem?_append_left hkl]; exact hrun
  refine ⟨reRel nx run.rel, ?_, ho⟩
  simp only [hidx]
  exact reMap_lookup startID nx _ k run hrun'

theorem sortedOf_reRefs (hid : ∀ r ∈ refs, r.meshID ≠ -1) (hc : Consistent refs m) :
    sortIdx false (reRefs startID (exportRuns false idT refs m)) =
      (reRefs startID (exportRuns false idT refs m)).zipIdx :=
  sortIdx_of_sorted (reRefs_pairwise idT refs m startID hid hc)

/-- a run after the round trip: same start, meshID `startID + index`, relation through `reRel` -/
def reRun (startID : Int) (nx : Nat) (rk : Run τ × Nat) : Run τ :=
  ⟨rk.1.start, startID + (rk.2 : Nat), reRel nx rk.1.rel⟩

theorem sortedOf_reRefs' (hid : ∀ r ∈ refs, r.meshID ≠ -1) (hc : Consistent refs m) :
    sortedOf false (reRefs startID (exportRuns false idT refs m)) =
      reRefs startID (exportRuns false idT refs m) := by
  rw [sortedOf, sortedOf_reRefs idT refs m startID hid hc, zipIdx_map_fst]

theorem loop2_fst (hs : 0 ≤ startID) (hid : ∀ r ∈ refs, r.meshID ≠ -1) (hc : Consistent refs m) :
    (loopOf false idT (reRefs startID (exportRuns false idT refs m))
        (reMap startID nx (exportRuns false idT refs m))).1 =
      (loopOf false idT refs m).1.zipIdx.map (reRun startID nx) := by
  have hid2 := reRefs_hid startID (exportRuns false idT refs m) hs
  have hc2 := reRefs_consistent idT refs m startID nx hid hc
  have hren := runsFrom_rename
    (fun id => startID + ((exportRuns false idT refs m).runMeshID.idxOf id : Nat))
    (Rel.dflt idT) (Rel.dflt idT) (sortedOf false refs)
    (sortedOf false (reRefs startID (exportRuns false idT refs m))) 0 (-1) (-1) m
    (reMap startID nx (exportRuns false idT refs m))
    (by
      rw [sortedOf_reRefs' idT refs m startID hid hc, reRefs, map_map, exportRuns_sorted]
      conv => rhs; rw [← zipIdx_map_fst 0 (sortedOf false refs), map_map]
      rfl)
    (by
      intro x hx y _ h
      have hx' : x ∈ (exportRuns false idT refs m).runMeshID := by
        obtain ⟨r, hr, rfl⟩ := mem_map.1 hx
        have := (loop_mem_meshIDs idT refs m false hid r.meshID).2 (mem_map.2 ⟨r, sortedOf_mem.1 hr, rfl⟩)
        rw [RunTable.runMeshID, exportRuns_runs, map_append]
        exact mem_append_left _ this
      have h' : startID + ((exportRuns false idT refs m).runMeshID.idxOf x : Nat) =
          startID + ((exportRuns false idT refs m).runMeshID.idxOf y : Nat) := h
      exact idxOf_inj hx' (by omega))
    (by
      intro x hx
      obtain ⟨r, hr, rfl⟩ := mem_map.1 hx
      have := hid r (sortedOf_mem.1 hr)
      constructor
      · intro h
        have h' : startID + ((exportRuns false idT refs m).runMeshID.idxOf r.meshID : Nat) = -1 := h
        omega
      · intro h; exact absurd h this)
  have hlen : (loopOf false idT (reRefs startID (exportRuns false idT refs m))
      (reMap startID nx (exportRuns false idT refs m))).1.length = (loopOf false idT refs m).1.length := by
    have := congrArg length hren
    simpa using this
  apply ext_getElem (by simp [hlen])
  intro k hk1 hk2
  have hk : k < (loopOf false idT refs m).1.length := by rw [← hlen]; exact hk1
  have hpair := congrArg (fun l => l[k]?) hren
  simp only [getElem?_map, getElem?_eq_getElem hk1, getElem?_eq_getElem hk, Option.map_some,
    Option.some.injEq, Prod.mk.injEq, idxOf_loop idT refs m hid hc k hk] at hpair
  obtain ⟨h1, h2⟩ := hpair
  obtain ⟨_, _, _, hl, _⟩ := loop_run_spec idT _ _ hid2 hc2 _ (getElem_mem hk1)
  have hrunk : (exportRuns false idT refs m).runs[k]? = some ((loopOf false idT refs m).1[k]) := by
    rw [exportRuns_runs, getElem?_append_left hk, getElem?_eq_getElem hk]
  rw [h2, reMap_lookup startID nx _ k _ hrunk] at hl
  rw [getElem_map, getElem_zipIdx, Nat.zero_add, reRun]
  generalize (loopOf false idT (reRefs startID (exportRuns false idT refs m))
      (reMap startID nx (exportRuns false idT refs m))).1[k] = run2 at h1 h2 hl
  cases run2
  simp only at h1 h2 hl
  rw [h1, h2, ← Option.some.inj hl]

theorem reRefs_length' : (reRefs startID (exportRuns false idT refs m)).length = refs.length := by
  rw [reRefs_length, exportRuns_sorted, sortedOf_length]

/-- the runs of the second export: the runs of the first one, renamed -/
theorem reexport_runs (hs : 0 ≤ startID) (hid : ∀ r ∈ refs, r.meshID ≠ -1) (hc : Consistent refs m) :
    (exportRuns false idT (reRefs startID (exportRuns false idT refs m))
        (reMap startID nx (exportRuns false idT refs m))).runs =
      (exportRuns false idT refs m).runs.zipIdx.map (reRun startID nx) := by
  have h1 := loop2_fst idT refs m startID nx hs hid hc
  rw [exportRuns_runs, reRefs_length']
  have h2 := runsFrom_snd (Rel.dflt idT) (sortedOf false (reRefs startID (exportRuns false idT refs m))) 0 (-1)
    (reMap startID nx (exportRuns false idT refs m))
  rw [loopOf, h2]
  rw [loopOf] at h1
  rw [h1, map_map]
  conv => rhs; rw [exportRuns_runs, zipIdx_append, map_append]
  congr 1
  rw [reMap, exportRuns_runs, zipIdx_append, map_append, filter_append]
  have hA : filter (fun kv : Int × Rel τ => !(map ((fun x : Run τ => x.meshID) ∘ reRun startID nx)
      (loopOf false idT refs m).1.zipIdx).contains kv.1)
      (map (fun rk : Run τ × Nat => (startID + (rk.2 : Nat), reRel nx rk.1.rel)) (loopOf false idT refs m).1.zipIdx) = [] := by
    rw [filter_eq_nil_iff]
    intro a ha
    obtain ⟨rk, hrk, rfl⟩ := mem_map.1 ha
    simp only [Bool.not_eq_true', Bool.not_eq_false, contains_iff_mem]
    exact mem_map.2 ⟨rk, hrk, rfl⟩
  have hB : filter (fun kv : Int × Rel τ => !(map ((fun x : Run τ => x.meshID) ∘ reRun startID nx)
      (loopOf false idT refs m).1.zipIdx).contains kv.1)
      (map (fun rk : Run τ × Nat => (startID + (rk.2 : Nat), reRel nx rk.1.rel))
        (((loopOf false idT refs m).2.map fun kv => (⟨refs.length, kv.1, kv.2⟩ : Run τ)).zipIdx
          (0 + (loopOf false idT refs m).1.length))) =
      (map (fun rk : Run τ × Nat => (startID + (rk.2 : Nat), reRel nx rk.1.rel))
        (((loopOf false idT refs m).2.map fun kv => (⟨refs.length, kv.1, kv.2⟩ : Run τ)).zipIdx
          (0 + (loopOf false idT refs m).1.length))) := by
    rw [filter_eq_self]
    intro a ha
    obtain ⟨rk, hrk, rfl⟩ := mem_map.1 ha
    have hge := le_snd_of_mem_zipIdx hrk
    simp only [Bool.not_eq_true', ← Bool.not_eq_true, contains_iff_mem]
    intro hmem
    obtain ⟨rk', hrk', e⟩ := mem_map.1 hmem
    have hlt := snd_lt_of_mem_zipIdx hrk'
    simp only [Function.comp, reRun] at e
    omega
  rw [hA, hB, nil_append, map_map]
  apply map_congr_left
  intro rk hrk
  have : rk.1.start = refs.length := by
    obtain ⟨kv, _, e⟩ := mem_map.1 (fst_mem_of_mem_zipIdx hrk)
    rw [← e]
  simp only [Function.comp, reRun, this]

theorem exportRuns_run_lookup (hm : RelMap.Sorted m) (hid : ∀ r ∈ refs, r.meshID ≠ -1)
    (hc : Consistent refs m) :
    ∀ run ∈ (exportRuns false idT refs m).runs, RelMap.lookup m run.meshID = some run.rel := by
  intro run hr
  rw [exportRuns_runs] at hr
  rcases mem_append.1 hr with hr | hr
  · obtain ⟨_, _, _, h, _⟩ := loop_run_spec idT refs m hid hc run hr
    exact h
  · obtain ⟨kv, hkv, rfl⟩ := mem_map.1 hr
    rw [loop_snd idT refs m false hid] at hkv
    exact RelMap.lookup_eq_some_of_mem m kv.1 kv.2 hm (mem_filter.1 hkv).1

theorem lookup_mem {k : Int} {v : Rel τ} (h : RelMap.lookup m k = some v) : ∃ kv ∈ m, kv.2 = v := by
  unfold RelMap.lookup at h
  cases hf : m.find? (fun kv => kv.1 == k) with
  | none => rw [hf] at h; simp at h
  | some kv =>
    rw [hf] at h
    exact ⟨kv, mem_of_find?_eq_some hf, Option.some.inj h⟩

theorem reRel_eq (hm : RelMap.Sorted m) (hid : ∀ r ∈ refs, r.meshID ≠ -1) (hc : Consistent refs m)
    (hn : 3 ≤ nx ∨ ∀ kv ∈ m, kv.2.hasNormals = false) :
    ∀ run ∈ (exportRuns false idT refs m).runs, reRel nx run.rel = run.rel := by
  intro run hr
  unfold reRel
  rcases hn with hn | hn
  · simp [hn]
  · obtain ⟨kv, hkv, e⟩ := lookup_mem m (exportRuns_run_lookup idT refs m hm hid hc run hr)
    have := hn kv hkv
    rw [e] at this
    rw [this]
    cases hrel : run.rel with
    | mk o t b h =>
      rw [hrel] at this
      simp only at this
      simp [this]

/-- the run fields of the second export -/
theorem reexport_fields (hm : RelMap.Sorted m) (hs : 0 ≤ startID) (hid : ∀ r ∈ refs, r.meshID ≠ -1)
    (hc : Consistent refs m) (hn : 3 ≤ nx ∨ ∀ kv ∈ m, kv.2.hasNormals = false) :
    (exportRuns false idT (reRefs startID (exportRuns false idT refs m))
        (reMap startID nx (exportRuns false idT refs m))).runs.map (fun r => (r.start, r.rel)) =
      (exportRuns false idT refs m).runs.map (fun r => (r.start, r.rel)) := by
  rw [reexport_runs idT refs m startID nx hs hid hc, map_map]
  conv => rhs; rw [← zipIdx_map_fst 0 (exportRuns false idT refs m).runs, map_map]
  apply map_congr_left
  intro rk hrk
  simp only [Function.comp, reRun, reRel_eq idT refs m nx hm hid hc hn rk.1 (fst_mem_of_mem_zipIdx hrk)]

theorem reexport_faceID (hid : ∀ r ∈ refs, r.meshID ≠ -1) (hc : Consistent refs m)
    (hf : ∀ r ∈ refs, 0 ≤ exportFaceID r) :
    (exportRuns false idT (reRefs startID (exportRuns false idT refs m))
        (reMap startID nx (exportRuns false idT refs m))).faceID = (exportRuns false idT refs m).faceID := by
  rw [RunTable.faceID, RunTable.faceID, exportRuns_sorted, sortedOf_reRefs' idT refs m startID hid hc,
    reRefs, map_map, exportRuns_sorted]
  conv => rhs; rw [← zipIdx_map_fst 0 (sortedOf false refs), map_map]
  apply map_congr_left
  intro a ha
  have h0 := hf a.1 (sortedOf_mem.1 (fst_mem_of_mem_zipIdx ha))
  simp only [Function.comp]
  show (if 0 ≤ exportFaceID a.1 then exportFaceID a.1 else (a.2 : Int)) = exportFaceID a.1
  rw [if_pos h0]

theorem reexport_triNew2Old (hid : ∀ r ∈ refs, r.meshID ≠ -1) (hc : Consistent refs m) :
    (exportRuns false idT (reRefs startID (exportRuns false idT refs m))
        (reMap startID nx (exportRuns false idT refs m))).triNew2Old = List.range refs.length := by
  rw [exportRuns_triNew2Old, sortedOf_reRefs idT refs m startID hid hc, zipIdx_map_snd,
    reRefs_length', range_eq_range']

end reexport

end MV.Export
