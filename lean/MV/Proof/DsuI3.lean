/-
(I3) "a rank-0 root has no children".  As a plain state invariant this is FALSE: between the
link CAS and the rank CAS of `unite` the new parent is a rank-0 root with a child (see the
`example` in MV/Props/C13c.lean).  What is invariant is the version with that window as the
only exception: a rank-0 root with a child has a thread sitting on the rank CAS for it with
`r2 = 0`; that CAS is strong, so it succeeds unless the root stopped being a rank-0 root.
At quiescence no thread is pending, hence (I3) holds and the `connectedComponents`
shortcut is sound.  (The "retry if rank = 0" loop in `unite` plays no role in this: after a
successful link the retry finds `id1` and `id2` in one tree and returns.)
-/
import MV.Proof.DsuCC

namespace MV.Dsu

/-- a description of one step of an unfinished thread `t` -/
theorem step_desc {s : State} {tid : Nat} {sp : Bool} {t : Thr} (hget : s.thr[tid]? = some t)
    (hfin : t.finished = false) :
    ∃ w ok, (step s tid sp).1.thr = s.thr.set tid (t.next w ok) ∧
      (t.pc = .fLoadNP → w = rd s.mem t.value.parent) ∧
      (∀ i, t.memOp = .load i → w = rd s.mem i) ∧
      ((ok = false ∧ (step s tid sp).1.mem = s.mem ∧ (step s tid sp).1.links = s.links ∧
          (t.pc = .uRankCas → rd s.mem t.id2 ≠ ⟨t.r2, t.id2⟩)) ∨
       (ok = true ∧ t.pc = .fCas ∧ rd s.mem t.id = t.value ∧
          (step s tid sp).1.mem = wr s.mem t.id ⟨t.value.rank, t.np⟩ ∧
          (step s tid sp).1.links = s.links) ∨
       (ok = true ∧ t.pc = .uLink ∧ rd s.mem t.id1 = ⟨t.r1, t.id1⟩ ∧
          (step s tid sp).1.mem = wr s.mem t.id1 ⟨t.r1, t.id2⟩ ∧
          (step s tid sp).1.links = (t.id1, t.id2) :: s.links) ∨
       (ok = true ∧ t.pc = .uRankCas ∧ rd s.mem t.id2 = ⟨t.r2, t.id2⟩ ∧
          (step s tid sp).1.mem = wr s.mem t.id2 ⟨t.r2 + 1, t.id2⟩ ∧
          (step s tid sp).1.links = s.links)) := by
  unfold step
  rw [hget]; dsimp only
  rw [if_neg (by simp [hfin])]
  cases hpc : t.pc with
  | fLoadP =>
    rw [show t.memOp = MemOp.load t.id from by simp [Thr.memOp, hpc]]; dsimp only
    exact ⟨_, false, rfl, by simp, fun i h => by cases h; rfl, .inl ⟨rfl, rfl, rfl, by simp⟩⟩
  | fLoadV =>
    rw [show t.memOp = MemOp.load t.id from by simp [Thr.memOp, hpc]]; dsimp only
    exact ⟨_, false, rfl, by simp, fun i h => by cases h; rfl, .inl ⟨rfl, rfl, rfl, by simp⟩⟩
  | fLoadNP =>
    rw [show t.memOp = MemOp.load t.value.parent from by simp [Thr.memOp, hpc]]; dsimp only
    exact ⟨_, false, rfl, fun _ => rfl, fun i h => by cases h; rfl, .inl ⟨rfl, rfl, rfl, by simp⟩⟩
  | uRank1 =>
    rw [show t.memOp = MemOp.load t.id1 from by simp [Thr.memOp, hpc]]; dsimp only
    exact ⟨_, false, rfl, by simp, fun i h => by cases h; rfl, .inl ⟨rfl, rfl, rfl, by simp⟩⟩
  | uRank2 =>
    rw [show t.memOp = MemOp.load t.id2 from by simp [Thr.memOp, hpc]]; dsimp only
    exact ⟨_, false, rfl, by simp, fun i h => by cases h; rfl, .inl ⟨rfl, rfl, rfl, by simp⟩⟩
  | sLoadP =>
    rw [show t.memOp = MemOp.load t.id1 from by simp [Thr.memOp, hpc]]; dsimp only
    exact ⟨_, false, rfl, by simp, fun i h => by cases h; rfl, .inl ⟨rfl, rfl, rfl, by simp⟩⟩
  | fCas =>
    rw [show t.memOp = MemOp.cas t.id t.value ⟨t.value.rank, t.np⟩ true from by
      simp [Thr.memOp, hpc]]; dsimp only
    generalize hb : (!(true && sp) && decide (rd s.mem t.id = t.value)) = ok
    cases ok with
    | true =>
      refine ⟨rd s.mem t.id, true, rfl, by simp, (fun i h => by cases h), .inr (.inl ⟨rfl, rfl, ?_, rfl, ?_⟩)⟩
      · simp only [Bool.and_eq_true, decide_eq_true_eq] at hb; exact hb.2
      · simp
    | false =>
      refine ⟨rd s.mem t.id, false, rfl, by simp, (fun i h => by cases h), .inl ⟨rfl, rfl, ?_, by simp⟩⟩
      simp
  | uLink =>
    rw [show t.memOp = MemOp.cas t.id1 ⟨t.r1, t.id1⟩ ⟨t.r1, t.id2⟩ false from by
      simp [Thr.memOp, hpc]]; dsimp only
    by_cases hok : rd s.mem t.id1 = ⟨t.r1, t.id1⟩
    · refine ⟨rd s.mem t.id1, true, by simp [hok], by simp, (fun i h => by cases h), .inr (.inr (.inl ⟨rfl, rfl, hok, ?_, ?_⟩))⟩
      · simp [hok]
      · simp [hok]
    · refine ⟨rd s.mem t.id1, false, by simp [hok], by simp, (fun i h => by cases h), .inl ⟨rfl, ?_, ?_, by simp⟩⟩
      · simp [hok]
      · simp [hok]
  | uRankCas =>
    rw [show t.memOp = MemOp.cas t.id2 ⟨t.r2, t.id2⟩ ⟨t.r2 + 1, t.id2⟩ false from by
      simp [Thr.memOp, hpc]]; dsimp only
    by_cases hok : rd s.mem t.id2 = ⟨t.r2, t.id2⟩
    · refine ⟨rd s.mem t.id2, true, by simp [hok], by simp, (fun i h => by cases h), .inr (.inr (.inr ⟨rfl, rfl, hok, ?_, ?_⟩))⟩
      · simp [hok]
      · simp
    · refine ⟨rd s.mem t.id2, false, by simp [hok], by simp, (fun i h => by cases h), .inl ⟨rfl, ?_, ?_, fun _ => hok⟩⟩
      · simp [hok]
      · simp

theorem step_idle {s : State} {tid : Nat} {sp : Bool}
    (h : s.thr[tid]? = none ∨ ∃ t, s.thr[tid]? = some t ∧ t.finished = true) :
    (step s tid sp).1 = s := by
  unfold step
  rcases h with h | ⟨t, h, hf⟩
  · rw [h]
  · rw [h]; dsimp only; rw [if_pos hf]

/-- some thread is about to execute the rank CAS `(0, g) → (1, g)` -/
def Pending (s : State) (g : Nat) : Prop :=
  ∃ (tid : Nat) (t : Thr), s.thr[tid]? = some t ∧ t.finished = false ∧ t.pc = .uRankCas ∧
    t.id2 = g ∧ t.r2 = 0

/-- if `g` is a rank-0 root then its rank bump is pending -/
def P3 (s : State) (g : Nat) : Prop := par s.mem g = g → rk s.mem g = 0 → Pending s g

structure Inv3 (n : Nat) (s : State) : Prop where
  /-- (I3) with its only exception -/
  child : ∀ g j, g < n → j < n → j ≠ g → par s.mem j = g → P3 s g
  fcas : ∀ (tid : Nat) (t : Thr), s.thr[tid]? = some t → t.finished = false → t.pc = .fCas →
    P3 s t.np

theorem word_eta (w : Word) : w = ⟨w.rank, w.parent⟩ := rfl

theorem P3_step {n : Nat} {s : State} (hI : Inv n s) (tid : Nat) (sp : Bool) {g : Nat}
    (h : P3 s g) : P3 (step s tid sp).1 g := by
  intro hroot hrk0
  have x := (step_inv2 hI tid sp).2
  have hroot0 : par s.mem g = g :=
    Classical.byContradiction fun hn => (x.nonroot g hn).1 hroot
  have hrk00 : rk s.mem g = 0 := by have := x.rkMono g; omega
  obtain ⟨tid0, t0, hget0, hfin0, hpc0, hid0, hr0⟩ := h hroot0 hrk00
  cases hget : s.thr[tid]? with
  | none => rw [step_idle (.inl hget)]; exact ⟨tid0, t0, hget0, hfin0, hpc0, hid0, hr0⟩
  | some t =>
    cases hfin : t.finished with
    | true => rw [step_idle (.inr ⟨t, hget, hfin⟩)]; exact ⟨tid0, t0, hget0, hfin0, hpc0, hid0, hr0⟩
    | false =>
      obtain ⟨w, ok, hthr, _, _, hcases⟩ := step_desc (sp := sp) hget hfin
      by_cases e : tid = tid0
      · subst e
        rw [hget] at hget0
        have ht := Option.some.inj hget0
        rw [← ht] at hfin0 hpc0 hid0 hr0
        have hrd : rd s.mem t.id2 = ⟨t.r2, t.id2⟩ := by
          rw [hid0, hr0, word_eta (rd s.mem g)]
          unfold par at hroot0; unfold rk at hrk00
          rw [hroot0, hrk00]
        rcases hcases with ⟨_, _, _, hne⟩ | ⟨_, hp, _⟩ | ⟨_, hp, _⟩ | ⟨_, _, _, hmem, _⟩
        · exact (hne hpc0 hrd).elim
        · rw [hpc0] at hp; cases hp
        · rw [hpc0] at hp; cases hp
        · -- the bump succeeded: `g` has rank 1 now
          have hT := hI.thr tid t hget
          obtain ⟨op, hc⟩ : ∃ op, t.curOp = some op := by
            unfold Thr.finished at hfin
            cases h : t.curOp with
            | none => rw [h] at hfin; cases hfin
            | some op => exact ⟨op, rfl⟩
          obtain ⟨_, _, _, _, h2, _, _⟩ := (hT.cur op hc).getUnite
            (by rw [hpc0]; exact fun h => h) (by rw [hpc0]; exact fun h => by cases h)
          have hlen : t.id2 < s.mem.length := hI.mem.len ▸ h2
          rw [hmem, rk_wr _ _ _ _ hlen, hid0] at hrk0
          simp at hrk0
      · refine ⟨tid0, t0, ?_, hfin0, hpc0, hid0, hr0⟩
        rw [hthr, List.getElem?_set_ne e]; exact hget0

theorem startOp_pc {t : Thr} (h : t.startOp.finished = false) : t.startOp.pc = .fLoadP := by
  unfold Thr.startOp at h ⊢
  cases hc : t.curOp with
  | none => simp only [hc] at h; unfold Thr.finished at h; rw [hc] at h; cases h
  | some op => cases op <;> rfl

theorem finishOp_pc {t : Thr} {r : Nat} (h : (t.finishOp r).finished = false) :
    (t.finishOp r).pc = .fLoadP := startOp_pc h

theorem findRet_pc {t : Thr} {r : Nat} (h : (t.findRet r).finished = false) :
    (t.findRet r).pc ≠ .fCas := by
  unfold Thr.findRet at h ⊢
  revert h
  cases t.k <;> intro h <;> dsimp only at h ⊢
  · rw [finishOp_pc h]; exact fun e => by cases e
  · exact fun e => by cases e
  · split
    · rename_i e; rw [if_pos e] at h; rw [finishOp_pc h]; exact fun e => by cases e
    · exact fun e => by cases e
  · exact fun e => by cases e
  · split
    · rename_i e; rw [if_pos e] at h; rw [finishOp_pc h]; exact fun e => by cases e
    · exact fun e => by cases e

/-- a thread arrives at the path-halving CAS only from the load of the grandparent -/
theorem next_pc_fCas {t : Thr} {w : Word} {ok : Bool} (hf : (t.next w ok).finished = false)
    (h : (t.next w ok).pc = .fCas) : t.pc = .fLoadNP := by
  unfold Thr.next at hf h
  cases hp : t.pc with
  | fLoadNP => rfl
  | fLoadP =>
    rw [hp] at hf h; dsimp only at hf h
    split at h
    · rename_i e; rw [if_pos e] at hf; exact (findRet_pc hf h).elim
    · cases h
  | fLoadV => rw [hp] at h; cases h
  | fCas => rw [hp] at h; cases h
  | uRank1 => rw [hp] at h; cases h
  | uRank2 => rw [hp] at h; dsimp only at h; split at h <;> cases h
  | uLink =>
    rw [hp] at hf h; dsimp only at hf h
    split at h
    · rename_i e1
      rw [if_pos e1] at hf
      split at h
      · cases h
      · rename_i e2; rw [if_neg e2] at hf; rw [finishOp_pc hf] at h; cases h
    · unfold Thr.uniteRetry at h; cases h
  | uRankCas =>
    rw [hp] at hf h; dsimp only at hf h
    split at h
    · unfold Thr.uniteRetry at h; cases h
    · rename_i e; rw [if_neg e] at hf; rw [finishOp_pc hf] at h; cases h
  | sLoadP =>
    rw [hp] at hf h; dsimp only at hf h
    split at h
    · rename_i e; rw [if_pos e] at hf; rw [finishOp_pc hf] at h; cases h
    · cases h

theorem step_inv3 {n : Nat} {s : State} (hI : Inv n s) (h3 : Inv3 n s) (tid : Nat) (sp : Bool) :
    Inv3 n (step s tid sp).1 := by
  cases hget : s.thr[tid]? with
  | none => rw [step_idle (.inl hget)]; exact h3
  | some t =>
    cases hfin : t.finished with
    | true => rw [step_idle (.inr ⟨t, hget, hfin⟩)]; exact h3
    | false =>
      have hT := hI.thr tid t hget
      have htid : tid < s.thr.length := (List.getElem?_eq_some_iff.1 hget).1
      obtain ⟨op, hc⟩ : ∃ op, t.curOp = some op := by
        unfold Thr.finished at hfin
        cases h : t.curOp with
        | none => rw [h] at hfin; cases hfin
        | some op => exact ⟨op, rfl⟩
      obtain ⟨w, ok, hthr, hw, _, hcases⟩ := step_desc (sp := sp) hget hfin
      have hlenEq := hI.mem.len
      refine ⟨?_, ?_⟩
      · -- children
        intro g j hg hj hjg hpar
        by_cases hold : par s.mem j = g
        · exact P3_step hI tid sp (h3.child g j hg hj hjg hold)
        · rcases hcases with ⟨_, hmem, _, _⟩ | ⟨_, hp, hrd, hmem, _⟩ | ⟨hokt, hp, hrd, hmem, _⟩ |
              ⟨_, hp, hrd, hmem, _⟩
          · rw [hmem] at hpar; exact (hold hpar).elim
          · -- halving: `j = t.id`, `g = t.np`
            obtain ⟨tgt, f⟩ := (hT.cur op hc).getFind (by rw [hp]; trivial)
            have hidlt : t.id < s.mem.length := hlenEq ▸ f.1
            rw [hmem, par_wr _ _ _ _ hidlt] at hpar
            by_cases e : t.id = j
            · simp only [e, if_true] at hpar
              subst hpar
              exact P3_step hI tid sp (h3.fcas tid t hget hfin hp)
            · simp only [e, if_false] at hpar; exact (hold hpar).elim
          · -- link: `j = t.id1`, `g = t.id2`
            obtain ⟨a, b, rfl, h1, h2, _, u⟩ := (hT.cur op hc).getUnite
              (by rw [hp]; exact fun h => h) (by rw [hp]; exact fun h => by cases h)
            unfold UPart at u; rw [hp] at u
            obtain ⟨_, _, u3, u4⟩ := u
            have hidlt : t.id1 < s.mem.length := hlenEq ▸ h1
            rw [hmem, par_wr _ _ _ _ hidlt] at hpar
            by_cases e : t.id1 = j
            · simp only [e, if_true] at hpar
              subst hpar
              intro _ hrk0
              have x := (step_inv2 hI tid sp).2
              have hr2 : t.r2 = 0 := by have := x.rkMono t.id2; omega
              have hr12 : t.r1 = t.r2 := by omega
              refine ⟨tid, t.next w ok, ?_, ?_, ?_, ?_, ?_⟩
              · rw [hthr]; simp [htid]
              · subst hokt; unfold Thr.next; rw [hp]; dsimp only
                simp only [if_true, hr12]
                exact hfin
              · subst hokt; unfold Thr.next; rw [hp]; dsimp only
                simp only [if_true, hr12]
              · subst hokt; unfold Thr.next; rw [hp]; dsimp only
                simp only [if_true, hr12]
              · subst hokt; unfold Thr.next; rw [hp]; dsimp only
                simp only [if_true, hr12]; exact hr2
            · simp only [e, if_false] at hpar; exact (hold hpar).elim
          · -- bump: parents unchanged
            obtain ⟨a, b, rfl, h1, h2, _, u⟩ := (hT.cur op hc).getUnite
              (by rw [hp]; exact fun h => h) (by rw [hp]; exact fun h => by cases h)
            have hidlt : t.id2 < s.mem.length := hlenEq ▸ h2
            rw [hmem, par_wr _ _ _ _ hidlt] at hpar
            by_cases e : t.id2 = j
            · simp only [e, if_true] at hpar
              exact (hjg hpar).elim
            · simp only [e, if_false] at hpar; exact (hold hpar).elim
      · -- threads at fCas
        intro tid2 t2 hget2 hfin2 hpc2
        rw [hthr] at hget2
        by_cases e : tid = tid2
        · subst e
          rw [List.getElem?_set_self htid] at hget2
          cases hget2
          -- the acting thread reaches fCas only from fLoadNP
          have hp := next_pc_fCas hfin2 hpc2
          have hw' := hw hp
          obtain ⟨tgt, f⟩ := (hT.cur op hc).getFind (by rw [hp]; trivial)
          unfold FindInv at f; rw [hp] at f
          obtain ⟨_, _, _, f4, _⟩ := f
          unfold Thr.next at hpc2 ⊢
          rw [hp] at hpc2 ⊢
          dsimp only at hpc2 ⊢
          by_cases hc2 : w.parent = t.value.parent
          · rw [if_pos hc2] at hpc2; cases hpc2
          · rw [if_neg hc2]
            dsimp only
            have hchild : par s.mem t.value.parent = w.parent := by rw [hw']; rfl
            have := h3.child w.parent t.value.parent (hchild ▸ hI.mem.bound _ f4) f4
              (fun e => hc2 e.symm) hchild
            exact P3_step hI tid sp this
        · rw [List.getElem?_set_ne e] at hget2
          exact P3_step hI tid sp (h3.fcas tid2 t2 hget2 hfin2 hpc2)

theorem init_inv3 (n : Nat) (progs : List (List Op)) : Inv3 n (init n progs) := by
  refine ⟨?_, ?_⟩
  · intro g j _ hj hjg hpar
    simp only [init, par, rd_initMem n j hj] at hpar
    exact (hjg hpar).elim
  · intro tid t hget hfin hpc
    simp only [init, List.getElem?_map] at hget
    cases hp : progs[tid]? with
    | none => rw [hp] at hget; cases hget
    | some p =>
      rw [hp] at hget; simp only [Option.map_some, Option.some.injEq] at hget
      subst hget
      rw [startOp_pc hfin] at hpc; cases hpc

theorem exec_inv3 {n : Nat} {s : State} (hI : Inv n s) (h3 : Inv3 n s)
    (sched : List (Nat × Bool)) : Inv3 n (exec s sched) := by
  induction sched generalizing s with
  | nil => exact h3
  | cons e rest ih => exact ih (step_inv hI e.1 e.2) (step_inv3 hI h3 e.1 e.2)

/-- at quiescence nothing is pending, so (I3) holds without exception -/
theorem quiescent_noChild0 {n : Nat} {s : State} (h3 : Inv3 n s) (hq : quiescent s = true) :
    NoChild0 n s.mem := by
  intro r j hr hj hroot hrk hpar
  apply Classical.byContradiction
  intro hne
  obtain ⟨tid, t, hget, hfin, _⟩ := h3.child r j hr hj hne hpar hroot hrk
  unfold quiescent at hq
  have := List.all_eq_true.1 hq t (List.mem_of_getElem? hget)
  rw [this] at hfin; cases hfin

end MV.Dsu
