import MV.Proof.EdgeOpFormLoopCore
import MV.Proof.EdgeOpFormLoopOrbits
import MV.Proof.EdgeOpLocal
/-! `FormLoop` = `formLoopCore` followed by `RemoveIfFolded`: composition of the two results. -/
namespace MV.EdgeOp

theorem formLoop_preserves (s : HE) (cur en k m : Nat) (h : PairInv s)
    (hc : cur < s.start.size) (he : en < s.start.size) (hne : cur ≠ en)
    (hlc : s.P cur ≠ -1) (hle : s.P en ≠ -1)
    (hS : s.S cur = s.S en) (hE : s.S (nx cur) = s.S (nx en))
    (hfresh : ∀ e, e < s.start.size → s.S e < (s.nVert : Int))
    (hk : s.walk (s.Pn cur) k = s.Pn en) (hkmin : ∀ i, i < k → s.walk (s.Pn cur) i ≠ s.Pn en)
    (hm : s.walk en m = cur) (hmmin : ∀ i, i < m → s.walk en i ≠ cur) :
    ∃ s', formLoop s (cur : Int) (en : Int) = .ok s' ∧ PairInv s' ∧ s'.nVert = s.nVert + 2 ∧
      s'.prop.size = s.prop.size :=
  formLoop_preserves_of removeIfFolded_preserves s cur en k m h hc he hne hlc hle hS hE hfresh
    hk hkmin hm hmmin

end MV.EdgeOp
