import MV.Model.Cow
/-! Lemmas for the copy-on-write heap model: association-map algebra, the invariant `Inv`
(stored reference count = number of live handles, no dangling handle, no leaked buffer) and
its preservation by the four primitive state changes; frame lemmas for `observe`. -/
namespace MV.Cow
open AMap

variable {β : Type}

/-! ### association maps -/

@[simp] theorem get_nil (k : Nat) : get ([] : AMap β) k = none := rfl

theorem get_cons (k' : Nat) (v : β) (t : AMap β) (k : Nat) :
    get ((k', v) :: t) k = if k' = k then some v else get t k := rfl

theorem get_del (m : AMap β) (k k' : Nat) :
    get (del m k) k' = if k' = k then none else get m k' := by
  induction m with
  | nil => simp [del]
  | cons p t ih =>
    obtain ⟨k0, v⟩ := p
    simp only [del]
    by_cases h0 : k0 = k
    · simp only [h0, if_true, ih, get_cons]
      by_cases h1 : k' = k
      · simp [h1]
      · have : ¬ k = k' := fun e => h1 e.symm
        simp [h1, this]
    · simp only [h0, if_false, get_cons, ih]
      by_cases h1 : k' = k
      · simp [h1]
        intro e; exact absurd e h0
      · simp [h1]

theorem get_set (m : AMap β) (k : Nat) (v : β) (k' : Nat) :
    get (set m k v) k' = if k' = k then some v else get m k' := by
  simp only [AMap.set, get_cons, get_del]
  by_cases h : k' = k
  · simp [h]
  · have : ¬ k = k' := fun e => h e.symm
    simp [h, this]

theorem del_of_get_none (m : AMap β) (k : Nat) (h : get m k = none) : del m k = m := by
  induction m with
  | nil => rfl
  | cons p t ih =>
    obtain ⟨k0, v⟩ := p
    simp only [get_cons] at h
    by_cases h0 : k0 = k
    · simp [h0] at h
    · simp only [h0, if_false] at h
      simp [del, h0, ih h]

/-- every key occurs at most once -/
def KeysNodup : AMap β → Prop
  | [] => True
  | (k, _) :: t => get t k = none ∧ KeysNodup t

theorem keysNodup_del (m : AMap β) (k : Nat) (h : KeysNodup m) : KeysNodup (del m k) := by
  induction m with
  | nil => trivial
  | cons p t ih =>
    obtain ⟨k0, v⟩ := p
    obtain ⟨h1, h2⟩ := h
    simp only [del]
    by_cases h0 : k0 = k
    · simp only [h0, if_true]; exact ih h2
    · simp only [h0, if_false]
      refine ⟨?_, ih h2⟩
      rw [get_del]; simp [h0, h1]

theorem keysNodup_set (m : AMap β) (k : Nat) (v : β) (h : KeysNodup m) : KeysNodup (set m k v) := by
  refine ⟨?_, keysNodup_del m k h⟩
  rw [get_del]; simp

/-! ### counting the handles of a buffer -/

theorem refs_cons (k : Nat) (v : BufId) (t : AMap BufId) (b : BufId) :
    refs ((k, v) :: t) b = (if v = b then 1 else 0) + refs t b := rfl

theorem refs_pos_of_get (m : AMap BufId) (h : Handle) (b : BufId) (hg : get m h = some b) :
    1 ≤ refs m b := by
  induction m with
  | nil => simp at hg
  | cons p t ih =>
    obtain ⟨k0, v⟩ := p
    simp only [get_cons] at hg
    rw [refs_cons]
    by_cases h0 : k0 = h
    · simp only [h0, if_true, Option.some.injEq] at hg
      simp [hg]
    · simp only [h0, if_false] at hg
      have := ih hg
      omega

theorem refs_del (m : AMap BufId) (h : Handle) (b : BufId) (hn : KeysNodup m) :
    refs m b = refs (del m h) b + (if get m h = some b then 1 else 0) := by
  induction m with
  | nil => simp [refs, del]
  | cons p t ih =>
    obtain ⟨k0, v⟩ := p
    obtain ⟨h1, h2⟩ := hn
    simp only [del, get_cons, refs_cons]
    by_cases h0 : k0 = h
    · subst h0
      simp only [if_true, Option.some.injEq]
      rw [del_of_get_none t k0 h1]
      omega
    · simp only [h0, if_false, refs_cons]
      rw [ih h2]
      omega

theorem refs_zero (m : AMap BufId) (b : BufId) (hn : KeysNodup m)
    (h : ∀ k, get m k ≠ some b) : refs m b = 0 := by
  induction m with
  | nil => rfl
  | cons p t ih =>
    obtain ⟨k0, v⟩ := p
    obtain ⟨h1, h2⟩ := hn
    rw [refs_cons]
    have hv : v ≠ b := by
      intro e
      have := h k0
      simp [get_cons, e] at this
    have ht : ∀ k, get t k ≠ some b := by
      intro k
      by_cases hk : k0 = k
      · subst hk; rw [h1]; simp
      · have := h k
        simpa [get_cons, hk] using this
    simp [hv, ih h2 ht]

theorem refs_ge_two (m : AMap BufId) (h h' : Handle) (b : BufId) (hn : KeysNodup m)
    (hne : h' ≠ h) (hg : get m h = some b) (hg' : get m h' = some b) : 2 ≤ refs m b := by
  have h1 := refs_del m h b hn
  have h2 : get (del m h) h' = some b := by rw [get_del]; simp [hne, hg']
  have h3 := refs_pos_of_get _ _ _ h2
  simp only [hg, if_true] at h1
  omega

theorem refs_eq_filter (m : AMap BufId) (b : BufId) :
    refs m b = (m.filter (fun p => p.2 == b)).length := by
  induction m with
  | nil => rfl
  | cons p t ih =>
    obtain ⟨k0, v⟩ := p
    rw [refs_cons, ih, List.filter_cons]
    by_cases hv : v = b
    · simp [hv]; omega
    · simp [hv]

/-! ### the invariant -/

structure Inv (s : State) : Prop where
  nodup : KeysNodup s.hmap
  rc_eq : ∀ b x, get s.bufs b = some x → x.rc = refs s.hmap b
  rc_pos : ∀ b x, get s.bufs b = some x → 1 ≤ x.rc
  buf_live : ∀ h b, get s.hmap h = some b → ∃ x, get s.bufs b = some x
  fresh : ∀ b, s.next ≤ b → get s.bufs b = none

theorem inv_init : Inv {} := by
  constructor
  · trivial
  · intro b x h; simp at h
  · intro b x h; simp at h
  · intro h b hg; simp at hg
  · intro b _; rfl

theorem Inv.not_next {s : State} (hi : Inv s) (h : Handle) : get s.hmap h ≠ some s.next := by
  intro hg
  obtain ⟨x, hx⟩ := hi.buf_live h _ hg
  rw [hi.fresh s.next (Nat.le_refl _)] at hx
  simp at hx

theorem Inv.lt_next {s : State} (hi : Inv s) {b : BufId} {x : Buf} (hb : get s.bufs b = some x) :
    b < s.next := by
  rcases Nat.lt_or_ge b s.next with h | h
  · exact h
  · rw [hi.fresh b h] at hb; simp at hb

/-- `bindNew` on a dead handle keeps the invariant. -/
theorem inv_bindNew {s : State} (hi : Inv s) (h : Handle) (d : List Int)
    (hd : get s.hmap h = none) : Inv (bindNew s h d) := by
  have hdel : del s.hmap h = s.hmap := del_of_get_none _ _ hd
  constructor
  · exact keysNodup_set _ _ _ hi.nodup
  · intro b x hb
    simp only [bindNew, get_set] at hb
    simp only [bindNew, AMap.set, refs_cons, hdel]
    by_cases hbn : b = s.next
    · subst hbn
      simp only [if_true, Option.some.injEq] at hb
      subst hb
      have := refs_zero s.hmap s.next hi.nodup (fun k => hi.not_next k)
      simp [this]
    · simp only [hbn, if_false] at hb
      have hne : ¬ s.next = b := fun e => hbn e.symm
      simp [hne, hi.rc_eq b x hb]
  · intro b x hb
    simp only [bindNew, get_set] at hb
    by_cases hbn : b = s.next
    · simp only [hbn, if_true, Option.some.injEq] at hb
      subst hb; exact Nat.le_refl _
    · simp only [hbn, if_false] at hb
      exact hi.rc_pos b x hb
  · intro h' b hg
    simp only [bindNew, get_set] at hg ⊢
    by_cases hbn : b = s.next
    · exact ⟨_, if_pos hbn⟩
    · simp only [hbn, if_false]
      by_cases hh : h' = h
      · simp only [hh, if_true, Option.some.injEq] at hg
        exact absurd hg.symm hbn
      · simp only [hh, if_false] at hg
        exact hi.buf_live h' b hg
  · intro b hb
    have hb' : s.next + 1 ≤ b := hb
    show get (AMap.set s.bufs s.next _) b = none
    rw [get_set]
    have : b ≠ s.next := by omega
    simp only [this, if_false]
    exact hi.fresh b (by omega)

/-- `bindShare` of a dead handle to an allocated buffer keeps the invariant. -/
theorem inv_bindShare {s : State} (hi : Inv s) (h : Handle) (b : BufId) (x : Buf)
    (hd : get s.hmap h = none) (hb : get s.bufs b = some x) : Inv (bindShare s h b) := by
  have hdel : del s.hmap h = s.hmap := del_of_get_none _ _ hd
  simp only [bindShare, hb]
  constructor
  · exact keysNodup_set _ _ _ hi.nodup
  · intro b' y hy
    simp only [get_set] at hy
    simp only [AMap.set, refs_cons, hdel]
    by_cases hbb : b' = b
    · subst hbb
      simp only [if_true, Option.some.injEq] at hy
      subst hy
      have := hi.rc_eq b' x hb
      simp [this]; omega
    · simp only [hbb, if_false] at hy
      have hne : ¬ b = b' := fun e => hbb e.symm
      simp [hne, hi.rc_eq b' y hy]
  · intro b' y hy
    simp only [get_set] at hy
    by_cases hbb : b' = b
    · simp only [hbb, if_true, Option.some.injEq] at hy
      subst hy; simp
    · simp only [hbb, if_false] at hy
      exact hi.rc_pos b' y hy
  · intro h' b' hg
    simp only [get_set] at hg ⊢
    by_cases hbb : b' = b
    · exact ⟨_, if_pos hbb⟩
    · simp only [hbb, if_false]
      by_cases hh : h' = h
      · simp only [hh, if_true, Option.some.injEq] at hg
        exact absurd hg.symm hbb
      · simp only [hh, if_false] at hg
        exact hi.buf_live h' b' hg
  · intro b' hb'
    have hb'' : s.next ≤ b' := hb'
    show get (AMap.set s.bufs b _) b' = none
    rw [get_set]
    have : b' ≠ b := by have := hi.lt_next hb; omega
    simp only [this, if_false]
    exact hi.fresh b' hb''

/-- `release` of a live handle keeps the invariant. -/
theorem inv_release {s : State} (hi : Inv s) (h : Handle) : Inv (release s h) := by
  unfold release
  cases hg : get s.hmap h with
  | none => exact hi
  | some b =>
    obtain ⟨x, hx⟩ := hi.buf_live h b hg
    have hrc := hi.rc_eq b x hx
    have hpos := hi.rc_pos b x hx
    have hcount : ∀ b', refs s.hmap b' = refs (del s.hmap h) b' + (if b = b' then 1 else 0) := by
      intro b'
      have := refs_del s.hmap h b' hi.nodup
      rw [hg] at this
      simpa using this
    simp only [hx]
    by_cases hle : x.rc ≤ 1
    · simp only [hle, if_true]
      have hone : refs s.hmap b = 1 := by omega
      constructor
      · exact keysNodup_del _ _ hi.nodup
      · intro b' y hy
        simp only [get_del] at hy
        by_cases hbb : b' = b
        · simp [hbb] at hy
        · simp only [hbb, if_false] at hy
          have := hcount b'
          have hne : ¬ b = b' := fun e => hbb e.symm
          simp only [hne, if_false] at this
          rw [hi.rc_eq b' y hy]; simpa using this
      · intro b' y hy
        simp only [get_del] at hy
        by_cases hbb : b' = b
        · simp [hbb] at hy
        · simp only [hbb, if_false] at hy
          exact hi.rc_pos b' y hy
      · intro h' b' hg'
        simp only [get_del] at hg' ⊢
        by_cases hh : h' = h
        · simp [hh] at hg'
        · simp only [hh, if_false] at hg'
          by_cases hbb : b' = b
          · subst hbb
            have := refs_ge_two s.hmap h h' b' hi.nodup hh hg hg'
            omega
          · simp only [hbb, if_false]
            exact hi.buf_live h' b' hg'
      · intro b' hb'
        have hb'' : s.next ≤ b' := hb'
        show get (del s.bufs b) b' = none
        rw [get_del]
        by_cases hbb : b' = b
        · simp [hbb]
        · simp only [hbb, if_false]; exact hi.fresh b' hb''
    · simp only [hle, if_false]
      constructor
      · exact keysNodup_del _ _ hi.nodup
      · intro b' y hy
        simp only [get_set] at hy
        have := hcount b'
        by_cases hbb : b' = b
        · subst hbb
          simp only [if_true, Option.some.injEq] at hy
          subst hy
          simp only [if_true] at this
          simp only; omega
        · simp only [hbb, if_false] at hy
          have hne : ¬ b = b' := fun e => hbb e.symm
          simp only [hne, if_false] at this
          rw [hi.rc_eq b' y hy]; simpa using this
      · intro b' y hy
        simp only [get_set] at hy
        by_cases hbb : b' = b
        · simp only [hbb, if_true, Option.some.injEq] at hy
          subst hy; simp only; omega
        · simp only [hbb, if_false] at hy
          exact hi.rc_pos b' y hy
      · intro h' b' hg'
        simp only [get_del, get_set] at hg' ⊢
        by_cases hh : h' = h
        · simp [hh] at hg'
        · simp only [hh, if_false] at hg'
          by_cases hbb : b' = b
          · exact ⟨_, if_pos hbb⟩
          · simp only [hbb, if_false]
            exact hi.buf_live h' b' hg'
      · intro b' hb'
        have hb'' : s.next ≤ b' := hb'
        show get (AMap.set s.bufs b _) b' = none
        rw [get_set]
        have : b' ≠ b := by have := hi.lt_next hx; omega
        simp only [this, if_false]
        exact hi.fresh b' hb''

theorem inv_setData {s : State} (hi : Inv s) (h : Handle) (f : List Int → List Int) :
    Inv (setData s h f) := by
  unfold setData
  cases hg : get s.hmap h with
  | none => exact hi
  | some b =>
    dsimp only
    cases hx : get s.bufs b with
    | none => exact hi
    | some x =>
      dsimp only
      constructor
      · exact hi.nodup
      · intro b' y hy
        simp only [get_set] at hy
        by_cases hbb : b' = b
        · simp only [hbb, if_true, Option.some.injEq] at hy
          subst hy; subst hbb; exact hi.rc_eq _ x hx
        · simp only [hbb, if_false] at hy
          exact hi.rc_eq b' y hy
      · intro b' y hy
        simp only [get_set] at hy
        by_cases hbb : b' = b
        · simp only [hbb, if_true, Option.some.injEq] at hy
          subst hy; exact hi.rc_pos _ x hx
        · simp only [hbb, if_false] at hy
          exact hi.rc_pos b' y hy
      · intro h' b' hg'
        simp only [get_set] at hg' ⊢
        by_cases hbb : b' = b
        · exact ⟨_, if_pos hbb⟩
        · simp only [hbb, if_false]
          exact hi.buf_live h' b' hg'
      · intro b' hb'
        have hb'' : s.next ≤ b' := hb'
        show get (AMap.set s.bufs b _) b' = none
        rw [get_set]
        have : b' ≠ b := by have := hi.lt_next hx; omega
        simp only [this, if_false]
        exact hi.fresh b' hb''

/-! ### what the primitives do to handles and observations -/

theorem hmap_bindNew (s : State) (h : Handle) (d : List Int) (h' : Handle) :
    get (bindNew s h d).hmap h' = if h' = h then some s.next else get s.hmap h' := by
  simp [bindNew, get_set]

theorem observe_bindNew {s : State} (hi : Inv s) (h : Handle) (d : List Int) (h' : Handle) :
    observe (bindNew s h d) h' = if h' = h then some d else observe s h' := by
  unfold observe
  rw [hmap_bindNew]
  by_cases hh : h' = h
  · simp [hh, bindNew, get_set]
  · simp only [hh, if_false]
    cases hg : get s.hmap h' with
    | none => rfl
    | some b =>
      have : b ≠ s.next := fun e => hi.not_next h' (e ▸ hg)
      simp [bindNew, get_set, this]

theorem hmap_bindShare (s : State) (h : Handle) (b : BufId) (x : Buf) (hb : get s.bufs b = some x)
    (h' : Handle) :
    get (bindShare s h b).hmap h' = if h' = h then some b else get s.hmap h' := by
  simp [bindShare, hb, get_set]

theorem observe_bindShare (s : State) (h : Handle) (b : BufId) (x : Buf)
    (hb : get s.bufs b = some x) (h' : Handle) :
    observe (bindShare s h b) h' = if h' = h then some x.data else observe s h' := by
  unfold observe
  rw [hmap_bindShare s h b x hb]
  by_cases hh : h' = h
  · simp [hh, bindShare, hb, get_set]
  · simp only [hh, if_false]
    cases hg : get s.hmap h' with
    | none => rfl
    | some b' =>
      simp only [bindShare, hb, get_set]
      by_cases hbb : b' = b
      · subst hbb; simp [hb]
      · simp [hbb]

theorem hmap_release (s : State) (h h' : Handle) :
    get (release s h).hmap h' = if h' = h then none else get s.hmap h' := by
  unfold release
  cases hg : get s.hmap h with
  | none =>
    by_cases hh : h' = h
    · simp [hh, hg]
    · simp [hh]
  | some b =>
    dsimp only
    cases hx : get s.bufs b with
    | none => simp [get_del]
    | some x =>
      by_cases hle : x.rc ≤ 1 <;> simp [hle, get_del]

/-- Releasing `h` leaves every other live handle's observation alone. -/
theorem observe_release {s : State} (hi : Inv s) (h h' : Handle) (hne : h' ≠ h) :
    observe (release s h) h' = observe s h' := by
  unfold observe
  rw [hmap_release]
  simp only [hne, if_false]
  cases hg' : get s.hmap h' with
  | none => rfl
  | some b' =>
    simp only
    unfold release
    cases hg : get s.hmap h with
    | none => rfl
    | some b =>
      obtain ⟨x, hx⟩ := hi.buf_live h b hg
      simp only [hx]
      by_cases hle : x.rc ≤ 1
      · simp only [hle, if_true, get_del]
        by_cases hbb : b' = b
        · subst hbb
          have := refs_ge_two s.hmap h h' b' hi.nodup hne hg hg'
          have := hi.rc_eq b' x hx
          omega
        · simp [hbb]
      · simp only [hle, if_false, get_set]
        by_cases hbb : b' = b
        · subst hbb; simp [hx]
        · simp [hbb]

theorem hmap_setData (s : State) (h : Handle) (f : List Int → List Int) :
    (setData s h f).hmap = s.hmap := by
  unfold setData
  cases get s.hmap h with
  | none => rfl
  | some b => dsimp only; cases get s.bufs b <;> rfl

/-- A write through `h` while its buffer has reference count 1 leaves every other handle's
observation alone. -/
theorem observe_setData_other {s : State} (hi : Inv s) (h h' : Handle)
    (f : List Int → List Int) (hne : h' ≠ h) (hrc : rcH s h = 1) :
    observe (setData s h f) h' = observe s h' := by
  unfold observe
  rw [hmap_setData]
  cases hg' : get s.hmap h' with
  | none => rfl
  | some b' =>
    simp only
    unfold setData
    cases hg : get s.hmap h with
    | none => rfl
    | some b =>
      dsimp only
      cases hx : get s.bufs b with
      | none => rfl
      | some x =>
        simp only [get_set]
        by_cases hbb : b' = b
        · subst hbb
          have h2 := refs_ge_two s.hmap h h' b' hi.nodup hne hg hg'
          have h3 := hi.rc_eq b' x hx
          simp only [rcH, hg, rcOf, hx] at hrc
          omega
        · simp [hbb]

theorem observe_setData_self (s : State) (h : Handle) (f : List Int → List Int) :
    observe (setData s h f) h = (observe s h).map f := by
  unfold observe
  rw [hmap_setData]
  cases hg : get s.hmap h with
  | none => rfl
  | some b =>
    simp only
    unfold setData
    simp only [hg]
    cases hx : get s.bufs b with
    | none => simp [hx]
    | some x => simp [get_set]

end MV.Cow
