import MV.Proof.EdgeOpFormLoopCore
/-!
`FormLoop` "produces two valid orbits": after `formLoopCore` the halfedges whose start is the new
vertex `A = nVert` form ONE cycle of `ForVert`'s step `e ↦ Next(Pair(e))` (`rotN`), likewise `B`.
-/
namespace MV.EdgeOp
open MV.Halfedge (HErr rd wr nextHalfedge)

theorem reaches_refl (p : Array Int) (n e : Nat) : reaches p n e e = true := by
  cases n <;> simp [reaches]

theorem reaches_step {p : Array Int} {n e e' : Nat} (h : reaches p n (rotN p e) e' = true) :
    reaches p (n + 1) e e' = true := by
  simp [reaches, h]

theorem reaches_succ {p : Array Int} : ∀ {n e e' : Nat}, reaches p n e e' = true →
    reaches p (n + 1) e e' = true := by
  intro n
  induction n with
  | zero => intro e e' h; simp [reaches] at h ⊢; exact Or.inl h
  | succ n ih =>
    intro e e' h
    rw [reaches, Bool.or_eq_true] at h
    rcases h with h | h
    · rw [reaches, Bool.or_eq_true]; exact Or.inl h
    · exact reaches_step (ih h)

theorem reaches_mono {p : Array Int} {n n' e e' : Nat} (hn : n ≤ n') (h : reaches p n e e' = true) :
    reaches p n' e e' = true := by
  induction hn with
  | refl => exact h
  | step _ ih => exact reaches_succ ih

theorem reaches_trans {p : Array Int} : ∀ {a b x y z : Nat}, reaches p a x y = true →
    reaches p b y z = true → reaches p (a + b) x z = true := by
  intro a
  induction a with
  | zero =>
    intro b x y z h1 h2
    simp [reaches] at h1; subst h1; simpa using h2
  | succ a ih =>
    intro b x y z h1 h2
    rw [reaches, Bool.or_eq_true] at h1
    rcases h1 with h1 | h1
    · simp at h1; subst h1
      exact reaches_mono (by omega) h2
    · have := ih h1 h2
      have e : a + 1 + b = (a + b) + 1 := by omega
      rw [e]; exact reaches_step this

theorem rotN_of {p : Array Int} {e x : Nat} (h : p[e]! = (x : Int)) : rotN p e = nx x := by
  unfold rotN; simp [h]

/-- a fan whose consecutive members are linked by `rotN`, the last one back to the first, is one
`rotN`-cycle -/
theorem fan_cycle (s : HE) (p' : Array Int) (c0 k : Nat) (hk0 : 0 < k)
    (hstep : ∀ i, i + 1 < k → p'[nx (s.walk c0 i)]! = ((s.walk c0 (i + 1) : Nat) : Int))
    (hlast : p'[nx (s.walk c0 (k - 1))]! = (c0 : Int)) :
    ∀ i j, i < k → j < k → reaches p' k (nx (s.walk c0 i)) (nx (s.walk c0 j)) = true := by
  have up : ∀ n i, i + n < k → reaches p' n (nx (s.walk c0 i)) (nx (s.walk c0 (i + n))) = true := by
    intro n
    induction n with
    | zero => intro i _; exact reaches_refl _ _ _
    | succ n ih =>
      intro i hi
      apply reaches_step
      rw [rotN_of (hstep i (by omega))]
      have := ih (i + 1) (by omega)
      have e : i + 1 + n = i + (n + 1) := by omega
      rwa [e] at this
  intro i j hi hj
  by_cases hij : i ≤ j
  · have := up (j - i) i (by omega)
    have e : i + (j - i) = j := by omega
    rw [e] at this
    exact reaches_mono (by omega) this
  · -- wrap around: i → k-1 → 0 → j
    have h1 := up (k - 1 - i) i (by omega)
    have e1 : i + (k - 1 - i) = k - 1 := by omega
    rw [e1] at h1
    have h2 : reaches p' 1 (nx (s.walk c0 (k - 1))) (nx (s.walk c0 0)) = true := by
      apply reaches_step
      rw [rotN_of hlast]; exact reaches_refl _ _ _
    have h3 := up j 0 (by omega)
    have e3 : 0 + j = j := by omega
    rw [e3] at h3
    exact reaches_mono (by omega) (reaches_trans (reaches_trans h1 h2) h3)

/-- T5 (orbits).  After `FormLoop(cur, en)` (before `RemoveIfFolded`) each of the two new vertices
carries exactly one `ForVert` orbit: any two halfedges starting at `A = nVert` (resp. `B = nVert+1`)
reach one another by `rotN`. -/
theorem formLoopCore_orbits (s : HE) (cur en k m : Nat) (h : PairInv s)
    (hc : cur < s.start.size) (he : en < s.start.size) (hne : cur ≠ en)
    (hlc : s.P cur ≠ -1) (hle : s.P en ≠ -1)
    (hS : s.S cur = s.S en) (hE : s.S (nx cur) = s.S (nx en))
    (hfresh : ∀ e, e < s.start.size → s.S e < (s.nVert : Int))
    (hk : s.walk (s.Pn cur) k = s.Pn en) (hkmin : ∀ i, i < k → s.walk (s.Pn cur) i ≠ s.Pn en)
    (hm : s.walk en m = cur) (hmmin : ∀ i, i < m → s.walk en i ≠ cur) :
    ∃ s', formLoopCore s (cur : Int) (en : Int) = .ok s' ∧ PairInv s' ∧
      (∀ e e', e < s'.start.size → e' < s'.start.size → s'.S e = (s.nVert : Int) →
        s'.S e' = (s.nVert : Int) → reaches s'.paired s'.start.size e e' = true) ∧
      (∀ e e', e < s'.start.size → e' < s'.start.size → s'.S e = (s.nVert : Int) + 1 →
        s'.S e' = (s.nVert : Int) + 1 → reaches s'.paired s'.start.size e e' = true) := by
  obtain ⟨s', e1, i1, _, z1, _, _, fA, fB, _, p1, p2, p3, p4, p0⟩ :=
    formLoopCore_preserves s cur en k m h hc he hne hlc hle hS hE hfresh hk hkmin hm hmmin
  obtain ⟨huv, hu, hv⟩ := relabel_uv h hc hlc
  obtain ⟨dO, dN, fO, fN, q1, q2, q3, q4, x1, x2, x3, x4, x5⟩ := relabel_four h hc he hne hlc hle hS hE
  obtain ⟨_, _, _, iC, lO, cC⟩ := live_inv h hc hlc
  obtain ⟨_, _, _, iE, lN, cE⟩ := live_inv h he hle
  have hk0 : 0 < k := by
    rcases k with _ | k
    · exact absurd hk x5
    · omega
  have hm0 : 0 < m := by
    rcases m with _ | m
    · exact absurd hm.symm hne
    · omega
  have hks := (walk_simple s _ k _ h dO lO hk hkmin).2
  have hms := (walk_simple s _ m _ h he hle hm hmmin).2
  -- the A-fan is a cycle
  have cycA := fan_cycle s s'.paired (s.Pn cur) k hk0
    (by
      intro i hi
      have hf : Fan s (s.Pn cur) k (nx (s.walk (s.Pn cur) i)) := ⟨i, by omega, rfl⟩
      obtain ⟨a, b, c⟩ := fan_live h dO lO hf
      have hP : s.P (nx (s.walk (s.Pn cur) i)) = ((s.walk (s.Pn cur) (i + 1) : Nat) : Int) := by
        rw [walk_succ]; exact (live_inv h a b).2.2.2.2.2
      have n1 : nx (s.walk (s.Pn cur) i) ≠ cur := by
        intro q; have := fan_not_pair h dO lO hk hkmin; rw [iC] at this; exact this ⟨i, by omega, q.symm⟩
      have n2 : nx (s.walk (s.Pn cur) i) ≠ s.Pn en := by
        intro q; rw [q, q3, q2] at c; exact huv c.symm
      have n3 : nx (s.walk (s.Pn cur) i) ≠ en := by
        intro q; rw [q, cE] at hP
        exact hkmin (i + 1) hi (Int.ofNat_inj.1 hP).symm
      have n4 : nx (s.walk (s.Pn cur) i) ≠ s.Pn cur := by
        intro q; rw [q, q1, q2] at c; exact huv c.symm
      exact (p0 _ n1 n2 n3 n4).trans hP)
    (by
      have hl := fan_last h dO lO hk hk0
      rw [iE] at hl
      obtain ⟨i, hi, q⟩ := hl
      have hl2 : nx (s.walk (s.Pn cur) (k - 1)) = en := by
        obtain ⟨k', rfl⟩ : ∃ k', k = k' + 1 := ⟨k - 1, by omega⟩
        obtain ⟨a, b, _⟩ := walk_live s _ h dO lO k'
        obtain ⟨p, q', _⟩ := step_live h a b
        have := (live_inv h p q').2.2.2.1
        rw [← walk_succ, hk, iE] at this
        simpa using this.symm
      rw [hl2]; exact p3)
  have cycB := fan_cycle s s'.paired en m hm0
    (by
      intro j hj
      have hf : Fan s en m (nx (s.walk en j)) := ⟨j, by omega, rfl⟩
      obtain ⟨a, b, c⟩ := fan_live h he hle hf
      have hP : s.P (nx (s.walk en j)) = ((s.walk en (j + 1) : Nat) : Int) := by
        rw [walk_succ]; exact (live_inv h a b).2.2.2.2.2
      have n1 : nx (s.walk en j) ≠ cur := by
        intro q; rw [q, ← hE] at c; exact huv c
      have n2 : nx (s.walk en j) ≠ s.Pn en := by
        intro q; have := fan_not_pair h he hle hm hmmin; rw [← q] at this; exact this hf
      have n3 : nx (s.walk en j) ≠ en := by
        intro q; rw [q, ← hS, ← hE] at c; exact huv c
      have n4 : nx (s.walk en j) ≠ s.Pn cur := by
        intro q; rw [q, fO] at hP
        exact hmmin (j + 1) hj (Int.ofNat_inj.1 hP).symm
      exact (p0 _ n1 n2 n3 n4).trans hP)
    (by
      have hl2 : nx (s.walk en (m - 1)) = s.Pn cur := by
        obtain ⟨m', rfl⟩ : ∃ m', m = m' + 1 := ⟨m - 1, by omega⟩
        obtain ⟨a, b, _⟩ := walk_live s _ h he hle m'
        obtain ⟨p, q', _⟩ := step_live h a b
        have := (live_inv h p q').2.2.2.1
        rw [← walk_succ, hm] at this
        simpa using this.symm
      rw [hl2]; exact p4)
  refine ⟨s', e1, i1, ?_, ?_⟩
  · intro e e' he1 he2 a a'
    rw [z1] at he1 he2
    obtain ⟨i, hi, rfl⟩ := (fA e he1).1 a
    obtain ⟨j, hj, rfl⟩ := (fA e' he2).1 a'
    rw [z1]
    exact reaches_mono (Nat.le_of_lt hks) (cycA i j hi hj)
  · intro e e' he1 he2 a a'
    rw [z1] at he1 he2
    obtain ⟨i, hi, rfl⟩ := (fB e he1).1 a
    obtain ⟨j, hj, rfl⟩ := (fB e' he2).1 a'
    rw [z1]
    exact reaches_mono (Nat.le_of_lt hms) (cycB i j hi hj)

/-- non-vacuity: every hypothesis of `formLoopCore_orbits` holds on the crossed double tetrahedron -/
example := formLoopCore_orbits twoTetraCross 0 12 3 3 (by decide +kernel) (by decide +kernel)
  (by decide +kernel) (by decide +kernel) (by decide +kernel) (by decide +kernel) (by decide +kernel)
  (by decide +kernel) (by decide +kernel) (by decide +kernel) (by decide +kernel) (by decide +kernel)
  (by decide +kernel)

end MV.EdgeOp
