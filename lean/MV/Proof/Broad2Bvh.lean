/-
Lemmas for the 2-D BVH of boolean2.cpp (MV/Model/Broad2.lean): `buildNode` fills every internal
cell with the union of its children's cells, the arrays of `bvh2Build` pass the decidable checks
`wfTree` / `unionBoxes` of the 3-D collider after embedding (`z = [0,0]`), hence the 3-D query
theorem `findCollision_of_wf` applies.
-/
import MV.Proof.Collider
import MV.Proof.Broad2Sweep

namespace MV.Broad2
open MV.Collider

/-! ## Box2 facts -/

theorem Box2.ofBox_embed (b : Box2) : Box2.ofBox b.embed = b := rfl

theorem Box2.embed_union (a b : Box2) : (a.union b).embed = a.embed.union b.embed := by
  simp [Box2.embed, Box2.union, Box.union]

theorem Box2.ofBox_union (a b : Box) : Box2.ofBox (a.union b) = (Box2.ofBox a).union (Box2.ofBox b) := rfl

theorem Box2.doesOverlap_comm (a b : Box2) : a.doesOverlap b = b.doesOverlap a := by
  simp only [Box2.doesOverlap]
  rw [Bool.eq_iff_iff]
  simp only [Bool.and_eq_true, decide_eq_true_eq]
  omega

theorem Box2.doesOverlap_union_left (q a b : Box2) (h : a.doesOverlap q = true) :
    (a.union b).doesOverlap q = true := by
  simp only [Box2.doesOverlap, Bool.and_eq_true, decide_eq_true_eq] at h
  simp only [Box2.doesOverlap, Box2.union, Bool.and_eq_true]
  refine ⟨⟨⟨?_, ?_⟩, ?_⟩, ?_⟩ <;> apply decide_eq_true <;> omega

theorem Box2.doesOverlap_union_right (q a b : Box2) (h : b.doesOverlap q = true) :
    (a.union b).doesOverlap q = true := by
  simp only [Box2.doesOverlap, Bool.and_eq_true, decide_eq_true_eq] at h
  simp only [Box2.doesOverlap, Box2.union, Bool.and_eq_true]
  refine ⟨⟨⟨?_, ?_⟩, ?_⟩, ?_⟩ <;> apply decide_eq_true <;> omega

/-! ## buildNode -/

/-- the union of the leaf cells below `t` -/
def val2 (cells : Array Box2) : T → Box2
  | .leaf i => cells.getD (2 * i) default
  | .node _ l r => (val2 cells l).union (val2 cells r)

/-- every cell of a node of `t` holds the union of the leaf cells (of `b0`) below it -/
def Filled (b b0 : Array Box2) : T → Prop
  | .leaf i => b[2 * i]? = some (b0.getD (2 * i) default)
  | .node k l r => b[2 * k + 1]? = some (val2 b0 (.node k l r)) ∧ Filled b b0 l ∧ Filled b b0 r

theorem val2_congr {b1 b2 : Array Box2} : ∀ (t : T),
    (∀ i ∈ t.leaves, b1.getD (2 * i) default = b2.getD (2 * i) default) → val2 b1 t = val2 b2 t := by
  intro t
  induction t with
  | leaf i => intro h; exact h i (by simp [T.leaves])
  | node k l r ihl ihr =>
    intro h
    simp only [val2]
    rw [ihl (fun i hi => h i (by simp [T.leaves, hi])), ihr (fun i hi => h i (by simp [T.leaves, hi]))]

theorem Filled.cell {b b0 : Array Box2} : ∀ {t : T}, Filled b b0 t →
    b[t.id.toNat]? = some (val2 b0 t)
  | .leaf i, h => by rw [id_leaf_toNat]; exact h
  | .node k l r, h => by rw [id_node_toNat]; exact h.1

theorem Filled.frame {b1 b2 b0 b0' : Array Box2} : ∀ (t : T), Filled b1 b0 t →
    (∀ i ∈ t.leaves, b2[2 * i]? = b1[2 * i]?) →
    (∀ k ∈ t.internals, b2[2 * k + 1]? = b1[2 * k + 1]?) →
    (∀ i ∈ t.leaves, b0'.getD (2 * i) default = b0.getD (2 * i) default) →
    Filled b2 b0' t := by
  intro t
  induction t with
  | leaf i =>
    intro h hl _ h0
    simp only [Filled] at *
    rw [hl i (by simp [T.leaves]), h, h0 i (by simp [T.leaves])]
  | node k l r ihl ihr =>
    intro h hl hk h0
    obtain ⟨h1, h2, h3⟩ := h
    refine ⟨?_, ?_, ?_⟩
    · rw [hk k (by simp [T.internals]), h1, val2_congr _ h0]
    · exact ihl h2 (fun i hi => hl i (by simp [T.leaves, hi]))
        (fun j hj => hk j (by simp [T.internals, hj])) (fun i hi => h0 i (by simp [T.leaves, hi]))
    · exact ihr h3 (fun i hi => hl i (by simp [T.leaves, hi]))
        (fun j hj => hk j (by simp [T.internals, hj])) (fun i hi => h0 i (by simp [T.leaves, hi]))

theorem getD_of_getElem?_eq {b1 b2 : Array Box2} {c : Nat} (h : b1[c]? = b2[c]?) :
    b1.getD c default = b2.getD c default := by
  rw [Array.getD_eq_getD_getElem?, Array.getD_eq_getD_getElem?, h]

/-- `buildNode` on a subtree contained in `internalChildren`: it succeeds, returns the union of
the leaf cells, writes exactly the cells of the internal nodes of the subtree. -/
theorem buildNode_spec {ch : Array (Int × Int)} : ∀ (t : T) (fuel : Nat) (boxes : Array Box2),
    Rep ch t → t.internals.Nodup → (∀ i ∈ t.leaves, 2 * i < boxes.size) →
    (∀ k ∈ t.internals, 2 * k + 1 < boxes.size) → t.height < fuel →
    ∃ boxes', buildNode ch fuel t.id boxes = some (val2 boxes t, boxes') ∧
      boxes'.size = boxes.size ∧
      (∀ c, (∀ k ∈ t.internals, c ≠ 2 * k + 1) → boxes'[c]? = boxes[c]?) ∧
      Filled boxes' boxes t := by
  intro t
  induction t with
  | leaf i =>
    intro fuel boxes _ _ hl _ hf
    cases fuel with
    | zero => omega
    | succ f =>
      have hi : 2 * i < boxes.size := hl i (by simp [T.leaves])
      refine ⟨boxes, ?_, rfl, fun _ _ => rfl, ?_⟩
      · unfold buildNode
        have h1 : ¬ (T.leaf i).id < 0 := by simp only [T.id]; omega
        have h2 : isLeaf (T.leaf i).id = true := by simp only [T.id, isLeaf]; simp
        rw [if_neg h1, if_pos h2, id_leaf_toNat, Array.getElem?_eq_getElem hi]
        simp only [val2, Array.getD_eq_getD_getElem?, Array.getElem?_eq_getElem hi, Option.getD_some]
      · simp only [Filled, Array.getD_eq_getD_getElem?, Array.getElem?_eq_getElem hi, Option.getD_some]
  | node k l r ihl ihr =>
    intro fuel boxes hrep hnd hl hk hf
    cases fuel with
    | zero => omega
    | succ f =>
      obtain ⟨hc, rl, rr⟩ := hrep
      simp only [T.internals, List.nodup_cons, List.nodup_append, List.mem_append] at hnd
      obtain ⟨hkn, nl, nr, nlr⟩ := hnd
      simp only [T.height] at hf
      have hm1 : l.height ≤ Nat.max l.height r.height := Nat.le_max_left _ _
      have hm2 : r.height ≤ Nat.max l.height r.height := Nat.le_max_right _ _
      obtain ⟨b1, e1, s1, f1, F1⟩ := ihl f boxes rl nl
        (fun i hi => hl i (by simp [T.leaves, hi])) (fun j hj => hk j (by simp [T.internals, hj]))
        (by omega)
      obtain ⟨b2, e2, s2, f2, F2⟩ := ihr f b1 rr nr
        (fun i hi => by rw [s1]; exact hl i (by simp [T.leaves, hi]))
        (fun j hj => by rw [s1]; exact hk j (by simp [T.internals, hj])) (by omega)
      have hkk : 2 * k + 1 < b2.size := by rw [s2, s1]; exact hk k (by simp [T.internals])
      -- leaf cells never change
      have even1 : ∀ i, b1[2 * i]? = boxes[2 * i]? := fun i => f1 _ (fun _ _ => by omega)
      have even2 : ∀ i, b2[2 * i]? = b1[2 * i]? := fun i => f2 _ (fun _ _ => by omega)
      have vr : val2 b1 r = val2 boxes r := val2_congr r (fun i _ => getD_of_getElem?_eq (even1 i))
      refine ⟨b2.setIfInBounds (2 * k + 1) ((val2 boxes l).union (val2 boxes r)), ?_, ?_, ?_, ?_⟩
      · unfold buildNode
        have h1 : ¬ (T.node k l r).id < 0 := by simp only [T.id]; omega
        have h2 : ¬ isLeaf (T.node k l r).id = true := by simp only [T.id, isLeaf]; simp
        have h3 : (node2Internal (T.node k l r).id).toNat = k := by
          simp only [T.id, node2Internal]; omega
        rw [if_neg h1, if_neg h2, h3, hc]
        simp only [e1, e2, vr, id_node_toNat, hkk, if_true, val2]
      · rw [Array.size_setIfInBounds, s2, s1]
      · intro c hcne
        have hck : c ≠ 2 * k + 1 := hcne k (by simp [T.internals])
        rw [Array.getElem?_setIfInBounds_ne (by omega),
          f2 c (fun j hj => hcne j (by simp [T.internals, hj])),
          f1 c (fun j hj => hcne j (by simp [T.internals, hj]))]
      · refine ⟨?_, ?_, ?_⟩
        · rw [Array.getElem?_setIfInBounds_self_of_lt hkk]; rfl
        · apply Filled.frame l F1
          · intro i _
            rw [Array.getElem?_setIfInBounds_ne (by omega), even2 i]
          · intro j hj
            have : j ≠ k := fun e => hkn (Or.inl (e ▸ hj))
            rw [Array.getElem?_setIfInBounds_ne (by omega)]
            exact f2 _ (fun j' hj' e => nlr j hj j' hj' (by omega))
          · intro _ _; rfl
        · apply Filled.frame r F2
          · intro i _
            rw [Array.getElem?_setIfInBounds_ne (by omega)]
          · intro j hj
            have : j ≠ k := fun e => hkn (Or.inr (e ▸ hj))
            rw [Array.getElem?_setIfInBounds_ne (by omega)]
          · intro i _; exact (getD_of_getElem?_eq (even1 i)).symm

/-- the cells of the children of every internal node of a filled subtree -/
theorem filled_children {ch : Array (Int × Int)} {b b0 : Array Box2} : ∀ (t : T), Rep ch t →
    Filled b b0 t → ∀ k ∈ t.internals, ∃ l r : T, ch[k]? = some (l.id, r.id) ∧
      b[2 * k + 1]? = some ((val2 b0 l).union (val2 b0 r)) ∧
      b[l.id.toNat]? = some (val2 b0 l) ∧ b[r.id.toNat]? = some (val2 b0 r) := by
  intro t
  induction t with
  | leaf i => intro _ _ k hk; simp [T.internals] at hk
  | node k0 l r ihl ihr =>
    intro hrep hf k hk
    obtain ⟨hc, rl, rr⟩ := hrep
    obtain ⟨h1, h2, h3⟩ := hf
    simp only [T.internals, List.mem_cons, List.mem_append] at hk
    rcases hk with e | hk | hk
    · subst e
      exact ⟨l, r, hc, h1, h2.cell, h3.cell⟩
    · exact ihl rl h2 k hk
    · exact ihr rr h3 k hk

/-! ## the decidable union-box check, introduction form -/

theorem unionBoxes_intro {ch : Array (Int × Int)} {boxes leafBB : Array Box} {n : Nat}
    (h1 : boxes.size = 2 * n - 1) (h2 : leafBB.size = n)
    (h3 : ∀ i, i < n → boxes[2 * i]? = leafBB[i]?)
    (h4 : ∀ k, k < n - 1 → ∃ c1 c2 b b1 b2, ch[k]? = some (c1, c2) ∧ 0 ≤ c1 ∧ 0 ≤ c2 ∧
      boxes[2 * k + 1]? = some b ∧ boxes[c1.toNat]? = some b1 ∧ boxes[c2.toNat]? = some b2 ∧
      b = b1.union b2) :
    unionBoxes ch boxes leafBB n = true := by
  simp only [unionBoxes, Bool.and_eq_true, beq_iff_eq, List.all_eq_true, List.mem_range]
  refine ⟨⟨⟨h1, h2⟩, h3⟩, ?_⟩
  intro k hk
  obtain ⟨c1, c2, b, b1, b2, e, p1, p2, e0, e1, e2, eu⟩ := h4 k hk
  simp only [e, e0, e1, e2, eu, decide_eq_true p1, decide_eq_true p2, Bool.and_self,
    beq_self_eq_true]

/-! ## sorting by a key -/

theorem keyNatLe_trans {α : Type} (key : α → Nat) (a b c : α) :
    (!decide (key b < key a)) = true → (!decide (key c < key b)) = true →
    (!decide (key c < key a)) = true := by
  simp only [Bool.not_eq_true', decide_eq_false_iff_not]; omega

theorem keyNatLe_total {α : Type} (key : α → Nat) (a b : α) :
    ((!decide (key b < key a)) || (!decide (key a < key b))) = true := by
  simp only [Bool.or_eq_true, Bool.not_eq_true', decide_eq_false_iff_not]; omega

/-! ## bvh2Build -/

/-- `leafToOrig` -/
def leafOrder (codes : Array Nat) (n : Nat) : List Nat :=
  stableSort (fun a b => decide (codes.getD a 0 < codes.getD b 0)) (List.range n)

def sortedMorton (codes : Array Nat) (n : Nat) : Array Nat :=
  ((leafOrder codes n).map fun i => codes.getD i 0).toArray

theorem leafOrder_perm (codes : Array Nat) (n : Nat) : (leafOrder codes n).Perm (List.range n) :=
  List.mergeSort_perm _ _

theorem leafOrder_length (codes : Array Nat) (n : Nat) : (leafOrder codes n).length = n := by
  rw [(leafOrder_perm codes n).length_eq, List.length_range]

theorem leafOrder_nodup (codes : Array Nat) (n : Nat) : (leafOrder codes n).Nodup :=
  (leafOrder_perm codes n).symm.nodup List.nodup_range

theorem leafOrder_mem (codes : Array Nat) (n i : Nat) : i ∈ leafOrder codes n ↔ i < n := by
  rw [(leafOrder_perm codes n).mem_iff, List.mem_range]

theorem leafOrder_sorted (codes : Array Nat) (n : Nat) :
    (leafOrder codes n).Pairwise (fun a b => codes.getD a 0 ≤ codes.getD b 0) := by
  have := List.pairwise_mergeSort (le := fun a b => !decide (codes.getD b 0 < codes.getD a 0))
    (keyNatLe_trans (fun i => codes.getD i 0)) (keyNatLe_total (fun i => codes.getD i 0))
    (List.range n)
  exact this.imp (fun {a b} h => by
    simp only [Bool.not_eq_true', decide_eq_false_iff_not] at h; omega)

theorem sortedMorton_size (codes : Array Nat) (n : Nat) : (sortedMorton codes n).size = n := by
  simp [sortedMorton, leafOrder_length]

theorem sortedMorton_getD (codes : Array Nat) (n i : Nat) (hi : i < n) :
    (sortedMorton codes n).getD i 0 =
      codes.getD ((leafOrder codes n)[i]'(by rw [leafOrder_length]; exact hi)) 0 := by
  have hl : i < (leafOrder codes n).length := by rw [leafOrder_length]; exact hi
  simp [sortedMorton, Array.getD_eq_getD_getElem?, hl]

theorem sortedMorton_sorted (codes : Array Nat) (n : Nat)
    (hc : ∀ i, i < n → codes.getD i 0 < 2 ^ 32) : Sorted (sortedMorton codes n) := by
  rw [Sorted, sortedMorton_size]
  constructor
  · intro i hi
    rw [sortedMorton_getD codes n i hi]
    exact hc _ ((leafOrder_mem codes n _).mp (List.getElem_mem _))
  · intro i j hij hj
    rw [sortedMorton_getD codes n i (by omega), sortedMorton_getD codes n j hj]
    by_cases e : i = j
    · subst e; exact Nat.le_refl _
    · exact (List.pairwise_iff_getElem.mp (leafOrder_sorted codes n)) i j _ _ (by omega)

theorem leafCells_size (boxes : Array Box2) (l : List Nat) :
    (leafCells boxes l).size = 2 * l.length - 1 := by
  simp [leafCells]

theorem leafCells_even (boxes : Array Box2) (l : List Nat) (i : Nat) (hi : i < l.length) :
    (leafCells boxes l)[2 * i]? = some (boxAt boxes l[i]) := by
  have h : 2 * i < 2 * l.length - 1 := by omega
  simp [leafCells, h, hi]

/-- the leaf boxes in leaf order -/
def leafBoxes (codes : Array Nat) (boxes : Array Box2) : Array Box2 :=
  ((leafOrder codes boxes.size).map fun i => boxAt boxes i).toArray

theorem leafBoxes_get (codes : Array Nat) (boxes : Array Box2) (i : Nat) (hi : i < boxes.size) :
    (leafBoxes codes boxes)[i]? =
      some (boxAt boxes ((leafOrder codes boxes.size)[i]'(by rw [leafOrder_length]; exact hi))) := by
  have hl : i < (leafOrder codes boxes.size).length := by rw [leafOrder_length]; exact hi
  simp [leafBoxes, hl]

theorem bvh2Build_unfold (codes : Array Nat) (boxes : Array Box2) :
    bvh2Build codes boxes =
      if boxes.size = 0 then some ⟨#[], #[], #[]⟩
      else if boxes.size > 1 then
        match buildNode (createRadixTree (sortedMorton codes boxes.size)).1 (2 * boxes.size) kRoot
            (leafCells boxes (leafOrder codes boxes.size)) with
        | none => none
        | some (_, nb) => some ⟨nb, (createRadixTree (sortedMorton codes boxes.size)).1,
            (leafOrder codes boxes.size).toArray⟩
      else some ⟨leafCells boxes (leafOrder codes boxes.size),
        (createRadixTree (sortedMorton codes boxes.size)).1, (leafOrder codes boxes.size).toArray⟩ :=
  rfl

/-- **BVHBuildFromBoxes is a well-formed collider** (two or more boxes): the model's guards
never fire, `leafToOrig` is the code-sorted permutation, and the arrays pass the two decidable
checks of the 3-D collider after embedding. -/
theorem bvh2Build_wf (codes : Array Nat) (boxes : Array Box2)
    (hc : ∀ i, i < boxes.size → codes.getD i 0 < 2 ^ 32) (hn : boxes.size < 2 ^ 32)
    (h2 : 2 ≤ boxes.size) :
    ∃ nb, bvh2Build codes boxes = some ⟨nb, (createRadixTree (sortedMorton codes boxes.size)).1,
        (leafOrder codes boxes.size).toArray⟩ ∧
      wfTree (createRadixTree (sortedMorton codes boxes.size)).1
        (createRadixTree (sortedMorton codes boxes.size)).2 boxes.size = true ∧
      unionBoxes (createRadixTree (sortedMorton codes boxes.size)).1 (nb.map Box2.embed)
        ((leafBoxes codes boxes).map Box2.embed) boxes.size = true := by
  have hs := sortedMorton_sorted codes boxes.size hc
  have hsz := sortedMorton_size codes boxes.size
  have hwf := createRadixTree_wf hs (by rw [hsz]; exact hn) (by rw [hsz]; exact h2)
  rw [hsz] at hwf
  obtain ⟨_, hcs, _, t, ht, hcov, _, _⟩ := wfTree_unpack hwf
  obtain ⟨hrep, hid, _⟩ := toTree_spec _ _ _ ht
  have hleaves : ∀ i, i ∈ t.leaves ↔ i < boxes.size := by
    intro i; rw [mem_leaves_of_cover hcov]; omega
  have hints : ∀ k, k ∈ t.internals ↔ k < boxes.size - 1 := mem_internals_root hcov hid
  have hlen : (leafOrder codes boxes.size).length = boxes.size := leafOrder_length _ _
  have hcsz : (leafCells boxes (leafOrder codes boxes.size)).size = 2 * boxes.size - 1 := by
    rw [leafCells_size, hlen]
  have hheight : t.height < 2 * boxes.size := by
    have h1 := height_le_internals t
    have h2' := leaves_length t
    have h3 : t.leaves.length = boxes.size := by
      rw [cover_leaves _ _ _ hcov]; simp; omega
    omega
  obtain ⟨nb, e, snb, fr, fl⟩ := buildNode_spec t (2 * boxes.size)
    (leafCells boxes (leafOrder codes boxes.size)) hrep (cover_internals _ _ _ hcov).1
    (fun i hi => by rw [hcsz]; have := (hleaves i).mp hi; omega)
    (fun k hk => by rw [hcsz]; have := (hints k).mp hk; omega) hheight
  rw [hid] at e
  refine ⟨nb, ?_, hwf, ?_⟩
  · rw [bvh2Build_unfold, if_neg (by omega), if_pos (by omega), e]
  · apply unionBoxes_intro
    · rw [Array.size_map, snb, hcsz]
    · simp [leafBoxes, hlen]
    · intro i hi
      rw [Array.getElem?_map, Array.getElem?_map, fr (2 * i) (fun _ _ => by omega),
        leafCells_even boxes _ i (by rw [hlen]; exact hi), leafBoxes_get codes boxes i hi]
    · intro k hk
      obtain ⟨l, r, hc', c0, c1, c2⟩ := filled_children t hrep fl k ((hints k).mpr hk)
      generalize hcl : leafCells boxes (leafOrder codes boxes.size) = cells at c0 c1 c2
      refine ⟨l.id, r.id, ((val2 cells l).embed).union ((val2 cells r).embed), (val2 cells l).embed,
        (val2 cells r).embed, hc', id_nonneg l, id_nonneg r, ?_, ?_, ?_, rfl⟩
      · rw [Array.getElem?_map, c0, Option.map_some, Box2.embed_union]
      · rw [Array.getElem?_map, c1, Option.map_some]
      · rw [Array.getElem?_map, c2, Option.map_some]

/-! ## leafToOrig as a bijection of `0 … n-1` -/

/-- `leafToOrig[leaf]` -/
def lget (codes : Array Nat) (n leaf : Nat) : Nat := (leafOrder codes n).getD leaf 0

theorem lget_eq (codes : Array Nat) (n leaf : Nat) (h : leaf < n) :
    lget codes n leaf = (leafOrder codes n)[leaf]'(by rw [leafOrder_length]; exact h) := by
  have hl : leaf < (leafOrder codes n).length := by rw [leafOrder_length]; exact h
  simp [lget, List.getD_eq_getElem?_getD, hl]

theorem lget_lt (codes : Array Nat) (n leaf : Nat) (h : leaf < n) : lget codes n leaf < n := by
  rw [lget_eq codes n leaf h]
  exact (leafOrder_mem codes n _).mp (List.getElem_mem _)

theorem lget_surj (codes : Array Nat) (n b : Nat) (h : b < n) :
    ∃ leaf, leaf < n ∧ lget codes n leaf = b := by
  obtain ⟨i, hi, e⟩ := List.mem_iff_getElem.mp ((leafOrder_mem codes n b).mpr h)
  have hi' : i < n := by rw [leafOrder_length] at hi; exact hi
  exact ⟨i, hi', by rw [lget_eq codes n i hi', e]⟩

theorem lget_inj (codes : Array Nat) (n i j : Nat) (hi : i < n) (hj : j < n) (hij : i ≠ j) :
    lget codes n i ≠ lget codes n j := by
  rw [lget_eq codes n i hi, lget_eq codes n j hj]
  have hp := List.pairwise_iff_getElem.mp (leafOrder_nodup codes n)
  rcases Nat.lt_or_gt_of_ne hij with h | h
  · exact hp i j _ _ h
  · exact fun e => hp j i _ _ h e.symm

theorem leafToOrig_getD (codes : Array Nat) (n leaf : Nat) :
    (leafOrder codes n).toArray.getD leaf 0 = lget codes n leaf := by
  simp [lget, Array.getD_eq_getD_getElem?, List.getD_eq_getElem?_getD]

/-! ## one query -/

/-- **one `collideOne`** against the BVH built from two or more boxes: the traversal stays
within its fuel and its 64-entry stack and records leaf `l` iff the box of `leafToOrig[l]`
overlaps the query, each leaf once. -/
theorem bvh2Query_spec (codes : Array Nat) (boxes : Array Box2)
    (hc : ∀ i, i < boxes.size → codes.getD i 0 < 2 ^ 32) (hn : boxes.size < 2 ^ 32)
    (h2 : 2 ≤ boxes.size) {bvh : BVH} (hb : bvh2Build codes boxes = some bvh) (q : Box2) :
    ∃ out, bvh2Query bvh q = some out ∧ out.toList.Nodup ∧
      ∀ leaf, leaf ∈ out.toList ↔
        (leaf < boxes.size ∧ (boxAt boxes (lget codes boxes.size leaf)).doesOverlap q = true) := by
  obtain ⟨nb, e, hwf, hub⟩ := bvh2Build_wf codes boxes hc hn h2
  rw [e] at hb
  simp only [Option.some.injEq] at hb
  subst hb
  obtain ⟨out, h1, h2', h3⟩ := findCollision_of_wf hwf hub
    (fun b => (Box2.ofBox b).doesOverlap q)
    (fun a b h => by
      show (Box2.ofBox (a.union b)).doesOverlap q = true
      rw [Box2.ofBox_union]; exact Box2.doesOverlap_union_left q _ _ h)
    (fun a b h => by
      show (Box2.ofBox (a.union b)).doesOverlap q = true
      rw [Box2.ofBox_union]; exact Box2.doesOverlap_union_right q _ _ h)
    false 0
  refine ⟨out, h1, h2', ?_⟩
  intro leaf
  rw [h3 leaf]
  constructor
  · rintro ⟨hl, ⟨b, hb, ho⟩, _⟩
    refine ⟨hl, ?_⟩
    rw [Array.getElem?_map, leafBoxes_get codes boxes leaf hl, Option.map_some,
      Option.some.injEq] at hb
    subst hb
    rw [lget_eq codes boxes.size leaf hl]
    exact ho
  · rintro ⟨hl, ho⟩
    refine ⟨hl, ⟨(boxAt boxes (lget codes boxes.size leaf)).embed, ?_, ho⟩, fun h => by cases h⟩
    rw [Array.getElem?_map, leafBoxes_get codes boxes leaf hl, Option.map_some,
      lget_eq codes boxes.size leaf hl]

/-! ## all queries, the filter and the final sort -/

theorem collectAll_spec (f : Nat → Option (List (Nat × Nat))) : ∀ (l : List Nat),
    (∀ q ∈ l, ∃ r, f q = some r) →
    collectAll f l = some (l.flatMap fun q => (f q).getD []) := by
  intro l
  induction l with
  | nil => intro _; rfl
  | cons q qs ih =>
    intro h
    obtain ⟨r, hr⟩ := h q List.mem_cons_self
    have := ih (fun q' hq' => h q' (List.mem_cons_of_mem _ hq'))
    simp only [collectAll, hr, this, List.flatMap_cons, Option.getD_some]

theorem pairLe_iff (a b : Nat × Nat) :
    pairLe a b = true ↔ (a.1 < b.1 ∨ (a.1 = b.1 ∧ a.2 ≤ b.2)) := by
  simp [pairLe]

theorem pairLe_trans (a b c : Nat × Nat) : pairLe a b = true → pairLe b c = true →
    pairLe a c = true := by
  rw [pairLe_iff, pairLe_iff, pairLe_iff]; omega

theorem pairLe_total (a b : Nat × Nat) : (pairLe a b || pairLe b a) = true := by
  rw [Bool.or_eq_true, pairLe_iff, pairLe_iff]; omega

theorem radixSortPairs_perm (l : List (Nat × Nat)) : (radixSortPairs l).Perm l :=
  List.mergeSort_perm _ _

theorem radixSortPairs_strict {l : List (Nat × Nat)} (hn : l.Nodup) :
    (radixSortPairs l).Pairwise pairLt := by
  have h1 : (radixSortPairs l).Pairwise (fun a b => pairLe a b = true) :=
    List.pairwise_mergeSort pairLe_trans pairLe_total l
  have h2 : (radixSortPairs l).Nodup := (radixSortPairs_perm l).symm.nodup hn
  refine (h1.and h2).imp ?_
  intro a b ⟨h, hne⟩
  rw [pairLe_iff] at h
  unfold pairLt
  have : ¬ (a.1 = b.1 ∧ a.2 = b.2) := fun ⟨e1, e2⟩ => hne (Prod.ext e1 e2)
  omega

/-- `bvh.Empty()`: nothing is ever reported -/
theorem bvh2Pairs_empty (bvh : BVH) (edgeBoxes : Array Box2) (skip : Nat → Nat → Bool)
    (h : bvh.internalChildren.size = 0) : bvh2Pairs bvh edgeBoxes skip = some [] := by
  have hf : ∀ q, (bvh2Query bvh (boxAt edgeBoxes q)).map
      (fun out => bvh2Keep bvh skip q out.toList) = some [] := by
    intro q
    simp [bvh2Query, findCollision, h, bvh2Keep]
  unfold bvh2Pairs bvh2Raw
  rw [collectAll_spec _ _ (fun q _ => ⟨[], hf q⟩)]
  have : ((List.range edgeBoxes.size).flatMap fun q => ((bvh2Query bvh (boxAt edgeBoxes q)).map
      (fun out => bvh2Keep bvh skip q out.toList)).getD []) = [] := by
    rw [List.flatMap_eq_nil_iff]
    intro q _
    rw [hf q]; rfl
  rw [this]
  simp [radixSortPairs]

/-- what one query contributes after the recorder's filter -/
theorem mem_bvh2Keep (codes : Array Nat) (n : Nat) (nb : Array Box2) (ch : Array (Int × Int))
    (skip : Nat → Nat → Bool) (qi : Nat) (leaves : List Nat) (a b : Nat) :
    (a, b) ∈ bvh2Keep ⟨nb, ch, (leafOrder codes n).toArray⟩ skip qi leaves ↔
      (a = qi ∧ ∃ leaf ∈ leaves, b = lget codes n leaf ∧ qi < b ∧ skip qi b = false) := by
  unfold bvh2Keep
  rw [List.mem_filterMap]
  simp only [leafToOrig_getD]
  constructor
  · rintro ⟨leaf, hl, h⟩
    split at h
    · cases h
    · split at h
      · cases h
      · rename_i h1 h2
        simp only [Option.some.injEq, Prod.mk.injEq] at h
        obtain ⟨e1, e2⟩ := h
        subst e1; subst e2
        exact ⟨rfl, leaf, hl, rfl, by omega, by simpa using h2⟩
  · rintro ⟨e, leaf, hl, eb, hlt, hs⟩
    subst e; subst eb
    refine ⟨leaf, hl, ?_⟩
    rw [if_neg (by omega), if_neg (by simp [hs])]

theorem nodup_bvh2Keep (codes : Array Nat) (n : Nat) (nb : Array Box2) (ch : Array (Int × Int))
    (skip : Nat → Nat → Bool) (qi : Nat) (leaves : List Nat) (hn : leaves.Nodup)
    (hlt : ∀ l ∈ leaves, l < n) :
    (bvh2Keep ⟨nb, ch, (leafOrder codes n).toArray⟩ skip qi leaves).Nodup := by
  unfold bvh2Keep List.Nodup
  rw [List.pairwise_filterMap]
  refine List.Pairwise.imp_of_mem ?_ hn
  intro l l' hl hl' hne p hp p' hp' e
  subst e
  simp only [leafToOrig_getD] at hp hp'
  split at hp
  · cases hp
  · split at hp
    · cases hp
    · split at hp'
      · cases hp'
      · split at hp'
        · cases hp'
        · simp only [Option.some.injEq] at hp hp'
          rw [← hp] at hp'
          simp only [Prod.mk.injEq, true_and] at hp'
          exact lget_inj codes n l l' (hlt l hl) (hlt l' hl') hne hp'.symm

/-- **The BVH branch of `CollectIntersectionPairs`**, two or more boxes. -/
theorem bvh2Pairs_spec_ge2 (codes : Array Nat) (boxes : Array Box2) (skip : Nat → Nat → Bool)
    (hc : ∀ i, i < boxes.size → codes.getD i 0 < 2 ^ 32) (hn : boxes.size < 2 ^ 32)
    (h2 : 2 ≤ boxes.size) :
    ∃ bvh ps, bvh2Build codes boxes = some bvh ∧ bvh2Pairs bvh boxes skip = some ps ∧
      ps.Pairwise pairLt ∧
      ∀ i j, (i, j) ∈ ps ↔
        (i < j ∧ j < boxes.size ∧ (boxAt boxes i).doesOverlap (boxAt boxes j) = true ∧
          skip i j = false) := by
  obtain ⟨nb, e, _, _⟩ := bvh2Build_wf codes boxes hc hn h2
  let bvh : BVH := ⟨nb, (createRadixTree (sortedMorton codes boxes.size)).1,
    (leafOrder codes boxes.size).toArray⟩
  let f : Nat → Option (List (Nat × Nat)) := fun qi =>
    (bvh2Query bvh (boxAt boxes qi)).map fun out => bvh2Keep bvh skip qi out.toList
  -- every query succeeds
  have hq : ∀ qi, ∃ out, bvh2Query bvh (boxAt boxes qi) = some out ∧ out.toList.Nodup ∧
      ∀ leaf, leaf ∈ out.toList ↔ (leaf < boxes.size ∧
        (boxAt boxes (lget codes boxes.size leaf)).doesOverlap (boxAt boxes qi) = true) :=
    fun qi => bvh2Query_spec codes boxes hc hn h2 e (boxAt boxes qi)
  have hf : ∀ qi, ∃ out : Array Nat, f qi = some (bvh2Keep bvh skip qi out.toList) ∧ out.toList.Nodup ∧
      ∀ leaf, leaf ∈ out.toList ↔ (leaf < boxes.size ∧
        (boxAt boxes (lget codes boxes.size leaf)).doesOverlap (boxAt boxes qi) = true) := by
    intro qi
    obtain ⟨out, h1, h2', h3⟩ := hq qi
    exact ⟨out, by simp only [f, h1, Option.map_some], h2', h3⟩
  have hraw : bvh2Raw bvh boxes skip =
      some ((List.range boxes.size).flatMap fun q => (f q).getD []) :=
    collectAll_spec f _ (fun q _ => by obtain ⟨out, h, _⟩ := hf q; exact ⟨_, h⟩)
  -- membership in one group
  have hgrp : ∀ qi a b, (a, b) ∈ (f qi).getD [] ↔
      (a = qi ∧ qi < b ∧ b < boxes.size ∧
        (boxAt boxes b).doesOverlap (boxAt boxes qi) = true ∧ skip qi b = false) := by
    intro qi a b
    obtain ⟨out, h1, _, h3⟩ := hf qi
    rw [h1, Option.getD_some, mem_bvh2Keep]
    constructor
    · rintro ⟨ea, leaf, hl, eb, hlt, hs⟩
      obtain ⟨hl1, hl2⟩ := (h3 leaf).mp hl
      subst eb
      exact ⟨ea, hlt, lget_lt codes _ leaf hl1, hl2, hs⟩
    · rintro ⟨ea, hlt, hb, ho, hs⟩
      obtain ⟨leaf, hl, el⟩ := lget_surj codes boxes.size b hb
      subst el
      exact ⟨ea, leaf, (h3 leaf).mpr ⟨hl, ho⟩, rfl, hlt, hs⟩
  -- the raw list has no duplicates
  have hnd : ((List.range boxes.size).flatMap fun q => (f q).getD []).Nodup := by
    unfold List.Nodup
    rw [List.pairwise_flatMap]
    constructor
    · intro qi _
      obtain ⟨out, h1, h2', h3⟩ := hf qi
      rw [h1, Option.getD_some]
      exact nodup_bvh2Keep codes _ nb _ skip qi _ h2' (fun l hl => ((h3 l).mp hl).1)
    · refine List.nodup_range.imp ?_
      intro q1 q2 hne x hx y hy e
      subst e
      have h1 := ((hgrp q1 x.1 x.2).mp hx).1
      have h2' := ((hgrp q2 x.1 x.2).mp hy).1
      exact hne (h1.symm.trans h2')
  refine ⟨bvh, _, e, by simp only [bvh2Pairs, hraw, Option.map_some], radixSortPairs_strict hnd, ?_⟩
  intro i j
  rw [(radixSortPairs_perm _).mem_iff, List.mem_flatMap]
  constructor
  · rintro ⟨qi, _, h⟩
    obtain ⟨ea, hlt, hb, ho, hs⟩ := (hgrp qi i j).mp h
    subst ea
    exact ⟨hlt, hb, by rw [Box2.doesOverlap_comm]; exact ho, hs⟩
  · rintro ⟨hij, hj, ho, hs⟩
    exact ⟨i, List.mem_range.mpr (by omega),
      (hgrp i i j).mpr ⟨rfl, hij, hj, by rw [Box2.doesOverlap_comm]; exact ho, hs⟩⟩

end MV.Broad2
