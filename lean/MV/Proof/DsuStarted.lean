/-
Intermediate states: the classes of the links made so far lie between the closure of the
COMPLETED `unite` pairs and the closure of the STARTED ones (completed or in progress).
-/
import MV.Proof.DsuI3

namespace MV.Dsu

/-- pairs of the `unite`s thread `t` has completed -/
def Thr.donePairs (t : Thr) : List (Nat × Nat) := unitePairs (t.prog.take t.opIdx)
/-- pairs of the `unite`s thread `t` has completed or is executing -/
def Thr.startedPairs (t : Thr) : List (Nat × Nat) := unitePairs (t.prog.take (t.opIdx + 1))

def donePairs (s : State) : List (Nat × Nat) := (s.thr.map Thr.donePairs).flatten
def startedPairs (s : State) : List (Nat × Nat) := (s.thr.map Thr.startedPairs).flatten

theorem startOp_opIdx (t : Thr) : t.startOp.opIdx = t.opIdx := by
  unfold Thr.startOp; split <;> rfl

theorem finishOp_opIdx (t : Thr) (r : Nat) : (t.finishOp r).opIdx = t.opIdx + 1 := by
  unfold Thr.finishOp; rw [startOp_opIdx]

theorem findRet_opIdx (t : Thr) (r : Nat) : t.opIdx ≤ (t.findRet r).opIdx := by
  unfold Thr.findRet; split <;> (try split) <;> simp [finishOp_opIdx]

theorem next_opIdx (t : Thr) (w : Word) (ok : Bool) : t.opIdx ≤ (t.next w ok).opIdx := by
  unfold Thr.next
  split <;> (try dsimp only) <;> (try split) <;> (try split) <;>
    simp [Thr.uniteRetry, finishOp_opIdx, findRet_opIdx]

theorem mem_unitePairs_take {p : List Op} {k k' : Nat} (h : k ≤ k') {x : Nat × Nat}
    (hx : x ∈ unitePairs (p.take k)) : x ∈ unitePairs (p.take k') := by
  unfold unitePairs at *
  obtain ⟨op, hop, hs⟩ := List.mem_filterMap.1 hx
  refine List.mem_filterMap.2 ⟨op, ?_, hs⟩
  obtain ⟨i, hi, rfl⟩ := List.getElem_of_mem hop
  simp only [List.length_take] at hi
  rw [List.getElem_take]
  have : i < (p.take k').length := by simp only [List.length_take]; omega
  have h2 := List.getElem_mem this
  rwa [List.getElem_take] at h2

theorem step_startedPairs_mono (s : State) (tid : Nat) (sp : Bool) {x : Nat × Nat}
    (hx : x ∈ startedPairs s) : x ∈ startedPairs (step s tid sp).1 := by
  cases hget : s.thr[tid]? with
  | none => rw [step_idle (.inl hget)]; exact hx
  | some t =>
    cases hfin : t.finished with
    | true => rw [step_idle (.inr ⟨t, hget, hfin⟩)]; exact hx
    | false =>
      obtain ⟨w, ok, hthr, _, _, _⟩ := step_desc (sp := sp) hget hfin
      unfold startedPairs at hx ⊢
      obtain ⟨l, hl, hxl⟩ := List.mem_flatten.1 hx
      obtain ⟨t0, ht0, rfl⟩ := List.mem_map.1 hl
      obtain ⟨i, hi, hget0⟩ := List.getElem_of_mem ht0
      rw [hthr]
      by_cases e : tid = i
      · subst e
        have : t0 = t := by
          have := List.getElem?_eq_getElem hi; rw [hget0, hget] at this; exact (Option.some.inj this).symm
        subst this
        refine List.mem_flatten.2 ⟨(t0.next w ok).startedPairs,
          List.mem_map.2 ⟨_, List.mem_of_getElem? (List.getElem?_set_self hi), rfl⟩, ?_⟩
        unfold Thr.startedPairs at hxl ⊢
        rw [next_prog]
        exact mem_unitePairs_take (by have := next_opIdx t0 w ok; omega) hxl
      · refine List.mem_flatten.2 ⟨t0.startedPairs, List.mem_map.2 ⟨t0, ?_, rfl⟩, hxl⟩
        apply List.mem_of_getElem? (i := i)
        rw [List.getElem?_set_ne e, List.getElem?_eq_getElem hi, hget0]

def LinksStarted (s : State) : Prop := ∀ a b, (a, b) ∈ s.links → Conn (startedPairs s) a b

theorem curOp_mem_started {s : State} {tid : Nat} {t : Thr} (hget : s.thr[tid]? = some t)
    {a b : Nat} (hc : t.curOp = some (.unite a b)) : (a, b) ∈ startedPairs s := by
  unfold startedPairs
  refine List.mem_flatten.2 ⟨t.startedPairs, List.mem_map.2 ⟨t, List.mem_of_getElem? hget, rfl⟩, ?_⟩
  unfold Thr.startedPairs unitePairs
  refine List.mem_filterMap.2 ⟨.unite a b, ?_, rfl⟩
  unfold Thr.curOp at hc
  have hlt := (List.getElem?_eq_some_iff.1 hc).1
  have : t.opIdx < (t.prog.take (t.opIdx + 1)).length := by simp only [List.length_take]; omega
  have h2 := List.getElem_mem this
  rw [List.getElem_take] at h2
  rw [List.getElem?_eq_getElem hlt] at hc
  rwa [Option.some.inj hc] at h2

theorem step_linksStarted {n : Nat} {s : State} (hI : Inv n s) (hL : LinksStarted s) (tid : Nat)
    (sp : Bool) : LinksStarted (step s tid sp).1 := by
  have hmono : ∀ a b, Conn (startedPairs s) a b → Conn (startedPairs (step s tid sp).1) a b :=
    fun a b c => c.mono (fun p hp => step_startedPairs_mono s tid sp hp)
  have hold : ∀ a b, (a, b) ∈ s.links → Conn (startedPairs (step s tid sp).1) a b :=
    fun a b h => hmono a b (hL a b h)
  cases hget : s.thr[tid]? with
  | none => intro a b h; rw [step_idle (.inl hget)] at h ⊢; exact hL a b h
  | some t =>
    cases hfin : t.finished with
    | true => intro a b h; rw [step_idle (.inr ⟨t, hget, hfin⟩)] at h ⊢; exact hL a b h
    | false =>
      obtain ⟨op, hc⟩ : ∃ op, t.curOp = some op := by
        unfold Thr.finished at hfin
        cases h : t.curOp with
        | none => rw [h] at hfin; cases hfin
        | some op => exact ⟨op, rfl⟩
      obtain ⟨w, ok, _, _, _, hcases⟩ := step_desc (sp := sp) hget hfin
      intro a b hab
      rcases hcases with ⟨_, _, hk, _⟩ | ⟨_, _, _, _, hk⟩ | ⟨_, hpc, _, _, hk⟩ | ⟨_, _, _, _, hk⟩
      · rw [hk] at hab; exact hold a b hab
      · rw [hk] at hab; exact hold a b hab
      · rw [hk] at hab
        rcases List.mem_cons.1 hab with e | h
        · cases e
          obtain ⟨x, y, rfl, _, _, ua, _⟩ := ((hI.thr tid t hget).cur op hc).getUnite
            (by rw [hpc]; exact fun h => h) (by rw [hpc]; exact fun h => by cases h)
          have hxy : Conn (startedPairs s) x y := .base (curOp_mem_started hget hc)
          apply hmono
          rcases ua with ⟨c1, c2⟩ | ⟨c1, c2⟩
          · exact (c1.of_sub hL).trans (hxy.trans (c2.of_sub hL).symm)
          · exact (c1.of_sub hL).trans (hxy.symm.trans (c2.of_sub hL).symm)
        · exact hold a b h
      · rw [hk] at hab; exact hold a b hab

theorem exec_linksStarted {n : Nat} {s : State} (hI : Inv n s) (hL : LinksStarted s)
    (sched : List (Nat × Bool)) : LinksStarted (exec s sched) := by
  induction sched generalizing s with
  | nil => exact hL
  | cons e rest ih => exact ih (step_inv hI e.1 e.2) (step_linksStarted hI hL e.1 e.2)

/-- every completed `unite a b` has `a`, `b` in one class of the links -/
theorem done_sub_links {n : Nat} {s : State} (hI : Inv n s) {a b : Nat}
    (h : (a, b) ∈ donePairs s) : Conn s.links a b := by
  unfold donePairs at h
  obtain ⟨l, hl, hab⟩ := List.mem_flatten.1 h
  obtain ⟨t, ht, rfl⟩ := List.mem_map.1 hl
  unfold Thr.donePairs unitePairs at hab
  obtain ⟨op, hop, hsome⟩ := List.mem_filterMap.1 hab
  have hopEq : op = .unite a b := by
    cases op <;> simp at hsome
    obtain ⟨rfl, rfl⟩ := hsome; rfl
  subst hopEq
  obtain ⟨tid, htid, hget⟩ := List.getElem_of_mem ht
  have hget' : s.thr[tid]? = some t := by rw [List.getElem?_eq_getElem htid, hget]
  have hT := hI.thr tid t hget'
  obtain ⟨j, hj, hjop⟩ := List.getElem_of_mem hop
  simp only [List.length_take] at hj
  rw [List.getElem_take] at hjop
  have hjr : j < t.results.length := by rw [hT.base.resLen]; omega
  have := hT.base.resOk j (.unite a b) t.results[j]
    (by rw [List.getElem?_eq_getElem (by omega), hjop]) (List.getElem?_eq_getElem hjr)
  exact this.1

end MV.Dsu
