/-
Model of `BatchBoolean` (l.489-556) and `BatchUnion` (l.562-629) of /repo/src/csg_tree.cpp,
and of `MeshCompare` (l.32-42).  Core Lean only (the driver links this file).

C++ object                                   model
-------------------------------------------  ------------------------------------------------
shared_ptr<CsgLeafNode>                      `BLeaf α` = an identity `id : Nat` (inputs carry
                                             the ids the caller gives them, every leaf CREATED
                                             by Compose / SimpleBoolean / make_shared gets the
                                             next fresh id, in creation order) and a value
                                             `val : α` (whatever one wants to track: the solid,
                                             the bounding box, the list of original operands)
CsgLeafNode::Compose, SimpleBoolean,         `Ops α` : arbitrary functions on values
  std::make_shared<CsgLeafNode>()
boxes[i].DoesOverlap(boxes[j])               `Orc.ov  : BLeaf α → BLeaf α → Bool`  (oracle: ANY
                                             function of identity and value; the driver uses
                                             the closed-box test of common.h l.436-439)
a.first->NumVert()                           `Orc.size : BLeaf α → Nat`             (oracle)
kMaxUnionSize = 1000                         parameter `K`
the `i < 4` of the pop loop                  parameter `grp`
std::make_heap / pop_heap / push_heap        the heap is a list; `popMax` extracts the greatest
  with `MeshCompare`                         entry under `MeshCompare` (std heaps are max-heaps
                                             w.r.t. the comparator).  Keys `(NumVert, serial)`
                                             are pairwise distinct, so the popped entry does
                                             not depend on the arrangement of the list
                                             (`MV/Proof/CsgBatchHeap.lean`: `popMax_perm`)
IsCancelled(ctx)                             not modelled (ctx = nullptr; cancellation is C15)
ctx->doneBooleans / donePhases               not modelled (progress accounting is C15)
MANIFOLD_PAR task group                      same pops, same serial numbers, same push order
                                             as the serial path (l.532-547); only the serial
                                             path is transliterated

Everything else is transliterated line by line.  Every function also returns a trace (what
the MANIFOLD_VERIF hooks `onBatchUnionRound` / `onBatchBoolean*` report), which the
correspondence run compares with the real execution.
-/
namespace MV.CsgBatch

/-- a `CsgLeafNode`: identity and value -/
structure BLeaf (α : Type) where
  id : Nat
  val : α
deriving Repr, Inhabited

/-- the mesh-producing operations, as arbitrary functions on values -/
structure Ops (α : Type) where
  /-- `CsgLeafNode::Compose(tmp)` (l.221) -/
  compose : List α → α
  /-- `SimpleBoolean(*a->GetImpl(), *b->GetImpl(), operation, ctx)` (l.219) -/
  bool : α → α → α
  /-- `std::make_shared<CsgLeafNode>()`: the empty mesh -/
  empty : α

/-- the geometry-dependent decisions, as arbitrary functions of a leaf -/
structure Orc (α : Type) where
  /-- `ov x y` = `box(x).DoesOverlap(box(y))` -/
  ov : BLeaf α → BLeaf α → Bool
  /-- `NumVert()` -/
  size : BLeaf α → Nat

variable {α : Type}

/-! ## MeshCompare and the heap -/

/-- `heapNodes` entry: `std::pair<std::shared_ptr<CsgLeafNode>, uint64_t>` -/
abbrev Entry (α : Type) := BLeaf α × Nat

/-- lexicographic `<` on `(NumVert, serial)` -/
def keyLt (a b : Nat × Nat) : Bool :=
  if a.1 != b.1 then a.1 < b.1 else a.2 < b.2

def Orc.key (orc : Orc α) (e : Entry α) : Nat × Nat := (orc.size e.1, e.2)

/-- `MeshCompare::operator()` (l.33-41):
`if (aVert != bVert) return aVert < bVert; return a.second < b.second;` -/
def meshCompare (orc : Orc α) (a b : Entry α) : Bool := keyLt (orc.key a) (orc.key b)

/-- `std::pop_heap(…, cmp); x = std::move(back()); pop_back();` on a heap kept as a list:
returns the entry that no other entry exceeds under `cmp`, and the remaining entries. -/
def popMax (lt : Entry α → Entry α → Bool) : List (Entry α) → Option (Entry α × List (Entry α))
  | [] => none
  | e :: es =>
    match popMax lt es with
    | none => some (e, [])
    | some (m, rest) => if lt m e then some (e, m :: rest) else some (m, e :: rest)

/-! ## BatchBoolean -/

/-- what the hooks of `BatchBoolean` report (ids and serial numbers) -/
inductive BEv where
  /-- `onBatchBoolean(op, results)` -/
  | start (operands : List Nat)
  /-- `onBatchBooleanPop(a, serialA, b, serialB)` -/
  | pop (a sa b sb : Nat)
  /-- `onBatchBooleanPush(result, serial)` -/
  | push (r s : Nat)
deriving Repr, DecidableEq, Inhabited

/-- state of the `while` loop of `BatchBoolean` -/
structure HeapSt (α : Type) where
  heap : List (Entry α)
  tmp : List (Entry α) := []
  /-- next fresh leaf id -/
  next : Nat
  nextSerial : Nat
  evs : List BEv := []

/-- the `for (size_t i = 0; i < 4 && heapNodes.size() > 1; i++)` loop (l.525-541, serial path):
pop `a`, pop `b`, `tmp.emplace_back(SimpleBoolean(a, b), nextSerial++)`.  `k` = iterations
left. -/
def popPairs (ops : Ops α) (orc : Orc α) : Nat → HeapSt α → HeapSt α
  | 0, σ => σ
  | k + 1, σ =>
    if 1 < σ.heap.length then
      match popMax (meshCompare orc) σ.heap with
      | none => σ
      | some (a, h1) =>
        match popMax (meshCompare orc) h1 with
        | none => σ
        | some (b, h2) =>
          let r : BLeaf α := ⟨σ.next, ops.bool a.1.val b.1.val⟩
          popPairs ops orc k
            { heap := h2, tmp := σ.tmp ++ [(r, σ.nextSerial)], next := σ.next + 1,
              nextSerial := σ.nextSerial + 1,
              evs := σ.evs ++ [.pop a.1.id a.2 b.1.id b.2] }
    else σ

/-- `for (auto& result : tmp) { heapNodes.push_back(result); push_heap(…); } tmp.clear();`
(l.549-553) -/
def pushTmp (σ : HeapSt α) : HeapSt α :=
  { σ with heap := σ.heap ++ σ.tmp, tmp := [],
           evs := σ.evs ++ σ.tmp.map (fun e => .push e.1.id e.2) }

/-- `while (heapNodes.size() > 1) { … }` (l.523-554) with fuel -/
def heapLoop (ops : Ops α) (orc : Orc α) (grp : Nat) : Nat → HeapSt α → HeapSt α
  | 0, σ => σ
  | f + 1, σ =>
    if 1 < σ.heap.length then heapLoop ops orc grp f (pushTmp (popPairs ops orc grp σ))
    else σ

/-- `heapNodes.emplace_back(std::move(results[i]), i)` (l.503-505) -/
def withSerials : List (BLeaf α) → Nat → List (Entry α)
  | [], _ => []
  | x :: xs, i => (x, i) :: withSerials xs (i + 1)

structure BBRes (α : Type) where
  /-- the returned leaf; `none` iff the fuel ran out (never: `batchBoolean_terminates`) -/
  ret : Option (BLeaf α)
  next : Nat
  evs : List BEv

/-- `BatchBoolean(operation, results, ctx)` (l.489-556).  `ops.bool` is
`SimpleBoolean(·, ·, operation)`; `next` is the next fresh leaf id. -/
def batchBoolean (ops : Ops α) (orc : Orc α) (grp : Nat) (results : List (BLeaf α))
    (next : Nat) : BBRes α :=
  let ev0 : List BEv := [.start (results.map (·.id))]
  match results with
  -- `if (results.size() == 0) return std::make_shared<CsgLeafNode>();`
  | [] => { ret := some ⟨next, ops.empty⟩, next := next + 1, evs := ev0 }
  -- `if (results.size() == 1) return results.front();`
  | [a] => { ret := some a, next := next, evs := ev0 }
  -- `if (results.size() == 2) return SimpleBoolean(*results[0]->GetImpl(), *results[1]->GetImpl(), …)`
  | [a, b] => { ret := some ⟨next, ops.bool a.val b.val⟩, next := next + 1, evs := ev0 }
  | _ =>
    let σ := heapLoop ops orc grp results.length
      { heap := withSerials results 0, next := next, nextSerial := results.length, evs := ev0 }
    -- `return heapNodes.front().first;`
    match σ.heap with
    | [e] => { ret := some e.1, next := σ.next, evs := σ.evs }
    | _ => { ret := none, next := σ.next, evs := σ.evs }

/-! ## BatchUnion -/

/-- `boxes[i].DoesOverlap(boxes[j])` (l.589); `boxes[k]` is the box of `children[start + k]` -/
def ovAt (orc : Orc α) (boxes : Array (BLeaf α)) (i j : Nat) : Bool :=
  match boxes[i]?, boxes[j]? with
  | some a, some b => orc.ov a b
  | _, _ => false

/-- the `lambda` of l.587-591: no member of `set` overlaps box `i` -/
def fits (orc : Orc α) (boxes : Array (BLeaf α)) (i : Nat) (set : List Nat) : Bool :=
  !(set.any fun j => ovAt orc boxes i j)

/-- l.592-598: `it = find_if(disjointSets, lambda); if (it == end) push_back({i}) else
it->push_back(i)` -/
def insertSet (p : List Nat → Bool) (i : Nat) : List (List Nat) → List (List Nat)
  | [] => [[i]]
  | s :: ss => if p s then (s ++ [i]) :: ss else s :: insertSet p i ss

/-- the partition loop `for (size_t i = 0; i < boxes.size(); i++)` (l.586-599) -/
def partition (orc : Orc α) (boxes : Array (BLeaf α)) : List (List Nat) :=
  (List.range boxes.size).foldl (fun sets i => insertSet (fits orc boxes i) i sets) []

structure ComposeSt (α : Type) where
  impls : List (BLeaf α) := []
  next : Nat
  /-- an index `start + j` was outside `children` (never: `batchUnion_no_ub`) -/
  ub : Bool := false

/-- one iteration of `for (auto& set : disjointSets)` (l.602-620) -/
def composeSet (ops : Ops α) (children : List (BLeaf α)) (start : Nat) (σ : ComposeSt α)
    (set : List Nat) : ComposeSt α :=
  match set with
  | [j] =>
    -- `impls.push_back(children[start + set[0]]);`
    match children[start + j]? with
    | some c => { σ with impls := σ.impls ++ [c] }
    | none => { σ with ub := true }
  | _ =>
    -- `for (size_t j : set) tmp.push_back(children[start + j]); impls.push_back(Compose(tmp));`
    let tmp := set.filterMap fun j => children[start + j]?
    { impls := σ.impls ++ [⟨σ.next, ops.compose (tmp.map (·.val))⟩], next := σ.next + 1,
      ub := σ.ub || tmp.length != set.length }

/-- `std::swap(children.front(), children.back())` (l.626) -/
def swapFrontBack {β : Type} (l : List β) : List β :=
  match l with
  | [] => []
  | a :: t =>
    match t.getLast? with
    | none => [a]
    | some z => z :: t.dropLast ++ [a]

/-- what `onBatchUnionRound` reports, plus the `BatchBoolean` events of the round -/
structure Round where
  children : List Nat
  start : Nat
  sets : List (List Nat)
  impls : List Nat
  bev : List BEv
deriving Repr, DecidableEq, Inhabited

structure USt (α : Type) where
  children : List (BLeaf α)
  next : Nat
  rounds : List Round := []
  ub : Bool := false

/-- the body of `while (children.size() > 1)` (l.576-626) -/
def unionRound (ops : Ops α) (orc : Orc α) (K grp : Nat) (σ : USt α) : USt α :=
  let children := σ.children
  -- `start = children.size() > kMaxUnionSize ? children.size() - kMaxUnionSize : 0`
  let start := if K < children.length then children.length - K else 0
  -- `for (i = start; i < children.size(); i++) boxes.push_back(children[i]->GetBoundingBox())`
  let boxes := (children.drop start).toArray
  let sets := partition orc boxes
  let cs := sets.foldl (composeSet ops children start) { next := σ.next }
  -- `children.erase(children.begin() + start, children.end());`
  let children1 := children.take start
  -- `children.push_back(BatchBoolean(OpType::Add, impls, ctx));`
  let bb := batchBoolean ops orc grp cs.impls cs.next
  let children2 := match bb.ret with
    | some r => children1 ++ [r]
    | none => children1
  { children := swapFrontBack children2, next := bb.next,
    rounds := σ.rounds ++ [{ children := children.map (·.id), start := start, sets := sets,
                             impls := cs.impls.map (·.id), bev := bb.evs }],
    ub := σ.ub || cs.ub || bb.ret.isNone }

/-- `while (children.size() > 1)` with fuel -/
def unionLoop (ops : Ops α) (orc : Orc α) (K grp : Nat) : Nat → USt α → USt α
  | 0, σ => σ
  | f + 1, σ =>
    if 1 < σ.children.length then unionLoop ops orc K grp f (unionRound ops orc K grp σ)
    else σ

structure URes (α : Type) where
  /-- `children.front()`; `none` iff `children` was empty (the DEBUG_ASSERT of l.572) or the
  fuel ran out (never for `K ≥ 2`: `batchUnion_terminates`) -/
  ret : Option (BLeaf α)
  /-- the vector left to the caller (BatchUnion reduces `children` IN PLACE) -/
  children : List (BLeaf α)
  next : Nat
  rounds : List Round
  ub : Bool

/-- `BatchUnion(children, ctx)` (l.562-629); fuel `children.size()` -/
def batchUnion (ops : Ops α) (orc : Orc α) (K grp : Nat) (children : List (BLeaf α))
    (next : Nat) : URes α :=
  let σ := unionLoop ops orc K grp children.length { children := children, next := next }
  { ret := match σ.children with
           | [c] => some c
           | _ => none,
    children := σ.children, next := σ.next, rounds := σ.rounds, ub := σ.ub }

/-! ## the driver's instance: values are bounding boxes -/

/-- `Box` with integer coordinates -/
structure IBox where
  x0 : Int
  y0 : Int
  z0 : Int
  x1 : Int
  y1 : Int
  z1 : Int
deriving Repr, DecidableEq, Inhabited

/-- `Box::DoesOverlap(const Box&)` (include/manifold/common.h l.436-439) -/
def IBox.doesOverlap (a b : IBox) : Bool :=
  a.x0 ≤ b.x1 && a.y0 ≤ b.y1 && a.z0 ≤ b.z1 && a.x1 ≥ b.x0 && a.y1 ≥ b.y0 && a.z1 ≥ b.z0

/-- `Box::Union(const Box&)` -/
def IBox.join (a b : IBox) : IBox :=
  ⟨min a.x0 b.x0, min a.y0 b.y0, min a.z0 b.z0, max a.x1 b.x1, max a.y1 b.y1, max a.z1 b.z1⟩

/-- the box of a union / of a Compose of non-empty parts is the join of the parts' boxes;
`none` = the empty mesh (its box never overlaps) -/
def oJoin : Option IBox → Option IBox → Option IBox
  | none, b => b
  | a, none => a
  | some a, some b => some (a.join b)

def boxOps : Ops (Option IBox) where
  compose l := l.foldl oJoin none
  bool := oJoin
  empty := none

def boxOv (a b : BLeaf (Option IBox)) : Bool :=
  match a.val, b.val with
  | some x, some y => x.doesOverlap y
  | _, _ => false

end MV.CsgBatch
