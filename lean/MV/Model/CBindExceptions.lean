/-
C20 — REVIEWED exception tables for the generated C-binding tables (hand-written; keep short).

Every entry is a place where the C API deliberately uses a different *name* from the C++ API for the
same thing.  The theorems of MV/Props/C20.lean quantify over these tables: an entry that is not
listed here makes `args_in_order` / `enum_roundtrip` / `header_matches` / `callee_named` fail.
Reviewed against bindings/c/*.cpp and include/manifold/*.h at the pinned commit; re-review when the
translator reports a new mismatch rather than adding entries mechanically.
-/
import MV.Model.CBind

namespace MV.CBind

def exceptions : Exceptions where
  -- (C parameter / field, C++ parameter / field) that name the same quantity
  argNames := [
    (c!"n_props", c!"numProp"),          -- MeshGL::numProp: number of properties per vertex
    (c!"run_indices", c!"runIndex"),     -- MeshGL::runIndex (plural "indices")
    (c!"slices", c!"nDivisions"),        -- Manifold::Extrude: number of extra copies of the cross-section
    (c!"degrees", c!"angle"),            -- Quality::SetMinCircularAngle(angle in degrees)
    (c!"obj_file", c!"stream")]          -- ReadOBJ: the C API passes the file contents, wrapped in an istringstream
  -- (C enumerator, C++ enumerator)
  enumNames := [
    (c!"MANIFOLD_VERTEX_INDEX_OUT_OF_BOUNDS", c!"VertexOutOfBounds")]
  -- (wrapper, name in manifoldc.h, name in the definition): declaration and definition disagree on a name only
  -- none needed: the declarations that spell a name differently (manifold_smooth n_idxs/n_edges, five one-parameter
  -- destruct_/delete_ functions) are accepted by the rule "no other parameter has this type"
  headerNames := []
  -- (wrapper, C++ callee) where the C name is not derived from the C++ name
  -- (this is the C API's naming of C++ operators, constructors and public fields; it is not an argument exception)
  calleeAliases := [
    (c!"manifold_union", c!"operator+"), (c!"manifold_difference", c!"operator-"), (c!"manifold_intersection", c!"operator^"),
    (c!"manifold_cross_section_union", c!"operator+"), (c!"manifold_cross_section_difference", c!"operator-"),
    (c!"manifold_cross_section_intersection", c!"operator^"),
    (c!"manifold_manifold_vec_set", c!"operator="), (c!"manifold_cross_section_vec_set", c!"operator="),
    (c!"manifold_empty", c!"Manifold"), (c!"manifold_of_meshgl", c!"Manifold"), (c!"manifold_of_meshgl64", c!"Manifold"),
    (c!"manifold_compose", c!"BatchBoolean"),
    (c!"manifold_meshgl", c!"MeshGLP"), (c!"manifold_meshgl_w_tangents", c!"MeshGLP"), (c!"manifold_meshgl_w_options", c!"MeshGLP"),
    (c!"manifold_meshgl64", c!"MeshGLP"), (c!"manifold_meshgl64_w_tangents", c!"MeshGLP"), (c!"manifold_meshgl64_w_options", c!"MeshGLP"),
    (c!"manifold_meshgl_tri_length", c!"triVerts"), (c!"manifold_meshgl64_tri_length", c!"triVerts"),
    (c!"manifold_meshgl_merge_length", c!"mergeFromVert"), (c!"manifold_meshgl64_merge_length", c!"mergeFromVert"),
    (c!"manifold_meshgl_tangent_length", c!"halfedgeTangent"), (c!"manifold_meshgl64_tangent_length", c!"halfedgeTangent"),
    (c!"manifold_ray_hit_vec_get", c!"faceID"),
    (c!"manifold_execution_context_of_meshgl", c!"FromMeshGL"), (c!"manifold_execution_context_of_meshgl64", c!"FromMeshGL"),
    (c!"manifold_reset_to_circular_defaults", c!"ResetToDefaults"),
    (c!"manifold_box_dimensions", c!"Size"), (c!"manifold_rect_dimensions", c!"Size"),
    (c!"manifold_box_include_pt", c!"Union"), (c!"manifold_rect_include_pt", c!"Union"),
    (c!"manifold_box_translate", c!"operator+"), (c!"manifold_rect_translate", c!"operator+"),
    (c!"manifold_box_mul", c!"operator*"), (c!"manifold_rect_mul", c!"operator*")]

end MV.CBind
