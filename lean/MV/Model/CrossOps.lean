/-
Hull, Simplify, Decompose and the per-vertex offset joins of CrossSection
(/repo/src/cross_section.cpp, /repo/src/boolean2_offset.cpp, /repo/src/utils.h).  Core Lean only.

Every definition is written ONCE over the class `Scalar` (the operations the C++ performs on
`double`, with Bool-valued comparisons).  The compiled driver runs them at `Float` (the C double
operations of this machine, in the code's own operation order, so the answers are compared with the
C++ as IEEE bit patterns); the theorems of MV/Props/C12.lean are about the SAME definitions at the
instance of a linearly ordered field (exact arithmetic, MV/Proof/CrossOpsField.lean).

Transliteration table
  la::dot / la::cross / la::min / la::max / maxelem      include/manifold/linalg.h:437-450,1260,1588,1618   `dot`, `cross`, `lmin`, `lmax`
  CCW(p0,p1,p2,tol)                                      src/utils.h:143-152                 `ccw`
  HullBacktrack                                          src/cross_section.cpp:83-90         `hullBacktrack`
  HullImpl                                               src/cross_section.cpp:92-122        `lexLess`, `lexLe`, `chain`, `hullImpl`
  SimplifyRing                                           src/cross_section.cpp:130-188       `deviation2`, `worse`, `minIdx`, `simplifyLoop`, `simplifyRing`
  SignedArea                                             src/boolean2_predicates.cpp:30-40   `signedArea`
  Summarize / BoxScale / RingInfo                        src/boolean2_offset.cpp:327-344     `summarize`
  BoxInside / PointOnSegment / PointInRing / RingInside  src/boolean2_offset.cpp:294-358     `boxInside`, `pointOnSegment`, `pointInRing`, `ringInside`
  DecomposeByContainment                                 src/boolean2_offset.cpp:364-432     `keepRing`, `parentOf`, `walkUp`, `decomposeIdx`, `decompose`
  UnitFromScaled / OutwardNormal                         src/boolean2_offset.cpp:38-55       `unitFromScaled`, `outwardNormal`
  RotateDegrees (given cos, sin)                         src/boolean2_offset.cpp:57-61       `rotateCS`
  AppendRoundJoin (given the sampled cos/sin)            src/boolean2_offset.cpp:68-79       `roundJoin`
  AppendSquareJoin                                       src/boolean2_offset.cpp:87-107      `squareCap`, `squareJoin`
  MiterPoint                                             src/boolean2_offset.cpp:112-126     `miterPoint`
  ValidMiterLimit                                        src/boolean2_offset.cpp:128-130     `validMiterLimit`
  OffsetContour                                          src/boolean2_offset.cpp:142-240     `offsetVertex`, `offsetContour`
  EpsilonFromScale (Float only)                          src/boolean2_predicates.cpp:50-55   `epsFromScaleF`

NOT modelled: the fdlibm-derived `math::sin/cos/acos` behind `sind/cosd/acos` (the sampled rotation
of a round join is an argument of `roundJoin`), the final `ApplyFillRule` of `Offset` (property C11),
`FilterSmallContours` of `Simplify`.
-/
namespace MV.CrossOps

/-- what the code needs from `double`.  `lt`/`le`/`beq` are C++ `<`, `<=`, `==`;
`isFinite` is `std::isfinite`; `abs` is `std::fabs`. -/
class Scalar (α : Type) where
  zero : α
  one : α
  add : α → α → α
  sub : α → α → α
  mul : α → α → α
  div : α → α → α
  neg : α → α
  abs : α → α
  lt : α → α → Bool
  le : α → α → Bool
  beq : α → α → Bool
  isFinite : α → Bool

/-- … plus `std::sqrt` (only `UnitFromScaled`, `AppendSquareJoin` and `OffsetContour` use it) -/
class ScalarSqrt (α : Type) extends Scalar α where
  sqrt : α → α

instance : ScalarSqrt Float where
  zero := 0.0
  one := 1.0
  add a b := a + b
  sub a b := a - b
  mul a b := a * b
  div a b := a / b
  neg a := -a
  abs a := a.abs
  lt a b := decide (a < b)
  le a b := decide (a ≤ b)
  beq a b := a == b
  isFinite a := a.isFinite
  sqrt a := a.sqrt

structure V2 (α : Type) where
  x : α
  y : α
deriving Repr, Inhabited

section Generic
variable {α : Type} [Scalar α]
open Scalar

local infixl:65 " +. " => Scalar.add
local infixl:65 " -. " => Scalar.sub
local infixl:70 " *. " => Scalar.mul
local infixl:70 " /. " => Scalar.div

def two : α := (one : α) +. one
def four : α := (two : α) +. two
def half : α := (one : α) /. two

def V2.add (a b : V2 α) : V2 α := ⟨a.x +. b.x, a.y +. b.y⟩
def V2.sub (a b : V2 α) : V2 α := ⟨a.x -. b.x, a.y -. b.y⟩
/-- `s * v` -/
def V2.smul (s : α) (v : V2 α) : V2 α := ⟨s *. v.x, s *. v.y⟩
/-- `v / s` -/
def V2.divs (v : V2 α) (s : α) : V2 α := ⟨v.x /. s, v.y /. s⟩
def V2.zero : V2 α := ⟨Scalar.zero, Scalar.zero⟩
/-- `v == vec2(0, 0)` -/
def V2.isZero (v : V2 α) : Bool := beq v.x Scalar.zero && beq v.y Scalar.zero
def V2.isFinite (v : V2 α) : Bool := Scalar.isFinite v.x && Scalar.isFinite v.y

/-- `la::dot` = `sum(a * b)` = `fold(+, 0, a * b)`: `(0 + a.x*b.x) + a.y*b.y` -/
def dot (a b : V2 α) : α := (Scalar.zero +. a.x *. b.x) +. a.y *. b.y
/-- `la::cross(vec2, vec2)` -/
def cross (a b : V2 α) : α := a.x *. b.y -. a.y *. b.x
/-- `la::max` / `std::max`: `a < b ? b : a` -/
def lmax (a b : α) : α := if lt a b then b else a
/-- `la::min`: `a < b ? a : b` -/
def lmin (a b : α) : α := if lt a b then a else b
/-- `std::min`: `b < a ? b : a` -/
def smin (a b : α) : α := if lt b a then b else a

/-- `int CCW(vec2 p0, vec2 p1, vec2 p2, double tol)` (utils.h:143-152) -/
def ccw (p0 p1 p2 : V2 α) (tol : α) : Int :=
  let v1 := p1.sub p0
  let v2 := p2.sub p0
  let area := v1.x *. v2.y -. v1.y *. v2.x
  let base2 := lmax (dot v1 v1) (dot v2 v2)
  if le (area *. area *. four) (base2 *. tol *. tol) then 0
  else if lt Scalar.zero area then 1 else -1

/-! ## Hull (cross_section.cpp:83-122) -/

/-- the comparator of the `stable_sort` in `HullImpl`: `a.x == b.x ? a.y < b.y : a.x < b.x` -/
def lexLess (a b : V2 α) : Bool := if beq a.x b.x then lt a.y b.y else lt a.x b.x
/-- `!comp(b, a)`: the `le` handed to the stable merge sort -/
def lexLe (a b : V2 α) : Bool := !lexLess b a

/-- `HullBacktrack(point, stack)`: the stack is `top :: below` (top first);
`while (size >= 2 && CCW(stack[size-2], stack[size-1], point, 0.0) <= 0.0) pop_back` -/
def hullBacktrack (p : V2 α) : V2 α → List (V2 α) → List (V2 α)
  | b, [] => [b]
  | b, a :: rest => if ccw a b p Scalar.zero ≤ 0 then hullBacktrack p a rest else b :: a :: rest

/-- `HullBacktrack(point, st); st.push_back(point);` -/
def hullPush (st : List (V2 α)) (p : V2 α) : List (V2 α) :=
  match st with
  | [] => [p]
  | b :: below => p :: hullBacktrack p b below

/-- one of the two loops of `HullImpl`: the final stack, top first -/
def chain (pts : List (V2 α)) : List (V2 α) := pts.foldl hullPush []

/-- `SimplePolygon HullImpl(SimplePolygon& points)`.  `stable_sort` is `List.mergeSort` (stable; the
result of a stable sort is unique).  `upper.pop_back(); lower.pop_back();` drop the two tops. -/
def hullImpl (points : List (V2 α)) : List (V2 α) :=
  if points.length < 3 then []
  else if points.any (fun p => !p.isFinite) then []
  else
    let sorted := points.mergeSort lexLe
    let lower := chain sorted
    let upper := chain sorted.reverse
    lower.tail.reverse ++ upper.tail.reverse

/-- `CrossSection::Hull(const SimplePolygon&)`: `if (hull.size() < 3) return CrossSection();` -/
def hullPublic (points : List (V2 α)) : List (V2 α) :=
  let h := hullImpl points
  if h.length < 3 then [] else h

/-! ## SimplifyRing (cross_section.cpp:130-188) -/

/-- `struct Entry { double d2; int stamp; int idx; }` -/
structure Entry (α : Type) where
  d2 : α
  stamp : Nat
  idx : Nat

/-- the comparator of the priority queue: `a.d2 > b.d2 || (a.d2 == b.d2 && a.idx > b.idx)` -/
def worse (a b : Entry α) : Bool := lt b.d2 a.d2 || (beq a.d2 b.d2 && decide (a.idx > b.idx))

/-- `v[i] = x` on the vectors `prev/next/stamp/alive`, kept as total functions of the index -/
def upd {β : Type} (f : Nat → β) (i : Nat) (x : β) : Nat → β := fun j => if j = i then x else f j

/-- the mutable state of `SimplifyRing` -/
structure SState (α : Type) where
  prev : Nat → Nat
  next : Nat → Nat
  stamp : Nat → Nat
  alive : Nat → Bool
  numAlive : Nat
  /-- the contents of the `std::priority_queue` (order irrelevant: `top()` is `minIdx`) -/
  heap : List (Entry α)

/-- the lambda `deviation2(i)` (l.142-149), `ring` as a total function -/
def deviation2 (ring : Nat → V2 α) (prev next : Nat → Nat) (i : Nat) : α :=
  let P := ring (prev i)
  let N := ring (next i)
  let pn := N.sub P
  let pnLen2 := dot pn pn
  let cr := cross ((ring i).sub P) pn
  if lt Scalar.zero pnLen2 then cr *. cr /. pnLen2 else Scalar.zero

/-- position of `heap.top()`: an entry no other entry is better than (`worse top e` is false for
every `e` when `worse` is a strict weak order); the first such position on ties of the key. -/
def minIdxFrom : Entry α → Nat → Nat → List (Entry α) → Nat
  | _, bi, _, [] => bi
  | b, bi, k, e :: es => if worse b e then minIdxFrom e k (k + 1) es else minIdxFrom b bi (k + 1) es

def minIdx (h : List (Entry α)) : Nat :=
  match h with
  | [] => 0
  | e :: es => minIdxFrom e 0 1 es

theorem minIdxFrom_lt (b : Entry α) (bi k : Nat) (es : List (Entry α)) (h : bi < k) :
    minIdxFrom b bi k es < k + es.length := by
  induction es generalizing b bi k with
  | nil => simpa [minIdxFrom] using h
  | cons e es ih =>
    simp only [minIdxFrom, List.length_cons]
    split
    · have := ih e k (k + 1) (Nat.lt_succ_self k); omega
    · have := ih b bi (k + 1) (Nat.lt_succ_of_lt h); omega

theorem minIdx_lt (h : List (Entry α)) (hne : h ≠ []) : minIdx h < h.length := by
  cases h with
  | nil => exact absurd rfl hne
  | cons e es =>
    have := minIdxFrom_lt e 0 1 es (Nat.zero_lt_one)
    simp only [minIdx, List.length_cons]; omega

/-- the body of one removal (l.170-179) -/
def removeVertex (ring : Nat → V2 α) (st : SState α) (rest : List (Entry α)) (i : Nat) : SState α :=
  let p := st.prev i
  let nx := st.next i
  let next' := upd st.next p nx
  let prev' := upd st.prev nx p
  -- for (const int j : {p, nx}) { ++stamp[j]; heap.push({deviation2(j), stamp[j], j}); }
  let stamp1 := upd st.stamp p (st.stamp p + 1)
  let heap1 := ⟨deviation2 ring prev' next' p, stamp1 p, p⟩ :: rest
  let stamp2 := upd stamp1 nx (stamp1 nx + 1)
  let heap2 := ⟨deviation2 ring prev' next' nx, stamp2 nx, nx⟩ :: heap1
  { prev := prev', next := next', stamp := stamp2, alive := upd st.alive i false,
    numAlive := st.numAlive - 1, heap := heap2 }

/-- `while (numAlive > 3 && !heap.empty()) { … }` (l.163-180).  Terminates because every iteration
pops one entry and a removal pushes two while `numAlive` drops by one. -/
def simplifyLoop (ring : Nat → V2 α) (tol2 : α) (st : SState α) : SState α :=
  if h : st.numAlive > 3 ∧ st.heap ≠ [] then
    let k := minIdx st.heap
    let top := st.heap.getD k ⟨Scalar.zero, 0, 0⟩
    let rest := st.heap.eraseIdx k
    if !st.alive top.idx || top.stamp != st.stamp top.idx then
      simplifyLoop ring tol2 { st with heap := rest }                    -- continue
    else if le tol2 top.d2 then { st with heap := rest }                 -- break
    else simplifyLoop ring tol2 (removeVertex ring st rest top.idx)
  else st
termination_by st.heap.length + 2 * st.numAlive
decreasing_by
  all_goals simp_wf
  · have hk := minIdx_lt st.heap h.2
    rw [List.length_eraseIdx]; split <;> omega
  · have hk := minIdx_lt st.heap h.2
    simp only [removeVertex, List.length_cons, List.length_eraseIdx]
    split <;> omega

/-- the state before the loop (l.135-162) -/
def simplifyInit (ring : Nat → V2 α) (n : Nat) : SState α :=
  let prev := fun i => (i + n - 1) % n
  let next := fun i => (i + 1) % n
  { prev := prev, next := next, stamp := fun _ => 0, alive := fun _ => true, numAlive := n,
    heap := (List.range n).map fun i => ⟨deviation2 ring prev next i, 0, i⟩ }

/-- `SimplePolygon SimplifyRing(SimplePolygon ring, double tol)` -/
def simplifyFinal (ring : List (V2 α)) (tol : α) : SState α :=
  let r := fun i => ring.getD i V2.zero
  simplifyLoop r (tol *. tol) (simplifyInit r ring.length)

/-- the indices that survive, in increasing order (`for i: if (alive[i]) out.push_back(ring[i])`) -/
def simplifyKept (ring : List (V2 α)) (tol : α) : List Nat :=
  if ring.length ≤ 3 then List.range ring.length
  else (List.range ring.length).filter (simplifyFinal ring tol).alive

def simplifyRing (ring : List (V2 α)) (tol : α) : List (V2 α) :=
  (simplifyKept ring tol).map fun i => ring.getD i V2.zero

/-! ## DecomposeByContainment (boolean2_offset.cpp:294-432) -/

/-- `SignedArea(loop)` (boolean2_predicates.cpp:30-40) -/
def signedArea (loop : List (V2 α)) : α :=
  if loop.length < 3 then Scalar.zero
  else
    let arr := loop.toArray
    let r := arr.getD 0 V2.zero
    let n := arr.size
    let sum := (List.range n).foldl (fun s i =>
      s +. cross ((arr.getD i V2.zero).sub r) ((arr.getD ((i + 1) % n) V2.zero).sub r)) Scalar.zero
    half *. sum

/-- `struct RingInfo { Rect box; double area; double eps; }` -/
structure RingInfo (α : Type) where
  minx : α
  miny : α
  maxx : α
  maxy : α
  area : α
  eps : α

/-- `RingInfo Summarize(ring)`; `Rect::Union(p)` is `min = la::min(min, p); max = la::max(max, p)`
started from (+inf, −inf), which for a finite first vertex is that vertex.
`epsOf` is `EpsilonFromScale(·)` with the default budget. -/
def summarize (epsOf : α → α) (ring : List (V2 α)) : RingInfo α :=
  let f := ring.headD V2.zero
  let b := ring.tail.foldl (fun (b : α × α × α × α) v =>
    (lmin b.1 v.x, lmin b.2.1 v.y, lmax b.2.2.1 v.x, lmax b.2.2.2 v.y)) (f.x, f.y, f.x, f.y)
  let sx := b.2.2.1 -. b.1
  let sy := b.2.2.2 -. b.2.1
  ⟨b.1, b.2.1, b.2.2.1, b.2.2.2, signedArea ring, epsOf (half *. lmax sx sy)⟩

/-- the filter of l.369-380: `r.size() >= 3` and not `fabs(area) <= maxelem(size) * eps` -/
def keepRing (epsOf : α → α) (ring : List (V2 α)) : Bool :=
  if ring.length < 3 then false
  else
    let ri := summarize epsOf ring
    !le (abs ri.area) (lmax (ri.maxx -. ri.minx) (ri.maxy -. ri.miny) *. ri.eps)

/-- `BoxInside(a, b)` -/
def boxInside (a b : RingInfo α) : Bool :=
  let eps := b.eps
  le (b.minx -. eps) a.minx && le (b.miny -. eps) a.miny &&
  le a.maxx (b.maxx +. eps) && le a.maxy (b.maxy +. eps)

/-- `PointOnSegment(p, a, b, eps)` -/
def pointOnSegment (p a b : V2 α) (eps : α) : Bool :=
  if lt p.x (smin a.x b.x -. eps) || lt (lmax a.x b.x +. eps) p.x ||
     lt p.y (smin a.y b.y -. eps) || lt (lmax a.y b.y +. eps) p.y then false
  else ccw a b p eps == 0

/-- `PointInRing(p, ring, eps)`: `none` is the early `return true` -/
def pointInRing (p : V2 α) (ring : List (V2 α)) (eps : α) : Bool :=
  let arr := ring.toArray
  let n := arr.size
  let r := (List.range n).foldl (fun (st : Option Bool) i =>
    match st with
    | none => none
    | some inside =>
      let a := arr.getD i V2.zero
      let b := arr.getD ((i + n - 1) % n) V2.zero
      if pointOnSegment p a b eps then none
      else if (lt p.y a.y != lt p.y b.y) &&
          lt p.x ((b.x -. a.x) *. (p.y -. a.y) /. (b.y -. a.y) +. a.x) then some (!inside)
      else some inside) (some false)
  match r with
  | none => true
  | some inside => inside

/-- `RingInside(a, b, bEps)` -/
def ringInside (a b : List (V2 α)) (bEps : α) : Bool := a.all fun p => pointInRing p b bEps

/-- the inner loop of l.388-400 for ring `i`: scan `j` ascending, keep the strictly smallest `|area|`;
`best = none` is `bestParentArea = +inf` (`aj < inf` holds exactly for finite `aj ≥ 0`) -/
def parentOf (contains : Nat → Nat → Bool) (absArea : Nat → α) (n i : Nat) : Option Nat :=
  ((List.range n).foldl (fun (st : Option α × Option Nat) j =>
    if j = i then st
    else if !contains i j then st
    else
      let aj := absArea j
      let better := match st.1 with
        | none => Scalar.isFinite aj
        | some b => lt aj b
      if better then (some aj, some j) else st) (none, none)).2

/-- `for (hops = 0; p >= 0 && info[p].area < 0 && hops <= n; ++hops) p = parent[p];` with `fuel = n + 1` -/
def walkUp (parent : Nat → Option Nat) (isNeg : Nat → Bool) : Nat → Option Nat → Option Nat
  | 0, p => p
  | _ + 1, none => none
  | fuel + 1, some p => if isNeg p then walkUp parent isNeg fuel (parent p) else some p

/-- the component a hole is pushed into (l.415-425): the positive ring reached by the walk, if any -/
def holeTarget (parent : Nat → Option Nat) (isNeg isPos : Nat → Bool) (n i : Nat) : Option Nat :=
  match walkUp parent isNeg (n + 1) (parent i) with
  | none => none
  | some p => if isPos p then some p else none          -- `compOf[p] < 0` ⇔ ring `p` seeded nothing

/-- the components as lists of ring indices: the seeding loop (l.408-413) visits the positive rings in
increasing order and starts each component with that ring; the hole loop (l.415-425) visits the other
rings in increasing order and `push_back`s each into the component of its target. -/
def decomposeIdx (parent : Nat → Option Nat) (isNeg isPos : Nat → Bool) (n : Nat) : List (List Nat) :=
  ((List.range n).filter isPos).map fun p =>
    p :: (List.range n).filter fun i => !isPos i && holeTarget parent isNeg isPos n i == some p

/-- `std::vector<Polygons> DecomposeByContainment(const Polygons& polys)`:
returns the kept rings (`rings`) and the components as index lists into them -/
def decompose (epsOf : α → α) (polys : List (List (V2 α))) : List (List (V2 α)) × List (List Nat) :=
  let rings := polys.filter (keepRing epsOf)
  let info := rings.map (summarize epsOf)
  let n := rings.length
  let dflt : RingInfo α := ⟨Scalar.zero, Scalar.zero, Scalar.zero, Scalar.zero, Scalar.zero, Scalar.zero⟩
  let inf := fun i => info.getD i dflt
  let contains := fun i j => boxInside (inf i) (inf j) && ringInside (rings.getD i []) (rings.getD j []) (inf j).eps
  let parents := (List.range n).map (parentOf contains (fun j => abs (inf j).area) n)
  let parent := fun i => parents.getD i none
  (rings, decomposeIdx parent (fun i => lt (inf i).area Scalar.zero) (fun i => lt Scalar.zero (inf i).area) n)

/-! ## offset joins that need no square root (boolean2_offset.cpp:57-126) -/

/-- `RotateDegrees(v, angle)` given `c = cosd(angle)`, `s = sind(angle)` -/
def rotateCS (v : V2 α) (c s : α) : V2 α := ⟨v.x *. c -. v.y *. s, v.x *. s +. v.y *. c⟩

/-- the points `AppendRoundJoin` pushes, given the sampled `(cosd, sind)` of `rotSign * i * subStep` -/
def roundJoin (V nPrev : V2 α) (delta : α) (rots : List (α × α)) : List (V2 α) :=
  rots.map fun cs => V.add (V2.smul delta (rotateCS nPrev cs.1 cs.2))

/-- the last four lines of `AppendSquareJoin`, given the unit bisector and the half-width -/
def squareCap (V bisector : V2 α) (delta half : α) : List (V2 α) :=
  let tangent : V2 α := ⟨neg bisector.y, bisector.x⟩
  let mid := V.add (V2.smul delta bisector)
  [mid.sub (V2.smul half tangent), mid.add (V2.smul half tangent)]

/-- `MiterPoint(V, nPrev, nNext, delta)` -/
def miterPoint (V nPrev nNext : V2 α) (delta : α) : V2 α :=
  let dotN := dot nPrev nNext
  let denom := (one : α) +. dotN
  if le denom Scalar.zero then V.add (V2.smul delta nPrev)
  else V.add (V2.smul delta ((nPrev.add nNext).divs denom))

/-- `ValidMiterLimit` -/
def validMiterLimit (m : α) : α := if Scalar.isFinite m && le (two : α) m then m else two

end Generic

/-! ## the rest of OffsetContour (needs `sqrt`) -/

section Offset
variable {α : Type} [ScalarSqrt α]
open Scalar

local infixl:65 " +. " => Scalar.add
local infixl:65 " -. " => Scalar.sub
local infixl:70 " *. " => Scalar.mul
local infixl:70 " /. " => Scalar.div

/-- `UnitFromScaled(v)`: `(unit, scale)`, `(0, 0)` when degenerate -/
def unitFromScaled (v : V2 α) : V2 α × α :=
  let scale := lmax (abs v.x) (abs v.y)
  if beq scale Scalar.zero || !Scalar.isFinite scale then (V2.zero, Scalar.zero)
  else
    let u := v.divs scale
    let len := ScalarSqrt.sqrt (dot u u)
    if beq len Scalar.zero || !Scalar.isFinite len then (V2.zero, Scalar.zero)
    else (u.divs len, scale)

/-- `OutwardNormal(edge)` -/
def outwardNormal (edge : V2 α) : V2 α :=
  let d := unitFromScaled edge
  if beq d.2 Scalar.zero then V2.zero else ⟨d.1.y, neg d.1.x⟩

/-- `AppendSquareJoin(out, V, nPrev, nNext, delta)` -/
def squareJoin (V nPrev nNext : V2 α) (delta : α) : List (V2 α) :=
  let d := unitFromScaled (nPrev.add nNext)
  if beq d.2 Scalar.zero then []
  else
    let bisector := d.1
    let cosHalf := lmax Scalar.zero (dot bisector nPrev)
    let sinHalf := ScalarSqrt.sqrt (lmax Scalar.zero ((one : α) -. cosHalf *. cosHalf))
    let half := abs delta *. sinHalf /. ((one : α) +. cosHalf)
    squareCap V bisector delta half

/-- `enum class JoinType { Square, Round, Miter, Bevel }`; a round join carries, for every vertex index
of the contour, the sampled rotations its arc would use (see `roundJoin`; used only at the corners
that reach the `switch`) -/
inductive Join (α : Type)
  | square
  | round (arcs : List (List (α × α)))
  | miter
  | bevel

/-- constants of `OffsetContour` that come from `EpsilonFromScale` and a literal -/
structure OffsetConsts (α : Type) where
  /-- `EpsilonFromScale(L)` -/
  epsOf : α → α
  /-- `EpsilonFromScale(1.0, 0)` -/
  miterTieTol : α
  /-- `kMinMiterDenom = 2e-12` -/
  minMiterDenom : α

/-- one iteration of the `for` of `OffsetContour` (l.151-238): the points pushed for vertex `V`
with neighbours `P`, `N`; `arc` = the sampled rotations of this corner (round joins only). -/
def offsetVertex (k : OffsetConsts α) (jt : Join α) (arc : List (α × α)) (delta miterLimit : α)
    (P V N : V2 α) : List (V2 α) :=
  let deltaSign : α := if le Scalar.zero delta then one else neg one
  let ePrev := V.sub P
  let eNext := N.sub V
  let nPrev := outwardNormal ePrev
  let nNext := outwardNormal eNext
  if nPrev.isZero || nNext.isZero then []
  else
    let endPrev := V.add (V2.smul delta nPrev)
    let startNext := V.add (V2.smul delta nNext)
    let cr := cross ePrev eNext
    let eps := k.epsOf (ScalarSqrt.sqrt (lmax (dot ePrev ePrev) (dot eNext eNext)))
    if ccw P V N eps == 0 then
      (if lt (dot ePrev eNext) Scalar.zero then [endPrev, startNext] else [endPrev])
    else if !lt Scalar.zero (cr *. deltaSign) then [endPrev, V, startNext]   -- concave: the vertex itself stays in the ring (l.184-198)
    else
      match jt with
      | .round _ => endPrev :: roundJoin V nPrev delta arc ++ [startNext]
      | .miter =>
        let dotN := dot nPrev nNext
        let thresh := (two : α) /. (miterLimit *. miterLimit) -. one
        if lt (dotN +. k.miterTieTol) thresh || lt ((one : α) +. dotN) k.minMiterDenom then
          endPrev :: squareJoin V nPrev nNext delta ++ [startNext]
        else [endPrev, miterPoint V nPrev nNext delta, startNext]
      | .square => endPrev :: squareJoin V nPrev nNext delta ++ [startNext]
      | .bevel => [endPrev, startNext]

/-- `SimplePolygon OffsetContour(contour, delta, jt, miterLimit, segments)` -/
def offsetContour (k : OffsetConsts α) (jt : Join α) (delta miterLimit : α) (ring : List (V2 α)) :
    List (V2 α) :=
  if ring.length < 3 || beq delta Scalar.zero then ring
  else
    let arcs := match jt with
      | .round a => a
      | _ => []
    let arr := ring.toArray
    let n := arr.size
    let ml := validMiterLimit miterLimit
    (List.range n).flatMap fun i =>
      offsetVertex k jt (arcs.getD i []) delta ml
        (arr.getD ((i + n - 1) % n) V2.zero) (arr.getD i V2.zero) (arr.getD ((i + 1) % n) V2.zero)

end Offset

/-! ## Float-only: EpsilonFromScale -/

/-- `EpsilonFromScale(L, k_budget)` (boolean2_predicates.cpp:50-55): `kAlphaCoeff = 12.37`,
`kU = 2^-53`; `frexp`/`ldexp` are `Float.frExp`/`Float.scaleB`. -/
def epsFromScaleF (kBudget : Nat) (L : Float) : Float :=
  if L ≤ 0 then 0
  else
    let e := (Float.frExp L).2
    let kAlpha := Float.ofBits 0x4028bd70a3d70a3d
    let kU := Float.ofBits 0x3ca0000000000000
    Float.scaleB (Float.ofNat (kBudget + 1) * kAlpha * kU) e

def offsetConstsF : OffsetConsts Float :=
  ⟨epsFromScaleF 1000, epsFromScaleF 0 1.0, Float.ofBits 0x3d819799812dea11⟩

end MV.CrossOps
