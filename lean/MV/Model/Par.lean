/-
Model of the TBB protocols used by /repo/src/parallel.h and of the primitives built on
them.  Core Lean only (the driver links against this file).

A *schedule* is an explicit argument: `Sched` is the binary split tree TBB builds over a
`blocked_range`; `node k stolen l r` splits the current range after its first `k` elements,
`stolen = true` means the right part is processed by a body made with the split constructor
(another worker stole it), `false` means the same body simply continues.  `Sched.Valid n`
says every leaf is a non-empty sub-range, which is TBB's documented contract.

Everything below is a line-by-line functional reading of the C++:
  reduceGo      tbb::parallel_reduce (functional form, lambda_reduce_body) and the body form
  finalScan     tbb::parallel_scan (body form) with ScanBody / CopyIfScanBody
  parFor        tbb::parallel_for: the leaves, executed in any order
  mergeRec, mergeSortRec, lsbRadix, sortedRangeJoin: details::* in parallel.h
-/
namespace MV.Par

/-! ## schedules -/

inductive Sched where
  | leaf : Sched
  | node (k : Nat) (stolen : Bool) (l r : Sched) : Sched
deriving Repr, Inhabited, BEq

/-- every range handed to a body is non-empty -/
def Sched.Valid : Sched → Nat → Prop
  | .leaf, n => 0 < n
  | .node k _ l r, n => k ≤ n ∧ l.Valid k ∧ r.Valid (n - k)

/-- executable version of `Sched.Valid` (used by the driver to validate the shim's schedule) -/
def Sched.valid : Sched → Nat → Bool
  | .leaf, n => 0 < n
  | .node k _ l r, n => k ≤ n && l.valid k && r.valid (n - k)

/-- the leaf ranges `[b,e)` of a schedule laid over `[start, start+n)`, left to right -/
def Sched.chunks : Sched → Nat → Nat → List (Nat × Nat)
  | .leaf, start, n => [(start, start + n)]
  | .node k _ l r, start, n => l.chunks start k ++ r.chunks (start + k) (n - k)

/-! ## sequential specifications (what the `std::` algorithms compute) -/

variable {α : Type}

/-- `std::exclusive_scan(first,last,out,init,f)`: outputs and final running value -/
def exScan (f : α → α → α) : α → List α → List α × α
  | s, [] => ([], s)
  | s, x :: xs => let r := exScan f (f s x) xs; (s :: r.1, r.2)

/-- `std::inclusive_scan` with `+`-like `f` starting from `s` -/
def inScan (f : α → α → α) : α → List α → List α
  | _, [] => []
  | s, x :: xs => f s x :: inScan f (f s x) xs

/-! ## tbb::parallel_reduce -/

/-- One body walking a sub-tree.  `leafF v chunk` is what `operator()` does to the running
value on one leaf range.  Non-stolen right parts continue with the same body; stolen right
parts start from the identity (split constructor) and are `join`ed. -/
def reduceGoG {β : Type} (leafF : β → List α → β) (join : β → β → β) (idn : β) :
    Sched → β → List α → β
  | .leaf, v, xs => leafF v xs
  | .node k false l r, v, xs =>
      reduceGoG leafF join idn r (reduceGoG leafF join idn l v (xs.take k)) (xs.drop k)
  | .node k true l r, v, xs =>
      join (reduceGoG leafF join idn l v (xs.take k)) (reduceGoG leafF join idn r idn (xs.drop k))

/-- the instance used by `reduce`: leaf = `std::reduce(range, value, f)`, join = `f` -/
def reduceGo (f : α → α → α) (idn : α) : Sched → α → List α → α :=
  reduceGoG (fun v xs => xs.foldl f v) f idn

/-- `manifold::reduce(Par, first, last, init, f)`: TBB receives `init` as its identity. -/
def parReduce (f : α → α → α) (init : α) (t : Sched) (xs : List α) : α :=
  if xs.isEmpty then init else reduceGo f init t init xs

/-- `manifold::all_of(Par, …)`: identity `true`, leaf short-circuits, join `&&`. -/
def parAllOf (p : α → Bool) (t : Sched) (xs : List α) : Bool :=
  if xs.isEmpty then true
  else reduceGoG (fun (v : Bool) (c : List α) => if !v then false else c.all p)
        (fun a b => a && b) true t true xs

/-- `manifold::count_if(Par, …)` = reduce over the transformed range with `+`, init 0 -/
def parCountIf (p : α → Bool) (t : Sched) (xs : List α) : Nat :=
  parReduce (· + ·) 0 t (xs.map fun x => if p x then 1 else 0)

/-! ## tbb::parallel_scan with ScanBody -/

/-- what all bodies to the left of a range have summarised (pre-scan + reverse_join) -/
def summary (f : α → α → α) (idn : α) (t : Sched) (xs : List α) : α :=
  reduceGo f idn t idn xs

/-- final pass: `c` is the carry the body holds when it reaches this sub-range.
A stolen right part receives `reverse_join`: `f c (summary of the left part)`;
a non-stolen one simply continues with the left part's running value. -/
def finalScan (f : α → α → α) (idn : α) : Sched → α → List α → List α × α
  | .leaf, c, xs => exScan f c xs
  | .node k stolen l r, c, xs =>
      let lo := finalScan f idn l c (xs.take k)
      let c' := if stolen then f c (summary f idn l (xs.take k)) else lo.2
      let ro := finalScan f idn r c' (xs.drop k)
      (lo.1 ++ ro.1, ro.2)

/-- `manifold::exclusive_scan(Par, first, last, out, init, f, identity)` -/
def parExclusiveScan (f : α → α → α) (init idn : α) (t : Sched) (xs : List α) : List α :=
  if xs.isEmpty then [] else (finalScan f idn t init xs).1

/-- functional-form `tbb::parallel_scan(range, identity, scan, combine)` as used by
`inclusive_scan`: the running value *after* each element is what is written. -/
def finalScanIncl (f : α → α → α) (idn : α) : Sched → α → List α → List α × α
  | .leaf, c, xs => (inScan f c xs, xs.foldl f c)
  | .node k stolen l r, c, xs =>
      let lo := finalScanIncl f idn l c (xs.take k)
      let c' := if stolen then f c (summary f idn l (xs.take k)) else lo.2
      let ro := finalScanIncl f idn r c' (xs.drop k)
      (lo.1 ++ ro.1, ro.2)

def parInclusiveScan (f : α → α → α) (idn : α) (t : Sched) (xs : List α) : List α :=
  if xs.isEmpty then [] else (finalScanIncl f idn t idn xs).1

/-! ## CopyIfScanBody: copy_if, remove_if, remove, unique -/

def ind (p : α → Bool) (x : α) : Nat := if p x then 1 else 0

/-- The writes `output[temp-1] = input[i]` of the final pass, as (slot, value), in index
order; `c` is the count carried in. -/
def copyIfWrites (p : α → Bool) (t : Sched) (c : Nat) (xs : List α) : List (Nat × α) :=
  let ranks := (finalScan (· + ·) 0 t c (xs.map (ind p))).1
  (ranks.zip xs).filter (fun rx => p rx.2)

/-- `body.get_sum()` -/
def copyIfCount (p : α → Bool) (t : Sched) (c : Nat) (xs : List α) : Nat :=
  (finalScan (· + ·) 0 t c (xs.map (ind p))).2

/-- apply a list of (slot, value) writes to an output buffer, in the given order;
writes beyond the end are dropped (the model never produces any: theorem) -/
def applyWrites (out : List α) (ws : List (Nat × α)) : List α :=
  ws.foldl (fun o w => o.set w.1 w.2) out

/-! compiled-code replacement for `applyWrites` (proved equal; used only by the compiler) -/
def applyWritesFast {α : Type} (out : List α) (ws : List (Nat × α)) : List α :=
  (ws.foldl (fun (o : Array α) w => o.setIfInBounds w.1 w.2) out.toArray).toList

theorem applyWritesFast_go {α : Type} (ws : List (Nat × α)) (o : Array α) :
    (ws.foldl (fun (o : Array α) w => o.setIfInBounds w.1 w.2) o).toList
      = ws.foldl (fun o w => o.set w.1 w.2) o.toList := by
  induction ws generalizing o with
  | nil => rfl
  | cons w ws ih => simp [List.foldl_cons, ih]

@[csimp] theorem applyWrites_eq_fast : @applyWrites = @applyWritesFast := by
  funext α out ws
  simp [applyWrites, applyWritesFast, applyWritesFast_go]

/-- `manifold::copy_if(Par, …)`: the parallel pass writes into `out`, its return value is
discarded (it is returned from the `isolate` lambda only), and the function falls through to
the sequential `std::copy_if`, whose result is what the caller gets.  Returned: the output
buffer and the count. -/
def parCopyIf (p : α → Bool) (t : Sched) (xs out : List α) : List α × Nat :=
  let out1 := if xs.isEmpty then out else applyWrites out (copyIfWrites p t 0 xs)
  let kept := xs.filter p
  (kept ++ out1.drop kept.length, kept.length)

/-- the parallel pass alone (what the buffer holds before the sequential fall-through) -/
def parCopyIfPass (p : α → Bool) (t : Sched) (xs out : List α) : List α × Nat :=
  if xs.isEmpty then (out, 0)
  else (applyWrites out (copyIfWrites p t 0 xs), copyIfCount p t 0 xs)

/-- `manifold::remove_if(Par, …)`: copy_if with the negated predicate into a temporary,
copied back. Returns the kept prefix. -/
def parRemoveIf (p : α → Bool) (t : Sched) (xs : List α) : List α :=
  let r := parCopyIf (fun x => !p x) t xs xs
  r.1.take r.2

/-- One window of `manifold::unique(Par, …)` (after the `fix:`): `last` is the element most
recently emitted (none for the very first window).  `tmp` is the window.  The head is
emitted unless it repeats `last`; then every `tmp[i+1]` with `tmp[i] != tmp[i+1]`. -/
def uniqueWindow [BEq α] (t : Sched) (last : Option α) (tmp : List α) : List α :=
  match tmp with
  | [] => []
  | h :: rest =>
    let head := match last with
      | some l => if l == h then [] else [h]
      | none => [h]
    -- pred(i) = tmp[i] != tmp[i+1]; input = tmp+1; range [0, length-1)
    let pairs := tmp.zip rest
    let kept :=
      if rest.isEmpty then []
      else
        let ranks := (finalScan (· + ·) 0 t 0 (pairs.map (ind fun ab => ab.1 != ab.2))).1
        ((ranks.zip pairs).filter (fun r => r.2.1 != r.2.2)).map (fun r => r.2.2)
    head ++ kept

/-- the window loop; `W` is MAX_BUFFER_SIZE, one schedule per window -/
def parUniqueGo [BEq α] (W : Nat) : Nat → List Sched → Option α → List α → List α
  | 0, _, _, _ => []
  | fuel + 1, ts, last, xs =>
    if xs.isEmpty then [] else
    let tmp := xs.take W
    let t := ts.headD .leaf
    let out := uniqueWindow t last tmp
    let last' := match out.getLast? with
      | some x => some x
      | none => last
    out ++ parUniqueGo W fuel ts.tail last' (xs.drop W)

def parUnique [BEq α] (W : Nat) (ts : List Sched) (xs : List α) : List α :=
  parUniqueGo W (xs.length + 1) ts none xs

/-- `std::unique` -/
def seqUnique [BEq α] : List α → List α
  | [] => []
  | [x] => [x]
  | x :: y :: rest => if x == y then seqUnique (y :: rest) else x :: seqUnique (y :: rest)

/-! ## tbb::parallel_for: the leaves in any order -/

/-- run `body i` for every `i` of every chunk, chunks in the given (execution) order -/
def parFor {σ : Type} (body : Nat → σ → σ) (chunks : List (Nat × Nat)) (s : σ) : σ :=
  chunks.foldl (fun s c => (List.range' c.1 (c.2 - c.1)).foldl (fun s i => body i s) s) s

def seqFor {σ : Type} (body : Nat → σ → σ) (n : Nat) (s : σ) : σ :=
  (List.range n).foldl (fun s i => body i s) s

/-- ctx-aware for_each (Par branch): a chunk whose cancel check fires is skipped whole -/
def parForCancel {σ : Type} (body : Nat → σ → σ) (chunks : List ((Nat × Nat) × Bool)) (s : σ) : σ :=
  chunks.foldl (fun s c => if c.2 then s else
    (List.range' c.1.1 (c.1.2 - c.1.1)).foldl (fun s i => body i s) s) s

/-- `chunks` tile `[a,b)` left to right with non-empty pieces -/
def Tiles : List (Nat × Nat) → Nat → Nat → Prop
  | [], a, b => a = b
  | c :: cs, a, b => c.1 = a ∧ a < c.2 ∧ Tiles cs c.2 b

def tiles : List (Nat × Nat) → Nat → Nat → Bool
  | [], a, b => a == b
  | c :: cs, a, b => c.1 == a && decide (a < c.2) && tiles cs c.2 b

/-! ## stable merge sort (details::mergeRec / mergeSortRec) -/

/-- `std::merge(l1, l2, comp)`: take from the second range only when it is strictly less -/
def mergeSeq (lt : α → α → Bool) : List α → List α → List α
  | [], ys => ys
  | xs, [] => xs
  | x :: xs, y :: ys =>
    if lt y x then y :: mergeSeq lt (x :: xs) ys else x :: mergeSeq lt xs (y :: ys)

/-- `std::lower_bound` on a sorted range: number of elements `< v` -/
def lowerBound (lt : α → α → Bool) (xs : List α) (v : α) : Nat :=
  (xs.takeWhile fun x => lt x v).length

/-- `std::upper_bound` on a sorted range: number of elements `≤ v` (i.e. not `v < x`) -/
def upperBound (lt : α → α → Bool) (xs : List α) (v : α) : Nat :=
  (xs.takeWhile fun x => !lt v x).length

/-- `details::mergeRec` with threshold `T` (kSeqThreshold).  The two `parallel_invoke`d
halves write disjoint output ranges, so the result is their concatenation. -/
def mergeRec (T : Nat) (lt : α → α → Bool) : Nat → List α → List α → List α
  | 0, l1, l2 => mergeSeq lt l1 l2
  | fuel + 1, l1, l2 =>
    if l1.isEmpty then l2
    else if l2.isEmpty then l1
    else if l1.length + l2.length ≤ T then mergeSeq lt l1 l2
    else if l1.length > l2.length then
      let q1 := l1.length / 2
      match l1[q1]? with
      | none => mergeSeq lt l1 l2
      | some pivot =>
        let q2 := lowerBound lt l2 pivot
        mergeRec T lt fuel (l1.take q1) (l2.take q2) ++ mergeRec T lt fuel (l1.drop q1) (l2.drop q2)
    else
      let q2 := l2.length / 2
      match l2[q2]? with
      | none => mergeSeq lt l1 l2
      | some pivot =>
        let q1 := upperBound lt l1 pivot
        mergeRec T lt fuel (l1.take q1) (l2.take q2) ++ mergeRec T lt fuel (l1.drop q1) (l2.drop q2)

/-- `std::stable_sort(comp)` specification: insertion sort that inserts after equal keys -/
def insertStable (lt : α → α → Bool) (x : α) : List α → List α
  | [] => [x]
  | y :: ys => if lt x y then x :: y :: ys else y :: insertStable lt x ys

def stableSort (lt : α → α → Bool) (xs : List α) : List α :=
  xs.foldl (fun acc x => insertStable lt x acc) []

/-- `details::mergeSortRec` -/
def mergeSortRec (T : Nat) (lt : α → α → Bool) : Nat → List α → List α
  | 0, xs => stableSort lt xs
  | fuel + 1, xs =>
    if xs.length ≤ T then stableSort lt xs
    else
      let m := xs.length / 2
      mergeRec T lt (xs.length + 1) (mergeSortRec T lt fuel (xs.take m)) (mergeSortRec T lt fuel (xs.drop m))

def parStableSort (T : Nat) (lt : α → α → Bool) (xs : List α) : List α :=
  mergeSortRec T lt (xs.length + 1) xs

/-! ## LSB radix sort on unsigned keys (details::LSB_radix_sort, SortedRange) -/

def byteOf (k : Nat) (x : Nat) : Nat := (x / 256 ^ k) % 256

/-- one `shuffle` pass: stable counting sort by byte `k` -/
def shufflePass (k : Nat) (xs : List Nat) : List Nat :=
  (List.range 256).flatMap fun b => xs.filter fun x => byteOf k x == b

/-- `canSkip[k]`: some bucket of byte `k` holds all `n` elements -/
def canSkip (k : Nat) (xs : List Nat) : Bool :=
  (List.range 256).any fun b => (xs.filter fun x => byteOf k x == b).length == xs.length

/-- `std::is_sorted`: adjacent comparisons -/
def isSortedAdj : List Nat → Bool
  | [] => true
  | [_] => true
  | x :: y :: rest => decide (x ≤ y) && isSortedAdj (y :: rest)

/-- `LSB_radix_sort` over `nb` bytes: early-out when sorted, skip constant bytes -/
def lsbRadix (nb : Nat) (xs : List Nat) : List Nat :=
  if isSortedAdj xs then xs
  else (List.range nb).foldl (fun a k => if canSkip k xs then a else shufflePass k a) xs

/-- `SortedRange::join`: adjacent sorted ranges; merge only if out of order at the seam -/
def sortedJoin (T : Nat) (a b : List Nat) : List Nat :=
  match a.getLast?, b.head? with
  | some x, some y =>
    if x > y then mergeRec T (fun p q => decide (p < q)) (a.length + b.length + 1) a b else a ++ b
  | _, _ => a ++ b

/-- `radix_sort`: body-form parallel_reduce over blocks; every leaf is radix-sorted and
joined to the body's current range (`length == 0` means "adopt"). -/
def parRadixSort (T nb : Nat) (t : Sched) (xs : List Nat) : List Nat :=
  if xs.isEmpty then []
  else reduceGoG (fun (acc : List Nat) c => if acc.isEmpty then lsbRadix nb c else sortedJoin T acc (lsbRadix nb c))
        (sortedJoin T) [] t [] xs

end MV.Par

