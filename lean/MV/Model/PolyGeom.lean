/-
The GEOMETRIC decisions of /repo/src/polygon.cpp (property C10, deepening C10b).  Core Lean only.

MV/Model/EarClip.lean models the topology of the triangulator (circular lists, ClipEar, JoinPolygons,
halfedge pairing, the convex strip as an index pattern) and takes every geometric choice as an oracle
argument.  This file models those choices themselves, ONCE over the class `MV.CrossOps.ScalarSqrt`
(the operations the C++ performs on `double`, Bool-valued NaN-aware comparisons, `std::sqrt`):
the compiled driver runs the definitions at `Float` in the code's own operation order (answers are
compared with the C++ as IEEE bit patterns by harness/c10_polygeom.cpp); the theorems of
MV/Props/C10b.lean are about the SAME definitions at the exact instance `Option F` over a linearly
ordered field `F` (`none` = NaN, MV/Proof/PolyGeomField.lean).

Transliteration table (src/polygon.cpp unless stated)
  determinant2x2                                l.54-56      `CrossOps.cross`
  la::length / la::normalize                    include/manifold/linalg.h:1632-1643   `length`, `normalize`
  CCW                                           src/utils.h:164-173                   `CrossOps.ccw`
  IsConvex(polys, epsilon)                      l.186-209    `icReject`, `icLoop`, `isConvexFn`, `isConvexRing`, `isConvex`
  TriangulateConvex                             l.215-239    `stripLoop`, `stripFn`, `triangulateConvex`
  Rect(), Rect::Union(vec2), Rect::Scale, Rect::Contains(vec2)   include/manifold/common.h:461-556   `Rect.*`
  EarClip::Reset / Initialize l.702 (epsilon<0) l.584-599,702 `precision`
  Vert::IsShort                                 l.362-365    `isShort`
  Vert::Interior                                l.370-377    `interior`
  Vert::InsideEdge                              l.384-436    `insideEdge`
  Vert::IsConvex / IsReflex                     l.439-448    `vertIsConvex`, `isReflex`
  Vert::InterpY2X                               l.454-473    `interpY2X`
  Vert::SignedDist / Cost / DelaunayCost        l.479-505    `signedDist`, `cost`, `delaunayCost`
  Vert::EarCost                                 l.518-556    `earCost` (the k-d tree query = all collider points inside
                                                             `earBox`, MV/Props/C14b.lean `kdtree_query_exact`; the running
                                                             maximum does not depend on the report order)
  SafeNormalize                                 l.570-573    `safeNormalize`
  Clipped                                       l.586        `clipped`
  ClipIfDegenerate's test                       l.667-670    `degenerateEar`
  FindCloserBridge: first guess                 l.806-812    `bridgeInitial`
  CutKeyhole's onTop, CheckVert's arithmetic    l.760-763, 819-825   `onTop`, `bridgeCheckVert` (transliterated; NOT tied: the code has no entry point that isolates them)

NOT modelled here: FindStart's Kahan-summed area and hole/outer classification, the CheckEdge chain of
CutKeyhole (it is a fold of `interpY2X` / `insideEdge` / `ccw`, which are modelled), the ear queue order
(`std::multiset` by cost: ties are resolved by insertion order).  These stay oracle arguments of
MV/Model/EarClip.lean, replayed from the hook log.
-/
import MV.Model.CrossOps

namespace MV.PolyGeom
open MV.CrossOps

section Generic
variable {α : Type} [ScalarSqrt α]
open Scalar

local infixl:65 " +. " => Scalar.add
local infixl:65 " -. " => Scalar.sub
local infixl:70 " *. " => Scalar.mul
local infixl:70 " /. " => Scalar.div

/-- `NAN` (any NaN: only `std::isfinite` ever looks at it) -/
def nanV : α := (Scalar.zero : α) /. Scalar.zero

/-- `la::length(a) = std::sqrt(dot(a, a))` -/
def length (a : V2 α) : α := ScalarSqrt.sqrt (dot a a)
/-- `la::normalize(a) = a / length(a)`: `0/0 = NaN` in both components for a zero vector -/
def normalize (a : V2 α) : V2 α := a.divs (length a)

/-- `SafeNormalize` (l.570-573): `isfinite(n.x) ? n : vec2(0, 0)` -/
def safeNormalize (v : V2 α) : V2 α :=
  let n := normalize v
  if isFinite n.x then n else V2.zero

/-! ## IsConvex (l.186-209) -/

/-- the test of one corner: `det <= 0 || (std::abs(det) < epsilon && la::dot(lastEdge, edge) < 0)`
with `det = determinant2x2(lastEdge, edge)`.  A NaN `det` (a NaN `lastEdge`) makes every comparison
false: the corner is NOT rejected. -/
def icReject (eps : α) (lastEdge edge : V2 α) : Bool :=
  let det := cross lastEdge edge
  le det Scalar.zero || (lt (abs det) eps && lt (dot lastEdge edge) Scalar.zero)

/-- the edge tested at loop index `v`: `v + 1 < poly.size() ? poly[v+1].pos - poly[v].pos : firstEdge` -/
def icEdge (p : Nat → V2 α) (n : Nat) (firstEdge : V2 α) (v : Nat) : V2 α :=
  if v + 1 < n then (p (v + 1)).sub (p v) else firstEdge

/-- `for (size_t v = 0; v < poly.size(); ++v) { … if (reject) return false; lastEdge = normalize(edge); }`
run from index `v` with `fuel` iterations left -/
def icLoop (eps : α) (p : Nat → V2 α) (n : Nat) (firstEdge : V2 α) : Nat → Nat → V2 α → Bool
  | 0, _, _ => true
  | fuel + 1, v, lastEdge =>
    let edge := icEdge p n firstEdge v
    if icReject eps lastEdge edge then false
    else icLoop eps p n firstEdge fuel (v + 1) (normalize edge)

/-- one contour of `IsConvex`: `if (poly.size() < 3) return false; firstEdge = poly[0] - poly[n-1];
lastEdge = normalize(firstEdge); loop` -/
def isConvexFn (eps : α) (p : Nat → V2 α) (n : Nat) : Bool :=
  if n < 3 then false
  else
    let firstEdge := (p 0).sub (p (n - 1))
    icLoop eps p n firstEdge n 0 (normalize firstEdge)

def arrFn (ring : Array (V2 α)) : Nat → V2 α := fun i => ring.getD i V2.zero

def isConvexRing (eps : α) (ring : Array (V2 α)) : Bool := isConvexFn eps (arrFn ring) ring.size

/-- `bool IsConvex(const PolygonsIdx& polys, double epsilon)`: false at the first failing contour,
true for no contours at all -/
def isConvex (eps : α) (polys : List (Array (V2 α))) : Bool := polys.all (isConvexRing eps)

/-- the per-corner determinants the loop looks at (for the harness: compared bit for bit), up to and
including the corner that returns -/
def icDets (eps : α) (p : Nat → V2 α) (n : Nat) (firstEdge : V2 α) : Nat → Nat → V2 α → List α
  | 0, _, _ => []
  | fuel + 1, v, lastEdge =>
    let edge := icEdge p n firstEdge v
    let det := cross lastEdge edge
    if icReject eps lastEdge edge then [det]
    else det :: icDets eps p n firstEdge fuel (v + 1) (normalize edge)

def isConvexDets (eps : α) (ring : Array (V2 α)) : List α :=
  if ring.size < 3 then []
  else
    let firstEdge := (arrFn ring 0).sub (arrFn ring (ring.size - 1))
    icDets eps (arrFn ring) ring.size firstEdge ring.size 0 (normalize firstEdge)

end Generic

/-! ## TriangulateConvex (l.215-239): pure index arithmetic -/

/-- `while (i + 1 < k) { j = right ? i + 1 : k - 1; AddTriangle(i, j, k); if (right) i = j; else k = j;
right = !right; }` as positions in the contour -/
def stripLoop : Nat → Nat → Nat → Bool → List (Nat × Nat × Nat)
  | 0, _, _, _ => []
  | fuel + 1, i, k, right =>
    if i + 1 < k then
      let j := if right then i + 1 else k - 1
      (i, j, k) :: stripLoop fuel (if right then j else i) (if right then k else j) (!right)
    else []

/-- one contour of `n` vertices: `i = 0; k = n - 1; right = true`.  (`n = 0` would wrap `k` around in the
C++; `IsConvex` never admits `n < 3`.) -/
def stripFn (n : Nat) : List (Nat × Nat × Nat) := stripLoop n 0 (n - 1) true

/-- `TriangulateConvex(polys)`: the triangles in emission order, as the `idx` of the contour entries -/
def triangulateConvex (polys : List (Array Int)) : List (Int × Int × Int) :=
  polys.flatMap fun poly =>
    (stripFn poly.size).map fun (i, j, k) => (poly.getD i 0, poly.getD j 0, poly.getD k 0)

section Generic2
variable {α : Type} [ScalarSqrt α]
open Scalar

local infixl:65 " +. " => Scalar.add
local infixl:65 " -. " => Scalar.sub
local infixl:70 " *. " => Scalar.mul
local infixl:70 " /. " => Scalar.div

/-! ## Rect (include/manifold/common.h) and the working epsilon -/

structure Rect (α : Type) where
  min : V2 α
  max : V2 α

/-- `vec2 min = vec2(inf); vec2 max = vec2(-inf);` -/
def Rect.empty (inf : α) : Rect α := ⟨⟨inf, inf⟩, ⟨neg inf, neg inf⟩⟩
def vmin (a b : V2 α) : V2 α := ⟨lmin a.x b.x, lmin a.y b.y⟩
def vmax (a b : V2 α) : V2 α := ⟨lmax a.x b.x, lmax a.y b.y⟩
/-- `Rect(a, b)`: `min = la::min(a, b); max = la::max(a, b)` -/
def Rect.of (a b : V2 α) : Rect α := ⟨vmin a b, vmax a b⟩
/-- `void Union(const vec2 p)` -/
def Rect.union (r : Rect α) (p : V2 α) : Rect α := ⟨vmin r.min p, vmax r.max p⟩
/-- `Scale()`: `absMax = la::max(la::abs(min), la::abs(max)); return la::max(absMax.x, absMax.y)` -/
def Rect.scale (r : Rect α) : α :=
  lmax (lmax (abs r.min.x) (abs r.max.x)) (lmax (abs r.min.y) (abs r.max.y))
/-- `Contains(p)`: `all(gequal(p, min)) && all(gequal(max, p))` -/
def Rect.contains (r : Rect α) (p : V2 α) : Bool :=
  (le r.min.x p.x && le r.min.y p.y) && (le p.x r.max.x && le p.y r.max.y)

/-- `Reset(epsilon)`, then `Initialize`: `bBox_.Union(pos)` for every vertex in input order and
`if (epsilon_ < 0) epsilon_ = bBox_.Scale() * kPrecision;` (l.702) -/
def precision (inf kPrecision eps : α) (pts : List (V2 α)) : α :=
  if lt eps Scalar.zero then (pts.foldl Rect.union (Rect.empty inf)).scale *. kPrecision else eps

/-! ## the circular lists and the per-vertex predicates -/

/-- the fields of `struct Vert` the predicates read (state AFTER `Initialize` / any clipping: an input) -/
structure Verts (α : Type) where
  n : Nat
  pos : Nat → V2 α
  left : Nat → Nat
  right : Nat → Nat
  rightDir : Nat → V2 α
  meshIdx : Nat → Int

variable (vs : Verts α)

/-- `Clipped(v)`: `v->right->left != v` -/
def clipped (v : Nat) : Bool := vs.left (vs.right v) != v

/-- `IsShort(epsilon)`: `dot(edge, edge) * 4 < epsilon * epsilon` -/
def isShort (i : Nat) (eps : α) : Bool :=
  let edge := (vs.pos (vs.right i)).sub (vs.pos i)
  lt (dot edge edge *. four) (eps *. eps)

/-- `Interior(v, epsilon)` -/
def interior (i : Nat) (v : V2 α) (eps : α) : Int :=
  let diff := v.sub (vs.pos i)
  if lt (dot diff diff) (eps *. eps) then 0
  else ccw (vs.pos i) (vs.pos (vs.left i)) (vs.pos (vs.right i)) eps
     + ccw (vs.pos i) (vs.pos (vs.right i)) v eps + ccw (vs.pos i) v (vs.pos (vs.left i)) eps

/-- the loop of `InsideEdge`; `stopL = toLeft ? right : left` of the calling vertex.
`none`: fuel exhausted (never for fuel `2 n + 2` on well-formed rings). -/
def insideLoop (eps : α) (toLeft : Bool) (tail stopL : Nat) :
    Nat → Nat → Nat → Nat → Nat → Option Bool
  | 0, _, _, _, _ => none
  | fuel + 1, nextL, nextR, center, last =>
    if !(nextL != nextR && tail != nextR && nextL != stopL) then some true
    else
      let p2 := eps *. eps
      let stepL := if toLeft then vs.left nextL else vs.right nextL
      let edgeL := (vs.pos nextL).sub (vs.pos center)
      let l2 := dot edgeL edgeL
      if le l2 p2 then insideLoop eps toLeft tail stopL fuel stepL nextR center last
      else
        let edgeR := (vs.pos nextR).sub (vs.pos center)
        let r2 := dot edgeR edgeR
        if le r2 p2 then insideLoop eps toLeft tail stopL fuel nextL (vs.right nextR) center last
        else
          let vecLR := (vs.pos nextR).sub (vs.pos nextL)
          let lr2 := dot vecLR vecLR
          if le lr2 p2 then
            -- last = center; center = nextL; nextL = step; if (nextL == nextR) break; nextR = nextR->right
            if stepL == nextR then some true
            else insideLoop eps toLeft tail stopL fuel stepL (vs.right nextR) nextL center
          else
            let c0 := ccw (vs.pos nextL) (vs.pos center) (vs.pos nextR) eps
            let convexity :=
              if center != last then
                c0 + (ccw (vs.pos last) (vs.pos center) (vs.pos nextL) eps
                      + ccw (vs.pos nextR) (vs.pos center) (vs.pos last) eps)
              else c0
            if convexity != 0 then some (decide (convexity > 0))
            else if lt l2 r2 then insideLoop eps toLeft tail stopL fuel stepL nextR nextL nextL
            else insideLoop eps toLeft tail stopL fuel nextL (vs.right nextR) nextR nextR

/-- `this->InsideEdge(tail, epsilon, toLeft)`: `nextL = left->right; nextR = tail->right;
center = last = tail` -/
def insideEdge (self tail : Nat) (eps : α) (toLeft : Bool) : Option Bool :=
  insideLoop vs eps toLeft tail (if toLeft then vs.right self else vs.left self)
    (2 * vs.n + 2) (vs.right (vs.left self)) (vs.right tail) tail tail

/-- `Vert::IsConvex(epsilon)`: `CCW(left->pos, pos, right->pos, epsilon) >= 0` -/
def vertIsConvex (i : Nat) (eps : α) : Bool :=
  decide (ccw (vs.pos (vs.left i)) (vs.pos i) (vs.pos (vs.right i)) eps ≥ 0)

/-- `IsReflex(epsilon)`: `!left->InsideEdge(left->right, epsilon, true)` -/
def isReflex (i : Nat) (eps : α) : Option Bool :=
  (insideEdge vs (vs.left i) (vs.right (vs.left i)) eps true).map (!·)

/-- the test of `ClipIfDegenerate` (l.667-670) -/
def degenerateEar (i : Nat) (eps : α) : Bool :=
  let l := vs.pos (vs.left i)
  let r := vs.pos (vs.right i)
  isShort vs i eps ||
    (ccw l (vs.pos i) r eps == 0 && lt Scalar.zero (dot (l.sub (vs.pos i)) (r.sub (vs.pos i))))

/-- `InterpY2X(start, onTop, epsilon)` -/
def interpY2X (i : Nat) (start : V2 α) (onTop : Int) (eps : α) : α :=
  let pos := vs.pos i
  let rp := vs.pos (vs.right i)
  if le (abs (pos.y -. start.y)) eps then
    if le rp.y (start.y +. eps) || onTop == 1 then nanV else pos.x
  else if lt pos.y (start.y -. eps) then
    if lt (start.y +. eps) rp.y then
      pos.x +. (start.y -. pos.y) *. (rp.x -. pos.x) /. (rp.y -. pos.y)
    else if lt rp.y (start.y -. eps) || onTop == -1 then nanV
    else rp.x
  else nanV

/-- `SignedDist(v, unit, epsilon)` of vertex `i` -/
def signedDist (i v : Nat) (unit : V2 α) (eps : α) : α :=
  let pos := vs.pos i
  let d := cross unit ((vs.pos v).sub pos)
  if lt (abs d) eps then
    let dR := cross unit ((vs.pos (vs.right v)).sub pos)
    if lt eps (abs dR) then dR
    else
      let dL := cross unit ((vs.pos (vs.left v)).sub pos)
      if lt eps (abs dL) then dL else d
  else d

/-- `Cost(v, openSide, epsilon)` -/
def cost (i v : Nat) (openSide : V2 α) (eps : α) : α :=
  let c := smin (signedDist vs i v (vs.rightDir i) eps) (signedDist vs i v (vs.rightDir (vs.left i)) eps)
  let openCost := cross openSide ((vs.pos v).sub (vs.pos (vs.right i)))
  smin c openCost

/-- `DelaunayCost(diff, scale, epsilon) = -epsilon - scale * dot(diff, diff)` -/
def delaunayCost (diff : V2 α) (scale eps : α) : α := neg eps -. scale *. dot diff diff

/-- `EarCost(epsilon, collider)`; `cands` = the vertices held by the collider (the k-d tree reports
those inside `earBox`; the maximum is independent of the order) -/
def earCost (i : Nat) (eps : α) (cands : List Nat) : α :=
  let lp := vs.pos (vs.left i)
  let rp := vs.pos (vs.right i)
  let pos := vs.pos i
  let openSide0 := lp.sub rp
  let center := V2.smul half (lp.add rp)
  let scale := four /. dot openSide0 openSide0
  let radius := length openSide0 /. two
  let openSide := normalize openSide0
  let totalCost := dot (vs.rightDir (vs.left i)) (vs.rightDir i) -. one -. eps
  if ccw pos lp rp eps == 0 then totalCost
  else
    let box0 := Rect.of ⟨center.x -. radius, center.y -. radius⟩ ⟨center.x +. radius, center.y +. radius⟩
    let box1 := box0.union pos
    let box : Rect α := ⟨⟨box1.min.x -. eps, box1.min.y -. eps⟩, ⟨box1.max.x +. eps, box1.max.y +. eps⟩⟩
    let lid := vs.meshIdx (vs.left i)
    let rid := vs.meshIdx (vs.right i)
    cands.foldl (fun total t =>
      if box.contains (vs.pos t) && !clipped vs t && vs.meshIdx t != vs.meshIdx i && vs.meshIdx t != lid
          && vs.meshIdx t != rid then
        let c := cost vs i t openSide eps
        let c := if lt c (neg eps) then delaunayCost ((vs.pos t).sub center) scale eps else c
        if lt total c then c else total
      else total) totalCost

/-- the un-clipped vertices of the ring through `start` (what `BuildVertCollider`'s `Loop` collects on a
ring of un-clipped vertices), at most `vs.n` of them -/
def ringOf (start : Nat) : List Nat :=
  let rec go : Nat → Nat → List Nat → List Nat
    | 0, _, acc => acc.reverse
    | fuel + 1, v, acc =>
      let acc := v :: acc
      if vs.right v == start then acc.reverse else go fuel (vs.right v) acc
  go vs.n start []

/-! ## key-holing choices -/

/-- `onTop` of `CutKeyhole` (l.760-763) -/
def onTop (startY bmaxY bminY eps : α) : Int :=
  if le (bmaxY -. eps) startY then 1 else if le startY (bminY +. eps) then -1 else 0

/-- the first guess of `FindCloserBridge` (l.807-812): `true` = `edge->right`, `false` = `edge` -/
def bridgeInitial (start e er : V2 α) : Bool :=
  if lt e.x start.x then true
  else if lt er.x start.x then false
  else if lt (start.y -. e.y) (er.y -. start.y) then false
  else true

/-- the geometric part of `CheckVert` (l.819-825) before `InsideEdge`/`IsReflex` are consulted;
`above` is `±1` -/
def bridgeCheckVert (start vert connector : V2 α) (above eps : α) (aboveI : Int) : Bool :=
  let inside := aboveI * ccw start vert connector eps
  lt (start.x -. eps) vert.x && lt (start.y *. above -. eps) (vert.y *. above) &&
    (decide (inside > 0) ||
      (inside == 0 && lt vert.x connector.x && lt (vert.y *. above) (connector.y *. above)))

end Generic2

end MV.PolyGeom
