/-
Copy-on-write storage and lazy materialisation (property C05), core Lean only.

Part 1 — `MV.Cow`: the reference-counted buffer heap behind `Vec<T, true>` (`SharedVec`,
/repo/src/vec.h) as a small-step machine.

  C++ (src/vec.h)                                         event
  ------------------------------------------------------  -----------------------------
  Vec(), Vec(n), Vec(n,v), Vec(VecView), Vec(Vec<T,false>&&),
    operator=(Vec<T,false>…)   `count_ = new atomic<int>(1)`   alloc h n
  operator=(const Vec&)  (shared: `other.count_->fetch_add(1)`;
    the preceding `dealloc()` is a separate `free h'`)          share h h'      (h' := h)
  Vec(const Vec<T,true>&) = `*this = Vec(vec.view())`           clone h h'      (deep copy)
  MakeUnique()  `if (count_->load() > 1) *this = Vec(view())`   makeUnique h
  VecView::operator[] (Halfedges::Set*, MakeInvalid, FromData)  write h i v
  push_back / resize / resize_nofill / clear / reserve / …
    (every `AssertUnique()` site)                               resize h n
  dealloc()  `count_->fetch_sub(1)`; frees when it was the last free h
  Vec(Vec&&), operator=(Vec&&)  (count_ pointer handed over)    move h h'       (h' takes h's buffer)

A handle is a `Vec` object (its address), a buffer is the pair (count_, ptr_).  The reference
count is STORED in the buffer (as in C++) and updated only by share/free/…; that it always
equals the number of live handles is a theorem (`rc_counts_handles`), not a definition.

`step` is total and executes an event whether or not it is allowed (the C++ `AssertUnique`
is compiled out in release builds, so a write to a shared buffer really happens);
`accept` is the monitor: no use after free, no re-initialisation of a live handle, and
write/resize only when the handle's buffer has reference count 1.

Part 2 — `MV.Lazy`: an object that carries a pending transform (CsgLeafNode: pImpl_ +
transform_, src/csg_tree.cpp:97-112; CrossSection: paths_ + transform_ + tolerance_,
src/cross_section.cpp:324-339) and `materialise`.
-/
namespace MV.Cow

/-- handles and buffer ids are natural numbers (notation, so that `omega` sees `Nat`) -/
scoped notation "Handle" => Nat
scoped notation "BufId" => Nat

/-- Association map on `Nat` keys.  `set` removes any older binding of the key, so `get`
after `set`/`del` is function update with no side condition. -/
abbrev AMap (β : Type) := List (Nat × β)

namespace AMap
variable {β : Type}

def get : AMap β → Nat → Option β
  | [], _ => none
  | (k', v) :: t, k => if k' = k then some v else get t k

def del : AMap β → Nat → AMap β
  | [], _ => []
  | (k', v) :: t, k => if k' = k then del t k else (k', v) :: del t k

def set (m : AMap β) (k : Nat) (v : β) : AMap β := (k, v) :: del m k

end AMap

/-- A buffer: the stored reference count (`*count_`) and the contents (`ptr_[0..size_)`). -/
structure Buf where
  rc : Nat
  data : List Int
deriving DecidableEq, Repr

structure State where
  /-- live handles and the buffer each one points at -/
  hmap : AMap BufId := []
  /-- allocated buffers -/
  bufs : AMap Buf := []
  /-- next unused buffer id -/
  next : BufId := 0
deriving Repr

inductive Event where
  | alloc (h : Handle) (n : Nat)
  | share (h h' : Handle)
  | clone (h h' : Handle)
  | makeUnique (h : Handle)
  | write (h : Handle) (i : Nat) (v : Int)
  | resize (h : Handle) (n : Nat)
  | free (h : Handle)
  | move (h h' : Handle)
deriving DecidableEq, Repr

def bufOf (s : State) (h : Handle) : Option BufId := s.hmap.get h
def live (s : State) (h : Handle) : Bool := (s.hmap.get h).isSome
/-- stored reference count of a buffer (0 when not allocated) -/
def rcOf (s : State) (b : BufId) : Nat :=
  match s.bufs.get b with
  | some x => x.rc
  | none => 0
/-- stored reference count of the buffer a handle points at -/
def rcH (s : State) (h : Handle) : Nat :=
  match s.hmap.get h with
  | some b => rcOf s b
  | none => 0
/-- everything that can be read through a handle -/
def observe (s : State) (h : Handle) : Option (List Int) :=
  match s.hmap.get h with
  | none => none
  | some b => (s.bufs.get b).map (·.data)

/-- number of live handles pointing at buffer `b` -/
def refs : AMap BufId → BufId → Nat
  | [], _ => 0
  | (_, v) :: t, b => (if v = b then 1 else 0) + refs t b

/-- the live handles pointing at buffer `b` -/
def handlesOf (s : State) (b : BufId) : List Handle :=
  (s.hmap.filter (fun p => p.2 == b)).map (·.1)

/-! primitive state changes -/

/-- `count_ = new atomic<int>(1)` + a fresh data block -/
def bindNew (s : State) (h : Handle) (d : List Int) : State :=
  { hmap := s.hmap.set h s.next, bufs := s.bufs.set s.next ⟨1, d⟩, next := s.next + 1 }

/-- `other.count_->fetch_add(1); this->count_ = other.count_; this->ptr_ = other.ptr_` -/
def bindShare (s : State) (h : Handle) (b : BufId) : State :=
  match s.bufs.get b with
  | some x => { s with hmap := s.hmap.set h b, bufs := s.bufs.set b { x with rc := x.rc + 1 } }
  | none => s

/-- `dealloc()`: `if (count_->fetch_sub(1) > 1) return; delete count_; free(ptr_)` -/
def release (s : State) (h : Handle) : State :=
  match s.hmap.get h with
  | none => s
  | some b =>
    match s.bufs.get b with
    | none => { s with hmap := s.hmap.del h }
    | some x =>
      if x.rc ≤ 1 then { s with hmap := s.hmap.del h, bufs := s.bufs.del b }
      else { s with hmap := s.hmap.del h, bufs := s.bufs.set b { x with rc := x.rc - 1 } }

/-- in-place change of the contents of the buffer `h` points at (no uniqueness check: the
C++ `AssertUnique` is compiled out) -/
def setData (s : State) (h : Handle) (f : List Int → List Int) : State :=
  match s.hmap.get h with
  | none => s
  | some b =>
    match s.bufs.get b with
    | none => s
    | some x => { s with bufs := s.bufs.set b { x with data := f x.data } }

def resizeList (d : List Int) (n : Nat) : List Int := d.take n ++ List.replicate (n - d.length) 0

def step (s : State) : Event → State
  | .alloc h n => bindNew s h (List.replicate n 0)
  | .share h h' =>
    match s.hmap.get h with
    | some b => bindShare s h' b
    | none => s
  | .clone h h' =>
    match observe s h with
    | some d => bindNew s h' d
    | none => s
  | .makeUnique h =>
    if rcH s h ≤ 1 then s
    else
      match observe s h with
      | some d => bindNew (release s h) h d
      | none => s
  | .write h i v => setData s h (fun d => d.set i v)
  | .resize h n => setData s h (fun d => resizeList d n)
  | .free h => release s h
  | .move h h' =>
    match s.hmap.get h with
    | some b => release (bindShare s h' b) h
    | none => s

/-- The monitor. -/
def accept (s : State) : Event → Bool
  | .alloc h _ => !live s h
  | .share h h' => live s h && !live s h'
  | .clone h h' => live s h && !live s h'
  | .makeUnique h => live s h
  | .write h _ _ => live s h && rcH s h == 1
  | .resize h _ => live s h && rcH s h == 1
  | .free h => live s h
  | .move h h' => live s h && !live s h'

/-- the handles an event acts on (whose observation it may legitimately change) -/
def subjects : Event → List Handle
  | .alloc h _ => [h]
  | .share _ h' => [h']
  | .clone _ h' => [h']
  | .makeUnique h => [h]
  | .write h _ _ => [h]
  | .resize h _ => [h]
  | .free h => [h]
  | .move h h' => [h, h']

def run (s : State) : List Event → State
  | [] => s
  | e :: es => run (step s e) es

def accepted (s : State) : List Event → Bool
  | [] => true
  | e :: es => accept s e && accepted (step s e) es

/-- index of the first rejected event, if any (what the driver reports) -/
def firstReject (s : State) (i : Nat) : List Event → Option Nat
  | [] => none
  | e :: es => if accept s e then firstReject (step s e) (i + 1) es else some i

end MV.Cow

namespace MV.Lazy

/-- An object with a pending transform: `payload` (the shared immutable Impl / PathImpl),
`pending` (transform_), `extra` (a scalar stored next to it, CrossSection::tolerance_). -/
structure Obj (P T E : Type) where
  payload : P
  pending : T
  extra : E
deriving DecidableEq, Repr

/-- How transforms act. `ident` is the identity transform (`transform_ == identity` is the
"already materialised" test in GetImpl / GetPaths). -/
structure Ops (P T E : Type) where
  ident : T
  apply : T → P → P
  rescale : T → E → E

/-- `CsgLeafNode::GetImpl` / `CrossSection::GetPaths`: apply the pending transform to the
payload, rescale the scalar, reset the transform. -/
def materialise {P T E : Type} (o : Ops P T E) (x : Obj P T E) : Obj P T E :=
  { payload := o.apply x.pending x.payload, pending := o.ident, extra := o.rescale x.pending x.extra }

/-- what the object means, independent of representation -/
def denote {P T E : Type} (o : Ops P T E) (x : Obj P T E) : P × E :=
  (o.apply x.pending x.payload, o.rescale x.pending x.extra)

def materialiseN {P T E : Type} (o : Ops P T E) : Nat → Obj P T E → Obj P T E
  | 0, x => x
  | n + 1, x => materialiseN o n (materialise o x)

end MV.Lazy
