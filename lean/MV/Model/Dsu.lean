/-
Small-step model of the lock-free union-find `DisjointSets` of /repo/src/disjoint_sets.h.
Core Lean only (the driver links against this file).

Memory.  `mData[i]` is the 64-bit word `rank << 32 | parent`.  The model keeps the two
halves as two `Nat`s (`Word.rank`, `Word.parent`); `Word.pack w = rank * 2^32 + parent` is the
C++ word (the driver prints packed words).  The model is faithful as long as
`n ≤ 2^32 - 1` (the constructor's assert) and every rank stays below `2^31` (`rank()` masks
with `0x7FFFFFFF`; ranks are at most `log2 n`, the model does not re-prove that bound).

Granularity.  ONE `step` = ONE atomic memory operation of the C++ code, executed by one
thread.  Every implicit `mData[x]` read (`parent(id)`, `rank(id)`, `uint64_t value =
mData[id]`) is one `load` step, every `compare_exchange_*` is one `cas` step.  All local
(non-atomic) computation is folded into the atomic step that precedes it, so every program
counter means "about to perform atomic operation X" and a finished operation leaves the
thread positioned on the first atomic operation of its next `Op`.  A schedule is a list of
`(tid, spurious)`; `spurious = true` makes a `compare_exchange_weak` fail without comparing
(it is only meaningful on the `fCas` step; `step` ignores it elsewhere and the driver rejects
it there).  Atomics are sequentially consistent (weak memory is out of scope).

C++ line  →  program counter (`PC`) / log kind            (lines of disjoint_sets.h)
  findImpl  `while (id != parent(id))`          l.125  →  fLoadP   load  mData[id]
  findImpl  `uint64_t value = mData[id]`        l.126  →  fLoadV   load  mData[id]
  findImpl  `parent((uint32_t)value)`           l.127  →  fLoadNP  load  mData[(uint32)value]
  findImpl  `compare_exchange_weak(value,new)`  l.130  →  fCas     cas   mData[id]   (only if value != new_value)
  unite     `r1 = rank(id1)`                    l.64   →  uRank1   load  mData[id1]
  unite     `r2 = rank(id2)`                    l.64   →  uRank2   load  mData[id2]
  unite     link `compare_exchange_strong`      l.74   →  uLink    cas   mData[id1]  (after the swap)
  unite     rank `compare_exchange_strong`      l.80   →  uRankCas cas   mData[id2]  (only if r1 == r2)
  same      `parent(id1) == id1`                l.52   →  sLoadP   load  mData[id1]

Ghost state (never read by `step`, used only by the proofs): `State.links` (the pairs of the
successful link CASes) and `Thr.trail` (previous values of `findImpl`'s `id` in the current
call).

Validation: shim/dsu_shim.cpp runs the real `DisjointSets` code on real threads under a
controlled-atomics shim (every atomic access is a yield point, a random scheduler picks the
next thread and decides spurious weak-CAS failures); the per-step log, final memory, return
values and `connectedComponents` output agree with this model on every run tried
(shim/runtests.sh).
-/
namespace MV.Dsu

/-! ## memory -/

/-- one `std::atomic<uint64_t>`: high half `rank`, low half `parent` -/
structure Word where
  rank : Nat
  parent : Nat
deriving DecidableEq, Repr, Inhabited

/-- the C++ word `rank << 32 | parent` -/
def Word.pack (w : Word) : Nat := w.rank * 2 ^ 32 + w.parent

abbrev Mem := List Word

/-- atomic load of `mData[i]` -/
def rd (m : Mem) (i : Nat) : Word := m.getD i ⟨0, 0⟩
/-- atomic store into `mData[i]` (only ever performed by a successful CAS) -/
def wr (m : Mem) (i : Nat) (w : Word) : Mem := m.set i w

/-- `DisjointSets(size)`: `mData[i] = i`, i.e. rank 0, parent i -/
def initMem (n : Nat) : Mem := (List.range n).map fun i => ⟨0, i⟩

/-! ## programs and thread-local state -/

inductive Op where
  | unite (a b : Nat)
  | find (a : Nat)
  | same (a b : Nat)
deriving DecidableEq, Repr, Inhabited

/-- who called `findImpl` (the continuation after it returns) -/
inductive K where
  | find    -- `find(id)`
  | unite1  -- `id1 = findImpl(id1)` in unite
  | unite2  -- `id2 = findImpl(id2)` in unite
  | same1   -- `id1 = findImpl(id1)` in same
  | same2   -- `id2 = findImpl(id2)` in same
deriving DecidableEq, Repr, Inhabited

/-- program counter: the atomic operation the thread performs next -/
inductive PC where
  | fLoadP | fLoadV | fLoadNP | fCas
  | uRank1 | uRank2 | uLink | uRankCas
  | sLoadP
deriving DecidableEq, Repr, Inhabited

structure Thr where
  /-- the whole program (never modified) -/
  prog : List Op
  /-- index of the operation being executed; `opIdx ≥ prog.length` = finished -/
  opIdx : Nat := 0
  pc : PC := .fLoadP
  k : K := .find
  /-- `findImpl`'s `id` -/
  id : Nat := 0
  id1 : Nat := 0
  id2 : Nat := 0
  r1 : Nat := 0
  r2 : Nat := 0
  /-- `findImpl`'s `value` -/
  value : Word := ⟨0, 0⟩
  /-- `findImpl`'s `new_parent` -/
  np : Nat := 0
  /-- return values of the completed operations, in program order (`same`: 1 = true) -/
  results : List Nat := []
  /-- GHOST (never read): the values `findImpl`'s `id` has held before the current one in the
  current `findImpl` call, newest first; its length = number of loop iterations done -/
  trail : List Nat := []
deriving Repr, Inhabited

def Thr.curOp (t : Thr) : Option Op := t.prog[t.opIdx]?

def Thr.finished (t : Thr) : Bool := t.curOp.isNone

/-- position the thread on the first atomic operation of `prog[opIdx]` (all three public
entry points start with `findImpl(id1)`, whose first action is the load in its loop test) -/
def Thr.startOp (t : Thr) : Thr :=
  match t.curOp with
  | none => t
  | some (.unite a b) =>
    { t with pc := .fLoadP, k := .unite1, id := a, id1 := a, id2 := b, trail := [] }
  | some (.find a) => { t with pc := .fLoadP, k := .find, id := a, id1 := a, trail := [] }
  | some (.same a b) =>
    { t with pc := .fLoadP, k := .same1, id := a, id1 := a, id2 := b, trail := [] }

/-- the current operation returns `ret` -/
def Thr.finishOp (t : Thr) (ret : Nat) : Thr :=
  Thr.startOp { t with opIdx := t.opIdx + 1, results := t.results ++ [ret] }

/-- `findImpl` returns `r` to its caller -/
def Thr.findRet (t : Thr) (r : Nat) : Thr :=
  match t.k with
  | .find => t.finishOp r
  | .unite1 => { t with id1 := r, id := t.id2, k := .unite2, pc := .fLoadP, trail := [] }
  | .unite2 =>
    -- `if (id1 == id2) return id1;` else fall through to `rank(id1)`
    if t.id1 = r then { t with id2 := r }.finishOp t.id1 else { t with id2 := r, pc := .uRank1 }
  | .same1 => { t with id1 := r, id := t.id2, k := .same2, pc := .fLoadP, trail := [] }
  | .same2 =>
    -- `if (id1 == id2) return true;` else `parent(id1) == id1`
    if t.id1 = r then { t with id2 := r }.finishOp 1 else { t with id2 := r, pc := .sLoadP }

/-- `continue` in unite's `for(;;)` (with the possibly swapped `id1`,`id2`) -/
def Thr.uniteRetry (t : Thr) : Thr :=
  { t with pc := .fLoadP, k := .unite1, id := t.id1, trail := [] }

/-! ## the atomic operation at each program counter -/

inductive MemOp where
  | load (i : Nat)
  | cas (i : Nat) (exp des : Word) (weak : Bool)
deriving Repr

def Thr.memOp (t : Thr) : MemOp :=
  match t.pc with
  | .fLoadP => .load t.id
  | .fLoadV => .load t.id
  | .fLoadNP => .load t.value.parent
  | .fCas => .cas t.id t.value ⟨t.value.rank, t.np⟩ true
  | .uRank1 => .load t.id1
  | .uRank2 => .load t.id2
  | .uLink => .cas t.id1 ⟨t.r1, t.id1⟩ ⟨t.r1, t.id2⟩ false
  | .uRankCas => .cas t.id2 ⟨t.r2, t.id2⟩ ⟨t.r2 + 1, t.id2⟩ false
  | .sLoadP => .load t.id1

/-- local continuation after the atomic operation: `w` = word read by a load, `ok` = CAS success -/
def Thr.next (t : Thr) (w : Word) (ok : Bool) : Thr :=
  match t.pc with
  | .fLoadP =>
    -- `while (id != parent(id))`
    if w.parent = t.id then t.findRet t.id else { t with pc := .fLoadV }
  | .fLoadV => { t with value := w, pc := .fLoadNP }
  | .fLoadNP =>
    -- `new_parent = parent(value)`; `new_value = (value & hi) | new_parent`;
    -- `if (value != new_value) CAS`; otherwise `id = new_parent` and loop
    if w.parent = t.value.parent then
      { t with np := w.parent, id := w.parent, pc := .fLoadP, trail := t.id :: t.trail }
    else { t with np := w.parent, pc := .fCas }
  | .fCas =>   -- result ignored ("may fail, that's ok")
    { t with id := t.np, pc := .fLoadP, trail := t.id :: t.trail }
  | .uRank1 => { t with r1 := w.rank, pc := .uRank2 }
  | .uRank2 =>
    let r1 := t.r1
    let r2 := w.rank
    -- `if (r1 > r2 || (r1 == r2 && id1 < id2)) swap`
    if r1 > r2 ∨ (r1 = r2 ∧ t.id1 < t.id2) then
      { t with r1 := r2, r2 := r1, id1 := t.id2, id2 := t.id1, pc := .uLink }
    else { t with r2 := r2, pc := .uLink }
  | .uLink =>
    if ok then
      if t.r1 = t.r2 then { t with pc := .uRankCas } else t.finishOp t.id2
    else t.uniteRetry
  | .uRankCas =>
    -- `if (!CAS && r2 == 0) continue; ... break; return id2`
    if ok = false ∧ t.r2 = 0 then t.uniteRetry else t.finishOp t.id2
  | .sLoadP =>
    -- `if (parent(id1) == id1) return false;` else loop
    if w.parent = t.id1 then t.finishOp 0
    else { t with pc := .fLoadP, k := .same1, id := t.id1, trail := [] }

/-! ## global state and steps -/

structure State where
  mem : Mem
  thr : List Thr
  /-- GHOST (never read by `step`): the `(id1, id2)` of every successful link CAS, newest first -/
  links : List (Nat × Nat) := []
deriving Repr, Inhabited

inductive Kind where
  | load | cas | idle
deriving DecidableEq, Repr, Inhabited

/-- what the controlled-atomics shim logs for one atomic operation.
`load`: `val` = packed word read.  `cas`: `exp`,`des` = packed expected/desired words,
`val` = 1 if the CAS succeeded else 0.  `idle`: the thread does not exist or has finished. -/
structure StepLog where
  tid : Nat
  kind : Kind
  idx : Nat := 0
  val : Nat := 0
  exp : Nat := 0
  des : Nat := 0
  /-- the step was a `compare_exchange_weak` (the only place `spurious` is meaningful) -/
  weak : Bool := false
deriving DecidableEq, Repr, Inhabited

def init (n : Nat) (progs : List (List Op)) : State :=
  { mem := initMem n, thr := progs.map fun p => Thr.startOp { prog := p } }

def step (s : State) (tid : Nat) (spurious : Bool) : State × StepLog :=
  match s.thr[tid]? with
  | none => (s, { tid, kind := .idle })
  | some t =>
    if t.finished then (s, { tid, kind := .idle }) else
    match t.memOp with
    | .load i =>
      let w := rd s.mem i
      ({ s with thr := s.thr.set tid (t.next w false) },
       { tid, kind := .load, idx := i, val := w.pack })
    | .cas i exp des weak =>
      let ok : Bool := !(weak && spurious) && decide (rd s.mem i = exp)
      let mem := if ok then wr s.mem i des else s.mem
      let links := if ok = true ∧ t.pc = .uLink then (t.id1, t.id2) :: s.links else s.links
      ({ mem, thr := s.thr.set tid (t.next (rd s.mem i) ok), links },
       { tid, kind := .cas, idx := i, val := if ok then 1 else 0, exp := exp.pack, des := des.pack,
         weak })

def run (s : State) : List (Nat × Bool) → State × List StepLog
  | [] => (s, [])
  | (tid, sp) :: rest =>
    let (s1, l) := step s tid sp
    let (s2, ls) := run s1 rest
    (s2, l :: ls)

/-- the state after a schedule (what the theorems talk about) -/
def exec (s : State) : List (Nat × Bool) → State
  | [] => s
  | (tid, sp) :: rest => exec (step s tid sp).1 rest

def quiescent (s : State) : Bool := s.thr.all Thr.finished

/-- all `unite` argument pairs of a program -/
def unitePairs (p : List Op) : List (Nat × Nat) :=
  p.filterMap fun | .unite a b => some (a, b) | _ => none

/-! ## sequential reference: the partition as a canonical labelling -/

/-- merge the classes of `a` and `b` in a labelling (label = least element of the class) -/
def mergeLab (lab : List Nat) (a b : Nat) : List Nat :=
  let la := lab.getD a a
  let lb := lab.getD b b
  let lo := min la lb
  let hi := max la lb
  lab.map fun l => if l = hi then lo else l

/-- label of `i` = least element of the class of `i` in the equivalence closure of `pairs` on `0..n-1` -/
def seqPartition (n : Nat) (pairs : List (Nat × Nat)) : List Nat :=
  pairs.foldl (fun lab p => mergeLab lab p.1 p.2) (List.range n)

/-! ## `connectedComponents` (sequential, run at quiescence) -/

/-- `findImpl` run by a single thread with no interference (the weak CAS is taken to
succeed whenever the comparison does; a spurious failure would only skip one path-halving
write).  `fuel` bounds the loop; `mem.length` always suffices (`findSeq_fuel`, in the proofs). -/
def findSeq : Nat → Mem → Nat → Mem × Nat
  | 0, m, id => (m, id)
  | fuel + 1, m, id =>
    if (rd m id).parent = id then (m, id) else
    let value := rd m id
    let np := (rd m value.parent).parent
    let nv : Word := ⟨value.rank, np⟩
    let m' := if value ≠ nv then (if rd m id = value then wr m id nv else m) else m
    findSeq fuel m' np

structure CC where
  mem : Mem
  /-- `std::unordered_map<uint32_t,int> toLabel` as an association list (only find/insert/size are used) -/
  toLabel : List (Nat × Nat) := []
  lonely : Nat := 0
  /-- `components[0..i)` -/
  comps : List Nat := []
deriving Repr, Inhabited

/-- one iteration of the `for` loop of `connectedComponents` -/
def ccStep (st : CC) (i : Nat) : CC :=
  let (m, r) := findSeq st.mem.length st.mem i
  -- `if (rank(iParent) == 0)`: singleton shortcut, no hashmap
  if (rd m r).rank = 0 then
    { st with mem := m, comps := st.comps ++ [st.toLabel.length + st.lonely], lonely := st.lonely + 1 }
  else
    match st.toLabel.lookup r with
    | none =>
      let s := st.toLabel.length + st.lonely
      { st with mem := m, toLabel := (r, s) :: st.toLabel, comps := st.comps ++ [s] }
    | some l => { st with mem := m, comps := st.comps ++ [l] }

def ccRun (m : Mem) : CC := (List.range m.length).foldl ccStep { mem := m }

/-- `connectedComponents(components)`: (return value, `components`) -/
def connectedComponents (m : Mem) : Nat × List Nat :=
  let st := ccRun m
  (st.toLabel.length + st.lonely, st.comps)

end MV.Dsu
