import MV.Model.Partition
/-
Executable validity checker for a cached subdivision pattern (`Partition` of
src/subdivision.cpp).  Core Lean only: the driver runs it on every pattern the harness
enumerates, the table theorems of `MV/Props/C19.lean` run it in the kernel, and
`MV/Proof/PartitionCheck.lean` proves that `checkPart … = true` implies the `Prop`-level
statement `PatternValid`.

Sets of directed edges / vertices are bit masks in a `Nat` (linear cost, kernel-accelerated
`Nat` operations); the directed edge `(a, b)` over `nV` vertices has the code `a * nV + b`.
-/
namespace MV.Partition

def triList (t : Tri) : List Int := [t.1, t.2.1, t.2.2]

/-- The three directed edges of every triangle, in triangle order. -/
def dirEdges (ts : List Tri) : List (Int × Int) :=
  ts.flatMap fun t => [(t.1, t.2.1), (t.2.1, t.2.2), (t.2.2, t.1)]

/-- Number of corners of the pattern: `n[3] > 0` is a quad. -/
def numCorners (n : I4) : Nat := if n.d > 0 then 4 else 3

/-- First vertex index of the added vertices of canonical edge `i` (`edgeOffsets[i]` of
subdivision.cpp:157-162 / 182). -/
def canonEdgeOffset (n : I4) (i : Nat) : Int :=
  Int.ofNat (numCorners n) + ((List.range i).map fun m => n.get m - 1).foldl (· + ·) 0

/-- The outer boundary of the canonical pattern in order: corner `i`, then the `n[i] - 1` added
vertices of edge `i` (which runs from corner `i` to corner `i+1`). -/
def boundaryCycle (n : I4) : List Int :=
  (List.range (numCorners n)).flatMap fun i =>
    Int.ofNat i :: (List.range ((n.get i).toNat - 1)).map fun j => canonEdgeOffset n i + Int.ofNat j

/-- Consecutive pairs of a cycle (last wraps to first). -/
def cycleEdges (l : List Int) : List (Int × Int) :=
  match l with
  | [] => []
  | x :: xs => List.zip l (xs ++ [x])

def edgeCode (nV : Nat) (e : Int × Int) : Nat := e.1.toNat * nV + e.2.toNat

def insStep (acc : Option Nat) (c : Nat) : Option Nat :=
  match acc with
  | none => none
  | some m => if m.testBit c then none else some (m ||| (1 <<< c))

/-- Inserts the codes one by one; `none` as soon as one is already present. -/
def insertAll (codes : List Nat) (m0 : Nat) : Option Nat := codes.foldl insStep (some m0)

def maskOf (codes : List Nat) : Nat := codes.foldl (fun m c => m ||| (1 <<< c)) 0

def inRangeTri (nV : Nat) (t : Tri) : Bool :=
  decide (0 ≤ t.1) && decide (t.1 < Int.ofNat nV) && decide (0 ≤ t.2.1) && decide (t.2.1 < Int.ofNat nV) &&
  decide (0 ≤ t.2.2) && decide (t.2.2 < Int.ofNat nV)

def nondegTri (t : Tri) : Bool := t.1 != t.2.1 && t.2.1 != t.2.2 && t.2.2 != t.1

/-- The combinatorial half of the checker. -/
def checkTopo (n : I4) (nV : Nat) (ts : List Tri) : Bool :=
  let bc := boundaryCycle n
  ts.all (inRangeTri nV) && ts.all nondegTri && bc.all (fun v => decide (0 ≤ v) && decide (v < Int.ofNat nV)) &&
  (match insertAll ((dirEdges ts).map (edgeCode nV)) 0 with
   | none => false
   | some m =>
     let be := cycleEdges bc
     let bm := maskOf (be.map (edgeCode nV))
     -- every boundary edge is a triangle edge and its reverse is not
     be.all (fun e => m.testBit (edgeCode nV e) && !m.testBit (edgeCode nV (e.2, e.1))) &&
     -- every other directed edge has its reverse
     (dirEdges ts).all (fun e => bm.testBit (edgeCode nV e) || m.testBit (edgeCode nV (e.2, e.1)))) &&
  -- every vertex is referenced
  (maskOf ((dirEdges ts).map fun e => e.1.toNat) == 2 ^ nV - 1) &&
  -- Euler characteristic of a disk, in the form F + b + 2 = 2 V
  (ts.length + bc.length + 2 == 2 * nV)

/-! Geometry: barycentric coordinates evaluated exactly. -/

/-- Planar coordinates of a barycentric 4-vector: for a triangle `(y, z)` (corner 0 ↦ (0,0),
1 ↦ (1,0), 2 ↦ (0,1)), for a quad the unit square `(y + z, z + w)`
(0 ↦ (0,0), 1 ↦ (1,0), 2 ↦ (1,1), 3 ↦ (0,1)). -/
def planar (quad : Bool) (b : V4 Rat) : Rat × Rat :=
  if quad then (b.y + b.z, b.z + b.w) else (b.y, b.z)

/-- Twice the signed area of the triangle `p q r`. -/
def cross2 (p q r : Rat × Rat) : Rat :=
  (q.1 - p.1) * (r.2 - p.2) - (q.2 - p.2) * (r.1 - p.1)

def zero4 : V4 Rat := ⟨0, 0, 0, 0⟩

def triArea2 (quad : Bool) (bary : List (V4 Rat)) (t : Tri) : Rat :=
  cross2 (planar quad (bary.getD t.1.toNat zero4)) (planar quad (bary.getD t.2.1.toNat zero4))
    (planar quad (bary.getD t.2.2.toNat zero4))

def convex4 (b : V4 Rat) : Bool :=
  decide (0 ≤ b.x) && decide (0 ≤ b.y) && decide (0 ≤ b.z) && decide (0 ≤ b.w) && decide (b.x + b.y + b.z + b.w = 1)

/-- The exact position of the `j`-th added vertex (`j = 0 …`) of canonical edge `i`. -/
def edgePoint (k : Nat) (i j : Nat) (n : Int) : V4 Rat :=
  let t : Rat := ((j + 1 : Nat) : Rat) / ((n.toNat : Nat) : Rat)
  let a : V4 Rat := unit4 i
  let b : V4 Rat := unit4 ((i + 1) % k)
  ⟨a.x * (1 - t) + b.x * t, a.y * (1 - t) + b.y * t, a.z * (1 - t) + b.z * t, a.w * (1 - t) + b.w * t⟩

def checkBoundaryPos (n : I4) (bary : List (V4 Rat)) : Bool :=
  let k := numCorners n
  (List.range k).all fun i =>
    decide (bary.getD i zero4 = unit4 i) &&
    (List.range ((n.get i).toNat - 1)).all fun j =>
      decide (bary.getD (canonEdgeOffset n i + Int.ofNat j).toNat zero4 = edgePoint k i j (n.get i))

/-- The geometric half: every barycentric vector is a convex combination, boundary vertices sit at
the exact fractions of their edge, every sub-triangle is positively oriented and the signed
areas add up to the area of the whole triangle (2·area = 1) or unit square (2·area = 2). -/
def checkGeom (n : I4) (nV : Nat) (ts : List Tri) (bary : List (V4 Rat)) : Bool :=
  let quad := decide (n.d > 0)
  decide (bary.length = nV) && bary.all convex4 && checkBoundaryPos n bary &&
  ts.all (fun t => decide (0 < triArea2 quad bary t)) &&
  decide ((ts.map (triArea2 quad bary)).foldl (· + ·) 0 = if quad then 2 else 1)

/-- The whole checker for a cached partition. -/
def checkPart (p : Part) : Bool :=
  p.ok && checkTopo p.sorted p.nV p.tris && checkGeom p.sorted p.nV p.tris (evalBary (α := Rat) p.recs)

/-- Reason string for the driver (first failing clause). -/
def checkPartMsg (p : Part) : String :=
  if !p.ok then "bad fuel"
  else if !checkTopo p.sorted p.nV p.tris then "bad topo"
  else if !checkGeom p.sorted p.nV p.tris (evalBary (α := Rat) p.recs) then "bad geom"
  else "ok"

/-! Table enumeration helpers (used by the `decide` theorems). -/

/-- All sorted triples `N ≥ n0 ≥ n1 ≥ n2 ≥ 1` as `I4` with `d = 0`. -/
def sortedTriples (N : Nat) : List I4 :=
  (List.range N).flatMap fun a => (List.range (a + 1)).flatMap fun b => (List.range (b + 1)).map fun c =>
    (⟨Int.ofNat (a + 1), Int.ofNat (b + 1), Int.ofNat (c + 1), 0⟩ : I4)

/-- Sorted triples with `lo < n0 ≤ hi`. -/
def sortedTriplesFrom (lo hi : Nat) : List I4 :=
  (sortedTriples hi).filter fun n => decide (Int.ofNat lo < n.a)

/-- The checker on the cached partition with the integer-exact decisions. -/
def checkCached (n : I4) : Bool := checkPart (getCachedPartition Dec.exact n)

/-- All quadruples with entries in `1..N`. -/
def allQuads (N : Nat) : List I4 :=
  (List.range N).flatMap fun a => (List.range N).flatMap fun b => (List.range N).flatMap fun c =>
    (List.range N).map fun d => (⟨Int.ofNat (a + 1), Int.ofNat (b + 1), Int.ofNat (c + 1), Int.ofNat (d + 1)⟩ : I4)

/-- All triples with entries in `1..N` (unsorted), `d = 0`. -/
def allTriples (N : Nat) : List I4 :=
  (List.range N).flatMap fun a => (List.range N).flatMap fun b => (List.range N).map fun c =>
    (⟨Int.ofNat (a + 1), Int.ofNat (b + 1), Int.ofNat (c + 1), 0⟩ : I4)

/-- Quadruples that `GetPartition`'s rotation leaves alone (the cache keys of quads). -/
def canonQuads (N : Nat) : List I4 := (allQuads N).filter fun d => decide ((sortDivisions d).1 = d)

end MV.Partition
