/-
Model for property C18 (measurements and queries agree with their brute-force definitions).
Core Lean only; everything here is executable and linked into `mvdriver`.

Written ONCE over the `Scalar` interface of `MV/Model/Bool3.lean` (plus the handful of literal
constants the measured code uses, class `MConst`, and an explicit `sqrt` argument), line for line
from the C++.  `Float` is the instance the driver runs (bit-for-bit against the real library);
`MV/Props/C18.lean` instantiates the same definitions at an ordered field.

  dot / cross / length        include/manifold/linalg.h:1610-1634 (`sum` folds from `T(0)`)
  triVolume, triArea, kahan,
  getProperty                 `Manifold::Impl::GetProperty`, src/properties.cpp:303-332
  bbMin, bbMax, stdReduce,
  calcBBox                    `Manifold::Impl::CalculateBBox`, src/properties.cpp:397-411, with the
                              4-way unrolled loop of libstdc++'s `std::reduce` (bits/stl_numeric.h)
  edgeEdgeDist, triTriDist2   `EdgeEdgeDist`, `DistanceTriangleTriangleSquared`, src/tri_dist.h
  faceBox, inflate,
  minGapOver, minGapAll       `Manifold::Impl::MinGap` + `MinDistanceRecorder`, src/properties.cpp:451-504
  rayMesh, rayHit, rayCast    `Manifold::Impl::RayCast`, src/boolean3.cpp:592-654
  pointWinding                `Manifold::Impl::PointWinding`, src/boolean3.cpp:553-590
  slice                       `Manifold::Impl::Slice`, src/face_op.cpp:372-431
  decompose                   `Manifold::Decompose`, src/constructors.cpp:461-517 (labelling part),
                              on top of the `DisjointSets` model `MV/Model/Dsu.lean`
  genus                       `Manifold::Genus`, src/manifold.cpp:442-445 (= `MV.Mesh.eulerGenus`)
-/
import MV.Model.Bool3
import MV.Model.Dsu
import MV.Model.Mesh

namespace MV.Measure
open MV.Bool3

/-- the literal constants of the measured code: `1.0`, `2.0`, `6.0`, `1e-15`,
`std::numeric_limits<double>::max()`, `std::numeric_limits<double>::infinity()` -/
class MConst (α : Type) where
  one : α
  two : α
  six : α
  tiny : α
  big : α
  inf : α

instance : MConst Float where
  one := 1.0
  two := 2.0
  six := 6.0
  tiny := 1e-15
  big := Float.ofBits 0x7FEFFFFFFFFFFFFF
  inf := Float.ofBits 0x7FF0000000000000

section Poly
variable {α : Type} [Scalar α]
open Scalar

local infixl:65 " +. " => Scalar.add
local infixl:65 " -. " => Scalar.sub
local infixl:70 " *. " => Scalar.mul
local infixl:70 " /. " => Scalar.div

/-- C++ `a <= b` -/
def le (a b : α) : Bool := lt a b || beq a b
/-- `std::isnan(a)`, i.e. `a != a` -/
def isNaN (a : α) : Bool := !beq a a
/-- `la::min(a, b) = a < b ? a : b` (linalg.h:437) -/
def laMin (a b : α) : α := if lt a b then a else b
/-- `la::max(a, b) = a < b ? b : a` (linalg.h:444) -/
def laMax (a b : α) : α := if lt a b then b else a
/-- `std::min(a, b) = b < a ? b : a` -/
def stdMin (a b : α) : α := if lt b a then b else a
/-- `std::max(a, b) = a < b ? b : a` -/
def stdMax (a b : α) : α := if lt a b then b else a
/-- `la::clamp(a, b, c) = a < b ? b : a < c ? a : c` (linalg.h:451) -/
def clamp (a b c : α) : α := if lt a b then b else if lt a c then a else c

/-- `la::dot(a, b) = sum(a * b) = ((T(0) + a.x*b.x) + a.y*b.y) + a.z*b.z` -/
def dot (a b : V3 α) : α := ((Scalar.zero +. a.x *. b.x) +. a.y *. b.y) +. a.z *. b.z
/-- `la::cross` (linalg.h:1610) -/
def cross (a b : V3 α) : V3 α :=
  ⟨a.y *. b.z -. a.z *. b.y, a.z *. b.x -. a.x *. b.z, a.x *. b.y -. a.y *. b.x⟩
def vadd (a b : V3 α) : V3 α := ⟨a.x +. b.x, a.y +. b.y, a.z +. b.z⟩
def vsub (a b : V3 α) : V3 α := V3.sub a b
/-- `vec3 * double` -/
def vscale (a : V3 α) (t : α) : V3 α := ⟨a.x *. t, a.y *. t, a.z *. t⟩
/-- `vec3 / double` -/
def vdiv (a : V3 α) (t : α) : V3 α := ⟨a.x /. t, a.y /. t, a.z /. t⟩

/-- `vertPos_[halfedge_.Start(3 * tri + i)]` -/
def corner (m : KMesh α) (tri i : Nat) : V3 α := m.pos (m.startOf (3 * tri + i))

/-! ## Volume, SurfaceArea (properties.cpp:303-332) -/

variable [MConst α]

/-- the lambda `Volume` (l.307-312): `dot(cross(v1 - v, v2 - v), v) / 6.0` -/
def triVolume (m : KMesh α) (tri : Nat) : α :=
  let v := corner m tri 0
  let crossP := cross (vsub (corner m tri 1) v) (vsub (corner m tri 2) v)
  dot crossP v /. MConst.six

/-- the lambda `Area` (l.314-319): `length(cross(v1 - v, v2 - v)) / 2.0` -/
def triArea (sqrt : α → α) (m : KMesh α) (tri : Nat) : α :=
  let v := corner m tri 0
  let c := cross (vsub (corner m tri 1) v) (vsub (corner m tri 2) v)
  sqrt (dot c c) /. MConst.two

/-- one iteration of the Kahan loop (l.325-328) on the state `(value, valueCompensation)` -/
def kahanStep (st : α × α) (value1 : α) : α × α :=
  let t := st.1 +. value1
  (t, st.2 +. ((st.1 -. t) +. value1))

/-- the Kahan loop and the final `value += valueCompensation` (l.322-331) -/
def kahan (xs : List α) : α :=
  let st := xs.foldl kahanStep (Scalar.zero, Scalar.zero)
  st.1 +. st.2

def numTri (m : KMesh α) : Nat := m.faceNormal.size

/-- `GetProperty(Property::Volume)`; `IsEmpty()` is `NumTri() == 0` -/
def volume (m : KMesh α) : α :=
  if numTri m == 0 then Scalar.zero else kahan ((List.range (numTri m)).map (triVolume m))

/-- `GetProperty(Property::SurfaceArea)` -/
def surfaceArea (sqrt : α → α) (m : KMesh α) : α :=
  if numTri m == 0 then Scalar.zero else kahan ((List.range (numTri m)).map (triArea sqrt m))

/-! ## CalculateBBox (properties.cpp:397-411) -/

/-- the first lambda: `if (isnan(a.x)) return b; if (isnan(b.x)) return a; return la::min(a, b);` -/
def bbMin (a b : V3 α) : V3 α :=
  if isNaN a.x then b else if isNaN b.x then a else ⟨laMin a.x b.x, laMin a.y b.y, laMin a.z b.z⟩

/-- the second lambda, with `la::max` -/
def bbMax (a b : V3 α) : V3 α :=
  if isNaN a.x then b else if isNaN b.x then a else ⟨laMax a.x b.x, laMax a.y b.y, laMax a.z b.z⟩

/-- libstdc++ `std::reduce(first, last, init, op)` on random-access iterators: four elements
at a time, `init = op(init, op(op(x0, x1), op(x2, x3)))`, then the rest one by one. -/
def stdReduce {β : Type} (op : β → β → β) : β → List β → β
  | init, x0 :: x1 :: x2 :: x3 :: rest => stdReduce op (op init (op (op x0 x1) (op x2 x3))) rest
  | init, rest => rest.foldl op init

/-- `bBox_.min`, `bBox_.max` as computed by the serial build -/
def calcBBox (verts : List (V3 α)) : V3 α × V3 α :=
  let i : α := MConst.inf
  let ni : α := neg i
  (stdReduce bbMin ⟨i, i, i⟩ verts, stdReduce bbMax ⟨ni, ni, ni⟩ verts)

/-! ## DistanceTriangleTriangleSquared (tri_dist.h) -/

/-- `EdgeEdgeDist(x, y, p, a, q, b)`: closest points of segments `p + t a`, `q + u b` -/
def edgeEdgeDist (p a q b : V3 α) : V3 α × V3 α :=
  let zero : α := Scalar.zero
  let one : α := MConst.one
  let T := vsub q p
  let aDotA := dot a a
  let bDotB := dot b b
  let aDotB := dot a b
  let aDotT := dot a T
  let bDotT := dot b T
  let denom := aDotA *. bDotB -. aDotB *. aDotB
  let t0 := if !beq denom zero then clamp ((aDotT *. bDotB -. bDotT *. aDotB) /. denom) zero one else zero
  let tu : α × α :=
    if !beq bDotB zero then
      let u := (t0 *. aDotB -. bDotT) /. bDotB
      if lt u zero then
        (if !beq aDotA zero then clamp (aDotT /. aDotA) zero one else zero, zero)
      else if lt one u then
        (if !beq aDotA zero then clamp ((aDotB +. aDotT) /. aDotA) zero one else zero, one)
      else (t0, u)
    else (if !beq aDotA zero then clamp (aDotT /. aDotA) zero one else zero, zero)
  (vadd p (vscale a tu.1), vadd q (vscale b tu.2))

structure Tri3 (α : Type) where
  a : V3 α
  b : V3 α
  c : V3 α

def Tri3.get (t : Tri3 α) (i : Nat) : V3 α :=
  if i % 3 == 0 then t.a else if i % 3 == 1 then t.b else t.c

/-- `Sv[0] = p[1]-p[0]; Sv[1] = p[2]-p[1]; Sv[2] = p[0]-p[2]` -/
def triEdgeVecs (p : Tri3 α) : Tri3 α := ⟨vsub p.b p.a, vsub p.c p.b, vsub p.a p.c⟩

/-- state of the 3x3 edge loop: `mindd`, `shown_disjoint`, early return value -/
structure EELoop (α : Type) where
  mindd : α
  shown : Bool
  ret : Option α

/-- body of the double loop (tri_dist.h:110-143) for one `(i, j)` -/
def eeStep (p q sv tv : Tri3 α) (st : EELoop α) (ij : Nat × Nat) : EELoop α :=
  match st.ret with
  | some _ => st
  | none =>
    let zero : α := Scalar.zero
    let i := ij.1
    let j := ij.2
    let (cp, cq) := edgeEdgeDist (p.get i) (sv.get i) (q.get j) (tv.get j)
    let V := vsub cq cp
    let dd := dot V V
    if le dd st.mindd then
      let a := dot (vsub (p.get (i + 2)) cp) V
      let b := dot (vsub (q.get (j + 2)) cq) V
      if le a zero && le zero b then { mindd := dd, shown := st.shown, ret := some (dot V V) }
      else
        let a' := if le a zero then zero else a
        let b' := if le a zero then b else if lt zero b then zero else b
        let shown := if lt zero ((dd -. a') +. b') then true else st.shown
        { mindd := dd, shown := shown, ret := none }
    else st

def ijPairs : List (Nat × Nat) := [(0,0),(0,1),(0,2),(1,0),(1,1),(1,2),(2,0),(2,1),(2,2)]

/-- one of the two vertex-face blocks (tri_dist.h:146-180 with `swap = false`: P = p, Q = q;
l.183-217 with `swap = true`: P = q, Q = p).  Returns `(entered "index >= 0", early return)`. -/
def faceBlock (swap : Bool) (P Q pv : Tri3 α) : Bool × Option α :=
  let zero : α := Scalar.zero
  let sn := cross pv.a pv.b
  let snl := dot sn sn
  -- `std::max({dot(Sv0,Sv0), dot(Sv1,Sv1), dot(Sv2,Sv2)})`, then `Snl > 1e-15 * Sl2 * Sl2` (relative degeneracy test)
  let d0 := dot pv.a pv.a
  let d1 := dot pv.b pv.b
  let d2 := dot pv.c pv.c
  let m01 := if lt d0 d1 then d1 else d0
  let sl2 := if lt m01 d2 then d2 else m01
  if lt (((MConst.tiny : α) *. sl2) *. sl2) snl then
    let tp0 := dot (vsub P.a Q.a) sn
    let tp1 := dot (vsub P.a Q.b) sn
    let tp2 := dot (vsub P.a Q.c) sn
    let tp (i : Nat) : α := if i == 0 then tp0 else if i == 1 then tp1 else tp2
    let index : Option Nat :=
      if lt zero tp0 && lt zero tp1 && lt zero tp2 then
        let i := if lt tp0 tp1 then 0 else 1
        some (if lt tp2 (tp i) then 2 else i)
      else if lt tp0 zero && lt tp1 zero && lt tp2 zero then
        let i := if lt tp1 tp0 then 0 else 1
        some (if lt (tp i) tp2 then 2 else i)
      else none
    match index with
    | none => (false, none)
    | some idx =>
      let qIndex := Q.get idx
      let inside :=
        lt zero (dot (vsub qIndex P.a) (cross sn pv.a)) &&
        lt zero (dot (vsub qIndex P.b) (cross sn pv.b)) &&
        lt zero (dot (vsub qIndex P.c) (cross sn pv.c))
      if inside then
        let other := vadd qIndex (vdiv (vscale sn (tp idx)) snl)
        let d := if swap then vsub qIndex other else vsub other qIndex
        (true, some (dot d d))
      else (true, none)
  else (false, none)

/-- `DistanceTriangleTriangleSquared(p, q)` -/
def triTriDist2 (p q : Tri3 α) : α :=
  let sv := triEdgeVecs p
  let tv := triEdgeVecs q
  let st := ijPairs.foldl (eeStep p q sv tv) { mindd := (MConst.big : α), shown := false, ret := none }
  match st.ret with
  | some r => r
  | none =>
    let b1 := faceBlock false p q sv
    match b1.2 with
    | some r => r
    | none =>
      let b2 := faceBlock true q p tv
      match b2.2 with
      | some r => r
      | none => if st.shown || b1.1 || b2.1 then st.mindd else Scalar.zero

/-! ## MinGap (properties.cpp:451-504) -/

def triOf (m : KMesh α) (tri : Nat) : Tri3 α := ⟨corner m tri 0, corner m tri 1, corner m tri 2⟩

/-- `MinDistanceRecorder::record` over a list of `(tri of self, tri of other)` pairs, then
`sqrt(std::min(recorder.get(), searchLength * searchLength))` -/
def minGapOver (sqrt : α → α) (self other : KMesh α) (searchLength : α)
    (pairs : List (Nat × Nat)) : α :=
  let md := pairs.foldl
    (fun md pr => stdMin md (triTriDist2 (triOf self pr.1) (triOf other pr.2))) (MConst.inf : α)
  sqrt (stdMin md (searchLength *. searchLength))

def allPairs (n k : Nat) : List (Nat × Nat) :=
  (List.range n).flatMap fun i => (List.range k).map fun j => (i, j)

/-- the brute-force definition: every triangle of `self` against every triangle of `other` -/
def minGapAll (sqrt : α → α) (self other : KMesh α) (searchLength : α) : α :=
  minGapOver sqrt self other searchLength (allPairs (numTri self) (numTri other))

/-! ## RayCast (boolean3.cpp:592-654) -/

/-- the padded single-edge `rayImpl` (l.605-617): two vertices, zero normals, halfedge 0 the
forward ray `0 → 1`, halfedge 1 its reverse, halfedge 2 the filler (its start `-1` is never
read; stored as 0) -/
def rayMesh (origin endpoint : V3 α) : KMesh α :=
  { vertPos := #[origin, endpoint], vertNormal := #[V3.zero, V3.zero], faceNormal := #[V3.zero],
    start := #[0, 1, 0], pair := #[1, 0, 0] }

structure Hit (α : Type) where
  tri : Nat
  t : α
  pos : V3 α

def v3get (v : V3 α) (i : Nat) : α := if i == 0 then v.x else if i == 1 then v.y else v.z

/-- `tAxis` (l.627-630) -/
def tAxis (dir : V3 α) : Nat :=
  let ax := abs dir.x
  let ay := abs dir.y
  let az := abs dir.z
  if lt ay ax && lt az ax then 0 else if lt az ay then 1 else 2

/-- `recorderf` for one candidate triangle (l.635-645): `none` = no hit recorded -/
def rayHit (m : KMesh α) (origin endpoint : V3 α) (tri : Nat) : Option (Hit α) :=
  let dir := vsub endpoint origin
  let r := kernel12 false true 0 tri (rayMesh origin endpoint) m
  match r.2.1 with
  | none => none
  | some v =>
    if r.1 != 0 && isFinite v.x then
      let ax := tAxis dir
      let t := (v3get v ax -. v3get origin ax) /. v3get dir ax
      if le Scalar.zero t && le t (MConst.one : α) then some ⟨tri, t, v⟩ else none
    else none

/-- insertion into a list sorted by `distance` (stable: after the elements not greater) -/
def insertHit (h : Hit α) : List (Hit α) → List (Hit α)
  | [] => [h]
  | x :: xs => if lt h.t x.t then h :: x :: xs else x :: insertHit h xs

/-- the `std::sort` by `a.distance < b.distance` (l.650-652); on ties the C++ order is
unspecified, the model keeps candidate order -/
def sortHits (hs : List (Hit α)) : List (Hit α) := hs.foldl (fun acc h => insertHit h acc) []

/-- `RayCast(origin, endpoint)` with the collider's candidates as an argument -/
def rayCastOver (m : KMesh α) (origin endpoint : V3 α) (cands : List Nat) : List (Hit α) :=
  if numTri m == 0 then []
  else
    let dir := vsub endpoint origin
    if beq (dot dir dir) Scalar.zero then []
    else sortHits (cands.filterMap (rayHit m origin endpoint))

/-- brute force: every triangle is a candidate -/
def rayCast (m : KMesh α) (origin endpoint : V3 α) : List (Hit α) :=
  rayCastOver m origin endpoint (List.range (numTri m))

/-! ## PointWinding (boolean3.cpp:553-590) -/

/-- `Box::Contains(vec3)`: `all(gequal(p, min)) && all(gequal(max, p))` -/
def boxContains (bb : V3 α × V3 α) (p : V3 α) : Bool :=
  le bb.1.x p.x && le bb.1.y p.y && le bb.1.z p.z && le p.x bb.2.x && le p.y bb.2.y && le p.z bb.2.z

/-- winding of one query point over a candidate list: the point is vertex 0 of a `pointImpl`
with zero normal; `Kernel02<false, true>` -/
def pointWindingOver (m : KMesh α) (bb : V3 α × V3 α) (p : V3 α) (cands : List Nat) : Int :=
  if numTri m == 0 then 0
  else if !boxContains bb p then 0
  else
    let pm : KMesh α := { vertPos := #[p], vertNormal := #[V3.zero], faceNormal := #[], start := #[], pair := #[] }
    cands.foldl (fun w tri =>
      let r := kernel02 false true 0 tri (loadFaceEdges m tri) pm m
      match finite1 r.2.1 with
      | some _ => w + r.1
      | none => w) 0

def pointWinding (m : KMesh α) (bb : V3 α × V3 α) (p : V3 α) : Int :=
  pointWindingOver m bb p (List.range (numTri m))

/-! ## Slice (face_op.cpp:372-431) -/

def next3 (i : Nat) : Nat := (i + 1) % 3

/-- `recordCollision`: `min <= height && max > height` over the three corners' z -/
def crossesHeight (m : KMesh α) (height : α) (tri : Nat) : Bool :=
  let z0 := (corner m tri 0).z
  let z1 := (corner m tri 1).z
  let z2 := (corner m tri 2).z
  let mn := stdMin (stdMin (stdMin (MConst.inf : α) z0) z1) z2
  let mx := stdMax (stdMax (stdMax (neg (MConst.inf : α)) z0) z1) z2
  le mn height && lt height mx

/-- initial `k` for the start triangle (l.404-411) -/
def sliceStartK (m : KMesh α) (height : α) (startTri : Nat) : Nat :=
  let above (j : Nat) := lt height (corner m startTri j).z
  let notAbove (j : Nat) := le (corner m startTri j).z height
  if above 0 && notAbove 1 then 1
  else if above 1 && notAbove 2 then 2
  else if above 2 && notAbove 0 then 0
  else 0

structure SliceWalk (α : Type) where
  remaining : List Nat
  poly : List (V2 α)
  visited : List Nat
  /-- the C++ would `erase(find(tri))` with `find(tri) == end()` (undefined behaviour) -/
  bad : Bool

/-- the `do … while (tri != startTri)` loop (l.414-430); `fuel` ≥ number of remaining triangles -/
def sliceLoop (m : KMesh α) (height : α) (startTri : Nat) :
    Nat → Nat → Nat → SliceWalk α → SliceWalk α
  | 0, _, _, st => { st with bad := true }
  | fuel + 1, tri, k, st =>
    if !st.remaining.contains tri then { st with bad := true }
    else
      let remaining := st.remaining.erase tri
      let edge := 3 * tri + k
      let k := if le (m.pos (m.endOf edge)).z height then next3 k else k
      let up := 3 * tri + k
      let below := m.pos (m.startOf up)
      let above := m.pos (m.endOf up)
      let a := (height -. below.z) /. (above.z -. below.z)
      -- `la::lerp(below, above, a) = below * (1 - a) + above * a`, x and y
      let oma := (MConst.one : α) -. a
      let pt : V2 α := ⟨below.x *. oma +. above.x *. a, below.y *. oma +. above.y *. a⟩
      let pair := m.pairOf up
      let tri' := pair / 3
      let k' := next3 (pair % 3)
      let st' : SliceWalk α := { remaining, poly := st.poly ++ [pt], visited := st.visited ++ [tri], bad := st.bad }
      if tri' == startTri then st' else sliceLoop m height startTri fuel tri' k' st'

/-- the outer `while (!tris.empty())`; the C++ takes `*tris.begin()` of an `unordered_set`
(unspecified order), the model the first remaining triangle.  Returns the polygons with the
triangles each one visited, and the `bad` flag. -/
def sliceOuter (m : KMesh α) (height : α) :
    Nat → List Nat → List (List (V2 α) × List Nat) → List (List (V2 α) × List Nat) × Bool
  | 0, rem, acc => (acc, !rem.isEmpty)
  | fuel + 1, rem, acc =>
    match rem with
    | [] => (acc, false)
    | startTri :: _ =>
      let st := sliceLoop m height startTri (rem.length) startTri (sliceStartK m height startTri)
        { remaining := rem, poly := [], visited := [], bad := false }
      if st.bad then (acc ++ [(st.poly, st.visited)], true)
      else sliceOuter m height fuel st.remaining (acc ++ [(st.poly, st.visited)])

def sliceTris (m : KMesh α) (height : α) : List Nat :=
  (List.range (numTri m)).filter (crossesHeight m height)

def slice (m : KMesh α) (height : α) : List (List (V2 α) × List Nat) × Bool :=
  let tris := sliceTris m height
  sliceOuter m height tris.length tris []

end Poly

/-! ## Decompose (constructors.cpp:461-517): the labelling -/

open MV.Dsu in
/-- thread 0 runs alone (no spurious failures) until its program is finished -/
def runAlone : Nat → State → Option State
  | 0, s => if quiescent s then some s else none
  | fuel + 1, s => if quiescent s then some s else runAlone fuel (step s 0 false).1

/-- the forward halfedges in halfedge order: `if (halfedge_.IsForward(edge)) uf.unite(Start, End)` -/
def forwardEdges (ts : List MV.Mesh.Tri) : List (Nat × Nat) :=
  (MV.Mesh.dirEdges ts).filter fun e => e.1 < e.2

def uniteProg (ts : List MV.Mesh.Tri) : List MV.Dsu.Op :=
  (forwardEdges ts).map fun e => MV.Dsu.Op.unite e.1 e.2

/-- the state of `uf` after the loop of l.467-471 (`none`: the fuel did not suffice) -/
def decomposeState (nV : Nat) (ts : List MV.Mesh.Tri) (fuel : Nat) : Option MV.Dsu.State :=
  runAlone fuel (MV.Dsu.init nV [uniteProg ts])

/-- generous bound on the number of atomic operations of the single thread: every `unite`
performs two `findImpl`s (each at most `4 * n` atomic operations) and at most 4 more -/
def decomposeFuel (nV : Nat) (ts : List MV.Mesh.Tri) : Nat := (3 * ts.length + 1) * (8 * nV + 16)

/-- `numComponents`, `vertLabel`, and for every component `i` the list `faceNew2Old`
(l.503-508: the faces whose first vertex carries label `i`) -/
def decompose (nV : Nat) (ts : List MV.Mesh.Tri) : Option (Nat × List Nat × List (List Nat)) :=
  match decomposeState nV ts (decomposeFuel nV ts) with
  | none => none
  | some s =>
    let cc := MV.Dsu.connectedComponents s.mem
    let faceLabel := ts.map fun t => cc.2.getD t.1 0
    let faces := (List.range cc.1).map fun i =>
      (List.range ts.length).filter fun f => faceLabel.getD f 0 == i
    some (cc.1, cc.2, faces)

end MV.Measure
