/-
Small-step model of the lock-free open-addressing hash table `HashTableD` of
/repo/src/hashtable.h (`Insert`, `operator[]`, `Full`).  Core Lean only (the driver links
this file).

Memory model: sequentially consistent.  ONE `step` = ONE shared-memory operation of the
C++, executed by the thread the scheduler names; a schedule is an explicit `List Nat` of
thread ids, so "every interleaving of any number of threads" = "every schedule".  Purely
local computation (comparisons, `idx = (idx + step_) & (Size()-1)`, the `return`) is folded
into the atomic step that precedes it, so a thread's `pc` always reads "about to perform
atomic operation X".  When an op completes, the thread is at once positioned at the first
atomic operation of its next op.

pc            C++ (hashtable.h)                                             log kind
------------  ------------------------------------------------------------  --------
iFull         l.104 `if (Full()) return;` = l.97 `used_.load(relaxed)*2 >    uload
              Size()`; true -> op returns (result `full`); false -> iCas
iCas          l.105-106 `found = AtomicCAS(keys_[idx], kOpen, key)` (l.70    kcas
              compare_exchange_strong); l.107 found==kOpen -> iAdd;
              l.112 found==key -> return (result `present idx`);
              l.113 idx=(idx+step_)&(Size()-1), loop to l.104 -> iFull
iAdd          l.108 `used_.fetch_add(1, relaxed)` -> iStore                  fadd
iStore        l.109 `values_[idx] = val;` (PLAIN store) l.110 return         vstore
              (result `inserted idx`)
gKey          l.120 `k = AtomicLoad(keys_[idx])` (l.79 load(acquire));       kload
              l.121 k==key||k==kOpen -> gVal; else l.124 idx=next idx -> gKey
gVal          l.122 `return values_[idx];` -- the harness dereferences the    vload
              returned reference (hit and open case alike); result
              `got hit idx v`, hit = 1 iff the `k` loaded at gKey was `key`
(start of op) l.102 / l.118 `idx = H(key) & (Size()-1)` (local)              --

`Full()` reads `used_`, which lags the number of claimed key slots by the number of threads
sitting between their CAS and their `fetch_add` (invariant `Inv.count` in Proof/HashT.lean),
so with T threads up to T-1 extra slots can be claimed after the 50% mark; a table that ends
100% full makes `operator[]` on an absent key spin forever (in the model: the run never
becomes quiescent).  Safety is unaffected.

`V` is modelled as `Nat` and the plain store / plain load of a value as one step each.
Proof/HashT.lean shows that no two stores ever target the same slot (no write-write race);
a `get` racing with the claimer between its CAS and its store can read the initial value
(see the example there) -- in C++ that is a data race, which manifold avoids by separating
the insert phase from the lookup phase.
-/
namespace MV.HashT

/-- `kOpen = std::numeric_limits<uint64_t>::max()` (hashtable.h l.29) -/
def kOpen : Nat := 18446744073709551615

example : kOpen = 2 ^ 64 - 1 := by decide

/-! ## hash64bit (utils.h l.160-165) -/

/-- exact transliteration; `UInt64` multiplication wraps mod 2^64 like `uint64_t` -/
def hash64bit (x : UInt64) : UInt64 :=
  let x := (x ^^^ (x >>> 30)) * 0xbf58476d1ce4e5b9
  let x := (x ^^^ (x >>> 27)) * 0x94d049bb133111eb
  x ^^^ (x >>> 31)

def hashNat (x : Nat) : Nat := (hash64bit x.toUInt64).toNat

/- values printed by a g++-compiled copy of the C++ function -/
example : hash64bit 0 = 0 := by decide
example : hash64bit 1 = 6238072747940578789 := by decide
example : hash64bit 2 = 15839785061582574730 := by decide
example : hash64bit 42 = 12058926934050108962 := by decide
example : hash64bit 18446744073709551615 = 13029008266876403067 := by decide
example : hashNat 123456789012345 = 13269727038171510203 := by decide

/-! ## configuration and index arithmetic -/

structure Cfg where
  /-- `keys_.size() = 2^logSize` (HashTable ctor l.154: `1 << CeilLog2(size)`) -/
  logSize : Nat
  /-- `step_` -/
  stepP : Nat
  /-- the template parameter `H` -/
  h : Nat → Nat

def Cfg.size (c : Cfg) : Nat := 2 ^ c.logSize

theorem Cfg.size_pos (c : Cfg) : 0 < c.size := Nat.two_pow_pos _

/-- l.102 / l.118 `H(key) & (Size() - 1)` -/
def Cfg.idx0 (c : Cfg) (key : Nat) : Nat := c.h key % c.size

/-- l.113 / l.124 `(idx + step_) & (Size() - 1)` -/
def Cfg.next (c : Cfg) (idx : Nat) : Nat := (idx + c.stepP) % c.size

/-- the `j`-th slot of the probe sequence of `key` -/
def Cfg.probe (c : Cfg) (key j : Nat) : Nat := (c.h key + j * c.stepP) % c.size

/-- The C++ masks with `Size()-1`; for a power of two that is `% Size()`. -/
theorem mask_eq_mod (c : Cfg) (x : Nat) : x &&& (c.size - 1) = x % c.size :=
  Nat.and_two_pow_sub_one_eq_mod x c.logSize

/-- `idx` and `step_` are `uint32_t`, so `idx + step_` is computed mod 2^32 before masking.
`Size()` is an `int` power of two, hence `size ∣ 2^32` and the wrap-around is invisible:
`((idx + step) % 2^32) % size = (idx + step) % size`.  (Likewise truncating the 64-bit
`H(key) & (Size()-1)` to `uint32_t` loses nothing because the masked value is `< size`.) -/
theorem uint32_wrap_harmless (c : Cfg) (hk : c.logSize ≤ 32) (x : Nat) :
    (x % 2 ^ 32) % c.size = x % c.size :=
  Nat.mod_mod_of_dvd x (Nat.pow_dvd_pow 2 hk)

theorem Cfg.idx0_eq_probe (c : Cfg) (key : Nat) : c.idx0 key = c.probe key 0 := by
  simp [Cfg.idx0, Cfg.probe]

theorem Cfg.next_probe (c : Cfg) (key j : Nat) : c.next (c.probe key j) = c.probe key (j + 1) := by
  simp only [Cfg.next, Cfg.probe, Nat.add_mul, Nat.one_mul, Nat.mod_add_mod, Nat.add_assoc]

theorem Cfg.probe_lt (c : Cfg) (key j : Nat) : c.probe key j < c.size :=
  Nat.mod_lt _ c.size_pos

/-! ## programs, threads, state -/

inductive Op where
  | ins (key val : Nat)
  | get (key : Nat)
deriving Repr, DecidableEq, Inhabited

def Op.key : Op → Nat
  | .ins k _ => k
  | .get k => k

inductive Pc where
  | iFull | iCas | iAdd | iStore | gKey | gVal
deriving Repr, DecidableEq, Inhabited

inductive Res where
  /-- Insert returned at l.104 because `Full()` -/
  | full
  /-- Insert claimed slot `idx` and stored its value (l.107-110) -/
  | inserted (idx : Nat)
  /-- Insert found its key already in slot `idx` (l.112) -/
  | present (idx : Nat)
  /-- `operator[]`: `hit = 1` iff the key was seen, slot, value read there -/
  | got (hit idx val : Nat)
deriving Repr, DecidableEq, Inhabited

structure Thr where
  /-- the whole program, immutable -/
  prog : List Op
  /-- index of the current op; `≥ prog.length` means finished -/
  opIdx : Nat
  pc : Pc
  /-- the local `idx` -/
  idx : Nat
  /-- the local `k` of `operator[]` (last key loaded) -/
  reg : Nat
  /-- GHOST: number of probes done in the current op; `idx = probe key j` -/
  j : Nat
  /-- one `Res` per completed op, appended on completion -/
  results : List Res
deriving Repr, DecidableEq, Inhabited

structure State where
  keys : List Nat
  vals : List Nat
  used : Nat
  thr : List Thr
deriving Repr, DecidableEq, Inhabited

inductive Kind where
  | uload | kcas | fadd | vstore | kload | vload | idle
deriving Repr, DecidableEq, Inhabited

/-- `index`: slot (0 for `used_`).  `a`,`b`: uload: value read, 0; kcas: desired key, found;
fadd: old value, 0; vstore: value written, 0; kload/vload: value read, 0; idle: 0, 0. -/
structure StepLog where
  tid : Nat
  kind : Kind
  index : Nat
  a : Nat
  b : Nat
deriving Repr, DecidableEq, Inhabited

def Thr.cur (t : Thr) : Option Op := t.prog[t.opIdx]?

def Thr.finished (t : Thr) : Bool := decide (t.prog.length ≤ t.opIdx)

/-- position the thread at the first atomic operation of its current op
(l.102 / l.118: `idx = H(key) & (Size()-1)`) -/
def Thr.start (cfg : Cfg) (t : Thr) : Thr :=
  match t.prog[t.opIdx]? with
  | some (.ins key _) => { t with pc := .iFull, idx := cfg.idx0 key, j := 0 }
  | some (.get key) => { t with pc := .gKey, idx := cfg.idx0 key, j := 0 }
  | none => { t with pc := .iFull, idx := 0, j := 0 }

/-- the current op returns `r` -/
def Thr.finish (cfg : Cfg) (t : Thr) (r : Res) : Thr :=
  Thr.start cfg { t with opIdx := t.opIdx + 1, results := t.results ++ [r] }

/-- l.113 / l.124 -/
def Thr.advance (cfg : Cfg) (t : Thr) (pc : Pc) : Thr :=
  { t with pc := pc, idx := cfg.next t.idx, j := t.j + 1 }

def init (cfg : Cfg) (progs : List (List Op)) : State where
  keys := List.replicate cfg.size kOpen
  vals := List.replicate cfg.size 0
  used := 0
  thr := progs.map fun p =>
    Thr.start cfg { prog := p, opIdx := 0, pc := .iFull, idx := 0, reg := 0, j := 0, results := [] }

/-- result of one thread-level step: new shared memory, new thread state, log entry -/
structure Out where
  keys : List Nat
  vals : List Nat
  used : Nat
  t : Thr
  log : StepLog

/-- one atomic step of `Insert(key, val)` -/
def stepIns (cfg : Cfg) (keys vals : List Nat) (used : Nat) (tid : Nat) (t : Thr)
    (key val : Nat) : Out :=
  match t.pc with
  | .iFull =>
      -- l.104 / l.97
      if used * 2 > cfg.size then
        ⟨keys, vals, used, t.finish cfg .full, ⟨tid, .uload, 0, used, 0⟩⟩
      else
        ⟨keys, vals, used, { t with pc := .iCas }, ⟨tid, .uload, 0, used, 0⟩⟩
  | .iCas =>
      -- l.106 strong CAS kOpen -> key; `found` = previous content
      let found := keys.getD t.idx kOpen
      let log : StepLog := ⟨tid, .kcas, t.idx, key, found⟩
      if found = kOpen then
        ⟨keys.set t.idx key, vals, used, { t with pc := .iAdd }, log⟩
      else if found = key then
        ⟨keys, vals, used, t.finish cfg (.present t.idx), log⟩
      else
        ⟨keys, vals, used, t.advance cfg .iFull, log⟩
  | .iAdd =>
      -- l.108
      ⟨keys, vals, used + 1, { t with pc := .iStore }, ⟨tid, .fadd, 0, used, 0⟩⟩
  | .iStore =>
      -- l.109-110
      ⟨keys, vals.set t.idx val, used, t.finish cfg (.inserted t.idx), ⟨tid, .vstore, t.idx, val, 0⟩⟩
  | _ => ⟨keys, vals, used, t, ⟨tid, .idle, 0, 0, 0⟩⟩

/-- one atomic step of `operator[](key)` -/
def stepGet (cfg : Cfg) (keys vals : List Nat) (used : Nat) (tid : Nat) (t : Thr)
    (key : Nat) : Out :=
  match t.pc with
  | .gKey =>
      -- l.120-121 / l.124
      let k := keys.getD t.idx kOpen
      let log : StepLog := ⟨tid, .kload, t.idx, k, 0⟩
      if k = key ∨ k = kOpen then
        ⟨keys, vals, used, { t with pc := .gVal, reg := k }, log⟩
      else
        ⟨keys, vals, used, t.advance cfg .gKey, log⟩
  | .gVal =>
      -- l.122 (+ the caller's read through the returned reference)
      let v := vals.getD t.idx 0
      ⟨keys, vals, used, t.finish cfg (.got (if t.reg = key then 1 else 0) t.idx v),
        ⟨tid, .vload, t.idx, v, 0⟩⟩
  | _ => ⟨keys, vals, used, t, ⟨tid, .idle, 0, 0, 0⟩⟩

def stepThr (cfg : Cfg) (keys vals : List Nat) (used : Nat) (tid : Nat) (t : Thr) : Out :=
  match t.cur with
  | some (.ins key val) => stepIns cfg keys vals used tid t key val
  | some (.get key) => stepGet cfg keys vals used tid t key
  | none => ⟨keys, vals, used, t, ⟨tid, .idle, 0, 0, 0⟩⟩

/-- thread `tid` performs its next atomic operation.  A nonexistent or finished thread is
a no-op logged as `idle`. -/
def step (cfg : Cfg) (s : State) (tid : Nat) : State × StepLog :=
  match s.thr[tid]? with
  | none => (s, ⟨tid, .idle, 0, 0, 0⟩)
  | some t =>
      let o := stepThr cfg s.keys s.vals s.used tid t
      ({ keys := o.keys, vals := o.vals, used := o.used, thr := s.thr.set tid o.t }, o.log)

def run (cfg : Cfg) (s : State) : List Nat → State × List StepLog
  | [] => (s, [])
  | tid :: rest =>
      let r := step cfg s tid
      let rr := run cfg r.1 rest
      (rr.1, r.2 :: rr.2)

/-- all threads finished -/
def quiescent (s : State) : Bool := s.thr.all Thr.finished

/-! ## sequential reference lookup -/

def lookupGo (cfg : Cfg) (keys vals : List Nat) (key : Nat) : Nat → Nat → Option (Nat × Nat)
  | 0, _ => none
  | fuel + 1, idx =>
      let k := keys.getD idx kOpen
      if k = key then some (idx, vals.getD idx 0)
      else if k = kOpen then none
      else lookupGo cfg keys vals key fuel (cfg.next idx)

/-- probe from `h key % size` for at most `size` probes -/
def lookup (cfg : Cfg) (keys vals : List Nat) (key : Nat) : Option (Nat × Nat) :=
  lookupGo cfg keys vals key cfg.size (cfg.idx0 key)

/-- result of op `n` of thread `t`, if completed -/
def State.res (s : State) (t n : Nat) : Option Res := (s.thr[t]?).bind fun th => th.results[n]?

/-- op `n` of thread `t` -/
def opOf (progs : List (List Op)) (t n : Nat) : Option Op := (progs[t]?).bind fun p => p[n]?

end MV.HashT
