/-
Model of the ASSEMBLY of a Boolean result (property C02 where it meets C01).  Core Lean only.

Transliterated from /repo/src/boolean_result.cpp and /repo/src/boolean3.cpp:

  `EdgePos::operator<`                         boolean_result.cpp l.197-201   → `EdgePos.lt`
  `PairUp`                                     l.284-302                      → `pairUp`
      `std::partition` (libstdc++ `__partition`, bidirectional iterators,
       bits/stl_algo.h)                                                       → `stdPartition`
      `std::stable_sort` (any stable sort: the result is unique)              → `stableSort`
  `AddNewEdgeVerts` (`process` lambda)         l.219-248                      → `addNewEdgeVerts`
  `AppendPartialEdges` (per-edge body)         l.322-382                      → `partialEntries`, `appendPartial`
  `AppendNewEdges` (per-edge body)             l.396-434                      → `appendNew`
  `DuplicateHalfedges` / `AppendWholeEdges`    l.437-503                      → `dupHalfedge`, `appendWhole`
  `CountVerts`, `CountNewVerts`, `SizeOutput`  l.68-189 (counts and scans)    → `sizeOutput`
  vertex layout `vP2R, vQ2R, v12R, v21R`       l.805-827                      → `scanAbs`
  `Winding03_`                                 boolean3.cpp l.387-459         → `unitedEdges`, `flood`, `winding03`

Geometry enters only through ORACLE arguments:
  * `keys`  – for every `vector<EdgePos>` entering `PairUp`, the values `edgePos` of its entries
              (`la::dot(vertPosR[vert], edgeVec)` resp. `vertPosR[vert][i]`), as integers whose
              order is the order of the doubles (the harness maps the IEEE bit pattern
              monotonically); one list per vector, in the order the vectors are processed;
  * `rootOf`, `seed` – for Winding03: `uA.find(v)` for every vertex (the concurrent union-find
              is C13's model; here its outcome is an argument whose consistency with the
              component structure is CHECKED by `rootsOk`) and the `Kernel02` sums at the roots.
Schedules: `AppendWholeEdges` runs `DuplicateHalfedges` under `for_each_n(autoPolicy…)`, the two
`AtomicAdd`s per emitted pair are the only shared accesses; `fetch` executes cursor fetches in
ANY order (`MV/Props/C02b.lean`: every order fills every face's reserved range exactly).
-/
import MV.Model.Bool3
import MV.Model.Dsu

namespace MV.BoolAsm
open MV.Bool3

/-! ## EdgePos, PairUp -/

/-- `std::numeric_limits<int>::max()` (collisionId of a retained vertex, l.342/351) -/
def intMax : Int := 2147483647

/-- `struct EdgePos { double edgePos; int vert; int collisionId; bool isStart; }` (l.191).
`key` is the order-preserving integer image of `edgePos`. -/
structure EdgePos where
  key : Int
  vert : Nat
  cid : Int
  isStart : Bool
deriving DecidableEq, Repr, Inhabited

/-- `EdgePos::operator<` (l.197-201) -/
def EdgePos.lt (a b : EdgePos) : Bool :=
  decide (a.key < b.key) || (decide (a.key = b.key) && decide (a.cid < b.cid))

/-- `!(b < a)`: the `le` a stable merge sort needs -/
def EdgePos.le (a b : EdgePos) : Bool := !(b.lt a)

/-- `std::stable_sort(first, last)` with `operator<`.  (The output of a stable sort is determined
by the comparator; `List.mergeSort` is stable.) -/
def stableSort (l : List EdgePos) : List EdgePos := l.mergeSort EdgePos.le

/-- the maximal suffix of elements satisfying `q`, and what is in front of it -/
def splitSuffix {α : Type} (q : α → Bool) (l : List α) : List α × List α :=
  ((l.reverse.dropWhile q).reverse, (l.reverse.takeWhile q).reverse)

/-- libstdc++ `std::__partition(first, last, pred, bidirectional_iterator_tag)`:
```
while (true) {
  while (true) if (first == last) return first; else if (pred(*first)) ++first; else break;
  --last;
  while (true) if (first == last) return first; else if (!pred(*last)) --last; else break;
  std::iter_swap(first, last); ++first; }
```
as a function of the range contents: skip the leading `pred` run `S`, skip the trailing `!pred`
run `E`; if something is left it is `ns :: m ++ [st]` with `!pred ns`, `pred st`: swap the two
and continue on `m`.  `fuel` = length suffices. -/
def stdPartitionGo {α : Type} (p : α → Bool) : Nat → List α → List α
  | 0, l => l
  | fuel + 1, l =>
    let S := l.takeWhile p
    let rest := l.dropWhile p
    let (mid, E) := splitSuffix (fun x => !p x) rest
    match mid with
    | [] => S ++ E
    | ns :: tl =>
      match tl.getLast? with
      | none => S ++ mid ++ E        -- unreachable: `mid` ends with a `pred` element, `ns` is not one
      | some st => S ++ st :: (stdPartitionGo p fuel tl.dropLast ++ ns :: E)

def stdPartition {α : Type} (p : α → Bool) (l : List α) : List α := stdPartitionGo p l.length l

/-- The contract of `std::partition` ([alg.partitions]): a permutation with every element
satisfying the predicate in front of every element that does not. -/
def PartitionContract (part : List EdgePos → List EdgePos) : Prop :=
  ∀ l, (part l).Perm l ∧
    part l = (part l).filter (·.isStart) ++ (part l).filter (fun e => !e.isStart)

/-- `PairUp` (l.284-302).  `part` is `std::partition(…, isStart)`; `middle - begin` is the number
of starts; the two halves are stable-sorted; entry `i` is paired with entry `i + nEdges`.
Returns the emitted `(startVert, endVert)` in emission order. -/
def pairUpWith (part : List EdgePos → List EdgePos) (es : List EdgePos) : List (Nat × Nat) :=
  let nEdges := es.length / 2
  let ps := part es
  let middle := ps.countP (·.isStart)
  let sorted := stableSort (ps.take middle) ++ stableSort (ps.drop middle)
  List.zip ((sorted.take nEdges).map (·.vert)) (((sorted.drop nEdges).take nEdges).map (·.vert))

/-- `PairUp` with libstdc++'s partition: what the driver runs -/
def pairUp (es : List EdgePos) : List (Nat × Nat) := pairUpWith (stdPartition (·.isStart)) es

/-- the two `DEBUG_ASSERT`s of `PairUp` (compiled out in release builds) -/
def pairUpPre (es : List EdgePos) : Bool :=
  es.length % 2 == 0 && es.countP (·.isStart) == es.length / 2

/-! ## the entries of one `vector<EdgePos>` -/

/-- the `|inclusion|` copies pushed for one retained vertex (l.340-355): same position, same
`collisionId = INT_MAX`, consecutive output vertices -/
def vertEntries (v : Nat) (incl : Int) (isStart : Bool) : List EdgePos :=
  (List.range incl.natAbs).map fun j => ⟨0, v + j, intMax, isStart⟩

/-- overwrite `edgePos` of every entry (l.336-338 / l.412-414, and the positions computed at
l.341/350) from the oracle list -/
def withKeys (es : List EdgePos) (keys : List Int) : List EdgePos :=
  List.zipWith (fun e k => { e with key := k }) es keys

/-- `AppendPartialEdges` l.325-355: the vector handed to `PairUp` for one partially kept edge.
`crossings` is `edgesP[edgeP]` (all `edgePos = 0`), `iS, iE` the inclusion numbers `i03` of the
edge's start and end vertex, `vS, vE` their first output vertices `vP2R[·]`. -/
def partialEntries (crossings : List EdgePos) (vS vE : Nat) (iS iE : Int) : List EdgePos :=
  stableSort crossings ++ vertEntries vS iS (decide (iS > 0)) ++ vertEntries vE iE (decide (iE < 0))

/-! ## output cursor state -/

/-- `Halfedge{startVert, endVert, pairedHalfedge}` of `faceHalfedges` -/
structure HE3 where
  start : Nat
  endV : Nat
  pair : Nat
deriving DecidableEq, Repr, Inhabited

/-- `facePtrR` and the log of writes into `halfedgeR` (slot, value), in program order -/
structure Out where
  ptr : List Nat
  log : List (Nat × HE3)
deriving Repr, Inhabited

/-- the body of the `PairUp` callbacks (l.369-381, l.421-433) and of the loop of
`DuplicateHalfedges` (l.475-482): two cursor fetches, two writes -/
def emit (o : Out) (fL fR s e : Nat) : Out :=
  let fwd := o.ptr.getD fL 0
  let ptr1 := o.ptr.set fL (fwd + 1)
  let bwd := ptr1.getD fR 0
  let ptr2 := ptr1.set fR (bwd + 1)
  ⟨ptr2, o.log ++ [(fwd, ⟨s, e, bwd⟩), (bwd, ⟨e, s, fwd⟩)]⟩

def emitAll (o : Out) (fL fR : Nat) (ps : List (Nat × Nat)) : Out :=
  ps.foldl (fun o p => emit o fL fR p.1 p.2) o

/-! ### the cursor fetches under an arbitrary interleaving -/

/-- one halfedge pair to be written: left face, right face, start vertex, end vertex -/
structure Ev where
  fL : Nat
  fR : Nat
  s : Nat
  e : Nat
deriving DecidableEq, Repr, Inhabited

/-- the cursor fetches (`facePtr[f]++` / `AtomicAdd(facePtr[f], 1)`) executed in the order `fs`
(the face of each successive fetch): final cursors and the slot every fetch obtained.  A schedule
of the parallel `for_each_n` over `DuplicateHalfedges` is an ORDER of these fetches; the writes go
to the slots obtained, so nothing else is shared. -/
def fetch : List Nat → List Nat → List Nat × List Nat
  | ptr, [] => (ptr, [])
  | ptr, f :: fs =>
    let s := ptr.getD f 0
    let r := fetch (ptr.set f (s + 1)) fs
    (r.1, s :: r.2)

/-- the fetches of a list of events in program order: left face, right face, left face, … -/
def facesOf (evs : List Ev) : List Nat := evs.flatMap fun ev => [ev.fL, ev.fR]

/-! ## meshes, inclusion numbers, vertex layout -/

/-- `Halfedges` of one operand: `start_`, `paired_` (three per triangle; −1 = tombstone) -/
structure Mesh where
  start : Array Int
  pair : Array Int
deriving Repr, Inhabited

def Mesh.nH (m : Mesh) : Nat := m.start.size
def Mesh.nTri (m : Mesh) : Nat := m.start.size / 3
/-- `NextHalfedge` (shared.h l.33) -/
def nextH (h : Nat) : Nat := if h % 3 = 2 then h - 2 else h + 1
def Mesh.st (m : Mesh) (h : Nat) : Int := m.start.getD h (-1)
def Mesh.en (m : Mesh) (h : Nat) : Int := m.start.getD (nextH h) (-1)
def Mesh.pr (m : Mesh) (h : Nat) : Nat := (m.pair.getD h (-1)).toNat

/-- `exclusive_scan(…, init, AbsSum())` (l.806-825): offsets and the final count -/
def scanAbs (init : Nat) : List Int → List Nat × Nat
  | [] => ([], init)
  | x :: xs => let r := scanAbs (init + x.natAbs) xs; (init :: r.1, r.2)

/-! ## AddNewEdgeVerts -/

/-- one entry of `p1q2` seen from the operand that owns the EDGE: the halfedge, the other
operand's face, `i12[i]`, `v12R[i]` and `collisionId = i + offset` -/
structure Coll where
  edge : Nat
  face : Nat
  incl : Int
  vert : Nat
  cid : Int
deriving Repr, Inhabited

/-- the `|inclusion|` entries pushed into one vector (l.242-244) -/
def collEntries (c : Coll) (isStart : Bool) : List EdgePos :=
  (List.range c.incl.natAbs).map fun j => ⟨0, c.vert + j, c.cid, isStart⟩

/-- `std::map<key, vector<EdgePos>>` iterated in key order: association list sorted by key.
`edgesP`/`edgesQ` use keys `(halfedge, 0)`. -/
abbrev EMap := List ((Nat × Nat) × List EdgePos)

def keyLt (a b : Nat × Nat) : Bool := decide (a.1 < b.1) || (decide (a.1 = b.1) && decide (a.2 < b.2))

/-- `map[k]` (creating the entry) followed by `push_back` of `es` -/
def EMap.push : EMap → Nat × Nat → List EdgePos → EMap
  | [], k, es => [(k, es)]
  | (k', l) :: r, k, es =>
    if k = k' then (k', l ++ es) :: r
    else if keyLt k k' then (k, es) :: (k', l) :: r
    else (k', l) :: EMap.push r k es

/-- `AddNewEdgeVerts` (l.219-247), one collision.  `forward` = the edge operand is P. -/
def addOne (forward : Bool) (m : Mesh) (st : EMap × EMap) (c : Coll) : EMap × EMap :=
  let direction := decide (c.incl < 0)
  let kR0 : Nat × Nat := (m.pr c.edge / 3, c.face)
  let keyRight := if forward then kR0 else (kR0.2, kR0.1)
  let kL0 : Nat × Nat := (c.edge / 3, c.face)
  let keyLeft := if forward then kL0 else (kL0.2, kL0.1)
  let eP := st.1.push (c.edge, 0) (collEntries c direction)
  let eN := st.2.push keyRight (collEntries c (direction ^^ !forward))
  let eN := eN.push keyLeft (collEntries c (direction ^^ forward))
  (eP, eN)

def addNewEdgeVerts (forward : Bool) (m : Mesh) (edgesNew : EMap) (cs : List Coll) : EMap × EMap :=
  cs.foldl (addOne forward m) ([], edgesNew)

/-! ## SizeOutput -/

def bump (a : Array Nat) (i w : Nat) : Array Nat := a.setIfInBounds i (a.getD i 0 + w)

def absAt (i03 : Array Int) (v : Int) : Nat := (i03.getD v.toNat 0).natAbs

/-- `CountVerts` (l.68-77) for face `f` -/
def countVerts (m : Mesh) (i03 : Array Int) (f : Nat) : Nat :=
  absAt i03 (m.st (3 * f)) + absAt i03 (m.st (3 * f + 1)) + absAt i03 (m.st (3 * f + 2))

/-- `CountNewVerts` (l.79-102), one collision: `offE` = where the edge operand's faces start in
`sidesPerFacePQ`, `offF` = where the face operand's faces start -/
def countNew (m : Mesh) (offE offF : Nat) (sides : Array Nat) (c : Coll) : Array Nat :=
  let w := c.incl.natAbs
  let s := bump sides (offF + c.face) w
  let s := bump s (offE + c.edge / 3) w
  bump s (offE + m.pr c.edge / 3) w

/-- `sidesPerFacePQ` (l.113-139) -/
def sidesPerFace (P Q : Mesh) (i03 i30 : Array Int) (c12 c21 : List Coll) : Array Nat :=
  let nP := P.nTri
  let s0 : Array Nat := ((List.range nP).map (countVerts P i03) ++ (List.range Q.nTri).map (countVerts Q i30)).toArray
  let s1 := c12.foldl (countNew P 0 nP) s0
  c21.foldl (countNew Q nP 0) s1

/-- exclusive prefix sums (`inclusive_scan` into `begin() + 1`, l.146 / l.186) -/
def exSum (init : Nat) : List Nat → List Nat
  | [] => [init]
  | x :: xs => init :: exSum (init + x) xs

/-- `SizeOutput`: `(faceEdge, facePQ2R)`; `facePQ2R` is resized to the number of faces (l.149) -/
def sizeOutput (sides : List Nat) : List Nat × List Nat :=
  let facePQ2R := (exSum 0 (sides.map fun x => if x > 0 then 1 else 0)).take sides.length
  let faceEdge := exSum 0 (sides.filter (· ≠ 0))
  (faceEdge, facePQ2R)

/-! ## the Append* phases -/

/-- everything one operand contributes: its mesh, inclusion numbers of its vertices, first output
vertex of every vertex, where its faces start in `facePQ2R` -/
structure Side where
  m : Mesh
  incl : Array Int
  v2R : Array Nat
  faceOff : Nat

structure Asm where
  out : Out
  keys : List (List Int)          -- remaining oracle lists
  lists : List (List EdgePos)     -- every vector handed to PairUp (reverse order)
  whole : Array Bool              -- `wholeHalfedgeP` of the operand being processed
  bad : Nat                       -- oracle lists of the wrong length / missing

def popKeys (a : Asm) (n : Nat) : List Int × Asm :=
  match a.keys with
  | [] => (List.replicate n 0, { a with bad := a.bad + 1 })
  | k :: ks => (k, { a with keys := ks, bad := if k.length = n then a.bad else a.bad + 1 })

/-- `AppendPartialEdges`, body of the loop over `edgesP` (l.322-382) -/
def appendPartial (sd : Side) (facePQ2R : Array Nat) (a : Asm) (kv : (Nat × Nat) × List EdgePos) : Asm :=
  let edgeP := kv.1.1
  let pairP := sd.m.pr edgeP
  let whole := (a.whole.setIfInBounds edgeP false).setIfInBounds pairP false
  let vStart := (sd.m.st edgeP).toNat
  let vEnd := (sd.m.en edgeP).toNat
  let es0 := partialEntries kv.2 (sd.v2R.getD vStart 0) (sd.v2R.getD vEnd 0) (sd.incl.getD vStart 0) (sd.incl.getD vEnd 0)
  let (ks, a) := popKeys a es0.length
  let es := withKeys es0 ks
  let faceLeft := facePQ2R.getD (sd.faceOff + edgeP / 3) 0
  let faceRight := facePQ2R.getD (sd.faceOff + pairP / 3) 0
  { a with out := emitAll a.out faceLeft faceRight (pairUp es), lists := es :: a.lists, whole := whole }

/-- `AppendNewEdges`, body of the loop over `edgesNew` (l.396-434) -/
def appendNew (numFaceP : Nat) (facePQ2R : Array Nat) (a : Asm) (kv : (Nat × Nat) × List EdgePos) : Asm :=
  let es0 := stableSort kv.2
  let (ks, a) := popKeys a es0.length
  let es := withKeys es0 ks
  let faceLeft := facePQ2R.getD kv.1.1 0
  let faceRight := facePQ2R.getD (numFaceP + kv.1.2) 0
  { a with out := emitAll a.out faceLeft faceRight (pairUp es), lists := es :: a.lists }

/-- the halfedge pairs `DuplicateHalfedges::operator()(idx)` writes (l.448-487) -/
def dupHalfedge (sd : Side) (facePQ2R : Array Nat) (whole : Array Bool) (idx : Nat) : List Ev :=
  if !(whole.getD idx false) then []
  else
    let startVert := sd.m.st idx
    let endVert := sd.m.en idx
    if startVert ≥ endVert then []
    else
      let inclusion := sd.incl.getD startVert.toNat 0
      if inclusion = 0 then []
      else
        let (s0, e0) := if inclusion < 0 then (endVert, startVert) else (startVert, endVert)
        let s := sd.v2R.getD s0.toNat 0
        let e := sd.v2R.getD e0.toNat 0
        let newFace := facePQ2R.getD (sd.faceOff + idx / 3) 0
        let faceRight := facePQ2R.getD (sd.faceOff + sd.m.pr idx / 3) 0
        (List.range inclusion.natAbs).map fun i => ⟨newFace, faceRight, s + i, e + i⟩

/-- `AppendWholeEdges` in index order (the sequential schedule) -/
def wholeEvents (sd : Side) (facePQ2R : Array Nat) (whole : Array Bool) : List Ev :=
  (List.range sd.m.nH).flatMap (dupHalfedge sd facePQ2R whole)

def emitEvents (o : Out) (evs : List Ev) : Out :=
  evs.foldl (fun o ev => emit o ev.fL ev.fR ev.s ev.e) o

/-! ## Winding03 -/

/-- `std::lower_bound` on the (sorted) broken-edge column of `p1q2` followed by the test
`it == end || (*it)[index] != edge` (l.407-412): on a sorted range `lower_bound` returns the first
position whose element is not `< edge` -/
def isBroken (broken : List Nat) (e : Nat) : Bool :=
  match broken.dropWhile (· < e) with
  | x :: _ => x == e
  | [] => false

/-- the `unite(start, end)` calls of `Winding03_` (l.401-413), in index order -/
def unitedEdges (m : Mesh) (broken : List Nat) : List (Int × Int) :=
  (List.range m.nH).filterMap fun e =>
    let s := m.st e
    let t := m.en e
    if s ≥ t then none else if isBroken broken e then none else some (s, t)

/-- one iteration of the flood fill (l.451-456): `root = uA.find(i); if (root == i) return;
w03[i] = w03[root];` -/
def floodStep (root : Nat → Nat) (w : List Int) (i : Nat) : List Int :=
  if root i = i then w else w.set i (w.getD (root i) 0)

/-- the flood fill with the iterations executed in the order `ord` -/
def flood (root : Nat → Nat) (w0 : List Int) (ord : List Nat) : List Int :=
  ord.foldl (floodStep root) w0

/-- is the outcome of the union-find (`rootOf[v] = uA.find(v)`) a system of representatives of
the components of the graph `(0..n-1, edges)`?  (`seqPartition` labels every vertex with the
least vertex of its component: `MV.Dsu.seqPartition_spec/least`.) -/
def rootsOk (n : Nat) (edges : List (Nat × Nat)) (rootOf : List Nat) : Bool :=
  let lab := MV.Dsu.seqPartition n edges
  rootOf.length == n &&
  (List.range n).all fun i =>
    let r := rootOf.getD i 0
    decide (r < n) && lab.getD r 0 == lab.getD i 0 && rootOf.getD r 0 == r &&
      rootOf.getD (lab.getD i 0) 0 == r

/-- `Winding03_` after the union-find: seeds at the roots, flood fill in index order -/
def winding03 (rootOf : List Nat) (seed : List Int) : List Int :=
  flood (fun i => rootOf.getD i 0) seed (List.range seed.length)

/-! ## the whole assembly -/

structure Input where
  op : OpType
  P : Mesh
  Q : Mesh
  w03 : List Int
  w30 : List Int
  x12 : List (Nat × Nat × Int)      -- `(edgeP, faceQ, x12)`
  x21 : List (Nat × Nat × Int)      -- `(faceP, edgeQ, x21)`
  keys : List (List Int)

structure Result where
  sides : List Nat
  faceEdge : List Nat
  facePQ2R : List Nat
  lists : List (List EdgePos)
  ptr : List Nat
  log : List (Nat × HE3)
  bad : Nat

def mkColls (xs : List (Nat × Nat × Int)) (incls : List Int) (v2R : List Nat) (edgeFirst : Bool) (offset : Nat) : List Coll :=
  (List.range xs.length).map fun i =>
    let x := xs.getD i default
    ⟨if edgeFirst then x.1 else x.2.1, if edgeFirst then x.2.1 else x.1, incls.getD i 0, v2R.getD i 0, ((i + offset : Nat) : Int)⟩

/-- `Boolean3::Result` from the inclusion numbers (l.791) to the end of the second
`AppendWholeEdges` (l.925) -/
def assemble (inp : Input) : Result :=
  let i03 := inp.w03.map (keepP inp.op)
  let i30 := inp.w30.map (keepQ inp.op)
  let i12 := inp.x12.map fun x => keepNew inp.op x.2.2
  let i21 := inp.x21.map fun x => keepNew inp.op x.2.2
  let (vP2R, nPv) := scanAbs 0 i03
  let (vQ2R, nPQ) := scanAbs nPv i30
  let (v12R, n12) := scanAbs nPQ i12
  let (v21R, _) := scanAbs n12 i21
  let c12 := mkColls inp.x12 i12 v12R true 0
  let c21 := mkColls inp.x21 i21 v21R false inp.x12.length
  let (edgesP, edgesNew) := addNewEdgeVerts true inp.P [] c12
  let (edgesQ, edgesNew) := addNewEdgeVerts false inp.Q edgesNew c21
  let sides := (sidesPerFace inp.P inp.Q i03.toArray i30.toArray c12 c21).toList
  let (faceEdge, facePQ2R) := sizeOutput sides
  let f2r := facePQ2R.toArray
  let sdP : Side := ⟨inp.P, i03.toArray, vP2R.toArray, 0⟩
  let sdQ : Side := ⟨inp.Q, i30.toArray, vQ2R.toArray, inp.P.nTri⟩
  let a0 : Asm := ⟨⟨faceEdge, []⟩, inp.keys, [], Array.replicate inp.P.nH true, 0⟩
  let a1 := edgesP.foldl (appendPartial sdP f2r) a0
  let wholeP := a1.whole
  let a2 := edgesQ.foldl (appendPartial sdQ f2r) { a1 with whole := Array.replicate inp.Q.nH true }
  let wholeQ := a2.whole
  let a3 := edgesNew.foldl (appendNew inp.P.nTri f2r) a2
  let o4 := emitEvents a3.out (wholeEvents sdP f2r wholeP)
  let o5 := emitEvents o4 (wholeEvents sdQ f2r wholeQ)
  ⟨sides, faceEdge, facePQ2R, a3.lists.reverse, o5.ptr, o5.log, a3.bad + a3.keys.length⟩

/-- replay the write log into an array of `total` slots; second component: number of writes that
hit an already written or out-of-range slot -/
def applyLog (total : Nat) (log : List (Nat × HE3)) : Array (Option HE3) × Nat :=
  log.foldl (fun (acc : Array (Option HE3) × Nat) w =>
    if w.1 < acc.1.size then
      match acc.1.getD w.1 none with
      | none => (acc.1.setIfInBounds w.1 (some w.2), acc.2)
      | some _ => (acc.1.setIfInBounds w.1 (some w.2), acc.2 + 1)
    else (acc.1, acc.2 + 1)) (Array.replicate total none, 0)

end MV.BoolAsm
