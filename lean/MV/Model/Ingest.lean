import MV.Model.Halfedge
/-
Property C09: the validation ladder of `Manifold::Impl::Impl(const MeshGLP<Precision,I>&)`
(/repo/src/impl.h:306-530), `MeshGLP::NumVert/NumTri` (/repo/include/manifold/mesh.h:103-106),
the index part of `MergeMeshGLP` (`MeshGL::Merge()`, /repo/src/sort.cpp:78-228) and the
numeric-argument guards of the deriving operations.  Core Lean only; executable; linked into
`mvdriver` (engine `ingest`).

`MeshShape` carries exactly what the ladder looks at: vector lengths, `numProp`, the index
values, one finiteness bit per float vector.  EVERY array read / write of the C++ is a checked
primitive (`rd`, `wr`, `chk`) and EVERY division is `cdiv`; a misuse yields `R.fault` carrying the
source line.  `R.err e` is `MakeEmpty(Error::e); return;`.  The theorems (MV/Props/C09.lean) say
that for ALL inputs no `fault` is reachable, i.e. the guards the code has are sufficient for every
later index / division.

The model exists in two versions selected by `Guards`: `Guards.pinned` is the code before the C09
repairs (three guards missing: the proof of `ingest_total_safe` is impossible there, and
MV/Props/C09.lean exhibits the concrete counter-examples by evaluation), `Guards.fixed` is the
tree with patches 01-03 applied.  The driver runs the `fixed` version against the real
constructor.

Integer widths: `const uint32_t vert = (uint32_t) triVerts[k]`, `const uint32_t from =
mergeFromVert[i]` truncate 64-bit indices of a MeshGL64 to 32 bits: modelled (`u32`).  Sizes are
unbounded `Nat` (sizes >= 2^32 are outside the model, DESIGN.md section 4).
-/
namespace MV.Ingest
open MV.Mesh

/-- `Manifold::Error` (/repo/include/manifold/manifold.h:124-140), same order -/
inductive Err where
  | noError | nonFiniteVertex | notManifold | vertexOutOfBounds | propertiesWrongLength
  | missingPositionProperties | mergeVectorsDifferentLengths | mergeIndexOutOfBounds
  | transformWrongLength | runIndexWrongLength | faceIDWrongLength | invalidConstruction
  | resultTooLarge | invalidTangents | cancelled
deriving DecidableEq, Repr, Inhabited

def Err.code : Err → Nat
  | .noError => 0 | .nonFiniteVertex => 1 | .notManifold => 2 | .vertexOutOfBounds => 3
  | .propertiesWrongLength => 4 | .missingPositionProperties => 5
  | .mergeVectorsDifferentLengths => 6 | .mergeIndexOutOfBounds => 7
  | .transformWrongLength => 8 | .runIndexWrongLength => 9 | .faceIDWrongLength => 10
  | .invalidConstruction => 11 | .resultTooLarge => 12 | .invalidTangents => 13 | .cancelled => 14

/-- a checked primitive was misused; the number is the source line of the access -/
inductive Fault where
  | oob (line : Nat) | divZero (line : Nat) | uninit (line : Nat)
deriving DecidableEq, Repr, Inhabited

/-- result of running a piece of the constructor -/
inductive R (α : Type) where
  | ok (a : α) | err (e : Err) | fault (f : Fault)
deriving Repr, DecidableEq

def R.bind {α β : Type} : R α → (α → R β) → R β
  | .ok a, f => f a
  | .err e, _ => .err e
  | .fault x, _ => .fault x

instance : Monad R where
  pure := R.ok
  bind := R.bind

/-- no checked primitive failed -/
def R.Safe {α : Type} : R α → Prop
  | .fault _ => False
  | _ => True

/-- `a[i]` read -/
def rd {α : Type} (ln : Nat) (a : Array α) (i : Nat) : R α :=
  if h : i < a.size then .ok a[i] else .fault (.oob ln)
/-- `a[i] = v` -/
def wr {α : Type} (ln : Nat) (a : Array α) (i : Nat) (v : α) : R (Array α) :=
  if i < a.size then .ok (a.set! i v) else .fault (.oob ln)
/-- access at index `i` of a vector of which only the length is modelled -/
def chk (ln len i : Nat) : R Unit := if i < len then .ok () else .fault (.oob ln)
/-- integer division -/
def cdiv (ln a b : Nat) : R Nat := if b = 0 then .fault (.divZero ln) else .ok (a / b)
/-- `MakeEmpty(e); return;` -/
def fail {α : Type} (e : Err) : R α := .err e

/-- `for (i = lo; i < lo + n; ++i) s = f i s` with early exit on error / fault -/
def forRange {σ : Type} (f : Nat → σ → R σ) : Nat → Nat → σ → R σ
  | _, 0, s => .ok s
  | lo, n + 1, s => (f lo s).bind fun s' => forRange f (lo + 1) n s'

def u32 : Nat := 4294967296

/-- which of the C09 repairs are in the tree -/
structure Guards where
  /-- mesh.h: `NumVert()` returns 0 when `numProp == 0` (patch 01) -/
  numVertGuard : Bool
  /-- impl.h: the run table must partition `triVerts` (patch 02) -/
  runTable : Bool
  /-- impl.h: `halfedgeTangent.size() ∈ {0, 12·NumTri}`, tangents of dropped triangles dropped (patch 03) -/
  tangentLen : Bool
  /-- impl.h: an odd number of kept triangles is `NotManifold` before `CreateHalfedges` (patch 07) -/
  evenTris : Bool
  /-- impl.h: indices are compared with `numVert` at their full width (patch 09); before, a 64-bit
  index was first truncated to `uint32_t` -/
  wideCompare : Bool
deriving Repr, DecidableEq

def Guards.pinned : Guards := ⟨false, false, false, false, false⟩
def Guards.fixed : Guards := ⟨true, true, true, true, true⟩

/-- `(uint32_t) x` of the pinned tree / the identity after patch 09 -/
def castIdx (g : Guards) (x : Nat) : Nat := if g.wideCompare then x else x % u32

/-- what the constructor looks at -/
structure MeshShape where
  numProp : Nat
  /-- `vertProperties.size()` -/
  nVertProp : Nat
  vertFinite : Bool
  triVerts : Array Nat
  mergeFrom : Array Nat
  mergeTo : Array Nat
  runIndex : Array Nat
  /-- `runOriginalID.size()` (the values are copied, never used as indices) -/
  nRunID : Nat
  /-- `runTransform.size()` -/
  nRunTransform : Nat
  transformFinite : Bool
  /-- `faceID.size()` -/
  nFaceID : Nat
  /-- `halfedgeTangent.size()` -/
  nTangent : Nat
  tangentFinite : Bool
deriving Repr

/-- `MeshGLP::NumVert()` (mesh.h:104) -/
def numVertOf (g : Guards) (s : MeshShape) : R Nat :=
  if g.numVertGuard && s.numProp == 0 then .ok 0 else cdiv 104 s.nVertProp s.numProp

/-- `MeshGLP::NumTri()` (mesh.h:106) -/
def numTriOf (s : MeshShape) : Nat := s.triVerts.size / 3

/-- impl.h:415-423: the implicit end of the run table -/
def normRunIndex (s : MeshShape) : Array Nat :=
  let runEnd := s.triVerts.size
  if s.runIndex.size = 0 then #[0, runEnd]
  else if s.runIndex.size = s.nRunID then s.runIndex.push runEnd
  else if s.runIndex.size = 1 then s.runIndex.push runEnd
  else s.runIndex

/-- number of runs iterated: `runOriginalID` gets one entry when empty (impl.h:427-430) -/
def nRun (s : MeshShape) : Nat := if s.nRunID = 0 then 1 else s.nRunID

/-- patch 02: `ri[0] = 0`, `ri[numRun] = triVerts.size()`, non-decreasing on `[0, numRun]` -/
def runTableOk (s : MeshShape) : Bool :=
  let ri := normRunIndex s
  decide (nRun s + 1 ≤ ri.size) && ri[0]! == 0 && ri[nRun s]! == s.triVerts.size &&
    (List.range (nRun s)).all fun i => decide (ri[i]! ≤ ri[i + 1]!)

/-- the straight-line rungs (impl.h:321-376 + the two new ones), as (condition, error) pairs in
source order; the first true condition is the exit taken -/
def rungs (g : Guards) (s : MeshShape) (numVert : Nat) : List (Bool × Err) :=
  let numTri := numTriOf s
  [ (numVert == 0 && numTri == 0, .noError),
    (decide (numVert < 4) || decide (numTri < 4), .notManifold),
    (decide (s.numProp < 3), .missingPositionProperties),
    (s.mergeFrom.size != s.mergeTo.size, .mergeVectorsDifferentLengths),
    (s.nRunTransform != 0 && 12 * s.nRunID != s.nRunTransform, .transformWrongLength),
    (s.nRunID != 0 && s.runIndex.size != 0 && s.nRunID + 1 != s.runIndex.size &&
       s.nRunID != s.runIndex.size, .runIndexWrongLength),
    (g.runTable && !runTableOk s, .runIndexWrongLength),
    (s.nFaceID != 0 && s.nFaceID != numTri, .faceIDWrongLength),
    (g.tangentLen && s.nTangent != 0 && s.nTangent != 12 * numTri, .invalidTangents),
    (!s.vertFinite, .nonFiniteVertex),
    (!s.transformFinite, .invalidConstruction),
    (!s.tangentFinite, .invalidConstruction) ]

def firstMatch : List (Bool × Err) → Option Err
  | [] => none
  | (c, e) :: rest => if c then some e else firstMatch rest

def ladder (g : Guards) (s : MeshShape) (numVert : Nat) : R Unit :=
  match firstMatch (rungs g s numVert) with
  | some e => fail e
  | none => .ok ()

/-- impl.h:380-388, one iteration -/
def mergeStep (g : Guards) (s : MeshShape) (numVert : Nat) (i : Nat) (p2v : Array Nat) : R (Array Nat) := do
  let from_ ← rd 381 s.mergeFrom i
  let to ← rd 382 s.mergeTo i
  let from_ := castIdx g from_
  let to := castIdx g to
  if from_ ≥ numVert ∨ to ≥ numVert then fail .mergeIndexOutOfBounds
  else wr 387 p2v from_ to

/-- impl.h:377-389 -/
def buildProp2vert (g : Guards) (s : MeshShape) (numVert : Nat) : R (Array Nat) :=
  if s.mergeFrom.size = 0 then .ok #[]
  else forRange (mergeStep g s numVert) 0 s.mergeFrom.size (Array.range numVert)

/-- impl.h:400-406, one vertex: reads `vertProperties[numProp*i + j]`, `j < numProp` -/
def copyVert (s : MeshShape) (i : Nat) (_u : Unit) : R Unit :=
  forRange (fun j _ => chk 402 s.nVertProp (s.numProp * i + j)) 0 s.numProp ()

/-- impl.h:409-413 -/
def copyTangent (s : MeshShape) (i : Nat) (_u : Unit) : R Unit :=
  forRange (fun j _ => chk 412 s.nTangent (4 * i + j)) 0 4 ()

/-- impl.h:441-448 + 454-455, one run.  `triRef[tri] = some run` (`none` = `resize_nofill`) -/
def runStep (s : MeshShape) (ri : Array Nat) (i : Nat) (triRef : Array (Option Nat)) :
    R (Array (Option Nat)) := do
  let a ← rd 441 ri i
  let b ← rd 442 ri (i + 1)
  let triRef ← forRange (fun tri tr => do
      let tr ← wr 444 tr tri (some i)
      if s.nFaceID ≠ 0 then (chk 446 s.nFaceID tri).bind fun _ => R.ok tr else R.ok tr)
    (a / 3) (b / 3 - a / 3) triRef
  if s.nRunTransform ≠ 0 then (chk 455 s.nRunTransform (12 * i + 11)).bind fun _ => R.ok triRef
  else R.ok triRef

/-- what the triangle loop leaves behind -/
structure Kept where
  /-- `triProp` when `needsPropMap`, else unused (property-vertex indices) -/
  triProp : Array Tri
  /-- `triVert` (after `prop2vert`) -/
  triVert : Array Tri
  /-- run of every kept triangle (`meshRelation_.triRef`) -/
  refs : Array Nat
  /-- index of every kept triangle in the input -/
  keptIdx : Array Nat
deriving Repr, DecidableEq

/-- impl.h:478-486, one corner -/
def corner (g : Guards) (s : MeshShape) (numVert : Nat) (p2v : Array Nat) (k : Nat) : R (Nat × Nat) := do
  let tv ← rd 479 s.triVerts k
  let vert := castIdx g tv
  if vert ≥ numVert then fail .vertexOutOfBounds
  else if p2v.size = 0 then R.ok (vert, vert)
  else (rd 485 p2v vert).bind fun t => R.ok (vert, t)

/-- impl.h:476-498, one triangle -/
def triStep (g : Guards) (s : MeshShape) (numVert : Nat) (p2v : Array Nat) (triRef : Array (Option Nat))
    (i : Nat) (k : Kept) : R Kept := do
  let c0 ← corner g s numVert p2v (3 * i)
  let c1 ← corner g s numVert p2v (3 * i + 1)
  let c2 ← corner g s numVert p2v (3 * i + 2)
  if c0.2 ≠ c1.2 ∧ c1.2 ≠ c2.2 ∧ c2.2 ≠ c0.2 then
    if triRef.size = 0 then
      R.ok { k with triProp := k.triProp.push (c0.1, c1.1, c2.1), triVert := k.triVert.push (c0.2, c1.2, c2.2),
                    keptIdx := k.keptIdx.push i }
    else
      (rd 495 triRef i).bind fun r =>
        match r with
        | none => R.fault (.uninit 495)
        | some run => R.ok { triProp := k.triProp.push (c0.1, c1.1, c2.1), triVert := k.triVert.push (c0.2, c1.2, c2.2),
                             refs := k.refs.push run, keptIdx := k.keptIdx.push i }
  else R.ok k

/-- result of the ladder + loops: everything `CreateHalfedges` and `SortGeometry` are given -/
structure Ingested where
  numVert : Nat
  kept : Kept
  /-- `halfedgeTangent_.size()` -/
  nTang : Nat
deriving Repr, DecidableEq

/-- what follows the triangle loop.  Patch 07: an odd number of kept triangles is `NotManifold`;
before it `CreateHalfedges` (impl.cpp:540-560) wrote `2·(n/2)` of the `n = 3·kept` halfedges and
`CheckHalfedges` (properties.cpp:75-91) read the remaining, uninitialised one (`Pair(pair)` with a
garbage `pair`).  Tangents: patch 03 keeps those of the kept triangles; before it all of them
stayed, and `ReindexFace` (sort.cpp:62-72) reads `oldHalfedgeTangent[3*oldFace+i]`, `oldFace < kept`. -/
def ingestTail (g : Guards) (s : MeshShape) (numVert : Nat) (kept : Kept) : R Ingested :=
  if kept.triVert.size % 2 ≠ 0 then
    (if g.evenTris then fail .notManifold else .fault (.uninit 91))
  else if g.tangentLen then
    R.ok ⟨numVert, kept, if s.nTangent = 0 then 0 else 3 * kept.triVert.size⟩
  else
    if s.nTangent / 4 ≠ 0 ∧ kept.triVert.size ≠ 0 then
      (chk 72 (s.nTangent / 4) (3 * kept.triVert.size - 1)).bind fun _ => R.ok ⟨numVert, kept, s.nTangent / 4⟩
    else R.ok ⟨numVert, kept, s.nTangent / 4⟩

/-- `Impl(MeshGLP)` from entry (impl.h:315) to the call of `CreateHalfedges` (impl.h:503), plus the
first reads `IsManifold` and `SortFaces`/`ReindexFace` make of what it leaves behind. -/
def ingest (g : Guards) (s : MeshShape) : R Ingested :=
  (numVertOf g s).bind fun numVert =>
  (ladder g s numVert).bind fun _ =>
  (buildProp2vert g s numVert).bind fun p2v =>
  -- impl.h:391-406
  (numVertOf g s).bind fun nv2 =>
  (forRange (copyVert s) 0 nv2 ()).bind fun _ =>
  -- impl.h:409-413
  (forRange (copyTangent s) 0 (s.nTangent / 4) ()).bind fun _ =>
  -- impl.h:415-459
  (forRange (runStep s (normRunIndex s)) 0 (nRun s) (Array.replicate (numTriOf s) none)).bind fun triRef =>
  -- impl.h:461-499
  (forRange (triStep g s numVert p2v triRef) 0 (numTriOf s) ⟨#[], #[], #[], #[]⟩).bind fun kept =>
  ingestTail g s numVert kept

/-- `CreateHalfedges` + `IsManifold()` (impl.h:503-507) on the kept triangles, by the C01 model -/
def isManifoldKept (k : Kept) : Option Bool :=
  if k.triVert.size = 0 then some true else
  match MV.Halfedge.createHalfedges k.triVert.toList with
  | .ok o => some (decide (MV.Halfedge.PairInv o.start o.paired))
  | .error _ => none

/-- impl.h:509-530 when `IsManifold()` held.  With NO kept triangle (>= 4 input triangles, all of
them degenerate after merging) `RemoveUnreferencedVerts` marks every vertex NaN, `SortGeometry`
returns at once for an empty `halfedge_` (sort.cpp:236) without compacting them, and the final
`IsFinite()` fails: the constructor reports `NonFiniteVertex` for a finite input.  Mirrored as it is. -/
def tailCode (k : Kept) : Nat := if k.triVert.size = 0 then Err.nonFiniteVertex.code else Err.noError.code

/-- the `Status()` of `Manifold(meshGL)` as a number; 100 + line for a fault; 99 when the
`CreateHalfedges` model itself reports an out-of-range access -/
def statusCode (g : Guards) (s : MeshShape) : Nat × Nat :=
  match ingest g s with
  | .err e => (e.code, 0)
  | .fault (.oob l) => (1000 + l, 0)
  | .fault (.divZero l) => (2000 + l, 0)
  | .fault (.uninit l) => (3000 + l, 0)
  | .ok r =>
    match isManifoldKept r.kept with
    | some true => (tailCode r.kept, r.kept.triVert.size)
    | some false => (2, r.kept.triVert.size)
    | none => (99, r.kept.triVert.size)

/-! ## `MergeMeshGLP` (sort.cpp:78-228): the index discipline -/

/-- patch 04: the up-front validation of `Merge()`; `true` = proceed -/
def mergeGuard (s : MeshShape) : Bool :=
  decide (3 ≤ s.numProp) && s.mergeFrom.size == s.mergeTo.size &&
  s.triVerts.toList.all (fun v => decide (v < s.nVertProp / s.numProp)) &&
  s.mergeFrom.toList.all (fun v => decide (v < s.nVertProp / s.numProp)) &&
  s.mergeTo.toList.all (fun v => decide (v < s.nVertProp / s.numProp))

/-- sort.cpp:84-86 -/
def mmStep (s : MeshShape) (i : Nat) (m : Array Nat) : R (Array Nat) := do
  let f ← rd 85 s.mergeFrom i
  let t ← rd 85 s.mergeTo i
  wr 85 m f t

/-- sort.cpp:94-98 for one corner, and what is later done with the value when the edge turns out to
be open: `vertProperties[numProp*vert + 0..2]` (sort.cpp:179-181) and `uf.unite(vert, ·)`
(sort.cpp:204, `DisjointSets(numVert)`).  Every corner is treated as potentially open (a superset
of `openVerts`, which are all values `merge[triVerts[k]]`). -/
def mmCorner (s : MeshShape) (numVert : Nat) (m : Array Nat) (k : Nat) (_u : Unit) : R Unit := do
  let tv ← rd 95 s.triVerts k
  let v ← rd 95 m tv
  chk 181 s.nVertProp (s.numProp * v + 2)
  chk 204 numVert v

/-- sort.cpp:209-212 -/
def mmUnite (s : MeshShape) (numVert : Nat) (i : Nat) (_u : Unit) : R Unit := do
  let f ← rd 210 s.mergeFrom i
  let t ← rd 211 s.mergeTo i
  chk 210 numVert f
  chk 211 numVert t

/-- `MergeMeshGLP`: `ok false` = returned `false` without touching the mesh because the guard
rejected it; `ok true` = the body ran. -/
def mergeRun (guarded : Bool) (g : Guards) (s : MeshShape) : R Bool := do
  if guarded && !mergeGuard s then R.ok false else
  let numVert ← numVertOf g s
  let m ← forRange (mmStep s) 0 s.mergeFrom.size (Array.range numVert)
  forRange (mmCorner s numVert m) 0 (3 * numTriOf s) ()
  forRange (mmUnite s numVert) 0 s.mergeFrom.size ()
  R.ok true

/-! ## numeric-argument guards of deriving operations and constructors -/

/-- classes of a `double` argument -/
inductive FC where
  | nan | negInf | neg | zero | pos | posInf
deriving DecidableEq, Repr, Inhabited

def FC.finite : FC → Bool
  | .neg | .zero | .pos => true
  | _ => false

/-- patch 05, `CreateLevelSet` (sdf.cpp): `edgeLength` finite and positive, bounds finite with
`min ≤ max`, and every `gridSize` component (already computed as a double) below `2^20`.
`dims i` = class of `bounds.Size()[i]`, `big i` = `dim[i]/edgeLength + 1 ≥ 2^20`. -/
def levelSetGuard (edge : FC) (boundsFinite : Bool) (dims : List FC) (big : List Bool) : Option Err :=
  if edge != .pos || !boundsFinite || dims.any (fun d => d != .pos && d != .zero) || big.any id
  then some .invalidConstruction else none

/-- `ComputeGridPow` axis (sdf.cpp:110-114): `CeilLog2(n + 3)` = least `p` with `n + 3 ≤ 2^p` -/
def ceilLog2 (v : Nat) : Nat := if v ≤ 1 then 0 else Nat.log2 (v - 1) + 1

/-- `EncodeIndex(ivec4(gridSize + 2, 1), gridPow)` shifts by at most this many bits -/
def encodeShift (nx ny nz : Nat) : Nat := 1 + ceilLog2 (nz + 3) + ceilLog2 (ny + 3) + ceilLog2 (nx + 3)

/-- patch 06: a channel argument (`normalIdx`, `gaussianIdx`, `meanIdx`, `numProp`) is accepted iff
`0 ≤ idx` and `idx + width ≤ limit`; `limit` is `NumProp()` for readers (`SmoothByNormals`,
`GetMeshGL`) and the channel cap `kMaxProp` for writers that grow the property set. -/
def channelOk (idx : Int) (width limit : Nat) : Bool := decide (0 ≤ idx) && decide (idx.toNat + width ≤ limit)

/-- the reads `properties_[prop*numProp + normalIdx + i]`, `i < 3`, of `GetNormal`
(smoothing.cpp:269-275) for a property vertex `prop < numPropVert` -/
def getNormalReads (numProp numPropVert : Nat) (normalIdx : Int) (prop : Nat) : R Unit :=
  if normalIdx < 0 then .fault (.oob 273) else
  forRange (fun i _ => chk 273 (numProp * numPropVert) (prop * numProp + normalIdx.toNat + i)) 0 3 ()

/-! ## status algebra: programs over the public API -/

/-- a program whose leaves are constructor results with a known status -/
inductive Prog where
  | leaf (st : Err)
  /-- a deriving method with one operand; `own` is the error the op itself raises on a good operand
  (`noError` when its arguments are fine) -/
  | un (own : Err) (p : Prog)
  /-- `Boolean` / `Split` / `Minkowski*`: operands tested in order (boolean_result.cpp:735-744) -/
  | bin (a b : Prog)
  /-- two operands of `BatchBoolean`, `Compose`, `Hull(vector)` (n-ary = nested): the evaluator may
  test them in either order (csg_tree.cpp:237 and the flattening of C03) -/
  | par (a b : Prog)

def errsOf (l : List Err) : List Err := l.filter (· ≠ .noError)

/-- the statuses the implementation may report (a singleton unless `par` occurs) -/
def Prog.stati : Prog → List Err
  | .leaf st => [st]
  | .un own p => (Prog.stati p).map fun e => if e ≠ .noError then e else own
  | .bin a b => (Prog.stati a).flatMap fun ea => if ea ≠ .noError then [ea] else Prog.stati b
  | .par a b =>
    let A := Prog.stati a
    let B := Prog.stati b
    (if A.contains .noError && B.contains .noError then [.noError] else []) ++ errsOf A ++ errsOf B

/-- the program consumes at least one errored leaf -/
def Prog.hasError : Prog → Bool
  | .leaf st => st != .noError
  | .un _ p => Prog.hasError p
  | .bin a b => Prog.hasError a || Prog.hasError b
  | .par a b => Prog.hasError a || Prog.hasError b

end MV.Ingest
