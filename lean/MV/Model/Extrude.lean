import MV.Model.EarClip
/-
Index arithmetic of `Manifold::Extrude` and `Manifold::Revolve`
(/repo/src/constructors.cpp:215-299 and 316-435).  Core Lean only.

Positions are not modelled here: only which vertex indices every emitted triangle carries.
The cap triangulation (`TriangulateIdx(polygonsIndexed)` / `Triangulate(polygons, eps)`) is an
ARGUMENT (`top` / `front`): any triangle list; the theorems assume of it exactly what the C10
theorem `earclip_exit` states, `net (triEdges top) = bdContours contours`.

Extrude transliteration
  nDivisions (after `++nDivisions`)         `N = nDivisions + 1`
  nCrossSection                             `nC = polySizes.sum`
  the loops `for poly (j, idx) / for vert`  `polyTable 0 0 polySizes` / `List.range sz`
  thisVert, lastVert, the three push_backs  `sideTris`
  the cap loop                              `capTris`
  vertPos.size() at the end                 `extrudeNumVert`
  polygonsIndexed (indices idx++)           `contours`

Revolve transliteration (what reaches the index arithmetic: the clipped polygons, each vertex
either `x > 0` (`true`) or on the axis (`false`); `nDivisions ≥ 1`; `isFullRevolution`)
  nSlices                                   `nSlicesOf`
  vertPos.size() when a poly vertex starts  `startOf` (each vertex pushes `nSlices` positions if
                                            `x > 0`, one otherwise: the test `slice == 0 || x > 0`)
  nPosVerts / nRevolveAxisVerts             `poly.count true` / `poly.count false`
  prevStartPosIndex                         `prevStartOf` (the C++ expression, in ℤ, then `toNat`)
  the two push_backs per slice              `revolveVertTris`
  startPoses / endPoses                     `startPosList` / `endPosList`
  front / back triangles                    `revolveCaps`
-/
namespace MV.Extrude
open MV.EarClip

/-! ## Extrude -/

/-- `polygonsIndexed`: polygon `j` carries the consecutive indices `idx, idx+1, …` -/
def contoursFrom (start : Nat) : List Nat → List (List Nat)
  | [] => []
  | s :: rest => (List.range s).map (start + ·) :: contoursFrom (start + s) rest

def contours (polySizes : List Nat) : List (List Nat) := contoursFrom 0 polySizes

/-- the values `(j, idx, poly.size())` the loop `for (const auto& poly : crossSection)` runs
    through (`++j; idx += poly.size();`) -/
def polyTable (j idx : Nat) : List Nat → List (Nat × Nat × Nat)
  | [] => []
  | s :: rest => (j, idx, s) :: polyTable (j + 1) (idx + s) rest

/-- body of the innermost loop (constructors.cpp:262-278) -/
def sideTris (nC N : Nat) (isCone : Bool) (i j idx sz vert : Nat) : List Tri :=
  let offset := idx + nC * i
  let thisVert := vert + offset
  let lastVert := (if vert = 0 then sz else vert) - 1 + offset
  if i = N ∧ isCone = true then
    [(nC * i + j, lastVert - nC, thisVert - nC)]
  else
    [(thisVert, lastVert, thisVert - nC), (lastVert, lastVert - nC, thisVert - nC)]

/-- all side triangles, in emission order -/
def sideAll (polySizes : List Nat) (N : Nat) (isCone : Bool) : List Tri :=
  let nC := polySizes.sum
  (List.range N).flatMap fun i0 =>
    (polyTable 0 0 polySizes).flatMap fun p =>
      (List.range p.2.2).flatMap fun vert => sideTris nC N isCone (i0 + 1) p.1 p.2.1 p.2.2 vert

/-- `for tri in top: push {tri[0], tri[2], tri[1]}; if (!isCone) push tri + nC * nDivisions` -/
def capTris (nC N : Nat) (isCone : Bool) (top : List Tri) : List Tri :=
  top.flatMap fun t =>
    (t.1, t.2.2, t.2.1) ::
      (if isCone then [] else [(t.1 + nC * N, t.2.1 + nC * N, t.2.2 + nC * N)])

/-- the triangle list handed to `CreateHalfedges`; `nDivisions` is the ARGUMENT of `Extrude`
    (before the `++nDivisions`) -/
def extrudeTris (polySizes : List Nat) (nDivisions : Nat) (isCone : Bool) (top : List Tri) : List Tri :=
  sideAll polySizes (nDivisions + 1) isCone ++ capTris polySizes.sum (nDivisions + 1) isCone top

/-- `vertPos.size()`: layers `0 … N` (`0 … N-1` plus one apex per polygon for a cone) -/
def extrudeNumVert (polySizes : List Nat) (nDivisions : Nat) (isCone : Bool) : Nat :=
  if isCone then polySizes.sum * (nDivisions + 1) + polySizes.length
  else polySizes.sum * (nDivisions + 2)

/-! ## Revolve -/

def nSlicesOf (nDiv : Nat) (isFull : Bool) : Nat := if isFull then nDiv else nDiv + 1

/-- how many positions one polygon vertex pushes -/
def cnt (nSlices : Nat) (pos : Bool) : Nat := if pos then nSlices else 1

/-- positions pushed by the first `k` vertices of `poly` -/
def pushedBy (nSlices : Nat) (poly : List Bool) (k : Nat) : Nat := ((poly.take k).map (cnt nSlices)).sum

/-- `startPosIndex = vertPos.size()` for vertex `k` of a polygon whose first vertex starts at `base` -/
def startOf (nSlices : Nat) (poly : List Bool) (base k : Nat) : Nat := base + pushedBy nSlices poly k

def prevIdx (len pv : Nat) : Nat := if pv = 0 then len - 1 else pv - 1

/-- `prevStartPosIndex = startPosIndex + (polyVert == 0 ? nRevolveAxisVerts + nSlices * nPosVerts : 0)
                        + (prevPolyVertex.x == 0.0 ? -1 : -nSlices)`   (an `int` in the C++) -/
def prevStartOf (nSlices : Nat) (poly : List Bool) (start pv : Nat) : Int :=
  (start : Int) + (if pv = 0 then ((poly.count false + nSlices * poly.count true : Nat) : Int) else 0)
    + (if poly.getD (prevIdx poly.length pv) false then -(nSlices : Int) else -1)

/-- the triangles pushed for polygon vertex `pv` and slice `slice` (constructors.cpp:392-411) -/
def revolveVertTris (nDiv nSlices : Nat) (isFull : Bool) (poly : List Bool) (base pv slice : Nat) : List Tri :=
  let start := startOf nSlices poly base pv
  let currPos := poly.getD pv false
  let prevPos := poly.getD (prevIdx poly.length pv) false
  let prevStart := (prevStartOf nSlices poly start pv).toNat
  if isFull || decide (slice > 0) then
    let lastSlice := (if slice = 0 then nDiv else slice) - 1
    (if currPos then
       [(start + slice, start + lastSlice, if prevPos then prevStart + lastSlice else prevStart)]
     else []) ++
    (if prevPos then
       [(prevStart + lastSlice, prevStart + slice, if currPos then start + slice else start)]
     else [])
  else []

def revolvePolyTris (nDiv nSlices : Nat) (isFull : Bool) (poly : List Bool) (base : Nat) : List Tri :=
  (List.range poly.length).flatMap fun pv =>
    (List.range nSlices).flatMap fun slice => revolveVertTris nDiv nSlices isFull poly base pv slice

/-- all polygons, `base` = `vertPos.size()` when the polygon starts -/
def revolveSides (nDiv nSlices : Nat) (isFull : Bool) (base : Nat) : List (List Bool) → List Tri
  | [] => []
  | poly :: rest =>
      revolvePolyTris nDiv nSlices isFull poly base ++
        revolveSides nDiv nSlices isFull (base + pushedBy nSlices poly poly.length) rest

/-- `startPoses` (one entry per polygon vertex, all polygons concatenated) -/
def startPosList (nSlices : Nat) (base : Nat) : List (List Bool) → List Nat
  | [] => []
  | poly :: rest =>
      (List.range poly.length).map (startOf nSlices poly base) ++
        startPosList nSlices (base + pushedBy nSlices poly poly.length) rest

/-- `endPoses`: `vertPos.size() - 1` after the vertex's slices -/
def endPosList (nSlices : Nat) (base : Nat) : List (List Bool) → List Nat
  | [] => []
  | poly :: rest =>
      (List.range poly.length).map (fun k => startOf nSlices poly base (k + 1) - 1) ++
        endPosList nSlices (base + pushedBy nSlices poly poly.length) rest

def revolveCaps (sp ep : List Nat) (front : List Tri) : List Tri :=
  front.map (fun t => (sp.getD t.1 0, sp.getD t.2.1 0, sp.getD t.2.2 0)) ++
  front.map (fun t => (ep.getD t.2.2 0, ep.getD t.2.1 0, ep.getD t.1 0))

/-- the triangle list handed to `CreateHalfedges` -/
def revolveTris (polys : List (List Bool)) (nDiv : Nat) (isFull : Bool) (front : List Tri) : List Tri :=
  let nSlices := nSlicesOf nDiv isFull
  revolveSides nDiv nSlices isFull 0 polys ++
    (if isFull then [] else
      revolveCaps (startPosList nSlices 0 polys) (endPosList nSlices 0 polys) front)

def revolveNumVert (polys : List (List Bool)) (nDiv : Nat) (isFull : Bool) : Nat :=
  (polys.map fun p => pushedBy (nSlicesOf nDiv isFull) p p.length).sum

/-- the contours `Triangulate(polygons)` sees: vertices numbered consecutively over all polygons -/
def revolveContours (polys : List (List Bool)) : List (List Nat) := contours (polys.map List.length)

/-! ## canonical form for the correspondence (triangles as sets: `SortGeometry` renumbers) -/

def rotMin (t : Tri) : Tri :=
  if t.1 ≤ t.2.1 ∧ t.1 ≤ t.2.2 then t
  else if t.2.1 ≤ t.1 ∧ t.2.1 ≤ t.2.2 then (t.2.1, t.2.2, t.1)
  else (t.2.2, t.1, t.2.1)

def triKeyLe (a b : Tri) : Bool :=
  a.1 < b.1 || (a.1 == b.1 && (a.2.1 < b.2.1 || (a.2.1 == b.2.1 && a.2.2 ≤ b.2.2)))

def canonTris (ts : List Tri) : List Tri := (ts.map rotMin).mergeSort triKeyLe

end MV.Extrude
