/-
Model of the lazy CSG evaluator of /repo/src/csg_tree.{h,cpp} and of the part of
/repo/src/manifold.cpp that builds CSG nodes.  Core Lean only (the driver links this file).

C++ object                                   model
-------------------------------------------  ------------------------------------------------
shared_ptr<CsgNode>                          node id  = index into `Store.nodes`
CsgLeafNode {pImpl_, transform_}             `Node.leaf ⟨leafId, xf⟩`   (leafId names the Impl)
CsgOpNode {impl_, op_, transform_, cache_}   `Node.op implId op xf cache`
ConcurrentSharedPtr<vector<shared_ptr>>      impl id  = index into `Store.impls` (children ids);
                                             `CsgOpNode::Transform` copies the impl id, so op
                                             nodes that differ only in `transform_` SHARE it
mat3x4, `m * Mat4(n)`                        any type with `One`/`Mul`; `Mat` = 12 `Int`s
frame->op_node.use_count() <= 2 &&           one oracle bit per non-finalize frame visit
  impl_.UseCount() == 1                      (depends on the history of live handles)
BatchUnion / BatchBoolean / SimpleBoolean    a *result leaf* + an `Event` (`fin op pos neg`)

Everything the evaluator does that is not abstracted above is transliterated line by line;
the C++ line numbers refer to /repo/src/csg_tree.cpp.
-/
namespace MV.Csg

/-! ## transforms -/

/-- `mat3x4` with integer entries, row-major: `aIJ` is row `I`, column `J`
(column 3 is the translation). -/
structure Mat where
  a00 : Int
  a01 : Int
  a02 : Int
  a03 : Int
  a10 : Int
  a11 : Int
  a12 : Int
  a13 : Int
  a20 : Int
  a21 : Int
  a22 : Int
  a23 : Int
deriving DecidableEq, Repr, Inhabited

/-- `la::identity` -/
def Mat.id : Mat := ⟨1, 0, 0, 0, 0, 1, 0, 0, 0, 0, 1, 0⟩

/-- the C++ composition `m * Mat4(n)` (3x4 times the 4x4 extension of `n` by the row
`0 0 0 1`) -/
def Mat.mul (m n : Mat) : Mat :=
  ⟨m.a00 * n.a00 + m.a01 * n.a10 + m.a02 * n.a20,
   m.a00 * n.a01 + m.a01 * n.a11 + m.a02 * n.a21,
   m.a00 * n.a02 + m.a01 * n.a12 + m.a02 * n.a22,
   m.a00 * n.a03 + m.a01 * n.a13 + m.a02 * n.a23 + m.a03,
   m.a10 * n.a00 + m.a11 * n.a10 + m.a12 * n.a20,
   m.a10 * n.a01 + m.a11 * n.a11 + m.a12 * n.a21,
   m.a10 * n.a02 + m.a11 * n.a12 + m.a12 * n.a22,
   m.a10 * n.a03 + m.a11 * n.a13 + m.a12 * n.a23 + m.a13,
   m.a20 * n.a00 + m.a21 * n.a10 + m.a22 * n.a20,
   m.a20 * n.a01 + m.a21 * n.a11 + m.a22 * n.a21,
   m.a20 * n.a02 + m.a21 * n.a12 + m.a22 * n.a22,
   m.a20 * n.a03 + m.a21 * n.a13 + m.a22 * n.a23 + m.a23⟩

instance : One Mat := ⟨Mat.id⟩
instance : Mul Mat := ⟨Mat.mul⟩

def Mat.toList (m : Mat) : List Int :=
  [m.a00, m.a01, m.a02, m.a03, m.a10, m.a11, m.a12, m.a13, m.a20, m.a21, m.a22, m.a23]

def Mat.ofList? : List Int → Option Mat
  | [a, b, c, d, e, f, g, h, i, j, k, l] => some ⟨a, b, c, d, e, f, g, h, i, j, k, l⟩
  | _ => none

/-! ## nodes and the store -/

/-- `OpType` (Add, Subtract, Intersect) -/
inductive Op where
  | add
  | sub
  | int
deriving DecidableEq, Repr, Inhabited

/-- The identity of a `Manifold::Impl` (mesh).  `orig h`: a mesh supplied by the user
(handle number `h`); `res k`: the `k`-th mesh created by a finalize of the evaluator;
`empty`: a default-constructed (empty) `Impl`. -/
inductive LeafId where
  | orig (h : Nat)
  | res (k : Nat)
  | empty
deriving DecidableEq, Repr, Inhabited

variable {M : Type}

/-- value of a `CsgLeafNode`: `(pImpl_, transform_)` -/
structure Leaf (M : Type) where
  id : LeafId
  xf : M
deriving DecidableEq, Repr, Inhabited

/-- `CsgLeafNode::Transform(m)` (l.117-120): `(pImpl_, m * Mat4(transform_))` -/
def Leaf.transform [Mul M] (l : Leaf M) (m : M) : Leaf M := ⟨l.id, m * l.xf⟩

inductive Node (M : Type) where
  | leaf (l : Leaf M)
  /-- `impl`: id of the shared children vector, `o`: `op_`, `xf`: `transform_`,
  `cache`: `cache_` (node id of a leaf node) -/
  | op (impl : Nat) (o : Op) (xf : M) (cache : Option Nat)
deriving DecidableEq, Repr, Inhabited

structure Store (M : Type) where
  nodes : List (Node M) := []
  impls : List (List Nat) := []
  /-- number of result leaves created so far -/
  nextRes : Nat := 0
deriving Repr, Inhabited

def Store.isLeaf (s : Store M) (n : Nat) : Bool :=
  match s.nodes[n]? with
  | some (.leaf _) => true
  | _ => false

/-- `std::make_shared<...>(...)` : allocate a node, return its id -/
def Store.addNode (s : Store M) (nd : Node M) : Store M × Nat :=
  ({ s with nodes := s.nodes ++ [nd] }, s.nodes.length)

/-- `Manifold(std::shared_ptr<Impl>)` (manifold.cpp l.137): a user mesh, identity transform -/
def Store.newLeaf [One M] (s : Store M) (h : Nat) : Store M × Nat :=
  s.addNode (.leaf ⟨.orig h, 1⟩)

/-- `Manifold()` (manifold.cpp l.124): `std::make_shared<CsgLeafNode>()` -/
def Store.emptyLeaf [One M] (s : Store M) : Store M × Nat :=
  s.addNode (.leaf ⟨.empty, 1⟩)

/-- `std::make_shared<CsgOpNode>(children, op)` (l.567-569): a NEW impl vector, identity
transform, no cache -/
def Store.newOp [One M] (s : Store M) (children : List Nat) (o : Op) : Store M × Nat :=
  ({ s with nodes := s.nodes ++ [.op s.impls.length o 1 none],
            impls := s.impls ++ [children] }, s.nodes.length)

/-- `Manifold::Boolean` (manifold.cpp l.897) = `pNode_->Boolean(second.pNode_, op)`.
`CsgNode::Boolean` (l.47-59, `this` is a leaf): if `second` is an op node and the operation
is commutative, `second->Boolean(this, op)` builds the node, i.e. the children are SWAPPED;
`CsgOpNode::Boolean` (l.601-608): children `[this, second]`.  There is no construction-time
flattening. -/
def Store.boolean [One M] (s : Store M) (a b : Nat) (o : Op) : Store M × Nat :=
  if s.isLeaf a && !s.isLeaf b && (o == .add || o == .int) then s.newOp [b, a] o
  else s.newOp [a, b] o

/-- `Manifold::BatchBoolean` (manifold.cpp l.908-918) -/
def Store.batch [One M] (s : Store M) (as : List Nat) (o : Op) : Store M × Nat :=
  match as with
  | [] => s.emptyLeaf
  | [a] => (s, a)
  | _ => s.newOp as o

/-- `Manifold::Transform` (manifold.cpp l.552) = `pNode_->Transform(m)`:
`CsgLeafNode::Transform` (l.117-120) / `CsgOpNode::Transform` (l.610-616: same `impl_`,
`m * Mat4(transform_)`, same `op_`, `cache_` NOT copied). -/
def Store.transform [Mul M] (s : Store M) (a : Nat) (m : M) : Store M × Nat :=
  match s.nodes[a]? with
  | some (.leaf l) => s.addNode (.leaf (l.transform m))
  | some (.op i o x _) => s.addNode (.op i o (m * x) none)
  | none => (s, a)

/-! ## the explicit-stack evaluator `CsgOpNode::ToLeafNode` (l.641-846) -/

/-- `Nodes*` : pointer to the `positive_children` (`neg = false`) or `negative_children`
(`neg = true`) of the frame that sits at height `depth` above the bottom of the stack.
(Frames are only ever pointed to while they are on the stack, and a frame's height never
changes while it is on the stack.) -/
structure Dest where
  depth : Nat
  neg : Bool
deriving DecidableEq, Repr, Inhabited

/-- `CsgStackFrame` (l.618-639) -/
structure Frame (M : Type) where
  finalize : Bool
  parentOp : Op
  xf : M
  posDest : Option Dest
  negDest : Option Dest
  node : Nat
  pos : List (Leaf M) := []
  neg : List (Leaf M) := []
deriving Repr, Inhabited

/-- What one finalize did: `*impl = {res}` was computed from `pos`/`neg` by
`BatchUnion`/`BatchBoolean`/`SimpleBoolean`.  `fresh = true` iff `res` is a mesh that did not
exist before (then `res = ⟨.res k, 1⟩`); `fresh = false` iff the C++ returns one of its inputs
unchanged (`results.size() == 1`) or a default-constructed empty leaf. -/
structure Event (M : Type) where
  op : Op
  pos : List (Leaf M)
  neg : List (Leaf M)
  res : Leaf M
  fresh : Bool
deriving DecidableEq, Repr, Inhabited

def Frame.push (f : Frame M) (neg : Bool) (l : Leaf M) : Frame M :=
  if neg then { f with neg := f.neg ++ [l] } else { f with pos := f.pos ++ [l] }

/-- `dest->push_back(l)`; the stack is a list with the TOP at the head, so the frame at the
head of `f :: fs` has height `fs.length`. -/
def pushDest : List (Frame M) → Dest → Leaf M → List (Frame M)
  | [], _, _ => []
  | f :: fs, d, l =>
    if fs.length = d.depth then f.push d.neg l :: fs else f :: pushDest fs d l

/-- the lambda `add_children` (l.803-813).  Second component: undefined behaviour happened
(push through a null `dest1`, dangling node id). -/
def addChild [Mul M] (st : Store M) (acc : List (Frame M) × Bool) (c : Nat) (op : Op) (xf : M)
    (dest1 dest2 : Option Dest) : List (Frame M) × Bool :=
  match st.nodes[c]? with
  | some (.leaf lf) =>
    match dest1 with
    | some d => (pushDest acc.1 d (lf.transform xf), acc.2)
    | none => (acc.1, true)
  | some (.op _ _ _ _) =>
    ({ finalize := false, parentOp := op, xf := xf, posDest := dest1, negDest := dest2,
       node := c } :: acc.1, acc.2)
  | none => (acc.1, true)

/-- the loop l.835-842; `first` is `i == 0` -/
def addChildren [Mul M] (st : Store M) (o : Op) (xf : M) (posD negD : Option Dest) :
    List Nat → Bool → List (Frame M) × Bool → List (Frame M) × Bool
  | [], _, acc => acc
  | c :: cs, first, acc =>
    let negative := o == .sub && !first
    let dest1 := if negative then negD else posD
    let dest2 := if o == .sub && first then negD else none
    addChildren st o xf posD negD cs false
      (addChild st acc c (if negative then .add else o) xf dest1 dest2)

/-- `BatchUnion(children)` (l.496-563) seen from the caller: the vector is reduced IN PLACE to
one element (l.556-560: erase the processed tail, push the partial result, swap it to the
front; repeat while `size() > 1`) and `children.front()` is returned.  With one element
nothing happens and that element itself is returned.  `fresh` is the leaf that the Boolean
kernel creates when there are two or more.  (Empty input: `DEBUG_ASSERT`, then `front()` of
an empty vector.) -/
def batchUnion (children : List (Leaf M)) (fresh : Leaf M) : List (Leaf M) × Option (Leaf M) :=
  match children with
  | [] => ([], none)
  | [x] => ([x], some x)
  | _ :: _ :: _ => ([fresh], some fresh)

/-- The `switch` at finalize (l.768-794): value stored by `*impl = {…}`, whether it is a new
mesh, and whether undefined behaviour happened.  `fr = ⟨.res nextRes, 1⟩`. -/
def finalizeResult [One M] (fr : Leaf M) (o : Op) (pos neg : List (Leaf M)) :
    Leaf M × Bool × Bool :=
  match o with
  | .add =>
    -- `*impl = {BatchUnion(frame->positive_children, ctx)}`
    match (batchUnion pos fr).2 with
    | none => (⟨.empty, 1⟩, false, true)
    | some r => (r, decide (2 ≤ pos.length), false)
  | .int =>
    -- `BatchBoolean(OpType::Intersect, …)` (l.423-490): size 0 → new empty leaf,
    -- size 1 → `results.front()`, else a new mesh
    match pos with
    | [] => (⟨.empty, 1⟩, false, false)
    | [x] => (x, false, false)
    | _ :: _ :: _ => (fr, true, false)
  | .sub =>
    if pos.isEmpty then
      -- "nothing to subtract from, so the result is empty" : `make_shared<CsgLeafNode>()`
      (⟨.empty, 1⟩, false, false)
    else
      -- `auto positive = BatchUnion(frame->positive_children, ctx);`
      let pos' := (batchUnion pos fr).1
      if neg.isEmpty then
        -- `*impl = {frame->positive_children[0]};`  (the vector mutated by BatchUnion)
        match pos' with
        | r :: _ => (r, decide (2 ≤ pos.length), false)
        | [] => (⟨.empty, 1⟩, false, true)
      else
        -- `BatchUnion(negative_children)`, then `SimpleBoolean(positive, negative, Subtract)`
        (fr, true, false)

structure EvalState (M : Type) where
  st : Store M
  /-- top of the stack at the head -/
  stack : List (Frame M)
  /-- oracle bits not yet consumed -/
  orc : List Bool
  /-- number of oracle bits consumed -/
  used : Nat
  evs : List (Event M)
  ub : Bool
deriving Repr, Inhabited

/-- the leaf value held by node `n` -/
def Store.leafAt? (s : Store M) (n : Nat) : Option (Leaf M) :=
  match s.nodes[n]? with
  | some (.leaf l) => some l
  | _ => none

/-- One iteration of `while (!stack.empty())` (l.749-844), cancellation ignored (`ctx` null).
-/
def step [One M] [Mul M] (σ : EvalState M) : EvalState M :=
  match σ.stack with
  | [] => σ
  | frame :: rest =>
    -- `auto impl = frame->op_node->impl_.GetGuard();`
    match σ.st.nodes[frame.node]? with
    | some (.op i o nxf cache) =>
      if frame.finalize then
        -- l.766-801
        let r : EvalState M × Option (Leaf M) :=
          match cache with
          | some c => (σ, σ.st.leafAt? c)
          | none =>
            let fr : Leaf M := ⟨.res σ.st.nextRes, 1⟩
            let (res, fresh, ub') := finalizeResult fr o frame.pos frame.neg
            -- `*impl = {res}` : node `n1`;
            -- `cache_ = (*impl)[0]->Transform(op_node->transform_)` : node `n2`
            let n1 := σ.st.nodes.length
            let n2 := n1 + 1
            let cl := res.transform nxf
            let st' : Store M :=
              { nodes := σ.st.nodes.set frame.node (.op i o nxf (some n2))
                           ++ [.leaf res, .leaf cl],
                impls := σ.st.impls.set i [n1],
                nextRes := if fresh then σ.st.nextRes + 1 else σ.st.nextRes }
            ({ σ with st := st',
                      evs := σ.evs ++ [{ op := o, pos := frame.pos, neg := frame.neg,
                                         res := res, fresh := fresh }],
                      ub := σ.ub || ub' }, some cl)
        match r.2 with
        | some cl =>
          -- `if (positive_dest != nullptr) positive_dest->push_back(cache_->Transform(transform))`
          match frame.posDest with
          | some d => { r.1 with stack := pushDest rest d (cl.transform frame.xf) }
          | none => { r.1 with stack := rest }
        | none => { r.1 with stack := rest, ub := true }
      else
        -- l.803-842
        let impl := σ.st.impls.getD i []
        let bit := σ.orc.headD false
        let canCollapse :=
          frame.posDest.isSome && ((o == frame.parentOp && bit) || impl.length == 1)
        -- `if (canCollapse) stack.pop_back(); else frame->finalize = true;`
        let stack1 := if canCollapse then rest else { frame with finalize := true } :: rest
        let xf : M := if canCollapse then frame.xf * nxf else 1
        let posD := if canCollapse then frame.posDest else some ⟨rest.length, false⟩
        let negD := if canCollapse then frame.negDest else some ⟨rest.length, true⟩
        let r := addChildren σ.st o xf posD negD impl true (stack1, σ.ub)
        { σ with stack := r.1, ub := r.2, orc := σ.orc.tail, used := σ.used + 1 }
    | _ => { σ with stack := rest, ub := true }

/-- `fuel` iterations of the loop (a `step` on an empty stack does nothing) -/
def run [One M] [Mul M] : Nat → EvalState M → EvalState M
  | 0, σ => σ
  | f + 1, σ => if σ.stack.isEmpty then σ else run f (step σ)

structure EvalResult (M : Type) where
  st : Store M
  /-- node id of the returned `shared_ptr<CsgLeafNode>` -/
  ret : Nat
  evs : List (Event M)
  /-- unused oracle bits -/
  orc : List Bool
  used : Nat
  /-- the loop terminated within the fuel and the root got its `cache_` -/
  ok : Bool
  ub : Bool
deriving Repr, Inhabited

/-- `node->ToLeafNode()`.
`CsgLeafNode::ToLeafNode` (l.112-115): a copy.  `CsgOpNode::ToLeafNode` (l.641-846): return
`cache_` if present, else run the stack loop from the frame
`(false, op_, identity, nullptr, nullptr, this)` and return `cache_`. -/
def toLeaf [One M] [Mul M] (s : Store M) (n : Nat) (orc : List Bool) (fuel : Nat) :
    EvalResult M :=
  match s.nodes[n]? with
  | some (.leaf l) =>
    let r := s.addNode (.leaf l)
    { st := r.1, ret := r.2, evs := [], orc := orc, used := 0, ok := true, ub := false }
  | some (.op _ _ _ (some c)) =>
    { st := s, ret := c, evs := [], orc := orc, used := 0, ok := true, ub := false }
  | some (.op _ o _ none) =>
    let σ := run fuel { st := s,
                        stack := [{ finalize := false, parentOp := o, xf := 1,
                                    posDest := none, negDest := none, node := n }],
                        orc := orc, used := 0, evs := [], ub := false }
    match σ.st.nodes[n]? with
    | some (.op _ _ _ (some c)) =>
      { st := σ.st, ret := c, evs := σ.evs, orc := σ.orc, used := σ.used,
        ok := σ.stack.isEmpty, ub := σ.ub }
    | _ => { st := σ.st, ret := n, evs := σ.evs, orc := σ.orc, used := σ.used,
             ok := false, ub := σ.ub }
  | none => { st := s, ret := n, evs := [], orc := orc, used := 0, ok := false, ub := true }

/-- Number of loop iterations that always suffices for the frame of node `n`: 2 per frame
(visit + finalize), frames counted along the *tree unfolding* (with an adversarial oracle a
shared node can be collapsed, hence re-expanded, once per parent). -/
def costF (s : Store M) : Nat → Nat → Nat
  | 0, _ => 0
  | f + 1, n =>
    match s.nodes[n]? with
    | some (.op i _ _ _) => 2 + ((s.impls.getD i []).map (costF s f)).sum
    | _ => 0

def cost (s : Store M) (n : Nat) : Nat := costF s (s.impls.length + 1) n

/-- `Manifold::GetCsgLeafNode` (manifold.cpp l.183-207):
`if (pNode_->GetNodeType() != Leaf) pNode_ = pNode_->ToLeafNode();`
The caller replaces the handle's root by `ret`. -/
def force [One M] [Mul M] (s : Store M) (n : Nat) (orc : List Bool) : EvalResult M :=
  if s.isLeaf n then
    { st := s, ret := n, evs := [], orc := orc, used := 0, ok := true, ub := false }
  else toLeaf s n orc (cost s n)

/-- a forcing history on node ids: each call forces one node with its own oracle.  Returns the
final store, the leaf returned by each call, all events, and whether every call was `ok`
without undefined behaviour. -/
def forceSeq [One M] [Mul M] (s : Store M) :
    List (Nat × List Bool) → Store M × List (Option (Leaf M)) × List (Event M) × Bool
  | [] => (s, [], [], true)
  | (n, orc) :: cs =>
    let r := force s n orc
    let rest := forceSeq r.st cs
    (rest.1, r.st.leafAt? r.ret :: rest.2.1, r.evs ++ rest.2.2.1,
      (r.ok && !r.ub) && rest.2.2.2)

/-! ## API-level programs (what the driver executes) -/

inductive Cmd (M : Type) where
  /-- `h := Manifold(mesh h)` -/
  | leaf (h : Nat)
  /-- `h := a.Boolean(b, o)` (`operator+ - ^`; `a += b` is `bool a o a b`) -/
  | bool (h : Nat) (o : Op) (a b : Nat)
  /-- `h := Manifold::BatchBoolean(as, o)` -/
  | batch (h : Nat) (o : Op) (as : List Nat)
  /-- `h := a.Transform(m)` -/
  | xf (h a : Nat) (m : M)
  /-- `h` goes out of scope -/
  | drop (h : Nat)
  /-- `h.GetCsgLeafNode()` with the given oracle -/
  | force (h : Nat) (orc : List Bool)
deriving Repr

def lookupAll {α : Type} (env : List (Nat × α)) : List Nat → Option (List α)
  | [] => some []
  | a :: as =>
    match env.lookup a, lookupAll env as with
    | some v, some vs => some (v :: vs)
    | _, _ => none

structure Sess (M : Type) where
  st : Store M := {}
  /-- handle ↦ root node (`Manifold::pNode_`); the first binding of a handle is the live one -/
  handles : List (Nat × Nat) := []
  evs : List (Event M) := []
  /-- the leaves returned by the `force` commands, in order -/
  rets : List (Leaf M) := []
  ok : Bool := true
deriving Repr

def Sess.exec [One M] [Mul M] (σ : Sess M) : Cmd M → Sess M
  | .leaf h =>
    let r := σ.st.newLeaf h
    { σ with st := r.1, handles := (h, r.2) :: σ.handles }
  | .bool h o a b =>
    match σ.handles.lookup a, σ.handles.lookup b with
    | some na, some nb =>
      let r := σ.st.boolean na nb o
      { σ with st := r.1, handles := (h, r.2) :: σ.handles }
    | _, _ => { σ with ok := false }
  | .batch h o as =>
    match lookupAll σ.handles as with
    | some ns =>
      let r := σ.st.batch ns o
      { σ with st := r.1, handles := (h, r.2) :: σ.handles }
    | none => { σ with ok := false }
  | .xf h a m =>
    match σ.handles.lookup a with
    | some na =>
      let r := σ.st.transform na m
      { σ with st := r.1, handles := (h, r.2) :: σ.handles }
    | none => { σ with ok := false }
  | .drop h => { σ with handles := σ.handles.filter (fun p => p.1 != h) }
  | .force h orc =>
    match σ.handles.lookup h with
    | some n =>
      let r := force σ.st n orc
      match r.st.leafAt? r.ret with
      | some l =>
        -- `pNode_ = pNode_->ToLeafNode()` : the handle now holds the returned leaf
        { st := r.st, handles := (h, r.ret) :: σ.handles, evs := σ.evs ++ r.evs,
          rets := σ.rets ++ [l], ok := σ.ok && r.ok && !r.ub }
      | none => { σ with ok := false }
    | none => { σ with ok := false }

def Sess.run [One M] [Mul M] (σ : Sess M) (prog : List (Cmd M)) : Sess M :=
  prog.foldl Sess.exec σ

/-! ## structural well-formedness (decidable) -/

def Store.implOf? (s : Store M) (n : Nat) : Option Nat :=
  match s.nodes[n]? with
  | some (.op i _ _ _) => some i
  | _ => none

def Store.opOf? (s : Store M) (n : Nat) : Option (Nat × Op) :=
  match s.nodes[n]? with
  | some (.op i o _ _) => some (i, o)
  | _ => none

/-- every child of impl `j` exists and, if it is an op node, its impl id is smaller than `j`
(acyclicity; impls are numbered in creation order and children exist before their parent) -/
def Store.implOk (s : Store M) (j : Nat) (ch : List Nat) : Bool :=
  ch.all (fun c =>
    match s.nodes[c]? with
    | some (.leaf _) => true
    | some (.op i _ _ _) => decide (i < j)
    | none => false)
  && (decide (2 ≤ ch.length) ||
      match ch with
      | [c] => s.isLeaf c
      | _ => false)

def Store.nodeOk (s : Store M) (nd : Node M) : Bool :=
  match nd with
  | .leaf _ => true
  | .op i o _ cache =>
    decide (i < s.impls.length)
    -- op nodes sharing an impl have the same op
    && s.nodes.all (fun nd' => match nd' with
        | .op i' o' _ _ => i' != i || o' == o
        | _ => true)
    && (match cache with
        | none => true
        | some c => s.isLeaf c &&
            match s.impls.getD i [] with
            | [c'] => s.isLeaf c'
            | _ => false)

def allIdx {α : Type} (p : Nat → α → Bool) : Nat → List α → Bool
  | _, [] => true
  | i, x :: xs => p i x && allIdx p (i + 1) xs

/-- structural part of the invariant `WF` -/
def Store.wf (s : Store M) : Bool :=
  s.nodes.all s.nodeOk && allIdx s.implOk 0 s.impls

/-! ## denotation -/

/-- A Boolean-algebra-like structure of solids.  Exactly the laws used by the proofs. -/
class SolidAlg (S : Type) where
  union : S → S → S
  inter : S → S → S
  diff : S → S → S
  empty : S
  union_assoc : ∀ a b c, union (union a b) c = union a (union b c)
  union_comm : ∀ a b, union a b = union b a
  union_empty : ∀ a, union a empty = a
  inter_assoc : ∀ a b c, inter (inter a b) c = inter a (inter b c)
  inter_comm : ∀ a b, inter a b = inter b a
  diff_empty : ∀ a, diff a empty = a
  diff_diff : ∀ a b c, diff (diff a b) c = diff a (union b c)

/-- action of the transform monoid on solids, distributing over the operations -/
class XfAct (M : Type) (S : Type) [One M] [Mul M] [SolidAlg S] where
  act : M → S → S
  act_one : ∀ s, act 1 s = s
  act_mul : ∀ m n s, act (m * n) s = act m (act n s)
  act_union : ∀ m a b, act m (SolidAlg.union a b) = SolidAlg.union (act m a) (act m b)
  act_inter : ∀ m a b, act m (SolidAlg.inter a b) = SolidAlg.inter (act m a) (act m b)
  act_diff : ∀ m a b, act m (SolidAlg.diff a b) = SolidAlg.diff (act m a) (act m b)
  act_empty : ∀ m, act m (SolidAlg.empty : S) = SolidAlg.empty

open SolidAlg XfAct

variable {S : Type}

/-- `⋃` -/
def bigU [SolidAlg S] (l : List S) : S := l.foldr union empty

/-- `⋂` with an adjoined unit (`none` = "no operand yet") -/
def bigIo [SolidAlg S] : List S → Option S
  | [] => none
  | x :: xs => some (match bigIo xs with
                     | none => x
                     | some y => inter x y)

/-- `⋂` of a non-empty list; the C++ returns an empty mesh for no operands -/
def bigI [SolidAlg S] (l : List S) : S := (bigIo l).getD empty

/-- n-ary semantics of an op node: Add = union of all, Intersect = intersection of all,
Subtract = first minus the union of the rest -/
def opSem [SolidAlg S] (o : Op) (vs : List S) : S :=
  match o with
  | .add => bigU vs
  | .int => bigI vs
  | .sub => match vs with
            | [] => empty
            | v :: rest => diff v (bigU rest)

/-- a valuation of the meshes: user meshes and result meshes -/
structure Val (S : Type) where
  orig : Nat → S
  res : Nat → S

def Val.leafId [SolidAlg S] (L : Val S) : LeafId → S
  | .orig h => L.orig h
  | .res k => L.res k
  | .empty => empty

/-- the solid of a leaf node: its mesh moved by its transform -/
def Val.leaf [One M] [Mul M] [SolidAlg S] [XfAct M S] (L : Val S) (l : Leaf M) : S :=
  act l.xf (L.leafId l.id)

def Val.leaves [One M] [Mul M] [SolidAlg S] [XfAct M S] (L : Val S) (ls : List (Leaf M)) :
    List S := ls.map L.leaf

/-- what `BatchUnion(pos)`, `BatchBoolean(Intersect, pos)`, `BatchUnion(pos) - BatchUnion(neg)`
are meant to compute (see `batch_eq_fold` for the independence from partition/heap order) -/
def evSem [One M] [Mul M] [SolidAlg S] [XfAct M S] (L : Val S) (o : Op)
    (pos neg : List (Leaf M)) : S :=
  match o with
  | .add => bigU (L.leaves pos)
  | .int => bigI (L.leaves pos)
  | .sub => diff (bigU (L.leaves pos)) (bigU (L.leaves neg))

/-- `L` gives every freshly created result mesh the value of the operation that created it -/
def Respects [One M] [Mul M] [SolidAlg S] [XfAct M S] (L : Val S) (evs : List (Event M)) :
    Prop :=
  ∀ e ∈ evs, e.fresh = true → L.leaf e.res = evSem L e.op e.pos e.neg

/-- denotation with fuel (`fuel > rank` suffices on acyclic stores) -/
def denoteF [One M] [Mul M] [SolidAlg S] [XfAct M S] (L : Val S) (s : Store M) :
    Nat → Nat → S
  | 0, _ => empty
  | f + 1, n =>
    match s.nodes[n]? with
    | some (.leaf l) => L.leaf l
    | some (.op i o m _) => act m (opSem o ((s.impls.getD i []).map (denoteF L s f)))
    | none => empty

/-- the solid denoted by node `n` of store `s` -/
def denote [One M] [Mul M] [SolidAlg S] [XfAct M S] (L : Val S) (s : Store M) (n : Nat) : S :=
  denoteF L s (s.impls.length + 1) n

/-! ## eager semantics of programs -/

/-- every handle denotes a solid, computed at once when the handle is created -/
structure Spec (S : Type) where
  env : List (Nat × S) := []
  /-- the solids that the `force` commands must return -/
  rets : List S := []

/-- the binary operation of `Manifold::Boolean` -/
def binSem [SolidAlg S] (o : Op) (a b : S) : S :=
  match o with
  | .add => union a b
  | .int => inter a b
  | .sub => diff a b

def Spec.exec [One M] [Mul M] [SolidAlg S] [XfAct M S] (L : Val S) (sp : Spec S) :
    Cmd M → Spec S
  | .leaf h => { sp with env := (h, L.orig h) :: sp.env }
  | .bool h o a b =>
    match sp.env.lookup a, sp.env.lookup b with
    | some va, some vb => { sp with env := (h, binSem o va vb) :: sp.env }
    | _, _ => sp
  | .batch h o as =>
    match lookupAll sp.env as with
    | some vs => { sp with env := (h, opSem o vs) :: sp.env }
    | none => sp
  | .xf h a m =>
    match sp.env.lookup a with
    | some va => { sp with env := (h, act m va) :: sp.env }
    | none => sp
  | .drop h => { sp with env := sp.env.filter (fun p => p.1 != h) }
  | .force h _ =>
    match sp.env.lookup h with
    | some v => { sp with rets := sp.rets ++ [v] }
    | none => sp

def Spec.run [One M] [Mul M] [SolidAlg S] [XfAct M S] (L : Val S) (sp : Spec S)
    (prog : List (Cmd M)) : Spec S :=
  prog.foldl (Spec.exec L) sp

end MV.Csg
