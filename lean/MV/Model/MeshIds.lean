import MV.Model.Export
/-
Mesh-ID bookkeeping around the relation table.  Core Lean only.

  incrementMeshIDs   `Impl::IncrementMeshIDs` (/repo/src/impl.cpp:744-760): the keys of
                     `meshIDtransform` are renumbered `next, next+1, …` in ascending key order
                     (`next = ReserveIDs(size)`), the refs are read through the old→new table
  updateReference    `UpdateReference` + `MapTriRef` (/repo/src/boolean_result.cpp:505-538):
                     P's relations are copied, Q's keys are shifted by
                     `offsetQ = meshIDCounter_` and their backSide is xor-ed with `invertQ`;
                     triangles of Q get `meshID += offsetQ`
  composeRelations   `CsgLeafNode::Compose` (/repo/src/csg_tree.cpp:289, 390-412): node `i`'s
                     keys and refs are shifted by `i * meshIDCounterSnapshot`
-/
namespace MV.Export

variable {τ : Type}

/-! ## IncrementMeshIDs -/

/-- old key ↦ new key: the `HashTable<uint32_t> meshIDold2new` -/
def old2new (m : RelMap τ) (next : Int) : List (Int × Int) :=
  m.zipIdx.map fun kvi => (kvi.1.1, next + kvi.2)

/-- `meshIDold2new[id]`; an absent key reads the table's "missing" value, modelled as `-1`
(never happens: every triRef.meshID is a key of the table) -/
def old2newAt (t : List (Int × Int)) (id : Int) : Int :=
  ((t.find? (fun p => p.1 == id)).map (·.2)).getD (-1)

/-- the new relation table: same relations, keys `next + position` -/
def incrementKeys (m : RelMap τ) (next : Int) : RelMap τ :=
  m.zipIdx.map fun kvi => (next + kvi.2, kvi.1.2)

def incrementMeshIDs (m : RelMap τ) (refs : List TriRef) (next : Int) : RelMap τ × List TriRef :=
  let t := old2new m next
  (incrementKeys m next, refs.map fun r => { r with meshID := old2newAt t r.meshID })

/-! ## Boolean: UpdateReference -/

/-- the two loops boolean_result.cpp:530-537 -/
def updateReference (mP mQ : RelMap τ) (offsetQ : Int) (invertQ : Bool) : RelMap τ :=
  let m := mP.foldl (fun m kv => RelMap.insert m kv.1 kv.2) ([] : RelMap τ)
  mQ.foldl (fun m kv => RelMap.insert m (kv.1 + offsetQ) { kv.2 with backSide := xor kv.2.backSide invertQ }) m

/-- `MapTriRef`: `fromQ = (triRef.meshID != 0)` on entry, `tri = triRef.faceID` on entry -/
def mapTriRef (refP refQ : Array TriRef) (offsetQ : Int) (fromQ : Bool) (tri : Nat) : TriRef :=
  if fromQ then
    let r := refQ.getD tri default
    { r with meshID := r.meshID + offsetQ }
  else refP.getD tri default

/-! ## Compose -/

/-- csg_tree.cpp:399-412: node `i` (relation table `ms[i]`) goes to keys `k + i * snapshot` -/
def composeRelations (ms : List (RelMap τ)) (snapshot : Int) : RelMap τ :=
  ms.zipIdx.foldl (fun acc mi =>
    mi.1.foldl (fun acc kv => RelMap.insert acc (kv.1 + mi.2 * snapshot) kv.2) acc) ([] : RelMap τ)

/-- csg_tree.cpp:390-397 -/
def composeRef (snapshot : Int) (i : Nat) (r : TriRef) : TriRef :=
  { r with meshID := r.meshID + i * snapshot }

end MV.Export
