/-
C20 — object lifecycle of the C binding (bindings/c/manifoldc.cpp, sections "memory size",
"allocation", "pointer free + destruction", "destruction"; manifoldc.h).

Two machines over the same programs (lists of `(op, object id)`):

* `Life.cstep` — a concrete memory model of one object slot: which storage it occupies (none yet /
  obtained from `manifold_alloc_*` = `::operator new(sizeof(T))` / a caller buffer of `manifold_*_size()`
  bytes / gone), whether a C++ object currently lives there, and counters of constructor runs,
  destructor runs, allocations and frees.  Every misuse is a `Fault` (double destruct, use after
  free, delete of storage that did not come from operator new, construction over a live object = leak,
  release of a buffer that still holds a live object = leak, …).
* `Life.astep` — the protocol of the header as an automaton per object:
  `fresh → raw → constructed → destructed → freed`
  (`alloc` / `buffer` give raw; any constructor wrapper gives constructed and requires raw or destructed;
  `destruct` requires constructed; `delete` = destruct + free requires constructed-from-alloc;
  `release` = the caller disposing of its own buffer requires raw or destructed caller storage).

`MV/Props/C20.lean` proves that every program the automaton accepts runs without a fault on the
concrete machine, with `ctors = dtors (+1 if alive)` and `allocs = frees (+1 if heap storage is held)`.
Core Lean only (linked into mvdriver: engine `cbind`).
-/

namespace MV.CBind.Life

inductive Op where
  | alloc      -- manifold_alloc_T()
  | buffer     -- caller provides manifold_T_size() bytes
  | construct  -- any wrapper that placement-news a T into `mem`
  | use        -- any wrapper that reads the object through from_c
  | destruct   -- manifold_destruct_T(p)
  | delete     -- manifold_delete_T(p)
  | release    -- caller frees / reuses its own buffer
  deriving DecidableEq, Repr

abbrev Obj := Nat
abbrev Prog := List (Op × Obj)

/-! ### concrete machine -/

inductive Storage where
  | none | heap | caller | gone
  deriving DecidableEq, Repr

structure Cell where
  storage : Storage
  alive : Bool
  ctors : Nat
  dtors : Nat
  allocs : Nat
  frees : Nat
  deriving DecidableEq, Repr

def Cell.init : Cell := ⟨.none, false, 0, 0, 0, 0⟩

inductive Fault where
  | idReused            -- alloc/buffer on an id that already names storage
  | noStorage           -- construct/use/destruct/delete/release on an id that never had storage
  | useAfterFree        -- any access after the storage is gone (incl. double delete = double free)
  | overwriteLive       -- constructor over a live object: the old object's resources leak
  | notConstructed      -- use of raw or destructed storage
  | doubleDestruct      -- destructor on raw or already destructed storage
  | badFree             -- delete of storage that did not come from manifold_alloc_*
  | leakOnRelease       -- caller buffer released while the object in it is still alive
  | releaseOfHeap       -- `release` is for caller storage only
  deriving DecidableEq, Repr

abbrev Mem := Obj → Cell

def upd {α : Type} (f : Obj → α) (o : Obj) (v : α) : Obj → α := fun x => if x = o then v else f x

def cellStep (c : Cell) : Op → Except Fault Cell
  | .alloc => match c.storage with
    | .none => .ok { c with storage := .heap, allocs := c.allocs + 1 }
    | _ => .error .idReused
  | .buffer => match c.storage with
    | .none => .ok { c with storage := .caller }
    | _ => .error .idReused
  | .construct => match c.storage with
    | .none => .error .noStorage
    | .gone => .error .useAfterFree
    | _ => if c.alive then .error .overwriteLive else .ok { c with alive := true, ctors := c.ctors + 1 }
  | .use => match c.storage with
    | .none => .error .noStorage
    | .gone => .error .useAfterFree
    | _ => if c.alive then .ok c else .error .notConstructed
  | .destruct => match c.storage with
    | .none => .error .noStorage
    | .gone => .error .useAfterFree
    | _ => if c.alive then .ok { c with alive := false, dtors := c.dtors + 1 } else .error .doubleDestruct
  | .delete => match c.storage with
    | .none => .error .noStorage
    | .gone => .error .useAfterFree
    | .caller => .error .badFree
    | .heap => if c.alive then .ok { c with alive := false, dtors := c.dtors + 1, storage := .gone, frees := c.frees + 1 }
               else .error .doubleDestruct
  | .release => match c.storage with
    | .none => .error .noStorage
    | .gone => .error .useAfterFree
    | .heap => .error .releaseOfHeap
    | .caller => if c.alive then .error .leakOnRelease else .ok { c with storage := .gone }

def cstep (m : Mem) (s : Op × Obj) : Except Fault Mem :=
  match cellStep (m s.2) s.1 with
  | .ok c => .ok (upd m s.2 c)
  | .error f => .error f

def crun : Mem → Prog → Except Fault Mem
  | m, [] => .ok m
  | m, s :: rest => match cstep m s with
    | .ok m' => crun m' rest
    | .error f => .error f

/-- nothing leaked: no live object, no heap storage held, every constructed object destructed, every allocation freed -/
def Cell.clean (c : Cell) : Prop := c.alive = false ∧ c.storage ≠ .heap ∧ c.ctors = c.dtors ∧ c.allocs = c.frees

/-! ### protocol automaton -/

inductive St where
  | fresh
  | raw (heap : Bool)
  | constructed (heap : Bool)
  | destructed (heap : Bool)
  | freed
  deriving DecidableEq, Repr

def stStep : St → Op → Option St
  | .fresh, .alloc => some (.raw true)
  | .fresh, .buffer => some (.raw false)
  | .raw h, .construct => some (.constructed h)
  | .destructed h, .construct => some (.constructed h)
  | .constructed h, .use => some (.constructed h)
  | .constructed h, .destruct => some (.destructed h)
  | .constructed true, .delete => some .freed
  | .raw false, .release => some .freed
  | .destructed false, .release => some .freed
  | _, _ => none

abbrev Abs := Obj → St

def astep (σ : Abs) (s : Op × Obj) : Option Abs := (stStep (σ s.2) s.1).map (upd σ s.2)

def arun : Abs → Prog → Option Abs
  | σ, [] => some σ
  | σ, s :: rest => match astep σ s with
    | some σ' => arun σ' rest
    | none => none

/-- the object is finished: never created, freed, or a destructed / never used buffer the caller still owns -/
def St.done : St → Bool
  | .fresh | .freed | .destructed false | .raw false => true
  | _ => false

/-! ### executable summary for the driver (objects are numbered `0 … n-1`) -/

def summary (n : Nat) (p : Prog) : String :=
  match arun (fun _ => .fresh) p, crun (fun _ => Cell.init) p with
  | some σ, .ok m =>
    let leaks := (List.range n).filter (fun o => !(σ o).done)
    let dirty := (List.range n).filter (fun o => !(decide ((m o).alive = false) && decide ((m o).storage ≠ .heap) && (m o).ctors == (m o).dtors && (m o).allocs == (m o).frees))
    if leaks.isEmpty && dirty.isEmpty then "accept clean"
    else "accept leak " ++ toString leaks ++ " " ++ toString dirty
  | none, .ok _ => "reject model-only"
  | some _, .error f => "accept FAULT " ++ reprStr f
  | none, .error f => "reject " ++ reprStr f

end MV.CBind.Life
